#!/usr/bin/env python3
"""Print the prompt for an isolated seeded-change sub-agent for one property (only the property text is given)."""
import json, sys
pid, n = sys.argv[1], (sys.argv[2] if len(sys.argv) > 2 else "1")
for l in open('/verif/properties.jsonl'):
    p = json.loads(l)
    if p['id'] == pid:
        break
wt = f"/tmp/seed/{pid}-{n}"
print(f"""You are testing how robust a Go code base is against subtle regressions. The code base is slackhq/nebula (a peer-to-peer overlay VPN), checked out for you as a scratch git worktree at {wt} (work ONLY there; do not touch /repo or /verif, and do not read anything under /verif). The sandbox has no network; use `export GOFLAGS=-mod=mod GOPROXY=off` in every shell call (leave GOSUMDB unset). Shell output may start with an unrelated conda warning line; ignore it.

Here is a semantic property that nebula is supposed to satisfy:

  Title: {p['title']}
  Statement: {p['statement']}
  Holds for: {p['quantifier']['text']}
  Relevant files: {', '.join(p['anchors']['files'])}
  Mechanisms meant to make it hold: {'; '.join(m['name'] + ' (' + m.get('where','') + ')' for m in p['anchors']['mechanism'])}

Your job: produce ONE realistic change to nebula's non-test Go source (the kind of mistake a competent developer could make in a refactor, optimisation or bug-fix: an off-by-one in a bound, a dropped or weakened guard, a swapped operand, a wrong constant, a mishandled wrap-around, a missing ownership/expiry check, state updated in the wrong order, two cooperating sites that each look fine alone …) that BREAKS this property, while
  * the code still compiles (`go build ./...`) and the repository's EXISTING tests still pass unedited (at least `go test -count=1 ./...` in the affected package(s) and every package that imports them; run the root package tests too if the change is there),
  * the breakage needs something specific to manifest — a particular interleaving, a multi-step sequence of operations, an unusual or boundary input, a rare state, or two cooperating sites — NOT something ordinary use or a trivial smoke test would expose at once. Prefer a change that only misbehaves on a narrow input class.
Do not change test files, build files, or anything unrelated; keep the change small (a few lines). Do not add comments that reveal the change.

Also produce a demonstration: a new Go test file (or small program) that FAILS with your change applied and PASSES on the original code, exercising the real nebula code. Verify both directions yourself (use `git diff > patch.diff; git checkout -- .; …; git apply patch.diff`; do NOT use `git stash`: the stash is shared with other worktrees of the same repository that other people are using).

Deliver, in the directory {wt}-out/ (create it):
  patch.diff   — `git diff` of your change to non-test source only (must apply with `git apply` on the original tree)
  demo/        — the demonstration file(s) with their path relative to the repo root noted in NOTES.md, and the exact command to run them
  NOTES.md     — what the change is, why it breaks the property, exactly what is needed for it to manifest (the specific input / sequence / state), which existing tests you ran and their result, and the demo command with its output before/after.
Leave the worktree itself clean (`git status` empty) when you finish. Your final message should summarise NOTES.md in a few lines.""")
