// Engine `payload` (C08): handshake.MarshalPayload / UnmarshalPayload against (a) the Lean model,
// (b) the proto3 schema of handshake/handshake.proto as read and written by google.golang.org/protobuf
// (dynamic message built from the .proto text of the repository), and the protowire primitives against
// the shared Lean theory Base/Wire.
package payload

import (
	"fmt"
	"os"
	"path/filepath"
	"regexp"
	"strconv"
	"strings"
	"testing"

	"github.com/slackhq/nebula/handshake"
	"google.golang.org/protobuf/encoding/protowire"
	"google.golang.org/protobuf/proto"
	"google.golang.org/protobuf/reflect/protodesc"
	"google.golang.org/protobuf/reflect/protoreflect"
	"google.golang.org/protobuf/types/descriptorpb"
	"google.golang.org/protobuf/types/dynamicpb"
	"verifharness/hlib"
)

// ---- schema: parsed from handshake/handshake.proto of the repository under test

var (
	mdOuter, mdDetails protoreflect.MessageDescriptor
)

func repoDir() string {
	if d := os.Getenv("VERIF_REPO"); d != "" {
		return d
	}
	return "/repo"
}

func loadSchema() {
	if mdOuter != nil {
		return
	}
	src, err := os.ReadFile(filepath.Join(repoDir(), "handshake", "handshake.proto"))
	if err != nil {
		panic("harness: cannot read handshake.proto: " + err.Error())
	}
	text := regexp.MustCompile(`//[^\n]*`).ReplaceAllString(string(src), "")
	msgRe := regexp.MustCompile(`(?s)message\s+(\w+)\s*\{(.*?)\}`)
	fldRe := regexp.MustCompile(`(\w+)\s+(\w+)\s*=\s*(\d+)\s*(\[[^\]]*\])?\s*;`)
	fd := &descriptorpb.FileDescriptorProto{
		Name:    proto.String("handshake.proto"),
		Package: proto.String("nebula.handshake"),
		Syntax:  proto.String("proto3"),
	}
	scalar := map[string]descriptorpb.FieldDescriptorProto_Type{
		"bytes":  descriptorpb.FieldDescriptorProto_TYPE_BYTES,
		"uint32": descriptorpb.FieldDescriptorProto_TYPE_UINT32,
		"uint64": descriptorpb.FieldDescriptorProto_TYPE_UINT64,
	}
	for _, m := range msgRe.FindAllStringSubmatch(text, -1) {
		md := &descriptorpb.DescriptorProto{Name: proto.String(m[1])}
		for _, f := range fldRe.FindAllStringSubmatch(m[2], -1) {
			if f[1] == "reserved" || f[1] == "option" {
				continue
			}
			num, _ := strconv.Atoi(f[3])
			fp := &descriptorpb.FieldDescriptorProto{
				Name:     proto.String(f[2]),
				JsonName: proto.String(f[2]),
				Number:   proto.Int32(int32(num)),
				Label:    descriptorpb.FieldDescriptorProto_LABEL_OPTIONAL.Enum(),
			}
			if t, ok := scalar[f[1]]; ok {
				fp.Type = t.Enum()
			} else {
				fp.Type = descriptorpb.FieldDescriptorProto_TYPE_MESSAGE.Enum()
				fp.TypeName = proto.String(".nebula.handshake." + f[1])
			}
			md.Field = append(md.Field, fp)
		}
		fd.MessageType = append(fd.MessageType, md)
	}
	file, err := protodesc.NewFile(fd, nil)
	if err != nil {
		panic("harness: handshake.proto does not form a schema: " + err.Error())
	}
	mdOuter = file.Messages().ByName("NebulaHandshake")
	mdDetails = file.Messages().ByName("NebulaHandshakeDetails")
	if mdOuter == nil || mdDetails == nil {
		panic("harness: handshake.proto lacks NebulaHandshake / NebulaHandshakeDetails")
	}
}

func showP(c []byte, ii, ri uint32, t uint64, cv uint32) string {
	return fmt.Sprintf("ok %s %d %d %d %d", hlib.Hex(c), ii, ri, t, cv)
}

func hsUnmarshal(b []byte) string {
	p, err := handshake.UnmarshalPayload(b)
	if err != nil {
		switch err.Error() {
		case "invalid handshake message":
			return "err:message"
		case "invalid handshake details":
			return "err:details"
		}
		return "err:other:" + strings.ReplaceAll(err.Error(), " ", "_")
	}
	return showP(p.Cert, p.InitiatorIndex, p.ResponderIndex, p.Time, p.CertVersion)
}

func u32(m protoreflect.Message, name string) uint32 {
	return uint32(m.Get(m.Descriptor().Fields().ByName(protoreflect.Name(name))).Uint())
}

func pbUnmarshal(b []byte) string {
	loadSchema()
	m := dynamicpb.NewMessage(mdOuter)
	if err := proto.Unmarshal(b, m); err != nil {
		return "err"
	}
	d := m.Get(mdOuter.Fields().ByName("Details")).Message()
	df := mdDetails.Fields()
	return showP(d.Get(df.ByName("Cert")).Bytes(), u32(d, "InitiatorIndex"), u32(d, "ResponderIndex"),
		d.Get(df.ByName("Time")).Uint(), u32(d, "CertVersion"))
}

func pbMarshal(c []byte, ii, ri uint32, t uint64, cv uint32) []byte {
	loadSchema()
	m := dynamicpb.NewMessage(mdOuter)
	d := dynamicpb.NewMessage(mdDetails)
	df := mdDetails.Fields()
	if len(c) > 0 {
		d.Set(df.ByName("Cert"), protoreflect.ValueOfBytes(c))
	}
	d.Set(df.ByName("InitiatorIndex"), protoreflect.ValueOfUint32(ii))
	d.Set(df.ByName("ResponderIndex"), protoreflect.ValueOfUint32(ri))
	d.Set(df.ByName("Time"), protoreflect.ValueOfUint64(t))
	d.Set(df.ByName("CertVersion"), protoreflect.ValueOfUint32(cv))
	m.Set(mdOuter.Fields().ByName("Details"), protoreflect.ValueOfMessage(d))
	out, err := proto.MarshalOptions{Deterministic: true}.Marshal(m)
	if err != nil {
		panic(err)
	}
	return out
}

// ---- generators

func boundary64(r *hlib.Rand) uint64 {
	switch r.Intn(8) {
	case 0:
		return 0
	case 1:
		return ^uint64(0)
	case 2:
		k := uint(r.Range(1, 9)) * 7
		return (uint64(1) << k) + uint64(r.Intn(3)) - 1 // 2^(7k) - 1, 2^(7k), 2^(7k)+1
	case 3:
		return uint64(1)<<32 + uint64(r.Intn(3)) - 1
	case 4:
		return uint64(1) << uint(r.Intn(64))
	case 5:
		return uint64(r.Intn(300))
	case 6:
		return uint64(1)<<63 + uint64(r.Intn(2))
	}
	return r.U64()
}

func boundary32(r *hlib.Rand) uint32 {
	switch r.Intn(7) {
	case 6:
		return uint32(r.Range(1, 3))
	case 0:
		return 0
	case 1:
		return ^uint32(0)
	case 2:
		k := uint(r.Range(1, 4)) * 7
		return uint32((uint64(1) << k) + uint64(r.Intn(3)) - 1)
	case 3:
		return uint32(r.Intn(300))
	}
	return uint32(r.U64())
}

func certLen(r *hlib.Rand) int {
	return hlib.Pick(r, 0, 0, 1, 2, 126, 127, 128, 129, 200, 300, r.Intn(64), r.Intn(400), 16383, 16384, 16385)
}

// varint encodings, including non-minimal and over-long ones
func rawVarint(r *hlib.Rand, v uint64) []byte {
	b := protowire.AppendVarint(nil, v)
	switch r.Intn(12) {
	case 0: // non-minimal: extend with 0x80 ... 0x00
		extra := r.Range(1, 10-len(b)+1)
		if len(b)+extra > 11 {
			extra = 11 - len(b)
		}
		if extra > 0 {
			b[len(b)-1] |= 0x80
			for i := 0; i < extra-1; i++ {
				b = append(b, 0x80)
			}
			b = append(b, 0x00)
		}
	case 1: // 10 bytes, last byte 0..3 / 0x7f
		b = []byte{0x80 | byte(v), 0x80 | byte(v>>7), 0x80, 0x80, 0x80, 0x80, 0x80, 0x80, 0x80,
			hlib.Pick[byte](r, 0, 1, 1, 2, 3, 0x7f)}
	case 2: // 11 bytes
		b = []byte{0x81, 0x80, 0x80, 0x80, 0x80, 0x80, 0x80, 0x80, 0x80, 0x80, hlib.Pick[byte](r, 0, 1)}
	}
	return b
}

var knownNums = []int{1, 2, 3, 5, 8}

func genFieldNum(r *hlib.Rand) uint64 {
	switch r.Intn(10) {
	case 0, 1, 2, 3, 4:
		return uint64(hlib.Pick(r, knownNums...))
	case 5:
		return uint64(hlib.Pick(r, 4, 6, 7, 9, 15, 16, 17))
	case 6:
		return hlib.Pick[uint64](r, 0, 1<<29-1, 1<<29, 1<<31-1, 1<<31, 1<<32+1, 1<<61-1)
	}
	return uint64(r.Range(1, 40))
}

func rightType(num uint64) int {
	if num == 1 {
		return 2
	}
	return 0
}

// one field record; depth limits group nesting
func genField(r *hlib.Rand, num uint64, typ int, depth int) []byte {
	b := rawVarint(r, num<<3|uint64(typ))
	switch typ {
	case 0:
		v := boundary64(r)
		if r.Chance(1, 2) {
			v = uint64(boundary32(r))
		}
		b = append(b, rawVarint(r, v)...)
	case 1:
		b = append(b, r.Bytes(8)...)
	case 5:
		b = append(b, r.Bytes(4)...)
	case 2:
		n := hlib.Pick(r, 0, 1, 2, 5, 127, 128, r.Intn(40))
		b = append(b, rawVarint(r, uint64(n))...)
		b = append(b, r.Bytes(n)...)
	case 3:
		if depth > 0 {
			for i := r.Intn(3); i > 0; i-- {
				b = append(b, genField(r, uint64(r.Range(1, 20)), hlib.Pick(r, 0, 1, 2, 3, 5, 0, 2), depth-1)...)
			}
		}
		end := num
		if r.Chance(1, 8) {
			end = num + 1
		}
		if !r.Chance(1, 12) {
			b = append(b, rawVarint(r, end<<3|4)...)
		}
	}
	return b
}

func genDetails(r *hlib.Rand) []byte {
	var b []byte
	for i := hlib.Pick(r, 0, 1, 2, 3, 4, 5, 6, 8); i > 0; i-- {
		num := genFieldNum(r)
		typ := rightType(num)
		switch r.Intn(12) {
		case 0:
			typ = hlib.Pick(r, 0, 1, 2, 3, 4, 5, 6, 7)
		case 1:
			typ = hlib.Pick(r, 0, 2)
		}
		b = append(b, genField(r, num, typ, 2)...)
	}
	return b
}

func genMessage(r *hlib.Rand) []byte {
	var b []byte
	parts := hlib.Pick(r, 1, 1, 1, 1, 2, 3, 0)
	for i := 0; i < parts; i++ {
		switch r.Intn(10) {
		case 0:
			b = append(b, genField(r, 2, hlib.Pick(r, 2, 2, 0), 1)...) // Hmac / wrong type
		case 1:
			b = append(b, genField(r, genFieldNum(r), hlib.Pick(r, 0, 1, 2, 3, 5, 4, 6), 2)...)
		default:
			d := genDetails(r)
			b = append(b, rawVarint(r, 1<<3|2)...)
			ln := uint64(len(d))
			if r.Chance(1, 16) {
				ln += uint64(hlib.Pick(r, 1, 2, 100))
			}
			b = append(b, rawVarint(r, ln)...)
			b = append(b, d...)
		}
	}
	return b
}

// splitDetails: the fields of one payload spread over 2..4 occurrences of the outer Details field (proto3:
// repeated occurrences of an embedded message merge), optionally with empty occurrences (`0a 00`) before,
// between and after, and with a later occurrence overriding an earlier field (last wins).
func splitDetails(r *hlib.Rand) []byte {
	p := validPayload(r)
	var fields [][]byte
	add := func(num protowire.Number, typ protowire.Type, val []byte) {
		fields = append(fields, append(protowire.AppendTag(nil, num, typ), val...))
	}
	if len(p.Cert) > 0 {
		add(1, protowire.BytesType, protowire.AppendBytes(nil, p.Cert))
	}
	add(2, protowire.VarintType, protowire.AppendVarint(nil, uint64(p.InitiatorIndex)))
	add(3, protowire.VarintType, protowire.AppendVarint(nil, uint64(p.ResponderIndex)))
	add(5, protowire.VarintType, protowire.AppendVarint(nil, p.Time))
	add(8, protowire.VarintType, protowire.AppendVarint(nil, uint64(p.CertVersion)))
	if r.Chance(1, 3) { // an override in a later occurrence
		add(hlib.Pick[protowire.Number](r, 2, 3, 8), protowire.VarintType, protowire.AppendVarint(nil, uint64(boundary32(r))))
	}
	var out []byte
	wrap := func(d []byte) {
		out = protowire.AppendTag(out, 1, protowire.BytesType)
		out = protowire.AppendBytes(out, d)
	}
	if r.Chance(1, 4) {
		wrap(nil)
	}
	for i := 0; i < len(fields); {
		n := r.Range(1, 3)
		var d []byte
		for ; n > 0 && i < len(fields); n, i = n-1, i+1 {
			d = append(d, fields[i]...)
		}
		wrap(d)
		if r.Chance(1, 5) {
			wrap(nil)
		}
		if r.Chance(1, 8) {
			out = append(out, genField(r, 2, 2, 1)...) // an Hmac field in between
		}
	}
	if r.Chance(1, 2) {
		wrap(nil) // trailing empty Details
	}
	return out
}

// ---- repeated singular fields (seeded change C08-5): every singular field of NebulaHandshakeDetails is
// written 1..3 times -- inside one Details occurrence or spread over 2..3 occurrences of the outer Details
// field (which merge field-wise) -- with the earlier Cert occurrence empty / non-empty / longer / shorter /
// of the same length as the later one, earlier varints zero / non-zero / boundary, unknown fields (and,
// between Details occurrences, Hmac / unknown outer fields) interleaved.  Almost every such message is
// accepted by both decoders, so the last-wins rule is what is being compared.

func varintMostlyMinimal(r *hlib.Rand, v uint64) []byte {
	if r.Chance(1, 12) {
		b := protowire.AppendVarint(nil, v)
		if len(b) < 10 { // one redundant continuation byte: still a valid varint
			b[len(b)-1] |= 0x80
			b = append(b, 0x00)
		}
		return b
	}
	return protowire.AppendVarint(nil, v)
}

func rec(r *hlib.Rand, num uint64, typ int, val []byte) []byte {
	return append(varintMostlyMinimal(r, num<<3|uint64(typ)), val...)
}

func bytesVal(r *hlib.Rand, v []byte) []byte {
	return append(varintMostlyMinimal(r, uint64(len(v))), v...)
}

// a well-formed field the schema does not know (or knows as Cookie = 4, which payload.go skips)
func unknownField(r *hlib.Rand) []byte {
	num := uint64(hlib.Pick(r, 4, 4, 6, 7, 9, 15, 16, 17, 100, 1<<29-1))
	switch r.Intn(5) {
	case 0:
		return rec(r, num, 1, r.Bytes(8))
	case 1:
		return rec(r, num, 5, r.Bytes(4))
	case 2:
		return rec(r, num, 2, bytesVal(r, r.Bytes(hlib.Pick(r, 0, 1, 3, 20))))
	case 3: // a closed group holding one varint field
		g := rec(r, num, 3, rec(r, uint64(r.Range(1, 9)), 0, varintMostlyMinimal(r, boundary64(r))))
		return append(g, varintMostlyMinimal(r, num<<3|4)...)
	}
	return rec(r, num, 0, varintMostlyMinimal(r, boundary64(r)))
}

// certSeries: k Cert values with a chosen relation between consecutive occurrences
func certSeries(r *hlib.Rand, k int) [][]byte {
	out := make([][]byte, k)
	base := r.Range(1, 40)
	for i := range out {
		var n int
		switch r.Intn(6) {
		case 0:
			n = 0 // empty occurrence (earlier: later must fill; later: must wipe the earlier one)
		case 1:
			n = base
		case 2:
			n = base + r.Range(1, 130) // longer
		case 3:
			n = r.Intn(base) // shorter (possibly empty)
		case 4:
			n = hlib.Pick(r, 1, 127, 128, 129, 300)
		default:
			n = r.Range(1, 24)
		}
		out[i] = r.Bytes(n)
		if i > 0 && len(out[i-1]) > 0 && len(out[i]) > 0 && r.Chance(1, 6) {
			// later occurrence is a prefix / suffix / repetition of the earlier one
			prev := out[i-1]
			switch r.Intn(3) {
			case 0:
				out[i] = append([]byte(nil), prev[:r.Range(1, len(prev))]...)
			case 1:
				out[i] = append([]byte(nil), prev[r.Intn(len(prev)):]...)
			default:
				out[i] = append([]byte(nil), prev...)
			}
		}
	}
	return out
}

func repeatedFields(r *hlib.Rand) []byte {
	type occ struct {
		field int // index into knownNums
		b     []byte
	}
	var occs []occ
	for fi, num := range knownNums {
		k := hlib.Pick(r, 1, 2, 2, 2, 3, 3, 0)
		if num == 1 {
			k = hlib.Pick(r, 2, 2, 2, 3, 3, 1)
			for _, c := range certSeries(r, k) {
				occs = append(occs, occ{fi, rec(r, 1, 2, bytesVal(r, c))})
			}
			continue
		}
		for j := 0; j < k; j++ {
			var v uint64
			switch {
			case r.Chance(1, 5):
				v = 0
			case num == 5:
				v = boundary64(r)
			default:
				v = uint64(boundary32(r))
			}
			occs = append(occs, occ{fi, rec(r, uint64(num), 0, varintMostlyMinimal(r, v))})
		}
	}
	// a random interleaving of the occurrences (the order within one field's series is irrelevant to the
	// test: whichever lands last must win)
	for i := len(occs) - 1; i > 0; i-- {
		j := r.Intn(i + 1)
		occs[i], occs[j] = occs[j], occs[i]
	}
	// cut into 1..3 Details occurrences
	parts := hlib.Pick(r, 1, 1, 2, 2, 2, 3, 3)
	cuts := map[int]bool{}
	for i := 1; i < parts && len(occs) > 1; i++ {
		cuts[r.Range(1, len(occs)-1)] = true
	}
	var out, d []byte
	flush := func() {
		out = append(out, rec(r, 1, 2, bytesVal(r, d))...)
		d = nil
		if r.Chance(1, 6) {
			out = append(out, rec(r, 2, 2, bytesVal(r, r.Bytes(r.Intn(33))))...) // Hmac
		}
		if r.Chance(1, 8) {
			out = append(out, unknownField(r)...) // unknown field of the outer message (3.. : never 1 / 2)
		}
		if r.Chance(1, 10) {
			out = append(out, 0x0a, 0x00) // an empty Details occurrence
		}
	}
	for i, o := range occs {
		if cuts[i] {
			flush()
		}
		if r.Chance(1, 5) {
			d = append(d, unknownField(r)...)
		}
		d = append(d, o.b...)
	}
	if r.Chance(1, 5) {
		d = append(d, unknownField(r)...)
	}
	flush()
	return out
}

// the three witnesses of seeded change C08-5 (also corpus/payload/c08-5-repeated-cert.ops)
var c085Witnesses = []string{
	"0a190a0a6465636f792d63657274102a0a097265616c2d63657274", // Cert, InitiatorIndex, Cert in one Details
	"0a090a057374616c650a00",                                 // Cert then empty Cert
	"0a090a05666972737410050a080a067365636f6e64",             // a Cert in each of two Details occurrences
}

func validPayload(r *hlib.Rand) handshake.Payload {
	return handshake.Payload{Cert: r.Bytes(certLen(r) % 400), InitiatorIndex: boundary32(r), ResponderIndex: boundary32(r),
		Time: boundary64(r), CertVersion: hlib.Pick(r, 0, 1, 2, boundary32(r))}
}

func mutate(r *hlib.Rand, b []byte) []byte {
	b = append([]byte(nil), b...)
	if len(b) == 0 {
		return b
	}
	switch r.Intn(4) {
	case 0:
		return b[:r.Intn(len(b))]
	case 1:
		i := r.Intn(len(b))
		b[i] ^= 1 << uint(r.Intn(8))
	case 2:
		i := r.Intn(len(b))
		b[i] = byte(r.U64())
	case 3:
		i := r.Intn(len(b) + 1)
		b = append(b[:i:i], append(r.Bytes(r.Range(1, 3)), b[i:]...)...)
	}
	return b
}

func nestedGroups(depth int, closeAll bool) []byte {
	var b []byte
	// the value of a start-group field number 1: (depth-1) nested start tags, then end tags
	for i := 0; i < depth-1; i++ {
		b = append(b, 0x0b)
	}
	if closeAll {
		for i := 0; i < depth; i++ {
			b = append(b, 0x0c)
		}
	}
	return b
}

func gen(r *hlib.Rand, n int, tier, profile string, emit func(string, ...any)) {
	// hlib.NewRand(seed) places consecutive seeds one step apart on the same splitmix64 walk; jump away
	r = hlib.NewRand(r.U64())
	// recursion limit of ConsumeFieldValue: exactly at / one past the limit
	for _, d := range []int{1, 2, 10000, 10001, 10002} {
		emit("cfv 1 3 %s", hlib.Hex(nestedGroups(d, true)))
	}
	emit("unm %s", hlib.Hex(append([]byte{0x0b}, nestedGroups(10001, true)...)))
	emit("unm %s", hlib.Hex(append([]byte{0x0b}, nestedGroups(10002, true)...)))
	emit("mar - 0 0 0 0")
	emit("unm -")
	for _, w := range c085Witnesses {
		emit("unm %s", w)
	}
	for k := 0; k <= 10; k++ {
		for _, d := range []int{-1, 0, 1} {
			if k == 0 && d < 0 {
				continue
			}
			var v uint64
			if 7*k >= 64 {
				v = ^uint64(0)
			} else {
				v = uint64(1)<<uint(7*k) + uint64(d)
			}
			emit("avarint %d", v)
			emit("cvarint %s", hlib.Hex(protowire.AppendVarint(nil, v)))
		}
	}
	if tier == "thorough" {
		// every prefix of a rich valid message, and every single-bit flip of a short one
		p := handshake.Payload{Cert: r.Bytes(130), InitiatorIndex: 1 << 31, ResponderIndex: 127, Time: ^uint64(0), CertVersion: 2}
		b := handshake.MarshalPayload(nil, p)
		for i := 0; i <= len(b); i++ {
			emit("unm %s", hlib.Hex(b[:i]))
		}
		q := handshake.Payload{Cert: r.Bytes(3), InitiatorIndex: 300, ResponderIndex: 1, Time: 1 << 40, CertVersion: 1}
		c := handshake.MarshalPayload(nil, q)
		for i := 0; i < len(c)*8; i++ {
			d := append([]byte(nil), c...)
			d[i/8] ^= 1 << uint(i%8)
			emit("unm %s", hlib.Hex(d))
		}
	}
	for i := 0; i < n; i++ {
		switch r.Intn(18) {
		case 16, 17:
			b := repeatedFields(r)
			if r.Chance(1, 12) {
				b = mutate(r, b)
			}
			emit("unm %s", hlib.Hex(b))
		case 0, 1, 2:
			p := validPayload(r)
			if r.Chance(1, 8) {
				p.Cert = r.Bytes(certLen(r))
			}
			emit("mar %s %d %d %d %d", hlib.Hex(p.Cert), p.InitiatorIndex, p.ResponderIndex, p.Time, p.CertVersion)
		case 3:
			emit("unm %s", hlib.Hex(handshake.MarshalPayload(nil, validPayload(r))))
		case 4:
			emit("unm %s", hlib.Hex(mutate(r, handshake.MarshalPayload(nil, validPayload(r)))))
		case 5, 6, 7, 8, 9:
			emit("unm %s", hlib.Hex(genMessage(r)))
		case 10:
			emit("unm %s", hlib.Hex(mutate(r, genMessage(r))))
		case 11:
			if r.Chance(1, 3) {
				emit("unm %s", hlib.Hex(r.Bytes(r.Intn(24))))
			} else {
				emit("unm %s", hlib.Hex(splitDetails(r)))
			}
		case 12:
			if r.Bool() {
				emit("avarint %d", boundary64(r))
			} else {
				b := rawVarint(r, boundary64(r))
				if r.Chance(1, 4) {
					b = b[:r.Intn(len(b)+1)]
				}
				emit("cvarint %s", hlib.Hex(append(b, r.Bytes(r.Intn(3))...)))
			}
		case 13:
			emit("ctag %s", hlib.Hex(append(rawVarint(r, genFieldNum(r)<<3|uint64(r.Intn(8))), r.Bytes(r.Intn(3))...)))
		case 14:
			n := hlib.Pick(r, 0, 1, 5, 127, 128, 130)
			b := append(rawVarint(r, uint64(n)), r.Bytes(n+r.Intn(3))...)
			if r.Chance(1, 3) && len(b) > 0 {
				b = b[:r.Intn(len(b))]
			}
			emit("cbytes %s", hlib.Hex(b))
		case 15:
			num := uint64(r.Range(1, 20))
			typ := r.Intn(8)
			f := genField(r, num, typ, 3)
			// strip the tag: cfv takes the value only
			_, _, tn := protowire.ConsumeTag(f)
			if tn < 0 {
				tn = 0
			}
			v := append(f[tn:], r.Bytes(r.Intn(3))...)
			if r.Chance(1, 5) {
				v = mutate(r, v)
			}
			emit("cfv %d %d %s", num, typ, hlib.Hex(v))
		}
	}
}

func code(n int) string { return fmt.Sprintf("err:%d", -n) }

func newExec(t *testing.T) func([]string) string {
	return func(a []string) string {
		switch a[0] {
		case "mar":
			c, err := hlib.UnHex(a[1])
			if err != nil {
				return "bad-op"
			}
			ii, ri, tm, cv := uint32(hlib.Atou(a[2])), uint32(hlib.Atou(a[3])), hlib.Atou(a[4]), uint32(hlib.Atou(a[5]))
			prefix := []byte{0xde, 0xad}
			out := handshake.MarshalPayload(prefix, handshake.Payload{Cert: c, InitiatorIndex: ii, ResponderIndex: ri, Time: tm, CertVersion: cv})
			if len(out) < 2 || out[0] != 0xde || out[1] != 0xad {
				return "prefix-lost"
			}
			hs := out[2:]
			pb := pbMarshal(c, ii, ri, tm, cv)
			return fmt.Sprintf("%s %s ; %s ; %s ; %s", hlib.Hex(hs), hlib.Hex(pb), hsUnmarshal(hs), pbUnmarshal(hs), hsUnmarshal(pb))
		case "unm":
			b, err := hlib.UnHex(a[1])
			if err != nil {
				return "bad-op"
			}
			b = b[:len(b):len(b)]
			return hsUnmarshal(b) + " ; " + pbUnmarshal(b)
		case "avarint":
			return hlib.Hex(protowire.AppendVarint(nil, hlib.Atou(a[1])))
		case "cvarint":
			b, _ := hlib.UnHex(a[1])
			v, n := protowire.ConsumeVarint(b)
			if n < 0 {
				return code(n)
			}
			return fmt.Sprintf("%d %d", v, n)
		case "ctag":
			b, _ := hlib.UnHex(a[1])
			num, typ, n := protowire.ConsumeTag(b)
			if n < 0 {
				return code(n)
			}
			return fmt.Sprintf("%d %d %d", num, typ, n)
		case "cbytes":
			b, _ := hlib.UnHex(a[1])
			v, n := protowire.ConsumeBytes(b)
			if n < 0 {
				return code(n)
			}
			return fmt.Sprintf("%s %d", hlib.Hex(v), n)
		case "cfv":
			b, _ := hlib.UnHex(a[3])
			n := protowire.ConsumeFieldValue(protowire.Number(hlib.Atoi(a[1])), protowire.Type(hlib.Atoi(a[2])), b)
			if n < 0 {
				return code(n)
			}
			return fmt.Sprintf("%d", n)
		}
		return "bad-op"
	}
}

func TestEngine(t *testing.T) {
	hlib.Run(t, hlib.Engine{Name: "payload", Gen: gen, NewExec: newExec})
}
