//go:build linux && !android

// Engine `segment` (C24): Offload.decodeRead (CheckValid, CorrectHdrLen, protoFromGSOType) followed by
// tio.SegmentSuperpacket (virtio.SegmentTCP / SegmentUDP) on generated TSO/USO superpackets; every
// emitted segment is additionally re-serialised with gopacket (lengths + checksums recomputed) and
// compared.
package segment

import (
	"bytes"
	"encoding/binary"
	"fmt"
	"strings"
	"testing"

	"github.com/google/gopacket"
	"github.com/google/gopacket/layers"

	"github.com/slackhq/nebula/overlay/tio"
	"github.com/slackhq/nebula/overlay/tio/virtio"
	"verifharness/hlib"
)

// ---------------------------------------------------------------------------------------------
// generator

type shape struct {
	v6      bool
	ihl     int // IPv4 header words 5..15
	ext     int // IPv6: bytes of destination-options extension header (0 or multiple of 8)
	tcp     bool
	doff    int // TCP data offset words 5..15
	payLen  int
	flags   byte
	seq     uint32
	id      uint16
	rndOpts bool // random option bytes instead of well-formed NOP/EOL padding
}

func wrap32(r *hlib.Rand) uint32 {
	switch r.Intn(5) {
	case 0:
		return 0xffffffff - uint32(r.Intn(70000))
	case 1:
		return uint32(r.Intn(3))
	case 2:
		return 0x7fffffff - uint32(r.Intn(3000))
	}
	return uint32(r.U64())
}

func wrap16(r *hlib.Rand) uint16 {
	switch r.Intn(4) {
	case 0:
		return 0xffff - uint16(r.Intn(70))
	case 1:
		return uint16(r.Intn(3))
	}
	return uint16(r.U64())
}

func (s shape) ipLen() int {
	if s.v6 {
		return 40 + s.ext
	}
	return s.ihl * 4
}

func (s shape) l4Len() int {
	if s.tcp {
		return s.doff * 4
	}
	return 8
}

func build(r *hlib.Rand, s shape) []byte {
	ipl, l4l := s.ipLen(), s.l4Len()
	p := make([]byte, ipl+l4l+s.payLen)
	proto := byte(17)
	if s.tcp {
		proto = 6
	}
	if s.v6 {
		p[0] = 0x60 | byte(r.Intn(16))
		p[1], p[2], p[3] = byte(r.U64()), byte(r.U64()), byte(r.U64())
		binary.BigEndian.PutUint16(p[4:], uint16(len(p)-40))
		p[6] = proto
		p[7] = byte(1 + r.Intn(255))
		copy(p[8:40], r.Bytes(32))
		if s.ext > 0 {
			p[6] = 60 // destination options
			p[40] = proto
			p[41] = byte(s.ext/8 - 1)
			// PadN option filling the rest
			p[42] = 1
			p[43] = byte(s.ext - 4)
		}
	} else {
		p[0] = 0x40 | byte(s.ihl)
		p[1] = byte(r.U64())
		binary.BigEndian.PutUint16(p[2:], uint16(len(p)))
		binary.BigEndian.PutUint16(p[4:], s.id)
		if r.Bool() {
			p[6] = 0x40 // DF
		}
		p[8] = byte(1 + r.Intn(255))
		p[9] = proto
		binary.BigEndian.PutUint16(p[10:], uint16(r.U64()))
		copy(p[12:20], r.Bytes(8))
		for i := 20; i < ipl; i++ {
			if s.rndOpts {
				p[i] = byte(r.U64())
			} else {
				p[i] = 1 // NOP
			}
		}
	}
	t := p[ipl:]
	binary.BigEndian.PutUint16(t[0:], uint16(r.U64()))
	binary.BigEndian.PutUint16(t[2:], uint16(r.U64()))
	if s.tcp {
		binary.BigEndian.PutUint32(t[4:], s.seq)
		binary.BigEndian.PutUint32(t[8:], uint32(r.U64()))
		t[12] = byte(s.doff<<4) | byte(r.Intn(16))&0x0e
		t[13] = s.flags
		binary.BigEndian.PutUint16(t[14:], uint16(r.U64()))
		binary.BigEndian.PutUint16(t[16:], uint16(r.U64())) // the kernel leaves a pseudo-header partial here
		binary.BigEndian.PutUint16(t[18:], uint16(r.U64()))
		for i := 20; i < l4l; i++ {
			if s.rndOpts {
				t[i] = byte(r.U64())
			} else {
				t[i] = 1
			}
		}
	} else {
		binary.BigEndian.PutUint16(t[4:], uint16(8+s.payLen))
		binary.BigEndian.PutUint16(t[6:], uint16(r.U64()))
	}
	pay := p[ipl+l4l:]
	switch r.Intn(6) {
	case 0: // all ones: carry heavy
		for i := range pay {
			pay[i] = 0xff
		}
	case 1: // zeros
	default:
		copy(pay, r.Bytes(len(pay)))
	}
	return p
}

func pickGSO(r *hlib.Rand, payLen int) int {
	g := hlib.Pick(r, 1, 2, 3, 7, 8, 100, 536, 1200, 1448, 9000, 65535, 1+r.Intn(2000))
	if payLen > 0 && r.Chance(1, 3) {
		// around exact multiples
		k := 1 + r.Intn(4)
		g = payLen/k + hlib.Pick(r, -1, 0, 1)
	}
	if g < 1 {
		g = 1
	}
	// keep the segment count (and the output line) bounded
	for payLen/g > 300 {
		g *= 2
	}
	if g > 65535 {
		g = 65535
	}
	return g
}

func pickPay(r *hlib.Rand, big bool) int {
	if big {
		return hlib.Pick(r, 65535-120, 65535-60, 65535-40, 65000, 40000+r.Intn(20000), 16384)
	}
	return hlib.Pick(r, 0, 0, 1, 2, 3, 99, 100, 101, 1447, 1448, 1449, 2896, 2897, r.Intn(3000), r.Intn(3000), r.Intn(300))
}

func randShape(r *hlib.Rand, big bool) shape {
	s := shape{v6: r.Bool(), ihl: 5, tcp: r.Chance(3, 5), doff: 5, flags: byte(r.Intn(256)), seq: wrap32(r), id: wrap16(r)}
	if r.Chance(1, 3) {
		s.ihl = 5 + r.Intn(11)
	}
	if s.v6 && r.Chance(1, 6) {
		s.ext = 8 * (1 + r.Intn(3))
	}
	if r.Chance(1, 3) {
		s.doff = 5 + r.Intn(11)
	}
	s.rndOpts = r.Chance(1, 4)
	s.payLen = pickPay(r, big)
	for s.ipLen()+s.l4Len()+s.payLen > 65535 {
		s.payLen--
	}
	return s
}

func gsoTypeOf(s shape) int {
	if !s.tcp {
		return 5
	}
	if s.v6 {
		return 4
	}
	return 1
}

func emitGSO(emit func(string, ...any), flags, gt, hl, gs, cs, co int, pkt []byte) {
	flags, gt, hl, gs, cs, co = flags&0xff, gt&0xff, hl&0xffff, gs&0xffff, cs&0xffff, co&0xffff
	emit("gso %d %d %d %d %d %d %s", flags, gt, hl, gs, cs, co, hlib.Hex(pkt))
}

func gen(r *hlib.Rand, n int, tier, profile string, emit func(string, ...any)) {
	// helper functions: complete small ranges + boundaries
	for _, x := range []uint32{0, 1, 0xffff, 0x10000, 0x1fffe, 0x1ffff, 0xfffe0001, 0xffff0000, 0xffffffff, 0xfffeffff} {
		emit("fold %d", x)
	}
	for i := 0; i < 60; i++ {
		emit("fold %d", uint32(r.U64()))
		g := 1 + r.Intn(20)
		emit("segcount %d %d", hlib.Pick(r, 0, 1, g-1, g, g+1, 2*g, 2*g+1, r.Intn(70000)), g)
	}
	if tier == "thorough" {
		// all 256 TCP flag values x {v4,v6} x segment counts {1,2,3}
		for f := 0; f < 256; f++ {
			for _, v6 := range []bool{false, true} {
				for _, nseg := range []int{1, 2, 3} {
					s := shape{v6: v6, ihl: 5, tcp: true, doff: 5, flags: byte(f), seq: wrap32(r), id: wrap16(r), payLen: 10*nseg - 3}
					pkt := build(r, s)
					emitGSO(emit, 1, gsoTypeOf(s), 0, 10, s.ipLen(), 16, pkt)
				}
			}
		}
		// every IHL x every data offset
		for ihl := 5; ihl <= 15; ihl++ {
			for doff := 5; doff <= 15; doff++ {
				s := shape{ihl: ihl, tcp: true, doff: doff, flags: byte(r.Intn(256)), seq: wrap32(r), id: wrap16(r), payLen: r.Intn(400)}
				pkt := build(r, s)
				emitGSO(emit, 1, 1, r.Intn(200), 1+r.Intn(150), s.ipLen(), 16, pkt)
			}
		}
	}
	for i := 0; i < n; i++ {
		big := r.Chance(1, 60)
		s := randShape(r, big)
		pkt := build(r, s)
		cs := s.ipLen()
		hl := cs + s.l4Len()
		if r.Chance(1, 3) {
			hl = hlib.Pick(r, 0, len(pkt), r.Intn(200)) // the kernel's hdr_len is not trusted
		}
		g := pickGSO(r, s.payLen)
		co := 6
		gt := gsoTypeOf(s)
		if s.tcp {
			co = 16
			if r.Chance(1, 5) {
				gt |= 0x80 // ECN qualifier
			}
		}
		switch k := r.Intn(20); {
		case k < 11: // well-formed superpacket through the whole read path
			emitGSO(emit, 1, gt, hl, g, cs, co, pkt)
		case k < 13: // direct calls with consistent arguments
			if s.tcp {
				emit("tcp %d %d %d %s", cs+s.l4Len(), cs, g, hlib.Hex(pkt))
			} else {
				emit("udp %d %d %d %s", cs+s.l4Len(), cs, g, hlib.Hex(pkt))
			}
		case k < 14: // non-GSO reads (with and without NEEDS_CSUM)
			emitGSO(emit, r.Intn(4), hlib.Pick(r, 0, 0x80), hl, hlib.Pick(r, 0, g), cs, hlib.Pick(r, co, co, r.Intn(40), len(pkt)-cs-2, len(pkt)-cs-1), pkt)
		default: // malformed: one field or the packet damaged
			flags := 1
			switch r.Intn(14) {
			case 0:
				flags = hlib.Pick(r, 4, 5, 7, 0xff)
			case 1:
				g = 0
			case 2:
				gt = hlib.Pick(r, 2, 3, 6, 0x7f, 0x83, 0x85, gt^0x80, gt^5)
			case 3: // version nibble
				pkt[0] = byte(hlib.Pick(r, 0, 5, 7, 15, 4, 6)<<4) | pkt[0]&0x0f
			case 4: // truncated at a boundary
				cut := hlib.Pick(r, 0, 1, 19, 20, 21, 39, 40, 41, cs, cs+4, cs+8, cs+12, cs+13, cs+14, cs+16, cs+17, cs+18, cs+s.l4Len()-1, cs+s.l4Len())
				if cut < len(pkt) {
					pkt = pkt[:cut]
				}
			case 5: // IHL inconsistent with csum_start
				if !s.v6 {
					pkt[0] = 0x40 | byte(r.Intn(16))
				} else {
					cs = hlib.Pick(r, 0, 1, 20, 39, 41, 48)
				}
			case 6: // TCP data offset out of range / beyond the packet
				if s.tcp {
					pkt[cs+12] = byte(r.Intn(16)<<4) | pkt[cs+12]&0x0f
				} else {
					cs += hlib.Pick(r, -8, -1, 1, 8)
				}
			case 7: // csum_start elsewhere
				cs = hlib.Pick(r, 0, 1, cs-4, cs-1, cs+1, cs+4, len(pkt)-13, len(pkt)-12, len(pkt), 65523, 65524, 65528, 65535)
				if cs < 0 {
					cs = 0
				}
			case 8: // csum_offset at / beyond the end, wrapping
				co = hlib.Pick(r, len(pkt)-cs-3, len(pkt)-cs-2, len(pkt)-cs-1, len(pkt)-cs, 65535, 65536-cs, 65535-cs)
				if co < 0 {
					co = 0
				}
			case 9: // headers longer than maxSegHdrLen: v4 options + v6-style large csum_start
				cs = hlib.Pick(r, 61, 100, 101, 108, 112, 113)
			case 10: // random blob
				pkt = r.Bytes(hlib.Pick(r, 0, 1, 19, 20, 39, 40, 60, r.Intn(200)))
			case 11: // header-only / tiny
				pkt = pkt[:cs+s.l4Len()]
			case 12: // ECN on UDP
				gt = 5 | 0x80
			case 13: // direct calls with inconsistent but modelled arguments
				dhl := hlib.Pick(r, cs+s.l4Len(), cs+18, cs+19, cs+20, 120, 121, cs+s.l4Len()+4)
				dg := hlib.Pick(r, 0, g)
				dcs := hlib.Pick(r, 0, cs, cs)
				if s.tcp {
					if dhl < dcs+18 {
						dhl = dcs + 18
					}
					emit("tcp %d %d %d %s", dhl, dcs, dg, hlib.Hex(pkt))
				} else {
					emit("udp %d %d %d %s", hlib.Pick(r, cs+8, cs+7, cs+9, 121, 200), dcs, dg, hlib.Hex(pkt))
				}
				continue
			}
			emitGSO(emit, flags, gt, hl, g, cs&0xffff, co&0xffff, pkt)
		}
	}
}

// ---------------------------------------------------------------------------------------------
// executor

func errKind(err error) string {
	m := err.Error()
	for _, kv := range [][2]string{
		{"virtio RSC_INFO", "rsc-info"},
		{"packet too short", "too-short"},
		{"virtio GSO type", "gso-zero"},
		{"virtio GSO_ECN", "ecn"},
		{"invalid IP version", "version"},
		{"packet is too short", "tcp-short"},
		{"tcp header len is invalid", "tcp-hlen"},
		{"length of packet", "len-lt-hdrlen"},
		{"virtioNetHdr.HdrLen", "hdrlen-lt-csumstart"},
		{"end of checksum offset", "csum-off"},
		{"unsupported virtio gso type", "gso-proto"},
		{"short tun read", "short-read"},
		{"csum offsets out of range", "finish-range"},
		{"gso_size is zero", "seg-gso-zero"},
		{"csum_start is zero", "seg-csum-zero"},
		{"header len", "hdr-too-long"},
		{"udp header len mismatch", "udp-hdrlen"},
		{"bad IPv4 IHL", "ihl"},
	} {
		if strings.HasPrefix(m, kv[0]) {
			return "err:" + kv[1]
		}
	}
	return "err:unknown:" + m
}

// gopacketCheck re-serialises a segment from gopacket's decoded layers with lengths and checksums
// recomputed. A difference confined to length / checksum fields means gopacket disagrees with the
// segmenter about them; any other difference (option re-encoding …) is a gopacket quirk and ignored.
func gopacketCheck(seg []byte, l4 int, tcp bool) string {
	var first gopacket.Decoder = layers.LayerTypeIPv4
	v6 := seg[0]>>4 == 6
	if v6 {
		first = layers.LayerTypeIPv6
	}
	pk := gopacket.NewPacket(seg, first, gopacket.NoCopy)
	if pk.ErrorLayer() != nil {
		return ""
	}
	var ser []gopacket.SerializableLayer
	var nl gopacket.NetworkLayer
	at := 0 // where gopacket sees the transport header
	for _, l := range pk.Layers() {
		switch l.(type) {
		case *layers.TCP, *layers.UDP:
			if at != l4 {
				return "" // csum_start is not where the packet's own headers put L4: outside the property
			}
		}
		at += len(l.LayerContents())
		switch x := l.(type) {
		case *layers.IPv4:
			nl = x
			ser = append(ser, x)
		case *layers.IPv6:
			nl = x
			ser = append(ser, x)
		case *layers.IPv6Destination:
			ser = append(ser, x)
		case *layers.TCP:
			if nl == nil {
				return ""
			}
			x.SetNetworkLayerForChecksum(nl)
			ser = append(ser, x, gopacket.Payload(x.Payload))
		case *layers.UDP:
			if nl == nil {
				return ""
			}
			x.SetNetworkLayerForChecksum(nl)
			ser = append(ser, x, gopacket.Payload(x.Payload))
		}
	}
	buf := gopacket.NewSerializeBuffer()
	if err := gopacket.SerializeLayers(buf, gopacket.SerializeOptions{ComputeChecksums: true, FixLengths: true}, ser...); err != nil {
		return ""
	}
	out := buf.Bytes()
	if len(out) != len(seg) {
		return ""
	}
	allowed := map[int]bool{}
	if v6 {
		allowed[4], allowed[5] = true, true
	} else {
		allowed[2], allowed[3], allowed[10], allowed[11] = true, true, true, true
	}
	ck := l4 + 6
	if tcp {
		ck = l4 + 16
	} else {
		allowed[l4+4], allowed[l4+5] = true, true
	}
	allowed[ck], allowed[ck+1] = true, true
	diff := false
	for i := range seg {
		if seg[i] != out[i] {
			if !allowed[i] {
				return "" // quirk elsewhere: not comparable
			}
			diff = true
		}
	}
	if !diff {
		return ""
	}
	// 0x0000 vs 0xffff are the same one's-complement number
	a, b := binary.BigEndian.Uint16(seg[ck:]), binary.BigEndian.Uint16(out[ck:])
	if (a == 0 || a == 0xffff) && (b == 0 || b == 0xffff) {
		c := append([]byte{}, out...)
		copy(c[ck:ck+2], seg[ck:ck+2])
		if bytes.Equal(c, seg) {
			return ""
		}
	}
	return fmt.Sprintf("gopacket-reject seg=%x want=%x", seg, out)
}

func collect(segs *[][]byte) func([]byte) error {
	return func(seg []byte) error {
		*segs = append(*segs, append([]byte{}, seg...))
		return nil
	}
}

func render(segs [][]byte) string {
	var sb strings.Builder
	fmt.Fprintf(&sb, "segs %d", len(segs))
	for _, s := range segs {
		sb.WriteByte(' ')
		sb.WriteString(hlib.Hex(s))
	}
	return sb.String()
}

func exact(b []byte) []byte { return append(make([]byte, 0, len(b)), b...)[:len(b):len(b)] }

func newExec(t *testing.T) func([]string) string {
	return func(a []string) (res string) {
		defer func() {
			if r := recover(); r != nil {
				res = "panic"
			}
		}()
		switch a[0] {
		case "gso":
			if len(a) != 8 {
				return "bad-op"
			}
			pkt, err := hlib.UnHex(a[7])
			if err != nil {
				return "bad-op"
			}
			pkt = exact(pkt)
			h := virtio.NewHeader(uint8(hlib.Atoi(a[1])), uint8(hlib.Atoi(a[2])), uint16(hlib.Atoi(a[3])), uint16(hlib.Atoi(a[4])),
				uint16(hlib.Atoi(a[5])), uint16(hlib.Atoi(a[6])))
			var vh [virtio.Size]byte
			h.Encode(vh[:])
			pkts, err := tio.VerifDecodeRead(vh[:], pkt)
			if err != nil {
				return errKind(err)
			}
			var segs [][]byte
			for _, p := range pkts {
				gsoInfo := p.GSO
				if err := tio.SegmentSuperpacket(p, collect(&segs)); err != nil {
					return errKind(err)
				}
				if gsoInfo.IsSuperpacket() {
					for _, s := range segs {
						if m := gopacketCheck(s, int(gsoInfo.CsumStart), gsoInfo.Proto == tio.GSOProtoTCP); m != "" {
							return m
						}
					}
				}
			}
			return render(segs)
		case "tcp", "udp":
			if len(a) != 5 {
				return "bad-op"
			}
			pkt, err := hlib.UnHex(a[4])
			if err != nil {
				return "bad-op"
			}
			pkt = exact(pkt)
			var segs [][]byte
			if a[0] == "tcp" {
				err = virtio.SegmentTCP(pkt, uint16(hlib.Atoi(a[1])), uint16(hlib.Atoi(a[2])), uint16(hlib.Atoi(a[3])), collect(&segs))
			} else {
				err = virtio.SegmentUDP(pkt, uint16(hlib.Atoi(a[1])), uint16(hlib.Atoi(a[2])), uint16(hlib.Atoi(a[3])), collect(&segs))
			}
			if err != nil {
				return errKind(err)
			}
			return render(segs)
		case "fold":
			return fmt.Sprint(virtio.VerifFoldComplement(uint32(hlib.Atou(a[1]))))
		case "segcount":
			g := hlib.Atoi(a[2])
			if g == 0 {
				return "bad-op"
			}
			return fmt.Sprint(virtio.VerifSegCount(hlib.Atoi(a[1]), g))
		}
		return "bad-op"
	}
}

func TestEngine(t *testing.T) {
	hlib.Run(t, hlib.Engine{Name: "segment", Gen: gen, NewExec: newExec})
}
