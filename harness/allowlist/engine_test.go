// Engine `allowlist` (C38): newAllowList / AllowList.Allow / RemoteAllowList.Allow, AllowAll,
// AllowUnknownVpnAddr / LocalAllowList.Allow, AllowName, driven through the exported config constructors
// NewRemoteAllowListFromConfig and NewLocalAllowListFromConfig (real config.C, real bart tables).
//
// ops (see lean/Nebula/Driver/Allowlist.lean):
//
//	reset remote G <list> [R <prefix>|bad <list>]...   -> ok | err:<kind>
//	reset local  G <list> [I <names>]                  -> ok | err:<kind>
//	   <list>  = `-` (key absent) | `!` (value is not a map) | <entry>...   (possibly no entry: empty map)
//	   <entry> = <prefixhex>=<val> | bad=<val>          val: T F (bool) y yes n no (string) X (string "abc") 7 (int)
//	   <names> = `!` | <pattern>=<val>...               pattern: [a-z0-9]+ optionally followed by `.*`, or `(` (invalid regexp)
//	allow <addr>            -> 0|1   AllowList.Allow of the global list (LocalAllowList.Allow for local)
//	rallow <vpn> <udp>      -> 0|1   RemoteAllowList.Allow
//	rallowall <vpn,..|-> <udp> -> 0|1
//	runknown <vpn>          -> 0|1   RemoteAllowList.AllowUnknownVpnAddr
//	name <string>           -> 0|1   LocalAllowList.AllowName
//
// Go map iteration order: configurations are Go maps, so the implementation sees the entries in an arbitrary
// order; the generator never emits two entries of one list that denote the same network (the answer would
// depend on that order) nor two erroneous entries of different kinds.
package allowlist

import (
	"fmt"
	"net/netip"
	"strings"
	"testing"

	"github.com/slackhq/nebula"
	"github.com/slackhq/nebula/config"
	"github.com/slackhq/nebula/test"
	"verifharness/hlib"
)

var v4bases = []string{"10.0.0.0", "10.42.42.0", "10.42.42.42", "192.168.1.0", "172.16.5.0", "11.1.1.1", "0.0.0.0", "255.255.255.255", "128.0.0.0"}
var v6bases = []string{"fd00::", "fd00:fd00::", "2001:db8::1", "::", "::1", "::2", "8000::", "ffff:ffff:ffff:ffff:ffff:ffff:ffff:ffff", "::fffe:10.0.0.0", "::ffff:0:0"}

func tweak(r *hlib.Rand, a netip.Addr) netip.Addr {
	b := a.AsSlice()
	switch r.Intn(4) {
	case 0:
		b[len(b)-1] ^= byte(1 << uint(r.Intn(8)))
	case 1:
		i := r.Intn(len(b))
		b[i] ^= byte(1 << uint(r.Intn(8)))
	}
	out, _ := netip.AddrFromSlice(b)
	return out
}

func map46(a netip.Addr) netip.Addr {
	b := a.As16() // 4in6 form of a v4 address
	return netip.AddrFrom16(b)
}

func genPrefix(r *hlib.Rand) netip.Prefix {
	switch r.Intn(10) {
	case 0, 1, 2, 3: // v4
		a := tweak(r, netip.MustParseAddr(hlib.Pick(r, v4bases...)))
		l := hlib.Pick(r, 0, 0, 1, 7, 8, 8, 9, 12, 15, 16, 17, 23, 24, 24, 25, 31, 32, r.Intn(33))
		return netip.PrefixFrom(a, l)
	case 4, 5, 6: // v6
		a := tweak(r, netip.MustParseAddr(hlib.Pick(r, v6bases...)))
		l := hlib.Pick(r, 0, 0, 1, 8, 8, 16, 32, 64, 80, 95, 96, 97, 104, 120, 127, 128, r.Intn(129))
		return netip.PrefixFrom(a, l)
	default: // 4in6 mapped
		a := map46(tweak(r, netip.MustParseAddr(hlib.Pick(r, v4bases...))))
		l := hlib.Pick(r, 96, 96, 97, 104, 104, 112, 120, 127, 128, 95, 80, 64, 8, 0, 96+r.Intn(33), r.Intn(129))
		return netip.PrefixFrom(a, l)
	}
}

// key under which two entries denote the same network (mapped CIDRs are the IPv4 CIDR they map to)
func netKeys(p netip.Prefix) []string {
	var ks []string
	a := p.Addr()
	if a.Is4In6() && p.Bits() >= 96 {
		ks = append(ks, netip.PrefixFrom(a.Unmap(), p.Bits()-96).Masked().String())
	} else {
		ks = append(ks, p.Masked().String())
	}
	return ks
}

func valTok(r *hlib.Rand, v bool) string {
	if v {
		return hlib.Pick(r, "T", "T", "T", "y", "yes")
	}
	return hlib.Pick(r, "F", "F", "F", "n", "no")
}

// genList returns the tokens of one list and the prefixes it mentions.
func genList(r *hlib.Rand, allowBad bool) ([]string, []netip.Prefix) {
	switch r.Intn(24) {
	case 0:
		return []string{"-"}, nil
	case 1:
		if allowBad {
			return []string{"!"}, nil
		}
	}
	n := hlib.Pick(r, 0, 1, 1, 2, 3, 4, 5, 6, 8)
	// per family value plan: 0 uniform true, 1 uniform false, 2 mixed
	plan := func() int { return hlib.Pick(r, 0, 1, 2, 2) }
	p4, p6 := plan(), plan()
	wantDefault := func() bool { return !allowBad || r.Chance(1, 2) }
	seen := map[string]bool{}
	var toks []string
	var pfx []netip.Prefix
	add := func(p netip.Prefix, v bool) {
		for _, k := range netKeys(p) {
			if seen[k] {
				return
			}
		}
		for _, k := range netKeys(p) {
			seen[k] = true
		}
		toks = append(toks, hlib.PrefixHex(p)+"="+valTok(r, v))
		pfx = append(pfx, p)
	}
	for i := 0; i < n; i++ {
		p := genPrefix(r)
		is4 := p.Addr().Is4() || (p.Addr().Is4In6() && p.Bits() >= 96)
		pl := p6
		if is4 {
			pl = p4
		}
		v := pl == 0
		if pl == 2 {
			v = r.Bool()
		}
		add(p, v)
	}
	if p4 == 2 && wantDefault() {
		add(netip.MustParsePrefix(hlib.Pick(r, "0.0.0.0/0", "0.0.0.0/0", "10.1.2.3/0", "::ffff:0.0.0.0/96")), r.Bool())
	}
	if p6 == 2 && wantDefault() {
		add(netip.MustParsePrefix(hlib.Pick(r, "::/0", "::/0", "fd00::1/0")), r.Bool())
	}
	if allowBad && r.Chance(1, 12) {
		// an entry with an invalid value: its key must not collide with another entry's map key
		fresh := func() string {
			for {
				p := genPrefix(r)
				dup := false
				for _, q := range pfx {
					dup = dup || q == p
				}
				if !dup {
					return hlib.PrefixHex(p)
				}
			}
		}
		toks = append(toks, hlib.Pick(r, "bad=T", "bad=F", fresh()+"=X", fresh()+"=7", "bad=X"))
	}
	// the implementation iterates a Go map; present the entries in a random order as well
	for i := len(toks) - 1; i > 0; i-- {
		j := r.Intn(i + 1)
		toks[i], toks[j] = toks[j], toks[i]
	}
	return toks, pfx
}

func edgeAddr(r *hlib.Rand, p netip.Prefix) netip.Addr {
	m := p.Masked()
	b := m.Addr().AsSlice()
	bits := len(b) * 8
	last := append([]byte{}, b...)
	for i := p.Bits(); i < bits; i++ {
		last[i/8] |= 1 << uint(7-i%8)
	}
	inc := func(x []byte, d int) []byte {
		y := append([]byte{}, x...)
		for i := len(y) - 1; i >= 0; i-- {
			if d > 0 {
				y[i]++
				if y[i] != 0 {
					break
				}
			} else {
				y[i]--
				if y[i] != 0xff {
					break
				}
			}
		}
		return y
	}
	var out []byte
	switch r.Intn(6) {
	case 0:
		out = b
	case 1:
		out = last
	case 2:
		out = inc(b, -1)
	case 3:
		out = inc(last, 1)
	default: // inside
		out = append([]byte{}, b...)
		rb := r.Bytes(len(b))
		for i := p.Bits(); i < bits; i++ {
			out[i/8] |= rb[i/8] & (1 << uint(7-i%8))
		}
	}
	a, _ := netip.AddrFromSlice(out)
	return a
}

func genAddr(r *hlib.Rand, pfx []netip.Prefix) netip.Addr {
	var a netip.Addr
	if len(pfx) > 0 && r.Chance(3, 4) {
		p := pfx[r.Intn(len(pfx))]
		if !p.IsValid() {
			p = netip.PrefixFrom(p.Addr(), 0)
		}
		a = edgeAddr(r, p)
	} else if r.Bool() {
		a = tweak(r, netip.MustParseAddr(hlib.Pick(r, v4bases...)))
	} else {
		a = tweak(r, netip.MustParseAddr(hlib.Pick(r, v6bases...)))
	}
	// mapped / unmapped form of the same address
	if a.Is4() && r.Chance(1, 4) {
		a = map46(a)
	} else if a.Is4In6() && r.Chance(1, 3) {
		a = a.Unmap()
	}
	return a
}

var namePool = []string{"eth0", "eth1", "eth", "docker0", "docker", "tun0", "ens5", "lo", "e", "x"}
var patPool = []string{"eth.*", "eth0", "docker.*", "tun.*", "ens.*", "lo", "e.*", "docker0", ".*", "eth1.*"}

func gen(r *hlib.Rand, n int, tier, profile string, emit func(string, ...any)) {
	for i := 0; i < n; {
		var all []netip.Prefix
		var vpnPfx []netip.Prefix
		local := r.Chance(1, 4)
		bad := r.Chance(1, 6) // at most one erroneous list per configuration
		g, gp := genList(r, bad)
		if local && len(g) == 1 && g[0] == "!" {
			g = []string{"-"}
		}
		all = append(all, gp...)
		line := []string{"reset", "remote", "G"}
		if local {
			line[1] = "local"
		}
		line = append(line, g...)
		hasNames := false
		if local {
			if r.Chance(3, 4) {
				hasNames = true
				line = append(line, "I")
				if !bad && r.Chance(1, 20) {
					line = append(line, "!")
				} else {
					k := hlib.Pick(r, 0, 1, 1, 2, 3)
					v := r.Bool()
					seen := map[string]bool{}
					for j := 0; j < k; j++ {
						p := hlib.Pick(r, patPool...)
						if seen[p] {
							continue
						}
						seen[p] = true
						line = append(line, p+"="+valTok(r, v))
					}
					if !bad && r.Chance(1, 12) {
						line = append(line, hlib.Pick(r, "(=T", "zz=X", "yy="+valTok(r, !v)))
					}
				}
			}
		} else {
			nr := hlib.Pick(r, 0, 0, 1, 1, 2, 3)
			seen := map[string]bool{}
			for j := 0; j < nr; j++ {
				p := genPrefix(r)
				dup := false
				for _, k := range netKeys(p) {
					dup = dup || seen[k]
				}
				if dup {
					continue
				}
				for _, k := range netKeys(p) {
					seen[k] = true
				}
				key := hlib.PrefixHex(p)
				if r.Chance(1, 40) {
					key = "bad"
				}
				l, lp := genList(r, false)
				if len(l) == 1 && l[0] == "-" {
					l = nil
				}
				line = append(line, "R", key)
				line = append(line, l...)
				all = append(all, lp...)
				vpnPfx = append(vpnPfx, p)
			}
		}
		emit("%s", strings.Join(line, " "))
		i++
		q := hlib.Pick(r, 1, 2, 4, 6, 8)
		if bad {
			q = 1
		}
		for j := 0; j < q; j++ {
			i++
			if local {
				if hasNames && r.Bool() {
					emit("name %s", hlib.Pick(r, namePool...))
				} else {
					emit("allow %s", hlib.AddrHex(genAddr(r, all)))
				}
				continue
			}
			switch r.Intn(6) {
			case 0:
				emit("allow %s", hlib.AddrHex(genAddr(r, all)))
			case 1:
				emit("runknown %s", hlib.AddrHex(genAddr(r, all)))
			case 2, 3:
				emit("rallow %s %s", hlib.AddrHex(genAddr(r, vpnPfx)), hlib.AddrHex(genAddr(r, all)))
			default:
				k := hlib.Pick(r, 0, 1, 2, 3)
				var vs []string
				for x := 0; x < k; x++ {
					vs = append(vs, hlib.AddrHex(genAddr(r, vpnPfx)))
				}
				s := strings.Join(vs, ",")
				if s == "" {
					s = "-"
				}
				emit("rallowall %s %s", s, hlib.AddrHex(genAddr(r, all)))
			}
		}
	}
}

// ---- executor

func rawVal(tok string) any {
	switch tok {
	case "T":
		return true
	case "F":
		return false
	case "y", "yes", "n", "no":
		return tok
	case "X":
		return "abc"
	case "7":
		return 7
	}
	panic("harness: bad value token " + tok)
}

func prefixString(tok string) string {
	if tok == "bad" {
		return "192.168.0.0"
	}
	return hlib.ParsePrefixHex(tok).String()
}

// parseList consumes list tokens up to the next section marker; returns raw config value (nil = absent).
func parseList(toks []string) (any, []string) {
	i := 0
	for i < len(toks) && toks[i] != "R" && toks[i] != "I" {
		i++
	}
	l, rest := toks[:i], toks[i:]
	if len(l) == 1 && l[0] == "-" {
		return nil, rest
	}
	if len(l) == 1 && l[0] == "!" {
		return "notamap", rest
	}
	m := map[string]any{}
	for _, e := range l {
		k, v, _ := strings.Cut(e, "=")
		m[prefixString(k)] = rawVal(v)
	}
	return m, rest
}

func errKind(err error) string {
	s := err.Error()
	switch {
	case strings.Contains(s, "no default set for 0.0.0.0/0"):
		return "err:mixed4"
	case strings.Contains(s, "no default set for ::/0"):
		return "err:mixed6"
	case strings.Contains(s, "values must all be the same"):
		return "err:mixednames"
	case strings.Contains(s, "invalid type") || strings.Contains(s, "interfaces` is invalid"):
		return "err:type"
	case strings.Contains(s, "invalid value"):
		return "err:value"
	case strings.Contains(s, "invalid CIDR"):
		return "err:cidr"
	case strings.Contains(s, "invalid key"):
		return "err:regex"
	}
	return "err:other " + s
}

func newExec(t *testing.T) func([]string) string {
	var ral *nebula.RemoteAllowList
	var lal *nebula.LocalAllowList
	mode := ""
	l := test.NewLogger()
	return func(a []string) string {
		switch a[0] {
		case "reset":
			ral, lal, mode = nil, nil, ""
			if len(a) < 3 || a[2] != "G" {
				return "bad-op"
			}
			c := config.NewC(l)
			g, rest := parseList(a[3:])
			if g != nil {
				c.Settings["al"] = g
			}
			switch a[1] {
			case "remote":
				var ranges map[string]any
				for len(rest) > 0 && rest[0] == "R" {
					if len(rest) < 2 {
						return "bad-op"
					}
					key := prefixString(rest[1])
					var v any
					v, rest = parseList(rest[2:])
					if v == nil {
						v = map[string]any{}
					}
					if ranges == nil {
						ranges = map[string]any{}
					}
					ranges[key] = v
				}
				if ranges != nil {
					c.Settings["ranges"] = ranges
				}
				r, err := nebula.NewRemoteAllowListFromConfig(c, "al", "ranges")
				if err != nil {
					return errKind(err)
				}
				ral, mode = r, "remote"
				return "ok"
			case "local":
				if len(rest) > 0 && rest[0] == "I" {
					var iv any
					if len(rest) == 2 && rest[1] == "!" {
						iv = "notamap"
					} else {
						m := map[string]any{}
						for _, e := range rest[1:] {
							k, v, _ := strings.Cut(e, "=")
							m[k] = rawVal(v)
						}
						iv = m
					}
					gm, ok := g.(map[string]any)
					if !ok {
						if g != nil {
							// global value is not a map: the interfaces key cannot be expressed
							return "bad-op"
						}
						gm = map[string]any{}
						c.Settings["al"] = gm
					}
					gm["interfaces"] = iv
				}
				r, err := nebula.NewLocalAllowListFromConfig(c, "al")
				if err != nil {
					return errKind(err)
				}
				lal, mode = r, "local"
				return "ok"
			}
			return "bad-op"
		case "allow":
			switch mode {
			case "remote":
				return hlib.B(ral.AllowList.Allow(hlib.ParseAddrHex(a[1])))
			case "local":
				return hlib.B(lal.Allow(hlib.ParseAddrHex(a[1])))
			}
			return "none"
		case "runknown":
			if mode != "remote" {
				return "none"
			}
			return hlib.B(ral.AllowUnknownVpnAddr(hlib.ParseAddrHex(a[1])))
		case "rallow":
			if mode != "remote" {
				return "none"
			}
			return hlib.B(ral.Allow(hlib.ParseAddrHex(a[1]), hlib.ParseAddrHex(a[2])))
		case "rallowall":
			if mode != "remote" {
				return "none"
			}
			var vs []netip.Addr
			if a[1] != "-" {
				for _, s := range strings.Split(a[1], ",") {
					vs = append(vs, hlib.ParseAddrHex(s))
				}
			}
			return hlib.B(ral.AllowAll(vs, hlib.ParseAddrHex(a[2])))
		case "name":
			if mode != "local" {
				return "none"
			}
			return hlib.B(lal.AllowName(a[1]))
		}
		return fmt.Sprintf("bad-op")
	}
}

func TestEngine(t *testing.T) {
	hlib.Run(t, hlib.Engine{Name: "allowlist", Gen: gen, NewExec: newExec})
}
