// Package pktlib builds structured (mostly valid) IPv4 / IPv6 packets for the `pktparse` (C20) and
// `reject` (C21) engines: options, extension-header chains of any length, fragments, truncations,
// overshooting header lengths, unknown protocols. Every random choice comes from the caller's stream.
package pktlib

import (
	"encoding/binary"

	"verifharness/hlib"
)

// Kind of the last generated packet (for debugging only; the Lean side tags cases from the bytes).
type Meta struct {
	V6     bool
	NExt   int
	Proto  int
	Upper  int // offset of the upper-layer header
	Frag   bool
	Intact bool // neither truncated nor mutated
}

func csum(b []byte, init uint32) uint16 {
	s := init
	for i := 0; i+1 < len(b); i += 2 {
		s += uint32(b[i])<<8 | uint32(b[i+1])
	}
	if len(b)%2 == 1 {
		s += uint32(b[len(b)-1]) << 8
	}
	for s > 0xffff {
		s = s>>16 + s&0xffff
	}
	return ^uint16(s)
}

var icmp4Types = []int{0, 8, 3, 4, 5, 11, 12, 13, 14, 17, 18, 9, 10}
var icmp6Types = []int{128, 129, 1, 2, 3, 4, 133, 134, 135, 136, 0, 5, 100, 127}

// Upper builds an upper-layer header + data for proto.
func Upper(r *hlib.Rand, proto int, v6 bool) []byte {
	switch proto {
	case 6:
		doff := 5
		if r.Chance(1, 4) {
			doff = r.Range(0, 15)
		}
		n := 20
		if doff > 5 && r.Chance(3, 4) {
			n = doff * 4
		}
		b := r.Bytes(n + hlib.Pick(r, 0, 0, 1, 7, r.Intn(64)))
		b[12] = byte(doff<<4) | byte(r.Intn(2))
		switch r.Intn(6) {
		case 0:
			b[13] = 0x02 // SYN
		case 1:
			b[13] = 0x10 // ACK
		case 2:
			b[13] = 0x11 // FIN ACK
		case 3:
			b[13] = 0x03 // SYN FIN
		case 4:
			b[13] = 0x04 // RST
		}
		if r.Chance(1, 6) {
			// sequence numbers near wrap-around
			binary.BigEndian.PutUint32(b[4:], 0xffffffff-uint32(r.Intn(3)))
		}
		return b
	case 17:
		b := r.Bytes(8 + hlib.Pick(r, 0, 0, 1, 12, r.Intn(64)))
		binary.BigEndian.PutUint16(b[4:], uint16(len(b)))
		return b
	case 1, 58:
		b := r.Bytes(8 + hlib.Pick(r, 0, 0, 4, 28, r.Intn(64)))
		if (proto == 58) == v6 || r.Bool() {
			if proto == 1 {
				b[0] = byte(hlib.Pick(r, icmp4Types...))
			} else {
				b[0] = byte(hlib.Pick(r, icmp6Types...))
			}
		}
		if r.Chance(1, 8) {
			b[0] = byte(r.Intn(256))
		}
		return b
	}
	return r.Bytes(hlib.Pick(r, 0, 1, 3, 4, 5, 8, 24, r.Intn(48)))
}

var termProtos = []int{6, 17, 6, 17, 1, 58, 59, 50, 47, 132, 135, 139, 140, 253}

func pickProto(r *hlib.Rand, v6 bool) int {
	if r.Chance(1, 12) {
		return r.Intn(256)
	}
	if r.Chance(1, 3) {
		if v6 {
			return 58
		}
		return 1
	}
	return hlib.Pick(r, termProtos...)
}

// V4 builds an IPv4 packet.
func V4(r *hlib.Rand) ([]byte, Meta) { return V4P(r, -1) }

// V4P is V4 with a chosen protocol (-1: drawn).
func V4P(r *hlib.Rand, proto int) ([]byte, Meta) {
	ihl := 5
	if r.Chance(1, 3) {
		ihl = r.Range(6, 15)
	}
	if proto < 0 {
		proto = pickProto(r, false)
	}
	up := Upper(r, proto, false)
	b := make([]byte, ihl*4+len(up))
	b[0] = 0x40 | byte(ihl)
	if r.Chance(1, 40) {
		b[0] = 0x40 | byte(r.Intn(5)) // invalid ihl
	}
	b[1] = byte(r.Intn(256))
	binary.BigEndian.PutUint16(b[2:], uint16(len(b)))
	binary.BigEndian.PutUint16(b[4:], uint16(r.Intn(65536)))
	var ff uint16
	frag := false
	switch r.Intn(10) {
	case 0:
		ff = 0x2000 // first fragment
	case 1:
		// every single offset bit, so that a wrong mask is seen
		ff = uint16(hlib.Pick(r, 1, 0x1f00, 0x1fff, 0x00ff, 0x0100, r.Intn(0x2000), 1<<uint(r.Intn(13)), 1<<uint(r.Intn(13))))
		if r.Bool() {
			ff |= 0x2000
		}
		frag = ff&0x1fff != 0
	case 2:
		ff = 0x4000 // DF
	case 3:
		ff = uint16(hlib.Pick(r, 0x8000, 0xe000, 0xc000))
	}
	binary.BigEndian.PutUint16(b[6:], ff)
	b[8] = 64
	b[9] = byte(proto)
	copy(b[12:20], r.Bytes(8))
	if r.Chance(1, 2) {
		copy(b[12:16], []byte{10, 0, byte(r.Intn(4)), byte(r.Intn(256))})
		copy(b[16:20], []byte{10, 0, byte(r.Intn(4)), byte(r.Intn(256))})
	}
	for i := 20; i < ihl*4; i++ {
		b[i] = byte(hlib.Pick(r, 1, 1, 0, r.Intn(256))) // NOP / EOL / junk options
	}
	binary.BigEndian.PutUint16(b[10:], csum(b[:ihl*4], 0))
	copy(b[ihl*4:], up)
	return b, Meta{Proto: proto, Upper: ihl * 4, Frag: frag, Intact: true}
}

var extTypes = []int{0, 43, 60, 44, 51}

// NExtPick draws a chain length with weight on the walker's limit.
func NExtPick(r *hlib.Rand) int {
	switch r.Intn(10) {
	case 0, 1, 2:
		return 0
	case 3, 4, 5:
		return r.Range(1, 3)
	case 6, 7, 8:
		return r.Range(6, 10)
	}
	return r.Range(4, 14)
}

// V6 builds an IPv6 packet with nExt extension headers. extBounds receives the offset of each header.
func V6(r *hlib.Rand, nExt int) ([]byte, Meta, []int) { return V6P(r, nExt, -1) }

// V6P is V6 with a chosen upper-layer protocol (-1: drawn).
func V6P(r *hlib.Rand, nExt int, proto int) ([]byte, Meta, []int) {
	if proto < 0 {
		proto = pickProto(r, true)
	}
	for proto == 0 || proto == 43 || proto == 60 || proto == 44 || proto == 51 {
		proto = pickProto(r, true)
	}
	dangling := r.Chance(1, 25) // chain ends in an extension-header type with no header behind it
	b := make([]byte, 40)
	b[0] = 0x60 | byte(r.Intn(16))
	copy(b[1:4], r.Bytes(3))
	b[7] = 64
	copy(b[8:40], r.Bytes(32))
	if r.Bool() {
		copy(b[8:24], []byte{0xfd, 0, 0, 0, 0, 0, 0, 0, 0, 0, 0, 0, 0, 0, 0, byte(r.Intn(256))})
	}
	types := make([]int, nExt)
	sameType := r.Chance(1, 3)
	st := hlib.Pick(r, 60, 60, 0, 43, 51)
	for i := range types {
		if sameType {
			types[i] = st
		} else {
			types[i] = hlib.Pick(r, extTypes...)
		}
	}
	frag := false
	var bounds []int
	nhPos := 6
	for _, t := range types {
		b[nhPos] = byte(t)
		off := len(b)
		bounds = append(bounds, off)
		switch t {
		case 0, 43, 60:
			l := hlib.Pick(r, 0, 0, 0, 0, 1, 2, 3)
			h := make([]byte, (l+1)*8)
			h[1] = byte(l)
			if t == 43 {
				copy(h[2:], r.Bytes(len(h)-2))
				h[3] = 0 // segments left
			} else {
				h[2] = 1 // PadN
				h[3] = byte(len(h) - 4)
			}
			b = append(b, h...)
		case 44:
			h := make([]byte, 8)
			if !frag && r.Chance(1, 5) {
				binary.BigEndian.PutUint16(h[2:], uint16(hlib.Pick(r, 8, 0xfff8, 0x0100, 0x0008|1, r.Intn(0x2000)<<3,
					(1<<uint(r.Intn(13)))<<3, (1<<uint(r.Intn(13)))<<3)))
			} else if r.Bool() {
				h[3] = 1 // M
			}
			if r.Chance(1, 8) {
				h[3] |= byte(r.Intn(8)) // reserved bits / M with zero offset
			}
			copy(h[4:], r.Bytes(4))
			b = append(b, h...)
			if h[2] != 0 || h[3]&0xf8 != 0 {
				frag = true
			}
		case 51:
			l := hlib.Pick(r, 1, 1, 4, 0, 2, 7)
			h := r.Bytes((l + 2) * 4)
			h[1] = byte(l)
			b = append(b, h...)
		}
		nhPos = off
	}
	if dangling {
		b[nhPos] = byte(hlib.Pick(r, extTypes...))
	} else {
		b[nhPos] = byte(proto)
	}
	upper := len(b)
	if !dangling {
		b = append(b, Upper(r, proto, true)...)
	} else if r.Bool() {
		b = append(b, r.Bytes(1)...)
	}
	binary.BigEndian.PutUint16(b[4:], uint16(len(b)-40))
	bounds = append(bounds, upper)
	return b, Meta{V6: true, NExt: nExt, Proto: proto, Upper: upper, Frag: frag, Intact: !dangling}, bounds
}

// Damage truncates / overshoots / mutates a packet with some probability, at the offsets the parsers
// branch on (every header boundary ± a few bytes).
func Damage(r *hlib.Rand, b []byte, m Meta, bounds []int) ([]byte, Meta) {
	switch r.Intn(12) {
	case 0, 1: // truncate near a boundary
		at := m.Upper
		if len(bounds) > 0 && r.Bool() {
			at = hlib.Pick(r, bounds...)
		}
		at += r.Range(-2, 9)
		if at < 0 {
			at = 0
		}
		if at < len(b) {
			m.Intact = false
			return b[:at], m
		}
	case 2: // truncate anywhere
		m.Intact = false
		return b[:r.Intn(len(b)+1)], m
	case 3: // an extension header that claims more than is there
		if m.V6 && len(bounds) > 1 {
			o := bounds[r.Intn(len(bounds)-1)]
			if o+1 < len(b) {
				c := append([]byte{}, b...)
				c[o+1] = byte(hlib.Pick(r, 255, 200, int(c[o+1])+1, (len(b)-o)/8, (len(b)-o)/8+1, (len(b)-o)/4))
				m.Intact = false
				return c, m
			}
		}
	case 4: // flip one byte in the headers
		if len(b) > 0 {
			c := append([]byte{}, b...)
			lim := m.Upper + 8
			if lim > len(c) {
				lim = len(c)
			}
			if lim > 0 {
				c[r.Intn(lim)] ^= byte(1 << uint(r.Intn(8)))
			}
			m.Intact = false
			return c, m
		}
	}
	return b, m
}

// Any draws one packet of the mixed distribution.
func Any(r *hlib.Rand) ([]byte, Meta) {
	switch r.Intn(20) {
	case 0: // random bytes
		b := r.Bytes(hlib.Pick(r, 0, 1, 19, 20, 39, 40, r.Intn(120)))
		if len(b) > 0 && r.Chance(3, 4) {
			b[0] = byte(hlib.Pick(r, 0x45, 0x46, 0x60, 0x4f)) | b[0]&0x0f&byte(r.Intn(2)*15)
		}
		return b, Meta{}
	case 1, 2, 3, 4, 5, 6, 7:
		b, m := V4(r)
		return Damage(r, b, m, nil)
	}
	b, m, bounds := V6(r, NExtPick(r))
	return Damage(r, b, m, bounds)
}

// FragBits returns IPv4 UDP packets with each single bit of the flags/fragment-offset field set, and
// IPv6 UDP packets behind a fragment header with each single bit of its offset/flags field set.
func FragBits() [][]byte {
	var out [][]byte
	for bit := 0; bit < 16; bit++ {
		b := make([]byte, 28)
		b[0] = 0x45
		binary.BigEndian.PutUint16(b[2:], 28)
		binary.BigEndian.PutUint16(b[6:], 1<<uint(bit))
		b[8], b[9] = 64, 17
		copy(b[12:], []byte{10, 0, 0, 1, 10, 0, 0, 2, 0x12, 0x34, 0, 53, 0, 8, 0, 0})
		binary.BigEndian.PutUint16(b[10:], csum(b[:20], 0))
		out = append(out, b)
		c := make([]byte, 56)
		c[0], c[6], c[7] = 0x60, 44, 64
		binary.BigEndian.PutUint16(c[4:], 16)
		c[8], c[23], c[24], c[39] = 0xfd, 1, 0xfd, 2
		c[40] = 17
		binary.BigEndian.PutUint16(c[42:], 1<<uint(bit))
		copy(c[48:], []byte{0x12, 0x34, 0, 53, 0, 8, 0, 0})
		out = append(out, c)
	}
	return out
}
