// Generators shared by the cert engines: CA / leaf field distributions around the synctest epoch.
package certlib

import (
	"fmt"
	"math/big"
	"net/netip"
	"time"

	"golang.org/x/crypto/cryptobyte"
	casn1 "golang.org/x/crypto/cryptobyte/asn1"

	"github.com/slackhq/nebula/cert"
	"verifharness/hlib"
)

var v4bases = []string{"10.0.0.0/8", "10.1.0.0/16", "10.1.2.0/24", "192.168.0.0/16", "172.16.0.0/12", "100.64.0.0/10"}
var v6bases = []string{"fd00::/8", "fd00:1::/32", "2001:db8::/32", "fd00:1:2:3::/64"}
var GroupUniverse = []string{"a", "b", "c", "dd", "admins", "x"}

func BasePrefix(r *hlib.Rand, v6 bool) netip.Prefix {
	if v6 {
		return netip.MustParsePrefix(hlib.Pick(r, v6bases...))
	}
	return netip.MustParsePrefix(hlib.Pick(r, v4bases...))
}

// inside returns an address assignment inside p whose length is >= p.Bits() (delta >= 0) or shorter (delta < 0).
func Inside(r *hlib.Rand, p netip.Prefix, delta int) netip.Prefix {
	max := p.Addr().BitLen()
	b := p.Masked().Addr().AsSlice()
	rb := r.Bytes(len(b))
	for i := range b {
		keep := 0
		if i*8+8 <= p.Bits() {
			keep = 0xff
		} else if i*8 < p.Bits() {
			keep = 0xff << (8 - (p.Bits() - i*8)) & 0xff
		}
		b[i] = b[i]&byte(keep) | rb[i]&^byte(keep)
	}
	b[len(b)-1] |= 1 // never the zero address
	a, _ := netip.AddrFromSlice(b)
	bits := p.Bits() + delta
	if bits < 0 {
		bits = 0
	}
	if bits > max {
		bits = max
	}
	return netip.PrefixFrom(a, bits)
}

func Subset(r *hlib.Rand, xs []string) []string {
	var out []string
	for _, x := range xs {
		if r.Bool() {
			out = append(out, x)
		}
	}
	return out
}

// CAGroups draws a CA group list: unconstrained, or 1..n groups (single-element lists matter for `len > 0`).
func CAGroups(r *hlib.Rand) []string {
	if r.Chance(1, 3) {
		return nil
	}
	n := Pick3(r)
	perm := append([]string{}, GroupUniverse...)
	for i := range perm {
		j := i + r.Intn(len(perm)-i)
		perm[i], perm[j] = perm[j], perm[i]
	}
	return perm[:n]
}

func Pick3(r *hlib.Rand) int { return hlib.Pick(r, 1, 1, 1, 2, 3, 6) }

func Sec(s int64) time.Time { return time.Unix(s, 0) }

// window picks a validity window around the synctest epoch.
func CAWindow(r *hlib.Rand) (time.Time, time.Time) {
	nb := int64(Epoch) - int64(hlib.Pick(r, 10, 3600, 86400, 86400*365))
	na := int64(Epoch) + int64(hlib.Pick(r, 10, 3600, 86400, 86400*365))
	switch r.Intn(12) {
	case 0: // expired when added
		na = int64(Epoch) - int64(hlib.Pick(r, 1, 5, 3600))
		if nb > na {
			nb = na - 10
		}
	case 1: // not yet valid
		nb = int64(Epoch) + int64(hlib.Pick(r, 1, 5))
	case 2: // expires exactly now
		na = int64(Epoch)
	}
	return Sec(nb), Sec(na)
}

func CANets(r *hlib.Rand, v6ok bool) []netip.Prefix {
	var out []netip.Prefix
	for i, n := 0, hlib.Pick(r, 0, 0, 1, 1, 2, 3); i < n; i++ {
		out = append(out, BasePrefix(r, v6ok && r.Chance(1, 3)))
	}
	return out
}

// leafFields draws leaf fields relative to a CA: mostly inside its constraints, with single perturbations.
func LeafFields(r *hlib.Rand, cf Fields, issuerFp string, real bool) Fields {
	version := hlib.Pick(r, 1, 2, 2)
	f := Fields{Version: version, Curve: cf.Curve, IsCA: false, Issuer: issuerFp, Name: fmt.Sprintf("leaf%d", r.Intn(1000))}
	perturb := r.Intn(12) // which single rule to break (most values: none)
	// window
	nb, na := cf.NotBefore.Unix()+int64(hlib.Pick(r, 0, 0, 1, 100)), cf.NotAfter.Unix()-int64(hlib.Pick(r, 0, 0, 1, 100))
	if nb > na {
		nb, na = cf.NotBefore.Unix(), cf.NotAfter.Unix()
	}
	if cf.NotBefore.Nanosecond() != 0 && nb == cf.NotBefore.Unix() {
		nb++ // whole seconds inside a sub-second CA window
	}
	switch perturb {
	case 0:
		na = cf.NotAfter.Unix() + int64(hlib.Pick(r, 1, 1, 60))
	case 1:
		nb = cf.NotBefore.Unix() - int64(hlib.Pick(r, 1, 1, 60))
	}
	f.NotBefore, f.NotAfter = Sec(nb), Sec(na)
	if !real && r.Chance(1, 4) {
		f.NotBefore = f.NotBefore.Add(time.Duration(r.Intn(1000000000)))
		f.NotAfter = f.NotAfter.Add(-time.Duration(r.Intn(1000000000)))
	}
	// groups
	if len(cf.Groups) > 0 {
		f.Groups = Subset(r, cf.Groups)
	} else if r.Bool() {
		f.Groups = Subset(r, GroupUniverse)
	}
	if perturb == 2 {
		f.Groups = append(f.Groups, hlib.Pick(r, "zz", "A", "aa"))
	}
	// networks
	v6ok := version == 2
	pick := func(cas []netip.Prefix, breakIt bool) netip.Prefix {
		var base netip.Prefix
		if len(cas) > 0 {
			base = cas[r.Intn(len(cas))]
			if base.Addr().Is6() && !v6ok {
				for _, c := range cas {
					if c.Addr().Is4() {
						base = c
					}
				}
				if base.Addr().Is6() {
					base = BasePrefix(r, false)
				}
			}
		} else {
			base = BasePrefix(r, v6ok && r.Chance(1, 3))
		}
		if breakIt {
			switch r.Intn(3) {
			case 0:
				return Inside(r, base, -1-r.Intn(3)) // shorter than the CA range
			case 1: // outside every range
				if base.Addr().Is4() {
					return netip.MustParsePrefix(hlib.Pick(r, "11.0.0.1/8", "9.255.255.255/32", "193.1.1.1/24"))
				}
				return netip.MustParsePrefix(hlib.Pick(r, "fe00::1/8", "2002::1/64"))
			default: // neighbour just past the range's last address: flip the last covered bit
				if base.Bits() == 0 {
					return Inside(r, base, 0)
				}
				b := base.Masked().Addr().AsSlice()
				b[(base.Bits()-1)/8] ^= 1 << (7 - uint(base.Bits()-1)%8)
				b[len(b)-1] |= 1
				a, _ := netip.AddrFromSlice(b)
				return netip.PrefixFrom(a, base.Addr().BitLen())
			}
		}
		return Inside(r, base, hlib.Pick(r, 0, 0, 1, 8, 200))
	}
	nn := hlib.Pick(r, 1, 1, 1, 2, 3)
	if version == 1 {
		nn = hlib.Pick(r, 1, 1, 2)
	}
	for i := 0; i < nn; i++ {
		f.Networks = append(f.Networks, pick(cf.Networks, perturb == 3 && i == nn-1))
	}
	has4, has6 := false, false
	for _, n := range f.Networks {
		has4 = has4 || n.Addr().Is4()
		has6 = has6 || n.Addr().Is6()
	}
	for i, nu := 0, hlib.Pick(r, 0, 0, 1, 2); i < nu; i++ {
		u := pick(cf.Unsafe, perturb == 4 && i == nu-1)
		if real && ((u.Addr().Is4() && !has4) || (u.Addr().Is6() && !has6)) {
			continue // the decoder's validate would refuse it
		}
		f.Unsafe = append(f.Unsafe, u)
	}
	if perturb == 5 && !real {
		f.Curve = 1 - f.Curve%2
	}
	f.PublicKey = LeafPub(r, cert.Curve(f.Curve%2))
	return f
}

// ---- P-256 signature encodings aimed at the low-S boundary ------------------------------------------

var (
	p256N, _     = new(big.Int).SetString("ffffffff00000000ffffffffffffffffbce6faada7179e84f3b9cac2fc632551", 16)
	p256HalfN, _ = new(big.Int).SetString("7fffffff800000007fffffffffffffffde737d56d38bcf4279dce5617e3192a8", 16)
)

// DerSig is the minimal DER ECDSA-Sig-Value of (r, s) (both non-negative).
func DerSig(r0, s0 *big.Int) []byte {
	enc := func(x *big.Int) []byte {
		b := x.Bytes()
		if len(b) == 0 {
			b = []byte{0}
		}
		if b[0]&0x80 != 0 {
			b = append([]byte{0}, b...)
		}
		return append([]byte{2, byte(len(b))}, b...)
	}
	body := append(enc(r0), enc(s0)...)
	return append([]byte{0x30, byte(len(body))}, body...)
}

// LowS decides, without the code under test, whether sig is a DER ECDSA signature whose S is at most N/2
// (ok=false: not a well-formed signature).
func LowS(sig []byte) (low bool, ok bool) {
	in := cryptobyte.String(sig)
	var seq cryptobyte.String
	r0, s0 := new(big.Int), new(big.Int)
	if !in.ReadASN1(&seq, casn1.SEQUENCE) || !in.Empty() || !seq.ReadASN1Integer(r0) || !seq.ReadASN1Integer(s0) || !seq.Empty() {
		return false, false
	}
	return s0.Sign() >= 0 && s0.Cmp(p256HalfN) <= 0, true
}

// BoundaryScalars are scalars around everything a low-S test could get wrong: 0, 1, N/2 and its neighbours,
// N/2 + 2^k (high S of every magnitude, in particular high S below 2^255 whose 32-byte encoding has a clear top
// bit), 2^255 and neighbours, N and neighbours, short encodings, 2^256-1.
func BoundaryScalars(r *hlib.Rand) []*big.Int {
	one := big.NewInt(1)
	p := func(k uint) *big.Int { return new(big.Int).Lsh(one, k) }
	add := func(x *big.Int, d int64) *big.Int { return new(big.Int).Add(x, big.NewInt(d)) }
	out := []*big.Int{big.NewInt(0), one, big.NewInt(0x7f), big.NewInt(0x80), big.NewInt(0xff),
		add(p256HalfN, -2), add(p256HalfN, -1), p256HalfN, add(p256HalfN, 1), add(p256HalfN, 2),
		add(p(255), -1), p(255), add(p(255), 1), add(p(254), 0), add(p(248), -1), p(248), add(p(247), 0),
		add(p256N, -2), add(p256N, -1), p256N, add(p256N, 1), add(p(256), -1),
		new(big.Int).Sub(p256N, p256HalfN), new(big.Int).Sub(p(255), p(223)), new(big.Int).Add(new(big.Int).Sub(p(255), p(223)), one)}
	for _, k := range []uint{0, 1, 7, 8, 31, 32, 63, 64, 100, 127, 128, 191, 192, 200, 222, 223, 224, 240, 247, 248, 250, 253, 254} {
		out = append(out, new(big.Int).Add(p256HalfN, p(k)))
		if k < 254 {
			out = append(out, new(big.Int).Sub(p256HalfN, p(k)))
		}
	}
	// random scalars in each of the three bands [1, N/2], (N/2, 2^255), [2^255, N)
	for i := 0; i < 4; i++ {
		x := new(big.Int).SetBytes(r.Bytes(32))
		out = append(out, new(big.Int).Add(new(big.Int).Mod(x, p256HalfN), one))
		band := new(big.Int).Sub(add(p(255), -1), p256HalfN)
		out = append(out, new(big.Int).Add(add(p256HalfN, 1), new(big.Int).Mod(x, band)))
		top := new(big.Int).Sub(p256N, p(255))
		out = append(out, new(big.Int).Add(p(255), new(big.Int).Mod(x, top)))
	}
	return out
}

// BoundarySigs are DER signatures with each boundary scalar as S (r random or small) and as R.
func BoundarySigs(r *hlib.Rand) [][]byte {
	var out [][]byte
	for _, x := range BoundaryScalars(r) {
		r0 := big.NewInt(5)
		if r.Bool() {
			r0 = new(big.Int).Add(new(big.Int).Mod(new(big.Int).SetBytes(r.Bytes(32)), new(big.Int).Sub(p256N, big.NewInt(1))), big.NewInt(1))
		}
		out = append(out, DerSig(r0, x), DerSig(x, big.NewInt(5)))
	}
	return out
}

// SwapSig is the other S-form of a DER ECDSA signature, (r, N-s), computed without the code under test.
func SwapSig(sig []byte) ([]byte, error) {
	in := cryptobyte.String(sig)
	var seq cryptobyte.String
	r0, s0 := new(big.Int), new(big.Int)
	if !in.ReadASN1(&seq, casn1.SEQUENCE) || !in.Empty() || !seq.ReadASN1Integer(r0) || !seq.ReadASN1Integer(s0) || !seq.Empty() {
		return nil, fmt.Errorf("not a signature")
	}
	if r0.Sign() <= 0 || s0.Sign() <= 0 || s0.Cmp(p256N) >= 0 { // r is carried over as it is
		return nil, fmt.Errorf("scalar out of range")
	}
	return DerSig(r0, new(big.Int).Sub(p256N, s0)), nil
}
