package certlib

import (
	"crypto/elliptic"
	"crypto/sha256"
	"fmt"
	"math/big"

	"google.golang.org/protobuf/proto"
	"verifharness/hlib"
)

// P256N is the order of the P-256 base point.
func P256N() *big.Int { return new(big.Int).Set(p256N) }

// GrindShortS issues certificates with the fields f under the P-256 key until the ECDSA signature (r, s) over the
// to-be-signed bytes has min(s, N-s) < 2^239: the LOW form then has at least two leading zero bytes in its 32-byte
// representation followed by a byte below 0x80 (about one signature in 65536). The nonce is fixed and the
// certificate name is walked (s = k^-1 (z + r d) mod N), so a try costs one encoding, one SHA-256 and two modular
// multiplications. Returns the fields that were signed, r, and the low s.
func GrindShortS(r *hlib.Rand, key *SignKey, f Fields, budget int) (Fields, *big.Int, *big.Int, bool) {
	one := big.NewInt(1)
	d := new(big.Int).SetBytes(key.Priv)
	k := new(big.Int).SetBytes(r.Bytes(32))
	k.Add(k.Mod(k, new(big.Int).Sub(p256N, one)), one)
	x, _ := elliptic.P256().ScalarBaseMult(k.Bytes())
	rr := new(big.Int).Mod(x, p256N)
	if rr.Sign() == 0 {
		return f, nil, nil, false
	}
	kinv := new(big.Int).ModInverse(k, p256N)
	rd := new(big.Int).Mod(new(big.Int).Mul(rr, d), p256N)
	lim := new(big.Int).Lsh(one, 239)
	base := f.Name
	ctr := r.Intn(1 << 20)
	for i := 0; i < budget; i++ {
		f.Name = fmt.Sprintf("%s-%x", base, ctr+i)
		var tbs []byte
		if f.Version == 1 {
			var err error
			tbs, err = proto.Marshal(V1Details(f))
			if err != nil {
				panic(err)
			}
		} else {
			tbs = append(append(V2Details(f), byte(f.Curve)), f.PublicKey...)
		}
		h := sha256.Sum256(tbs)
		z := new(big.Int).SetBytes(h[:])
		s := z.Add(z, rd)
		s.Mul(s, kinv).Mod(s, p256N)
		if s.Sign() == 0 {
			continue
		}
		if s.Cmp(lim) < 0 {
			return f, rr, s, true
		}
		if hi := new(big.Int).Sub(p256N, s); hi.Cmp(lim) < 0 {
			return f, rr, hi, true
		}
	}
	return f, nil, nil, false
}
