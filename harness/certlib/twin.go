package certlib

import (
	"bytes"
	"crypto/elliptic"
	"crypto/sha256"
	"encoding/hex"
	"fmt"
	"math/big"

	"google.golang.org/protobuf/proto"
	"verifharness/hlib"
)

// P256N is the order of the P-256 base point.
func P256N() *big.Int { return new(big.Int).Set(p256N) }

// GrindShortS issues certificates with the fields f under the P-256 key until the ECDSA signature (r, s) over the
// to-be-signed bytes has min(s, N-s) < 2^239: the LOW form then has at least two leading zero bytes in its 32-byte
// representation followed by a byte below 0x80 (about one signature in 65536). The nonce is fixed and the
// certificate name is walked (s = k^-1 (z + r d) mod N), so a try costs one encoding, one SHA-256 and two modular
// multiplications. Returns the fields that were signed, r, and the low s.
func GrindShortS(r *hlib.Rand, key *SignKey, f Fields, budget int) (Fields, *big.Int, *big.Int, bool) {
	one := big.NewInt(1)
	d := new(big.Int).SetBytes(key.Priv)
	k := new(big.Int).SetBytes(r.Bytes(32))
	k.Add(k.Mod(k, new(big.Int).Sub(p256N, one)), one)
	x, _ := elliptic.P256().ScalarBaseMult(k.Bytes())
	rr := new(big.Int).Mod(x, p256N)
	if rr.Sign() == 0 {
		return f, nil, nil, false
	}
	kinv := new(big.Int).ModInverse(k, p256N)
	rd := new(big.Int).Mod(new(big.Int).Mul(rr, d), p256N)
	lim := new(big.Int).Lsh(one, 239)
	// the to-be-signed bytes are encoded once with a fixed-width counter in the name, which is then overwritten in place
	base := f.Name
	f.Name = base + "-00000000"
	encode := func() []byte {
		if f.Version == 1 {
			tbs, err := proto.Marshal(V1Details(f))
			if err != nil {
				panic(err)
			}
			return tbs
		}
		return append(append(V2Details(f), byte(f.Curve)), f.PublicKey...)
	}
	tbs := encode()
	if bytes.Count(tbs, []byte(f.Name)) != 1 {
		return f, nil, nil, false
	}
	at := bytes.Index(tbs, []byte(f.Name)) + len(base) + 1
	ctr := uint32(r.U64())
	z, s, hi := new(big.Int), new(big.Int), new(big.Int)
	for i := 0; i < budget; i++ {
		hex.Encode(tbs[at:at+8], []byte{byte(ctr >> 24), byte(ctr >> 16), byte(ctr >> 8), byte(ctr)})
		h := sha256.Sum256(tbs)
		z.SetBytes(h[:])
		s.Add(z, rd)
		s.Mul(s, kinv).Mod(s, p256N)
		low := s
		if hi.Sub(p256N, s); hi.Cmp(s) < 0 {
			low = hi
		}
		if low.Sign() != 0 && low.Cmp(lim) < 0 {
			f.Name = fmt.Sprintf("%s-%08x", base, ctr)
			if !bytes.Equal(encode(), tbs) {
				panic("harness: in-place name does not match the encoding")
			}
			return f, rr, new(big.Int).Set(low), true
		}
		ctr++
	}
	return f, nil, nil, false
}
