// Package certlib is shared plumbing of the cert engines (certverify, certsign, certcodec, pkireload,
// certkeys): line-protocol rendering of certificates, deterministic key material, hand-built ("crafted")
// v1/v2 encodings that bypass the signer's own checks, and a programmable stub certificate.
package certlib

import (
	"crypto/ecdsa"
	"crypto/ed25519"
	"crypto/elliptic"
	"crypto/rand"
	"crypto/sha256"
	"encoding/hex"
	"encoding/pem"
	"errors"
	"fmt"
	"math/big"
	"net/netip"
	"strings"
	"time"

	"github.com/slackhq/nebula/cert"
	"golang.org/x/crypto/cryptobyte"
	"golang.org/x/crypto/cryptobyte/asn1"
	"google.golang.org/protobuf/proto"
	"verifharness/hlib"
)

// Epoch is the wall clock at the start of a testing/synctest bubble (2000-01-01T00:00:00Z).
const Epoch = 946684800

var e9 = big.NewInt(1000000000)

// Ns renders a time.Time as integer nanoseconds since the Unix epoch (arbitrary precision).
func Ns(t time.Time) string {
	v := new(big.Int).Mul(big.NewInt(t.Unix()), e9)
	v.Add(v, big.NewInt(int64(t.Nanosecond())))
	return v.String()
}

// NsOf renders seconds+nanoseconds.
func NsOf(sec int64, nsec int64) string {
	v := new(big.Int).Mul(big.NewInt(sec), e9)
	v.Add(v, big.NewInt(nsec))
	return v.String()
}

// TimeOf is the inverse of Ns.
func TimeOf(s string) time.Time {
	v, ok := new(big.Int).SetString(s, 10)
	if !ok {
		panic("harness: bad time " + s)
	}
	sec, nsec := new(big.Int).DivMod(v, e9, new(big.Int)) // Euclidean: 0 <= nsec < 1e9
	return time.Unix(sec.Int64(), nsec.Int64())
}

func dash(s string) string {
	if s == "" {
		return "-"
	}
	return s
}

func undash(s string) string {
	if s == "-" {
		return ""
	}
	return s
}

// PrefixTok renders one prefix; an invalid prefix (Bits() == -1) is written with length 255.
func PrefixTok(p netip.Prefix) string {
	b := p.Bits()
	if b < 0 {
		b = 255
	}
	return fmt.Sprintf("%s/%d", hlib.AddrHex(p.Addr()), b)
}

func PrefixesTok(ps []netip.Prefix) string {
	if len(ps) == 0 {
		return "-"
	}
	out := make([]string, len(ps))
	for i, p := range ps {
		out[i] = PrefixTok(p)
	}
	return strings.Join(out, ",")
}

func ParsePrefixes(s string) []netip.Prefix {
	if s == "-" {
		return nil
	}
	var out []netip.Prefix
	for _, t := range strings.Split(s, ",") {
		out = append(out, hlib.ParsePrefixHex(t))
	}
	return out
}

func GroupsTok(gs []string) string {
	if len(gs) == 0 {
		return "-"
	}
	out := make([]string, len(gs))
	for i, g := range gs {
		out[i] = "g" + hex.EncodeToString([]byte(g))
	}
	return strings.Join(out, ",")
}

func ParseGroups(s string) []string {
	if s == "-" {
		return nil
	}
	var out []string
	for _, t := range strings.Split(s, ",") {
		b, err := hex.DecodeString(t[1:])
		if err != nil {
			panic("harness: bad group " + t)
		}
		out = append(out, string(b))
	}
	return out
}

// Fields is the line-protocol view of a certificate (the 12-token descriptor).
type Fields struct {
	Version   int
	Curve     int
	IsCA      bool
	NotBefore time.Time
	NotAfter  time.Time
	Issuer    string
	Name      string
	Networks  []netip.Prefix
	Unsafe    []netip.Prefix
	Groups    []string
	PublicKey []byte
	Signature []byte
}

const DescLen = 12

func (f Fields) Desc() string {
	return fmt.Sprintf("%d %d %s %s %s %s n%s %s %s %s %s %s", f.Version, uint32(int32(f.Curve)), hlib.B(f.IsCA), Ns(f.NotBefore),
		Ns(f.NotAfter), dash(f.Issuer), hex.EncodeToString([]byte(f.Name)), PrefixesTok(f.Networks), PrefixesTok(f.Unsafe),
		GroupsTok(f.Groups), hlib.Hex(f.PublicKey), hlib.Hex(f.Signature))
}

func FieldsOf(c cert.Certificate) Fields {
	return Fields{Version: int(c.Version()), Curve: int(c.Curve()), IsCA: c.IsCA(), NotBefore: c.NotBefore(),
		NotAfter: c.NotAfter(), Issuer: c.Issuer(), Name: c.Name(), Networks: c.Networks(), Unsafe: c.UnsafeNetworks(),
		Groups: c.Groups(), PublicKey: c.PublicKey(), Signature: c.Signature()}
}

// Desc renders any cert.Certificate.
func Desc(c cert.Certificate) string { return FieldsOf(c).Desc() }

// ParseDesc parses the 12 tokens.
func ParseDesc(a []string) Fields {
	if len(a) < DescLen {
		panic("harness: short certificate descriptor")
	}
	name, err := hex.DecodeString(a[6][1:])
	if err != nil {
		panic("harness: bad name")
	}
	pub, _ := hlib.UnHex(a[10])
	sig, _ := hlib.UnHex(a[11])
	return Fields{Version: hlib.Atoi(a[0]), Curve: int(int32(uint32(hlib.Atou(a[1])))), IsCA: a[2] == "1", NotBefore: TimeOf(a[3]), NotAfter: TimeOf(a[4]),
		Issuer: undash(a[5]), Name: string(name), Networks: ParsePrefixes(a[7]), Unsafe: ParsePrefixes(a[8]), Groups: ParseGroups(a[9]),
		PublicKey: pub, Signature: sig}
}

// ---- stub certificate: arbitrary fields, programmable crypto answers --------------------------------

type Stub struct {
	F     Fields
	Fp    string
	FpErr bool
	SigOK bool
}

func (d *Stub) Version() cert.Version                         { return cert.Version(d.F.Version) }
func (d *Stub) Curve() cert.Curve                             { return cert.Curve(d.F.Curve) }
func (d *Stub) Groups() []string                              { return d.F.Groups }
func (d *Stub) IsCA() bool                                    { return d.F.IsCA }
func (d *Stub) Issuer() string                                { return d.F.Issuer }
func (d *Stub) Name() string                                  { return d.F.Name }
func (d *Stub) Networks() []netip.Prefix                      { return d.F.Networks }
func (d *Stub) NotAfter() time.Time                           { return d.F.NotAfter }
func (d *Stub) NotBefore() time.Time                          { return d.F.NotBefore }
func (d *Stub) PublicKey() []byte                             { return d.F.PublicKey }
func (d *Stub) Signature() []byte                             { return d.F.Signature }
func (d *Stub) UnsafeNetworks() []netip.Prefix                { return d.F.Unsafe }
func (d *Stub) CheckSignature(key []byte) bool                { return d.SigOK }
func (d *Stub) MarshalForHandshakes() ([]byte, error)         { return nil, nil }
func (d *Stub) MarshalPEM() ([]byte, error)                   { return nil, nil }
func (d *Stub) MarshalJSON() ([]byte, error)                  { return nil, nil }
func (d *Stub) Marshal() ([]byte, error)                      { return nil, nil }
func (d *Stub) String() string                                { return "stub" }
func (d *Stub) Copy() cert.Certificate                        { return d }
func (d *Stub) MarshalPublicKeyPEM() []byte                   { return nil }
func (d *Stub) VerifyPrivateKey(c cert.Curve, k []byte) error { return nil }
func (d *Stub) Fingerprint() (string, error) {
	if d.FpErr {
		return "", errors.New("stub: no fingerprint")
	}
	return d.Fp, nil
}

// Expired is a copy of certificateV1/V2.Expired (the stub stream exercises the pool logic, not this method).
func (d *Stub) Expired(t time.Time) bool { return d.F.NotBefore.After(t) || d.F.NotAfter.Before(t) }

// ---- keys ------------------------------------------------------------------------------------------

// SignKey is a CA signing key on either curve, derived from the harness random stream.
type SignKey struct {
	Curve cert.Curve
	Pub   []byte // what goes into the CA certificate
	Priv  []byte // what TBSCertificate.Sign takes
	ec    *ecdsa.PrivateKey
}

func NewSignKey(r *hlib.Rand, curve cert.Curve) *SignKey {
	switch curve {
	case cert.Curve_CURVE25519:
		priv := ed25519.NewKeyFromSeed(r.Bytes(32))
		return &SignKey{Curve: curve, Pub: []byte(priv.Public().(ed25519.PublicKey)), Priv: []byte(priv)}
	case cert.Curve_P256:
		for {
			d := r.Bytes(32)
			k, err := ecdsa.ParseRawPrivateKey(elliptic.P256(), d)
			if err != nil {
				continue
			}
			pub, err := k.PublicKey.Bytes()
			if err != nil {
				panic(err)
			}
			return &SignKey{Curve: curve, Pub: pub, Priv: d, ec: k}
		}
	}
	panic("harness: unknown curve")
}

// SignRaw signs message bytes the way TBSCertificate.Sign does (without low-S normalisation).
func (k *SignKey) SignRaw(msg []byte) []byte {
	switch k.Curve {
	case cert.Curve_CURVE25519:
		return ed25519.Sign(ed25519.PrivateKey(k.Priv), msg)
	default:
		h := sha256.Sum256(msg)
		sig, err := ecdsa.SignASN1(rand.Reader, k.ec, h[:])
		if err != nil {
			panic(err)
		}
		return sig
	}
}

// LeafPub returns public-key bytes of the right shape for a host certificate (contents are never validated
// by the certificate code).
func LeafPub(r *hlib.Rand, curve cert.Curve) []byte {
	if curve == cert.Curve_P256 {
		return append([]byte{4}, r.Bytes(64)...)
	}
	return r.Bytes(32)
}

// ---- crafted encodings -----------------------------------------------------------------------------

func addr2int(a netip.Addr) uint32 {
	b := a.Unmap().As4()
	return uint32(b[0])<<24 | uint32(b[1])<<16 | uint32(b[2])<<8 | uint32(b[3])
}

func maskInt(bits int) uint32 {
	if bits <= 0 {
		return 0
	}
	return ^uint32(0) << (32 - uint(bits))
}

// V1Details builds the protobuf details message from fields (IPv4 only, like getRawDetails).
func V1Details(f Fields) *cert.RawNebulaCertificateDetails {
	rd := &cert.RawNebulaCertificateDetails{Name: f.Name, Groups: f.Groups, NotBefore: f.NotBefore.Unix(), NotAfter: f.NotAfter.Unix(),
		PublicKey: f.PublicKey, IsCA: f.IsCA, Curve: cert.Curve(f.Curve)}
	for _, p := range f.Networks {
		rd.Ips = append(rd.Ips, addr2int(p.Addr()), maskInt(p.Bits()))
	}
	for _, p := range f.Unsafe {
		rd.Subnets = append(rd.Subnets, addr2int(p.Addr()), maskInt(p.Bits()))
	}
	rd.Issuer, _ = hex.DecodeString(f.Issuer)
	return rd
}

// CraftV1 encodes and signs a v1 certificate without any of the signer-side checks. sig == nil: sign with k.
func CraftV1(f Fields, k *SignKey, sig []byte) []byte {
	rd := V1Details(f)
	tbs, err := proto.Marshal(rd)
	if err != nil {
		panic(err)
	}
	if sig == nil {
		sig = k.SignRaw(tbs)
	}
	b, err := proto.Marshal(&cert.RawNebulaCertificate{Details: rd, Signature: sig})
	if err != nil {
		panic(err)
	}
	return b
}

// V2Details is a copy of detailsV2.Marshal working on Fields (no sorting, no validation).
func V2Details(f Fields) []byte {
	var b cryptobyte.Builder
	b.AddASN1(cert.TagCertDetails, func(b *cryptobyte.Builder) {
		b.AddASN1(cert.TagDetailsName, func(b *cryptobyte.Builder) { b.AddBytes([]byte(f.Name)) })
		if len(f.Networks) > 0 {
			b.AddASN1(cert.TagDetailsNetworks, func(b *cryptobyte.Builder) {
				for _, n := range f.Networks {
					sb, _ := n.MarshalBinary()
					b.AddASN1OctetString(sb)
				}
			})
		}
		if len(f.Unsafe) > 0 {
			b.AddASN1(cert.TagDetailsUnsafeNetworks, func(b *cryptobyte.Builder) {
				for _, n := range f.Unsafe {
					sb, _ := n.MarshalBinary()
					b.AddASN1OctetString(sb)
				}
			})
		}
		if len(f.Groups) > 0 {
			b.AddASN1(cert.TagDetailsGroups, func(b *cryptobyte.Builder) {
				for _, g := range f.Groups {
					b.AddASN1(asn1.UTF8String, func(b *cryptobyte.Builder) { b.AddBytes([]byte(g)) })
				}
			})
		}
		if f.IsCA {
			b.AddASN1(cert.TagDetailsIsCA, func(b *cryptobyte.Builder) { b.AddUint8(0xff) })
		}
		b.AddASN1Int64WithTag(f.NotBefore.Unix(), cert.TagDetailsNotBefore)
		b.AddASN1Int64WithTag(f.NotAfter.Unix(), cert.TagDetailsNotAfter)
		if f.Issuer != "" {
			ib, _ := hex.DecodeString(f.Issuer)
			b.AddASN1(cert.TagDetailsIssuer, func(b *cryptobyte.Builder) { b.AddBytes(ib) })
		}
	})
	return b.BytesOrPanic()
}

// V2Envelope is a copy of certificateV2.Marshal on raw parts.
func V2Envelope(rawDetails []byte, curve int, pub, sig []byte) []byte {
	var b cryptobyte.Builder
	b.AddASN1(asn1.SEQUENCE, func(b *cryptobyte.Builder) {
		b.AddBytes(rawDetails)
		if curve != 0 {
			b.AddASN1(cert.TagCertCurve, func(b *cryptobyte.Builder) { b.AddBytes([]byte{byte(curve)}) })
		}
		if pub != nil {
			b.AddASN1(cert.TagCertPublicKey, func(b *cryptobyte.Builder) { b.AddBytes(pub) })
		}
		b.AddASN1(cert.TagCertSignature, func(b *cryptobyte.Builder) { b.AddBytes(sig) })
	})
	return b.BytesOrPanic()
}

// CraftV2 encodes and signs a v2 certificate without any of the signer-side checks. sig == nil: sign with k.
func CraftV2(f Fields, k *SignKey, sig []byte) []byte {
	rd := V2Details(f)
	if sig == nil {
		msg := append(append(append([]byte{}, rd...), byte(f.Curve)), f.PublicKey...)
		sig = k.SignRaw(msg)
	}
	return V2Envelope(rd, f.Curve, f.PublicKey, sig)
}

// Craft dispatches on the version.
func Craft(f Fields, k *SignKey, sig []byte) []byte {
	if f.Version == 1 {
		return CraftV1(f, k, sig)
	}
	return CraftV2(f, k, sig)
}

// Decode runs the real decoder (through the public PEM entry point) on a raw encoding.
func Decode(version int, raw []byte) (cert.Certificate, error) {
	banner := cert.CertificateBanner
	if version == 2 {
		banner = cert.CertificateV2Banner
	}
	c, _, err := cert.UnmarshalCertificateFromPEM(pem.EncodeToMemory(&pem.Block{Type: banner, Bytes: raw}))
	return c, err
}

// MustRaw returns c.Marshal().
func MustRaw(c cert.Certificate) []byte {
	b, err := c.Marshal()
	if err != nil {
		panic(err)
	}
	return b
}

// InvalidKind names the rule of certificateV1/V2.validate that an error reports ("" if it is not one).
func InvalidKind(err error) string {
	var ip *cert.ErrInvalidCertificateProperties
	msg := err.Error()
	switch {
	case errors.Is(err, cert.ErrInvalidPublicKey):
		return "err:invalid:public-key"
	case errors.As(err, &ip):
		switch {
		case strings.HasPrefix(msg, "non-CA certificate must contain at least 1 network"), strings.HasPrefix(msg, "non-CA certificates must contain exactly one network"):
			return "err:invalid:no-networks"
		case strings.HasPrefix(msg, "invalid network"):
			return "err:invalid:invalid-network"
		case strings.HasPrefix(msg, "non-CA certificates must not use the zero address"):
			return "err:invalid:zero-address"
		case strings.HasPrefix(msg, "4in6 networks are not allowed"):
			return "err:invalid:4in6"
		case strings.HasPrefix(msg, "certificate may not contain IPv6 networks"):
			return "err:invalid:v1-ipv6"
		case strings.HasPrefix(msg, "certificate may not contain IPv6 unsafe networks"):
			return "err:invalid:v1-ipv6-unsafe"
		case strings.HasPrefix(msg, "invalid unsafe network"):
			return "err:invalid:invalid-unsafe"
		case strings.HasPrefix(msg, "IPv6 unsafe networks require"):
			return "err:invalid:unsafe-needs-v6"
		case strings.HasPrefix(msg, "IPv4 unsafe networks require"):
			return "err:invalid:unsafe-needs-v4"
		case strings.HasPrefix(msg, "duplicate network detected"):
			return "err:invalid:duplicate"
		case strings.HasPrefix(msg, "name must be between"):
			return "err:invalid:name"
		case strings.HasPrefix(msg, "groups must not contain an empty name"):
			return "err:invalid:empty-group"
		case strings.HasPrefix(msg, "encoded certificate is"):
			return "err:invalid:too-large"
		}
		return "err:invalid:other:" + strings.ReplaceAll(msg, " ", "_")
	}
	return ""
}

// TwinFingerprint computes, independently of cert.CalculateAlternateFingerprint / Certificate.Copy, the
// fingerprint of the certificate that carries the other S form of c's P-256 signature: "" for other curves,
// an error when the signature cannot be swapped. v1: SHA-256 of the re-marshalled certificate with the swapped
// signature (built from the accessor values); v2: SHA-256 of rawDetails ‖ curve ‖ publicKey ‖ swapped
// signature, rawDetails cut out of c.Marshal().
func TwinFingerprint(c cert.Certificate) (string, error) {
	if c.Curve() != cert.Curve_P256 {
		return "", nil
	}
	sw, err := SwapSig(c.Signature())
	if err != nil {
		return "", err
	}
	switch c.Version() {
	case cert.Version1:
		sum := sha256.Sum256(CraftV1(FieldsOf(c), nil, sw))
		return hex.EncodeToString(sum[:]), nil
	case cert.Version2:
		raw, err := c.Marshal()
		if err != nil {
			return "", err
		}
		in := cryptobyte.String(raw)
		var seq, rd cryptobyte.String
		if !in.ReadASN1(&seq, asn1.SEQUENCE) || !seq.ReadASN1Element(&rd, cert.TagCertDetails) {
			return "", errors.New("harness: cannot cut raw details")
		}
		b := append(append(append(append([]byte{}, rd...), byte(c.Curve())), c.PublicKey()...), sw...)
		sum := sha256.Sum256(b)
		return hex.EncodeToString(sum[:]), nil
	}
	return "", errors.New("harness: unknown version")
}
