package routes

// Compact token syntax for the YAML-ish values of the line protocol (no spaces):
//
//	n                 nil
//	t | f             bool
//	i<decimal>        int            (i-5)
//	s<hex>            string         (hex of the bytes, s- = empty)
//	oF<hex> oU<hex>   float64 / uint64, hex of the value's %v rendering (round-trips through Parse*)
//	[v,v,…]           []any
//	{<hexkey>:v,…}    map[string]any (keys unique)

import (
	"fmt"
	"strconv"
	"strings"

	"verifharness/hlib"
)

func enc(v any) string {
	switch t := v.(type) {
	case nil:
		return "n"
	case bool:
		if t {
			return "t"
		}
		return "f"
	case int:
		return "i" + strconv.Itoa(t)
	case string:
		return "s" + hlib.Hex([]byte(t))
	case float64:
		return "oF" + hlib.Hex([]byte(fmt.Sprintf("%v", t)))
	case uint64:
		return "oU" + hlib.Hex([]byte(fmt.Sprintf("%v", t)))
	case []any:
		parts := make([]string, len(t))
		for i, e := range t {
			parts[i] = enc(e)
		}
		return "[" + strings.Join(parts, ",") + "]"
	case kvs:
		parts := make([]string, len(t))
		for i, e := range t {
			parts[i] = hlib.Hex([]byte(e.k)) + ":" + enc(e.v)
		}
		return "{" + strings.Join(parts, ",") + "}"
	}
	panic(fmt.Sprintf("harness: cannot encode %T", v))
}

// kvs is an ordered map literal used by the generator (the executor builds a real map[string]any).
type kv struct {
	k string
	v any
}
type kvs []kv

type reader struct {
	s string
	p int
}

func (r *reader) peek() byte {
	if r.p < len(r.s) {
		return r.s[r.p]
	}
	return 0
}

func (r *reader) hex() string {
	st := r.p
	for r.p < len(r.s) && (r.s[r.p] == '-' || (r.s[r.p] >= '0' && r.s[r.p] <= '9') || (r.s[r.p] >= 'a' && r.s[r.p] <= 'f')) {
		r.p++
	}
	b, err := hlib.UnHex(r.s[st:r.p])
	if err != nil {
		panic("harness: bad hex in value")
	}
	return string(b)
}

func (r *reader) value() any {
	c := r.peek()
	r.p++
	switch c {
	case 'n':
		return nil
	case 't':
		return true
	case 'f':
		return false
	case 'i':
		st := r.p
		for r.p < len(r.s) && (r.s[r.p] == '-' || (r.s[r.p] >= '0' && r.s[r.p] <= '9')) {
			r.p++
		}
		return hlib.Atoi(r.s[st:r.p])
	case 's':
		return r.hex()
	case 'o':
		k := r.peek()
		r.p++
		txt := r.hex()
		if k == 'F' {
			f, err := strconv.ParseFloat(txt, 64)
			if err != nil {
				panic("harness: bad float " + txt)
			}
			return f
		}
		u, err := strconv.ParseUint(txt, 10, 64)
		if err != nil {
			panic("harness: bad uint " + txt)
		}
		return u
	case '[':
		out := []any{}
		if r.peek() == ']' {
			r.p++
			return out
		}
		for {
			out = append(out, r.value())
			d := r.peek()
			r.p++
			if d == ']' {
				return out
			}
			if d != ',' {
				panic("harness: bad list syntax")
			}
		}
	case '{':
		out := map[string]any{}
		if r.peek() == '}' {
			r.p++
			return out
		}
		for {
			k := r.hex()
			if r.peek() != ':' {
				panic("harness: bad map syntax")
			}
			r.p++
			v := r.value()
			if _, dup := out[k]; !dup { // first occurrence wins (the Lean reader does the same)
				out[k] = v
			}
			d := r.peek()
			r.p++
			if d == '}' {
				return out
			}
			if d != ',' {
				panic("harness: bad map syntax")
			}
		}
	}
	panic("harness: bad value syntax at " + r.s)
}

func dec(s string) any {
	r := &reader{s: s}
	v := r.value()
	if r.p != len(s) {
		panic("harness: trailing characters in value " + s)
	}
	return v
}
