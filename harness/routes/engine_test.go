// Engine `routes` (C41): overlay.parseRoutes / parseUnsafeRoutes over generated configuration values.
//
// ops:
//
//	routes <networks> <value> <oracle>    -> ok <route>;… | ok - | err:<kind>
//	unsafe <networks> <value> <oracle>    -> same
//
// <networks>: comma-separated hex prefixes (hlib.PrefixHex) or `-`.
// <value>: the value of tun.routes / tun.unsafe_routes in the token syntax of yaml.go, or `absent`.
// <oracle>: what net/netip answers for every string that can reach ParsePrefix / ParseAddr in this case:
// `;`-separated `<hexstring>=<prefix|x>=<addr|x>`, or `-`. (net/netip is standard library; the Lean model
// takes its two parsers as oracle parameters.)
// route: `<mtu>,<metric>,<cidr>,<install 0|1>,<via>`; via: `<addr>@<weight>|…` or `-`.
package routes

import (
	"fmt"
	"log/slog"
	"math"
	"net/netip"
	"regexp"
	"sort"
	"strconv"
	"strings"
	"testing"

	"github.com/slackhq/nebula/config"
	"github.com/slackhq/nebula/overlay"
	"verifharness/hlib"
)

var netPool = []string{"10.0.0.1/24", "10.0.0.0/8", "192.168.1.5/16", "fd00::1/64", "10.0.0.0/30", "0.0.0.0/0", "::/0", "fd00::/8", "10.0.0.77/32"}

var cidrPool = []string{"10.0.0.0/24", "10.0.0.0/29", "10.0.1.0/24", "10.0.0.128/25", "10.0.0.3/32", "10.0.0.4/32", "10.1.0.0/16", "10.0.0.0/8", "10.0.0.0/7",
	"1.0.0.0/8", "0.0.0.0/0", "192.168.0.0/16", "192.168.77.0/24", "192.168.0.0/15", "fd00::/64", "fd00::/80", "fd00:0:0:1::/64", "fd00::/63", "::/0", "fe80::/10",
	"::ffff:10.0.0.0/120", "10.0.0.77/32", "10.0.0.76/31"}

var badCidrPool = []string{"nope", "10.0.0.0", "10.0.0.0/33", "", " 10.0.0.0/24", "10.0.0.0/24 ", "10.0.0.0/-1", "10.0.0.0/024", "fd00::/129", "fe80::1%eth0/64", "10.0.0/24"}

var addrPool = []string{"10.0.0.2", "10.0.0.9", "192.168.1.1", "fd00::2", "1.2.3.4", "::ffff:10.0.0.2", "fe80::1%eth0", "0.0.0.0"}
var badAddrPool = []string{"nope", "1", "10.0.0", "10.0.0.256", "", "10.0.0.2/32", " 10.0.0.2", "fd00::g"}

// numeric field values: integers, decimal strings, malformed strings, other YAML types
func intBoundary(r *hlib.Rand) int {
	return hlib.Pick(r, 0, 1, -1, 2, 5, 100, 499, 500, 501, 1300, 9000, 65535, 65536, math.MaxInt32-1, math.MaxInt32, math.MaxInt32+1,
		math.MinInt32, math.MinInt32-1, math.MaxInt64, math.MinInt64, -500, r.Intn(3000), int(int32(r.U64())), int(r.U64()))
}

var malformedNum = []string{"", "+", "-", "nope", "1.5", "1e3", "0x10", "1_000", " 5", "5 ", "5\n", "५", "--5", "+-5", "5-", "0b1", "1,000", "Infinity", "true",
	"9223372036854775808", "-9223372036854775809", "99999999999999999999999", "2147483648", "-2147483649"}

func numValue(r *hlib.Rand) any {
	switch r.Intn(12) {
	case 0, 1, 2, 3:
		return intBoundary(r)
	case 4, 5, 6:
		s := strconv.Itoa(intBoundary(r))
		switch r.Intn(6) {
		case 0:
			if s[0] != '-' {
				s = "+" + s
			}
		case 1:
			if s[0] != '-' {
				s = "00" + s
			} else {
				s = "-0" + s[1:]
			}
		}
		return s
	case 7, 8:
		return hlib.Pick(r, malformedNum...)
	default:
		return otherValue(r)
	}
}

func otherValue(r *hlib.Rand) any {
	switch r.Intn(9) {
	case 0:
		return true
	case 1:
		return false
	case 2:
		return nil
	case 3:
		return hlib.Pick(r, 1.5, 100.0, 0.0, 1300.0, -1.0, 1e21, 0.1)
	case 4:
		return hlib.Pick(r, uint64(math.MaxUint64), uint64(math.MaxInt64)+1)
	case 5:
		return []any{}
	case 6:
		return []any{hlib.Pick[any](r, 100, "100", "10.0.1.0/24")}
	case 7:
		return kvs{}
	}
	return kvs{{"b", 1}, {"a", "x"}}
}

func goodNum(r *hlib.Rand, lo, hi int) any {
	v := lo + r.Intn(hi-lo+1)
	if r.Chance(1, 5) {
		v = hlib.Pick(r, lo, hi)
	}
	if r.Bool() {
		return strconv.Itoa(v)
	}
	return v
}

func install(r *hlib.Rand) any {
	return hlib.Pick[any](r, true, false, "true", "false", "1", "0", "t", "F", "TRUE", "True", "nope", "", "yes", 1, 0, 2, 1.0, nil, []any{}, "tRUE")
}

type gctx struct {
	r      *hlib.Rand
	unsafe bool
	nets   []netip.Prefix
}

func (g *gctx) cidr(valid bool) any {
	r := g.r
	if !valid {
		switch r.Intn(4) {
		case 0:
			return hlib.Pick(r, badCidrPool...)
		case 1:
			return otherValue(r)
		}
	}
	// choose by containment status so that both outcomes are frequent
	for try := 0; try < 20; try++ {
		s := hlib.Pick(r, cidrPool...)
		p := netip.MustParsePrefix(s)
		in := false
		for _, n := range g.nets {
			if g.unsafe {
				in = in || n.Contains(p.Addr())
			} else {
				in = in || (n.Contains(p.Addr()) && p.Bits() >= n.Bits())
			}
		}
		ok := in != g.unsafe
		if ok == valid {
			return s
		}
	}
	return hlib.Pick(r, cidrPool...)
}

func (g *gctx) gateway(valid bool) any {
	r := g.r
	m := kvs{{"gateway", hlib.Pick(r, addrPool...)}}
	if r.Chance(2, 3) {
		m = append(m, kv{"weight", goodNum(r, 1, hlib.Pick(r, 10, math.MaxInt32))})
	}
	if !valid {
		switch r.Intn(6) {
		case 0:
			m[0].v = hlib.Pick(r, badAddrPool...)
		case 1:
			m[0].v = otherValue(r)
		case 2:
			m = m[1:]
		case 3:
			return hlib.Pick[any](r, "10.0.0.2", 5, nil, []any{})
		default:
			if len(m) < 2 {
				m = append(m, kv{"weight", nil})
			}
			m[1].v = numValue(r)
		}
	}
	return m
}

func (g *gctx) entry(valid bool) any {
	r := g.r
	mut := -1
	if !valid {
		mut = r.Intn(8)
	}
	m := kvs{}
	if !g.unsafe {
		m = append(m, kv{"mtu", goodNum(r, 500, 9000)}, kv{"route", g.cidr(mut != 0)})
		switch mut {
		case 1, 2, 3:
			m[0].v = numValue(r)
		case 4:
			m = m[1:]
		case 5:
			m = m[:1]
		case 6:
			return hlib.Pick[any](r, "asdf", 5, nil, []any{}, true)
		case 7:
			m = append(m, kv{"metric", numValue(r)}) // ignored key
		}
		return m
	}
	if r.Chance(2, 3) || mut == 1 {
		v := goodNum(r, 500, 9000)
		if r.Chance(1, 6) {
			v = hlib.Pick[any](r, 0, "0")
		}
		m = append(m, kv{"mtu", v})
	}
	if r.Chance(2, 3) || mut == 2 {
		m = append(m, kv{"metric", goodNum(r, 0, hlib.Pick(r, 200, math.MaxInt32))})
	}
	var via any = hlib.Pick(r, addrPool...)
	if r.Bool() {
		l := []any{}
		for k := r.Range(1, 3); k > 0; k-- {
			l = append(l, g.gateway(mut != 3 || r.Bool()))
		}
		if mut == 3 && r.Chance(1, 4) {
			l = []any{}
		}
		via = l
	} else if mut == 3 {
		via = hlib.Pick[any](r, hlib.Pick(r, badAddrPool...), 5, nil, true, kvs{{"gateway", "10.0.0.2"}}, 1.5)
	}
	m = append(m, kv{"via", via})
	m = append(m, kv{"route", g.cidr(mut != 0)})
	if r.Chance(1, 2) || mut == 4 {
		v := install(r)
		if mut != 4 {
			v = hlib.Pick[any](r, true, false, "true", "0", 1, "T")
		}
		m = append(m, kv{"install", v})
	}
	set := func(k string, v any) {
		for i := range m {
			if m[i].k == k {
				m[i].v = v
				return
			}
		}
		m = append(m, kv{k, v})
	}
	del := func(k string) {
		for i := range m {
			if m[i].k == k {
				m = append(m[:i:i], m[i+1:]...)
				return
			}
		}
	}
	switch mut {
	case 1:
		set("mtu", numValue(r))
	case 2:
		set("metric", numValue(r))
	case 5:
		del(hlib.Pick(r, "via", "route"))
	case 6:
		return hlib.Pick[any](r, "asdf", 5, nil, []any{}, true)
	case 7:
		// several numeric fields random at once
		set("mtu", numValue(r))
		set("metric", numValue(r))
	}
	// shuffle key order a little: order must not matter
	if r.Bool() && len(m) > 1 {
		i, j := r.Intn(len(m)), r.Intn(len(m))
		m[i], m[j] = m[j], m[i]
	}
	return m
}

// collect every string that can reach the netip parsers
func collect(v any, acc map[string]bool) {
	switch t := v.(type) {
	case string:
		acc[t] = true
	case []any:
		for _, e := range t {
			collect(e, acc)
		}
	case kvs:
		for _, e := range t {
			if e.k == "route" {
				acc[fmt.Sprintf("%v", plain(e.v))] = true
			}
			collect(e.v, acc)
		}
	}
}

// plain turns generator literals (kvs) into the Go values the executor builds.
func plain(v any) any {
	switch t := v.(type) {
	case kvs:
		m := map[string]any{}
		for _, e := range t {
			if _, dup := m[e.k]; !dup {
				m[e.k] = plain(e.v)
			}
		}
		return m
	case []any:
		out := make([]any, len(t))
		for i, e := range t {
			out[i] = plain(e)
		}
		return out
	}
	return v
}

func oracle(v any) string {
	acc := map[string]bool{}
	collect(v, acc)
	keys := make([]string, 0, len(acc))
	for k := range acc {
		keys = append(keys, k)
	}
	sort.Strings(keys)
	parts := []string{}
	for _, k := range keys {
		p, a := "x", "x"
		if pp, err := netip.ParsePrefix(k); err == nil {
			p = hlib.PrefixHex(pp)
		}
		if aa, err := netip.ParseAddr(k); err == nil {
			a = hlib.AddrHex(aa)
		}
		if p == "x" && a == "x" {
			continue // the default of the oracle table: neither parses
		}
		parts = append(parts, hlib.Hex([]byte(k))+"="+p+"="+a)
	}
	if len(parts) == 0 {
		return "-"
	}
	return strings.Join(parts, ";")
}

func netsArg(ns []netip.Prefix) string {
	if len(ns) == 0 {
		return "-"
	}
	parts := make([]string, len(ns))
	for i, n := range ns {
		parts[i] = hlib.PrefixHex(n)
	}
	return strings.Join(parts, ",")
}

func emitCase(emit func(string, ...any), unsafe bool, nets []netip.Prefix, v any, absent bool) {
	op := "routes"
	if unsafe {
		op = "unsafe"
	}
	if absent {
		emit("%s %s absent -", op, netsArg(nets))
		return
	}
	emit("%s %s %s %s", op, netsArg(nets), enc(v), oracle(v))
}

func gen(r *hlib.Rand, n int, tier, profile string, emit func(string, ...any)) {
	nets1 := []netip.Prefix{netip.MustParsePrefix("10.0.0.1/24")}
	// 1. systematic: every numeric-field value class in every numeric position of an otherwise valid entry
	vals := []any{}
	for _, i := range []int{0, 1, -1, 5, 100, 499, 500, 501, 9000, math.MaxInt32, math.MaxInt32 + 1, math.MinInt32, math.MaxInt64, math.MinInt64} {
		vals = append(vals, i, strconv.Itoa(i))
	}
	vals = append(vals, "+100", "+600", "0100", "-0", "+0")
	for _, s := range malformedNum {
		vals = append(vals, s)
	}
	vals = append(vals, true, false, nil, 1.5, 100.0, uint64(math.MaxUint64), []any{}, []any{100}, kvs{}, kvs{{"a", 1}})
	for _, v := range vals {
		emitCase(emit, false, nets1, []any{kvs{{"mtu", v}, {"route", "10.0.0.0/29"}}}, false)
		emitCase(emit, true, nets1, []any{kvs{{"mtu", v}, {"via", "10.0.0.2"}, {"route", "1.0.0.0/8"}}}, false)
		emitCase(emit, true, nets1, []any{kvs{{"metric", v}, {"via", "10.0.0.2"}, {"route", "1.0.0.0/8"}}}, false)
		emitCase(emit, true, nets1, []any{kvs{{"via", []any{kvs{{"gateway", "10.0.0.2"}, {"weight", v}}}}, {"route", "1.0.0.0/8"}}}, false)
	}
	// 2. top-level shapes
	for _, u := range []bool{false, true} {
		emitCase(emit, u, nets1, nil, true)
		for _, v := range []any{nil, "hi", 5, true, 1.5, []any{}, kvs{}, kvs{{"mtu", 1300}}, []any{nil}, []any{"asdf"}, []any{kvs{}}, []any{[]any{}}} {
			emitCase(emit, u, nets1, v, false)
		}
	}
	// 3. random
	for i := 0; i < n; i++ {
		g := &gctx{r: r, unsafe: r.Bool()}
		for k := hlib.Pick(r, 0, 1, 1, 1, 2, 2, 3); k > 0; k-- {
			g.nets = append(g.nets, netip.MustParsePrefix(hlib.Pick(r, netPool...)))
		}
		cnt := hlib.Pick(r, 1, 1, 1, 2, 2, 3)
		bad := -1
		if r.Chance(3, 5) {
			bad = r.Intn(cnt)
		}
		l := []any{}
		for k := 0; k < cnt; k++ {
			l = append(l, g.entry(k != bad))
		}
		emitCase(emit, g.unsafe, g.nets, l, false)
	}
}

var reKinds = []struct {
	re   *regexp.Regexp
	kind string
}{
	{regexp.MustCompile(`^tun\.(unsafe_)?routes is not an array$`), "not-array"},
	{regexp.MustCompile(`^entry (\d+) in tun\.(?:unsafe_)?routes is invalid$`), "invalid"},
	{regexp.MustCompile(`^entry (\d+)\.mtu in tun\.(?:unsafe_)?routes is not present$`), "mtu-missing"},
	{regexp.MustCompile(`^entry (\d+)\.mtu in tun\.(?:unsafe_)?routes is not an integer: `), "mtu-not-int"},
	{regexp.MustCompile(`^entry (\d+)\.mtu in tun\.(?:unsafe_)?routes is below 500: `), "mtu-low"},
	{regexp.MustCompile(`^entry (\d+)\.metric in tun\.unsafe_routes is not an integer: `), "metric-not-int"},
	{regexp.MustCompile(`^entry (\d+)\.metric in tun\.unsafe_routes is not in range `), "metric-range"},
	{regexp.MustCompile(`^entry (\d+)\.via in tun\.unsafe_routes is not present$`), "via-missing"},
	{regexp.MustCompile(`^entry (\d+)\.via in tun\.unsafe_routes failed to parse address: `), "via-addr"},
	{regexp.MustCompile(`^entry (\d+)\.via in tun\.unsafe_routes is not a string or list of gateways: `), "via-type"},
	{regexp.MustCompile(`^entry (\d+) in tun\.unsafe_routes\[(\d+)\]\.via is invalid$`), "gw-invalid"},
	{regexp.MustCompile(`^entry \.gateway in tun\.unsafe_routes\[(\d+)\]\.via\[(\d+)\] is not present$`), "gw-missing"},
	{regexp.MustCompile(`^entry \.gateway in tun\.unsafe_routes\[(\d+)\]\.via\[(\d+)\] is not a string$`), "gw-not-string"},
	{regexp.MustCompile(`^entry \.gateway in tun\.unsafe_routes\[(\d+)\]\.via\[(\d+)\] failed to parse address: `), "gw-addr"},
	{regexp.MustCompile(`^entry \.weight in tun\.unsafe_routes\[(\d+)\]\.via\[(\d+)\] is not an integer$`), "weight-not-int"},
	{regexp.MustCompile(`^entry \.weight in tun\.unsafe_routes\[(\d+)\]\.via\[(\d+)\] is not in range `), "weight-range"},
	{regexp.MustCompile(`^entry (\d+)\.route in tun\.(?:unsafe_)?routes is not present$`), "route-missing"},
	{regexp.MustCompile(`^entry (\d+)\.install in tun\.unsafe_routes is not a boolean: `), "install-not-bool"},
	{regexp.MustCompile(`^entry (\d+)\.route in tun\.(?:unsafe_)?routes failed to parse: `), "route-parse"},
	{regexp.MustCompile(`^entry (\d+)\.route in tun\.routes is not contained within the configured vpn networks`), "route-outside"},
	{regexp.MustCompile(`^entry (\d+)\.route in tun\.unsafe_routes is contained within the configured vpn networks`), "route-inside"},
}

func errKind(err error) string {
	msg := err.Error()
	for _, k := range reKinds {
		if m := k.re.FindStringSubmatch(msg); m != nil {
			switch {
			case k.kind == "not-array":
				return "err:not-array"
			case len(m) == 3:
				return "err:" + m[1] + ":" + m[2] + ":" + k.kind
			default:
				return "err:" + m[1] + ":" + k.kind
			}
		}
	}
	return "err:unrecognised " + strings.ReplaceAll(msg, " ", "_")
}

var reGw = regexp.MustCompile(`weight: (-?\d+)\}$`)

func showRoutes(rs []overlay.Route) string {
	if len(rs) == 0 {
		return "ok -"
	}
	parts := make([]string, len(rs))
	for i, r := range rs {
		via := "-"
		if len(r.Via) > 0 {
			gs := make([]string, len(r.Via))
			for j := range r.Via {
				g := r.Via[j]
				m := reGw.FindStringSubmatch(g.String())
				gs[j] = hlib.AddrHex(g.Addr()) + "@" + m[1]
			}
			via = strings.Join(gs, "|")
		}
		parts[i] = fmt.Sprintf("%d,%d,%s,%s,%s", r.MTU, r.Metric, hlib.PrefixHex(r.Cidr), hlib.B(r.Install), via)
	}
	return "ok " + strings.Join(parts, ";")
}

func newExec(t *testing.T) func([]string) string {
	l := slog.New(slog.DiscardHandler)
	return func(a []string) string {
		if len(a) != 4 || (a[0] != "routes" && a[0] != "unsafe") {
			return "bad-op"
		}
		var nets []netip.Prefix
		if a[1] != "-" {
			for _, s := range strings.Split(a[1], ",") {
				nets = append(nets, hlib.ParsePrefixHex(s))
			}
		}
		c := config.NewC(l)
		key := "routes"
		if a[0] == "unsafe" {
			key = "unsafe_routes"
		}
		if a[2] != "absent" {
			c.Settings["tun"] = map[string]any{key: dec(a[2])}
		}
		var rs []overlay.Route
		var err error
		if a[0] == "unsafe" {
			rs, err = overlay.VerifParseUnsafeRoutes(c, nets)
		} else {
			rs, err = overlay.VerifParseRoutes(c, nets)
		}
		if err != nil {
			return errKind(err)
		}
		return showRoutes(rs)
	}
}

func TestEngine(t *testing.T) {
	hlib.Run(t, hlib.Engine{Name: "routes", Gen: gen, NewExec: newExec})
}
