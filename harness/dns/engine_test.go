// Engine `dns` (C44): the lighthouse DNS responder (dns_server.go) driven through handleDnsRequest with a
// recording ResponseWriter, over histories of completed handshakes (HostMap.unlockedAddHostInfo ->
// dnsServer.Add), self seeding, and disable/enable reloads.
//
// ops (names as hex of their bytes; addresses as hex, see hlib.AddrHex):
//
//	reset <selfname|none> <selfaddrs|->       fresh responder, enabled, optional own certificate (PKI)
//	seed                                      -> ok        dnsServer.seedSelf()
//	disable                                   -> ok        reload to disabled: enabled=false, clearRecords()
//	enable                                    -> ok        reload to enabled: enabled=true, seedSelf()
//	renew <selfname> <selfaddrs>              -> ok        certificate reload + DNS reload: own certificate replaced, seedSelf()
//	drop <k>                                  -> ok        HostMap.DeleteHostInfo of the hostinfo of handshake k
//	hs <k> <certname> <addrs>                 -> ok        completed handshake number k with a peer whose
//	                                                       certificate has that name and those overlay addresses
//	pq <client addr:port> <qtype>:<name>:<oracle>;…  -> as q: dnsServer.parseQuery on a message carrying ALL the
//	                                          questions (the way the package's tests call it; through
//	                                          handleDnsRequest miekg's SetReply keeps the first question only)
//	q <client addr:port> <opcode> <qtype>:<name>:<oracle>;…
//	     -> rc=<rcode> <answer>;… | rc=<rcode> -
//	     answer: A:<name>:<addr> | AAAA:<name>:<addr> | TXT:<name>:<k>|self|unknown | OTHER
//	     <oracle> = what netip.ParseAddr answers for the name without its last byte (`x` = error); it is
//	     standard-library behaviour that the Lean model takes as given (used for TXT questions only).
package dns

import (
	"fmt"
	"net"
	"net/netip"
	"strings"
	"testing"
	"time"

	mdns "github.com/miekg/dns"
	"github.com/slackhq/nebula"
	"github.com/slackhq/nebula/cert"
	"github.com/slackhq/nebula/cert_test"
	"verifharness/hlib"
)

var certNames = []string{"host1", "Host1", "HOST2", "host2", "lh", "LH", "a.b", "v4only", "v6only", "10.0.0.5", "x"}
var peerV4 = []string{"10.0.0.5", "10.0.0.6", "10.0.0.7", "10.0.0.1", "192.168.0.9"}
var peerV6 = []string{"fd00::5", "fd00::6", "fd00::1", "fd00::7"}
var selfV4 = []string{"10.0.0.1", "10.0.0.2"}
var selfV6 = []string{"fd00::1", "fd00::2"}
var clients = []string{"127.0.0.1", "127.9.9.9", "::1", "10.0.0.1", "10.0.0.2", "fd00::1", "10.0.0.5", "8.8.8.8", "fd00::5", "128.0.0.1", "::2", "::ffff:127.0.0.1", "0.0.0.0"}
var qtypes = []uint16{mdns.TypeA, mdns.TypeAAAA, mdns.TypeTXT, mdns.TypeMX, mdns.TypeANY, mdns.TypeCNAME, mdns.TypeNS, mdns.TypeSOA, mdns.TypePTR, mdns.TypeSRV, 0, 65535}

func hx(s string) string { return hlib.Hex([]byte(s)) }

func addrList(r *hlib.Rand, v4, v6 []string) []string {
	var out []string
	switch r.Intn(6) {
	case 0:
		out = []string{hlib.Pick(r, v4...)}
	case 1:
		out = []string{hlib.Pick(r, v6...)}
	case 2:
		out = []string{hlib.Pick(r, v4...), hlib.Pick(r, v6...)}
	case 3:
		out = []string{hlib.Pick(r, v6...), hlib.Pick(r, v4...)}
	case 4:
		out = []string{hlib.Pick(r, v4...), hlib.Pick(r, v4...), hlib.Pick(r, v6...), hlib.Pick(r, v6...)}
	default:
		out = []string{hlib.Pick(r, v6...), hlib.Pick(r, v6...), hlib.Pick(r, v4...)}
	}
	// certificates refuse duplicate networks
	seen := map[string]bool{}
	ded := out[:0]
	for _, a := range out {
		if !seen[a] {
			seen[a] = true
			ded = append(ded, a)
		}
	}
	return ded
}

func addrsArg(as []string) string {
	if len(as) == 0 {
		return "-"
	}
	parts := make([]string, len(as))
	for i, a := range as {
		parts[i] = hlib.AddrHex(netip.MustParseAddr(a))
	}
	return strings.Join(parts, ",")
}

func mixCase(r *hlib.Rand, s string) string {
	b := []byte(s)
	for i := range b {
		if r.Chance(1, 3) {
			if b[i] >= 'a' && b[i] <= 'z' {
				b[i] -= 32
			} else if b[i] >= 'A' && b[i] <= 'Z' {
				b[i] += 32
			}
		}
	}
	return string(b)
}

func question(r *hlib.Rand, known []string, addrs []string) string {
	qt := hlib.Pick(r, qtypes...)
	if r.Chance(3, 5) {
		qt = hlib.Pick(r, mdns.TypeA, mdns.TypeAAAA, mdns.TypeTXT)
	}
	var name string
	pickKnown := func() string {
		if len(known) > 0 {
			return mixCase(r, hlib.Pick(r, known...)) + "."
		}
		return hlib.Pick(r, certNames...) + "."
	}
	switch x := r.Intn(20); {
	case x == 0:
		name = hlib.Pick(r, "unknown.", "host9.", ".", "host1", "host1..", "com.", "ost1.", "host1.x.", "")
	case x == 1:
		name = hlib.Pick(r, "10.0.0.99.", "fd00::99.", "10.0.0.5", "10.0.0.5x", "fD00::5.", "1.", "::.", "10.0.0.5..")
	case x < 5:
		name = hlib.Pick(r, certNames...) + "."
	case qt == mdns.TypeTXT && x < 16:
		// an address literal (certificate lookups)
		name = hlib.Pick(r, addrs...) + "."
	default:
		name = pickKnown()
	}
	// names taken off the wire are always fully qualified (miekg/dns unpacks them with the trailing
	// dot); dns.NewRR would otherwise complete a relative owner name with the root origin
	if !strings.HasSuffix(name, ".") {
		name += "."
	}
	o := "x"
	if len(name) >= 2 {
		if a, err := netip.ParseAddr(name[:len(name)-1]); err == nil {
			o = hlib.AddrHex(a)
		}
	}
	return fmt.Sprintf("%d:%s:%s", qt, hx(name), o)
}

// a question for a name nobody has, of any type
func unknownQuestion(r *hlib.Rand) string {
	name := hlib.Pick(r, "nobody.", "noone.neb.", "host9.", "unknown.", "10.0.0.99.", "x.y.")
	qt := hlib.Pick(r, qtypes...)
	o := "x"
	if a, err := netip.ParseAddr(name[:len(name)-1]); err == nil {
		o = hlib.AddrHex(a)
	}
	return fmt.Sprintf("%d:%s:%s", qt, hx(name), o)
}

// a question for a (probably) known name with a type it is likely to lack
func lackingQuestion(r *hlib.Rand, pool []string) string {
	name := "host1."
	if len(pool) > 0 {
		name = mixCase(r, hlib.Pick(r, pool...)) + "."
	}
	qt := hlib.Pick(r, mdns.TypeMX, mdns.TypeANY, mdns.TypeSRV, mdns.TypeAAAA, mdns.TypeA, mdns.TypeTXT, mdns.TypeCNAME, 0, 65535)
	o := "x" // a certificate may be named like an address ("10.0.0.5"): the oracle value must be the real one
	if a, err := netip.ParseAddr(name[:len(name)-1]); err == nil {
		o = hlib.AddrHex(a)
	}
	return fmt.Sprintf("%d:%s:%s", qt, hx(name), o)
}

var selfNames = []string{"lh", "LH", "Lighthouse", "host1", "lh2", "Host2", "lighthouse-new"}

func gen(r *hlib.Rand, n int, tier, profile string, emit func(string, ...any)) {
	for emitted := 0; emitted < n; {
		// one history
		selfName := "none"
		var selfAddrs []string
		if r.Chance(4, 5) {
			selfName = hlib.Pick(r, selfNames...)
			selfAddrs = addrList(r, selfV4, selfV6)
			emit("reset %s %s", hx(selfName), addrsArg(selfAddrs))
		} else {
			emit("reset none -")
		}
		emitted++
		// names ever published stay in the query pool for the whole history: stale records (after a
		// certificate rename, a disable/enable cycle, a tunnel teardown) are what the queries look for
		known := []string{}
		addrs := append([]string{}, selfAddrs...)
		addrs = append(addrs, "10.0.0.5", "fd00::5")
		if selfName != "none" {
			known = append(known, selfName)
		}
		query := func(focus []string) {
			emitted++
			whole := r.Chance(1, 2) // parseQuery on the whole message (every question counts)
			nq := hlib.Pick(r, 1, 1, 1, 1, 2, 2, 3, 0)
			if whole {
				nq = hlib.Pick(r, 2, 2, 2, 3, 3, 4, 1)
			}
			if focus != nil && nq == 0 {
				nq = 1
			}
			qs := make([]string, nq)
			for i := range qs {
				pool := known
				if focus != nil && (i == 0 || r.Bool()) {
					pool = focus
				}
				switch {
				case whole && r.Chance(1, 3):
					qs[i] = unknownQuestion(r)
				case whole && r.Chance(1, 3):
					qs[i] = lackingQuestion(r, pool)
				default:
					qs[i] = question(r, pool, addrs)
				}
			}
			qarg := strings.Join(qs, ";")
			if nq == 0 {
				qarg = "-"
			}
			cl := netip.AddrPortFrom(netip.MustParseAddr(hlib.Pick(r, clients...)), uint16(r.Range(1, 65535)))
			if whole {
				emit("pq %s %s", hlib.AddrPortHex(cl), qarg)
				// the same questions in other orders: the verdict on "some name is known" must not depend on it
				if nq >= 2 && r.Chance(2, 3) {
					emitted++
					rev := make([]string, nq)
					for i := range qs {
						rev[nq-1-i] = qs[i]
					}
					emit("pq %s %s", hlib.AddrPortHex(cl), strings.Join(rev, ";"))
				}
				if nq >= 3 && r.Bool() {
					emitted++
					rot := append(append([]string{}, qs[1:]...), qs[0])
					emit("pq %s %s", hlib.AddrPortHex(cl), strings.Join(rot, ";"))
				}
				return
			}
			op := mdns.OpcodeQuery
			if focus == nil && r.Chance(1, 25) {
				op = hlib.Pick(r, mdns.OpcodeNotify, mdns.OpcodeUpdate, mdns.OpcodeStatus)
			}
			emit("q %s %d %s", hlib.AddrPortHex(cl), op, qarg)
		}
		hsCount := 0
		hsAddrs := map[int][]string{}
		steps := r.Range(3, 14)
		for s := 0; s < steps; s++ {
			x := r.Intn(24)
			if s < 2 && r.Bool() {
				x = 0
			}
			switch {
			case x < 4 && hsCount < 5:
				emitted++
				hsCount++
				name := hlib.Pick(r, certNames...)
				if r.Chance(1, 6) {
					name = hlib.Pick(r, selfNames...) // a peer carrying (a spelling of) an own name
				}
				as := addrList(r, peerV4, peerV6)
				known = append(known, name)
				addrs = append(addrs, as...)
				hsAddrs[hsCount] = as
				emit("hs %d %s %s", hsCount, hx(name), addrsArg(as))
			case x == 5:
				emitted++
				emit("seed")
			case x == 6:
				emitted++
				emit("disable")
				if r.Bool() {
					query(known) // everything must be gone
				}
				if r.Chance(2, 3) {
					emitted++
					emit("enable")
					query(known)
				}
			case x == 7:
				emitted++
				emit("enable")
			case x == 8 || x == 9 || x == 10:
				// certificate renewal: new name or a respelling of the same one, same or other addresses
				emitted++
				old := selfName
				switch r.Intn(4) {
				case 0:
					if selfName != "none" {
						selfName = mixCase(r, selfName) // same name: not a rename
					} else {
						selfName = hlib.Pick(r, selfNames...)
					}
				default:
					selfName = hlib.Pick(r, selfNames...)
				}
				switch {
				case len(selfAddrs) > 1 && r.Chance(1, 3):
					// the renewed certificate loses addresses (often a whole family): their records must go
					selfAddrs = []string{hlib.Pick(r, selfAddrs...)}
				case r.Bool() || len(selfAddrs) == 0:
					selfAddrs = addrList(r, selfV4, selfV6)
				}
				known = append(known, selfName)
				addrs = append(addrs, selfAddrs...)
				emit("renew %s %s", hx(selfName), addrsArg(selfAddrs))
				focus := []string{selfName}
				if old != "none" {
					focus = append(focus, old, old)
				}
				for k := r.Range(1, 3); k > 0; k-- {
					query(focus)
				}
			case x == 11 && hsCount > 0:
				emitted++
				k := r.Range(1, hsCount)
				emit("drop %d", k)
				if r.Bool() {
					emitted++
					a := hlib.Pick(r, hsAddrs[k]...)
					pa := netip.MustParseAddr(a)
					emit("q %s 0 16:%s:%s", hlib.AddrPortHex(netip.AddrPortFrom(netip.MustParseAddr("127.0.0.1"), 53)), hx(a+"."), hlib.AddrHex(pa))
				}
			default:
				query(nil)
			}
		}
	}
}

type recWriter struct {
	remote net.Addr
	msg    *mdns.Msg
}

func (w *recWriter) LocalAddr() net.Addr         { return &net.UDPAddr{} }
func (w *recWriter) RemoteAddr() net.Addr        { return w.remote }
func (w *recWriter) Write([]byte) (int, error)   { return 0, nil }
func (w *recWriter) WriteMsg(m *mdns.Msg) error  { w.msg = m; return nil }
func (w *recWriter) Close() error                { return nil }
func (w *recWriter) TsigStatus() error           { return nil }
func (w *recWriter) TsigTimersOnly(bool)         {}
func (w *recWriter) Hijack()                     {}

func unhexStr(s string) string {
	b, err := hlib.UnHex(s)
	if err != nil {
		panic("harness: bad hex " + s)
	}
	return string(b)
}

func parseAddrs(s string) []netip.Addr {
	if s == "-" {
		return nil
	}
	var out []netip.Addr
	for _, p := range strings.Split(s, ",") {
		out = append(out, hlib.ParseAddrHex(p))
	}
	return out
}

func newExec(t *testing.T) func([]string) string {
	ca, _, caKey, _ := cert_test.NewTestCaCert(cert.Version2, cert.Curve_CURVE25519, time.Time{}, time.Time{}, nil, nil, nil)
	mkCert := func(name string, addrs []netip.Addr) cert.Certificate {
		nets := make([]netip.Prefix, len(addrs))
		for i, a := range addrs {
			nets[i] = netip.PrefixFrom(a, a.BitLen())
		}
		c, _, _, _ := cert_test.NewTestCert(cert.Version2, cert.Curve_CURVE25519, ca, caKey, name, time.Time{}, time.Time{}, nets, nil, nil)
		return c
	}
	var v *nebula.VerifDNS
	txtOwner := map[string]string{} // TXT payload (as the responder would render it) -> handshake number / self
	register := func(c cert.Certificate, who string) {
		b, err := c.MarshalJSON()
		if err != nil {
			panic(err)
		}
		rr, err := mdns.NewRR(fmt.Sprintf("x. TXT %s", string(b)))
		if err != nil {
			panic(err)
		}
		txtOwner[strings.Join(rr.(*mdns.TXT).Txt, "")] = who
	}
	return func(a []string) string {
		switch {
		case a[0] == "reset" && len(a) == 3:
			txtOwner = map[string]string{}
			if a[1] == "none" {
				v = nebula.VerifNewDNS(nil, nil)
			} else {
				addrs := parseAddrs(a[2])
				c := mkCert(unhexStr(a[1]), addrs)
				register(c, "self")
				v = nebula.VerifNewDNS(c, addrs)
			}
			v.SetEnabled(true)
			return "ok"
		case v == nil:
			return "bad-op"
		case a[0] == "seed":
			v.SeedSelf()
			return "ok"
		case a[0] == "disable":
			v.SetEnabled(false)
			v.ClearRecords()
			return "ok"
		case a[0] == "enable":
			v.SetEnabled(true)
			v.SeedSelf()
			return "ok"
		case a[0] == "renew" && len(a) == 3:
			// certificate reload + DNS reload: the own certificate is replaced, then seedSelf runs
			for k, who := range txtOwner {
				if who == "self" {
					txtOwner[k] = "stale-self"
				}
			}
			addrs := parseAddrs(a[2])
			c := mkCert(unhexStr(a[1]), addrs)
			register(c, "self")
			v.SetSelf(c, addrs)
			v.SeedSelf()
			return "ok"
		case a[0] == "drop" && len(a) == 2:
			v.DeleteHostInfo(uint32(1000 + hlib.Atoi(a[1])))
			return "ok"
		case a[0] == "hs" && len(a) == 4:
			k := hlib.Atoi(a[1])
			addrs := parseAddrs(a[3])
			c := mkCert(unhexStr(a[2]), addrs)
			register(c, a[1])
			v.AddHostInfo(&cert.CachedCertificate{Certificate: c}, addrs, uint32(1000+k), uint32(2000+k))
			return "ok"
		case a[0] == "pq" && len(a) == 3:
			cl := hlib.ParseAddrPortHex(a[1])
			m := new(mdns.Msg)
			if a[2] != "-" {
				for _, qs := range strings.Split(a[2], ";") {
					f := strings.Split(qs, ":")
					m.Question = append(m.Question, mdns.Question{Name: unhexStr(f[1]), Qtype: uint16(hlib.Atoi(f[0])), Qclass: mdns.ClassINET})
				}
			}
			v.ParseQuery(m, &recWriter{remote: net.UDPAddrFromAddrPort(cl)})
			return showMsg(m, txtOwner)
		case a[0] == "q" && len(a) == 4:
			cl := hlib.ParseAddrPortHex(a[1])
			req := new(mdns.Msg)
			req.Id = 7
			req.Opcode = hlib.Atoi(a[2])
			req.RecursionDesired = true
			if a[3] != "-" {
				for _, qs := range strings.Split(a[3], ";") {
					f := strings.Split(qs, ":")
					req.Question = append(req.Question, mdns.Question{Name: unhexStr(f[1]), Qtype: uint16(hlib.Atoi(f[0])), Qclass: mdns.ClassINET})
				}
			}
			w := &recWriter{remote: net.UDPAddrFromAddrPort(cl)}
			v.Handle(w, req)
			if w.msg == nil {
				return "no-reply"
			}
			m := w.msg
			if !m.Response || m.Id != req.Id || len(m.Ns) != 0 || len(m.Extra) != 0 {
				return "malformed-reply"
			}
			return showMsg(m, txtOwner)
		}
		return "bad-op"
	}
}

func showMsg(m *mdns.Msg, txtOwner map[string]string) string {
	parts := []string{}
	for _, rr := range m.Answer {
		switch x := rr.(type) {
		case *mdns.A:
			ip, _ := netip.AddrFromSlice(x.A)
			parts = append(parts, "A:"+hx(x.Hdr.Name)+":"+hlib.AddrHex(ip.Unmap()))
		case *mdns.AAAA:
			ip, _ := netip.AddrFromSlice(x.AAAA)
			parts = append(parts, "AAAA:"+hx(x.Hdr.Name)+":"+hlib.AddrHex(ip))
		case *mdns.TXT:
			who, ok := txtOwner[strings.Join(x.Txt, "")]
			if !ok {
				who = "unknown"
			}
			parts = append(parts, "TXT:"+hx(x.Hdr.Name)+":"+who)
		default:
			parts = append(parts, "OTHER")
		}
	}
	ans := "-"
	if len(parts) > 0 {
		ans = strings.Join(parts, ";")
	}
	return fmt.Sprintf("rc=%d %s", m.Rcode, ans)
}

func TestEngine(t *testing.T) {
	hlib.Run(t, hlib.Engine{Name: "dns", Gen: gen, NewExec: newExec})
}
