//go:build linux

// Engine `writebatch` (C26): udp.batchWriter.WriteBatch on the real code, with the kernel replaced by a
// scripted sendFn (the repository's own injection point).
package writebatch

import (
	"bytes"
	"encoding/binary"
	"fmt"
	"go/ast"
	"go/parser"
	"go/printer"
	"go/token"
	"os"
	"path/filepath"
	"io"
	"log/slog"
	"net"
	"net/netip"
	"strconv"
	"strings"
	"testing"
	"unsafe"

	"github.com/slackhq/nebula/overlay/batch"
	"github.com/slackhq/nebula/udp"
	"golang.org/x/sys/unix"
	"verifharness/hlib"
)

// ---------------------------------------------------------------------------------------------
// generator

var palette = []netip.AddrPort{
	netip.MustParseAddrPort("10.0.0.1:4242"),
	netip.MustParseAddrPort("10.0.0.2:4242"),
	netip.MustParseAddrPort("10.0.0.1:4243"),          // same address, other port
	netip.MustParseAddrPort("[::ffff:10.0.0.1]:4242"), // 4-in-6 form of palette[0]: same wire address, different netip value
	netip.MustParseAddrPort("[fd00::1]:4242"),         // not reachable from a v4-bound socket
	netip.MustParseAddrPort("[fd00::2]:4242"),
}

func dstsText(d []netip.AddrPort) string {
	var p []string
	for _, a := range d {
		p = append(p, hlib.AddrPortHex(a))
	}
	return strings.Join(p, ";")
}

type pkt struct{ ln, d int }

func pktsText(ps []pkt) string {
	if len(ps) == 0 {
		return "-"
	}
	var p []string
	for _, x := range ps {
		p = append(p, fmt.Sprintf("%d@%d", x.ln, x.d))
	}
	return strings.Join(p, ",")
}

func scriptText(s []string) string {
	if len(s) == 0 {
		return "-"
	}
	return strings.Join(s, ",")
}

func genOutcome(r *hlib.Rand) string {
	switch r.Intn(16) {
	case 0, 1, 2:
		return "1000:ok" // everything offered
	case 3, 4:
		return fmt.Sprintf("%d:ok", r.Range(1, 3)) // short count
	case 5:
		return fmt.Sprintf("%d:ok", r.Range(1, 40))
	case 6, 7, 8:
		return "0:eio"
	case 9, 10:
		return "0:other"
	case 11:
		return "-1:other"
	case 12:
		return "-1:eio"
	case 13:
		return fmt.Sprintf("%d:%s", r.Range(1, 3), hlib.Pick(r, "eio", "other")) // short count with an errno
	case 14:
		if r.Chance(1, 3) {
			return hlib.Pick(r, "0:ok", "-1:ok") // no progress, no error
		}
		return "1:ok"
	}
	return "2:ok"
}

func genBatch(r *hlib.Rand, maxPk int, big bool) []pkt {
	var ps []pkt
	want := r.Intn(maxPk + 1)
	for len(ps) < want {
		d := r.Intn(len(palette))
		if r.Chance(1, 2) {
			d = r.Intn(2)
		}
		base := hlib.Pick(r, 1, 2, 7, 100, 1399, 1400, 1400, 1400, 1401)
		if big && r.Chance(1, 3) {
			base = hlib.Pick(r, 9000, 21666, 21667, 32500, 32501, 64999, 65000, 65001, 65535)
		}
		run := hlib.Pick(r, 1, 1, 2, 2, 3, 4, r.Range(1, 8))
		if r.Chance(1, 10) {
			run = r.Range(40, 70)
		}
		for j := 0; j < run && len(ps) < want; j++ {
			ln := base
			switch r.Intn(12) {
			case 0:
				ln = 0
			case 1:
				if base > 1 {
					ln = r.Range(1, base-1) // shorter: may close a run
				}
			case 2:
				ln = base + 1 // longer: breaks the run
			}
			dd := d
			if r.Chance(1, 12) {
				dd = r.Intn(len(palette)) // destination change inside a same-size stretch
			}
			ps = append(ps, pkt{ln, dd})
		}
	}
	return ps
}

func gen(r *hlib.Rand, n int, tier, profile string, emit func(string, ...any)) {
	dsts := dstsText(palette)
	// ---- exhaustive small scope: every batch over a small alphabet x every script over a small alphabet
	alpha := []pkt{{5, 0}, {3, 0}, {5, 1}, {0, 0}, {5, 4}}
	outs := []string{"1:ok", "2:ok", "0:eio", "0:other", "0:ok"}
	maxB, maxS := 3, 2
	cfgs := [][2]int{{2, 2}}
	if tier == "thorough" {
		maxB, maxS = 4, 3
		cfgs = [][2]int{{2, 2}, hlib.Pick(r, [2]int{128, 63}, [2]int{3, 3}, [2]int{3, 2}, [2]int{4, 127})}
	}
	var batches [][]pkt
	var rec func(cur []pkt)
	rec = func(cur []pkt) {
		batches = append(batches, append([]pkt{}, cur...))
		if len(cur) == maxB {
			return
		}
		for _, a := range alpha {
			rec(append(cur, a))
		}
	}
	rec(nil)
	var scripts [][]string
	var recS func(cur []string)
	recS = func(cur []string) {
		scripts = append(scripts, append([]string{}, cur...))
		if len(cur) == maxS {
			return
		}
		for _, o := range outs {
			recS(append(cur, o))
		}
	}
	recS(nil)
	for _, c := range cfgs {
		for _, b := range batches {
			for _, s := range scripts {
				emit("wb %d 1 1 %d %s %s %s", c[0], c[1], dsts, pktsText(b), scriptText(s))
			}
		}
	}
	// ---- the production sendFn (sendmmsg wrapper): source skeleton, and real syscalls against a bad descriptor /
	// through loopback (packet tags are one byte: at most 250 datagrams)
	emit("smsrc")
	gsoOK := udpGSOUsable()
	for i := 0; i < n/40+4; i++ {
		var lens []string
		base := hlib.Pick(r, 1, 5, 100, 1399, 1400)
		for j := r.Range(1, 24); j > 0; j-- {
			ln := base
			switch r.Intn(8) {
			case 0:
				ln = r.Range(1, base)
			case 1:
				ln = base + 1
			case 2:
				ln = 0
			}
			lens = append(lens, strconv.Itoa(ln))
		}
		mode := "loop"
		if r.Chance(1, 4) {
			mode = "badfd"
		}
		emit("sys %s %d %s %d %s", mode, hlib.Pick(r, 2, 4, 128, 128), hlib.B(gsoOK && !r.Chance(1, 4)), hlib.Pick(r, 2, 3, 63, 63), strings.Join(lens, ","))
	}
	// ---- sequences of batches on one writer: the GSO flag and the slots' control side persist
	for i := 0; i < n/8; i++ {
		scratch := hlib.Pick(r, 2, 3, 4, 8, 128)
		emit("reset %d %s 1 %d %s", scratch, hlib.B(!r.Chance(1, 6)), hlib.Pick(r, 2, 3, 63, 63), dsts)
		for j := r.Range(2, 4); j > 0; j-- {
			ps := genBatch(r, hlib.Pick(r, 4, 8, 12), r.Chance(1, 6))
			var script []string
			for q := hlib.Pick(r, 0, 1, 2, 3); q > 0; q-- {
				// plenty of EIO: the disable and what follows it are the point of these cases
				script = append(script, hlib.Pick(r, "0:eio", "0:eio", "1:ok", "1000:ok", "0:other", genOutcome(r)))
			}
			emit("send %s %s", pktsText(ps), scriptText(script))
		}
	}
	// ---- random
	for i := 0; i < n; i++ {
		scratch := hlib.Pick(r, 1, 2, 3, 4, 8, 16, 128, 128, 128, 128)
		maxSeg := hlib.Pick(r, 0, 1, 2, 2, 3, 4, 63, 63, 63, 127, -1)
		isV4 := !r.Chance(1, 5)
		gso := !r.Chance(1, 7)
		maxPk := hlib.Pick(r, 4, 8, 12, 24, 24, 140)
		if tier == "thorough" && r.Chance(1, 20) {
			maxPk = 300
		}
		ps := genBatch(r, maxPk, r.Chance(1, 4))
		var script []string
		for j := hlib.Pick(r, 0, 1, 2, 3, 5, 8, 12); j > 0; j-- {
			script = append(script, genOutcome(r))
		}
		op := "wb"
		if r.Chance(1, 3) {
			op = "wbq"
		}
		emit("%s %d %s %s %d %s %s %s", op, scratch, hlib.B(isV4), hlib.B(gso), maxSeg, dsts, pktsText(ps), scriptText(script))
	}
}

// ---------------------------------------------------------------------------------------------
// executor

func wireKey(a netip.AddrPort) string {
	b := a.Addr().As16()
	return string(b[:]) + ":" + strconv.Itoa(int(a.Port()))
}

func nameKey(name []byte) string {
	if len(name) < 2 {
		return "?"
	}
	fam := binary.NativeEndian.Uint16(name[0:2])
	switch {
	case fam == unix.AF_INET && len(name) == unix.SizeofSockaddrInet4:
		a := netip.AddrFrom4([4]byte(name[4:8]))
		return wireKey(netip.AddrPortFrom(a, binary.BigEndian.Uint16(name[2:4])))
	case fam == unix.AF_INET6 && len(name) == unix.SizeofSockaddrInet6:
		a := netip.AddrFrom16([16]byte(name[8:24]))
		return wireKey(netip.AddrPortFrom(a, binary.BigEndian.Uint16(name[2:4])))
	}
	return "?"
}

// sendmmsgShape renders the retry loop of batchWriter.sendmmsg from the repository source as a skeleton:
// the retry constant, the loop header, the syscall, every switch case with its statements, and the final return.
func sendmmsgShape() string {
	repo := os.Getenv("VERIF_REPO")
	if repo == "" {
		repo = "/repo"
	}
	fset := token.NewFileSet()
	f, err := parser.ParseFile(fset, filepath.Join(repo, "udp", "udp_linux_writebatch.go"), nil, 0)
	if err != nil {
		return "parse-error"
	}
	txt := func(n any) string {
		if n == nil {
			return ""
		}
		var b bytes.Buffer
		printer.Fprint(&b, fset, n)
		return strings.Join(strings.Fields(b.String()), " ")
	}
	for _, d := range f.Decls {
		fd, ok := d.(*ast.FuncDecl)
		if !ok || fd.Name.Name != "sendmmsg" || fd.Recv == nil {
			continue
		}
		var out []string
		for _, st := range fd.Body.List {
			switch x := st.(type) {
			case *ast.DeclStmt:
				out = append(out, txt(x))
			case *ast.ForStmt:
				var init, cond, post any
				if x.Init != nil {
					init = x.Init
				}
				if x.Cond != nil {
					cond = x.Cond
				}
				if x.Post != nil {
					post = x.Post
				}
				out = append(out, "for["+txt(init)+"]["+txt(cond)+"]["+txt(post)+"]")
				for _, b := range x.Body.List {
					switch y := b.(type) {
					case *ast.AssignStmt:
						call := ""
						if len(y.Rhs) == 1 {
							if c, ok := y.Rhs[0].(*ast.CallExpr); ok && len(c.Args) > 0 {
								call = txt(c.Fun) + "(" + txt(c.Args[0]) + ",…)"
							}
						}
						var lhs []string
						for _, l := range y.Lhs {
							lhs = append(lhs, txt(l))
						}
						out = append(out, strings.Join(lhs, ",")+"="+call)
					case *ast.SwitchStmt:
						out = append(out, "switch["+txt(y.Tag)+"]")
						for _, c := range y.Body.List {
							cc := c.(*ast.CaseClause)
							var conds, body []string
							for _, e := range cc.List {
								conds = append(conds, txt(e))
							}
							for _, bs := range cc.Body {
								body = append(body, txt(bs))
							}
							out = append(out, "case["+strings.Join(conds, ",")+"]{"+strings.Join(body, ";")+"}")
						}
					default:
						out = append(out, txt(b))
					}
				}
			default:
				out = append(out, txt(st))
			}
		}
		return strings.Join(out, "|")
	}
	return "sendmmsg-not-found"
}

// udpGSOUsable probes UDP_SEGMENT on a throw-away socket (as prepareGSO does).
func udpGSOUsable() bool {
	fd, err := unix.Socket(unix.AF_INET, unix.SOCK_DGRAM, unix.IPPROTO_UDP)
	if err != nil {
		return false
	}
	defer unix.Close(fd)
	return unix.SetsockoptInt(fd, unix.IPPROTO_UDP, unix.UDP_SEGMENT, 0) == nil
}

// sysBatch runs WriteBatch with the production sendmmsg: against an invalid descriptor (mode badfd) or through
// the loopback interface to a receiver socket whose queue is read back (mode loop).
func sysBatch(mode string, scratch int, gso bool, maxSeg int, lens []int, logger *slog.Logger) string {
	rfd, err := unix.Socket(unix.AF_INET, unix.SOCK_DGRAM, unix.IPPROTO_UDP)
	if err != nil {
		return "no-socket"
	}
	defer unix.Close(rfd)
	_ = unix.SetsockoptInt(rfd, unix.SOL_SOCKET, unix.SO_RCVBUF, 8<<20)
	if err := unix.Bind(rfd, &unix.SockaddrInet4{Addr: [4]byte{127, 0, 0, 1}}); err != nil {
		return "no-bind"
	}
	sa, _ := unix.Getsockname(rfd)
	dst := netip.AddrPortFrom(netip.AddrFrom4([4]byte{127, 0, 0, 1}), uint16(sa.(*unix.SockaddrInet4).Port))
	sfd := -1
	if mode == "loop" {
		sfd, err = unix.Socket(unix.AF_INET, unix.SOCK_DGRAM, unix.IPPROTO_UDP)
		if err != nil {
			return "no-socket"
		}
		defer unix.Close(sfd)
	}
	w := udp.VerifNewBatchWriter(scratch, true, gso, maxSeg, logger)
	w.UseKernel(sfd)
	bufs := make([][]byte, len(lens))
	addrs := make([]netip.AddrPort, len(lens))
	for i, ln := range lens {
		bufs[i] = make([]byte, ln)
		for j := range bufs[i] {
			bufs[i][j] = byte(i) // every byte names its datagram
		}
		addrs[i] = dst
	}
	written, werr := w.WriteBatch(bufs, addrs)
	var rx []string
	buf := make([]byte, 70000)
	for {
		n, _, err := unix.Recvfrom(rfd, buf, unix.MSG_DONTWAIT)
		if err != nil {
			break
		}
		tag := "z"
		if n > 0 {
			tag = strconv.Itoa(int(buf[0]))
			for _, c := range buf[:n] {
				if c != buf[0] {
					tag = "mixed"
				}
			}
		}
		rx = append(rx, tag+":"+strconv.Itoa(n))
	}
	r := "-"
	if len(rx) > 0 {
		r = strings.Join(rx, ",")
	}
	return fmt.Sprintf("w=%d e=%s g=%s rx=%s", written, hlib.B(werr != nil), hlib.B(w.GSOSupported()), r)
}

type writer struct {
	w       *udp.VerifBatchWriter
	scratch int
	dsts    []netip.AddrPort
	keyIdx  map[string]int
}

func newExec(t *testing.T) func([]string) string {
	logger := slog.New(slog.NewTextHandler(io.Discard, nil))
	var slab []byte
	var cur *writer // the writer shared by `send` ops since the last `reset`

	mk := func(a []string) *writer { // scratch isV4 gso maxSeg dsts
		wr := &writer{scratch: hlib.Atoi(a[0]), keyIdx: map[string]int{}}
		for _, s := range strings.Split(a[4], ";") {
			wr.dsts = append(wr.dsts, hlib.ParseAddrPortHex(s))
		}
		for i, d := range wr.dsts {
			if _, ok := wr.keyIdx[wireKey(d)]; !ok {
				wr.keyIdx[wireKey(d)] = i
			}
		}
		wr.w = udp.VerifNewBatchWriter(wr.scratch, a[1] == "1", a[2] == "1", hlib.Atoi(a[3]), logger)
		return wr
	}

	doBatch := func(wr *writer, pktsArg, scriptArg string, queue bool) string {
		w, dsts, keyIdx := wr.w, wr.dsts, wr.keyIdx
		var lens, dIdx []int
		total := 0
		if pktsArg != "-" {
			for _, s := range strings.Split(pktsArg, ",") {
				f := strings.Split(s, "@")
				lens = append(lens, hlib.Atoi(f[0]))
				dIdx = append(dIdx, hlib.Atoi(f[1]))
				total += hlib.Atoi(f[0])
			}
		}
		if total+1 > len(slab) {
			slab = make([]byte, total+1)
		}
		bufs := make([][]byte, len(lens))
		addrs := make([]netip.AddrPort, len(lens))
		ptrIdx := map[uintptr]int{} // address of the first byte of a (non-empty) packet -> its index
		off := 0
		for i, ln := range lens {
			bufs[i] = slab[off : off+ln : off+ln]
			if ln > 0 {
				ptrIdx[uintptr(unsafe.Pointer(&bufs[i][0]))] = i
			}
			off += ln
			addrs[i] = dsts[dIdx[i]]
		}
		type outcome struct {
			sent int
			err  string
		}
		var script []outcome
		if scriptArg != "-" {
			for _, s := range strings.Split(scriptArg, ",") {
				f := strings.Split(s, ":")
				script = append(script, outcome{hlib.Atoi(f[0]), f[1]})
			}
		}

		var calls []string
		k := 0
		w.SetSendFn(func(start, n int) (int, error) {
			if k > 2*len(bufs)+2 {
				// every call but one either advances or drops at least one entry, and the replay happens once
				panic("WriteBatch does not terminate: more sendFn calls than 2*len(bufs)+2")
			}
			var ents []string
			for e := start; e < start+n; e++ {
				bases, ilens, name, control := w.Entry(e)
				var idxs []string
				consecutive := true
				prev := -1
				for j, b := range bases {
					if b == nil {
						if ilens[j] != 0 {
							idxs = append(idxs, "?nil")
						} else {
							idxs = append(idxs, "z")
						}
						consecutive = false
						continue
					}
					ix, ok := ptrIdx[uintptr(unsafe.Pointer(b))]
					if !ok || ilens[j] != lens[ix] {
						idxs = append(idxs, "?")
						consecutive = false
						continue
					}
					if j > 0 && ix != prev+1 {
						consecutive = false
					}
					prev = ix
					idxs = append(idxs, strconv.Itoa(ix))
				}
				var s string
				switch {
				case len(idxs) == 1:
					s = idxs[0] + "+1"
				case consecutive && len(idxs) > 0:
					s = idxs[0] + "+" + strconv.Itoa(len(idxs))
				default:
					s = "[" + strings.Join(idxs, ";") + "]+" + strconv.Itoa(len(idxs))
				}
				// the control side exactly as the kernel would see it: Hdr.Control / Hdr.Controllen
				if len(control) == 0 {
					s += "p"
				} else {
					seg := "?"
					if len(control) == unix.CmsgSpace(2) {
						h := (*unix.Cmsghdr)(unsafe.Pointer(&control[0]))
						if h.Level == unix.SOL_UDP && h.Type == unix.UDP_SEGMENT && int(h.Len) == unix.CmsgLen(2) {
							seg = strconv.Itoa(int(binary.NativeEndian.Uint16(control[unix.CmsgLen(0):])))
						}
					}
					s += "x" + seg
				}
				d, ok := keyIdx[nameKey(name)]
				if !ok {
					d = 999999
				}
				ents = append(ents, s+"@"+strconv.Itoa(d))
			}
			// the scripted kernel: never reports more than it was offered; after the script everything is accepted
			o := outcome{n, "ok"}
			if k < len(script) {
				o = script[k]
				if o.sent > n {
					o.sent = n
				}
			}
			k++
			calls = append(calls, fmt.Sprintf("%d+%d:%s=>%d,%s", start, n, strings.Join(ents, "/"), o.sent, o.err))
			switch o.err {
			case "ok":
				return o.sent, nil
			case "eio":
				return o.sent, &net.OpError{Op: "sendmmsg", Err: unix.EIO}
			}
			return o.sent, &net.OpError{Op: "sendmmsg", Err: unix.ENOBUFS}
		})
		var written int
		var err error
		if queue {
			// the production path: packets are reserved from the SendBatch arena, committed, and flushed
			sb := batch.NewSendBatch(w, wr.scratch, 64)
			for i, ln := range lens {
				b := sb.Reserve(ln)
				if ln > 0 {
					ptrIdx[uintptr(unsafe.Pointer(&b[0]))] = i
				}
				sb.Commit(b, addrs[i])
			}
			if sb.Len() != len(lens) {
				return "sendbatch-len-mismatch"
			}
			written, err = sb.Flush()
			if sb.Len() != 0 {
				return "sendbatch-not-drained"
			}
		} else {
			written, err = w.WriteBatch(bufs, addrs)
		}
		out := fmt.Sprintf("w=%d e=%s g=%s", written, hlib.B(err != nil), hlib.B(w.GSOSupported()))
		for _, c := range calls {
			out += " | " + c
		}
		return out
	}

	return func(a []string) string {
		switch {
		case a[0] == "reset" && len(a) == 6:
			cur = mk(a[1:])
			return "ok"
		case a[0] == "send" && len(a) == 3:
			if cur == nil {
				return "bad-op"
			}
			return doBatch(cur, a[1], a[2], false)
		case a[0] == "smsrc":
			return sendmmsgShape()
		case a[0] == "sys" && len(a) == 6:
			var lens []int
			if a[5] != "-" {
				for _, x := range strings.Split(a[5], ",") {
					lens = append(lens, hlib.Atoi(x))
				}
			}
			return sysBatch(a[1], hlib.Atoi(a[2]), a[3] == "1", hlib.Atoi(a[4]), lens, logger)
		case (a[0] == "wb" || a[0] == "wbq") && len(a) == 8:
			return doBatch(mk(a[1:6]), a[6], a[7], a[0] == "wbq")
		}
		return "bad-op"
	}
}

func TestEngine(t *testing.T) {
	hlib.Run(t, hlib.Engine{Name: "writebatch", Gen: gen, NewExec: newExec})
}
