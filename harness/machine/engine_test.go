// Engine `machine` (C05, C06, C07): real handshake.Machine pairs over flynn/noise, driven by symbolic
// ops (packets live in executor-side registers), with the oracle answers of the noise library, of
// cert.Recombine, of the CA pool and of the clock observed on a replayed twin Machine and written
// onto the op line so that the Lean model runs on the same history.
//
// Determinism: identities and Noise ephemerals come from testing/cryptotest.SetGlobalRandom (Go 1.26),
// time from testing/synctest (virtual clock), so the generator (which runs the executor to observe the
// oracle values) and a later execution see identical bytes.
package machine

import (
	"bytes"
	"crypto/rand"
	"encoding/binary"
	"errors"
	"fmt"
	"io"
	"log/slog"
	"net/netip"
	"strings"
	"testing"
	"testing/cryptotest"
	"testing/synctest"
	"time"

	"github.com/flynn/noise"
	"github.com/slackhq/nebula"
	"github.com/slackhq/nebula/cert"
	ct "github.com/slackhq/nebula/cert_test"
	"github.com/slackhq/nebula/handshake"
	"github.com/slackhq/nebula/header"
	"github.com/slackhq/nebula/noiseutil"
	"verifharness/hlib"
)

// ---------------------------------------------------------------------------------------------
// identities

type ident struct {
	name  string
	certs map[cert.Version]cert.Certificate
	hs    map[cert.Version][]byte
	priv  []byte
	pub   []byte // the static public key that belongs to priv
}

type world struct {
	curve  cert.Curve
	ids    map[string]*ident
	pool   *cert.CAPool
	labels map[string]string // fingerprint -> identity label
}

// keySwap presents somebody else's certificate with our own public key (a "stolen" certificate: the
// Noise static key is ours, the certificate details and signature are the victim's).
type keySwap struct {
	cert.Certificate
	pub []byte
}

func (k keySwap) PublicKey() []byte { return k.pub }

var worlds = map[cert.Curve]*world{}

func getWorld(t *testing.T, curve cert.Curve) *world {
	if w, ok := worlds[curve]; ok {
		return w
	}
	cryptotest.SetGlobalRandom(t, 0xC0FFEE+uint64(curve))
	before := time.Date(1990, 1, 1, 0, 0, 0, 0, time.UTC)
	after := time.Date(2090, 1, 1, 0, 0, 0, 0, time.UTC)
	ca, _, caKey, _ := ct.NewTestCaCert(cert.Version2, curve, before, after, nil, nil, nil)
	ca2, _, ca2Key, _ := ct.NewTestCaCert(cert.Version2, curve, before, after, nil, nil, nil)
	w := &world{curve: curve, ids: map[string]*ident{}, pool: ct.NewTestCAPool(ca), labels: map[string]string{}}
	mk := func(name string, v cert.Version, signer cert.Certificate, key []byte, nb, na time.Time, net string, both bool) *ident {
		c, _, privPEM, _ := ct.NewTestCert(v, curve, signer, key, name, nb, na, []netip.Prefix{netip.MustParsePrefix(net)}, nil, nil)
		priv, _, _, err := cert.UnmarshalPrivateKeyFromPEM(privPEM)
		if err != nil {
			panic(err)
		}
		id := &ident{name: name, certs: map[cert.Version]cert.Certificate{v: c}, hs: map[cert.Version][]byte{}, priv: priv,
			pub: c.PublicKey()}
		if both {
			ov := cert.Version1
			if v == cert.Version1 {
				ov = cert.Version2
			}
			oc, _ := ct.NewTestCertDifferentVersion(c, ov, signer, key)
			id.certs[ov] = oc
		}
		for ver, c := range id.certs {
			b, err := c.MarshalForHandshakes()
			if err != nil {
				panic(err)
			}
			id.hs[ver] = b
			fp, _ := c.Fingerprint()
			w.labels[fp] = fmt.Sprintf("%s.v%d", name, ver)
		}
		w.ids[name] = id
		return id
	}
	mk("A", cert.Version2, ca, caKey, before, after, "10.0.0.1/24", true) // dual version
	mk("B", cert.Version2, ca, caKey, before, after, "10.0.0.2/24", false)
	mk("V1", cert.Version1, ca, caKey, before, after, "10.0.0.3/24", false)
	mk("EXP", cert.Version2, ca, caKey, before, time.Date(1999, 1, 1, 0, 0, 0, 0, time.UTC), "10.0.0.4/24", false)
	mk("UNT", cert.Version2, ca2, ca2Key, before, after, "10.0.0.5/24", false)
	blk := mk("BLK", cert.Version2, ca, caKey, before, after, "10.0.0.6/24", false)
	fp, _ := blk.certs[cert.Version2].Fingerprint()
	w.pool.BlocklistFingerprint(fp)
	// STOLEN: B's certificate (details + signature) presented with a fresh key pair of our own
	own := mk("OWN", cert.Version2, ca, caKey, before, after, "10.0.0.7/24", false)
	b := w.ids["B"]
	w.ids["STOLEN"] = &ident{name: "STOLEN",
		certs: map[cert.Version]cert.Certificate{cert.Version2: keySwap{b.certs[cert.Version2], own.certs[cert.Version2].PublicKey()}},
		hs:    map[cert.Version][]byte{cert.Version2: b.hs[cert.Version2]}, priv: own.priv, pub: own.pub}
	worlds[curve] = w
	return w
}

var identNames = []string{"A", "B", "V1", "EXP", "UNT", "BLK", "STOLEN"}

// ---------------------------------------------------------------------------------------------
// executor

type hist struct {
	kind string // "init" | "pp"
	pkt  []byte
}

type mach struct {
	m      *handshake.Machine
	args   []string // the `new` op
	hist   []hist
	result *handshake.Result
	cs1    [32]byte // key of cs1 observed on the twin at completion
	haveK  bool
	hook   *hookReader
}

type exec struct {
	creds    map[string]handshake.GetCredentialFunc
	lastHook *hookReader
	t      *testing.T
	w      *world
	cipher noise.CipherFunc
	ms     map[string]*mach
	regs   map[string][]byte
}

func (e *exec) suite() noise.CipherSuite {
	dh := noise.DH25519
	if e.w.curve == cert.Curve_P256 {
		dh = noiseutil.DHP256
	}
	return noise.NewCipherSuite(dh, e.cipher, noise.HashSHA256)
}

func (e *exec) verifier() handshake.CertVerifier {
	return func(c cert.Certificate) (*cert.CachedCertificate, error) {
		return e.w.pool.VerifyCertificate(time.Now(), c)
	}
}

// credFunc: one Credential object per (identity, version) for the whole case — every Machine of a node shares
// it, as the Machines of a running nebula node share the Credentials of its CertState.
func (e *exec) credFunc(id *ident) handshake.GetCredentialFunc {
	if f, ok := e.creds[id.name]; ok {
		return f
	}
	creds := map[cert.Version]*handshake.Credential{}
	for v, c := range id.certs {
		creds[v] = handshake.NewCredential(c, id.hs[v], id.priv, e.suite())
	}
	f := func(v cert.Version) *handshake.Credential { return creds[v] }
	e.creds[id.name] = f
	return f
}

// hookReader is the randomness source a Machine's noise state captures. The first Read after `fn` is armed
// runs `fn` first: this is how a second Machine's call is interleaved *inside* the first one's (between its
// marshalOutgoing and the end of its noise WriteMessage, which draws the ephemeral key) on one goroutine.
type hookReader struct {
	real io.Reader
	fn   func()
}

func (h *hookReader) Read(p []byte) (int, error) {
	if f := h.fn; f != nil {
		h.fn = nil
		f()
	}
	return h.real.Read(p)
}

func seedOf(a []string) uint64 { return hlib.Atou(a[6]) }

// construct a Machine from a `new` op
func (e *exec) construct(a []string) (*handshake.Machine, error) {
	id := e.w.ids[a[2]]
	if id == nil {
		panic("harness: unknown identity " + a[2])
	}
	alloc := func() (uint32, error) {
		if a[5] == "err" {
			return 0, errors.New("no index")
		}
		return uint32(hlib.Atou(a[5])), nil
	}
	cryptotest.SetGlobalRandom(e.t, seedOf(a))
	hk := &hookReader{real: rand.Reader}
	rand.Reader = hk // what buildHandshakeState hands to noise
	e.lastHook = hk
	return handshake.NewMachine(cert.Version(hlib.Atoi(a[3])), e.credFunc(id), e.verifier(), alloc, a[4] == "1",
		header.MessageSubType(hlib.Atoi(a[7])))
}

func (e *exec) apply(mm *mach, m *handshake.Machine, h hist) ([]byte, *handshake.Result, error) {
	// every op that may generate an ephemeral restarts the machine's random stream (see file comment)
	cryptotest.SetGlobalRandom(e.t, seedOf(mm.args)+1)
	if h.kind == "init" {
		out, err := m.Initiate(nil)
		return out, nil, err
	}
	return m.ProcessPacket(nil, h.pkt)
}

// twin replays the history of a machine on a fresh Machine
func (e *exec) twin(mm *mach) *handshake.Machine {
	m, err := e.construct(mm.args)
	if err != nil {
		panic("harness: twin construction failed: " + err.Error())
	}
	for _, h := range mm.hist {
		e.apply(mm, m, h)
	}
	return m
}

func errKind(err error) string {
	for _, k := range []struct {
		e error
		s string
	}{
		{handshake.ErrMachineFailed, "failed"}, {handshake.ErrPacketTooShort, "short"}, {handshake.ErrSubtypeMismatch, "subtype"},
		{handshake.ErrInitiateNotCalled, "initiate-not-called"}, {handshake.ErrMissingContent, "missing-content"},
		{handshake.ErrUnexpectedContent, "unexpected-content"}, {handshake.ErrInvalidRemoteIndex, "invalid-remote-index"},
		{handshake.ErrNoCredential, "nocred"}, {handshake.ErrPublicKeyMismatch, "pubkey-mismatch"},
		{handshake.ErrAsymmetricCipherKeys, "asymmetric-keys"}, {handshake.ErrIncompleteHandshake, "incomplete"},
		{handshake.ErrIndexAllocation, "index-allocation"}, {handshake.ErrInitiateOnResponder, "initiate-on-responder"},
		{handshake.ErrInitiateAlreadyCalled, "initiate-already-called"}, {handshake.ErrUnknownSubtype, "subtype"},
	} {
		if errors.Is(err, k.e) {
			return k.s
		}
	}
	s := err.Error()
	for _, p := range []struct{ pre, s string }{
		{"noise ReadMessage", "noise-read"}, {"noise WriteMessage", "noise-write"}, {"unmarshal handshake", "unmarshal"},
		{"recombine cert", "recombine"}, {"verify cert", "verify"}, {"build noise state", "noise-state"},
	} {
		if strings.HasPrefix(s, p.pre) {
			return p.s
		}
	}
	return "other:" + strings.ReplaceAll(s, " ", "_")
}

func hdrStr(b []byte) string {
	if len(b) < header.Len {
		return "-"
	}
	var h header.H
	h.Parse(b)
	return fmt.Sprintf("%d,%d,%d,%d,%d", h.Version, h.Type, h.Subtype, h.RemoteIndex, h.MessageCounter)
}

func (e *exec) label(c *cert.CachedCertificate) string {
	if c == nil {
		return "nil"
	}
	if l, ok := e.w.labels[c.Fingerprint]; ok {
		return l
	}
	return "unknown"
}

// observe returns the oracle annotation for an op (before it is executed)
func (e *exec) observe(a []string) string {
	switch a[0] {
	case "new":
		id := e.w.ids[a[2]]
		hv := 0
		for v := range id.certs {
			hv |= 1 << (uint(v) - 1)
		}
		return fmt.Sprintf("hv=%d", hv)
	case "init":
		mm := e.ms[a[1]]
		tw := e.twin(mm)
		hs := handshake.VerifHandshakeState(tw)
		wr := "err"
		cryptotest.SetGlobalRandom(e.t, seedOf(mm.args)+1)
		if _, _, _, err := hs.WriteMessage(nil, []byte("x")); err == nil {
			wr = "ok"
		}
		return fmt.Sprintf("wr=%s now=%d", wr, time.Now().UnixNano())
	case "pp":
		mm := e.ms[a[1]]
		pkt := e.regs[a[2]]
		st := 256
		if len(pkt) > 1 {
			st = int(pkt[1])
		}
		tw := e.twin(mm)
		hs := handshake.VerifHandshakeState(tw)
		rd, msgHex, k1, k2, ps, rc, vf, wr := "err0", "-", 0, 0, "-", "err", "-", "na"
		if len(pkt) >= header.Len {
			before := append([]byte(nil), hs.ChannelBinding()...)
			msg, cs1, cs2, err := hs.ReadMessage(nil, pkt[header.Len:])
			if err != nil {
				if !bytes.Equal(before, hs.ChannelBinding()) {
					why := "other"
					if errors.Is(err, noise.ErrShortMessage) {
						why = "short-after-ephemeral"
					} else if !strings.Contains(err.Error(), "unexpected call") && !strings.Contains(err.Error(), "no handshake messages") {
						why = "bad-ephemeral-dh"
					}
					rd = "err1:" + why
				}
			} else {
				rd = "ok"
				msgHex = hlib.Hex(msg)
				if cs1 != nil {
					k1 = 1
					mm.cs1 = cs1.UnsafeKey()
					mm.haveK = true
				}
				if cs2 != nil {
					k2 = 1
				}
				ps = hlib.Hex(hs.PeerStatic())
				if p, perr := handshake.UnmarshalPayload(msg); perr == nil {
					id := e.w.ids[mm.args[2]]
					// the curve the Machine passes is that of its own credential
					var curve cert.Curve
					for _, c := range id.certs {
						curve = c.Curve()
					}
					if c, rerr := cert.Recombine(cert.Version(p.CertVersion), p.Cert, hs.PeerStatic(), curve); rerr == nil {
						rc = fmt.Sprintf("%s:%d", hlib.Hex(c.PublicKey()), c.Version())
						if v, verr := e.w.pool.VerifyCertificate(time.Now(), c); verr == nil {
							vf = e.label(v)
						}
					}
				}
				if cs1 == nil && cs2 == nil {
					cryptotest.SetGlobalRandom(e.t, seedOf(mm.args)+1)
					_, w1, w2, werr := hs.WriteMessage(nil, []byte("x"))
					if werr != nil {
						wr = "err"
					} else {
						wr = fmt.Sprintf("ok%s%s", hlib.B(w1 != nil), hlib.B(w2 != nil))
						if w1 != nil {
							mm.cs1 = w1.UnsafeKey()
							mm.haveK = true
						}
					}
				}
			}
		}
		return fmt.Sprintf("len=%d st=%d rd=%s msg=%s k1=%d k2=%d ps=%s rc=%s vf=%s wr=%s now=%d",
			len(pkt), st, rd, msgHex, k1, k2, ps, rc, vf, wr, time.Now().UnixNano())
	case "ilv":
		sa, sb := splitIlv(a)
		return e.observe(sa) + " // " + e.observe(sb)
	case "mut":
		return fmt.Sprintf("len=%d", len(e.mutate(a)))
	case "forge":
		return fmt.Sprintf("len=%d", len(e.forge(a)))
	case "pair":
		a1, a2 := e.ms[a[1]], e.ms[a[2]]
		same := 0
		if a1 != nil && a2 != nil && a1.m != nil && a2.m != nil &&
			bytes.Equal(handshake.VerifHandshakeState(a1.m).ChannelBinding(), handshake.VerifHandshakeState(a2.m).ChannelBinding()) {
			same = 1
		}
		return fmt.Sprintf("same=%d", same)
	}
	return ""
}

// low-order / invalid ephemeral public keys
func badEphemeral(curve cert.Curve, kind string, n int) []byte {
	if curve == cert.Curve_P256 {
		b := make([]byte, n)
		switch kind {
		case "zero":
		case "one":
			b[0] = 4 // uncompressed point marker, coordinates 0,0: not on the curve
		default:
			b[0] = 4
			for i := 1; i < n; i++ {
				b[i] = 0xff
			}
		}
		return b
	}
	b := make([]byte, n)
	switch kind {
	case "zero":
	case "one":
		b[0] = 1
	default: // p-1: order 2
		for i := range b {
			b[i] = 0xff
		}
		b[0] = 0xec
		b[n-1] = 0x7f
	}
	return b
}

func (e *exec) dhLen() int {
	if e.w.curve == cert.Curve_P256 {
		return 65
	}
	return 32
}

func (e *exec) mutate(a []string) []byte {
	src := append([]byte(nil), e.regs[a[2]]...)
	switch a[3] {
	case "dup":
	case "trunc":
		n := hlib.Atoi(a[4])
		if n < len(src) {
			src = src[:n]
		}
	case "flip":
		i := hlib.Atoi(a[4])
		if len(src) > 0 {
			src[(i/8)%len(src)] ^= 1 << uint(i%8)
		}
	case "sete":
		if len(src) >= header.Len+e.dhLen() {
			copy(src[header.Len:], badEphemeral(e.w.curve, a[4], e.dhLen()))
		}
	case "setsub":
		if len(src) > 1 {
			src[1] = byte(hlib.Atoi(a[4]))
		}
	case "splice": // head of src up to off, tail of another register from off
		other := e.regs[a[4]]
		off := hlib.Atoi(a[5])
		if off <= len(src) && off <= len(other) {
			src = append(src[:off:off], other[off:]...)
		}
	case "hdr": // rewrite a field of the 16-byte nebula header, which Noise does not authenticate
		if len(src) >= header.Len {
			v := hlib.Atou(a[5])
			switch a[4] {
			case "ctr":
				binary.BigEndian.PutUint64(src[8:16], v)
			case "ri":
				binary.BigEndian.PutUint32(src[4:8], uint32(v))
			case "rsv":
				binary.BigEndian.PutUint16(src[2:4], uint16(v))
			case "vt":
				src[0] = byte(v)
			}
		}
	case "garbage":
		r := hlib.NewRand(hlib.Atou(a[4]))
		src = append(src[:min(len(src), header.Len)], r.Bytes(hlib.Atoi(a[5]))...)
	}
	return src
}

// forge: a peer that is NOT a handshake.Machine — a hand-driven noise.HandshakeState whose static key pair is
// that of identity a[3] — sends an IX message whose payload carries the certificate of identity a[4] (version
// a[5]) in the encoding a[6] (`hs` = MarshalForHandshakes, no public key; `full` = Marshal, public key
// included), labelled with CertVersion a[7], indexes a[8]/a[9]. Role `init`: message 1 for an honest
// responder. Role `resp`: reads the honest initiator's message 1 from register a[11] and answers message 2.
//
//	forge <dst> <init|resp> <static-ident> <cert-ident> <cert-ver> <hs|full> <CertVersion> <ii> <ri> <seed> <m1reg|->
func (e *exec) forge(a []string) []byte {
	sk, cid := e.w.ids[a[3]], e.w.ids[a[4]]
	if sk == nil || cid == nil {
		return nil
	}
	c := cid.certs[cert.Version(hlib.Atoi(a[5]))]
	if c == nil {
		return nil
	}
	var cb []byte
	var err error
	if a[6] == "full" {
		if ks, ok := c.(keySwap); ok {
			c = ks.Certificate
		}
		cb, err = c.Marshal()
	} else {
		cb, err = c.MarshalForHandshakes()
	}
	if err != nil {
		return nil
	}
	payload := handshake.MarshalPayload(nil, handshake.Payload{Cert: cb, CertVersion: uint32(hlib.Atou(a[7])),
		InitiatorIndex: uint32(hlib.Atou(a[8])), ResponderIndex: uint32(hlib.Atou(a[9])), Time: uint64(time.Now().UnixNano())})
	seed := hlib.Atou(a[10])
	cryptotest.SetGlobalRandom(e.t, seed)
	hs, err := noise.NewHandshakeState(noise.Config{CipherSuite: e.suite(), Random: rand.Reader, Pattern: noise.HandshakeIX,
		Initiator: a[2] == "init", StaticKeypair: noise.DHKey{Private: sk.priv, Public: sk.pub},
		PresharedKey: []byte{}, PresharedKeyPlacement: 0})
	if err != nil {
		return nil
	}
	out := make([]byte, header.Len, 1024)
	counter, remote := uint64(1), uint32(0)
	if a[2] == "resp" {
		m1 := e.regs[a[11]]
		if len(m1) < header.Len {
			return nil
		}
		if _, _, _, err := hs.ReadMessage(nil, m1[header.Len:]); err != nil {
			return nil
		}
		counter, remote = 2, uint32(hlib.Atou(a[8]))
	}
	header.Encode(out, header.Version, header.Handshake, header.HandshakeIXPSK0, remote, counter)
	cryptotest.SetGlobalRandom(e.t, seed+1)
	out, _, _, err = hs.WriteMessage(out, payload)
	if err != nil {
		return nil
	}
	return out
}

func (e *exec) run(a []string) string {
	switch a[0] {
	case "reset":
		curve := cert.Curve_CURVE25519
		if a[1] == "p" {
			curve = cert.Curve_P256
		}
		e.w = getWorld(e.t, curve)
		e.cipher = noise.CipherChaChaPoly
		if a[2] == "aes" {
			e.cipher = noiseutil.CipherAESGCM
		}
		e.ms = map[string]*mach{}
		e.regs = map[string][]byte{}
		e.creds = map[string]handshake.GetCredentialFunc{}
		return "ok"
	case "new":
		m, err := e.construct(a)
		if err != nil {
			delete(e.ms, a[1])
			return "err:" + errKind(err)
		}
		e.ms[a[1]] = &mach{m: m, args: append([]string(nil), a...), hook: e.lastHook}
		return "ok"
	case "init":
		mm := e.ms[a[1]]
		h := hist{kind: "init"}
		out, _, err := e.apply(mm, mm.m, h)
		mm.hist = append(mm.hist, h)
		e.regs[a[2]] = out
		tail := fmt.Sprintf("f=%s mi=%d", hlib.B(mm.m.Failed()), mm.m.MessageIndex())
		if err != nil {
			return "err:" + errKind(err) + " " + tail
		}
		return "ok hdr=" + hdrStr(out) + " " + tail
	case "pp":
		mm := e.ms[a[1]]
		h := hist{kind: "pp", pkt: append([]byte(nil), e.regs[a[2]]...)}
		out, res, err := e.apply(mm, mm.m, h)
		mm.hist = append(mm.hist, h)
		e.regs[a[3]] = out
		tail := fmt.Sprintf("f=%s mi=%d", hlib.B(mm.m.Failed()), mm.m.MessageIndex())
		if err != nil {
			return "err:" + errKind(err) + " " + tail
		}
		rs := "-"
		if res != nil {
			mm.result = res
			ek, dk := "cs2", "cs1"
			if mm.haveK && res.EKey.UnsafeKey() == mm.cs1 {
				ek = "cs1"
			}
			if mm.haveK && res.DKey.UnsafeKey() != mm.cs1 {
				dk = "cs2"
			}
			pk := "-"
			if res.RemoteCert != nil && res.RemoteCert.Certificate != nil {
				pk = hlib.Hex(res.RemoteCert.Certificate.PublicKey())
			}
			rs = fmt.Sprintf("%s,%s,%s,%d,%d,%d,%d,%s,%s", ek, dk, e.label(res.RemoteCert), res.RemoteIndex, res.LocalIndex,
				res.HandshakeTime, res.MessageIndex, hlib.B(res.Initiator), pk)
		}
		return "ok resp=" + hdrStr(out) + " res=" + rs + " " + tail
	case "ilv":
		// the second call runs while noise draws the first call's ephemeral key (if it draws one)
		sa, sb := splitIlv(a)
		ansB, fired := "", false
		hk := e.ms[sa[1]].hook
		hk.fn = func() { fired = true; ansB = e.run(sb) }
		ansA := e.run(sa)
		hk.fn = nil
		if !fired {
			ansB = e.run(sb)
		}
		return ansA + " ;; " + ansB + " ;; nested=" + hlib.B(fired)
	case "mut":
		out := e.mutate(a)
		e.regs[a[1]] = out
		return fmt.Sprintf("ok len=%d", len(out))
	case "forge":
		out := e.forge(a)
		e.regs[a[1]] = out
		return fmt.Sprintf("ok len=%d", len(out))
	case "seed":
		mm := e.ms[a[1]]
		if mm == nil {
			return "bad-op"
		}
		if mm.result == nil {
			return "none"
		}
		r := *mm.result // newConnectionStateFromResult only reads the Result
		if a[2] != "-" {
			r.MessageIndex = hlib.Atou(a[2])
		}
		cs, err := nebula.VerifNewConnectionStateFromResult(&r)
		if err != nil {
			return "err"
		}
		w := nebula.VerifDecryptWindow(cs)
		l := slog.New(slog.DiscardHandler)
		mi := r.MessageIndex
		probes := []uint64{0, 1, 2}
		if mi >= 1 {
			probes = append(probes, mi-1)
		}
		probes = append(probes, mi, mi+1, mi+2, mi+8191, mi+8192, mi+8193)
		var sb strings.Builder
		for _, p := range probes {
			sb.WriteString(hlib.B(w.Check(l, p)))
		}
		return fmt.Sprintf("ok mc=%d chk=%s", nebula.VerifCounterLoad(cs), sb.String())
	case "pair":
		i, r := e.ms[a[1]], e.ms[a[2]]
		if i == nil || r == nil || i.result == nil || r.result == nil {
			return "none"
		}
		// data-plane cipher states exactly as connection_state.go wraps them
		opens := func(enc, dec *noise.CipherState, c noise.CipherFunc) bool {
			ec := noiseutil.NewCipherState(enc, c)
			dc := noiseutil.NewCipherState(dec, c)
			ad := []byte("hdr")
			ctext, err := ec.EncryptDanger(nil, ad, []byte("ping"), 7, make([]byte, 12))
			if err != nil {
				return false
			}
			pt, err := dc.DecryptDanger(nil, ad, ctext, 7, make([]byte, 12))
			return err == nil && string(pt) == "ping"
		}
		ir, rr := i.result, r.result
		return fmt.Sprintf("ek=%s ke=%s xx=%s ri=%s li=%s mi=%s nz=%s",
			hlib.B(opens(ir.EKey, rr.DKey, ir.Cipher)), hlib.B(opens(rr.EKey, ir.DKey, rr.Cipher)),
			hlib.B(opens(ir.EKey, ir.DKey, ir.Cipher)),
			hlib.B(ir.RemoteIndex == rr.LocalIndex), hlib.B(rr.RemoteIndex == ir.LocalIndex),
			hlib.B(ir.MessageIndex == rr.MessageIndex), hlib.B(ir.LocalIndex != 0 && rr.LocalIndex != 0))
	}
	return "bad-op"
}

// `ilv <mA> <init|pp> <args…> // <mB> <init|pp> <args…>` -> the two plain ops
func splitIlv(a []string) ([]string, []string) {
	for i, x := range a {
		if x == "//" {
			mk := func(t []string) []string { return append([]string{t[1], t[0]}, t[2:]...) }
			return mk(a[1:i]), mk(a[i+1:])
		}
	}
	panic("harness: malformed ilv op")
}

func splitAnn(a []string) ([]string, string) {
	for i, x := range a {
		if x == "|" {
			return a[:i], strings.Join(a[i+1:], " ")
		}
	}
	return a, ""
}

func newExec(t *testing.T) func([]string) string {
	e := &exec{t: t}
	return func(a []string) string {
		op, ann := splitAnn(a)
		if op[0] != "reset" && e.w == nil {
			return "bad-op"
		}
		if op[0] != "reset" {
			if (op[0] == "init" || op[0] == "pp") && e.ms[op[1]] == nil {
				return "bad-op"
			}
			if op[0] == "ilv" {
				sa, sb := splitIlv(op)
				if e.ms[sa[1]] == nil || e.ms[sb[1]] == nil || sa[1] == sb[1] {
					return "bad-op"
				}
			}
			if got := e.observe(op); got != ann {
				return "ORACLE-DRIFT got=" + strings.ReplaceAll(got, " ", ",")
			}
		}
		return e.run(op)
	}
}

// ---------------------------------------------------------------------------------------------
// generator

var theT *testing.T

func gen(r *hlib.Rand, n int, tier, profile string, emit func(string, ...any)) {
	// hlib.NewRand(seed) places consecutive seeds one step apart on the same splitmix64 walk; jump away
	r = hlib.NewRand(r.U64())
	synctest.Test(theT, func(t *testing.T) {
		e := &exec{t: t}
		do := func(format string, a ...any) string {
			op := strings.Fields(fmt.Sprintf(format, a...))
			line := strings.Join(op, " ")
			if op[0] != "reset" {
				line += " | " + e.observe(op)
			}
			emit("%s", line)
			return e.run(op)
		}
		forgeIdx := r.Intn(len(forgeCerts) * 32)
		for i := 0; i < n; i++ {
			if i%8 == 5 {
				genOverlapCase(r, do)
				continue
			}
			if i%3 == 1 {
				// certificates in every encoding the decoder can be fed, from a peer that is not a Machine:
				// the whole cross product is walked, starting at a seed-dependent position
				genForgeCase(r, e, do, forgeIdx)
				forgeIdx++
				continue
			}
			genCase(r, e, do, tier, profile)
		}
	})
}

// genOverlapCase: one node (identity A, ONE shared Credential) runs two handshakes at once; the second Machine's
// call executes inside the first one's, at the point where noise draws the ephemeral key. Each packet must still
// carry its own Machine's indexes (oracle: index placement at the receiver, and `pair`). X25519 only: that is
// where noise reads the captured reader (Go's P-256 key generation ignores a caller-supplied reader).
func genOverlapCase(r *hlib.Rand, do func(string, ...any) string) {
	do("reset x %s", hlib.Pick(r, "aes", "chacha"))
	// indexes whose varint encodings have equal length, and a few that do not
	idx := func() int {
		if r.Chance(1, 5) {
			return 1 + r.Intn(1<<30)
		}
		return 1<<28 + r.Intn(1<<29)
	}
	node := hlib.Pick(r, "A", "B")
	peer := "B"
	if node == "B" {
		peer = "A"
	}
	i1, i2, p1, p2 := idx(), idx(), idx(), idx()
	if r.Bool() {
		// two outbound handshakes of the node overlap
		if do("new I1 %s 2 1 %d %d 0", node, i1, r.Intn(1<<30)) != "ok" || do("new I2 %s 2 1 %d %d 0", node, i2, r.Intn(1<<30)) != "ok" {
			return
		}
		do("new R1 %s 2 0 %d %d 0", peer, p1, r.Intn(1<<30))
		do("new R2 %s 2 0 %d %d 0", peer, p2, r.Intn(1<<30))
		do("ilv I1 init m1a // I2 init m1b")
		do("pp R1 m1a m2a")
		do("pp R2 m1b m2b")
		do("pp I1 m2a x1")
		do("pp I2 m2b x2")
		do("pair I1 R1")
		do("pair I2 R2")
		return
	}
	// the node answers an inbound handshake while it starts an outbound one (and the other way round)
	if do("new P %s 2 1 %d %d 0", peer, p1, r.Intn(1<<30)) != "ok" || do("new R %s 2 0 %d %d 0", node, i1, r.Intn(1<<30)) != "ok" ||
		do("new I2 %s 2 1 %d %d 0", node, i2, r.Intn(1<<30)) != "ok" {
		return
	}
	do("new R2 %s 2 0 %d %d 0", peer, p2, r.Intn(1<<30))
	do("init P m1")
	if r.Bool() {
		do("ilv R pp m1 m2 // I2 init n1")
	} else {
		do("ilv I2 init n1 // R pp m1 m2")
	}
	do("pp P m2 x1")
	do("pp R2 n1 n2")
	do("pp I2 n2 x2")
	do("pair P R")
	do("pair I2 R2")
}

var forgeCerts = []struct {
	id  string
	ver int
}{{"A", 1}, {"A", 2}, {"B", 2}, {"V1", 1}}

// genForgeCase: role x certificate (identity, real version) x encoding (handshake form without key / full form
// with key) x CertVersion label (0, 1, 2, 3 — equal to or different from the real version) x Noise static key
// (the certificate's own key / somebody else's).
func genForgeCase(r *hlib.Rand, e *exec, do func(string, ...any) string, k int) {
	role := []string{"init", "resp"}[k%2]
	form := []string{"hs", "full"}[(k/2)%2]
	cv := (k / 4) % 4
	sameKey := (k/16)%2 == 0
	c := forgeCerts[(k/32)%len(forgeCerts)]
	sk := c.id
	if !sameKey {
		for {
			sk = hlib.Pick(r, "OWN", "OWN", "B", "A", "UNT", "V1")
			if sk != c.id {
				break
			}
		}
	}
	do("reset %s %s", hlib.Pick(r, "x", "x", "p"), hlib.Pick(r, "aes", "chacha"))
	honest := hlib.Pick(r, "A", "B", "V1")
	hv := 2
	if honest == "V1" || (honest == "A" && r.Bool()) {
		hv = 1
	}
	li := 1 + r.Intn(1<<30)
	ai := 1 + r.Intn(1<<30)
	if role == "init" {
		if do("new R %s %d 0 %d %d 0", honest, hv, li, r.Intn(1<<30)) != "ok" {
			return
		}
		do("forge f1 init %s %s %d %s %d %d 0 %d -", sk, c.id, c.ver, form, cv, ai, r.Intn(1<<30))
		do("pp R f1 m2")
		if r.Chance(1, 4) {
			do("pp R f1 m2b")
		}
		return
	}
	if do("new I %s %d 1 %d %d 0", honest, hv, li, r.Intn(1<<30)) != "ok" {
		return
	}
	if !strings.HasPrefix(do("init I m1"), "ok") {
		return
	}
	do("forge f2 resp %s %s %d %s %d %d %d %d m1", sk, c.id, c.ver, form, cv, li, ai, r.Intn(1<<30))
	do("pp I f2 x1")
	if r.Chance(1, 4) {
		do("pp I f2 x2")
	}
}

func genCase(r *hlib.Rand, e *exec, do func(string, ...any) string, tier, profile string) {
	curve := hlib.Pick(r, "x", "x", "p")
	cipher := hlib.Pick(r, "aes", "chacha")
	do("reset %s %s", curve, cipher)
	idI := hlib.Pick(r, "A", "A", "B", "V1", "A", "B", hlib.Pick(r, identNames...))
	idR := hlib.Pick(r, "B", "A", "V1", "A", "B", hlib.Pick(r, identNames...))
	ver := func(id string) int {
		switch id {
		case "V1":
			return 1
		case "A":
			return hlib.Pick(r, 1, 2, 2)
		}
		if r.Chance(1, 30) {
			return 1 // no such credential
		}
		return 2
	}
	idx := func() string {
		switch r.Intn(12) {
		case 0:
			return "err"
		case 1:
			return "0" // an allocator that breaks its contract
		case 2:
			return "4294967295"
		}
		return fmt.Sprint(1 + r.Intn(1<<30))
	}
	sub := 0
	if r.Chance(1, 40) {
		sub = 1
	}
	if do("new I %s %d 1 %s %d %d", idI, ver(idI), idx(), r.Intn(1<<30), sub) != "ok" {
		return
	}
	if do("new R %s %d 0 %s %d %d", idR, ver(idR), idx(), r.Intn(1<<30), 0) != "ok" {
		return
	}
	// misuse of the API before anything else
	switch r.Intn(20) {
	case 0:
		do("init R x0")
	case 1:
		do("mut g I0 garbage %d 200", r.Intn(1000))
		do("pp I g x1")
	}
	if !strings.HasPrefix(do("init I m1"), "ok") {
		do("init I m1b")
		return
	}
	if r.Chance(1, 25) {
		do("init I m1b") // second Initiate
	}
	// adversary on message 1 (cleartext payload: anything goes) before the genuine one
	dh := e.dhLen()
	attack := func(m, src, tag string, stage int) {
		full := len(e.regs[src])
		for k := r.Intn(3); k > 0; k-- {
			switch r.Intn(9) {
			case 0:
				// every interesting prefix length: header, inside / at the end of e, inside s, inside the payload
				cut := hlib.Pick(r, 0, 1, 15, 16, 17, 16+dh-1, 16+dh, 16+dh+1, 16+dh+8, 16+2*dh-1, 16+2*dh, 16+2*dh+15,
					16+2*dh+16, 16+2*dh+17, 16+2*dh+31, 16+2*dh+32, full-17, full-16, full-1, r.Intn(full+1))
				if cut < 0 {
					cut = 0
				}
				do("mut a%s %s trunc %d", tag, src, cut)
			case 1:
				do("mut a%s %s flip %d", tag, src, r.Intn(full*8))
			case 2:
				do("mut a%s %s flip %d", tag, src, (16+r.Intn(2*dh))*8+r.Intn(8)) // inside e / s
			case 3:
				do("mut a%s %s sete %s", tag, src, hlib.Pick(r, "zero", "one", "order2"))
			case 4:
				do("mut a%s %s setsub %d", tag, src, hlib.Pick(r, 1, 2, 255))
			case 5:
				do("mut a%s %s garbage %d %d", tag, src, r.Intn(1000), hlib.Pick(r, 0, 1, dh, dh+1, 2*dh+16, 300))
			case 6:
				do("mut a%s %s dup", tag, src)
			case 7:
				if stage == 2 {
					do("mut a%s %s splice m1 %d", tag, src, hlib.Pick(r, 16, 16+dh, 16+2*dh))
				} else {
					do("mut a%s %s flip %d", tag, src, (full-1-r.Intn(40))*8) // inside the cleartext payload
				}
			case 8:
				do("mut a%s %s trunc %d", tag, src, 16+dh+r.Intn(dh+17)) // after the ephemeral key
			}
			do("pp %s a%s o%s", m, tag, tag)
		}
	}
	if r.Chance(2, 5) {
		attack("R", "m1", "1", 1)
	}
	// the genuine messages may reach the peer with their (unauthenticated) nebula header rewritten in flight
	hdrMut := func(dst, src string) string {
		if !r.Chance(1, 3) {
			return src
		}
		switch r.Intn(6) {
		case 0, 1, 2:
			do("mut %s %s hdr ctr %d", dst, src, hlib.Pick[uint64](r, 0, 1, 2, 3, 7, 4096, 8191, 8192, 1<<32, ^uint64(0), r.U64()))
		case 3:
			do("mut %s %s hdr ri %d", dst, src, hlib.Pick[uint64](r, 0, 1, 1<<32-1, uint64(r.Intn(1<<30))))
		case 4:
			do("mut %s %s hdr rsv %d", dst, src, hlib.Pick[uint64](r, 1, 255, 256, 65535))
		case 5:
			do("mut %s %s hdr vt %d", dst, src, hlib.Pick[uint64](r, 0x00, 0x10, 0x11, 0x1f, 0x20, 0xf0, 0xff))
		}
		return dst
	}
	res := do("pp R %s m2", hdrMut("m1h", "m1"))
	if r.Chance(1, 10) {
		do("pp R m1 m2b") // replayed message 1 at a completed responder
	}
	if !strings.HasPrefix(res, "ok") || len(e.regs["m2"]) == 0 {
		if r.Chance(1, 2) {
			do("pp R m1 m2c")
		}
		return
	}
	if r.Chance(1, 2) || profile == "C07" {
		attack("I", "m2", "2", 2)
	}
	if r.Chance(1, 12) {
		do("pp I m1 x2") // own message reflected
	}
	do("pp I %s x3", hdrMut("m2h", "m2"))
	if r.Chance(1, 8) {
		do("pp I m2 x4") // duplicate of the genuine message 2
	}
	do("pair I R")
	if r.Chance(1, 3) {
		// replay-window seeding of newConnectionStateFromResult, on the real Results
		do("seed %s -", hlib.Pick(r, "I", "R"))
		do("seed %s %d", hlib.Pick(r, "I", "R"), hlib.Pick(r, 0, 1, 2, 3, 63, 64, 65, 127, 128, 4095, 4096, 8190, 8191, 8192, 8193, 100000, r.Intn(8192)))
	}
	if r.Chance(1, 6) {
		// a second, independent session between the same identities: results must not pair across sessions
		if do("new I2 %s %d 1 %s %d 0", idI, ver(idI), idx(), r.Intn(1<<30)) == "ok" && strings.HasPrefix(do("init I2 n1"), "ok") {
			do("pp I2 m2 y1") // cross-session message 2
			do("pair I2 R")
		}
	}
}

func TestEngine(t *testing.T) {
	theT = t
	hlib.Run(t, hlib.Engine{Name: "machine", Gen: gen, NewExec: newExec, Synctest: true})
}
