// Engine `header` (C47): header.Encode / H.Parse / IsValidSubType.
package header

import (
	"fmt"
	"testing"

	"github.com/slackhq/nebula/header"
	"verifharness/hlib"
)

func boundary64(r *hlib.Rand) uint64 {
	switch r.Intn(6) {
	case 0:
		return 0
	case 1:
		return ^uint64(0)
	case 2:
		return uint64(1) << uint(r.Intn(64))
	case 3:
		return (uint64(1) << uint(r.Intn(64))) - 1
	case 4:
		return uint64(r.Intn(300))
	}
	return r.U64()
}

func gen(r *hlib.Rand, n int, tier, profile string, emit func(string, ...any)) {
	// complete table of type/subtype combinations first (finite: 65536 entries) in thorough; the
	// 16 x 256 wire-reachable part plus samples in quick
	tmax := 16
	if tier == "thorough" {
		tmax = 256
	}
	for t := 0; t < tmax; t++ {
		for s := 0; s < 256; s++ {
			if tier != "thorough" && s >= 8 && !r.Chance(1, 16) {
				continue
			}
			emit("valid %d %d", t, s)
		}
	}
	for i := 0; i < n; i++ {
		switch r.Intn(3) {
		case 0:
			v := r.Intn(256)
			if r.Bool() {
				v = 1
			}
			t := r.Intn(256)
			if r.Bool() {
				t = r.Intn(8)
			}
			emit("enc %d %d %d %d %d", v, t, r.Intn(256), uint32(boundary64(r)), boundary64(r))
		case 1:
			ln := hlib.Pick(r, 0, 1, 15, 16, 16, 16, 17, 32, r.Intn(64))
			// `parse`: the bytes are a prefix of a larger receive buffer that still holds stale data
			// (how nebula's UDP readers hand packets over); `parsex`: exactly-sized allocation
			emit("%s %s", hlib.Pick(r, "parse", "parse", "parsex"), hlib.Hex(r.Bytes(ln)))
		case 2:
			emit("valid %d %d", r.Intn(256), r.Intn(256))
		}
	}
}

func newExec(t *testing.T) func([]string) string {
	return func(a []string) string {
		switch a[0] {
		case "enc":
			// the destination is a reused buffer full of stale bytes: Encode must overwrite every one of
			// the 16 header bytes (reserved field included), as buildResponse's callers rely on
			b := make([]byte, header.Len, 64)
			for i := range b {
				b[i] = 0xa5
			}
			out := header.Encode(b, uint8(hlib.Atoi(a[1])), header.MessageType(hlib.Atoi(a[2])),
				header.MessageSubType(hlib.Atoi(a[3])), uint32(hlib.Atou(a[4])), hlib.Atou(a[5]))
			return hlib.Hex(out)
		case "parse", "parsex":
			b, err := hlib.UnHex(a[1])
			if err != nil {
				return "bad-op"
			}
			if a[0] == "parsex" {
				// parsing must not look beyond the slice: capacity ends where the length ends
				b = b[:len(b):len(b)]
			} else {
				// a short datagram inside a reused, larger receive buffer full of stale bytes: the
				// stale bytes must never be interpreted as header fields
				buf := make([]byte, len(b)+64)
				for i := range buf {
					buf[i] = 0xa5
				}
				copy(buf, b)
				b = buf[:len(b)]
			}
			var h header.H
			if err := h.Parse(b); err != nil {
				return "err"
			}
			return fmt.Sprintf("%d %d %d %d %d %d", h.Version, h.Type, h.Subtype, h.Reserved, h.RemoteIndex, h.MessageCounter)
		case "valid":
			return hlib.B(header.IsValidSubType(header.MessageType(hlib.Atoi(a[1])), header.MessageSubType(hlib.Atoi(a[2]))))
		}
		return "bad-op"
	}
}

func TestEngine(t *testing.T) {
	hlib.Run(t, hlib.Engine{Name: "header", Gen: gen, NewExec: newExec})
}
