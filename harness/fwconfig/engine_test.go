// Engine `fwconfig` (C22): parsePort / convertRule / AddFirewallRulesFromConfig on generated configuration
// values of arbitrary types, followed by packets aimed at the loaded rules.
package fwconfig

import (
	"encoding/hex"
	"fmt"
	"net/netip"
	"sort"
	"strconv"
	"strings"
	"testing"

	"github.com/slackhq/nebula"
	"github.com/slackhq/nebula/config"
	"verifharness/fwlib"
	"verifharness/hlib"
)

// ---- value tokens (see lean/Nebula/Driver/Fwconfig.lean)

func hx(s string) string { return hex.EncodeToString([]byte(s)) }

func tok(v any) string {
	switch x := v.(type) {
	case nil:
		return "n"
	case string:
		return "s" + hx(x)
	case int:
		return "i" + strconv.Itoa(x)
	case float64:
		return "f" + fmt.Sprintf("%v", x)
	case bool:
		return "b" + hlib.B(x)
	case []any:
		parts := make([]string, len(x))
		for i, e := range x {
			parts[i] = tok(e)
		}
		return "l[" + strings.Join(parts, ",") + "]"
	case map[string]any:
		keys := make([]string, 0, len(x))
		for k := range x {
			keys = append(keys, k)
		}
		sort.Strings(keys)
		parts := make([]string, len(keys))
		for i, k := range keys {
			parts[i] = hx(k) + "=" + tok(x[k])
		}
		return "m{" + strings.Join(parts, ",") + "}"
	}
	panic(fmt.Sprintf("harness: no token for %T", v))
}

func scalarEnd(s string) int {
	i := strings.IndexAny(s, ",]}")
	if i < 0 {
		return len(s)
	}
	return i
}

func unhx(s string) string {
	b, err := hex.DecodeString(s)
	if err != nil {
		panic("harness: bad hex " + s)
	}
	return string(b)
}

// parse returns the value and the rest of the input.
func parse(s string) (any, string) {
	switch {
	case strings.HasPrefix(s, "n"):
		return nil, s[1:]
	case strings.HasPrefix(s, "s"):
		e := scalarEnd(s[1:])
		return unhx(s[1 : 1+e]), s[1+e:]
	case strings.HasPrefix(s, "i"):
		e := scalarEnd(s[1:])
		return hlib.Atoi(s[1 : 1+e]), s[1+e:]
	case strings.HasPrefix(s, "f"):
		e := scalarEnd(s[1:])
		f, err := strconv.ParseFloat(s[1:1+e], 64)
		if err != nil {
			panic("harness: bad float " + s)
		}
		return f, s[1+e:]
	case strings.HasPrefix(s, "b"):
		return s[1] == '1', s[2:]
	case strings.HasPrefix(s, "l[]"):
		return []any{}, s[3:]
	case strings.HasPrefix(s, "l["):
		out := []any{}
		rest := s[2:]
		for {
			var v any
			v, rest = parse(rest)
			out = append(out, v)
			if rest[0] == ']' {
				return out, rest[1:]
			}
			rest = rest[1:] // ','
		}
	case strings.HasPrefix(s, "m{}"):
		return map[string]any{}, s[3:]
	case strings.HasPrefix(s, "m{"):
		out := map[string]any{}
		rest := s[2:]
		for {
			i := strings.IndexByte(rest, '=')
			k := unhx(rest[:i])
			var v any
			v, rest = parse(rest[i+1:])
			out[k] = v
			if rest[0] == '}' {
				return out, rest[1:]
			}
			rest = rest[1:]
		}
	}
	panic("harness: bad value token " + s)
}

func xs(s string) string { return "x" + hx(s) }

// ---- generator

var portPool = []string{"any", "fragment", "0", "1", "80", "080", "443", "65535", "65536", "65534", "99999999999999999999",
	"+80", "-1", "1-", "-5", "-", " - ", "1-2", " 1 - 2 ", "1 -2", "0-5", "0-0", "0-65535", "5-3", "1-65535", "1-65536", "1-70000", "70000-1",
	"a-b", "1-b", "a-2", "80 ", " 80", "8 0", "0x50", "1_000", "1e3", "٨٠", "８０", "", " ", "  ", "1--2", "1-2-3", "any ", "ANY", "Any",
	"Fragment", "fragment ", "any-any", "1-any", "00000000000000000080", "00-5", "65535-65535", "65536-65537", "80.0", "1,2", "200-901",
	"70000x", "7000x", "x70000", "1-70000x", "999999999999999999999999x",
	"1\t-\t2", "1-2\n", "\t80", "80\n", "1 -\t2", "\u00a01-2", "1-2\u00a0", "1\r-2",
	// a zero on one side only (0 is PortAny inside the code: `N-0` must stay a malformed descending range)
	"443-0", "1-0", "65535-0", "80 - 0", "0-443", "0-1", "00-0", "0-00", "443-00", "65536-0", "0-65536"}

func genPort(r *hlib.Rand) string {
	switch r.Intn(10) {
	case 0, 1, 2, 3:
		return hlib.Pick(r, portPool...)
	case 4:
		return strconv.Itoa(r.Intn(70000))
	case 5:
		return strconv.Itoa(65530 + r.Intn(12))
	case 6:
		a, b := r.Intn(66000), r.Intn(66000)
		sp := hlib.Pick(r, "", "", " ", "  ", "\t")
		return fmt.Sprintf("%s%d%s-%s%d%s", sp, a, hlib.Pick(r, "", " "), hlib.Pick(r, "", " "), b, sp)
	case 7:
		a := r.Intn(3)
		if r.Intn(3) == 0 {
			return fmt.Sprintf("%d-%d", r.Intn(66000), a) // descending towards 0/1/2
		}
		return fmt.Sprintf("%d-%d", a, r.Intn(100))
	case 8: // one character of a valid text damaged
		s := []byte(hlib.Pick(r, "8080", "100-200", "any", "fragment", "65535"))
		s[r.Intn(len(s))] = hlib.Pick(r, byte('x'), ' ', '-', '+', '9', '0', '_', '~')
		return string(s)
	}
	b := make([]byte, r.Intn(6))
	for i := range b {
		b[i] = hlib.Pick(r, byte('0'), '1', '9', '-', ' ', 'a', '5')
	}
	return string(b)
}

var cidrPool = []string{"10.0.0.0/8", "10.1.2.3/16", "0.0.0.0/0", "::/0", "fd00::/8", "fd00::1/128", "192.168.1.1/32", "any", "",
	"1.2.3.4", "1.2.3.4/33", "1.2.3/24", " 1.2.3.4/24", "01.2.3.4/24", "1.2.3.4/024", "fe80::1%eth0/64", "1.2.3.4/-1", "::ffff:1.2.3.4/120",
	"any ", "ANY", "10.0.0.0/8 ", "10.0.0.0//8", "/8", "10.0.0.0/", "fd00::/129"}

func oddValue(r *hlib.Rand) any {
	switch r.Intn(9) {
	case 0:
		return nil
	case 1:
		return r.Intn(70000)
	case 2:
		return hlib.Pick(r, 1.5, 80.0, 1e21, 0.1)
	case 3:
		return r.Bool()
	case 4:
		return []any{}
	case 5:
		return []any{"a", r.Intn(5)}
	case 6:
		return map[string]any{"k": "v", "a": 1}
	case 7:
		return []any{[]any{"x", "y"}, nil}
	}
	return hlib.Pick(r, "", "any", "x", "<nil>")
}

// ruleMap renders a rule the way a configuration would, optionally damaged.
func ruleMap(r *hlib.Rand, ru fwlib.Rule, damage bool) any {
	m := map[string]any{}
	proto := map[uint8]string{0: "any", 6: "tcp", 17: "udp", 1: "icmp"}[ru.Proto]
	m["proto"] = proto
	switch {
	case ru.Start == 0 && ru.End == 0:
		m["port"] = hlib.Pick[any](r, "any", "any", 0, "0")
	case ru.Start == -1:
		m["port"] = "fragment"
	case ru.Start == ru.End:
		m["port"] = hlib.Pick[any](r, int(ru.Start), strconv.Itoa(int(ru.Start)))
	default:
		m["port"] = fmt.Sprintf("%d%s-%s%d", ru.Start, hlib.Pick(r, "", " "), hlib.Pick(r, "", " "), ru.End)
	}
	if ru.Proto == 1 && r.Bool() {
		delete(m, "port")
	}
	if len(ru.Groups) == 1 && r.Bool() {
		if r.Chance(1, 4) {
			m["group"] = []any{ru.Groups[0]}
		} else {
			m["group"] = ru.Groups[0]
		}
	} else if len(ru.Groups) > 0 {
		g := make([]any, len(ru.Groups))
		for i := range ru.Groups {
			g[i] = ru.Groups[i]
		}
		m["groups"] = g
	}
	for _, kv := range [][2]string{{"host", ru.Host}, {"cidr", ru.Cidr}, {"local_cidr", ru.LocalCidr}, {"ca_name", ru.CAName}, {"ca_sha", ru.CASha}} {
		if kv[1] != "" {
			m[kv[0]] = kv[1]
		}
	}
	if damage {
		switch r.Intn(12) {
		case 0:
			m["port"] = genPort(r)
		case 1:
			m["proto"] = hlib.Pick[any](r, "icmpv6", "TCP", "", 6, nil, "any ")
		case 2:
			m["code"] = hlib.Pick[any](r, "1", "any", 3)
		case 3:
			for _, k := range []string{"host", "group", "groups", "cidr", "local_cidr", "ca_name", "ca_sha"} {
				delete(m, k)
			}
		case 4:
			m[hlib.Pick(r, "cidr", "local_cidr")] = hlib.Pick(r, cidrPool...)
		case 5:
			m["group"] = hlib.Pick[any](r, []any{}, []any{"a", "b"}, []any{7}, []any{nil}, nil, 5, []any{[]any{"q"}}, "g1")
		case 6:
			m["groups"] = hlib.Pick[any](r, []any{}, []any{1, 2}, []any{"a", 2}, nil, "g1", 5, map[string]any{"a": "b"}, []any{"g1", "g2"}, []any{nil}, true)
		case 7:
			m[hlib.Pick(r, "port", "proto", "host", "cidr", "local_cidr", "ca_name", "ca_sha", "code")] = oddValue(r)
		case 8:
			if r.Bool() {
				return oddValue(r)
			}
			// exactly one selector field left, in a random shape
			for _, k := range selectorFields {
				delete(m, k)
			}
			selectorShape(m, selectorFields[r.Intn(len(selectorFields))], r.Intn(6))
		case 9:
			m["port"] = hlib.Pick(r, "0-5", "0-0", "5-3", "0-65535", "65535-65536")
		case 10:
			m["extra"] = oddValue(r)
		default:
			m["group"] = "g1"
			m["groups"] = hlib.Pick[any](r, []any{"g2"}, []any{}, "g2")
		}
	}
	return m
}

func collectOracle(v any, out map[string]netip.Prefix) {
	switch x := v.(type) {
	case []any:
		for _, e := range x {
			collectOracle(e, out)
		}
	case map[string]any:
		for k, e := range x {
			if k == "cidr" || k == "local_cidr" {
				s := fmt.Sprintf("%v", e)
				if p, err := netip.ParsePrefix(s); err == nil {
					out[s] = p
				}
			}
		}
	}
}

func oracleTok(v any) string {
	m := map[string]netip.Prefix{}
	collectOracle(v, m)
	if len(m) == 0 {
		return "-"
	}
	keys := make([]string, 0, len(m))
	for k := range m {
		keys = append(keys, k)
	}
	sort.Strings(keys)
	parts := make([]string, len(keys))
	for i, k := range keys {
		parts[i] = xs(k) + "=" + hlib.PrefixHex(m[k])
	}
	return strings.Join(parts, ",")
}

func expressible(r fwlib.Rule) fwlib.Rule {
	switch r.Proto {
	case 0, 6, 17, 1:
	case 58:
		r.Proto = 1
	default:
		r.Proto = 0
	}
	if r.Start > r.End {
		r.Start, r.End = r.End, r.Start
	}
	switch {
	case r.Proto == 1 || r.Start == 0:
		r.Start, r.End = 0, 0
	case r.Start < 0:
		r.Start, r.End = -1, -1
	}
	if r.Host == "" && len(r.Groups) == 0 && r.Cidr == "" && r.LocalCidr == "" && r.CAName == "" && r.CASha == "" {
		r.Host = "any"
	}
	return r
}

var selectorFields = []string{"host", "group", "groups", "cidr", "local_cidr", "ca_name", "ca_sha"}

func selectorScalar(f string) string {
	switch f {
	case "host":
		return "h1"
	case "group", "groups":
		return "g1"
	case "cidr", "local_cidr":
		return "10.0.0.0/8"
	case "ca_name":
		return "caA"
	}
	return "ca1"
}

// selectorShape sets field f of the rule map to one of the shapes a configuration can give it.
func selectorShape(m map[string]any, f string, shape int) {
	switch shape {
	case 0: // absent
		delete(m, f)
	case 1:
		m[f] = nil
	case 2:
		m[f] = []any{}
	case 3:
		m[f] = ""
	case 4:
		m[f] = []any{selectorScalar(f)}
	default:
		m[f] = selectorScalar(f)
	}
}

// selectorFamily: "at least one selector" for every selector field in every shape {absent, null, empty list,
// empty string, list of one, scalar}, as the only selector and in pairs; each rule is loaded into a fresh firewall
// and probed with one packet (a rule without selector would admit everybody).
func selectorFamily(emit func(string, ...any)) int {
	ops := 0
	one := func(m map[string]any) {
		v := []any{m}
		emit("reset 0 %d %d %d 0 me 0a000001/8 - - ca1", uint64(3600e9), uint64(3600e9), uint64(3600e9))
		emit("ca ca1 caA")
		emit("peer p0 h1 0a000002/8 - g1 ca1")
		emit("load in %s %s", tok(v), oracleTok(v))
		emit("match p0 in 0a000001 0a000002 80 4000 6 0")
		ops += 2
	}
	base := func() map[string]any { return map[string]any{"port": "80", "proto": "tcp"} }
	one(base())
	for _, f := range selectorFields {
		for shape := 1; shape <= 5; shape++ {
			m := base()
			selectorShape(m, f, shape)
			one(m)
		}
	}
	for i, f1 := range selectorFields {
		for _, f2 := range selectorFields[i+1:] {
			for _, s1 := range []int{1, 2, 3, 5} {
				for _, s2 := range []int{1, 2, 3, 5} {
					m := base()
					selectorShape(m, f1, s1)
					selectorShape(m, f2, s2)
					one(m)
				}
			}
		}
	}
	return ops
}

func gen(r *hlib.Rand, n int, tier, profile string, emit func(string, ...any)) {
	for _, p := range portPool {
		emit("port s%s", hx(p))
	}
	ops := len(portPool)
	ops += selectorFamily(emit)
	for ops < n {
		switch r.Intn(10) {
		case 0, 1, 2:
			emit("port s%s", hx(genPort(r)))
			ops++
		case 3, 4:
			w := fwlib.GenWorld(r, 1)
			emit("conv %s", tok(ruleMap(r, expressible(w.GenRule(r)), r.Chance(2, 3))))
			ops++
		default:
			// a world, its rules loaded from configuration values, then packets
			w := fwlib.GenWorld(r, 4)
			rules := w.Rules
			w.Rules = nil
			w.EmitSetup(emit, 3600e9, 3600e9, 3600e9, 0)
			for k := r.Range(1, 3); k > 0; k-- {
				var list []any
				var kept []fwlib.Rule
				cnt := r.Range(1, 3)
				for j := 0; j < cnt; j++ {
					var ru fwlib.Rule
					if len(rules) > 0 && r.Chance(2, 3) {
						ru = rules[r.Intn(len(rules))]
					} else {
						ru = w.GenRule(r)
					}
					ru = expressible(ru)
					list = append(list, ruleMap(r, ru, r.Chance(1, 4)))
					kept = append(kept, ru)
				}
				inbound := r.Chance(2, 3)
				for i := range kept {
					kept[i].Incoming = inbound
				}
				w.Rules = append(w.Rules, kept...)
				var v any = list
				if r.Chance(1, 15) {
					v = oddValue(r)
				}
				if r.Chance(1, 30) {
					emit("load %s none -", fwlib.Dir(inbound))
				} else {
					emit("load %s %s %s", fwlib.Dir(inbound), tok(v), oracleTok(v))
				}
				ops++
			}
			for k := r.Range(3, 10); k > 0; k-- {
				pi := r.Intn(len(w.Peers))
				p, inc := w.GenPacket(r, w.Peers[pi])
				if pr, ok := w.GenProbe(r); ok && r.Chance(1, 3) {
					pi, p, inc = pr.Peer, pr.P, pr.Incoming
				}
				emit("match p%d %s %s", pi, fwlib.Dir(inc), fwlib.PacketTokens(p))
				ops++
			}
		}
	}
}

// ---- executor

func loadErrKind(err error) string {
	if err == nil {
		return "ok"
	}
	s := err.Error()
	switch {
	case strings.Contains(s, "should be an array of rules"):
		return "err:notarray"
	case strings.Contains(s, "local_cidr did not parse"):
		return "err:localcidr"
	case strings.Contains(s, "cidr did not parse"):
		return "err:cidr"
	case strings.Contains(s, "only one of port or code"):
		return "err:portandcode"
	case strings.Contains(s, "at least one of host, group"):
		return "err:noselector"
	case strings.Contains(s, "proto was not understood"):
		return "err:proto"
	case strings.Contains(s, "; port ") || strings.Contains(s, "; code "):
		return "err:port"
	case strings.Contains(s, "; `"):
		return "err:addrule"
	}
	return "err:convert"
}

func convErrKind(err error) string {
	s := err.Error()
	switch {
	case strings.Contains(s, "could not parse rule"):
		return "err:notmap"
	case strings.Contains(s, "more than one entry"):
		return "err:groupmulti"
	case strings.Contains(s, "only one of group or groups"):
		return "err:both"
	case strings.Contains(s, "group should contain a single value"):
		return "err:groupempty"
	case strings.Contains(s, "groups was provided but"):
		return "err:groupsnil"
	case strings.Contains(s, "groups should contain only strings"):
		return "err:groupselem"
	}
	return "err:" + s
}

func newExec(t *testing.T) func([]string) string {
	e := &fwlib.Exec{T: t}
	e.Extra = func(e *fwlib.Exec, a []string) (string, bool) {
		switch a[0] {
		case "port":
			v, _ := parse(a[1])
			s, en, err := nebula.VerifParsePort(v.(string))
			if err != nil {
				switch {
				case strings.Contains(err.Error(), "appears to be a range"):
					return "err:rangefmt", true
				case strings.Contains(err.Error(), "out of range"):
					return "err:range", true
				}
				return "err:nan", true
			}
			return fmt.Sprintf("ok %d %d", s, en), true
		case "conv":
			v, _ := parse(a[1])
			r, err := nebula.VerifConvertRule(fwlib.Logger(), v)
			if err != nil {
				return convErrKind(err), true
			}
			g := "-"
			if len(r.Groups) > 0 {
				parts := make([]string, len(r.Groups))
				for i, s := range r.Groups {
					parts[i] = xs(s)
				}
				g = strings.Join(parts, ",")
			}
			return strings.Join([]string{"ok", xs(r.Port), xs(r.Code), xs(r.Proto), xs(r.Host), g, xs(r.Cidr), xs(r.LocalCidr), xs(r.CAName), xs(r.CASha)}, " "), true
		case "load":
			inbound := a[1] == "in"
			c := config.NewC(e.L)
			fwc := map[string]any{}
			if a[2] != "none" {
				v, _ := parse(a[2])
				if inbound {
					fwc["inbound"] = v
				} else {
					fwc["outbound"] = v
				}
			}
			c.Settings["firewall"] = fwc
			return loadErrKind(nebula.AddFirewallRulesFromConfig(e.L, inbound, c, e.Fw)), true
		}
		return "", false
	}
	return e.Do
}

func TestEngine(t *testing.T) {
	hlib.Run(t, hlib.Engine{Name: "fwconfig", Gen: gen, NewExec: newExec, Synctest: true})
}
