// Engine `bits` (C11): nebula.NewBits / Bits.Check / Bits.Update against the real code.
package bits

import (
	"fmt"
	"io"
	"log/slog"
	"strings"
	"testing"

	"github.com/slackhq/nebula"
	"verifharness/hlib"
)

const top = ^uint64(0)

// seq emits one case: a reset line and a sequence of check/update ops on one window.
type seq struct {
	r    *hlib.Rand
	emit func(string, ...any)
	L    uint64
	cur  uint64   // generator's idea of the highest counter sent so far
	sent []uint64 // counters sent so far (candidates for duplicates)
	ops  int
}

func (s *seq) send(c uint64) {
	if s.r.Chance(7, 10) {
		s.emit("check %d", c)
		s.ops++
	}
	s.emit("update %d", c)
	s.ops++
	if s.r.Chance(1, 12) {
		s.emit("check %d", c) // a pre-check after the fact must now refuse
		s.ops++
	}
	s.sent = append(s.sent, c)
	if c > s.cur {
		s.cur = c
	}
}

// add with saturation at 2^64-1, sub with saturation at 0
func sadd(a, b uint64) uint64 {
	if a+b < a {
		return top
	}
	return a + b
}
func ssub(a, b uint64) uint64 {
	if b > a {
		return 0
	}
	return a - b
}

func (s *seq) next() uint64 {
	r, L, cur := s.r, s.L, s.cur
	switch r.Intn(20) {
	case 0, 1, 2, 3, 4:
		return sadd(cur, 1)
	case 5:
		return sadd(cur, uint64(r.Range(2, 5)))
	case 6: // jump to just around the next 64-bit word boundary
		b := (cur/64 + uint64(r.Range(1, 3))) * 64
		if b < cur {
			b = top
		}
		return ssub(sadd(b, uint64(r.Intn(3))), 1)
	case 7: // jump inside the window
		return sadd(cur, uint64(r.Intn(int(min(L, 1<<20)))+1))
	case 8: // full window jump and its neighbours
		return ssub(sadd(sadd(cur, L), uint64(r.Intn(3))), 1)
	case 9: // far beyond the window
		return sadd(cur, L*uint64(r.Range(2, 5))+uint64(r.Intn(70)))
	case 10, 11, 12: // backfill somewhere in the window
		return ssub(cur, uint64(r.Intn(int(min(L, 1<<20)))))
	case 13: // window edge: cur-L-1, cur-L, cur-L+1
		return sadd(ssub(cur, L+1), uint64(r.Intn(3)))
	case 14: // stale
		return ssub(cur, L+uint64(r.Intn(200)))
	case 15, 16: // duplicate of something already sent
		if len(s.sent) > 0 {
			return s.sent[r.Intn(len(s.sent))]
		}
		return cur
	case 17:
		return hlib.Pick(r, 0, 1, L-1, L, L+1, 2*L-1, 2*L, top, top-1, top-L, top-L+1, uint64(1)<<63)
	case 18: // same slot as an earlier counter, one or two windows later/earlier
		if len(s.sent) > 0 {
			c := s.sent[r.Intn(len(s.sent))]
			if r.Bool() {
				return sadd(c, L*uint64(r.Range(1, 2)))
			}
			return ssub(c, L)
		}
		return sadd(cur, L)
	}
	return r.U64()
}

func (s *seq) run(base uint64, n int) {
	s.emit("reset %d", s.L)
	s.cur = 0
	s.sent = s.sent[:0]
	s.ops++
	if base > 0 {
		// walk a little first so that the jump to `base` starts from a non-trivial bitmap
		for k := s.r.Intn(4); k > 0; k-- {
			s.send(s.next())
		}
		s.send(base)
	}
	for k := 0; k < n; k++ {
		before := s.cur
		s.send(s.next())
		if s.r.Chance(1, 25) {
			s.emit("dump")
			s.ops++
		}
		// after a jump: ask the pre-check about every counter of the window
		if s.cur > before+1 && s.r.Chance(1, 5) && s.L <= 8192 {
			s.emit("scan")
			s.ops++
		}
	}
	if s.L <= 8192 || s.r.Chance(1, 6) {
		s.emit("scan")
		s.ops++
	}
	s.emit("dump")
	s.ops++
}

// steady emits a case that is past warm-up with a (mostly) fully received window: a long in-order run
// whose head lands on / next to a 64-bit word boundary, then a short jump, then replays of the oldest
// counters still inside the window, with a scan of the whole window after each phase.
func (s *seq) steady() {
	r, L := s.r, s.L
	s.emit("reset %d", L)
	s.ops++
	s.cur = 0
	s.sent = s.sent[:0]
	var base uint64
	switch r.Intn(6) {
	case 0:
		if L <= 1024 {
			base = uint64(1)<<63 - uint64(r.Intn(300))
		}
	case 1:
		if L <= 1024 {
			base = top - 4*L - uint64(r.Intn(int(L))) // ends within a few windows of 2^64
		}
	case 2:
		base = uint64(r.Intn(int(L)))
	}
	if base > 0 {
		s.send(base)
	}
	// head of the run: past warm-up, at bit 62 / 63 / 0 of a word (sometimes anywhere)
	head := base + L + uint64(r.Intn(130))
	want := hlib.Pick(r, uint64(63), 63, 63, 63, 62, 0, uint64(r.Intn(64)))
	for head%64 != want {
		head++
	}
	cur := base
	for cur < head {
		piece := head - cur
		if r.Chance(1, 3) && piece > 4 {
			piece = uint64(r.Intn(int(piece-2))) + 1
		}
		s.emit("run %d %d", cur+1, piece)
		s.ops++
		s.sent = append(s.sent, cur+1, cur+piece, cur+1+uint64(r.Intn(int(piece))))
		cur += piece
		if cur+3 < head && r.Chance(1, 2) {
			cur += uint64(r.Range(1, 2)) // a hole: these counters are lost (for now)
		}
	}
	s.cur = head
	if r.Chance(1, 3) {
		s.emit("scan")
		s.ops++
	}
	rounds := r.Range(1, 3)
	for k := 0; k < rounds; k++ {
		// a short jump: 1 .. 62 packets lost or late (sometimes exactly one word, or more)
		gap := uint64(hlib.Pick(r, r.Range(2, 63), r.Range(2, 63), r.Range(2, 63), 2, 63, 64, 65, r.Range(66, 200)))
		if s.cur > top-gap {
			break
		}
		s.send(s.cur + gap)
		s.emit("scan")
		s.ops++
		// replays of the oldest counters still in the window
		for j := r.Range(1, 4); j > 0; j-- {
			s.send(ssub(s.cur, L-1) + uint64(r.Intn(64)))
		}
		// walk on to the next word boundary
		if k+1 < rounds {
			next := s.cur + 1
			for (next+uint64(r.Intn(2)))%64 != 63 {
				next++
			}
			if next > s.cur {
				s.emit("run %d %d", s.cur+1, next-s.cur)
				s.ops++
				s.cur = next
			}
		}
	}
	for k := r.Range(0, 6); k > 0; k-- {
		s.send(s.next())
	}
	s.emit("scan")
	s.emit("dump")
	s.ops += 2
}

// exhaustive enumeration of all update sequences of length `depth` over the alphabet [0, 3L]
func exhaustive(L uint64, depth int, emit func(string, ...any), budget *int) {
	alpha := int(3*L) + 1
	idx := make([]int, depth)
	for {
		emit("reset %d", L)
		for _, a := range idx {
			emit("check %d", a)
			emit("update %d", a)
		}
		*budget -= 2*depth + 1
		k := depth - 1
		for k >= 0 {
			idx[k]++
			if idx[k] < alpha {
				break
			}
			idx[k] = 0
			k--
		}
		if k < 0 || *budget <= 0 {
			return
		}
	}
}

func gen(r *hlib.Rand, n int, tier, profile string, emit func(string, ...any)) {
	// refused lengths
	for _, l := range []uint64{0, 3, 10, 100, 8191, 8193, top} {
		emit("reset %d", l)
	}
	// small scope, exhaustively
	if tier == "thorough" {
		b := n / 2
		exhaustive(1, 6, emit, &b)
		exhaustive(2, 5, emit, &b)
		exhaustive(4, 4, emit, &b)
		exhaustive(8, 3, emit, &b)
	} else {
		b := n / 5
		exhaustive(1, 4, emit, &b)
		exhaustive(2, 3, emit, &b)
		exhaustive(4, 2, emit, &b)
	}
	s := &seq{r: r, emit: emit}
	for s.ops < n {
		if r.Chance(1, 3) {
			s.L = hlib.Pick(r, uint64(64), 128, 128, 128, 256, 256, 1024, 8192)
			s.steady()
			continue
		}
		s.L = hlib.Pick(r, uint64(1), 2, 4, 8, 16, 32, 64, 64, 128, 128, 256, 1024, 8192, 8192, 8192, 65536)
		var base uint64
		switch r.Intn(8) {
		case 0, 1, 2:
			base = 0
		case 3:
			base = uint64(r.Intn(int(3 * s.L)))
		case 4:
			base = uint64(1)<<63 - uint64(r.Intn(100))
		case 5, 6: // within two windows of 2^64
			base = top - uint64(r.Intn(int(2*s.L)+2))
		case 7:
			base = r.U64()
		}
		ln := r.Range(5, 60)
		if s.L >= 1024 {
			ln = r.Range(20, 150)
		}
		s.run(base, ln)
	}
}

func newExec(t *testing.T) func([]string) string {
	l := slog.New(slog.NewTextHandler(io.Discard, &slog.HandlerOptions{Level: slog.LevelDebug}))
	var b *nebula.Bits
	return func(a []string) string {
		switch a[0] {
		case "reset":
			b = nil
			b = nebula.NewBits(hlib.Atou(a[1]))
			return "ok"
		case "check":
			if b == nil {
				return "bad-op"
			}
			return hlib.B(b.Check(l, hlib.Atou(a[1])))
		case "update":
			if b == nil {
				return "bad-op"
			}
			ok := b.Update(l, hlib.Atou(a[1]))
			cur, _ := nebula.VerifBitsState(b)
			return fmt.Sprintf("%s %d", hlib.B(ok), cur)
		case "run":
			if b == nil {
				return "bad-op"
			}
			from, cnt := hlib.Atou(a[1]), hlib.Atou(a[2])
			acc := 0
			for k := uint64(0); k < cnt; k++ {
				if b.Update(l, from+k) {
					acc++
				}
			}
			cur, _ := nebula.VerifBitsState(b)
			return fmt.Sprintf("%d %d", acc, cur)
		case "scan":
			if b == nil {
				return "bad-op"
			}
			cur, _ := nebula.VerifBitsState(b)
			lo, hi := ssub(cur, nebula.VerifBitsLength(b)+1), sadd(cur, 2)
			var sb strings.Builder
			fmt.Fprintf(&sb, "%d %d ", lo, hi)
			last, cnt, first := false, 0, true
			flush := func() {
				if cnt > 0 {
					if !first {
						sb.WriteByte(',')
					}
					first = false
					fmt.Fprintf(&sb, "%sx%d", hlib.B(last), cnt)
				}
			}
			for c := lo; ; c++ {
				v := b.Check(l, c)
				if cnt > 0 && v != last {
					flush()
					cnt = 0
				}
				last = v
				cnt++
				if c == hi {
					break
				}
			}
			flush()
			return sb.String()
		case "dump":
			if b == nil {
				return "bad-op"
			}
			cur, words := nebula.VerifBitsState(b)
			var sb strings.Builder
			fmt.Fprintf(&sb, "%d ", cur)
			for _, w := range words {
				fmt.Fprintf(&sb, "%016x", w)
			}
			return sb.String()
		}
		return "bad-op"
	}
}

func TestEngine(t *testing.T) {
	hlib.Run(t, hlib.Engine{Name: "bits", Gen: gen, NewExec: newExec})
}
