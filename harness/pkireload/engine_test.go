// Engine `pkireload` (C42): sequences of inline-PEM configurations through the real entry points — the first load
// is nebula.NewPKIFromConfig on a fresh config.C, every later one is config.C.ReloadConfigString, i.e. the reload
// callback NewPKIFromConfig registered (PKI.reload as a whole, not its two halves). What was refused is read off
// the log records the reload emits (a slog handler that keeps them); the state in use afterwards is read through
// PKI.VerifCertState (verif_pkireload.go) and PKI.GetCAPool. Each call runs inside its own synctest bubble whose
// virtual clock is the case's accumulated `sleep`.
package pkireload

import (
	"context"
	"encoding/pem"
	"errors"
	"fmt"
	"log/slog"
	"net/netip"
	"sort"
	"strings"
	"testing"
	"testing/synctest"
	"time"

	"github.com/slackhq/nebula"
	"github.com/slackhq/nebula/cert"
	"github.com/slackhq/nebula/cert_test"
	"github.com/slackhq/nebula/config"
	"github.com/slackhq/nebula/util"
	cl "verifharness/certlib"
	"verifharness/hlib"
)

func banner(ver int) string {
	if ver == 2 {
		return cert.CertificateV2Banner
	}
	return cert.CertificateBanner
}

// srcPEM turns `<ver>:<hex>` into a PEM block.
func srcPEM(src string) (int, []byte, []byte) {
	i := strings.IndexByte(src, ':')
	ver := hlib.Atoi(src[:i])
	raw, err := hlib.UnHex(src[i+1:])
	if err != nil {
		panic("harness: bad src")
	}
	return ver, raw, pem.EncodeToMemory(&pem.Block{Type: banner(ver), Bytes: raw})
}

const garbagePEM = "-----BEGIN NEBULA CERTIFICATE-----\nAAAA\n-----END NEBULA CERTIFICATE-----\n"

func indent(p []byte) string {
	return "    " + strings.ReplaceAll(strings.TrimRight(string(p), "\n"), "\n", "\n    ") + "\n"
}

func certKind(err error) string {
	if err == nil {
		return "ok"
	}
	var ce *util.ContextualError
	msg := err.Error()
	if errors.As(err, &ce) {
		switch {
		case strings.HasPrefix(ce.Context, "Networks in new cert was different from old"):
			return fmt.Sprintf("err:v%v-networks", ce.Fields["cert_version"])
		case strings.HasPrefix(ce.Context, "Curve in new v1 cert was different from old"):
			return "err:v1-curve"
		case strings.HasPrefix(ce.Context, "Curve in new cert was different from old"):
			return "err:v2-curve"
		case strings.HasPrefix(ce.Context, "Removing a V2 cert is not permitted unless it has identical networks"):
			return "err:remove-v2-networks"
		case strings.HasPrefix(ce.Context, "Removing a V2 cert is not permitted unless it has the same curve"):
			return "err:remove-v2-curve"
		case strings.HasPrefix(ce.Context, "Replacing a V1 cert is not permitted unless it has identical networks"):
			return "err:v1-to-v2-networks"
		case strings.HasPrefix(ce.Context, "Replacing a V1 cert is not permitted unless it has the same curve"):
			return "err:v1-to-v2-curve"
		}
		if ce.RealError != nil {
			msg = ce.RealError.Error()
		}
	}
	switch {
	case strings.Contains(msg, "no pki.key path"), strings.Contains(msg, "error while unmarshaling pki.key"):
		return "err:key"
	case strings.Contains(msg, "no pki.cert path"), strings.Contains(msg, "error while unmarshaling pki.cert"):
		return "err:cert-file"
	case strings.Contains(msg, "nebula certificate for this host is expired"):
		return "err:expired"
	case strings.Contains(msg, "no networks encoded in certificate"):
		return "err:no-networks"
	case strings.Contains(msg, "host certificate is a CA certificate"):
		return "err:is-ca"
	case strings.Contains(msg, "v1 certificate already found"):
		return "err:dup-v1"
	case strings.Contains(msg, "v2 certificate already found"):
		return "err:dup-v2"
	case strings.Contains(msg, "no certificates found"):
		return "err:no-certs"
	case strings.Contains(msg, "can not use pki.initiating_version 1 without a v1"):
		return "err:initver-needs-v1"
	case strings.Contains(msg, "unknown pki.initiating_version"):
		return "err:initver-unknown"
	case strings.Contains(msg, "v1 and v2 public keys are not the same"):
		return "err:pair-key"
	case strings.Contains(msg, "v1 and v2 curve are not the same"):
		return "err:pair-curve"
	case strings.Contains(msg, "v1 and v2 networks are not the same"):
		return "err:pair-network"
	case strings.Contains(msg, "private key is not a pair with public key"):
		return "err:key-mismatch"
	case strings.Contains(msg, "unsupported curve"):
		return "err:curve-unsupported"
	}
	return "err:other:" + strings.ReplaceAll(msg, " ", "_")
}

func caKind(err error) string {
	if err == nil {
		return "ok"
	}
	msg := err.Error()
	switch {
	case strings.Contains(msg, "no valid CA certificates present"):
		return "err:ca-all-expired"
	case strings.Contains(msg, "no pki.ca path"):
		return "err:ca-file"
	case strings.Contains(msg, "error while adding CA certificate to CA trust store"):
		if strings.Contains(msg, cert.ErrNotCA.Error()) || strings.Contains(msg, cert.ErrNotSelfSigned.Error()) {
			return "err:ca-add"
		}
		return "err:ca-file"
	}
	return "err:other:" + strings.ReplaceAll(msg, " ", "_")
}

func sig8(c cert.Certificate) string {
	if c == nil {
		return "-"
	}
	s := c.Signature()
	if len(s) > 8 {
		s = s[:8]
	}
	return hlib.Hex(s)
}

// keep is a slog handler that keeps every record of the current op.
type keep struct{ recs *[]slog.Record }

func (k keep) Enabled(context.Context, slog.Level) bool { return true }
func (k keep) Handle(_ context.Context, r slog.Record) error {
	*k.recs = append(*k.recs, r.Clone())
	return nil
}
func (k keep) WithAttrs([]slog.Attr) slog.Handler { return k }
func (k keep) WithGroup(string) slog.Handler      { return k }

const caContext = "Failed to load ca from config"

// fromRecord rebuilds the ContextualError an error-level record was logged from (ContextualError.Log: message =
// Context, attributes = Fields plus "error" = RealError).
func fromRecord(r slog.Record) *util.ContextualError {
	ce := &util.ContextualError{Context: r.Message, Fields: map[string]any{}}
	r.Attrs(func(a slog.Attr) bool {
		if a.Key == "error" {
			ce.RealError = errors.New(a.Value.String())
		} else {
			ce.Fields[a.Key] = a.Value.Any()
		}
		return true
	})
	return ce
}

func newExec(t *testing.T) func([]string) string {
	var recs []slog.Record
	l := slog.New(keep{&recs})
	var pki *nebula.PKI
	var cfg *config.C
	var clock time.Duration
	return func(a []string) string {
		switch a[0] {
		case "reset":
			pki, cfg = nil, nil
			clock = 0
			return "ok"
		case "reload":
			if len(a) < 9 {
				return "bad-op"
			}
			initial := a[1] == "1"
			if !initial && pki == nil {
				return "not-loaded" // a reload before the first successful load cannot happen (NewPKIFromConfig fails)
			}
			clock += time.Duration(hlib.Atoi(a[2]))
			ncert, nca := hlib.Atoi(a[7]), hlib.Atoi(a[8])
			rest := a[9:]
			var y strings.Builder
			y.WriteString("pki:\n")
			// key
			var keyCurve cert.Curve
			var key []byte
			switch {
			case a[4] == "none":
			case a[4] == "bad":
				y.WriteString("  key: |\n" + indent([]byte(garbagePEM)))
			default:
				i := strings.IndexByte(a[4], ':')
				keyCurve = cert.Curve(hlib.Atoi(a[4][:i]))
				key, _ = hlib.UnHex(a[4][i+1:])
				y.WriteString("  key: |\n" + indent(cert.MarshalPrivateKeyToPEM(keyCurve, key)))
			}
			if (a[3] == "1") != (key != nil) {
				return "op-inconsistent"
			}
			if a[5] != "-" {
				y.WriteString("  initiating_version: " + a[5] + "\n")
			}
			var bl []string
			if a[6] != "-" {
				bl = strings.Split(a[6], ",")
				y.WriteString("  blocklist:\n")
				for _, fp := range bl {
					y.WriteString("    - " + fp + "\n")
				}
			}
			// certificates
			switch {
			case ncert < 0:
				y.WriteString("  cert: |\n" + indent([]byte(garbagePEM)))
			case ncert > 0:
				var all []byte
				for i := 0; i < ncert; i++ {
					if len(rest) < 2+cl.DescLen {
						return "bad-op"
					}
					ver, raw, p := srcPEM(rest[0])
					c, err := cl.Decode(ver, raw)
					if err != nil || cl.Desc(c) != strings.Join(rest[1:1+cl.DescLen], " ") {
						return "op-inconsistent"
					}
					if hlib.B(key != nil && c.VerifyPrivateKey(keyCurve, key) == nil) != rest[1+cl.DescLen] {
						return "op-inconsistent"
					}
					all = append(all, p...)
					rest = rest[2+cl.DescLen:]
				}
				y.WriteString("  cert: |\n" + indent(all))
			}
			switch {
			case nca < 0:
				y.WriteString("  ca: |\n" + indent([]byte(garbagePEM)))
			case nca > 0:
				var all []byte
				for i := 0; i < nca; i++ {
					if len(rest) < 3+cl.DescLen {
						return "bad-op"
					}
					ver, raw, p := srcPEM(rest[0])
					c, err := cl.Decode(ver, raw)
					if err != nil || cl.Desc(c) != strings.Join(rest[1:1+cl.DescLen], " ") {
						return "op-inconsistent"
					}
					fp, _ := c.Fingerprint()
					if fp != rest[1+cl.DescLen] || hlib.B(c.CheckSignature(c.PublicKey())) != rest[2+cl.DescLen] {
						return "op-inconsistent"
					}
					all = append(all, p...)
					rest = rest[3+cl.DescLen:]
				}
				y.WriteString("  ca: |\n" + indent(all))
			}
			if len(rest) != 0 {
				return "bad-op"
			}
			recs = recs[:0]
			var certErr, caErr error
			caTok := "-"
			if initial {
				// what main does: a fresh configuration, then NewPKIFromConfig (the first error aborts, no PKI)
				c := config.NewC(l)
				if err := c.LoadString(y.String()); err != nil {
					return "bad-op yaml " + err.Error()
				}
				var err error
				var np *nebula.PKI
				synctest.Test(t, func(t *testing.T) {
					time.Sleep(clock)
					np, err = nebula.NewPKIFromConfig(l, c)
				})
				pki, cfg = np, c
				if err != nil {
					pki, cfg = nil, nil
					var ce *util.ContextualError
					if errors.As(err, &ce) && ce.Context == caContext {
						caErr = err
						caTok = caKind(err)
					} else {
						certErr = err
					}
				} else {
					caTok = "ok"
				}
			} else {
				// a SIGHUP: the registered reload callbacks run on the new settings; refusals are only logged
				var lerr error
				synctest.Test(t, func(t *testing.T) {
					time.Sleep(clock)
					lerr = cfg.ReloadConfigString(y.String())
				})
				if lerr != nil {
					return "bad-op yaml " + lerr.Error()
				}
				for _, r := range recs {
					switch {
					case r.Level == slog.LevelError && r.Message == caContext:
						caErr = fromRecord(r)
						caTok = caKind(caErr)
					case r.Level == slog.LevelError:
						certErr = fromRecord(r)
					case r.Level == slog.LevelDebug && r.Message == "Trusted CA fingerprints":
						caTok = "ok" // reloadCAPool ran and stored a pool
					}
				}
			}
			st := "iv=- curve=- nets=- v1=- v2=-"
			if pki == nil {
				return fmt.Sprintf("%s %s %s cas=- bl=0", certKind(certErr), caTok, st)
			}
			if v1, v2, nets, iv, ok := pki.VerifCertState(); ok {
				curve := cert.Curve(0)
				if v2 != nil {
					curve = v2.Curve()
				} else if v1 != nil {
					curve = v1.Curve()
				}
				st = fmt.Sprintf("iv=%d curve=%d nets=%s v1=%s v2=%s", iv, curve, cl.PrefixesTok(nets), sig8(v1), sig8(v2))
			}
			pool := "cas=- bl=0"
			if p := pki.GetCAPool(); p != nil {
				fps := p.GetFingerprints()
				sort.Strings(fps)
				n := 0
				for _, fp := range bl {
					if p.IsBlocklisted(fp) {
						n++
					}
				}
				s := "-"
				if len(fps) > 0 {
					s = strings.Join(fps, ",")
				}
				pool = fmt.Sprintf("cas=%s bl=%d", s, n)
			}
			return fmt.Sprintf("%s %s %s %s", certKind(certErr), caTok, st, pool)
		}
		return "bad-op"
	}
}

// ---- generator -------------------------------------------------------------------------------------

type authority struct {
	c    cert.Certificate
	key  *cl.SignKey
	src  string
	desc string
	fp   string
}

func newAuthority(r *hlib.Rand, curve cert.Curve, nb, na int64, isCA bool) *authority {
	key := cl.NewSignKey(r, curve)
	f := cl.Fields{Version: hlib.Pick(r, 1, 2), Curve: int(curve), IsCA: isCA, NotBefore: cl.Sec(nb), NotAfter: cl.Sec(na), Name: "ca", PublicKey: key.Pub}
	if !isCA {
		f.Networks = []netip.Prefix{netip.MustParsePrefix("10.99.0.1/16")}
	}
	raw := cl.Craft(f, key, nil)
	c, err := cl.Decode(f.Version, raw)
	if err != nil {
		panic(err)
	}
	fp, _ := c.Fingerprint()
	return &authority{c: c, key: key, src: fmt.Sprintf("%d:%s", f.Version, hlib.Hex(raw)), desc: cl.Desc(c), fp: fp}
}

type hostKey struct {
	curve cert.Curve
	pub   []byte
	priv  []byte
}

func newHostKey(curve cert.Curve) *hostKey {
	// key pairs come from crypto/rand inside the repo's own helpers (ECDH key generation ignores custom readers)
	if curve == cert.Curve_P256 {
		pub, priv := cert_test.P256Keypair()
		return &hostKey{curve, pub, priv}
	}
	pub, priv := cert_test.X25519Keypair()
	return &hostKey{curve, pub, priv}
}

type leaf struct {
	src  string
	desc string
	c    cert.Certificate
}

func issue(r *hlib.Rand, ca *authority, ver int, hk *hostKey, nets []netip.Prefix, nb, na int64, isCA bool) *leaf {
	f := cl.Fields{Version: ver, Curve: int(ca.key.Curve), IsCA: isCA, NotBefore: cl.Sec(nb), NotAfter: cl.Sec(na), Issuer: ca.fp,
		Name: "host", Networks: nets, PublicKey: hk.pub}
	raw := cl.Craft(f, ca.key, nil)
	c, err := cl.Decode(ver, raw)
	if err != nil {
		return nil
	}
	return &leaf{src: fmt.Sprintf("%d:%s", ver, hlib.Hex(raw)), desc: cl.Desc(c), c: c}
}

var netSets = [][]string{{"10.0.0.1/24"}, {"10.9.9.9/24"}, {"10.0.0.1/24", "10.1.0.1/16"}, {"10.0.0.1/16"}, {"10.0.0.2/24"}, {"192.168.7.7/24", "10.0.0.1/24"}}
var v6extra = []string{"fd00::1/64", "fd00:1::5/64"}

func prefixes(ss []string) []netip.Prefix {
	var out []netip.Prefix
	for _, s := range ss {
		out = append(out, netip.MustParsePrefix(s))
	}
	return out
}

func gen(r *hlib.Rand, n int, tier, profile string, emit func(string, ...any)) {
	const T0 = int64(cl.Epoch)
	nops := 0
	for nops < n {
		emit("reset")
		nops++
		cas := map[cert.Curve]*authority{
			cert.Curve_CURVE25519: newAuthority(r, cert.Curve_CURVE25519, T0-86400, T0+86400*30, true),
			cert.Curve_P256:       newAuthority(r, cert.Curve_P256, T0-86400, T0+86400*30, true),
		}
		expiredCA := newAuthority(r, cert.Curve_CURVE25519, T0-86400, T0-10, true)
		soonCA := newAuthority(r, cert.Curve_CURVE25519, T0-86400, T0+50, true)
		notCA := newAuthority(r, cert.Curve_CURVE25519, T0-86400, T0+86400, false)
		extraCA := newAuthority(r, cert.Curve(r.Intn(2)), T0-86400, T0+86400*30, true) // a valid CA that signs nothing here
		keys := []*hostKey{newHostKey(cert.Curve_CURVE25519), newHostKey(cert.Curve_CURVE25519), newHostKey(cert.Curve_P256)}
		curKey := keys[hlib.Pick(r, 0, 0, 2)]
		curNets := netSets[r.Intn(len(netSets))]
		shape := hlib.Pick(r, "1", "2", "12", "1", "12")
		initial := true
		for step, steps := 0, hlib.Pick(r, 3, 5, 8); step < steps; step++ {
			hk, nets, sh := curKey, curNets, shape
			nb, na := T0-int64(3600+r.Intn(100)), T0+int64(86400+r.Intn(1000))
			keyTok := ""
			extraV2 := false
			twist := r.Intn(26)
			if initial && twist < 12 {
				twist = 100 + r.Intn(3) // mostly a clean first load
			}
			switch twist {
			case 0, 1:
				sh = hlib.Pick(r, "1", "2", "12") // add / remove / replace versions, same identity
			case 2:
				nets = netSets[r.Intn(len(netSets))] // other networks
			case 3:
				hk = keys[r.Intn(len(keys))] // other key (maybe other curve)
			case 4:
				sh, hk, nets = "2", keys[r.Intn(len(keys))], netSets[r.Intn(len(netSets))] // F10 shape when the state is v1-only
			case 5:
				sh, extraV2 = "12", true // v2 with additional networks next to the v1 certificate
			case 6:
				na = T0 + 5 // expires soon / already (after sleeps)
			case 7:
				sh = hlib.Pick(r, "11", "22", "122")
			case 8:
				sh = "1"
				hk = keys[r.Intn(len(keys))]
			case 9:
				sh, nets = hlib.Pick(r, "1", "2"), curNets
			}
			ca := cas[hk.curve]
			var certs []*leaf
			pairBreak := r.Chance(1, 12)
			for _, ch := range sh {
				ver := int(ch - '0')
				ns := prefixes(nets)
				if ver == 2 && extraV2 {
					ns = append(ns, prefixes(v6extra[:1+r.Intn(2)])...)
				}
				k := hk
				if pairBreak && ver == 2 && len(sh) > 1 {
					switch r.Intn(2) {
					case 0:
						k = newHostKey(hk.curve) // pair with different keys
					default:
						ns = prefixes(netSets[(r.Intn(len(netSets)))]) // pair with different primary network (maybe)
					}
				}
				isCA := twist == 10
				if l := issue(r, ca, ver, k, ns, nb, na, isCA); l != nil {
					certs = append(certs, l)
				}
			}
			ncert := len(certs)
			switch twist {
			case 11:
				ncert = -1
			case 12:
				ncert = 0
			}
			keyTok = fmt.Sprintf("%d:%s", hk.curve, hlib.Hex(hk.priv))
			loadKey, loadCurve := hk.priv, hk.curve
			switch twist {
			case 13:
				keyTok, loadKey = "bad", nil
			case 14:
				keyTok, loadKey = "none", nil
			case 15: // key that does not belong to the certificates
				other := newHostKey(hk.curve)
				keyTok, loadKey = fmt.Sprintf("%d:%s", other.curve, hlib.Hex(other.priv)), other.priv
			}
			initver := "-"
			if r.Chance(1, 6) {
				initver = hlib.Pick(r, "1", "2", "2", "3", "0")
			}
			// CA bundle
			var bundle []*authority
			nca := 0
			switch r.Intn(14) {
			case 12: // the trust store changes although (maybe) the host certificate is refused
				bundle = []*authority{ca, extraCA}
			case 13:
				bundle = []*authority{extraCA}
			case 0:
				nca = -1
			case 1:
				nca = 0
			case 2:
				bundle = []*authority{expiredCA}
			case 3:
				bundle = []*authority{ca, expiredCA}
			case 4:
				bundle = []*authority{ca, notCA}
			case 5:
				bundle = []*authority{soonCA}
			case 6:
				bundle = []*authority{cas[cert.Curve_CURVE25519], cas[cert.Curve_P256], ca}
			default:
				bundle = []*authority{ca}
			}
			if nca == 0 && bundle != nil {
				nca = len(bundle)
			}
			bl := "-"
			if r.Chance(1, 4) {
				bl = hlib.Hex(r.Bytes(32))
				if r.Bool() {
					bl += "," + hlib.Hex(r.Bytes(32))
				}
			}
			sleep := int64(0)
			if r.Chance(1, 5) {
				sleep = int64(hlib.Pick(r, 1, 6, 60)) * 1000000000
			}
			var sb strings.Builder
			fmt.Fprintf(&sb, "reload %s %d %s %s %s %s %d %d", hlib.B(initial), sleep, hlib.B(loadKey != nil), keyTok, initver, bl, ncert, nca)
			if ncert > 0 {
				for _, l := range certs {
					fmt.Fprintf(&sb, " %s %s %s", l.src, l.desc, hlib.B(loadKey != nil && l.c.VerifyPrivateKey(loadCurve, loadKey) == nil))
				}
			}
			if nca > 0 {
				for _, a := range bundle {
					fmt.Fprintf(&sb, " %s %s %s %s", a.src, a.desc, a.fp, hlib.B(a.c.CheckSignature(a.c.PublicKey())))
				}
			}
			emit("%s", sb.String())
			nops++
			// the generator does not know whether the load was accepted: it keeps aiming at the identity it
			// first chose, and marks the case as loaded after a clean first attempt
			if initial && twist >= 100 && ncert > 0 && nca >= 1 && keyTok != "bad" && keyTok != "none" && !pairBreak && initver != "3" && initver != "0" &&
				!(initver == "1" && sh == "2") && bundle[0] != expiredCA && !(len(bundle) > 1 && bundle[1] == notCA) {
				initial = false
			}
		}
	}
}

func TestEngine(t *testing.T) {
	hlib.Run(t, hlib.Engine{Name: "pkireload", Gen: gen, NewExec: newExec})
}
