// Engine `calcremote` (C48), configuration path: lighthouse.calculated_remotes -> NewCalculatedRemotesFromConfig ->
// LightHouse.reload (initial load and config.C.ReloadConfigString) -> addCalculatedRemotes, on a real LightHouse
// built by NewLightHouseFromConfig.
//
// ops (a history starts with `reset`):
//
//	reset <myNet>                -> ok
//	cfgload <cfg>                a new config.C + NewLightHouseFromConfig      -> `ok tbl=<dump>` | `fatal` | `fatal:other`
//	cfgreload <cfg>              config.C.ReloadConfigString on that config.C  -> `<changed|unchanged|err> tbl=<dump>` | `nolh`
//	cfgreloadx <cfg>             the same reload, the file also carrying an invalid lighthouse.remote_allow_list (a block
//	                             LightHouse.reload handles earlier and returns on)    -> `earlier-err tbl=<dump>` | `nolh`
//	probe <addr>                 addCalculatedRemotes(addr) + what it stored    -> `<0|1> v4=… v6=…` | `nolh`
//
// <cfg> is the value of lighthouse.calculated_remotes, prefix notation:
//
//	cfg  := absent:<v> | nonmap:<v> | map <n> { <cidr> <ent> }*n
//	cidr := <prefixhex> | badcidr:<v>
//	ent  := nonlist:<v> | list <k> { <item> }*k
//	item := nonmapitem:<v> | e <mask> <port>
//	mask := <prefixhex> | mmissing:<v> | mnonstr:<v> | mbad:<v>
//	port := i<int> | s<int> | sbad:<v> | pmissing:<v> | pother:<v>
//
// `<v>` selects a concrete YAML value of that kind (see the tables below). The executor renders the value as YAML
// text (yaml.Marshal) and loads it through config.C, so that the value types are the ones production sees.
// <dump> := nil | - | <prefixhex>=<maskhex:port+…|->;…   (sorted by family, address, length)
package calcremote

import (
	"context"
	"fmt"
	"log/slog"
	"net/netip"
	"sort"
	"strings"
	"sync"

	"github.com/slackhq/nebula"
	"github.com/slackhq/nebula/config"
	yaml "go.yaml.in/yaml/v3"
	"verifharness/hlib"
)

var (
	nonMapVals     = []any{"foo", 5, []any{"10.0.0.0/8"}, true}
	badCidrVals    = []string{"10.0.0.0", "10.0.0.0/33", "notacidr", "fd00::/129", "10.0.0.256/8", "fe80::1%eth0/64"}
	nonListVals    = []any{"x", 7, map[string]any{"mask": "192.168.1.0/24", "port": 4242}, nil}
	nonMapItemVals = []any{"192.168.1.0/24", 4242, []any{}, nil}
	maskNonStrVals = []any{24, []any{"192.168.1.0/24"}, true}
	maskBadVals    = []string{"192.168.1.0", "192.168.1.0/40", "garbage", "", "fd00::/-1"}
	portBadStrVals = []string{"abc", "", "80.5", "0x50", " 80", "99999999999999999999"}
	portOtherVals  = []any{80.5, true, []any{80}, uint64(18446744073709551615)}
)

func variant(tok string) int {
	_, v, _ := strings.Cut(tok, ":")
	return hlib.Atoi(v)
}

func prefixText(tok string) string { return hlib.ParsePrefixHex(tok).String() }

type tokens struct {
	t []string
}

func (k *tokens) next() string {
	if len(k.t) == 0 {
		panic("harness: truncated cfg")
	}
	s := k.t[0]
	k.t = k.t[1:]
	return s
}

// parseCfg: (present, value) of lighthouse.calculated_remotes.
func parseCfg(k *tokens) (bool, any) {
	t := k.next()
	switch {
	case strings.HasPrefix(t, "absent:"):
		return variant(t) != 0, nil
	case strings.HasPrefix(t, "nonmap:"):
		return true, nonMapVals[variant(t)]
	case t == "map":
		n := hlib.Atoi(k.next())
		m := map[string]any{}
		for i := 0; i < n; i++ {
			ct := k.next()
			var key string
			if strings.HasPrefix(ct, "badcidr:") {
				key = badCidrVals[variant(ct)]
			} else {
				key = prefixText(ct)
			}
			if _, dup := m[key]; dup {
				panic("harness: duplicate range key " + key)
			}
			m[key] = parseEnt(k)
		}
		return true, m
	}
	panic("harness: bad cfg token " + t)
}

func parseEnt(k *tokens) any {
	t := k.next()
	switch {
	case strings.HasPrefix(t, "nonlist:"):
		return nonListVals[variant(t)]
	case t == "list":
		n := hlib.Atoi(k.next())
		l := []any{}
		for i := 0; i < n; i++ {
			l = append(l, parseItem(k))
		}
		return l
	}
	panic("harness: bad entry token " + t)
}

func parseItem(k *tokens) any {
	t := k.next()
	switch {
	case strings.HasPrefix(t, "nonmapitem:"):
		return nonMapItemVals[variant(t)]
	case t == "e":
		m := map[string]any{}
		mt := k.next()
		switch {
		case strings.HasPrefix(mt, "mmissing:"):
			if variant(mt) != 0 {
				m["mask"] = nil
			}
		case strings.HasPrefix(mt, "mnonstr:"):
			m["mask"] = maskNonStrVals[variant(mt)]
		case strings.HasPrefix(mt, "mbad:"):
			m["mask"] = maskBadVals[variant(mt)]
		default:
			m["mask"] = prefixText(mt)
		}
		pt := k.next()
		switch {
		case strings.HasPrefix(pt, "pmissing:"):
			if variant(pt) != 0 {
				m["port"] = nil
			}
		case strings.HasPrefix(pt, "pother:"):
			m["port"] = portOtherVals[variant(pt)]
		case strings.HasPrefix(pt, "sbad:"):
			m["port"] = portBadStrVals[variant(pt)]
		case strings.HasPrefix(pt, "s"):
			m["port"] = fmt.Sprintf("%d", hlib.Atoi(pt[1:]))
		case strings.HasPrefix(pt, "i"):
			m["port"] = hlib.Atoi(pt[1:])
		default:
			panic("harness: bad port token " + pt)
		}
		return m
	}
	panic("harness: bad item token " + t)
}

var invalidSeq int

func cfgYAML(toks []string, earlierInvalid bool) string {
	k := &tokens{t: toks}
	present, v := parseCfg(k)
	if len(k.t) != 0 {
		panic("harness: trailing cfg tokens")
	}
	lh := map[string]any{"am_lighthouse": false}
	if present {
		lh["calculated_remotes"] = v
	}
	if earlierInvalid {
		// a block LightHouse.reload handles BEFORE calculated_remotes is invalid — with a text that differs from every
		// earlier one, so that HasChanged("lighthouse.remote_allow_list") holds and the block is evaluated
		invalidSeq++
		lh["remote_allow_list"] = map[string]any{fmt.Sprintf("garbage%d", invalidSeq): true}
	}
	y, err := yaml.Marshal(map[string]any{"lighthouse": lh, "listen": map[string]any{"port": 4242}})
	if err != nil {
		panic(err)
	}
	return string(y)
}

// recHandler records log records (message + level) so that the outcome of a reload callback is observable.
type recHandler struct {
	mu   sync.Mutex
	msgs []string
}

func (h *recHandler) Enabled(context.Context, slog.Level) bool { return true }
func (h *recHandler) Handle(_ context.Context, r slog.Record) error {
	h.mu.Lock()
	h.msgs = append(h.msgs, r.Level.String()+" "+r.Message)
	h.mu.Unlock()
	return nil
}
func (h *recHandler) WithAttrs([]slog.Attr) slog.Handler { return h }
func (h *recHandler) WithGroup(string) slog.Handler      { return h }
func (h *recHandler) take() []string {
	h.mu.Lock()
	defer h.mu.Unlock()
	m := h.msgs
	h.msgs = nil
	return m
}

type reloadState struct {
	myNet  netip.Prefix
	log    *recHandler
	c      *config.C
	lh     *nebula.LightHouse
	cancel context.CancelFunc
}

func (s *reloadState) drop() {
	if s.cancel != nil {
		s.cancel()
	}
	s.cancel, s.lh, s.c = nil, nil, nil
}

func (s *reloadState) dump() string {
	entries, ok := nebula.VerifCalcRemoteTable(s.lh)
	if !ok {
		return "nil"
	}
	if len(entries) == 0 {
		return "-"
	}
	sort.Slice(entries, func(i, j int) bool {
		a, b := entries[i].Cidr, entries[j].Cidr
		if c := a.Addr().Compare(b.Addr()); c != 0 {
			return c < 0
		}
		return a.Bits() < b.Bits()
	})
	var out []string
	for _, e := range entries {
		var rs []string
		for _, c := range e.Remotes {
			ipNet, _, port := nebula.VerifCalcRemoteFields(c)
			rs = append(rs, fmt.Sprintf("%s:%d", hlib.PrefixHex(ipNet), port))
		}
		out = append(out, hlib.PrefixHex(e.Cidr)+"="+join2(rs, "+"))
	}
	return strings.Join(out, ";")
}

func join2(l []string, sep string) string {
	if len(l) == 0 {
		return "-"
	}
	return strings.Join(l, sep)
}

func (s *reloadState) exec(a []string) string {
	switch a[0] {
	case "reset":
		s.drop()
		s.myNet = hlib.ParsePrefixHex(a[1])
		return "ok"
	case "cfgload":
		s.drop()
		s.log = &recHandler{}
		l := slog.New(s.log)
		c := config.NewC(l)
		if err := c.LoadString(cfgYAML(a[1:], false)); err != nil {
			return "yamlerr " + err.Error()
		}
		ctx, cancel := context.WithCancel(context.Background())
		lh, err := nebula.VerifCalcRemoteLHFromConfig(ctx, l, c, []netip.Prefix{s.myNet})
		if err != nil {
			cancel()
			if strings.Contains(err.Error(), "lighthouse.calculated_remotes") {
				return "fatal"
			}
			return "fatal:other " + err.Error()
		}
		s.c, s.lh, s.cancel = c, lh, cancel
		return "ok tbl=" + s.dump()
	case "cfgreload", "cfgreloadx":
		if s.lh == nil {
			return "nolh"
		}
		s.log.take()
		if err := s.c.ReloadConfigString(cfgYAML(a[1:], a[0] == "cfgreloadx")); err != nil {
			return "yamlerr " + err.Error()
		}
		outcome := "unchanged"
		for _, m := range s.log.take() {
			switch {
			case strings.Contains(m, "Invalid lighthouse.remote_allow_list"):
				outcome = "earlier-err"
			case strings.Contains(m, "lighthouse.calculated_remotes has changed"):
				outcome = "changed"
			case strings.Contains(m, "Invalid lighthouse.calculated_remotes"):
				outcome = "err"
			case strings.HasPrefix(m, "ERROR"):
				outcome = "err:other"
			}
		}
		return outcome + " tbl=" + s.dump()
	case "probe":
		if s.lh == nil {
			return "nolh"
		}
		vpn := hlib.ParseAddrHex(a[1])
		return guarded(func() string {
			added, v4, v6 := nebula.VerifCalcRemoteProbe(s.lh, vpn)
			var s4, s6 []string
			for _, x := range v4 {
				s4 = append(s4, fmt.Sprintf("%d:%d", x.Addr, x.Port))
			}
			for _, x := range v6 {
				s6 = append(s6, fmt.Sprintf("%d:%d:%d", x.Hi, x.Lo, x.Port))
			}
			return fmt.Sprintf("%s v4=%s v6=%s", hlib.B(added), join(s4), join(s6))
		})
	}
	return "bad-op"
}

// ---- generator

// reloadWitnesses: deterministic histories (independent of the random stream): a section is loaded, a reload
// removes the key (missing / null), removes one of two ranges, or replaces the section by an empty map, and
// addresses of the removed ranges are probed; both families; initial load and reload variants.
func reloadWitnesses(emit func(string, ...any)) {
	// load-with-section -> reload-without-key -> probe
	emit("reset 64400000/10")
	emit("cfgload map 1 0a801400/24 list 1 e ac100500/24 i4300")
	emit("probe 0a801463")
	emit("cfgreload absent:0")
	emit("probe 0a801463")
	emit("probe 0a801563")
	// the key set to null; the section introduced by a reload rather than the initial load
	emit("reset 64400000/10")
	emit("cfgload absent:0")
	emit("probe 0a801463")
	emit("cfgreload map 1 0a801400/24 list 2 e ac100500/24 i4300 e c0a80000/16 s4301")
	emit("probe 0a801463")
	emit("cfgreload absent:1")
	emit("probe 0a801463")
	// a range removed, another kept
	emit("reset 64400000/10")
	emit("cfgload map 2 0a801400/24 list 1 e ac100500/24 i4300 0a000000/8 list 1 e c0a80000/16 i4301")
	emit("probe 0a801463")
	emit("probe 0a010203")
	emit("cfgreload map 1 0a801400/24 list 1 e ac100500/24 i4300")
	emit("probe 0a801463")
	emit("probe 0a010203")
	emit("cfgreload map 1 0a000000/8 list 1 e c0a80000/16 i4301")
	emit("probe 0a801463")
	emit("probe 0a010203")
	// key -> empty map -> key removed -> key again
	emit("reset 64400000/10")
	emit("cfgload map 1 0a801400/24 list 1 e ac100500/24 i4300")
	emit("cfgreload map 0")
	emit("probe 0a801463")
	emit("cfgreload absent:0")
	emit("probe 0a801463")
	emit("cfgreload map 1 0a801400/24 list 1 e ac100500/24 i4300")
	emit("probe 0a801463")
	// invalid reload keeps the previous table; the same invalid text again; then removed
	emit("reset 64400000/10")
	emit("cfgload map 1 0a801400/24 list 1 e ac100500/24 i4300")
	emit("cfgreload map 1 0a801400/24 list 1 e ac100500/24 i70000")
	emit("probe 0a801463")
	emit("cfgreload map 1 0a801400/24 list 1 e ac100500/24 i70000")
	emit("probe 0a801463")
	emit("cfgreload map 2 0a801400/24 list 1 e ac100600/24 i4300 badcidr:0 list 0")
	emit("probe 0a801463")
	emit("cfgreload absent:0")
	emit("probe 0a801463")
	// a reload that fails in an earlier block of LightHouse.reload, then the corrected file with the same section
	// (known finding stale-after-failed-reload), then a further change
	emit("reset 64400000/10")
	emit("cfgload map 1 0a801400/24 list 1 e ac100500/24 i4300")
	emit("cfgreloadx map 1 0a801e00/24 list 1 e ac100600/24 i4301")
	emit("probe 0a801463")
	emit("cfgreload map 1 0a801e00/24 list 1 e ac100600/24 i4301")
	emit("probe 0a801463")
	emit("probe 0a801e63")
	emit("cfgreload absent:0")
	emit("probe 0a801463")
	// … with the section unchanged by the failing reload, and with the key removed by it
	emit("reset 64400000/10")
	emit("cfgload map 1 0a801400/24 list 1 e ac100500/24 i4300")
	emit("cfgreloadx map 1 0a801400/24 list 1 e ac100500/24 i4300")
	emit("cfgreload map 1 0a801400/24 list 1 e ac100500/24 i4300")
	emit("probe 0a801463")
	emit("cfgreloadx absent:0")
	emit("cfgreload absent:0")
	emit("probe 0a801463")
	// invalid initial load: no lighthouse
	emit("reset 64400000/10")
	emit("cfgload nonmap:0")
	emit("cfgreload absent:0")
	emit("probe 0a801463")
	// IPv6
	emit("reset fe800000000000000000000000000000/10")
	emit("cfgload map 1 fd000000000000000000000000000000/8 list 1 e 20010db8000000000000000000000000/32 i4242")
	emit("probe fd000000000000000000000000000001")
	emit("cfgreload absent:0")
	emit("probe fd000000000000000000000000000001")
}

type cfgPool struct {
	v6     bool
	ranges []netip.Prefix // distinct after masking
}

func newPool(r *hlib.Rand) *cfgPool {
	p := &cfgPool{v6: r.Bool()}
	seen := map[netip.Prefix]bool{}
	n := 2 + r.Intn(4)
	for len(p.ranges) < n {
		ev6 := p.v6
		if r.Chance(1, 8) {
			ev6 = !p.v6
		}
		c := randPrefix(r, ev6)
		if c.Bits() == 0 && r.Bool() {
			c = netip.PrefixFrom(c.Addr(), 1+r.Intn(16))
		}
		if len(p.ranges) > 0 && r.Chance(2, 3) { // nest inside an earlier one of the same family
			base := p.ranges[r.Intn(len(p.ranges))]
			if base.Addr().Is6() == ev6 {
				w := base.Addr().BitLen()
				c = netip.PrefixFrom(addrIn(r, base), base.Bits()+r.Intn(w-base.Bits()+1))
			}
		}
		if seen[c.Masked()] {
			continue
		}
		seen[c.Masked()] = true
		p.ranges = append(p.ranges, c)
	}
	return p
}

func genMask(r *hlib.Rand, v6 bool) string {
	return hlib.PrefixHex(randPrefix(r, v6))
}

func genPortTok(r *hlib.Rand) string {
	switch r.Intn(8) {
	case 0:
		return fmt.Sprintf("s%d", r.Intn(65536))
	case 1:
		return fmt.Sprintf("i%d", hlib.Pick(r, 0, 1, 65535, 65534))
	}
	return fmt.Sprintf("i%d", r.Intn(65536))
}

// genCfg returns the tokens of one configuration value; with badOK about a quarter are invalid, one invalid
// shape each (every error return of the three FromConfig functions and of newCalculatedRemote).
func genCfg(r *hlib.Rand, p *cfgPool, badOK bool) string {
	switch r.Intn(20) {
	case 0, 1, 2:
		return fmt.Sprintf("absent:%d", hlib.Pick(r, 0, 0, 1))
	case 3, 4:
		return "map 0"
	case 5:
		if badOK {
			return fmt.Sprintf("nonmap:%d", r.Intn(len(nonMapVals)))
		}
	}
	// a map of 1..len(ranges) ranges of the pool
	n := 1
	if r.Chance(3, 5) {
		n = 1 + r.Intn(len(p.ranges))
	}
	perm := randPerm(r, len(p.ranges))[:n]
	sort.Ints(perm) // one canonical order per subset, so that "the same section again" is the same text
	bad := 0
	if badOK && r.Chance(1, 4) {
		bad = 1 + r.Intn(11)
	}
	badAt := r.Intn(n)
	var sb strings.Builder
	cnt := 0
	for i, ri := range perm {
		c := p.ranges[ri]
		v6 := c.Addr().Is6()
		isBad := bad != 0 && i == badAt
		if isBad && bad == 1 {
			fmt.Fprintf(&sb, " badcidr:%d list 0", r.Intn(len(badCidrVals)))
			cnt++
			continue
		}
		fmt.Fprintf(&sb, " %s", hlib.PrefixHex(c))
		cnt++
		if isBad && bad == 2 {
			fmt.Fprintf(&sb, " nonlist:%d", r.Intn(len(nonListVals)))
			continue
		}
		k := hlib.Pick(r, 0, 1, 1, 1, 2, 3, 11)
		if isBad && k == 0 {
			k = 1
		}
		badItem := r.Intn(max(k, 1))
		fmt.Fprintf(&sb, " list %d", k)
		for j := 0; j < k; j++ {
			if !isBad || j != badItem {
				fmt.Fprintf(&sb, " e %s %s", genMask(r, v6), genPortTok(r))
				continue
			}
			switch bad {
			case 3:
				fmt.Fprintf(&sb, " nonmapitem:%d", r.Intn(len(nonMapItemVals)))
			case 4:
				fmt.Fprintf(&sb, " e mmissing:%d %s", r.Intn(2), genPortTok(r))
			case 5:
				fmt.Fprintf(&sb, " e mnonstr:%d %s", r.Intn(len(maskNonStrVals)), genPortTok(r))
			case 6:
				fmt.Fprintf(&sb, " e mbad:%d %s", r.Intn(len(maskBadVals)), genPortTok(r))
			case 7:
				fmt.Fprintf(&sb, " e %s pmissing:%d", genMask(r, v6), r.Intn(2))
			case 8:
				fmt.Fprintf(&sb, " e %s pother:%d", genMask(r, v6), r.Intn(len(portOtherVals)))
			case 9:
				fmt.Fprintf(&sb, " e %s sbad:%d", genMask(r, v6), r.Intn(len(portBadStrVals)))
			case 10: // port out of range (int or string)
				fmt.Fprintf(&sb, " e %s %s%d", genMask(r, v6), hlib.Pick(r, "i", "s"), hlib.Pick(r, -1, 65536, 70000, 1<<32+4242, -65536))
			default: // mask of the other family
				fmt.Fprintf(&sb, " e %s %s", genMask(r, !v6), genPortTok(r))
			}
		}
	}
	return fmt.Sprintf("map %d%s", cnt, sb.String())
}

// genHistory: reset, initial load, 1..4 reloads, probes after each step inside/outside the ranges of the pool.
func genHistory(r *hlib.Rand, emit func(string, ...any)) {
	p := newPool(r)
	my := netip.PrefixFrom(randAddr(r, p.v6), hlib.Pick(r, 8, 10, 16, 24))
	if r.Chance(1, 4) {
		my = randPrefix(r, p.v6)
	}
	emit("reset %s", hlib.PrefixHex(my))
	probes := func() {
		for k := 1 + r.Intn(3); k > 0; k-- {
			a := randAddr(r, p.v6)
			if r.Chance(5, 6) {
				a = addrIn(r, p.ranges[r.Intn(len(p.ranges))])
			}
			emit("probe %s", hlib.AddrHex(a))
		}
	}
	prev := genCfg(r, p, r.Chance(1, 5)) // the initial load mostly succeeds (otherwise there is no lighthouse)
	emit("cfgload %s", prev)
	probes()
	for k := 1 + r.Intn(4); k > 0; k-- {
		c := genCfg(r, p, true)
		if r.Chance(1, 6) {
			c = prev // the same section again: HasChanged is false
		}
		if r.Chance(1, 25) {
			emit("cfgload %s", c) // a restart
		} else if r.Chance(1, 10) {
			// the reload fails in an earlier block; mostly followed by the corrected file with the same section
			emit("cfgreloadx %s", c)
			probes()
			if r.Chance(3, 4) {
				emit("cfgreload %s", c)
			}
		} else {
			emit("cfgreload %s", c)
		}
		prev = c
		probes()
	}
}

func randPerm(r *hlib.Rand, n int) []int {
	p := make([]int, n)
	for i := range p {
		p[i] = i
	}
	for i := n - 1; i > 0; i-- {
		j := r.Intn(i + 1)
		p[i], p[j] = p[j], p[i]
	}
	return p
}

func max(a, b int) int {
	if a > b {
		return a
	}
	return b
}
