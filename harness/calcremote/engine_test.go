// Engine `calcremote` (C48): newCalculatedRemote / ApplyV4 / ApplyV6 / LightHouse.addCalculatedRemotes.
package calcremote

import (
	"fmt"
	"net/netip"
	"strings"
	"testing"

	"github.com/slackhq/nebula"
	"verifharness/hlib"
)

func randAddr(r *hlib.Rand, v6 bool) netip.Addr {
	n := 4
	if v6 {
		n = 16
	}
	b := make([]byte, n)
	switch r.Intn(6) {
	case 0: // all zero
	case 1:
		for i := range b {
			b[i] = 0xff
		}
	case 2: // one bit
		b[r.Intn(n)] = 1 << uint(r.Intn(8))
	case 3: // alternating
		for i := range b {
			b[i] = hlib.Pick(r, byte(0xaa), byte(0x55))
		}
	default:
		copy(b, r.Bytes(n))
	}
	if v6 {
		if r.Chance(1, 12) { // 4-in-6
			for i := 0; i < 10; i++ {
				b[i] = 0
			}
			b[10], b[11] = 0xff, 0xff
		}
		return netip.AddrFrom16([16]byte(b))
	}
	return netip.AddrFrom4([4]byte(b))
}

func randLen(r *hlib.Rand, v6 bool) int {
	w := 32
	if v6 {
		w = 128
	}
	switch r.Intn(5) {
	case 0:
		return hlib.Pick(r, 0, 1, w-1, w)
	case 1:
		return 8 * r.Intn(w/8+1)
	case 2:
		if v6 {
			return hlib.Pick(r, 63, 64, 65, 95, 96, 97)
		}
		return hlib.Pick(r, 7, 8, 9, 23, 24, 25)
	}
	return r.Intn(w + 1)
}

func randPrefix(r *hlib.Rand, v6 bool) netip.Prefix {
	return netip.PrefixFrom(randAddr(r, v6), randLen(r, v6))
}

func randPort(r *hlib.Rand) int {
	switch r.Intn(10) {
	case 0:
		return hlib.Pick(r, -1, 65536, -65536, 1<<31, -(1 << 31), 1<<32+4242, 70000)
	case 1:
		return hlib.Pick(r, 0, 1, 65535, 65534)
	}
	return r.Intn(65536)
}

// addrIn returns an address inside p (random host bits).
func addrIn(r *hlib.Rand, p netip.Prefix) netip.Addr {
	a := randAddr(r, p.Addr().Is6())
	ab := a.AsSlice()
	pb := p.Addr().AsSlice()
	for i := 0; i < p.Bits(); i++ {
		m := byte(0x80 >> uint(i%8))
		ab[i/8] = (ab[i/8] &^ m) | (pb[i/8] & m)
	}
	out, _ := netip.AddrFromSlice(ab)
	return out
}

// hostBitsFamily: deterministic cases (independent of the random stream) in which the configured mask address
// has non-zero bits outside its prefix length (e.g. `mask: 192.168.1.77/24`): constructor fields, Apply and
// addCalculatedRemotes for both families and several lengths.
func hostBitsFamily(emit func(string, ...any)) {
	emit("new 0a000a00/24 c0a8014d/24 4242")
	emit("v4 0a000a00/24 c0a8014d/24 4242 0a000ab6")
	emit("add 0a000000/8 0a000ab6 1 0a000a00/24 1 c0a8014d/24 4242")
	for _, l := range []int{0, 1, 7, 8, 9, 16, 23, 24, 25, 31, 32} {
		emit("v4 0a000000/8 ffffffff/%d 80 00000000", l)
		emit("v4 0a000000/8 a5a5a5a5/%d 80 5a5a5a5a", l)
		emit("new 0a000000/8 a5a5a5a5/%d 80", l)
		emit("add 64400000/10 0a000001 1 0a000000/8 2 ffffffff/%d 80 a5a5a5a5/%d 81", l, l)
	}
	for _, l := range []int{0, 1, 63, 64, 65, 96, 120, 127, 128} {
		emit("v6 fd000000000000000000000000000000/8 ffffffffffffffffffffffffffffffff/%d 80 00000000000000000000000000000000", l)
		emit("v6 fd000000000000000000000000000000/8 a5a5a5a5a5a5a5a5a5a5a5a5a5a5a5a5/%d 80 fd5a5a5a5a5a5a5a5a5a5a5a5a5a5a5a", l)
		emit("new fd000000000000000000000000000000/8 a5a5a5a5a5a5a5a5a5a5a5a5a5a5a5a5/%d 80", l)
		emit("add fe800000000000000000000000000000/10 fd000000000000000000000000000001 1 fd000000000000000000000000000000/8 1 ffffffffffffffffffffffffffffffff/%d 80", l)
	}
}

func gen(r *hlib.Rand, n int, tier, profile string, emit func(string, ...any)) {
	hostBitsFamily(emit)
	reloadWitnesses(emit)
	if tier == "thorough" {
		// every mask length of both families against fixed bit patterns
		for _, v6 := range []bool{false, true} {
			w := 32
			if v6 {
				w = 128
			}
			for l := 0; l <= w; l++ {
				for k := 0; k < 4; k++ {
					m := netip.PrefixFrom(randAddr(r, v6), l)
					op := "v4"
					if v6 {
						op = "v6"
					}
					emit("%s %s %s %d %s", op, hlib.PrefixHex(randPrefix(r, v6)), hlib.PrefixHex(m), r.Intn(65536), hlib.AddrHex(randAddr(r, v6)))
				}
			}
		}
	}
	for i := 0; i < n; i++ {
		if r.Chance(1, 8) {
			// a history of configuration loads/reloads and probes (reload_test.go); about as many op lines as the
			// stateless cases around it
			genHistory(r, emit)
			i += 6
			continue
		}
		switch r.Intn(10) {
		case 0, 1:
			cv6, mv6 := r.Bool(), r.Bool()
			if r.Chance(2, 3) {
				mv6 = cv6
			}
			emit("new %s %s %d", hlib.PrefixHex(randPrefix(r, cv6)), hlib.PrefixHex(randPrefix(r, mv6)), randPort(r))
		case 2, 3, 4, 5:
			v6 := r.Bool()
			cv6, mv6, av6 := v6, v6, v6
			if r.Chance(1, 8) {
				cv6, mv6, av6 = r.Bool(), r.Bool(), r.Bool()
			}
			op := "v4"
			if v6 {
				op = "v6"
			}
			port := r.Intn(65536)
			if r.Chance(1, 10) {
				port = randPort(r)
			}
			emit("%s %s %s %d %s", op, hlib.PrefixHex(randPrefix(r, cv6)), hlib.PrefixHex(randPrefix(r, mv6)), port, hlib.AddrHex(randAddr(r, av6)))
		default:
			// a configuration of 0..4 ranges (distinct after masking), mostly of the family of the
			// overlay address, nested on purpose; the overlay address mostly inside one of them
			v6 := r.Bool()
			nent := hlib.Pick(r, 0, 1, 1, 2, 3, 4)
			var sb strings.Builder
			seen := map[netip.Prefix]bool{}
			var cidrs []netip.Prefix
			cnt := 0
			for e := 0; e < nent; e++ {
				ev6 := v6
				if r.Chance(1, 6) {
					ev6 = !v6
				}
				c := randPrefix(r, ev6)
				if len(cidrs) > 0 && r.Bool() { // nest inside an earlier one of the same family
					base := cidrs[r.Intn(len(cidrs))]
					if base.Addr().Is6() == ev6 {
						w := base.Addr().BitLen()
						c = netip.PrefixFrom(addrIn(r, base), base.Bits()+r.Intn(w-base.Bits()+1))
					}
				}
				if seen[c.Masked()] {
					continue
				}
				seen[c.Masked()] = true
				cidrs = append(cidrs, c)
				k := hlib.Pick(r, 0, 1, 1, 2, 3, 10, 11, 13)
				fmt.Fprintf(&sb, " %s %d", hlib.PrefixHex(c), k)
				for j := 0; j < k; j++ {
					fmt.Fprintf(&sb, " %s %d", hlib.PrefixHex(randPrefix(r, ev6)), r.Intn(65536))
				}
				cnt++
			}
			my := randPrefix(r, v6)
			if r.Chance(1, 2) {
				my = netip.PrefixFrom(randAddr(r, v6), hlib.Pick(r, 1, 2, 8, 16))
			}
			a := randAddr(r, v6)
			if len(cidrs) > 0 && r.Chance(4, 5) {
				a = addrIn(r, cidrs[r.Intn(len(cidrs))])
			}
			emit("add %s %s %d%s", hlib.PrefixHex(my), hlib.AddrHex(a), cnt, sb.String())
		}
	}
}

func newCR(cidr, mask string, port string) (*nebula.VerifCalcRemote, string) {
	c, err := nebula.VerifNewCalculatedRemote(hlib.ParsePrefixHex(cidr), hlib.ParsePrefixHex(mask), hlib.Atoi(port))
	if err != nil {
		switch {
		case strings.HasPrefix(err.Error(), "invalid mask"):
			return nil, "err:family"
		case strings.HasPrefix(err.Error(), "invalid port"):
			return nil, "err:port"
		}
		return nil, "err:other"
	}
	return c, ""
}

func guarded(f func() string) (res string) {
	defer func() {
		if recover() != nil {
			res = "panic"
		}
	}()
	return f()
}

func join(l []string) string {
	if len(l) == 0 {
		return "-"
	}
	return strings.Join(l, ",")
}

func newExec(t *testing.T) func([]string) string {
	rs := &reloadState{}
	return func(a []string) string {
		switch a[0] {
		case "reset", "cfgload", "cfgreload", "cfgreloadx", "probe":
			return rs.exec(a)
		case "new":
			c, e := newCR(a[1], a[2], a[3])
			if c == nil {
				return e
			}
			ipNet, mask, port := nebula.VerifCalcRemoteFields(c)
			return fmt.Sprintf("ok %s %s %d", hlib.PrefixHex(ipNet), hlib.PrefixHex(mask), port)
		case "v4":
			c, e := newCR(a[1], a[2], a[3])
			if c == nil {
				return e
			}
			return guarded(func() string {
				r := c.ApplyV4(hlib.ParseAddrHex(a[4]))
				return fmt.Sprintf("%d %d", r.Addr, r.Port)
			})
		case "v6":
			c, e := newCR(a[1], a[2], a[3])
			if c == nil {
				return e
			}
			return guarded(func() string {
				r := c.ApplyV6(hlib.ParseAddrHex(a[4]))
				return fmt.Sprintf("%d %d %d", r.Hi, r.Lo, r.Port)
			})
		case "add":
			my := hlib.ParsePrefixHex(a[1])
			vpn := hlib.ParseAddrHex(a[2])
			n := hlib.Atoi(a[3])
			rest := a[4:]
			var entries []nebula.VerifCalcRemoteEntry
			for i := 0; i < n; i++ {
				cidr := rest[0]
				k := hlib.Atoi(rest[1])
				rest = rest[2:]
				e := nebula.VerifCalcRemoteEntry{Cidr: hlib.ParsePrefixHex(cidr)}
				for j := 0; j < k; j++ {
					c, _ := newCR(cidr, rest[0], rest[1])
					if c == nil {
						return "err:new"
					}
					e.Remotes = append(e.Remotes, c)
					rest = rest[2:]
				}
				entries = append(entries, e)
			}
			return guarded(func() string {
				lh := nebula.VerifCalcRemoteLightHouse(my, entries)
				added, v4, v6 := nebula.VerifAddCalculatedRemotes(lh, vpn)
				var s4, s6 []string
				for _, x := range v4 {
					s4 = append(s4, fmt.Sprintf("%d:%d", x.Addr, x.Port))
				}
				for _, x := range v6 {
					s6 = append(s6, fmt.Sprintf("%d:%d:%d", x.Hi, x.Lo, x.Port))
				}
				return fmt.Sprintf("%s v4=%s v6=%s", hlib.B(added), join(s4), join(s6))
			})
		}
		return "bad-op"
	}
}

func TestEngine(t *testing.T) {
	hlib.Run(t, hlib.Engine{Name: "calcremote", Gen: gen, NewExec: newExec})
}
