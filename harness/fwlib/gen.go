package fwlib

import (
	"encoding/binary"
	"net/netip"

	"github.com/slackhq/nebula/firewall"
	"verifharness/hlib"
)

// World is one generated scenario: this node, its peers, the CA pool and a rule list.
type World struct {
	My     *Cert
	DLCA   bool
	Peers  []*Cert
	CAs    [][2]string
	Rules  []Rule
	V6     bool
	Remote []netip.Addr // interesting remote addresses
	Local  []netip.Addr // interesting local addresses
	Probes []Probe      // packets aimed at groups of nested / overlapping rules
}

// Probe is a packet for one peer that was built together with a group of rules.
type Probe struct {
	Peer     int
	P        firewall.Packet
	Incoming bool
}

func addrFromU(v6 bool, hi, lo uint64) netip.Addr {
	if !v6 {
		var b [4]byte
		binary.BigEndian.PutUint32(b[:], uint32(lo))
		return netip.AddrFrom4(b)
	}
	var b [16]byte
	binary.BigEndian.PutUint64(b[:8], hi)
	binary.BigEndian.PutUint64(b[8:], lo)
	return netip.AddrFrom16(b)
}

func addrToU(a netip.Addr) (hi, lo uint64) {
	if a.Is4() {
		b := a.As4()
		return 0, uint64(binary.BigEndian.Uint32(b[:]))
	}
	b := a.As16()
	return binary.BigEndian.Uint64(b[:8]), binary.BigEndian.Uint64(b[8:])
}

// RandAddr draws an address of the family; v6 addresses stay in fd00::/8 or are fully random.
func RandAddr(r *hlib.Rand, v6 bool) netip.Addr {
	if !v6 {
		if r.Chance(3, 4) {
			return addrFromU(false, 0, uint64(10)<<24|uint64(r.Intn(4))<<16|uint64(r.Intn(4))<<8|uint64(r.Intn(256)))
		}
		return addrFromU(false, 0, r.U64()&0xffffffff)
	}
	if r.Chance(3, 4) {
		return addrFromU(true, 0xfd00000000000000|uint64(r.Intn(4))<<32, uint64(r.Intn(1024)))
	}
	return addrFromU(true, r.U64(), r.U64())
}

// AddrIn draws an address inside p (host bits random, sometimes all-zero / all-one).
func AddrIn(r *hlib.Rand, p netip.Prefix) netip.Addr {
	a := p.Masked().Addr()
	bl := a.BitLen()
	hi, lo := addrToU(a)
	host := bl - p.Bits()
	var rhi, rlo uint64
	switch r.Intn(4) {
	case 0:
		rhi, rlo = 0, 0
	case 1:
		rhi, rlo = ^uint64(0), ^uint64(0)
	default:
		rhi, rlo = r.U64(), r.U64()
	}
	var mhi, mlo uint64 // mask of host bits
	if host >= 64 {
		mlo = ^uint64(0)
		if host >= 128 {
			mhi = ^uint64(0)
		} else {
			mhi = (uint64(1) << uint(host-64)) - 1
		}
	} else {
		mlo = (uint64(1) << uint(host)) - 1
	}
	if !a.Is6() {
		mhi = 0
		mlo &= 0xffffffff
	}
	return addrFromU(a.Is6(), hi|(rhi&mhi), lo|(rlo&mlo))
}

// Edge returns an address just outside p (one below the first or one above the last), or inside at an edge.
func Edge(r *hlib.Rand, p netip.Prefix) netip.Addr {
	first := p.Masked().Addr()
	last := lastIn(p)
	switch r.Intn(4) {
	case 0:
		return first
	case 1:
		return last
	case 2:
		if pv := first.Prev(); pv.IsValid() {
			return pv
		}
		return first
	default:
		if nx := last.Next(); nx.IsValid() {
			return nx
		}
		return last
	}
}

func lastIn(p netip.Prefix) netip.Addr {
	a := p.Masked().Addr()
	hi, lo := addrToU(a)
	host := a.BitLen() - p.Bits()
	if a.Is4() {
		if host >= 32 {
			return addrFromU(false, 0, 0xffffffff)
		}
		return addrFromU(false, 0, lo|((uint64(1)<<uint(host))-1))
	}
	if host >= 128 {
		return addrFromU(true, ^uint64(0), ^uint64(0))
	}
	if host >= 64 {
		return addrFromU(true, hi|((uint64(1)<<uint(host-64))-1), ^uint64(0))
	}
	return addrFromU(true, hi, lo|((uint64(1)<<uint(host))-1))
}

// RandPrefixAround gives a prefix (not necessarily masked) that contains a, of a random length.
func RandPrefixAround(r *hlib.Rand, a netip.Addr) netip.Prefix {
	bl := a.BitLen()
	var bits int
	switch r.Intn(5) {
	case 0:
		bits = bl
	case 1:
		bits = 0
	case 2:
		bits = bl - 1 - r.Intn(8)
	default:
		bits = r.Range(1, bl)
	}
	p := netip.PrefixFrom(a, bits)
	if r.Bool() {
		p = p.Masked()
	}
	return p
}

var groupNames = []string{"g1", "g2", "g3"}
var hostNames = []string{"h1", "h2", "h3"}
var issuers = []string{"ca1", "ca2", "ca3"}
var caNames = []string{"caA", "caB"}

func subset(r *hlib.Rand, xs []string, max int) []string {
	var out []string
	for _, x := range xs {
		if len(out) < max && r.Chance(2, 5) {
			out = append(out, x)
		}
	}
	return out
}

// GenWorld draws a scenario. nRules bounds the rule list.
func GenWorld(r *hlib.Rand, maxRules int) *World {
	w := &World{}
	w.V6 = r.Chance(1, 4)
	dual := r.Chance(1, 8)
	fam := func() bool {
		if dual {
			return r.Bool()
		}
		return w.V6
	}
	w.DLCA = r.Chance(1, 4)
	// this node
	w.My = &Cert{CName: "me", CIssuer: "ca1"}
	nMy := hlib.Pick(r, 1, 1, 1, 2)
	for i := 0; i < nMy; i++ {
		v6 := fam()
		a := RandAddr(r, v6)
		bits := hlib.Pick(r, 8, 16, 24, 30)
		if v6 {
			bits = hlib.Pick(r, 8, 48, 64, 120)
		}
		w.My.CNets = append(w.My.CNets, netip.PrefixFrom(a, bits))
	}
	if r.Chance(1, 2) {
		for i := r.Range(1, 2); i > 0; i-- {
			w.My.CUnsafe = append(w.My.CUnsafe, RandPrefixAround(r, RandAddr(r, fam())).Masked())
		}
	}
	// peers
	nPeers := r.Range(1, 3)
	for i := 0; i < nPeers; i++ {
		c := &Cert{CName: hlib.Pick(r, hostNames...), CGroups: subset(r, groupNames, 3), CIssuer: hlib.Pick(r, "ca1", "ca1", "ca2", "ca3", "")}
		if r.Chance(1, 10) {
			c.CGroups = append(c.CGroups, "any")
		}
		nNets := hlib.Pick(r, 1, 1, 1, 2, 3)
		for j := 0; j < nNets; j++ {
			mine := w.My.CNets[r.Intn(len(w.My.CNets))]
			var a netip.Addr
			if r.Chance(3, 4) {
				a = AddrIn(r, mine)
			} else {
				a = RandAddr(r, mine.Addr().Is6())
			}
			bits := mine.Bits()
			// the peer's certified prefix need not have this node's mask: supernets of the node's network (with
			// the address inside or outside it), subnets, and prefixes that merely overlap
			switch r.Intn(6) {
			case 0: // shorter mask covering this node's network, the address outside it
				if mine.Bits() > 1 {
					bits = r.Range(0, mine.Bits()-1)
					sup := netip.PrefixFrom(mine.Addr(), bits).Masked()
					for k := 0; k < 8; k++ {
						a = AddrIn(r, sup)
						if !mine.Contains(a) {
							break
						}
					}
				}
			case 1: // shorter mask, the address wherever it was drawn
				if mine.Bits() > 1 {
					bits = r.Range(0, mine.Bits()-1)
				}
			case 2: // longer mask
				bits = r.Range(mine.Bits(), a.BitLen())
			}
			c.CNets = append(c.CNets, netip.PrefixFrom(a, bits))
		}
		if r.Chance(2, 5) {
			for j := r.Range(1, 2); j > 0; j-- {
				var u netip.Prefix
				switch r.Intn(5) {
				case 0: // exactly one of its own addresses (same key as the address entry)
					a := c.CNets[r.Intn(len(c.CNets))].Addr()
					u = netip.PrefixFrom(a, a.BitLen())
				case 1: // around one of its own addresses
					u = RandPrefixAround(r, c.CNets[r.Intn(len(c.CNets))].Addr()).Masked()
				default:
					u = RandPrefixAround(r, RandAddr(r, fam())).Masked()
				}
				c.CUnsafe = append(c.CUnsafe, u)
			}
		}
		w.Peers = append(w.Peers, c)
	}
	// CA pool
	if r.Chance(9, 10) {
		w.CAs = append(w.CAs, [2]string{"ca1", "caA"})
	}
	if r.Chance(1, 2) {
		w.CAs = append(w.CAs, [2]string{"ca2", hlib.Pick(r, "caB", "caA")})
	}
	// interesting addresses
	for _, n := range w.My.CNets {
		w.Local = append(w.Local, n.Addr(), AddrIn(r, n))
	}
	for _, n := range w.My.CUnsafe {
		w.Local = append(w.Local, AddrIn(r, n), Edge(r, n))
	}
	for _, p := range w.Peers {
		for _, n := range p.CNets {
			w.Remote = append(w.Remote, n.Addr())
		}
		for _, n := range p.CUnsafe {
			w.Remote = append(w.Remote, AddrIn(r, n), Edge(r, n))
		}
	}
	// rules
	nRules := r.Range(0, maxRules)
	for i := 0; i < nRules; i++ {
		w.Rules = append(w.Rules, w.GenRule(r))
	}
	// groups of rules that share a bucket (direction, protocol, port, CA) and whose CIDR-valued selectors are
	// nested: the table must honour every one of them, not only the most specific
	if maxRules > 0 {
		for k := hlib.Pick(r, 0, 1, 1, 2); k > 0; k-- {
			w.AddNested(r)
		}
	}
	for i := len(w.Rules) - 1; i > 0; i-- {
		j := r.Intn(i + 1)
		w.Rules[i], w.Rules[j] = w.Rules[j], w.Rules[i]
	}
	return w
}

// otherAddr is an address of the family that differs from a (for a CIDR that must not contain a).
func otherAddr(r *hlib.Rand, a netip.Addr) netip.Addr {
	for {
		b := RandAddr(r, a.Is6())
		if b != a {
			return b
		}
	}
}

// AddNested appends 2–3 rules in one bucket whose remote CIDRs (or local CIDRs) are nested around an address the
// peer may use, the narrower ones carrying the more restrictive other selector, and probes that only the broader
// rule accepts (and some that every / no rule accepts).
func (w *World) AddNested(r *hlib.Rand) {
	pi := r.Intn(len(w.Peers))
	peer := w.Peers[pi]
	// a remote address that can pass the address check
	remote := peer.CNets[r.Intn(len(peer.CNets))].Addr()
	for k := 0; k < 4 && !w.inMine(remote); k++ {
		remote = peer.CNets[r.Intn(len(peer.CNets))].Addr()
	}
	if len(peer.CUnsafe) > 0 && r.Chance(1, 4) {
		remote = AddrIn(r, peer.CUnsafe[r.Intn(len(peer.CUnsafe))])
	}
	// local addresses that can pass the address check: own addresses, and inside own unsafe networks
	locals := []netip.Addr{}
	for _, n := range w.My.CNets {
		if n.Addr().Is6() == remote.Is6() {
			locals = append(locals, n.Addr())
		}
	}
	for _, n := range w.My.CUnsafe {
		if n.Addr().Is6() == remote.Is6() {
			locals = append(locals, AddrIn(r, n), AddrIn(r, n))
		}
	}
	if len(locals) == 0 {
		return
	}
	local := locals[r.Intn(len(locals))]
	base := Rule{Incoming: r.Chance(2, 3), Proto: hlib.Pick(r, uint8(0), 6, 17, 1)}
	switch r.Intn(4) {
	case 0:
		base.Start, base.End = 0, 0
	case 1:
		p := hlib.Pick(r, ports...)
		base.Start, base.End = p, p+int32(r.Intn(3))
		if base.End > 65535 {
			base.End = 65535
		}
	default:
		p := hlib.Pick(r, ports...)
		base.Start, base.End = p, p
	}
	if r.Chance(1, 5) {
		base.CASha = peer.CIssuer
	}
	bl := remote.BitLen()
	mk := func(a netip.Addr, bits int) string {
		p := netip.PrefixFrom(a, bits)
		if r.Bool() {
			p = p.Masked()
		}
		return p.String()
	}
	// restrictive local selectors: a prefix that does not contain `local`, or (when this node has unsafe networks and
	// no default_local_cidr_any) the implicit default = own networks, which an address in an unsafe network misses
	restrictive := func() string {
		if len(w.My.CUnsafe) > 0 && !w.DLCA && r.Chance(1, 2) {
			return ""
		}
		o := otherAddr(r, local)
		return mk(o, o.BitLen()-r.Intn(3))
	}
	permissive := func() string {
		switch r.Intn(3) {
		case 0:
			return "any"
		case 1:
			return mk(local, r.Range(0, local.BitLen()))
		}
		if len(w.My.CUnsafe) == 0 || w.DLCA {
			return ""
		}
		return "any"
	}
	var group []Rule
	if r.Chance(3, 4) {
		// nested remote CIDRs, 2 or 3 levels, the broadest permissive
		levels := hlib.Pick(r, 2, 2, 3)
		bits := make([]int, levels)
		bits[0] = r.Range(0, bl-levels)
		for i := 1; i < levels; i++ {
			bits[i] = r.Range(bits[i-1]+1, bl-(levels-1-i))
		}
		for i := 0; i < levels; i++ {
			ru := base
			ru.Cidr = mk(remote, bits[i])
			if i == 0 {
				ru.LocalCidr = permissive()
			} else {
				ru.LocalCidr = restrictive()
			}
			group = append(group, ru)
		}
		if r.Chance(1, 4) { // the permissive one in the middle / at the narrow end instead
			k := r.Intn(levels)
			group[0].LocalCidr, group[k].LocalCidr = group[k].LocalCidr, group[0].LocalCidr
		}
	} else {
		// the same remote selector, nested local CIDRs
		sel := base
		switch r.Intn(3) {
		case 0:
			sel.Cidr = mk(remote, r.Range(0, bl))
		case 1:
			sel.Host = peer.CName
		default:
			if len(peer.CGroups) > 0 {
				sel.Groups = []string{peer.CGroups[0]}
			} else {
				sel.Host = peer.CName
			}
		}
		lb := local.BitLen()
		b0 := r.Range(0, lb-1)
		broad, narrow := sel, sel
		broad.LocalCidr = mk(local, b0)
		o := otherAddr(r, local)
		narrow.LocalCidr = mk(o, r.Range(b0+1, lb))
		group = append(group, broad, narrow)
	}
	w.Rules = append(w.Rules, group...)
	// probes: the address pair the group was built around, in the bucket; plus near misses
	mkp := func() firewall.Packet {
		p := firewall.Packet{LocalAddr: local, RemoteAddr: remote, Protocol: base.Proto}
		if base.Proto == 0 {
			p.Protocol = hlib.Pick(r, uint8(6), 17, 1, 47)
		}
		port := uint16(hlib.Pick(r, ports...))
		if base.Start > 0 {
			port = uint16(base.Start + int32(r.Intn(int(base.End-base.Start)+1)))
		}
		other := uint16(hlib.Pick(r, ports...))
		if base.Incoming {
			p.LocalPort, p.RemotePort = port, other
		} else {
			p.LocalPort, p.RemotePort = other, port
		}
		return p
	}
	for k := r.Range(2, 4); k > 0; k-- {
		p := mkp()
		switch r.Intn(6) {
		case 0:
			p.LocalAddr = locals[r.Intn(len(locals))]
		case 1:
			if base.Incoming {
				p.LocalPort++
			} else {
				p.RemotePort++
			}
		}
		w.Probes = append(w.Probes, Probe{Peer: pi, P: p, Incoming: base.Incoming})
	}
	w.Remote = append(w.Remote, remote)
	w.Local = append(w.Local, local)
}

// GenProbe returns one of the packets built together with a nested rule group.
func (w *World) GenProbe(r *hlib.Rand) (Probe, bool) {
	if len(w.Probes) == 0 {
		return Probe{}, false
	}
	return w.Probes[r.Intn(len(w.Probes))], true
}

var ports = []int32{1, 22, 80, 81, 443, 8080, 65535}

func (w *World) GenRule(r *hlib.Rand) Rule {
	ru := Rule{Incoming: r.Chance(2, 3)}
	ru.Proto = hlib.Pick(r, uint8(0), 0, 6, 6, 17, 17, 1, 58, 1)
	if r.Chance(1, 40) {
		ru.Proto = hlib.Pick(r, uint8(2), 47, 255)
	}
	switch r.Intn(8) {
	case 0, 1:
		ru.Start, ru.End = 0, 0
	case 2:
		ru.Start, ru.End = -1, -1
	case 3, 4:
		p := hlib.Pick(r, ports...)
		ru.Start, ru.End = p, p
	case 5:
		p := hlib.Pick(r, ports...)
		ru.Start, ru.End = p, p+int32(r.Intn(12))
		if ru.End > 65535 {
			ru.End = 65535
		}
	case 6:
		ru.Start, ru.End = int32(r.Range(-1, 3)), int32(r.Range(0, 100))
	default:
		ru.Start, ru.End = int32(r.Intn(65536)), int32(r.Intn(65536))
		if r.Chance(4, 5) && ru.Start > ru.End {
			ru.Start, ru.End = ru.End, ru.Start
		}
		if ru.End-ru.Start > 3000 && r.Chance(9, 10) {
			ru.End = ru.Start + int32(r.Intn(3000))
		}
	}
	// selectors: usually exactly one, sometimes several or none; two times out of three aimed at a peer
	var aim *Cert
	if len(w.Peers) > 0 && r.Chance(2, 3) {
		aim = w.Peers[r.Intn(len(w.Peers))]
	}
	k := r.Intn(10)
	if k < 3 || k == 8 {
		ru.Groups = subset(r, groupNames, 3)
		if aim != nil && len(aim.CGroups) > 0 {
			ru.Groups = subset(r, aim.CGroups, 3)
			if len(ru.Groups) == 0 {
				ru.Groups = []string{aim.CGroups[r.Intn(len(aim.CGroups))]}
			}
		}
		if len(ru.Groups) == 0 {
			ru.Groups = []string{hlib.Pick(r, groupNames...)}
		}
		if r.Chance(1, 8) {
			ru.Groups = append(ru.Groups, "any")
		}
	}
	if (k >= 3 && k < 5) || k == 8 {
		ru.Host = hlib.Pick(r, "h1", "h2", "h3", "any", "h1")
		if aim != nil && r.Chance(4, 5) {
			ru.Host = aim.CName
		}
	}
	if (k >= 5 && k < 8) || k == 8 {
		if r.Chance(1, 6) {
			ru.Cidr = "any"
		} else if len(w.Remote) > 0 && r.Chance(4, 5) {
			ru.Cidr = RandPrefixAround(r, w.Remote[r.Intn(len(w.Remote))]).String()
		} else {
			ru.Cidr = RandPrefixAround(r, RandAddr(r, w.V6)).String()
		}
	}
	// k == 9: no selector at all
	switch r.Intn(6) {
	case 0:
		ru.LocalCidr = "any"
	case 1, 2:
		ru.LocalCidr = RandPrefixAround(r, w.Local[r.Intn(len(w.Local))]).String()
	}
	if r.Chance(1, 4) {
		ru.CAName = hlib.Pick(r, "caA", "caA", "caB", "caC")
		if aim != nil {
			for _, ca := range w.CAs {
				if ca[0] == aim.CIssuer && r.Chance(3, 4) {
					ru.CAName = ca[1]
				}
			}
		}
	}
	if r.Chance(1, 4) {
		ru.CASha = hlib.Pick(r, "ca1", "ca1", "ca2", "ca3")
		if aim != nil && aim.CIssuer != "" && r.Chance(3, 4) {
			ru.CASha = aim.CIssuer
		}
	}
	return ru
}

// GenPacket draws a packet for the peer, most of the time aimed at one of the rules (its port and
// addresses at the rule's own boundaries).
func (w *World) GenPacket(r *hlib.Rand, peer *Cert) (firewall.Packet, bool) {
	incoming := r.Chance(2, 3)
	p := firewall.Packet{}
	p.Protocol = hlib.Pick(r, uint8(6), 6, 17, 17, 1, 58, 47, 0)
	p.LocalPort = uint16(hlib.Pick(r, ports...))
	p.RemotePort = uint16(hlib.Pick(r, ports...))
	p.LocalAddr = w.Local[r.Intn(len(w.Local))]
	if r.Chance(2, 3) {
		p.LocalAddr = w.My.CNets[r.Intn(len(w.My.CNets))].Addr()
	}
	if r.Chance(4, 5) {
		p.RemoteAddr = peer.CNets[r.Intn(len(peer.CNets))].Addr()
		for k := 0; k < 3 && !w.inMine(p.RemoteAddr); k++ {
			p.RemoteAddr = peer.CNets[r.Intn(len(peer.CNets))].Addr()
		}
	} else if len(peer.CUnsafe) > 0 && r.Chance(2, 3) {
		p.RemoteAddr = AddrIn(r, peer.CUnsafe[r.Intn(len(peer.CUnsafe))])
	} else {
		p.RemoteAddr = w.Remote[r.Intn(len(w.Remote))]
	}
	if len(w.Rules) > 0 && r.Chance(4, 5) {
		ru := w.Rules[r.Intn(len(w.Rules))]
		if r.Chance(9, 10) {
			incoming = ru.Incoming
		}
		if ru.Proto != 0 && r.Chance(9, 10) {
			p.Protocol = ru.Proto
		}
		var port int32
		switch r.Intn(8) {
		case 0:
			port = ru.Start - 1
		case 1:
			port = ru.End + 1
		case 2:
			port = ru.End
		default:
			port = ru.Start
			if ru.End > ru.Start {
				port += int32(r.Intn(int(ru.End-ru.Start) + 1))
			}
		}
		if port == -1 {
			p.Fragment = true
		} else if port >= 0 && port <= 65535 {
			if incoming {
				p.LocalPort = uint16(port)
			} else {
				p.RemotePort = uint16(port)
			}
		}
		if ru.Cidr != "" && ru.Cidr != "any" && len(peer.CUnsafe) > 0 && r.Chance(1, 3) {
			c := netip.MustParsePrefix(ru.Cidr)
			if r.Bool() {
				p.RemoteAddr = AddrIn(r, c)
			} else {
				p.RemoteAddr = Edge(r, c)
			}
		}
		if ru.LocalCidr != "" && ru.LocalCidr != "any" && r.Chance(1, 4) {
			c := netip.MustParsePrefix(ru.LocalCidr)
			if r.Chance(2, 3) {
				p.LocalAddr = AddrIn(r, c)
			} else {
				p.LocalAddr = Edge(r, c)
			}
		}
	}
	if r.Chance(1, 12) {
		p.Fragment = true
	}
	if r.Chance(1, 25) {
		p.LocalAddr = RandAddr(r, w.V6)
	}
	if r.Chance(1, 25) {
		p.RemoteAddr = RandAddr(r, w.V6)
	}
	return p, incoming
}

func (w *World) inMine(a netip.Addr) bool {
	for _, n := range w.My.CNets {
		if n.Contains(a) {
			return true
		}
	}
	return false
}

// EmitSetup writes reset / ca / peer / rule lines.
func (w *World) EmitSetup(emit func(string, ...any), tcp, udp, dflt, cache uint64) {
	emit("reset %s %d %d %d %d %s", hlib.B(w.DLCA), tcp, udp, dflt, cache, w.My.Tokens())
	for _, ca := range w.CAs {
		emit("ca %s %s", ca[0], ca[1])
	}
	for i, p := range w.Peers {
		emit("peer p%d %s", i, p.Tokens())
	}
	for _, ru := range w.Rules {
		emit("rule %s", ru.Tokens())
	}
}
