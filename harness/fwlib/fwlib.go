// Package fwlib is shared by the firewall engines (fwrules: C16/C17, conntrack: C18/C19): a stand-in
// certificate, the token syntax of lean/Nebula/Driver/FwShared.lean, and the executor for the ops both
// engines understand.
package fwlib

import (
	"context"
	"fmt"
	"log/slog"
	"net/netip"
	"strings"
	"testing"
	"testing/synctest"
	"time"

	"github.com/gaissmai/bart"
	"github.com/slackhq/nebula"
	"github.com/slackhq/nebula/cert"
	"github.com/slackhq/nebula/firewall"
	"verifharness/hlib"
)

// Cert is a certificate that only carries what the firewall reads (like the repo's own dummyCert).
type Cert struct {
	CName    string
	CNets    []netip.Prefix
	CUnsafe  []netip.Prefix
	CGroups  []string
	CIssuer  string
	CVersion cert.Version
}

func (d *Cert) Version() cert.Version                     { return d.CVersion }
func (d *Cert) Name() string                              { return d.CName }
func (d *Cert) Networks() []netip.Prefix                  { return d.CNets }
func (d *Cert) UnsafeNetworks() []netip.Prefix            { return d.CUnsafe }
func (d *Cert) Groups() []string                          { return d.CGroups }
func (d *Cert) IsCA() bool                                { return false }
func (d *Cert) NotBefore() time.Time                      { return time.Time{} }
func (d *Cert) NotAfter() time.Time                       { return time.Time{} }
func (d *Cert) Issuer() string                            { return d.CIssuer }
func (d *Cert) PublicKey() []byte                         { return nil }
func (d *Cert) MarshalPublicKeyPEM() []byte               { return nil }
func (d *Cert) Curve() cert.Curve                         { return cert.Curve_CURVE25519 }
func (d *Cert) Signature() []byte                         { return nil }
func (d *Cert) CheckSignature([]byte) bool                { return true }
func (d *Cert) Fingerprint() (string, error)              { return "fp-" + d.CName, nil }
func (d *Cert) Expired(time.Time) bool                    { return false }
func (d *Cert) VerifyPrivateKey(cert.Curve, []byte) error { return nil }
func (d *Cert) Marshal() ([]byte, error)                  { return nil, nil }
func (d *Cert) MarshalForHandshakes() ([]byte, error)     { return nil, nil }
func (d *Cert) MarshalPEM() ([]byte, error)               { return nil, nil }
func (d *Cert) MarshalJSON() ([]byte, error)              { return []byte("{}"), nil }
func (d *Cert) String() string                            { return d.CName }
func (d *Cert) Copy() cert.Certificate                    { c := *d; return &c }

func (d *Cert) Cached() *cert.CachedCertificate {
	inv := map[string]struct{}{}
	for _, g := range d.CGroups {
		inv[g] = struct{}{}
	}
	return &cert.CachedCertificate{Certificate: d, InvertedGroups: inv, Fingerprint: "fp-" + d.CName}
}

// ---- token syntax

func StrTok(s string) string {
	if s == "" {
		return "-"
	}
	return s
}

func UnStr(s string) string {
	if s == "-" {
		return ""
	}
	return s
}

func ListTok(l []string) string {
	if len(l) == 0 {
		return "-"
	}
	return strings.Join(l, ",")
}

func UnList(s string) []string {
	if s == "-" {
		return nil
	}
	return strings.Split(s, ",")
}

func PrefixesTok(l []netip.Prefix) string {
	if len(l) == 0 {
		return "-"
	}
	out := make([]string, len(l))
	for i, p := range l {
		out[i] = hlib.PrefixHex(p)
	}
	return strings.Join(out, ",")
}

func UnPrefixes(s string) []netip.Prefix {
	if s == "-" {
		return nil
	}
	var out []netip.Prefix
	for _, t := range strings.Split(s, ",") {
		out = append(out, hlib.ParsePrefixHex(t))
	}
	return out
}

func (d *Cert) Tokens() string {
	return fmt.Sprintf("%s %s %s %s %s", StrTok(d.CName), PrefixesTok(d.CNets), PrefixesTok(d.CUnsafe), ListTok(d.CGroups), StrTok(d.CIssuer))
}

func ParseCert(a []string) *Cert {
	return &Cert{CName: UnStr(a[0]), CNets: UnPrefixes(a[1]), CUnsafe: UnPrefixes(a[2]), CGroups: UnList(a[3]), CIssuer: UnStr(a[4]), CVersion: cert.Version2}
}

// Rule is one AddRule call. Cidr/LocalCidr: "", "any" or a prefix in Go syntax.
type Rule struct {
	Incoming        bool
	Proto           uint8
	Start, End      int32
	Groups          []string
	Host            string
	Cidr, LocalCidr string
	CAName, CASha   string
}

func cidrTok(s string) string {
	if s == "" {
		return "-"
	}
	if s == "any" {
		return "any"
	}
	return hlib.PrefixHex(netip.MustParsePrefix(s))
}

func unCidr(s string) string {
	if s == "-" {
		return ""
	}
	if s == "any" {
		return "any"
	}
	return hlib.ParsePrefixHex(s).String()
}

func Dir(incoming bool) string {
	if incoming {
		return "in"
	}
	return "out"
}

func (r Rule) Tokens() string {
	return fmt.Sprintf("%s %d %d %d %s %s %s %s %s %s", Dir(r.Incoming), r.Proto, r.Start, r.End, ListTok(r.Groups),
		StrTok(r.Host), cidrTok(r.Cidr), cidrTok(r.LocalCidr), StrTok(r.CAName), StrTok(r.CASha))
}

func ParseRule(a []string) Rule {
	return Rule{Incoming: a[0] == "in", Proto: uint8(hlib.Atoi(a[1])), Start: int32(hlib.Atoi(a[2])), End: int32(hlib.Atoi(a[3])),
		Groups: UnList(a[4]), Host: UnStr(a[5]), Cidr: unCidr(a[6]), LocalCidr: unCidr(a[7]), CAName: UnStr(a[8]), CASha: UnStr(a[9])}
}

func PacketTokens(p firewall.Packet) string {
	return fmt.Sprintf("%s %s %d %d %d %s", hlib.AddrHex(p.LocalAddr), hlib.AddrHex(p.RemoteAddr), p.LocalPort, p.RemotePort, p.Protocol, hlib.B(p.Fragment))
}

func ParsePacket(a []string) firewall.Packet {
	return firewall.Packet{LocalAddr: hlib.ParseAddrHex(a[0]), RemoteAddr: hlib.ParseAddrHex(a[1]), LocalPort: uint16(hlib.Atoi(a[2])),
		RemotePort: uint16(hlib.Atoi(a[3])), Protocol: uint8(hlib.Atoi(a[4])), Fragment: a[5] == "1"}
}

// ---- executor

func Logger() *slog.Logger { return slog.New(slog.DiscardHandler) }

type Exec struct {
	T       *testing.T
	cancel  context.CancelFunc
	L       *slog.Logger
	My      *Cert
	DLCA    bool
	MyNets  *bart.Lite
	Fw      *nebula.Firewall
	Pool    *cert.CAPool
	Peers   map[string]*nebula.HostInfo
	PeerC   map[string]*cert.CachedCertificate
	Timeout [3]time.Duration
	CacheNS time.Duration
	// Cache is consulted on every drop: returns the routine-local cache (nil when disabled)
	Cache func() firewall.ConntrackCache
	// OnReset lets an engine rebuild its own pieces (cache ticker, staged rules)
	OnReset func(e *Exec)
	// Extra handles engine-specific ops
	Extra func(e *Exec, a []string) (string, bool)
}

func ErrKind(err error) string {
	switch err {
	case nil:
		return "pass"
	case nebula.ErrInvalidRemoteIP:
		return "remote"
	case nebula.ErrPeerRejected:
		return "peer"
	case nebula.ErrInvalidLocalIP:
		return "local"
	case nebula.ErrNoMatchingRule:
		return "norule"
	case nebula.ErrUnknownNetworkType:
		return "nettype"
	}
	return "err:" + err.Error()
}

func AddRuleKind(err error) string {
	if err == nil {
		return "ok"
	}
	switch {
	case strings.Contains(err.Error(), "unknown protocol"):
		return "err:proto"
	case strings.Contains(err.Error(), "start port was lower"):
		return "err:ports"
	}
	return "err:" + err.Error()
}

func (e *Exec) AddRule(fw *nebula.Firewall, r Rule) error {
	return fw.AddRule(r.Incoming, r.Proto, r.Start, r.End, r.Groups, r.Host, r.Cidr, r.LocalCidr, r.CAName, r.CASha)
}

func (e *Exec) Do(a []string) string {
	switch a[0] {
	case "reset":
		// reset <dlca> <tcp> <udp> <default> <cachePeriod> <cert…5>
		e.L = Logger()
		e.DLCA = a[1] == "1"
		for i := 0; i < 3; i++ {
			e.Timeout[i] = time.Duration(hlib.Atou(a[2+i]))
		}
		e.CacheNS = time.Duration(hlib.Atou(a[5]))
		e.My = ParseCert(a[6:11])
		e.MyNets = new(bart.Lite)
		for _, n := range e.My.CNets {
			e.MyNets.Insert(n)
		}
		e.Fw = nebula.NewFirewall(e.L, e.Timeout[0], e.Timeout[1], e.Timeout[2], e.My)
		nebula.VerifFwSetDefaultLocalCIDRAny(e.Fw, e.DLCA)
		e.Pool = cert.NewCAPool()
		e.Peers = map[string]*nebula.HostInfo{}
		e.PeerC = map[string]*cert.CachedCertificate{}
		// the routine-local conntrack cache with its real ticker goroutine (virtual time under synctest)
		if e.cancel != nil {
			e.cancel()
			e.cancel = nil
		}
		if e.CacheNS > 0 {
			ctx, cancel := context.WithCancel(e.T.Context())
			e.cancel = cancel
			tk := firewall.NewConntrackCacheTicker(ctx, e.L, e.CacheNS)
			e.Cache = func() firewall.ConntrackCache { return tk.Get() }
		} else {
			var tk *firewall.ConntrackCacheTicker // what NewConntrackCacheTicker returns for d == 0
			e.Cache = func() firewall.ConntrackCache { return tk.Get() }
		}
		if e.OnReset != nil {
			e.OnReset(e)
		}
		return "ok"
	case "ca":
		e.Pool.CAs[UnStr(a[1])] = (&Cert{CName: UnStr(a[2])}).Cached()
		return "ok"
	case "peer":
		c := ParseCert(a[2:7]).Cached()
		h := nebula.VerifFwHost(c, e.MyNets)
		e.Peers[a[1]] = h
		e.PeerC[a[1]] = c
		if nebula.VerifFwHostIsSimple(h) {
			return "simple"
		}
		return "table"
	case "rule":
		return AddRuleKind(e.AddRule(e.Fw, ParseRule(a[1:11])))
	case "match":
		c, ok := e.PeerC[a[1]]
		if !ok {
			return "bad-op"
		}
		return hlib.B(nebula.VerifFwMatch(e.Fw, ParsePacket(a[3:9]), a[2] == "in", c, e.Pool))
	case "drop":
		h, ok := e.Peers[a[1]]
		if !ok {
			return "bad-op"
		}
		return ErrKind(e.Fw.Drop(ParsePacket(a[3:9]), a[2] == "in", h, e.Pool, e.Cache()))
	case "clear":
		nebula.VerifFwClearConntrack(e.Fw)
		return "ok"
	case "sleep":
		time.Sleep(time.Duration(hlib.Atou(a[1])))
		synctest.Wait() // let the cache ticker goroutine see every tick up to now
		return "ok"
	}
	if e.Extra != nil {
		if s, ok := e.Extra(e, a); ok {
			return s
		}
	}
	return "bad-op"
}
