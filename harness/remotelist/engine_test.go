// Engine `remotelist` (C37): the real RemoteList (remote_list.go) driven op by op.
//
// ops (see lean/Nebula/Driver/Remotelist.lean):
//
//	reset <vpn,..> <deny>            NewRemoteList; shouldAdd / check = "not inside any deny prefix"; deny = `nil` (no
//	                                 function / accept all), `-` (empty list) or p,p,..            -> ok
//	learn <owner> <ap>               LearnRemote                                                     -> ok
//	setv4|setv6 <owner> <aps|->      unlockedSetV4/V6(owner, vpn[0], list, check)                    -> ok
//	prev4|prev6 <owner> <ap>         unlockedPrependV4/V6                                            -> ok
//	setrelay <owner> <addrs|->       unlockedSetRelay                                                -> ok
//	dns <aps|->                      install a resolved-address set (hostnamesResults) + mark dirty  -> ok
//	cleardns                         ClearHostnameResults                                            -> ok
//	resetowner <owner>               ResetForOwner                                                   -> ok
//	block <ap> | blockrelayed <ap>   BlockRemote                                                     -> ok
//	unblock                          ResetBlockedRemotes                                             -> ok
//	refresh <vpn,..>                 RefreshFromHandshake                                            -> ok
//	addrs <pref|->                   CopyAddrs(preferredRanges)  -> ap,ap,.. in list order | -
//	relays <pref|->                  Rebuild + relays            -> a,a,..  in list order  | -
//	cache                            CopyCache, owners sorted    -> owner[L:aps|R:aps|Y:addrs];...
//	blocked                          CopyBlockedRemotes          -> aps
package remotelist

import (
	"net/netip"
	"sort"
	"strings"
	"testing"

	"github.com/slackhq/nebula"
	"verifharness/hlib"
)

var v4pool = []string{"1.1.1.1", "1.1.1.2", "8.8.8.8", "70.199.182.92", "10.0.0.1", "10.255.255.255", "11.0.0.0",
	"9.255.255.255", "172.15.255.255", "172.16.0.0", "172.31.255.255", "172.32.0.0", "192.168.0.0", "192.168.255.255",
	"192.167.255.255", "192.169.0.0", "0.0.0.0", "255.255.255.255"}
var v6pool = []string{"1::1", "1:100::1", "fd00::1", "::1", "::", "ffff:ffff:ffff:ffff:ffff:ffff:ffff:ffff",
	"::ffff:1.1.1.1", "::ffff:10.0.0.1", "2001:db8::1", "fe80::1"}
var ports = []int{1, 2, 4242, 4242, 65535, 0}
var owners = []string{"10.9.0.1", "10.9.0.2", "10.9.0.3", "fd99::1"}
var prefs = []string{"10.0.0.0/8", "172.16.0.0/12", "0.0.0.0/0", "1.1.1.0/24", "fd00::/8", "::/0", "192.168.0.0/16", "1::/16", "::ffff:0:0/96"}
var denies = []string{"10.0.0.0/8", "1.1.1.1/32", "fd00::/8", "172.16.0.0/12", "8.0.0.0/7", "::/0"}

func ap4(r *hlib.Rand) netip.AddrPort {
	return netip.AddrPortFrom(netip.MustParseAddr(hlib.Pick(r, v4pool...)), uint16(hlib.Pick(r, ports...)))
}
func ap6(r *hlib.Rand) netip.AddrPort {
	return netip.AddrPortFrom(netip.MustParseAddr(hlib.Pick(r, v6pool...)), uint16(hlib.Pick(r, ports...)))
}
func apAny(r *hlib.Rand) netip.AddrPort {
	if r.Chance(3, 5) {
		return ap4(r)
	}
	return ap6(r)
}

func aps(l []netip.AddrPort) string {
	if len(l) == 0 {
		return "-"
	}
	s := make([]string, len(l))
	for i, a := range l {
		s[i] = hlib.AddrPortHex(a)
	}
	return strings.Join(s, ",")
}

func addrs(l []netip.Addr) string {
	if len(l) == 0 {
		return "-"
	}
	s := make([]string, len(l))
	for i, a := range l {
		s[i] = hlib.AddrHex(a)
	}
	return strings.Join(s, ",")
}

func pickSome(r *hlib.Rand, pool []string, max int) []string {
	n := r.Intn(max + 1)
	var out []string
	for i := 0; i < n; i++ {
		out = append(out, hlib.Pick(r, pool...))
	}
	return out
}

func prefList(r *hlib.Rand, pool []string, max int) string {
	l := pickSome(r, pool, max)
	if len(l) == 0 {
		return "-"
	}
	s := make([]string, len(l))
	for i, p := range l {
		s[i] = hlib.PrefixHex(netip.MustParsePrefix(p))
	}
	return strings.Join(s, ",")
}

func gen(r *hlib.Rand, n int, tier, profile string, emit func(string, ...any)) {
	owner := func() string { return hlib.AddrHex(netip.MustParseAddr(hlib.Pick(r, owners...))) }
	for i := 0; i < n; {
		deny := "nil"
		if r.Chance(2, 3) {
			deny = prefList(r, denies, 2)
		}
		emit("reset %s %s", addrs([]netip.Addr{netip.MustParseAddr("10.9.0.9"), netip.MustParseAddr("fd99::9")}[:1+r.Intn(2)]), deny)
		i++
		k := hlib.Pick(r, 3, 6, 10, 16, 30)
		for j := 0; j < k; j++ {
			i++
			switch r.Intn(22) {
			case 0, 1:
				emit("learn %s %s", owner(), hlib.AddrPortHex(apAny(r)))
			case 2, 3, 4:
				var l []netip.AddrPort
				for x, m := 0, hlib.Pick(r, 0, 1, 2, 3, 5, 9, 10, 11, 14); x < m; x++ {
					l = append(l, ap4(r))
				}
				emit("setv4 %s %s", owner(), aps(l))
			case 5, 6:
				var l []netip.AddrPort
				for x, m := 0, hlib.Pick(r, 0, 1, 2, 3, 5, 10, 11, 13); x < m; x++ {
					l = append(l, ap6(r))
				}
				emit("setv6 %s %s", owner(), aps(l))
			case 7:
				emit("prev4 %s %s", owner(), hlib.AddrPortHex(ap4(r)))
			case 8:
				emit("prev6 %s %s", owner(), hlib.AddrPortHex(ap6(r)))
			case 9:
				var l []netip.Addr
				for x, m := 0, hlib.Pick(r, 0, 1, 2, 4, 10, 12); x < m; x++ {
					l = append(l, netip.MustParseAddr(hlib.Pick(r, "10.9.0.5", "10.9.0.6", "fd99::5", "10.9.0.7", "1.2.3.4", "1::1")))
				}
				emit("setrelay %s %s", owner(), addrs(l))
			case 10:
				var l []netip.AddrPort
				seen := map[netip.AddrPort]bool{}
				for x, m := 0, hlib.Pick(r, 0, 1, 2, 3, 12); x < m; x++ {
					a := apAny(r)
					a = netip.AddrPortFrom(a.Addr().Unmap(), a.Port())
					if !seen[a] {
						seen[a] = true
						l = append(l, a)
					}
				}
				emit("dns %s", aps(l))
			case 11:
				emit("%s", hlib.Pick(r, "cleardns", "resetowner "+owner(), "resetowner "+owner()))
			case 12, 13:
				a := apAny(r)
				a = netip.AddrPortFrom(a.Addr().Unmap(), a.Port())
				emit("%s %s", hlib.Pick(r, "block", "block", "block", "blockrelayed"), hlib.AddrPortHex(a))
			case 14:
				emit("%s", hlib.Pick(r, "unblock", "refresh "+hlib.AddrHex(netip.MustParseAddr("10.9.0.9")), "refresh "+addrs([]netip.Addr{netip.MustParseAddr("fd99::9"), netip.MustParseAddr("10.9.0.9")})))
			case 15, 16, 17, 18:
				emit("addrs %s", prefList(r, prefs, 2))
			case 19:
				emit("relays %s", prefList(r, prefs, 1))
			case 20:
				emit("cache")
			case 21:
				emit("blocked")
			}
		}
		emit("addrs %s", prefList(r, prefs, 2))
		emit("relays -")
		i += 2
	}
}

func parseAPs(s string) []netip.AddrPort {
	if s == "-" {
		return nil
	}
	var out []netip.AddrPort
	for _, t := range strings.Split(s, ",") {
		out = append(out, hlib.ParseAddrPortHex(t))
	}
	return out
}

func parseAddrs(s string) []netip.Addr {
	if s == "-" {
		return nil
	}
	var out []netip.Addr
	for _, t := range strings.Split(s, ",") {
		out = append(out, hlib.ParseAddrHex(t))
	}
	return out
}

func parsePrefixes(s string) []netip.Prefix {
	if s == "-" || s == "nil" {
		return nil
	}
	var out []netip.Prefix
	for _, t := range strings.Split(s, ",") {
		out = append(out, hlib.ParsePrefixHex(t))
	}
	return out
}

func newExec(t *testing.T) func([]string) string {
	var rl *nebula.RemoteList
	var vpn []netip.Addr
	check := func(netip.Addr, netip.Addr) bool { return true }
	return func(a []string) string {
		if a[0] != "reset" && rl == nil {
			return "bad-op"
		}
		switch a[0] {
		case "reset":
			vpn = parseAddrs(a[1])
			if a[2] == "nil" {
				check = func(netip.Addr, netip.Addr) bool { return true }
				rl = nebula.NewRemoteList(vpn, nil)
			} else {
				deny := parsePrefixes(a[2])
				f := func(x netip.Addr) bool {
					for _, p := range deny {
						if p.Contains(x) {
							return false
						}
					}
					return true
				}
				check = func(_ netip.Addr, x netip.Addr) bool { return f(x) }
				rl = nebula.NewRemoteList(vpn, func(_ []netip.Addr, x netip.Addr) bool { return f(x) })
			}
			return "ok"
		case "learn":
			rl.LearnRemote(hlib.ParseAddrHex(a[1]), hlib.ParseAddrPortHex(a[2]))
			return "ok"
		case "setv4":
			nebula.VerifRLSetV4(rl, hlib.ParseAddrHex(a[1]), vpn[0], parseAPs(a[2]), check)
			return "ok"
		case "setv6":
			nebula.VerifRLSetV6(rl, hlib.ParseAddrHex(a[1]), vpn[0], parseAPs(a[2]), check)
			return "ok"
		case "prev4":
			nebula.VerifRLPrependV4(rl, hlib.ParseAddrHex(a[1]), hlib.ParseAddrPortHex(a[2]))
			return "ok"
		case "prev6":
			nebula.VerifRLPrependV6(rl, hlib.ParseAddrHex(a[1]), hlib.ParseAddrPortHex(a[2]))
			return "ok"
		case "setrelay":
			nebula.VerifRLSetRelay(rl, hlib.ParseAddrHex(a[1]), parseAddrs(a[2]))
			return "ok"
		case "dns":
			nebula.VerifRLSetDNS(rl, parseAPs(a[1]))
			return "ok"
		case "cleardns":
			rl.ClearHostnameResults()
			return "ok"
		case "resetowner":
			rl.ResetForOwner(hlib.ParseAddrHex(a[1]))
			return "ok"
		case "block":
			rl.BlockRemote(nebula.ViaSender{UdpAddr: hlib.ParseAddrPortHex(a[1])})
			return "ok"
		case "blockrelayed":
			rl.BlockRemote(nebula.ViaSender{UdpAddr: hlib.ParseAddrPortHex(a[1]), IsRelayed: true})
			return "ok"
		case "unblock":
			rl.ResetBlockedRemotes()
			return "ok"
		case "refresh":
			vpn = parseAddrs(a[1])
			rl.RefreshFromHandshake(vpn)
			return "ok"
		case "addrs":
			return aps(rl.CopyAddrs(parsePrefixes(a[1])))
		case "relays":
			return addrs(nebula.VerifRLRelays(rl, parsePrefixes(a[1])))
		case "blocked":
			return aps(rl.CopyBlockedRemotes())
		case "cache":
			cm := *rl.CopyCache()
			var keys []netip.Addr
			for k := range cm {
				keys = append(keys, netip.MustParseAddr(k))
			}
			sort.Slice(keys, func(i, j int) bool { return keys[i].Less(keys[j]) })
			var parts []string
			for _, k := range keys {
				c := cm[k.String()]
				parts = append(parts, hlib.AddrHex(k)+"[L:"+aps(c.Learned)+"|R:"+aps(c.Reported)+"|Y:"+addrs(c.Relay)+"]")
			}
			if len(parts) == 0 {
				return "-"
			}
			return strings.Join(parts, ";")
		}
		return "bad-op"
	}
}

func TestEngine(t *testing.T) {
	hlib.Run(t, hlib.Engine{Name: "remotelist", Gen: gen, NewExec: newExec})
}
