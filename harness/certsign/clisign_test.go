// `clisign` ops of the `certsign` engine (C04): cmd/nebula-cert's signCert called in-process. signCert lives in
// package main, so the repository's `verif` test hook (cmd/nebula-cert/verif_certcli_test.go) is compiled into a test
// binary once per run and kept as a co-process: one request line per op (hex arguments), one reply line; every call
// runs inside a testing/synctest bubble, so time.Now() is 2000-01-01T00:00:00Z and issued instants are exact.
//
//	clisign <ca.crt text> <ca.key text> <keymatches 0|1> <version> <duration ns> n<name> N<-networks> I<-ip> U<-unsafe-networks>
//	        S<-subnets> G<-groups> <-in-pub file text | none> <-out-key given 0|1> <parse oracle>
//	    -> err:<kind> | op-inconsistent | ok CERT(issuer ca|other, key and signature blanked) <key ok> <lowS> <verify at notBefore>
package certsign

import (
	"bufio"
	"bytes"
	"encoding/hex"
	"fmt"
	"io"
	"net/netip"
	"os"
	"os/exec"
	"path/filepath"
	"strings"
	"sync"

	"github.com/slackhq/nebula/cert"
	cl "verifharness/certlib"
	"verifharness/hlib"
)

type cliServer struct {
	cmd *exec.Cmd
	in  io.WriteCloser
	out *bufio.Reader
	dir string
}

var (
	srvOnce sync.Once
	srv     *cliServer
	srvErr  error
)

func cliServe() (*cliServer, error) {
	srvOnce.Do(func() {
		repo := os.Getenv("VERIF_REPO")
		if repo == "" {
			repo = "/repo"
		}
		dir, err := os.MkdirTemp(filepath.Dir(os.Getenv("VERIF_IMPL")), "clisign")
		if err != nil {
			dir, err = os.MkdirTemp("", "clisign")
		}
		if err != nil {
			srvErr = err
			return
		}
		bin := filepath.Join(dir, "nebula-cert-verif.test")
		build := exec.Command("go", "test", "-c", "-tags", "verif", "-o", bin, "./cmd/nebula-cert")
		build.Dir = repo
		if out, err := build.CombinedOutput(); err != nil {
			srvErr = fmt.Errorf("go test -c ./cmd/nebula-cert: %v: %s", err, out)
			return
		}
		cmd := exec.Command(bin, "-test.run", "^TestVerifCertcliServe$", "-test.timeout", "0")
		cmd.Dir = dir
		var env []string
		for _, e := range os.Environ() {
			if !strings.HasPrefix(e, "NEBULA_CA_PASSPHRASE=") {
				env = append(env, e)
			}
		}
		cmd.Env = append(env, "VERIF_CERTCLI_SERVE=1")
		in, err1 := cmd.StdinPipe()
		out, err2 := cmd.StdoutPipe()
		if err1 != nil || err2 != nil {
			srvErr = fmt.Errorf("pipes: %v %v", err1, err2)
			return
		}
		if err := cmd.Start(); err != nil {
			srvErr = err
			return
		}
		srv = &cliServer{cmd: cmd, in: in, out: bufio.NewReaderSize(out, 1<<20), dir: dir}
	})
	return srv, srvErr
}

// call runs signCert(args) in the co-process: "", or the error message, or "PANIC …".
func (s *cliServer) call(args []string) (string, error) {
	hx := make([]string, len(args))
	for i, a := range args {
		hx[i] = hex.EncodeToString([]byte(a))
	}
	if _, err := io.WriteString(s.in, strings.Join(hx, "\t")+"\n"); err != nil {
		return "", err
	}
	line, err := s.out.ReadString('\n')
	if err != nil {
		return "", err
	}
	line = strings.TrimSpace(line)
	switch {
	case line == "ok":
		return "", nil
	case strings.HasPrefix(line, "err "):
		b, _ := hex.DecodeString(line[4:])
		return string(b), nil
	case strings.HasPrefix(line, "panic "):
		b, _ := hex.DecodeString(line[6:])
		return "PANIC " + string(b), nil
	}
	return "", fmt.Errorf("unexpected reply %q", line)
}

func cliInprocKind(msg string, dupNets bool) string {
	switch {
	case strings.HasPrefix(msg, "-name is required"):
		return "err:cli-name-required"
	case strings.HasPrefix(msg, "cannot set both -in-pub and -out-key"):
		return "err:cli-inpub-and-outkey"
	case strings.HasPrefix(msg, "-version must be either"):
		return "err:cli-bad-version"
	case strings.HasPrefix(msg, "ca-key is encrypted"):
		return "err:cli-ca-key-encrypted"
	case strings.HasPrefix(msg, "error while parsing ca-key"):
		return "err:cli-ca-key"
	case strings.HasPrefix(msg, "error while parsing ca-crt"):
		return "err:cli-ca-crt"
	case strings.HasPrefix(msg, "refusing to sign, root certificate does not match private key"):
		return "err:cli-key-mismatch"
	case strings.HasPrefix(msg, "ca certificate is expired"):
		return "err:cli-ca-expired"
	case strings.HasPrefix(msg, "error while parsing in-pub"):
		return "err:cli-inpub-parse"
	case strings.HasPrefix(msg, "curve of in-pub does not match ca"):
		return "err:cli-inpub-curve"
	case strings.HasPrefix(msg, "invalid -networks definition: v1"), strings.HasPrefix(msg, "invalid -unsafe-networks definition: v1"),
		strings.HasPrefix(msg, "-networks is required"), strings.HasPrefix(msg, "error while signing: "):
		return cliKind(msg, dupNets)
	case strings.HasPrefix(msg, "invalid -networks definition"):
		return "err:cli-bad-networks"
	case strings.HasPrefix(msg, "invalid -unsafe-networks definition"):
		return "err:cli-bad-unsafe-networks"
	}
	return "err:cli-other:" + oneLine(msg)
}

func flagVal(s string, tag byte) ([]byte, bool) {
	if len(s) == 0 || s[0] != tag {
		return nil, false
	}
	if len(s) == 1 {
		return nil, true
	}
	b, err := hex.DecodeString(s[1:])
	return b, err == nil
}

func runCLISign(a []string) string {
	if len(a) != 15 {
		return "bad-op"
	}
	s, err := cliServe()
	if err != nil {
		return "cli-unavailable " + oneLine(err.Error())
	}
	caCrt, e1 := hlib.UnHex(a[1])
	caKey, e2 := hlib.UnHex(a[2])
	name, ok1 := flagVal(a[6], 'n')
	nets, ok2 := flagVal(a[7], 'N')
	ip, ok3 := flagVal(a[8], 'I')
	uns, ok4 := flagVal(a[9], 'U')
	subnets, ok5 := flagVal(a[10], 'S')
	groups, ok6 := flagVal(a[11], 'G')
	if e1 != nil || e2 != nil || !ok1 || !ok2 || !ok3 || !ok4 || !ok5 || !ok6 {
		return "bad-op"
	}
	ver, dur := hlib.Atoi(a[4]), hlib.Atoi(a[5])
	// the oracle values carried by the op must be what the libraries answer
	if a[14] != "-" {
		for _, e := range strings.Split(a[14], ",") {
			kv := strings.SplitN(e, ":", 2)
			if len(kv) != 2 {
				return "bad-op"
			}
			item, err := hlib.UnHex(kv[0])
			if err != nil {
				return "bad-op"
			}
			p, perr := netip.ParsePrefix(string(item))
			if (perr != nil) != (kv[1] == "x") || (perr == nil && cl.PrefixTok(p) != kv[1]) {
				return "op-inconsistent"
			}
		}
	}
	ca, _, caErr := cert.UnmarshalCertificateFromPEM(caCrt)
	kb, _, kcurve, kerr := cert.UnmarshalSigningPrivateKeyFromPEM(caKey)
	keymatches := caErr == nil && kerr == nil && bytes.Equal(pubOf(int(kcurve), kb), ca.PublicKey())
	if hlib.B(keymatches) != a[3] {
		return "op-inconsistent"
	}
	dir, err := os.MkdirTemp(s.dir, "op")
	if err != nil {
		return "cli-unavailable " + oneLine(err.Error())
	}
	defer os.RemoveAll(dir)
	p := func(n string) string { return filepath.Join(dir, n) }
	os.WriteFile(p("ca.crt"), caCrt, 0600)
	os.WriteFile(p("ca.key"), caKey, 0600)
	args := []string{"-ca-crt=" + p("ca.crt"), "-ca-key=" + p("ca.key"), "-out-crt=" + p("h.crt"), "-name=" + string(name),
		fmt.Sprintf("-version=%d", ver)}
	if dur != 0 {
		args = append(args, fmt.Sprintf("-duration=%dns", dur))
	}
	for _, fv := range []struct {
		flag string
		v    []byte
	}{{"networks", nets}, {"ip", ip}, {"unsafe-networks", uns}, {"subnets", subnets}, {"groups", groups}} {
		if len(fv.v) > 0 {
			args = append(args, "-"+fv.flag+"="+string(fv.v))
		}
	}
	var inPub []byte
	if a[12] != "none" {
		inPub, err = hlib.UnHex(a[12])
		if err != nil {
			return "bad-op"
		}
		os.WriteFile(p("in.pub"), inPub, 0600)
		args = append(args, "-in-pub="+p("in.pub"))
	}
	if a[13] == "1" {
		args = append(args, "-out-key="+p("h.key"))
	} else if a[12] == "none" {
		return "bad-op" // without -in-pub the key would be written to <name>.key in the working directory
	}
	msg, err := s.call(args)
	if err != nil {
		return "cli-unavailable " + oneLine(err.Error())
	}
	if strings.HasPrefix(msg, "PANIC") {
		return oneLine(msg)
	}
	rawH, rerr := os.ReadFile(p("h.crt"))
	if msg != "" {
		if rerr == nil {
			return "err:refused-but-wrote-certificate"
		}
		return cliInprocKind(msg, hasDupItems(string(nets)+","+string(ip)))
	}
	if rerr != nil {
		return "err:no-output"
	}
	c, rest, err := cert.UnmarshalCertificateFromPEM(rawH)
	if err != nil || len(rest) != 0 {
		return "err:undecodable"
	}
	f := cl.FieldsOf(c)
	caFp, _ := ca.Fingerprint()
	if f.Issuer == caFp {
		f.Issuer = "ca"
	} else {
		f.Issuer = "other"
	}
	keyOK := false
	if a[12] != "none" {
		k, _, _, err := cert.UnmarshalPublicKeyFromPEM(inPub)
		keyOK = err == nil && bytes.Equal(k, c.PublicKey())
	} else {
		hk, _ := os.ReadFile(p("h.key"))
		priv, _, pc, err := cert.UnmarshalPrivateKeyFromPEM(hk)
		keyOK = err == nil && c.VerifyPrivateKey(pc, priv) == nil
	}
	lowS := "-"
	if c.Curve() == cert.Curve_P256 {
		low, wf := cl.LowS(c.Signature())
		lowS = hlib.B(wf && low)
	}
	f.PublicKey, f.Signature = nil, nil
	pool := cert.NewCAPool()
	pool.AddCA(ca) // a CA that is expired by the wall clock is stored all the same
	_, verr := pool.VerifyCertificate(c.NotBefore(), c)
	return fmt.Sprintf("ok %s %s %s %s", f.Desc(), hlib.B(keyOK), lowS, verrKind(verr))
}

// hasDupItems: the same prefix text twice among the trimmed items (only used to name the refusal).
func hasDupItems(s string) bool {
	seen := map[netip.Prefix]bool{}
	for _, it := range strings.Split(s, ",") {
		if p, err := netip.ParsePrefix(strings.Trim(it, " ")); err == nil {
			if seen[p] {
				return true
			}
			seen[p] = true
		}
	}
	return false
}

// ---- generator -------------------------------------------------------------------------------------

type cliCA struct {
	f        cl.Fields
	crt, key []byte
	signKey  *cl.SignKey
}

func newCliCA(r *hlib.Rand) *cliCA {
	for {
		version := hlib.Pick(r, 1, 2, 2)
		curve := cert.Curve(hlib.Pick(r, 0, 0, 1))
		key := cl.NewSignKey(r, curve)
		nb := int64(cl.Epoch) - int64(hlib.Pick(r, 0, 1, 3600, 86400))
		na := int64(cl.Epoch) + int64(hlib.Pick(r, 2, 60, 3600, 3600, 86400, 86400*365))
		switch r.Intn(16) {
		case 0:
			na = int64(cl.Epoch) - int64(hlib.Pick(r, 1, 5, 3600)) // expired
			nb = na - 100
		case 1:
			nb = int64(cl.Epoch) + int64(hlib.Pick(r, 1, 5)) // not yet valid
		case 2:
			na = int64(cl.Epoch) + int64(hlib.Pick(r, 0, 1)) // expires now / in one second
		}
		f := cl.Fields{Version: version, Curve: int(curve), IsCA: true, NotBefore: cl.Sec(nb), NotAfter: cl.Sec(na), Name: "ca",
			Networks: cl.CANets(r, version == 2), Unsafe: cl.CANets(r, version == 2), PublicKey: key.Pub, Groups: cl.CAGroups(r)}
		raw := cl.Craft(f, key, nil)
		c, err := cl.Decode(version, raw)
		if err != nil {
			continue
		}
		crt, err := c.MarshalPEM()
		if err != nil {
			continue
		}
		return &cliCA{f: cl.FieldsOf(c), crt: crt, key: cert.MarshalSigningPrivateKeyToPEM(curve, key.Priv), signKey: key}
	}
}

func genCLISign(r *hlib.Rand, n int, emit func(string, ...any)) {
	pad := func() string { return hlib.Pick(r, "", "", "", " ", "  ") }
	gpad := func() string { return hlib.Pick(r, "", "", "", " ", "\t", " \t ") }
	for i := 0; i < n; {
		ca := newCliCA(r)
		other := newCliCA(r)
		for j, k := 0, hlib.Pick(r, 2, 4, 8); j < k && i < n; j++ {
			i++
			lf := cl.LeafFields(r, ca.f, "", true)
			oracle := map[string]string{}
			netsFlag := func(ps []netip.Prefix, extra ...string) string {
				var items []string
				for _, p := range ps {
					items = append(items, p.String())
				}
				items = append(items, extra...)
				for k := range items {
					if t := strings.Trim(items[k], " "); t != "" {
						if p, err := netip.ParsePrefix(t); err != nil {
							oracle[t] = "x"
						} else {
							oracle[t] = cl.PrefixTok(p)
						}
					}
					items[k] = pad() + items[k] + pad()
				}
				if len(items) > 0 && r.Chance(1, 6) {
					at := r.Intn(len(items) + 1)
					items = append(items[:at], append([]string{hlib.Pick(r, "", " ")}, items[at:]...)...)
				}
				return strings.Join(items, ",")
			}
			ver := lf.Version
			if ver == ca.f.Version && r.Bool() {
				ver = 0
			}
			secs := ca.f.NotAfter.Unix() - int64(cl.Epoch)
			dur := hlib.Pick[int64](r, 0, 0, 0, 0, 1, 999999999, 1000000000, 1500000000, 1e9, 2e9, (secs/2)*1e9, (secs/2)*1e9+500000000, (secs-1)*1e9, secs*1e9, secs*1e9-1, secs*1e9+1, (secs+1)*1e9, 2*secs*1e9, -5e9)
			var extraN, extraU []string
			crt, key, inpub, outkey := ca.crt, ca.key, []byte(nil), "1"
			name := lf.Name
			useIP, useSubnets := r.Chance(1, 12), r.Chance(1, 12)
			groups := ""
			for gi, g := range lf.Groups {
				if gi > 0 {
					groups += ","
				}
				groups += gpad() + g + gpad()
			}
			switch r.Intn(40) {
			case 0:
				extraN = []string{hlib.Pick(r, "10.0.0.300/24", "1.2.3.4", "fe80::1%eth0/64", "10.1.2.3/33", "x", "10.0.0.1/ 8", "::ffff:10.1.2.3/120")}
			case 1:
				extraU = []string{hlib.Pick(r, "10.0.0.300/24", "1.2.3.4", "fd00::/129", "y", "fd00:9::/64", "0.0.0.0/0")}
			case 2:
				ver = hlib.Pick(r, 3, 7, 255)
			case 3:
				name = hlib.Pick(r, "", " ", strings.Repeat("n", 253), strings.Repeat("n", 254), "a b", "é")
			case 4:
				key = other.key // another CA's key (possibly of the other curve)
			case 5:
				key = cert.MarshalSigningPrivateKeyToPEM(cert.Curve(ca.f.Curve), cl.NewSignKey(r, cert.Curve(ca.f.Curve)).Priv)
			case 6:
				key = hlib.Pick(r, []byte("garbage"), []byte{}, cert.MarshalPrivateKeyToPEM(cert.Curve_CURVE25519, r.Bytes(32)),
					bytes.Replace(ca.key, []byte("PRIVATE KEY"), []byte("ENCRYPTED PRIVATE KEY"), 2), ca.key[:len(ca.key)/2],
					cert.MarshalSigningPrivateKeyToPEM(cert.Curve(ca.f.Curve), r.Bytes(31)))
			case 7:
				crt = hlib.Pick(r, []byte("garbage"), []byte{}, ca.crt[:len(ca.crt)/2], bytes.Replace(ca.crt, []byte("NEBULA CERTIFICATE"), []byte("NEBULA CERTIFICAT"), 2),
					cert.MarshalPublicKeyToPEM(cert.Curve_CURVE25519, r.Bytes(32)))
			case 8:
				crt = append(append([]byte{}, ca.crt...), other.crt...) // a bundle: the first certificate is the CA
			case 9:
				crt = append(append([]byte("# my ca\n"), ca.crt...), []byte("trailing\n")...)
			case 10, 11, 12:
				inpub = cert.MarshalPublicKeyToPEM(cert.Curve(ca.f.Curve), cl.LeafPub(r, cert.Curve(ca.f.Curve)))
				outkey = hlib.Pick(r, "0", "0", "0", "1")
			case 13:
				inpub = cert.MarshalPublicKeyToPEM(cert.Curve(1-ca.f.Curve), cl.LeafPub(r, cert.Curve(1-ca.f.Curve)))
				outkey = "0"
			case 14:
				inpub = hlib.Pick(r, []byte("garbage"), cert.MarshalSigningPublicKeyToPEM(cert.Curve(ca.f.Curve), cl.LeafPub(r, cert.Curve(ca.f.Curve))),
					cert.MarshalPublicKeyToPEM(cert.Curve(ca.f.Curve), r.Bytes(hlib.Pick(r, 31, 33, 64))), cert.MarshalPrivateKeyToPEM(cert.Curve(ca.f.Curve), r.Bytes(32)))
				outkey = "0"
			case 15:
				lf.Networks = nil
			case 16:
				lf.Networks = append(lf.Networks, lf.Networks...)
			case 17:
				lf.Networks = append(lf.Networks, netip.MustParsePrefix(hlib.Pick(r, "fd00:1::5/64", "0.0.0.0/8", "::/0")))
			case 18:
				groups = hlib.Pick(r, ",", " , ,", "a,,b", " a ,\tb\t", "zz", "a\v,b\f", "a b", ",a")
			case 19, 20:
				// version 1 asked for (or inherited) with IPv6 material: must be refused, not silently trimmed
				if ca.f.Version == 1 {
					ver = hlib.Pick(r, 0, 1)
				} else {
					ver = 1
				}
				lf.Networks = lf.Networks[:1]
				if lf.Networks[0].Addr().Is6() {
					lf.Networks = []netip.Prefix{netip.MustParsePrefix("10.0.0.7/24")}
				}
				lf.Unsafe = nil
				if r.Bool() {
					extraN = []string{hlib.Pick(r, "fd00::1/64", "2001:db8::5/32", "::ffff:10.1.2.3/120")}
				} else {
					extraU = []string{hlib.Pick(r, "fd00:9::/64", "2001:db8::/32")}
				}
			case 21:
				ver = 1 // several IPv4 networks, or none at all, under version 1
				lf.Networks = hlib.Pick(r, []netip.Prefix{netip.MustParsePrefix("10.0.0.7/24"), netip.MustParsePrefix("10.0.0.8/24")}, []netip.Prefix{netip.MustParsePrefix("fd00::1/64")})
			case 22:
				name = ""
			}
			nflag := netsFlag(lf.Networks, extraN...)
			uflag := netsFlag(lf.Unsafe, extraU...)
			N, I, U, S := nflag, "", uflag, ""
			if useIP {
				N, I = hlib.Pick(r, "", "", nflag), nflag
				if N != "" {
					I = netsFlag([]netip.Prefix{netip.MustParsePrefix("10.250.0.1/8")})
				}
			}
			if useSubnets {
				U, S = "", uflag
			}
			var or []string
			for item, tok := range oracle {
				or = append(or, hlib.Hex([]byte(item))+":"+tok)
			}
			sortStrings(or)
			ot := "-"
			if len(or) > 0 {
				ot = strings.Join(or, ",")
			}
			cac, _, e1 := cert.UnmarshalCertificateFromPEM(crt)
			kb, _, kc, e2 := cert.UnmarshalSigningPrivateKeyFromPEM(key)
			km := e1 == nil && e2 == nil && bytes.Equal(pubOf(int(kc), kb), cac.PublicKey())
			ip := "none"
			if inpub != nil {
				ip = hlib.Hex(inpub)
			}
			hx := func(tag, s string) string { return tag + hex.EncodeToString([]byte(s)) }
			emit("clisign %s %s %s %d %d %s %s %s %s %s %s %s %s %s", hlib.Hex(crt), hlib.Hex(key), hlib.B(km), ver, dur, hx("n", name),
				hx("N", N), hx("I", I), hx("U", U), hx("S", S), hx("G", groups), ip, outkey, ot)
		}
	}
}

func sortStrings(s []string) {
	for i := 1; i < len(s); i++ {
		for j := i; j > 0 && s[j] < s[j-1]; j-- {
			s[j], s[j-1] = s[j-1], s[j]
		}
	}
}
