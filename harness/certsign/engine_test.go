// Engine `certsign` (C04): TBSCertificate.Sign against real CA certificates (both curves / versions) and stub
// CAs (arbitrary fields, sub-second bounds), then verification of the issued certificate against a pool
// holding its signer, and low-S inspection of every P-256 signature produced.
package certsign

import (
	"bytes"
	"os"
	"os/exec"
	"path/filepath"
	"sync"
	"crypto/ecdh"
	"crypto/ecdsa"
	"crypto/elliptic"
	"errors"
	"fmt"
	"net/netip"
	"strings"
	"testing"
	"testing/synctest"
	"time"
	"unicode/utf8"

	"github.com/slackhq/nebula/cert"
	"github.com/slackhq/nebula/cert/p256"
	cl "verifharness/certlib"
	"verifharness/hlib"
)

func verrKind(err error) string {
	if err == nil {
		return "ok"
	}
	msg := err.Error()
	switch {
	case errors.Is(err, cert.ErrBlockListed):
		return "err:blocklisted"
	case errors.Is(err, cert.ErrCaNotFound):
		return "err:ca-not-found"
	case errors.Is(err, cert.ErrCurveMismatch):
		return "err:curve"
	case errors.Is(err, cert.ErrRootExpired):
		return "err:root-expired"
	case errors.Is(err, cert.ErrExpired):
		return "err:expired"
	case errors.Is(err, cert.ErrSignatureMismatch):
		return "err:signature"
	case msg == "no issuer in certificate":
		return "err:no-issuer"
	case strings.HasPrefix(msg, "certificate expires after signing certificate"):
		return "err:after-ca"
	case strings.HasPrefix(msg, "certificate is valid before the signing certificate"):
		return "err:before-ca"
	case strings.HasPrefix(msg, "certificate contained a group not present"):
		return "err:group"
	case strings.HasPrefix(msg, "certificate contained a network assignment outside"):
		return "err:network"
	case strings.HasPrefix(msg, "certificate contained an unsafe network assignment outside"):
		return "err:unsafe-network"
	}
	return "err:other:" + strings.ReplaceAll(msg, " ", "_")
}

func signKind(err error) string {
	msg := err.Error()
	if k := cl.InvalidKind(err); k != "" {
		return k
	}
	switch {
	case errors.Is(err, cert.ErrEmptySignature):
		return "err:empty-signature"
	case strings.HasPrefix(msg, "curve in cert and private key supplied don't match"):
		return "err:key-curve"
	case strings.HasPrefix(msg, "can not sign a CA certificate with another"):
		return "err:ca-by-ca"
	case strings.HasPrefix(msg, "self signed certificates must have IsCA set to true"):
		return "err:self-not-ca"
	case strings.HasPrefix(msg, "unknown cert version"):
		return "err:unknown-version"
	case strings.HasPrefix(msg, "invalid curve"):
		return "err:invalid-curve"
	case strings.HasPrefix(msg, "error computing issuer"):
		return "err:issuer-fingerprint"
	case strings.Contains(msg, "invalid UTF-8"):
		return "err:marshal"
	case strings.HasPrefix(msg, "certificate expires after signing certificate"), strings.HasPrefix(msg, "certificate is valid before"),
		strings.HasPrefix(msg, "certificate contained"):
		return verrKind(err)
	}
	return "err:other:" + strings.ReplaceAll(msg, " ", "_")
}

func pubOf(curve int, key []byte) []byte {
	switch curve {
	case 0:
		if len(key) == 64 {
			return key[32:]
		}
	case 1:
		if k, err := ecdh.P256().NewPrivateKey(key); err == nil {
			return k.PublicKey().Bytes()
		}
	}
	return nil
}

func hasDup(ps []netip.Prefix) bool {
	for i := range ps {
		for j := i + 1; j < len(ps); j++ {
			if ps[i] == ps[j] {
				return true
			}
		}
	}
	return false
}

func marshalOK(f cl.Fields) bool {
	if f.Version != 1 {
		return true
	}
	if !utf8.ValidString(f.Name) {
		return false
	}
	for _, g := range f.Groups {
		if !utf8.ValidString(g) {
			return false
		}
	}
	return true
}

// ---- nebula-cert as a subprocess --------------------------------------------------------------------

var (
	cliOnce sync.Once
	cliBin  string
	cliErr  error
)

// nebulaCert builds cmd/nebula-cert from $VERIF_REPO into the run directory (once per process).
func nebulaCert() (string, error) {
	cliOnce.Do(func() {
		repo := os.Getenv("VERIF_REPO")
		if repo == "" {
			repo = "/repo"
		}
		dir := filepath.Dir(os.Getenv("VERIF_IMPL"))
		if os.Getenv("VERIF_IMPL") == "" {
			dir, cliErr = os.MkdirTemp("", "nebula-cert-bin")
			if cliErr != nil {
				return
			}
		}
		cliBin = filepath.Join(dir, fmt.Sprintf("nebula-cert-%d", os.Getpid()))
		cmd := exec.Command("go", "build", "-o", cliBin, "./cmd/nebula-cert")
		cmd.Dir = repo
		if out, err := cmd.CombinedOutput(); err != nil {
			cliErr = fmt.Errorf("go build ./cmd/nebula-cert: %v: %s", err, out)
		}
	})
	return cliBin, cliErr
}

func cidrs(ps []netip.Prefix) string {
	out := make([]string, len(ps))
	for i, p := range ps {
		out[i] = p.String()
	}
	return strings.Join(out, ",")
}

func oneLine(s string) string {
	s = strings.TrimSpace(s)
	if i := strings.IndexByte(s, '\n'); i >= 0 {
		s = s[:i]
	}
	return strings.ReplaceAll(s, " ", "_")
}

// cliKind names what nebula-cert refused, in the vocabulary of the model's SignWith verdicts.
func cliKind(stderr string, dupNets bool) string {
	switch {
	case strings.Contains(stderr, "v1 certificates can only have a single ipv4 address"):
		return "err:cli-v1-single"
	case strings.Contains(stderr, "invalid -networks definition: v1 certificates can only"):
		return "err:cli-v1-ipv4"
	case strings.Contains(stderr, "invalid -unsafe-networks definition: v1 certificates can only"):
		return "err:cli-v1-unsafe-ipv4"
	case strings.Contains(stderr, "-networks is required"):
		return "err:cli-no-networks"
	}
	i := strings.Index(stderr, "error while signing: ")
	if i < 0 {
		return "err:cli-other:" + oneLine(stderr)
	}
	msg := stderr[i+len("error while signing: "):]
	for _, k := range [][2]string{
		{"certificate expires after signing certificate", "err:after-ca"},
		{"certificate is valid before the signing certificate", "err:before-ca"},
		{"certificate contained a group not present", "err:group"},
		{"certificate contained a network assignment outside", "err:network"},
		{"certificate contained an unsafe network assignment outside", "err:unsafe-network"},
		{"non-CA certificate must contain at least 1 network", "err:invalid:no-networks"},
		{"non-CA certificates must contain exactly one network", "err:invalid:no-networks"},
		{"invalid network", "err:invalid:invalid-network"},
		{"non-CA certificates must not use the zero address", "err:invalid:zero-address"},
		{"4in6 networks are not allowed", "err:invalid:4in6"},
		{"certificate may not contain IPv6 networks", "err:invalid:v1-ipv6"},
		{"certificate may not contain IPv6 unsafe networks", "err:invalid:v1-ipv6-unsafe"},
		{"invalid unsafe network", "err:invalid:invalid-unsafe"},
		{"IPv6 unsafe networks require", "err:invalid:unsafe-needs-v6"},
		{"IPv4 unsafe networks require", "err:invalid:unsafe-needs-v4"},
		{"name must be between", "err:invalid:name"},
		{"groups must not contain an empty name", "err:invalid:empty-group"},
		{"encoded certificate is", "err:invalid:too-large"},
		{"can not sign a CA certificate with another", "err:ca-by-ca"},
	} {
		if strings.HasPrefix(msg, k[0]) {
			return k[1]
		}
	}
	if strings.HasPrefix(msg, "duplicate network detected") {
		if dupNets {
			return "err:invalid:duplicate-network"
		}
		return "err:invalid:duplicate-unsafe"
	}
	return "err:cli-other:" + oneLine(msg)
}

// runCLI: cli <caver> <cacurve> <cadur s> <canets> <caunsafe> <cagroups> <encrypt 0|1> <ver 0|1|2> <dur s|0> n<name> <nets> <unsafe> <groups>
// `nebula-cert ca` then `nebula-cert sign` in a scratch directory; what they wrote is read back with the real
// decoders. Times are wall clock, so the answer carries durations and relations, not instants.
func runCLI(a []string) string {
	if len(a) != 14 {
		return "bad-op"
	}
	bin, err := nebulaCert()
	if err != nil {
		return "cli-unavailable " + oneLine(err.Error())
	}
	dir, err := os.MkdirTemp(filepath.Dir(bin), "cli")
	if err != nil {
		return "cli-unavailable " + oneLine(err.Error())
	}
	defer os.RemoveAll(dir)
	caver, cacurve, cadur := hlib.Atoi(a[1]), hlib.Atoi(a[2]), hlib.Atoi(a[3])
	canets, cauns, cagroups := cl.ParsePrefixes(a[4]), cl.ParsePrefixes(a[5]), cl.ParseGroups(a[6])
	encrypted := a[7] == "1"
	ver, dur := hlib.Atoi(a[8]), hlib.Atoi(a[9])
	nameB, err := hlib.UnHex(a[10][1:])
	if err != nil {
		return "bad-op"
	}
	nets, uns, groups := cl.ParsePrefixes(a[11]), cl.ParsePrefixes(a[12]), cl.ParseGroups(a[13])
	run := func(args ...string) (string, error) {
		cmd := exec.Command(bin, args...)
		cmd.Dir = dir
		cmd.Env = append(os.Environ(), "NEBULA_CA_PASSPHRASE=correct horse")
		var eb bytes.Buffer
		cmd.Stderr = &eb
		err := cmd.Run()
		return eb.String(), err
	}
	caArgs := []string{"ca", "-version", fmt.Sprint(caver), "-name", "ca", "-curve", map[int]string{0: "25519", 1: "P256"}[cacurve],
		"-duration", fmt.Sprintf("%ds", cadur), "-out-crt", "ca.crt", "-out-key", "ca.key"}
	if len(canets) > 0 {
		caArgs = append(caArgs, "-networks", cidrs(canets))
	}
	if len(cauns) > 0 {
		caArgs = append(caArgs, "-unsafe-networks", cidrs(cauns))
	}
	if len(cagroups) > 0 {
		caArgs = append(caArgs, "-groups", strings.Join(cagroups, ","))
	}
	if encrypted {
		caArgs = append(caArgs, "-encrypt", "-argon-memory", "8", "-argon-parallelism", "1", "-argon-iterations", "1")
	}
	if eb, err := run(caArgs...); err != nil {
		return "ca:" + cliKind(eb, hasDup(canets))
	}
	rawCA, err := os.ReadFile(filepath.Join(dir, "ca.crt"))
	if err != nil {
		return "ca:err:no-output"
	}
	ca, _, err := cert.UnmarshalCertificateFromPEM(rawCA)
	if err != nil {
		return "ca:err:undecodable"
	}
	rawKey, _ := os.ReadFile(filepath.Join(dir, "ca.key"))
	if encrypted != bytes.Contains(rawKey, []byte("ENCRYPTED")) {
		return "ca:err:key-encryption-flag-ignored"
	}
	// the CA itself: what was asked for, self-signed, acceptable to a pool, low-S
	caOK := int(ca.Version()) == caver && int(ca.Curve()) == cacurve && ca.IsCA() && ca.Name() == "ca" && ca.Issuer() == "" &&
		cl.GroupsTok(ca.Groups()) == cl.GroupsTok(cagroups) && ca.CheckSignature(ca.PublicKey())
	if d := int(ca.NotAfter().Unix() - ca.NotBefore().Unix()); d != cadur && d != cadur+1 {
		caOK = false
	}
	if cacurve == 1 {
		if low, wf := cl.LowS(ca.Signature()); !wf || !low {
			caOK = false
		}
	}
	pool := cert.NewCAPool()
	if err := pool.AddCA(ca); err != nil {
		caOK = false
	}
	sArgs := []string{"sign", "-ca-crt", "ca.crt", "-ca-key", "ca.key", "-name", string(nameB), "-out-crt", "h.crt", "-out-key", "h.key"}
	if len(nets) > 0 {
		sArgs = append(sArgs, "-networks", cidrs(nets))
	}
	if len(uns) > 0 {
		sArgs = append(sArgs, "-unsafe-networks", cidrs(uns))
	}
	if len(groups) > 0 {
		sArgs = append(sArgs, "-groups", strings.Join(groups, ","))
	}
	if ver != 0 {
		sArgs = append(sArgs, "-version", fmt.Sprint(ver))
	}
	if dur != 0 {
		sArgs = append(sArgs, "-duration", fmt.Sprintf("%ds", dur))
	}
	t0 := time.Now()
	eb, err := run(sArgs...)
	t1 := time.Now()
	if err != nil {
		if _, serr := os.Stat(filepath.Join(dir, "h.crt")); serr == nil {
			return "sign:err:refused-but-wrote-certificate"
		}
		return "sign:" + cliKind(eb, hasDup(nets))
	}
	rawH, err := os.ReadFile(filepath.Join(dir, "h.crt"))
	if err != nil {
		return "sign:err:no-output"
	}
	c, rest, err := cert.UnmarshalCertificateFromPEM(rawH)
	if err != nil || len(bytes.TrimSpace(rest)) != 0 {
		return "sign:err:undecodable"
	}
	hk, _ := os.ReadFile(filepath.Join(dir, "h.key"))
	priv, _, kcurve, kerr := cert.UnmarshalPrivateKeyFromPEM(hk)
	keyOK := kerr == nil && c.VerifyPrivateKey(kcurve, priv) == nil
	caFp, _ := ca.Fingerprint()
	durTok := fmt.Sprint(c.NotAfter().Unix() - c.NotBefore().Unix())
	if dur == 0 {
		if c.NotAfter().Unix() == ca.NotAfter().Unix()-1 {
			durTok = "d" // the default: one second before the CA expires
		} else {
			durTok = "x" + durTok
		}
	}
	nbOK := c.NotBefore().Unix() >= t0.Unix() && c.NotBefore().Unix() <= t1.Unix()
	lowS := "-"
	if c.Curve() == cert.Curve_P256 {
		low, wf := cl.LowS(c.Signature())
		lowS = hlib.B(wf && low)
	}
	_, verr := pool.VerifyCertificate(time.Now(), c)
	return fmt.Sprintf("ok %d %d %s %s n%s %s %s %s %s %s %s %s %s %s", c.Version(), c.Curve(), hlib.B(c.IsCA()), durTok, fmt.Sprintf("%x", c.Name()),
		cl.PrefixesTok(c.Networks()), cl.PrefixesTok(c.UnsafeNetworks()), cl.GroupsTok(c.Groups()),
		hlib.B(c.Issuer() == caFp), hlib.B(keyOK), hlib.B(nbOK), lowS, verrKind(verr), hlib.B(caOK))
}

func newExec(t *testing.T) func([]string) string {
	return func(a []string) string {
		switch a[0] {
		case "sign":
			// sign kc keyok keyparses marshalok key signer TBS[12] [SIGNER[12] fp]
			if len(a) != 7+cl.DescLen && len(a) != 7+2*cl.DescLen+1 {
				return "bad-op"
			}
			kc := hlib.Atoi(a[1])
			key, err := hlib.UnHex(a[5])
			if err != nil {
				return "bad-op"
			}
			f := cl.ParseDesc(a[7 : 7+cl.DescLen])
			var signer cert.Certificate
			if a[6] != "none" {
				sd := a[7+cl.DescLen : 7+2*cl.DescLen]
				fp := a[7+2*cl.DescLen]
				if a[6] == "stub" {
					signer = &cl.Stub{F: cl.ParseDesc(sd), Fp: fp, SigOK: true}
				} else {
					raw, err := hlib.UnHex(a[6])
					if err != nil {
						return "bad-op"
					}
					c, err := cl.Decode(hlib.Atoi(sd[0]), raw)
					if err != nil || cl.Desc(c) != strings.Join(sd, " ") {
						return "op-inconsistent"
					}
					if got, _ := c.Fingerprint(); got != fp {
						return "op-inconsistent"
					}
					signer = c
				}
			}
			// the oracle bits must be what the real code / library computes
			keyok := false
			if signer != nil {
				keyok = bytes.Equal(pubOf(kc, key), signer.PublicKey())
			} else {
				keyok = bytes.Equal(pubOf(kc, key), f.PublicKey)
			}
			keyparses := true
			if f.Curve == 1 {
				_, err := ecdsa.ParseRawPrivateKey(elliptic.P256(), key)
				keyparses = err == nil
			}
			if hlib.B(keyok) != a[2] || hlib.B(keyparses) != a[3] || hlib.B(marshalOK(f)) != a[4] {
				return "op-inconsistent"
			}
			tbs := &cert.TBSCertificate{Version: cert.Version(f.Version), Name: f.Name, Networks: f.Networks, UnsafeNetworks: f.Unsafe,
				Groups: f.Groups, IsCA: f.IsCA, NotBefore: f.NotBefore, NotAfter: f.NotAfter, PublicKey: f.PublicKey, Curve: cert.Curve(f.Curve)}
			dupNets := hasDup(f.Networks)
			c, err := tbs.Sign(signer, cert.Curve(kc), key)
			if err != nil {
				if !keyparses {
					return "err:key-parse"
				}
				k := signKind(err)
				if k == "err:invalid:duplicate" {
					if dupNets {
						return "err:invalid:duplicate-network"
					}
					return "err:invalid:duplicate-unsafe"
				}
				return k
			}
			out := cl.FieldsOf(c)
			sig := out.Signature
			out.Signature = nil
			lowS := "-"
			if c.Curve() == cert.Curve_P256 {
				// decided here, not by the code under test: S <= N/2 in a well-formed DER signature
				low, wf := cl.LowS(sig)
				lowS = hlib.B(wf && low)
			}
			pool := cert.NewCAPool()
			if signer != nil {
				pool.AddCA(signer) // an expired CA is stored all the same
				_, e1 := pool.VerifyCertificate(c.NotBefore(), c)
				_, e2 := pool.VerifyCertificate(c.NotAfter(), c)
				return fmt.Sprintf("ok %s %s %s %s", out.Desc(), lowS, verrKind(e1), verrKind(e2))
			}
			var aerr error
			synctest.Test(t, func(t *testing.T) { aerr = pool.AddCA(c) })
			ak := "ok"
			switch {
			case errors.Is(aerr, cert.ErrExpired):
				ak = "err:expired"
			case errors.Is(aerr, cert.ErrNotCA):
				ak = "err:not-ca"
			case errors.Is(aerr, cert.ErrNotSelfSigned):
				ak = "err:not-self-signed"
			case aerr != nil:
				ak = "err:other"
			}
			return fmt.Sprintf("ok %s %s %s -", out.Desc(), lowS, ak)
		case "cli":
			return runCLI(a)
		case "clisign":
			return runCLISign(a) // signCert in-process: clisign_test.go
		case "norm":
			if len(a) != 2 {
				return "bad-op"
			}
			sig, err := hlib.UnHex(a[1])
			if err != nil {
				return "bad-op"
			}
			n := "err"
			if ok, err := p256.IsNormalized(sig); err == nil {
				n = hlib.B(ok)
			}
			oh := func(b []byte, err error) string {
				if err != nil {
					return "err"
				}
				return hlib.Hex(b)
			}
			return fmt.Sprintf("%s %s %s", n, oh(p256.Normalize(sig)), oh(p256.Swap(sig)))
		case "sws":
			// sws <ver> <sig>: a self-signed P-256 CA issued through SignWith by a signer that answers <sig>
			if len(a) != 3 {
				return "bad-op"
			}
			scripted, err := hlib.UnHex(a[2])
			if err != nil {
				return "bad-op"
			}
			pub := make([]byte, 65)
			pub[0] = 4
			tbs := &cert.TBSCertificate{Version: cert.Version(hlib.Atoi(a[1])), Name: "ca", IsCA: true, Curve: cert.Curve_P256, PublicKey: pub,
				NotBefore: time.Unix(cl.Epoch-3600, 0), NotAfter: time.Unix(cl.Epoch+3600, 0)}
			c, err := tbs.SignWith(nil, cert.Curve_P256, func([]byte) ([]byte, error) { return scripted, nil })
			if err != nil {
				if errors.Is(err, cert.ErrEmptySignature) {
					return "err:empty-signature"
				}
				if k := signKind(err); !strings.HasPrefix(k, "err:other:") {
					return k
				}
				return "err:normalize"
			}
			low, wf := cl.LowS(c.Signature())
			return fmt.Sprintf("ok %s %s", hlib.Hex(c.Signature()), hlib.B(wf && low))
		}
		return "bad-op"
	}
}

// ---- generator -------------------------------------------------------------------------------------

type signer struct {
	tag string // "stub" or hex of the encoding
	c   cert.Certificate
	f   cl.Fields
	fp  string
	key *cl.SignKey
}

func newSigner(r *hlib.Rand) *signer {
	version := hlib.Pick(r, 1, 2, 2)
	curve := cert.Curve(hlib.Pick(r, 0, 0, 1))
	key := cl.NewSignKey(r, curve)
	nb, na := cl.CAWindow(r)
	f := cl.Fields{Version: version, Curve: int(curve), IsCA: true, NotBefore: nb, NotAfter: na, Name: "ca",
		Networks: cl.CANets(r, version == 2), Unsafe: cl.CANets(r, version == 2), PublicKey: key.Pub}
	f.Groups = cl.CAGroups(r)
	if r.Chance(1, 4) {
		// stub CA: arbitrary fields, sub-second bounds, but a real key so that issued certificates verify
		if r.Bool() {
			f.NotBefore = f.NotBefore.Add(time.Duration(r.Intn(1000000000)))
			f.NotAfter = f.NotAfter.Add(time.Duration(r.Intn(1000000000)))
		}
		f.Version = hlib.Pick(r, 1, 2, 3)
		if r.Chance(1, 3) {
			f.Networks = append(f.Networks, cl.BasePrefix(r, true))
		}
		fp := hlib.Hex(r.Bytes(32))
		return &signer{tag: "stub", c: &cl.Stub{F: f, Fp: fp, SigOK: true}, f: f, fp: fp, key: key}
	}
	raw := cl.Craft(f, key, nil)
	c, err := cl.Decode(version, raw)
	if err != nil {
		return newSigner(r) // e.g. the same range drawn twice: the decoder's validate refuses duplicates
	}
	fp, _ := c.Fingerprint()
	return &signer{tag: hlib.Hex(raw), c: c, f: cl.FieldsOf(c), fp: fp, key: key}
}

func gen(r *hlib.Rand, n int, tier, profile string, emit func(string, ...any)) {
	// cert/p256 at the low-S boundary, directly and through SignWith with a signer that answers such signatures
	for _, sig := range cl.BoundarySigs(r) {
		emit("norm %s", hlib.Hex(sig))
		emit("sws %d %s", hlib.Pick(r, 1, 2), hlib.Hex(sig))
	}
	// the nebula-cert binary: `ca` then `sign` on generated flags (subprocesses: a small share of the stream)
	for i, k := 0, 12+n/60; i < k; i++ {
		caver := hlib.Pick(r, 1, 2, 2)
		cf := cl.Fields{Version: caver, Curve: r.Intn(2), IsCA: true, Name: "ca", NotBefore: cl.Sec(0), NotAfter: cl.Sec(1 << 40),
			Networks: cl.CANets(r, caver == 2), Unsafe: cl.CANets(r, caver == 2), Groups: cl.CAGroups(r)}
		cadur := hlib.Pick(r, 3600, 7200, 100000)
		lf := cl.LeafFields(r, cf, "", true)
		ver := lf.Version
		if ver == caver && r.Bool() {
			ver = 0 // default: the CA's version
		}
		dur := hlib.Pick(r, 0, 0, 60, 600, cadur-600, cadur+600, 2*cadur)
		switch r.Intn(16) {
		case 0:
			lf.Networks = append(lf.Networks, lf.Networks...) // duplicate (v1: more than one address)
		case 1:
			lf.Networks = append(lf.Networks, cl.Inside(r, cl.BasePrefix(r, true), 8))
		case 2:
			lf.Unsafe = append(lf.Unsafe, netip.MustParsePrefix("fd00:9::/64"))
		case 3:
			if len(lf.Unsafe) > 0 {
				lf.Unsafe = append(lf.Unsafe, lf.Unsafe[0])
			}
		case 4:
			lf.Name = strings.Repeat("n", hlib.Pick(r, 253, 254, 300))
		case 5:
			lf.Networks = append(lf.Networks, netip.MustParsePrefix("::ffff:10.1.2.3/120"))
		case 6:
			lf.Networks = []netip.Prefix{netip.MustParsePrefix("0.0.0.0/8")}
		}
		emit("cli %d %d %d %s %s %s %s %d %d n%x %s %s %s", caver, cf.Curve, cadur, cl.PrefixesTok(cf.Networks), cl.PrefixesTok(cf.Unsafe), cl.GroupsTok(cf.Groups),
			hlib.B(r.Chance(1, 4)), ver, dur, lf.Name, cl.PrefixesTok(lf.Networks), cl.PrefixesTok(lf.Unsafe), cl.GroupsTok(lf.Groups))
	}
	genCLISign(r, 60+n/6, emit) // signCert in-process: clisign_test.go
	emit("sws 2 -")
	emit("sws 1 00")
	rk := cl.NewSignKey(r, cert.Curve_P256)
	for i := 0; i < 6; i++ {
		sig := rk.SignRaw(r.Bytes(16))
		emit("norm %s", hlib.Hex(sig))
		emit("sws %d %s", hlib.Pick(r, 1, 2), hlib.Hex(sig))
	}
	for i := 0; i < n; {
		s := newSigner(r)
		for j, k := 0, hlib.Pick(r, 2, 4, 8); j < k && i < n; j++ {
			i++
			f := cl.LeafFields(r, s.f, "", true)
			f.Issuer = ""
			if r.Chance(1, 6) { // sub-second requested validity (inside or just outside the CA's bounds)
				f.NotBefore = f.NotBefore.Add(time.Duration(r.Intn(1000000000)))
				f.NotAfter = f.NotAfter.Add(-time.Duration(r.Intn(1000000000)))
			}
			if r.Chance(1, 12) {
				f.NotAfter = s.f.NotAfter.Add(time.Duration(hlib.Pick(r, 1, 500000000, 999999999)))
			}
			if r.Chance(1, 12) {
				f.NotBefore = s.f.NotBefore.Add(-time.Duration(hlib.Pick(r, 1, 500000000, 999999999)))
			}
			kc := s.f.Curve
			key := s.key
			useSigner := true
			switch r.Intn(27) {
			case 0:
				f.IsCA = true // CA signed by a CA
			case 1:
				useSigner = false // self-signed non-CA
			case 2:
				useSigner, f.IsCA = false, true // fresh self-signed CA
				f.Networks, f.Unsafe = cl.CANets(r, f.Version == 2), cl.CANets(r, f.Version == 2)
				key = cl.NewSignKey(r, cert.Curve(f.Curve))
				f.PublicKey = key.Pub
			case 3:
				f.Version = hlib.Pick(r, 0, 3, 7)
			case 4:
				f.Curve = 1 - f.Curve // certificate curve differs from the key's
			case 5:
				// a key (and claimed curve) of the other curve: the signer's curve is never consulted
				key = cl.NewSignKey(r, cert.Curve(1-s.f.Curve))
				kc = 1 - s.f.Curve
				f.Curve = kc
				f.PublicKey = cl.LeafPub(r, cert.Curve(kc))
			case 6:
				key = cl.NewSignKey(r, s.key.Curve) // not the signer's key
			case 7:
				f.PublicKey = nil
			case 8:
				f.Networks = nil
			case 9:
				f.Networks = append(f.Networks, f.Networks[0]) // duplicate
			case 10:
				if len(f.Unsafe) > 0 {
					f.Unsafe = append(f.Unsafe, f.Unsafe[0])
				}
			case 11:
				f.Networks = append(f.Networks, netip.MustParsePrefix("0.0.0.0/8"))
			case 12:
				f.Networks = append(f.Networks, netip.MustParsePrefix("::ffff:10.1.2.3/120"))
			case 13:
				f.Networks = append(f.Networks, netip.PrefixFrom(netip.MustParseAddr("10.9.9.9"), 40)) // invalid
			case 14:
				f.Unsafe = append(f.Unsafe, netip.MustParsePrefix("fd00:9::/64"))
			case 15:
				f.Unsafe = append(f.Unsafe, netip.PrefixFrom(netip.MustParseAddr("10.9.9.9"), 40))
			case 16:
				if f.Version == 1 {
					f.Name = "bad\xffutf8"
				} else {
					f.Groups = append(f.Groups, "\xfe")
				}
			case 17:
				f.Curve, kc = 2, 2
			case 18:
				kc = 1 - f.Curve%2 // the curve claimed for the key differs from the certificate's
			case 19:
				if f.Version == 2 { // IPv4 unsafe network without an IPv4 assignment
					f.Networks = []netip.Prefix{cl.Inside(r, cl.BasePrefix(r, true), 8)}
					f.Unsafe = []netip.Prefix{netip.MustParsePrefix("10.77.0.0/16")}
				}
			}
			keyBytes := key.Priv
			signerTag := s.tag
			tail := fmt.Sprintf(" %s %s", s.f.Desc(), s.fp)
			var keyok bool
			if useSigner {
				keyok = bytes.Equal(pubOf(kc, keyBytes), s.f.PublicKey)
			} else {
				signerTag, tail = "none", ""
				keyok = bytes.Equal(pubOf(kc, keyBytes), f.PublicKey)
			}
			keyparses := true
			if f.Curve == 1 {
				_, err := ecdsa.ParseRawPrivateKey(elliptic.P256(), keyBytes)
				keyparses = err == nil
			}
			if f.Curve == 0 && len(keyBytes) != 64 {
				continue // ed25519.Sign panics on a malformed key: outside the API's contract
			}
			emit("sign %d %s %s %s %s %s %s%s", kc, hlib.B(keyok), hlib.B(keyparses), hlib.B(marshalOK(f)), hlib.Hex(keyBytes), signerTag,
				f.Desc(), tail)
		}
	}
}

func TestEngine(t *testing.T) {
	hlib.Run(t, hlib.Engine{Name: "certsign", Gen: gen, NewExec: newExec})
}
