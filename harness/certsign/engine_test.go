// Engine `certsign` (C04): TBSCertificate.Sign against real CA certificates (both curves / versions) and stub
// CAs (arbitrary fields, sub-second bounds), then verification of the issued certificate against a pool
// holding its signer, and low-S inspection of every P-256 signature produced.
package certsign

import (
	"bytes"
	"crypto/ecdh"
	"crypto/ecdsa"
	"crypto/elliptic"
	"errors"
	"fmt"
	"net/netip"
	"strings"
	"testing"
	"testing/synctest"
	"time"
	"unicode/utf8"

	"github.com/slackhq/nebula/cert"
	"github.com/slackhq/nebula/cert/p256"
	cl "verifharness/certlib"
	"verifharness/hlib"
)

func verrKind(err error) string {
	if err == nil {
		return "ok"
	}
	msg := err.Error()
	switch {
	case errors.Is(err, cert.ErrBlockListed):
		return "err:blocklisted"
	case errors.Is(err, cert.ErrCaNotFound):
		return "err:ca-not-found"
	case errors.Is(err, cert.ErrCurveMismatch):
		return "err:curve"
	case errors.Is(err, cert.ErrRootExpired):
		return "err:root-expired"
	case errors.Is(err, cert.ErrExpired):
		return "err:expired"
	case errors.Is(err, cert.ErrSignatureMismatch):
		return "err:signature"
	case msg == "no issuer in certificate":
		return "err:no-issuer"
	case strings.HasPrefix(msg, "certificate expires after signing certificate"):
		return "err:after-ca"
	case strings.HasPrefix(msg, "certificate is valid before the signing certificate"):
		return "err:before-ca"
	case strings.HasPrefix(msg, "certificate contained a group not present"):
		return "err:group"
	case strings.HasPrefix(msg, "certificate contained a network assignment outside"):
		return "err:network"
	case strings.HasPrefix(msg, "certificate contained an unsafe network assignment outside"):
		return "err:unsafe-network"
	}
	return "err:other:" + strings.ReplaceAll(msg, " ", "_")
}

func signKind(err error) string {
	msg := err.Error()
	if k := cl.InvalidKind(err); k != "" {
		return k
	}
	switch {
	case errors.Is(err, cert.ErrEmptySignature):
		return "err:empty-signature"
	case strings.HasPrefix(msg, "curve in cert and private key supplied don't match"):
		return "err:key-curve"
	case strings.HasPrefix(msg, "can not sign a CA certificate with another"):
		return "err:ca-by-ca"
	case strings.HasPrefix(msg, "self signed certificates must have IsCA set to true"):
		return "err:self-not-ca"
	case strings.HasPrefix(msg, "unknown cert version"):
		return "err:unknown-version"
	case strings.HasPrefix(msg, "invalid curve"):
		return "err:invalid-curve"
	case strings.HasPrefix(msg, "error computing issuer"):
		return "err:issuer-fingerprint"
	case strings.Contains(msg, "invalid UTF-8"):
		return "err:marshal"
	case strings.HasPrefix(msg, "certificate expires after signing certificate"), strings.HasPrefix(msg, "certificate is valid before"),
		strings.HasPrefix(msg, "certificate contained"):
		return verrKind(err)
	}
	return "err:other:" + strings.ReplaceAll(msg, " ", "_")
}

func pubOf(curve int, key []byte) []byte {
	switch curve {
	case 0:
		if len(key) == 64 {
			return key[32:]
		}
	case 1:
		if k, err := ecdh.P256().NewPrivateKey(key); err == nil {
			return k.PublicKey().Bytes()
		}
	}
	return nil
}

func hasDup(ps []netip.Prefix) bool {
	for i := range ps {
		for j := i + 1; j < len(ps); j++ {
			if ps[i] == ps[j] {
				return true
			}
		}
	}
	return false
}

func marshalOK(f cl.Fields) bool {
	if f.Version != 1 {
		return true
	}
	if !utf8.ValidString(f.Name) {
		return false
	}
	for _, g := range f.Groups {
		if !utf8.ValidString(g) {
			return false
		}
	}
	return true
}

func newExec(t *testing.T) func([]string) string {
	return func(a []string) string {
		switch a[0] {
		case "sign":
			// sign kc keyok keyparses marshalok key signer TBS[12] [SIGNER[12] fp]
			if len(a) != 7+cl.DescLen && len(a) != 7+2*cl.DescLen+1 {
				return "bad-op"
			}
			kc := hlib.Atoi(a[1])
			key, err := hlib.UnHex(a[5])
			if err != nil {
				return "bad-op"
			}
			f := cl.ParseDesc(a[7 : 7+cl.DescLen])
			var signer cert.Certificate
			if a[6] != "none" {
				sd := a[7+cl.DescLen : 7+2*cl.DescLen]
				fp := a[7+2*cl.DescLen]
				if a[6] == "stub" {
					signer = &cl.Stub{F: cl.ParseDesc(sd), Fp: fp, SigOK: true}
				} else {
					raw, err := hlib.UnHex(a[6])
					if err != nil {
						return "bad-op"
					}
					c, err := cl.Decode(hlib.Atoi(sd[0]), raw)
					if err != nil || cl.Desc(c) != strings.Join(sd, " ") {
						return "op-inconsistent"
					}
					if got, _ := c.Fingerprint(); got != fp {
						return "op-inconsistent"
					}
					signer = c
				}
			}
			// the oracle bits must be what the real code / library computes
			keyok := false
			if signer != nil {
				keyok = bytes.Equal(pubOf(kc, key), signer.PublicKey())
			} else {
				keyok = bytes.Equal(pubOf(kc, key), f.PublicKey)
			}
			keyparses := true
			if f.Curve == 1 {
				_, err := ecdsa.ParseRawPrivateKey(elliptic.P256(), key)
				keyparses = err == nil
			}
			if hlib.B(keyok) != a[2] || hlib.B(keyparses) != a[3] || hlib.B(marshalOK(f)) != a[4] {
				return "op-inconsistent"
			}
			tbs := &cert.TBSCertificate{Version: cert.Version(f.Version), Name: f.Name, Networks: f.Networks, UnsafeNetworks: f.Unsafe,
				Groups: f.Groups, IsCA: f.IsCA, NotBefore: f.NotBefore, NotAfter: f.NotAfter, PublicKey: f.PublicKey, Curve: cert.Curve(f.Curve)}
			dupNets := hasDup(f.Networks)
			c, err := tbs.Sign(signer, cert.Curve(kc), key)
			if err != nil {
				if !keyparses {
					return "err:key-parse"
				}
				k := signKind(err)
				if k == "err:invalid:duplicate" {
					if dupNets {
						return "err:invalid:duplicate-network"
					}
					return "err:invalid:duplicate-unsafe"
				}
				return k
			}
			out := cl.FieldsOf(c)
			sig := out.Signature
			out.Signature = nil
			lowS := "-"
			if c.Curve() == cert.Curve_P256 {
				// decided here, not by the code under test: S <= N/2 in a well-formed DER signature
				low, wf := cl.LowS(sig)
				lowS = hlib.B(wf && low)
			}
			pool := cert.NewCAPool()
			if signer != nil {
				pool.AddCA(signer) // an expired CA is stored all the same
				_, e1 := pool.VerifyCertificate(c.NotBefore(), c)
				_, e2 := pool.VerifyCertificate(c.NotAfter(), c)
				return fmt.Sprintf("ok %s %s %s %s", out.Desc(), lowS, verrKind(e1), verrKind(e2))
			}
			var aerr error
			synctest.Test(t, func(t *testing.T) { aerr = pool.AddCA(c) })
			ak := "ok"
			switch {
			case errors.Is(aerr, cert.ErrExpired):
				ak = "err:expired"
			case errors.Is(aerr, cert.ErrNotCA):
				ak = "err:not-ca"
			case errors.Is(aerr, cert.ErrNotSelfSigned):
				ak = "err:not-self-signed"
			case aerr != nil:
				ak = "err:other"
			}
			return fmt.Sprintf("ok %s %s %s -", out.Desc(), lowS, ak)
		case "norm":
			if len(a) != 2 {
				return "bad-op"
			}
			sig, err := hlib.UnHex(a[1])
			if err != nil {
				return "bad-op"
			}
			n := "err"
			if ok, err := p256.IsNormalized(sig); err == nil {
				n = hlib.B(ok)
			}
			oh := func(b []byte, err error) string {
				if err != nil {
					return "err"
				}
				return hlib.Hex(b)
			}
			return fmt.Sprintf("%s %s %s", n, oh(p256.Normalize(sig)), oh(p256.Swap(sig)))
		case "sws":
			// sws <ver> <sig>: a self-signed P-256 CA issued through SignWith by a signer that answers <sig>
			if len(a) != 3 {
				return "bad-op"
			}
			scripted, err := hlib.UnHex(a[2])
			if err != nil {
				return "bad-op"
			}
			pub := make([]byte, 65)
			pub[0] = 4
			tbs := &cert.TBSCertificate{Version: cert.Version(hlib.Atoi(a[1])), Name: "ca", IsCA: true, Curve: cert.Curve_P256, PublicKey: pub,
				NotBefore: time.Unix(cl.Epoch-3600, 0), NotAfter: time.Unix(cl.Epoch+3600, 0)}
			c, err := tbs.SignWith(nil, cert.Curve_P256, func([]byte) ([]byte, error) { return scripted, nil })
			if err != nil {
				if errors.Is(err, cert.ErrEmptySignature) {
					return "err:empty-signature"
				}
				if k := signKind(err); !strings.HasPrefix(k, "err:other:") {
					return k
				}
				return "err:normalize"
			}
			low, wf := cl.LowS(c.Signature())
			return fmt.Sprintf("ok %s %s", hlib.Hex(c.Signature()), hlib.B(wf && low))
		}
		return "bad-op"
	}
}

// ---- generator -------------------------------------------------------------------------------------

type signer struct {
	tag string // "stub" or hex of the encoding
	c   cert.Certificate
	f   cl.Fields
	fp  string
	key *cl.SignKey
}

func newSigner(r *hlib.Rand) *signer {
	version := hlib.Pick(r, 1, 2, 2)
	curve := cert.Curve(hlib.Pick(r, 0, 0, 1))
	key := cl.NewSignKey(r, curve)
	nb, na := cl.CAWindow(r)
	f := cl.Fields{Version: version, Curve: int(curve), IsCA: true, NotBefore: nb, NotAfter: na, Name: "ca",
		Networks: cl.CANets(r, version == 2), Unsafe: cl.CANets(r, version == 2), PublicKey: key.Pub}
	f.Groups = cl.CAGroups(r)
	if r.Chance(1, 4) {
		// stub CA: arbitrary fields, sub-second bounds, but a real key so that issued certificates verify
		if r.Bool() {
			f.NotBefore = f.NotBefore.Add(time.Duration(r.Intn(1000000000)))
			f.NotAfter = f.NotAfter.Add(time.Duration(r.Intn(1000000000)))
		}
		f.Version = hlib.Pick(r, 1, 2, 3)
		if r.Chance(1, 3) {
			f.Networks = append(f.Networks, cl.BasePrefix(r, true))
		}
		fp := hlib.Hex(r.Bytes(32))
		return &signer{tag: "stub", c: &cl.Stub{F: f, Fp: fp, SigOK: true}, f: f, fp: fp, key: key}
	}
	raw := cl.Craft(f, key, nil)
	c, err := cl.Decode(version, raw)
	if err != nil {
		return newSigner(r) // e.g. the same range drawn twice: the decoder's validate refuses duplicates
	}
	fp, _ := c.Fingerprint()
	return &signer{tag: hlib.Hex(raw), c: c, f: cl.FieldsOf(c), fp: fp, key: key}
}

func gen(r *hlib.Rand, n int, tier, profile string, emit func(string, ...any)) {
	// cert/p256 at the low-S boundary, directly and through SignWith with a signer that answers such signatures
	for _, sig := range cl.BoundarySigs(r) {
		emit("norm %s", hlib.Hex(sig))
		emit("sws %d %s", hlib.Pick(r, 1, 2), hlib.Hex(sig))
	}
	emit("sws 2 -")
	emit("sws 1 00")
	rk := cl.NewSignKey(r, cert.Curve_P256)
	for i := 0; i < 6; i++ {
		sig := rk.SignRaw(r.Bytes(16))
		emit("norm %s", hlib.Hex(sig))
		emit("sws %d %s", hlib.Pick(r, 1, 2), hlib.Hex(sig))
	}
	for i := 0; i < n; {
		s := newSigner(r)
		for j, k := 0, hlib.Pick(r, 2, 4, 8); j < k && i < n; j++ {
			i++
			f := cl.LeafFields(r, s.f, "", true)
			f.Issuer = ""
			if r.Chance(1, 6) { // sub-second requested validity (inside or just outside the CA's bounds)
				f.NotBefore = f.NotBefore.Add(time.Duration(r.Intn(1000000000)))
				f.NotAfter = f.NotAfter.Add(-time.Duration(r.Intn(1000000000)))
			}
			if r.Chance(1, 12) {
				f.NotAfter = s.f.NotAfter.Add(time.Duration(hlib.Pick(r, 1, 500000000, 999999999)))
			}
			if r.Chance(1, 12) {
				f.NotBefore = s.f.NotBefore.Add(-time.Duration(hlib.Pick(r, 1, 500000000, 999999999)))
			}
			kc := s.f.Curve
			key := s.key
			useSigner := true
			switch r.Intn(27) {
			case 0:
				f.IsCA = true // CA signed by a CA
			case 1:
				useSigner = false // self-signed non-CA
			case 2:
				useSigner, f.IsCA = false, true // fresh self-signed CA
				f.Networks, f.Unsafe = cl.CANets(r, f.Version == 2), cl.CANets(r, f.Version == 2)
				key = cl.NewSignKey(r, cert.Curve(f.Curve))
				f.PublicKey = key.Pub
			case 3:
				f.Version = hlib.Pick(r, 0, 3, 7)
			case 4:
				f.Curve = 1 - f.Curve // certificate curve differs from the key's
			case 5:
				// a key (and claimed curve) of the other curve: the signer's curve is never consulted
				key = cl.NewSignKey(r, cert.Curve(1-s.f.Curve))
				kc = 1 - s.f.Curve
				f.Curve = kc
				f.PublicKey = cl.LeafPub(r, cert.Curve(kc))
			case 6:
				key = cl.NewSignKey(r, s.key.Curve) // not the signer's key
			case 7:
				f.PublicKey = nil
			case 8:
				f.Networks = nil
			case 9:
				f.Networks = append(f.Networks, f.Networks[0]) // duplicate
			case 10:
				if len(f.Unsafe) > 0 {
					f.Unsafe = append(f.Unsafe, f.Unsafe[0])
				}
			case 11:
				f.Networks = append(f.Networks, netip.MustParsePrefix("0.0.0.0/8"))
			case 12:
				f.Networks = append(f.Networks, netip.MustParsePrefix("::ffff:10.1.2.3/120"))
			case 13:
				f.Networks = append(f.Networks, netip.PrefixFrom(netip.MustParseAddr("10.9.9.9"), 40)) // invalid
			case 14:
				f.Unsafe = append(f.Unsafe, netip.MustParsePrefix("fd00:9::/64"))
			case 15:
				f.Unsafe = append(f.Unsafe, netip.PrefixFrom(netip.MustParseAddr("10.9.9.9"), 40))
			case 16:
				if f.Version == 1 {
					f.Name = "bad\xffutf8"
				} else {
					f.Groups = append(f.Groups, "\xfe")
				}
			case 17:
				f.Curve, kc = 2, 2
			case 18:
				kc = 1 - f.Curve%2 // the curve claimed for the key differs from the certificate's
			case 19:
				if f.Version == 2 { // IPv4 unsafe network without an IPv4 assignment
					f.Networks = []netip.Prefix{cl.Inside(r, cl.BasePrefix(r, true), 8)}
					f.Unsafe = []netip.Prefix{netip.MustParsePrefix("10.77.0.0/16")}
				}
			}
			keyBytes := key.Priv
			signerTag := s.tag
			tail := fmt.Sprintf(" %s %s", s.f.Desc(), s.fp)
			var keyok bool
			if useSigner {
				keyok = bytes.Equal(pubOf(kc, keyBytes), s.f.PublicKey)
			} else {
				signerTag, tail = "none", ""
				keyok = bytes.Equal(pubOf(kc, keyBytes), f.PublicKey)
			}
			keyparses := true
			if f.Curve == 1 {
				_, err := ecdsa.ParseRawPrivateKey(elliptic.P256(), keyBytes)
				keyparses = err == nil
			}
			if f.Curve == 0 && len(keyBytes) != 64 {
				continue // ed25519.Sign panics on a malformed key: outside the API's contract
			}
			emit("sign %d %s %s %s %s %s %s%s", kc, hlib.B(keyok), hlib.B(keyparses), hlib.B(marshalOK(f)), hlib.Hex(keyBytes), signerTag,
				f.Desc(), tail)
		}
	}
}

func TestEngine(t *testing.T) {
	hlib.Run(t, hlib.Engine{Name: "certsign", Gen: gen, NewExec: newExec})
}
