// Engine `fwrules` (C16, C17): Firewall.AddRule / FirewallTable.match / Firewall.Drop with the address
// checks, against generated rule sets, certificates and packets aimed at the rules' own boundaries.
package fwrules

import (
	"fmt"
	"testing"

	"github.com/slackhq/nebula"
	"github.com/slackhq/nebula/config"
	"github.com/slackhq/nebula/firewall"
	"net/netip"
	"verifharness/fwlib"
	"verifharness/hlib"
	"verifharness/inside"
)

const hour = uint64(3600 * 1000000000)

// caFamily is a deterministic family for FirewallCA.match: every combination of 2 or 3 rules of the kinds
// {ca_sha, ca_name, CA-less} (with repetition) in one (direction, protocol, port) bucket x which of them match on
// their remaining selector x a peer issued by that CA, by another CA in the pool, or by an unknown CA.
func caFamily(emit func(string, ...any)) int {
	kinds := []string{"sha", "name", "none"}
	var combos [][]string
	for i := range kinds {
		for j := i; j < len(kinds); j++ {
			combos = append(combos, []string{kinds[i], kinds[j]})
			for k := j; k < len(kinds); k++ {
				combos = append(combos, []string{kinds[i], kinds[j], kinds[k]})
			}
		}
	}
	ops := 0
	for ci, combo := range combos {
		for mask := 0; mask < 1<<len(combo); mask++ {
			emit("reset 0 %d %d %d 0 me 0a000001/8 - - ca1", 1000*hour, 1000*hour, 1000*hour)
			emit("ca ca1 caA")
			emit("ca ca2 caB")
			emit("peer pa h1 0a000002/8 - g1 ca1")
			emit("peer pb h1 0a000003/8 - g1 ca2")
			emit("peer pc h1 0a000004/8 - g1 ca9")
			dir := "in"
			if (ci+mask)%3 == 0 {
				dir = "out"
			}
			for i, kind := range combo {
				group := "gx" // a group nobody has: the rule does not match on its remaining selector
				if mask&(1<<i) != 0 {
					group = "g1"
				}
				caName, caSha := "-", "-"
				switch kind {
				case "sha":
					caSha = "ca1"
				case "name":
					caName = "caA"
				}
				emit("rule %s 6 80 80 %s - - any %s %s", dir, group, caName, caSha)
			}
			for i, peer := range []string{"pa", "pb", "pc"} {
				verb := "match"
				if (ci+mask+i)%4 == 0 {
					verb = "drop"
				}
				if dir == "in" {
					emit("%s %s in 0a000001 0a00000%d 80 4000 6 0", verb, peer, i+2)
				} else {
					emit("%s %s out 0a000001 0a00000%d 4000 80 6 0", verb, peer, i+2)
				}
				ops++
			}
		}
	}
	return ops
}

// addrFamily is a deterministic family for the address checks: peers whose certified prefixes are supernets /
// subnets of this node's network or only overlap it, with the address inside or outside it, alone or after an
// in-network address; allow-everything rules; every certified address as remote address in both directions.
func addrFamily(emit func(string, ...any)) int {
	type pc struct{ nets, unsafe string }
	nodes := []struct {
		me    string
		local string
		peers []pc
		probe []string
	}{
		{"0a010101/24", "0a010101", []pc{
			{"0a020005/8", "-"},                                      // supernet of the node's /24, address outside it
			{"0a010107/8", "-"},                                      // supernet, address inside
			{"0a010107/24,0a020005/8", "-"},                          // in-network address first, then a supernet one outside
			{"0a010107/24,ac100002/24", "-"},                         // in-network first, then a disjoint one
			{"ac100002/24,0a010107/24", "-"},                         // the other order
			{"0a010109/28", "-"},                                     // subnet
			{"0a010107/24,fd000000000000000000000000000002/64", "-"}, // an address of a family the node has no network for
			{"0a020005/8", "c0a80000/16"},                            // outside address plus an unsafe network
			{"0a010107/24", "0a020000/16"},                           // unsafe network next to the node's network
		}, []string{"0a020005", "0a010107", "ac100002", "0a010109", "fd000000000000000000000000000002", "c0a80105", "0a020105", "0a010163"}},
		{"fd000000000000000000000000000001/64", "fd000000000000000000000000000001", []pc{
			{"fd000000000000010000000000000005/48", "-"},
			{"fd000000000000000000000000000007/64,fd000000000000010000000000000005/48", "-"},
			{"fd000000000000000000000000000007/120", "-"},
		}, []string{"fd000000000000010000000000000005", "fd000000000000000000000000000007"}},
	}
	ops := 0
	for _, nd := range nodes {
		emit("reset 0 %d %d %d 0 me %s - - ca1", 1000*hour, 1000*hour, 1000*hour, nd.me)
		for i, p := range nd.peers {
			emit("peer q%d h1 %s %s g1 ca1", i, p.nets, p.unsafe)
		}
		emit("rule in 0 0 0 - any - any - -")
		emit("rule out 0 0 0 - any - any - -")
		for i := range nd.peers {
			for j, a := range nd.probe {
				dir := "in"
				if (i+j)%2 == 1 {
					dir = "out"
				}
				emit("drop q%d %s %s %s 80 %d 6 0", i, dir, nd.local, a, 4000+i)
				ops++
			}
		}
	}
	return ops
}

// recertFamily is a deterministic family for "the node-side address must be inside the *certified* unsafe
// networks": a flow to an address inside an unsafe network of this node is established (tracked), the certificate
// is re-issued without / with another / with the same unsafe network and the firewall reloaded (conntrack shared,
// allow-everything rules with local_cidr any), then the same tuple again in both directions, and a fresh tuple.
func recertFamily(emit func(string, ...any)) int {
	ops := 0
	for _, sc := range []struct{ dlca, unsafe, next, rule string }{
		{"1", "c0a80000/16", "-", "in 0 0 0 - any - - - -"},
		{"0", "c0a80000/16", "-", "in 0 0 0 - any - any - -"},
		{"0", "c0a80000/16", "ac100000/12", "out 0 0 0 - any - any - -"},
		{"0", "c0a80000/16,ac100000/12", "ac100000/12", "in 6 80 80 - any - c0a80100/24 - -"},
		{"0", "c0a80000/16", "c0a80000/16", "in 0 0 0 - any - any - -"},
		{"0", "c0a80000/16", "c0a80000/24", "in 0 0 0 - any - any - -"},
	} {
		emit("reset %s %d %d %d 0 me 0a000001/8 %s - ca1", sc.dlca, 1000*hour, 1000*hour, 1000*hour, sc.unsafe)
		emit("peer p0 h1 0a000002/8 - g1 ca1")
		emit("rule %s", sc.rule)
		for _, local := range []string{"c0a80105", "0a000001"} {
			for _, d := range []string{"in", "out"} {
				emit("drop p0 %s %s 0a000002 80 4000 6 0", d, local)
				ops++
			}
		}
		emit("recert %s", sc.next)
		ops++
		for _, local := range []string{"c0a80105", "0a000001", "c0a80005"} {
			for _, d := range []string{"in", "out"} {
				emit("drop p0 %s %s 0a000002 80 4000 6 0", d, local)
				ops++
			}
		}
		emit("drop p0 in c0a80105 0a000002 81 4001 6 0")
		ops++
	}
	return ops
}

func gen(r *hlib.Rand, n int, tier, profile string, emit func(string, ...any)) {
	ops := 0
	if profile == "C17" {
		ops += addrFamily(emit)
		ops += recertFamily(emit)
		// the outbound packet path around the same firewall (engine `inside`, harness/inside)
		ops += inside.Family(emit)
	} else {
		ops += caFamily(emit)
	}
	for ops < n {
		maxRules := 8
		if r.Chance(1, 10) {
			maxRules = 20
		}
		w := fwlib.GenWorld(r, maxRules)
		cache := uint64(0)
		if profile == "C17" {
			// regardless of rules: often allow-everything in both directions; routine cache on half the time
			if r.Bool() {
				w.Rules = append(w.Rules, fwlib.Rule{Incoming: true, Host: "any", LocalCidr: "any"}, fwlib.Rule{Incoming: false, Host: "any", LocalCidr: "any"})
			}
			if r.Bool() {
				cache = hour
			}
		}
		w.EmitSetup(emit, 1000*hour, 1000*hour, 1000*hour, cache)
		k := r.Range(8, 30)
		for i := 0; i < k; i++ {
			if profile == "C17" && r.Chance(1, 3) {
				// a packet read from tun: consumeInsidePacket on an Interface around this firewall
				emit("%s", inside.GenCase(r, w).Line())
				ops++
				continue
			}
			pi := r.Intn(len(w.Peers))
			p, incoming := w.GenPacket(r, w.Peers[pi])
			if pr, ok := w.GenProbe(r); ok && r.Chance(1, 3) {
				pi, p, incoming = pr.Peer, pr.P, pr.Incoming
			}
			if profile == "C17" && r.Chance(1, 3) {
				// spoofing: another peer's address, an edge of somebody's network, an address of this node
				switch r.Intn(3) {
				case 0:
					p.RemoteAddr = w.Remote[r.Intn(len(w.Remote))]
				case 1:
					p.LocalAddr = w.Local[r.Intn(len(w.Local))]
				default:
					p.RemoteAddr, p.LocalAddr = p.LocalAddr, p.RemoteAddr
				}
			}
			verb := "drop"
			if profile == "C16" && r.Chance(1, 3) || profile != "C16" && r.Chance(1, 10) {
				verb = "match"
			}
			emit("%s p%d %s %s", verb, pi, fwlib.Dir(incoming), fwlib.PacketTokens(p))
			ops++
			if verb == "drop" && r.Chance(1, 3) {
				// the same tuple again, possibly the other way round / from another peer: tracked flows
				if r.Chance(1, 3) {
					pi = r.Intn(len(w.Peers))
				}
				emit("drop p%d %s %s", pi, fwlib.Dir(r.Bool()), fwlib.PacketTokens(p))
				ops++
			}
			if r.Chance(1, 8) {
				emit("clear")
			}
			if profile == "C17" && r.Chance(1, 12) {
				ops += recertEpisode(r, w, emit)
			}
			if r.Chance(1, 25) {
				// rules can be added while traffic flows
				emit("rule %s", w.GenRule(r).Tokens())
			}
		}
	}
}

// recertEpisode: flows to addresses inside this node's unsafe networks (and to its own address) are established,
// the certificate is re-issued with other unsafe networks (none / one removed / another one / a narrower one /
// the same), and the flows are tried again in both directions. After `recert` the rules are allow-everything.
func recertEpisode(r *hlib.Rand, w *fwlib.World, emit func(string, ...any)) int {
	ops := 0
	cur := w.My.CUnsafe
	type fl struct {
		peer int
		p    firewall.Packet
	}
	var flows []fl
	for j := r.Range(1, 3); j > 0; j-- {
		var f fl
		f.peer = r.Intn(len(w.Peers))
		f.p, _ = w.GenPacket(r, w.Peers[f.peer])
		f.p.RemoteAddr = w.Peers[f.peer].CNets[0].Addr()
		f.p.LocalAddr = w.My.CNets[0].Addr()
		if len(cur) > 0 && r.Chance(4, 5) {
			u := cur[r.Intn(len(cur))]
			f.p.LocalAddr = fwlib.AddrIn(r, u)
		}
		flows = append(flows, f)
		for _, d := range []bool{true, false} {
			emit("drop p%d %s %s", f.peer, fwlib.Dir(d), fwlib.PacketTokens(f.p))
			ops++
		}
	}
	var next []netip.Prefix
	switch r.Intn(5) {
	case 0:
	case 1:
		if len(cur) > 0 {
			k := r.Intn(len(cur))
			next = append(append(next, cur[:k]...), cur[k+1:]...)
		}
	case 2:
		next = []netip.Prefix{fwlib.RandPrefixAround(r, fwlib.RandAddr(r, w.My.CNets[0].Addr().Is6())).Masked()}
	case 3:
		if len(cur) > 0 {
			u := cur[0]
			if u.Bits() < u.Addr().BitLen() {
				u = netip.PrefixFrom(u.Addr(), u.Bits()+1).Masked()
			}
			next = append([]netip.Prefix{u}, cur[1:]...)
		}
	default:
		next = cur
	}
	emit("recert %s", fwlib.PrefixesTok(next))
	ops++
	w.My.CUnsafe = next
	w.Rules = []fwlib.Rule{{Incoming: true, Host: "any", LocalCidr: "any"}, {Incoming: false, Host: "any", LocalCidr: "any"}}
	for _, f := range flows {
		for _, d := range []bool{r.Bool(), true, false} {
			emit("drop p%d %s %s", f.peer, fwlib.Dir(d), fwlib.PacketTokens(f.p))
			ops++
		}
	}
	return ops
}

// recertYAML is the configuration the `recert` op reloads with: allow everything in both directions.
func recertYAML(e *fwlib.Exec) string {
	any := "    - port: \"any\"\n      proto: \"any\"\n      host: \"any\"\n      local_cidr: \"any\"\n"
	return fmt.Sprintf("firewall:\n  default_local_cidr_any: %v\n  conntrack:\n    tcp_timeout: \"%dns\"\n    udp_timeout: \"%dns\"\n    default_timeout: \"%dns\"\n  inbound:\n%s  outbound:\n%s",
		e.DLCA, e.Timeout[0].Nanoseconds(), e.Timeout[1].Nanoseconds(), e.Timeout[2].Nanoseconds(), any, any)
}

func extra(e *fwlib.Exec, a []string) (string, bool) {
	if a[0] != "recert" || len(a) != 2 {
		return inside.Extra(e, a)
	}
	if e.Fw == nil {
		return "bad-op", true
	}
	// a fresh config object whose firewall section changes on the reload: reloadFirewall always rebuilds
	cfg := config.NewC(e.L)
	if err := cfg.LoadString("firewall:\n  verif_initial: true\n"); err != nil {
		return "err:config " + err.Error(), true
	}
	if err := cfg.ReloadConfigString(recertYAML(e)); err != nil {
		return "err:config " + err.Error(), true
	}
	c := *e.My
	c.CUnsafe = fwlib.UnPrefixes(a[1])
	old := e.Fw
	e.Fw = nebula.VerifFwReload(e.L, old, &c, cfg)
	if e.Fw == old {
		return "failed", true
	}
	e.My = &c
	return fmt.Sprintf("reloaded %d", nebula.VerifFwRulesVersion(e.Fw)), true
}

func newExec(t *testing.T) func([]string) string {
	e := &fwlib.Exec{T: t, Extra: extra}
	return e.Do
}

func TestEngine(t *testing.T) {
	hlib.Run(t, hlib.Engine{Name: "fwrules", Gen: gen, NewExec: newExec, Synctest: true})
}
