// Engine `fwrules` (C16, C17): Firewall.AddRule / FirewallTable.match / Firewall.Drop with the address
// checks, against generated rule sets, certificates and packets aimed at the rules' own boundaries.
package fwrules

import (
	"testing"

	"verifharness/fwlib"
	"verifharness/hlib"
)

const hour = uint64(3600 * 1000000000)

func gen(r *hlib.Rand, n int, tier, profile string, emit func(string, ...any)) {
	ops := 0
	for ops < n {
		maxRules := 8
		if r.Chance(1, 10) {
			maxRules = 20
		}
		w := fwlib.GenWorld(r, maxRules)
		cache := uint64(0)
		if profile == "C17" {
			// regardless of rules: often allow-everything in both directions; routine cache on half the time
			if r.Bool() {
				w.Rules = append(w.Rules, fwlib.Rule{Incoming: true, Host: "any", LocalCidr: "any"}, fwlib.Rule{Incoming: false, Host: "any", LocalCidr: "any"})
			}
			if r.Bool() {
				cache = hour
			}
		}
		w.EmitSetup(emit, 1000*hour, 1000*hour, 1000*hour, cache)
		k := r.Range(8, 30)
		for i := 0; i < k; i++ {
			pi := r.Intn(len(w.Peers))
			p, incoming := w.GenPacket(r, w.Peers[pi])
			if pr, ok := w.GenProbe(r); ok && r.Chance(1, 3) {
				pi, p, incoming = pr.Peer, pr.P, pr.Incoming
			}
			if profile == "C17" && r.Chance(1, 3) {
				// spoofing: another peer's address, an edge of somebody's network, an address of this node
				switch r.Intn(3) {
				case 0:
					p.RemoteAddr = w.Remote[r.Intn(len(w.Remote))]
				case 1:
					p.LocalAddr = w.Local[r.Intn(len(w.Local))]
				default:
					p.RemoteAddr, p.LocalAddr = p.LocalAddr, p.RemoteAddr
				}
			}
			verb := "drop"
			if profile == "C16" && r.Chance(1, 3) || profile != "C16" && r.Chance(1, 10) {
				verb = "match"
			}
			emit("%s p%d %s %s", verb, pi, fwlib.Dir(incoming), fwlib.PacketTokens(p))
			ops++
			if verb == "drop" && r.Chance(1, 3) {
				// the same tuple again, possibly the other way round / from another peer: tracked flows
				if r.Chance(1, 3) {
					pi = r.Intn(len(w.Peers))
				}
				emit("drop p%d %s %s", pi, fwlib.Dir(r.Bool()), fwlib.PacketTokens(p))
				ops++
			}
			if r.Chance(1, 8) {
				emit("clear")
			}
			if r.Chance(1, 25) {
				// rules can be added while traffic flows
				emit("rule %s", w.GenRule(r).Tokens())
			}
		}
	}
}

func newExec(t *testing.T) func([]string) string {
	e := &fwlib.Exec{T: t}
	return e.Do
}

func TestEngine(t *testing.T) {
	hlib.Run(t, hlib.Engine{Name: "fwrules", Gen: gen, NewExec: newExec, Synctest: true})
}
