// Engine `csum` (C25): checksumAVX2 (assembly, through a verif hook), the dispatching
// checksum.Checksum and gvisor's checksum.Checksum on the same buffers.
package csum

import (
	"fmt"
	"testing"
	"unsafe"

	gvisorchecksum "gvisor.dev/gvisor/pkg/tcpip/checksum"

	"github.com/slackhq/nebula/overlay/checksum"
	"verifharness/hlib"
)

// patBytes mirrors Nebula.Driver.Csum.patBytes.
func patBytes(kind int, pseed uint64, n int) []byte {
	b := make([]byte, n)
	r := hlib.NewRand(pseed)
	for i := range b {
		switch kind {
		case 0:
			b[i] = 0
		case 1:
			b[i] = 0xff
		case 2:
			if i%2 == 0 {
				b[i] = 0xff
			}
		case 3:
			if i%2 == 1 {
				b[i] = 0xff
			}
		case 4:
			b[i] = byte(r.U64())
		default:
			z := r.U64()
			if (z>>8)&3 == 0 {
				b[i] = byte(z)
			} else {
				b[i] = 0xff
			}
		}
	}
	return b
}

var seeds = []int{0, 1, 0x00ff, 0xff00, 0xfffe, 0xffff}

func pickSeed(r *hlib.Rand) int {
	if r.Chance(1, 3) {
		return r.Intn(65536)
	}
	return seeds[r.Intn(len(seeds))]
}

func gen(r *hlib.Rand, n int, tier, profile string, emit func(string, ...any)) {
	if tier == "thorough" {
		// the grid of DESIGN §5 C25: every length 0..4096 x 8 start offsets mod 32 x the six fixed seeds +
		// one random; the pattern rotates (one draw per grid point and generator seed)
		offs := []int{0, 1, 2, 3, 4, 8, 16, 31}
		for ln := 0; ln <= 4096; ln++ {
			for _, off := range offs {
				for si := 0; si <= len(seeds); si++ {
					sd := r.Intn(65536)
					if si < len(seeds) {
						sd = seeds[si]
					}
					emit("pat %d %d %d %d %d", r.Intn(6), r.U64()>>1, ln, off, sd)
				}
			}
		}
	} else {
		// every length 0..4096 once, rotating patterns, offsets and seeds
		for ln := 0; ln <= 4096; ln++ {
			emit("pat %d %d %d %d %d", 1+r.Intn(5), r.U64()>>1, ln, r.Intn(64), pickSeed(r))
		}
	}
	for i := 0; i < n; i++ {
		switch r.Intn(32) {
		case 0, 3, 4, 5: // explicit small buffers
			ln := hlib.Pick(r, 0, 1, 2, 3, 4, 7, 8, 9, 31, 32, 33, 63, 64, 65, r.Intn(200))
			b := r.Bytes(ln)
			if r.Bool() {
				for j := range b {
					if r.Chance(3, 4) {
						b[j] = 0xff
					}
				}
			}
			emit("sum %s %d", hlib.Hex(b), pickSeed(r))
		case 1: // large buffers around the practical maximum
			ln := hlib.Pick(r, 16383, 16384, 16385, 65535, 65536, 65537, 9000+r.Intn(100), 1500-r.Intn(64), 40000+r.Intn(30000))
			emit("pat %d %d %d %d %d", r.Intn(6), r.U64()>>1, ln, r.Intn(64), pickSeed(r))
		case 2: // all-zero and all-ones: the 0 / 0xffff distinction
			emit("pat %d 0 %d %d %d", r.Intn(2), r.Intn(300), r.Intn(64), hlib.Pick(r, 0, 0, 0xffff, pickSeed(r)))
		default: // around every block boundary of the assembly
			base := hlib.Pick(r, 0, 32, 64, 96, 128, 192, 256, 1024, 4096, 64*r.Intn(80))
			ln := base + hlib.Pick(r, 0, 1, 2, 3, 4, 5, 6, 7, 8, 9, 15, 16, 17, 31, 33, 47, 63, r.Intn(64))
			emit("pat %d %d %d %d %d", r.Intn(6), r.U64()>>1, ln, r.Intn(64), pickSeed(r))
		}
	}
}

// place copies b into a fresh backing array so that &out[0] is `off` bytes past a 64-byte boundary
// and cap(out) == len(out) (a read beyond the end leaves the slice).
func place(b []byte, off int) []byte {
	back := make([]byte, len(b)+off+128)
	base := uintptr(unsafe.Pointer(&back[0]))
	pad := int((64 - base%64) % 64)
	start := pad + off%64
	out := back[start : start+len(b) : start+len(b)]
	copy(out, b)
	return out
}

func run(b []byte, off int, seed uint16) string {
	buf := place(b, off)
	a := "na"
	if checksum.VerifHasAVX2() {
		a = fmt.Sprint(checksum.VerifChecksumAVX2(buf, seed))
	}
	d := checksum.Checksum(buf, seed)
	g := gvisorchecksum.Checksum(buf, seed)
	for i := range b {
		if buf[i] != b[i] {
			return "buffer-modified"
		}
	}
	return fmt.Sprintf("a=%s d=%d g=%d", a, d, g)
}

func newExec(t *testing.T) func([]string) string {
	return func(a []string) string {
		switch a[0] {
		case "sum":
			if len(a) != 3 {
				return "bad-op"
			}
			b, err := hlib.UnHex(a[1])
			sd := hlib.Atoi(a[2])
			if err != nil || sd < 0 || sd > 65535 {
				return "bad-op"
			}
			return run(b, 0, uint16(sd))
		case "pat":
			if len(a) != 6 {
				return "bad-op"
			}
			kind, ps, ln, off, sd := hlib.Atoi(a[1]), hlib.Atou(a[2]), hlib.Atoi(a[3]), hlib.Atoi(a[4]), hlib.Atoi(a[5])
			if sd < 0 || sd > 65535 || ln < 0 || ln > 1048576 {
				return "bad-op"
			}
			return run(patBytes(kind, ps, ln), off, uint16(sd))
		}
		return "bad-op"
	}
}

func TestEngine(t *testing.T) {
	hlib.Run(t, hlib.Engine{Name: "csum", Gen: gen, NewExec: newExec})
}
