// Engine `csum` (C25): checksumAVX2 (assembly, through a verif hook), the dispatching
// checksum.Checksum and gvisor's checksum.Checksum on the same buffers.
package csum

import (
	"encoding/binary"
	"fmt"
	"math/bits"
	"os"
	"path/filepath"
	"strings"
	"testing"
	"unsafe"

	gvisorchecksum "gvisor.dev/gvisor/pkg/tcpip/checksum"

	"github.com/slackhq/nebula/overlay/checksum"
	"verifharness/hlib"
)

// patBytes mirrors Nebula.Driver.Csum.patBytes.
func patBytes(kind int, pseed uint64, n int) []byte {
	b := make([]byte, n)
	r := hlib.NewRand(pseed)
	for i := range b {
		switch kind {
		case 0:
			b[i] = 0
		case 1:
			b[i] = 0xff
		case 2:
			if i%2 == 0 {
				b[i] = 0xff
			}
		case 3:
			if i%2 == 1 {
				b[i] = 0xff
			}
		case 4:
			b[i] = byte(r.U64())
		default:
			z := r.U64()
			if (z>>8)&3 == 0 {
				b[i] = byte(z)
			} else {
				b[i] = 0xff
			}
		}
	}
	return b
}

var seeds = []int{0, 1, 0x00ff, 0xff00, 0xfffe, 0xffff}

func pickSeed(r *hlib.Rand) int {
	if r.Chance(1, 3) {
		return r.Intn(65536)
	}
	return seeds[r.Intn(len(seeds))]
}

// ---------------------------------------------------------------------------------------------
// carry-saturation family (deterministic; independent of the generator seed)
//
// Random bytes put the 64-bit end-around-carry accumulator of the scalar tail within a few units of
// 2^64 with probability ~2^-62, so carries *between* the qword adds, into the 4/2/1-byte tails and
// through the fold rounds are never exercised by patterns alone. This family simulates the reference
// accumulator and computes buffer words so that it lands exactly on 2^64-1 / -2 / -3 (after 0, 1 or
// 2 earlier wraps) and the next add is the minimal wrapping / maximal non-wrapping value, for every
// tail structure (0..3 qword steps, then 4/2/1-byte tails), with and without a 32/64/96-byte vector
// body in front, for the seeds {0, 1, 0xffff}; plus final accumulator values on every fold-round
// boundary (2^16, 2^32, 2^33, 2^48, 2^64 +-1).

func addc(a, b uint64) uint64 {
	s, c := bits.Add64(a, b, 0)
	return s + c
}

// accAfterBody is the scalar accumulator after the seed and the vector body (all whole 32-byte chunks).
func accAfterBody(body []byte, seed uint16) uint64 {
	ax := uint64(seed>>8 | seed<<8)
	if len(body) >= 32 {
		var r8 uint64
		for i := 0; i+4 <= len(body); i += 4 {
			r8 += uint64(binary.LittleEndian.Uint32(body[i:]))
		}
		ax = addc(ax, r8)
	}
	return ax
}

// land returns q with addc(a, q) == t (possibly through a wrap).
func land(a, t uint64) uint64 {
	if t >= a {
		return t - a
	}
	return t - a - 1 // a + q = t + 2^64 - 1, end-around carry adds the 1
}

func le(q uint64, n int) []byte {
	var b [8]byte
	binary.LittleEndian.PutUint64(b[:], q)
	return b[:n]
}

func carryBodies() [][]byte {
	rnd := hlib.NewRand(0xC25).Bytes(96)
	b32, b64 := make([]byte, 32), make([]byte, 64)
	for i := range b64 {
		b64[i] = 0x11
	}
	for i := range b32 {
		b32[i] = 0xff
	}
	return [][]byte{nil, b32, b64, rnd}
}

var carrySeeds = []uint16{0, 1, 0xffff}

func emitSum(emit func(string, ...any), seed uint16, parts ...[]byte) {
	var buf []byte
	for _, p := range parts {
		buf = append(buf, p...)
	}
	emit("sum %s %d", hlib.Hex(buf), seed)
}

// emitSeedFoldFamily: seed x data-sum boundaries of the fold rounds. With X the 64-bit sum of the data
// alone and d the byte-swapped seed, hi32(X)+lo32(X)+d lands on 2^33-2, 2^33-1, 2^33 (33->32-bit round),
// and for 32-bit X hi16(X)+lo16(X)+d lands on 2^17-2, 2^17-1, 2^17 (17->16-bit rounds): an implementation
// that merges the seed at a different point of the fold than the reference does is exposed whatever
// the seed (deterministic, independent of the generator seed).
func emitSeedFoldFamily(emit func(string, ...any)) {
	for _, seed := range []uint16{1, 0x0100, 0x00ff, 0xff00, 0x8000, 0x0080, 0xfffe, 0xfeff, 0xffff} {
		d := uint64(seed>>8 | seed<<8)
		for _, body := range [][]byte{nil, carryBodies()[2]} {
			base := accAfterBody(body, 0) // data-only accumulator after the body
			for _, t := range []uint64{1<<33 - 2, 1<<33 - 1, 1 << 33} {
				if t-d < 0xffffffff {
					continue
				}
				lo := t - d - 0xffffffff
				if lo > 0xffffffff {
					continue
				}
				x := uint64(0xffffffff)<<32 | lo
				emitSum(emit, seed, body, le(land(base, x), 8))
				emitSum(emit, seed, body, le(land(base, x), 8), []byte{0, 0, 0, 0})
			}
			for _, t := range []uint64{1<<17 - 2, 1<<17 - 1, 1 << 17} {
				if t-d < 0xffff || t-d-0xffff > 0xffff {
					continue
				}
				x := uint64(0xffff)<<16 | (t - d - 0xffff)
				emitSum(emit, seed, body, le(land(base, x), 8))
				emitSum(emit, seed, body, le(land(base, x), 4))
			}
			// all-ones data of every tail length with this seed
			for n := 1; n <= 31; n++ {
				ff := make([]byte, n)
				for i := range ff {
					ff[i] = 0xff
				}
				emitSum(emit, seed, body, ff)
			}
		}
	}
}

func emitCarryFamily(emit func(string, ...any), tier string) {
	const ones = ^uint64(0)
	pre := []uint64{0, 1, ones, ones - 1}
	alpha := []uint64{0, 1, 2, ones, ones - 1, ones - 0xff, 1 << 63}
	if tier == "thorough" {
		pre = append(pre, 1<<63, 1<<63-1, 2, ones-0xff)
		alpha = append(alpha, 1<<63-1, ones-2, 3, 0xff, 0x100000000, 0xffffffff)
	}
	targets := []uint64{ones, ones - 1, ones - 2}
	bodies := carryBodies()
	// sequences of `n` words over `pre`
	var seqs func(n int) [][]uint64
	seqs = func(n int) [][]uint64 {
		if n == 0 {
			return [][]uint64{nil}
		}
		var out [][]uint64
		for _, s := range seqs(n - 1) {
			for _, w := range pre {
				out = append(out, append(append([]uint64{}, s...), w))
			}
		}
		return out
	}
	run := func(a uint64, ws []uint64) (uint64, []byte) {
		var b []byte
		for _, w := range ws {
			a = addc(a, w)
			b = append(b, le(w, 8)...)
		}
		return a, b
	}
	for _, body := range bodies {
		for _, seed := range carrySeeds {
			a0 := accAfterBody(body, seed)
			for k := 1; k <= 3; k++ {
				// form B: land on the last qword, the 4/2/1-byte tails do the wrap
				for _, ps := range seqs(k - 1) {
					a, pb := run(a0, ps)
					for _, t := range targets {
						q := land(a, t)
						for _, w := range []uint64{0 - t - 1, 0 - t, 0 - t + 1} { // max non-wrapping, min wrapping, +1
							for _, tl := range [][]byte{le(w, 1), le(w, 2), le(w, 4), append(le(w, 4), 0xff, 0xff, 0xff), {0, 0, 0, 0, byte(w), 0, byte(w)}} {
								emitSum(emit, seed, body, pb, le(q, 8), tl)
							}
						}
					}
				}
				// form A: land, then the next qword step does the wrap (and a tail follows)
				if k >= 2 {
					for _, ps := range seqs(k - 2) {
						a, pb := run(a0, ps)
						for _, t := range targets {
							q := land(a, t)
							for _, w := range []uint64{0 - t - 1, 0 - t, 0 - t + 1, ones, 1 << 63} {
								emitSum(emit, seed, body, pb, le(q, 8), le(w, 8))
								emitSum(emit, seed, body, pb, le(q, 8), le(w, 8), []byte{0xff, 0xff, 0xff})
							}
						}
					}
				}
			}
			// fold-round and reduction boundaries: the final accumulator is exactly v
			for _, v := range []uint64{0, 1, 0xffff, 0x10000, 0x10001, 0x1fffe, 0x1ffff, 0xfffeffff, 0xffffffff, 0x100000000,
				0x100000001, 0x1fffffffe, 0x1ffffffff, 0xffff0000ffff, 1<<48 - 1, 1 << 48, 1<<48 + 1, 0xffffffff00000000,
				0xfffffffeffffffff, 0xffffffffffff0000, 0xfffeffffffffffff, ones - 0xffff, ones - 2, ones - 1, ones} {
				emitSum(emit, seed, body, le(land(a0, v), 8))
				if v > 0xff {
					a, pb := run(a0, []uint64{ones})
					emitSum(emit, seed, body, pb, le(land(a, v-0xff), 8), []byte{0xff})
				}
			}
		}
	}
	// exhaustive products of the carry-heavy alphabet, 1..3 qwords (+ a wrapping tail byte)
	for _, body := range [][]byte{nil, bodies[2]} {
		for _, seed := range carrySeeds {
			for k := 1; k <= 3; k++ {
				idx := make([]int, k)
				for {
					var b []byte
					for _, i := range idx {
						b = append(b, le(alpha[i], 8)...)
					}
					emitSum(emit, seed, body, b)
					if tier == "thorough" {
						emitSum(emit, seed, body, b, []byte{1})
						emitSum(emit, seed, body, b, []byte{0xff, 0xff, 0xff, 0xff, 3})
					}
					j := 0
					for ; j < k; j++ {
						idx[j]++
						if idx[j] < len(alpha) {
							break
						}
						idx[j] = 0
					}
					if j == k {
						break
					}
				}
			}
		}
	}
}

func gen(r *hlib.Rand, n int, tier, profile string, emit func(string, ...any)) {
	emit("asmshape")
	emitCarryFamily(emit, tier)
	emitSeedFoldFamily(emit)
	if tier == "thorough" {
		// the grid of DESIGN §5 C25: every length 0..4096 x 8 start offsets mod 32 x the six fixed seeds +
		// one random; the pattern rotates (one draw per grid point and generator seed)
		offs := []int{0, 1, 2, 3, 4, 8, 16, 31}
		for ln := 0; ln <= 4096; ln++ {
			for _, off := range offs {
				for si := 0; si <= len(seeds); si++ {
					sd := r.Intn(65536)
					if si < len(seeds) {
						sd = seeds[si]
					}
					emit("pat %d %d %d %d %d", r.Intn(6), r.U64()>>1, ln, off, sd)
				}
			}
		}
	} else {
		// every length 0..4096 once, rotating patterns, offsets and seeds
		for ln := 0; ln <= 4096; ln++ {
			emit("pat %d %d %d %d %d", 1+r.Intn(5), r.U64()>>1, ln, r.Intn(64), pickSeed(r))
		}
	}
	for i := 0; i < n; i++ {
		switch r.Intn(32) {
		case 0, 3, 4, 5: // explicit small buffers
			ln := hlib.Pick(r, 0, 1, 2, 3, 4, 7, 8, 9, 31, 32, 33, 63, 64, 65, r.Intn(200))
			b := r.Bytes(ln)
			if r.Bool() {
				for j := range b {
					if r.Chance(3, 4) {
						b[j] = 0xff
					}
				}
			}
			emit("sum %s %d", hlib.Hex(b), pickSeed(r))
		case 1: // large buffers around the practical maximum
			ln := hlib.Pick(r, 16383, 16384, 16385, 65535, 65536, 65537, 9000+r.Intn(100), 1500-r.Intn(64), 40000+r.Intn(30000))
			emit("pat %d %d %d %d %d", r.Intn(6), r.U64()>>1, ln, r.Intn(64), pickSeed(r))
		case 2: // all-zero and all-ones: the 0 / 0xffff distinction
			emit("pat %d 0 %d %d %d", r.Intn(2), r.Intn(300), r.Intn(64), hlib.Pick(r, 0, 0, 0xffff, pickSeed(r)))
		default: // around every block boundary of the assembly
			base := hlib.Pick(r, 0, 32, 64, 96, 128, 192, 256, 1024, 4096, 64*r.Intn(80))
			ln := base + hlib.Pick(r, 0, 1, 2, 3, 4, 5, 6, 7, 8, 9, 15, 16, 17, 31, 33, 47, 63, r.Intn(64))
			emit("pat %d %d %d %d %d", r.Intn(6), r.U64()>>1, ln, r.Intn(64), pickSeed(r))
		}
	}
}

// place copies b into a fresh backing array so that &out[0] is `off` bytes past a 64-byte boundary
// and cap(out) == len(out) (a read beyond the end leaves the slice).
func place(b []byte, off int) []byte {
	back := make([]byte, len(b)+off+128)
	base := uintptr(unsafe.Pointer(&back[0]))
	pad := int((64 - base%64) % 64)
	start := pad + off%64
	out := back[start : start+len(b) : start+len(b)]
	copy(out, b)
	return out
}

func run(b []byte, off int, seed uint16) string {
	buf := place(b, off)
	a := "na"
	if checksum.VerifHasAVX2() {
		a = fmt.Sprint(checksum.VerifChecksumAVX2(buf, seed))
	}
	d := checksum.Checksum(buf, seed)
	g := gvisorchecksum.Checksum(buf, seed)
	for i := range b {
		if buf[i] != b[i] {
			return "buffer-modified"
		}
	}
	return fmt.Sprintf("a=%s d=%d g=%d", a, d, g)
}

// asmShape renders the instruction skeleton of overlay/checksum/checksum_amd64.s: comments, blank lines
// and #include dropped, white space collapsed, one `;`-separated item per label / instruction. This is
// the text the Lean model (Model/ChecksumAVX2.lean) was written from; any edit of an instruction, an
// operand, a label, a stride or the order breaks the comparison, whatever the value stream shows.
func asmShape() string {
	root := os.Getenv("VERIF_REPO")
	if root == "" {
		root = "/repo"
	}
	raw, err := os.ReadFile(filepath.Join(root, "overlay", "checksum", "checksum_amd64.s"))
	if err != nil {
		return "unreadable"
	}
	var items []string
	for _, ln := range strings.Split(string(raw), "\n") {
		if i := strings.Index(ln, "//"); i >= 0 {
			ln = ln[:i]
		}
		ln = strings.Join(strings.Fields(ln), " ")
		if ln == "" || strings.HasPrefix(ln, "#include") {
			continue
		}
		items = append(items, ln)
	}
	return strings.Join(items, "; ")
}

func newExec(t *testing.T) func([]string) string {
	return func(a []string) string {
		switch a[0] {
		case "asmshape":
			return asmShape()
		case "sum":
			if len(a) != 3 {
				return "bad-op"
			}
			b, err := hlib.UnHex(a[1])
			sd := hlib.Atoi(a[2])
			if err != nil || sd < 0 || sd > 65535 {
				return "bad-op"
			}
			return run(b, 0, uint16(sd))
		case "pat":
			if len(a) != 6 {
				return "bad-op"
			}
			kind, ps, ln, off, sd := hlib.Atoi(a[1]), hlib.Atou(a[2]), hlib.Atoi(a[3]), hlib.Atoi(a[4]), hlib.Atoi(a[5])
			if sd < 0 || sd > 65535 || ln < 0 || ln > 1048576 {
				return "bad-op"
			}
			return run(patBytes(kind, ps, ln), off, uint16(sd))
		}
		return "bad-op"
	}
}

func TestEngine(t *testing.T) {
	hlib.Run(t, hlib.Engine{Name: "csum", Gen: gen, NewExec: newExec})
}
