// Package hlib is the shared plumbing of the correspondence harness.
//
// Every engine is a Go test package that calls hlib.Run from a single test. The orchestrator
// (/verif/check) runs the compiled test binary twice per batch:
//
//	VERIF_MODE=gen  VERIF_SEED=<int> VERIF_N=<int> VERIF_TIER=quick|thorough VERIF_PROFILE=<Cxx> VERIF_OPS=<file>
//	    -> the engine's generator writes one op per line to VERIF_OPS (every random choice is drawn
//	       from one splitmix64 stream seeded by VERIF_SEED, so a run replays exactly)
//	VERIF_MODE=exec VERIF_OPS=<file> VERIF_IMPL=<file>
//	    -> the engine executes each op against the real nebula code (built from the current working
//	       tree of the repository, with -tags verif) and writes exactly one answer line per op.
//
// A panic inside the implementation is caught per op and reported as the answer `PANIC <msg>`.
package hlib

import (
	"bufio"
	"encoding/hex"
	"fmt"
	"net/netip"
	"os"
	"strconv"
	"strings"
	"testing"
	"testing/synctest"
)

// Rand is a splitmix64 stream.
type Rand struct{ s uint64 }

// NewRand is the plain splitmix64 stream; engines that expand `pat`-style ops into data mirror this
// definition in Lean, so it must not change.
func NewRand(seed uint64) *Rand { return &Rand{s: seed*0x9e3779b97f4a7c15 + 0x1234567} }

// NewSeededRand hashes the seed first, so that consecutive VERIF_SEED values give unrelated streams
// rather than shifted copies of one walk. Used for the generators.
func NewSeededRand(seed uint64) *Rand {
	z := (seed + 0x1234567) * 0xd1342543de82ef95
	z = (z ^ (z >> 30)) * 0xbf58476d1ce4e5b9
	z = (z ^ (z >> 27)) * 0x94d049bb133111eb
	return NewRand(z ^ (z >> 31))
}

func (r *Rand) U64() uint64 {
	r.s += 0x9e3779b97f4a7c15
	z := r.s
	z = (z ^ (z >> 30)) * 0xbf58476d1ce4e5b9
	z = (z ^ (z >> 27)) * 0x94d049bb133111eb
	return z ^ (z >> 31)
}

// Intn returns a value in [0, n).
func (r *Rand) Intn(n int) int {
	if n <= 0 {
		return 0
	}
	return int(r.U64() % uint64(n))
}

// Range returns a value in [lo, hi].
func (r *Rand) Range(lo, hi int) int { return lo + r.Intn(hi-lo+1) }

func (r *Rand) Bool() bool { return r.U64()&1 == 1 }

// Chance is true with probability num/den.
func (r *Rand) Chance(num, den int) bool { return r.Intn(den) < num }

func (r *Rand) Bytes(n int) []byte {
	b := make([]byte, n)
	for i := range b {
		b[i] = byte(r.U64())
	}
	return b
}

// Pick returns one of the arguments.
func Pick[T any](r *Rand, xs ...T) T { return xs[r.Intn(len(xs))] }

// Read makes Rand an io.Reader (deterministic stand-in for crypto/rand.Reader).
func (r *Rand) Read(p []byte) (int, error) {
	for i := range p {
		p[i] = byte(r.U64())
	}
	return len(p), nil
}

// Hex renders bytes for the line protocol ("-" for empty).
func Hex(b []byte) string {
	if len(b) == 0 {
		return "-"
	}
	return hex.EncodeToString(b)
}

// UnHex parses the line-protocol byte format.
func UnHex(s string) ([]byte, error) {
	if s == "-" {
		return []byte{}, nil
	}
	return hex.DecodeString(s)
}

func Atoi(s string) int {
	v, err := strconv.ParseInt(s, 10, 64)
	if err != nil {
		panic("harness: bad integer argument " + s)
	}
	return int(v)
}

func Atou(s string) uint64 {
	v, err := strconv.ParseUint(s, 10, 64)
	if err != nil {
		panic("harness: bad unsigned argument " + s)
	}
	return v
}

func B(b bool) string {
	if b {
		return "1"
	}
	return "0"
}

// Engine describes one correspondence stream.
type Engine struct {
	Name string
	// Gen emits about n cases (an engine decides what a case is; stateful engines emit `reset …`
	// lines between independent cases). profile is the property id the run is for (may be empty).
	Gen func(r *Rand, n int, tier, profile string, emit func(format string, a ...any))
	// NewExec returns the per-op executor; state lives in the closure.
	NewExec func(t *testing.T) func(args []string) string
	// Synctest runs the whole exec loop inside a testing/synctest bubble (virtual time).
	Synctest bool
}

func envInt(k string, def int) int {
	if v := os.Getenv(k); v != "" {
		if n, err := strconv.Atoi(v); err == nil {
			return n
		}
	}
	return def
}

// Run is called from the engine's single test function.
func Run(t *testing.T, e Engine) {
	mode := os.Getenv("VERIF_MODE")
	switch mode {
	case "gen":
		seed, _ := strconv.ParseUint(os.Getenv("VERIF_SEED"), 10, 64)
		n := envInt("VERIF_N", 1000)
		f, err := os.Create(os.Getenv("VERIF_OPS"))
		if err != nil {
			t.Fatal(err)
		}
		w := bufio.NewWriterSize(f, 1<<20)
		emit := func(format string, a ...any) {
			s := fmt.Sprintf(format, a...)
			if strings.ContainsAny(s, "\t\n") {
				panic("harness: op contains tab or newline: " + s)
			}
			w.WriteString(s)
			w.WriteByte('\n')
		}
		e.Gen(NewSeededRand(seed), n, os.Getenv("VERIF_TIER"), os.Getenv("VERIF_PROFILE"), emit)
		w.Flush()
		f.Close()
	case "exec":
		in, err := os.Open(os.Getenv("VERIF_OPS"))
		if err != nil {
			t.Fatal(err)
		}
		defer in.Close()
		outf, err := os.Create(os.Getenv("VERIF_IMPL"))
		if err != nil {
			t.Fatal(err)
		}
		w := bufio.NewWriterSize(outf, 1<<20)
		body := func(t *testing.T) {
			exec := e.NewExec(t)
			sc := bufio.NewScanner(in)
			sc.Buffer(make([]byte, 1<<20), 64<<20)
			for sc.Scan() {
				line := sc.Text()
				args := strings.Fields(line)
				res := safe(exec, args)
				res = strings.NewReplacer("\t", " ", "\n", " ", "\r", " ").Replace(res)
				w.WriteString(res)
				w.WriteByte('\n')
			}
		}
		if e.Synctest {
			synctest.Test(t, body)
		} else {
			body(t)
		}
		w.Flush()
		outf.Close()
	case "":
		t.Skip("VERIF_MODE not set (this test is driven by /verif/check)")
	default:
		t.Fatalf("unknown VERIF_MODE %q", mode)
	}
}

func safe(exec func([]string) string, args []string) (res string) {
	defer func() {
		if r := recover(); r != nil {
			msg := fmt.Sprint(r)
			if i := strings.IndexByte(msg, '\n'); i >= 0 {
				msg = msg[:i]
			}
			res = "PANIC " + msg
		}
	}()
	if len(args) == 0 {
		return "bad-op"
	}
	return exec(args)
}

// ---- line-protocol syntax for addresses (see lean/Nebula/Driver/NetArgs.lean)

// AddrHex renders a netip.Addr as hex of its 4 or 16 bytes (a 4-in-6 address keeps its 16 bytes).
func AddrHex(a netip.Addr) string {
	if !a.IsValid() {
		return "invalid"
	}
	if a.Is4() {
		b := a.As4()
		return hex.EncodeToString(b[:])
	}
	b := a.As16()
	return hex.EncodeToString(b[:])
}

// ParseAddrHex is the inverse of AddrHex.
func ParseAddrHex(s string) netip.Addr {
	b, err := hex.DecodeString(s)
	if err != nil {
		panic("harness: bad address " + s)
	}
	switch len(b) {
	case 4:
		return netip.AddrFrom4([4]byte(b))
	case 16:
		return netip.AddrFrom16([16]byte(b))
	}
	panic("harness: bad address length " + s)
}

func PrefixHex(p netip.Prefix) string { return fmt.Sprintf("%s/%d", AddrHex(p.Addr()), p.Bits()) }

func ParsePrefixHex(s string) netip.Prefix {
	i := strings.IndexByte(s, '/')
	return netip.PrefixFrom(ParseAddrHex(s[:i]), Atoi(s[i+1:]))
}

func AddrPortHex(ap netip.AddrPort) string { return fmt.Sprintf("%s:%d", AddrHex(ap.Addr()), ap.Port()) }

func ParseAddrPortHex(s string) netip.AddrPort {
	i := strings.LastIndexByte(s, ':')
	return netip.AddrPortFrom(ParseAddrHex(s[:i]), uint16(Atoi(s[i+1:])))
}
