// Engine `sshpath` (C45): sshSanitizeFilePath, and the lexical path functions it is built from
// (filepath.Clean / Join / IsAbs), which tie the Lean model of those functions to Go's.
//
// ops (all strings as hex of their bytes, "-" = empty):
//
//	san <sandbox> <path>   -> ok <result> | err:self | err:outside
//	clean <path>           -> <cleaned>
//	join <a> <b>           -> <joined>
//	isabs <path>           -> 0|1
package sshpath

import (
	"path/filepath"
	"strings"
	"testing"

	"github.com/slackhq/nebula"
	"verifharness/hlib"
)

var alphabet = []string{"/", ".", "..", "a", "ab"}

// words enumerates every concatenation of exactly k alphabet tokens.
func words(tokens []string, k int, f func(string)) {
	var rec func(prefix string, k int)
	rec = func(prefix string, k int) {
		if k == 0 {
			f(prefix)
			return
		}
		for _, t := range tokens {
			rec(prefix+t, k-1)
		}
	}
	rec("", k)
}

var sandboxes = []string{
	"/sb", "/sb/", "/sb//", "/sb/.", "//sb", "/sb/x", "/sb/x/", "/a/../sb", "/sb/x/..", "/./sb", "/../sb",
	"sb", "sb/", "./sb", "sb/x", "sb/../sb", "a/b/..",
	"/", "//", "/.", "/..", "/sb/..",
	".", "./", "sb/..", "./.",
	"..", "../", "../..", "../../", "sb/../..", "../sb", "../sb/", "../../sb", "..sb", "/..sb", "...", "/...",
	"/s", "/sbx", "/sb x",
}

// bases for the systematic sibling sweep (2b) and the ways a configuration may spell them
var sandboxBases = []string{"/var/tmp/nebula-debug", "/sb", "/a/sb", "sb", "../sb", "a/sb"}

var sandboxSpellings = []func(dir, name string) string{
	func(d, n string) string { return d + n },
	func(d, n string) string { return d + n + "/" },
	func(d, n string) string { return d + n + "//" },
	func(d, n string) string { return d + n + "/." },
	func(d, n string) string { return d + n + "/./" },
	func(d, n string) string { return d + "./" + n + "/" },
	func(d, n string) string { return d + n + "/x/../" },
	func(d, n string) string { return d + "/" + n + "///" },
}

var pathTokens = []string{"/", ".", "..", "sb", "sbx", "x", "s", "..sb", "...", "/sb/", "../"}

func randPath(r *hlib.Rand, toks []string, maxTok int) string {
	n := r.Intn(maxTok + 1)
	var b strings.Builder
	for i := 0; i < n; i++ {
		b.WriteString(toks[r.Intn(len(toks))])
		if r.Chance(1, 3) {
			b.WriteString("/")
		}
	}
	return b.String()
}

func gen(r *hlib.Rand, n int, tier, profile string, emit func(string, ...any)) {
	h := func(s string) string { return hlib.Hex([]byte(s)) }
	// 1. exhaustive small scope over the alphabet {/, ., .., a, ab}: Clean and IsAbs on every word,
	//    Join on every split of every word.
	maxK := 5
	if tier == "thorough" {
		maxK = 7
	}
	for k := 0; k <= maxK; k++ {
		words(alphabet, k, func(s string) {
			emit("clean %s", h(s))
			if k <= 3 {
				emit("isabs %s", h(s))
			}
		})
	}
	jk := 2
	if tier == "thorough" {
		jk = 3
	}
	for k1 := 0; k1 <= jk; k1++ {
		words(alphabet, k1, func(a string) {
			for k2 := 0; k2 <= jk; k2++ {
				words(alphabet, k2, func(b string) { emit("join %s %s", h(a), h(b)) })
			}
		})
	}
	// 2. every listed sandbox against every short path over the path tokens
	pk := 3
	if tier == "thorough" {
		pk = 4
	}
	for _, sb := range sandboxes {
		for k := 0; k <= pk; k++ {
			words([]string{"/", ".", "..", "sb", "x"}, k, func(p string) { emit("san %s %s", h(sb), h(p)) })
		}
		// the sandbox itself, its siblings and children, spelled absolutely and relatively
		for _, p := range []string{sb, sb + "/", sb + "/x", sb + "x", sb + "/../x", sb + "/..", sb + "/x/..", sb + "/x/../y",
			"/" + sb, "../" + sb, "../" + sb + "/x", sb + "/./x//y", "x/" + sb} {
			emit("san %s %s", h(sb), h(p))
		}
	}
	// 2b. sandbox spellings (trailing separators, dot elements, detours) crossed with similar-prefix siblings:
	//     names that extend the sandbox's basename ("sb-old", "sb2", "sb.bak", "sbx"), names it extends ("s"),
	//     case variants — spelled absolutely, relatively with "..", and through the sandbox and back out
	for _, base := range sandboxBases {
		dir, name := filepath.Split(base) // dir keeps its trailing separator ("" for a bare name)
		clean := filepath.Clean(base)
		for _, sp := range sandboxSpellings {
			sb := sp(dir, name)
			sibs := []string{name + "-old", name + "2", name + ".bak", name + "x", name + ".", name + "..", name + " ", name + "-old/cpu.pprof",
				name[:len(name)-1], strings.ToUpper(name), name + "/../" + name + "2", name + "x/y"}
			for _, sib := range sibs {
				emit("san %s %s", h(sb), h(dir+sib))               // as spelled next to the sandbox (absolute when it is)
				emit("san %s %s", h(sb), h("../"+sib))             // relative, out through ".."
				emit("san %s %s", h(sb), h(clean+"/../"+sib))      // through the sandbox and back out
				emit("san %s %s", h(sb), h("x/../../"+sib))        // into a child, then out
				emit("san %s %s", h(sb), h(sb+"/../"+sib))         // through the sandbox as configured
				emit("san %s %s", h(sb), h(sib))                   // the same name *inside* the sandbox: must be accepted
			}
			for _, in := range []string{"x", "x/y", "./x", name, name + "/x", "x/../y", ".x", "..x", "x/"} {
				emit("san %s %s", h(sb), h(in))
				emit("san %s %s", h(sb), h(clean+"/"+in))
				emit("san %s %s", h(sb), h(sb+"/"+in))
			}
		}
	}
	// 3. random
	for i := 0; i < n; i++ {
		switch r.Intn(10) {
		case 0:
			emit("clean %s", h(randPath(r, pathTokens, 8)))
		case 1:
			emit("join %s %s", h(randPath(r, pathTokens, 4)), h(randPath(r, pathTokens, 4)))
		case 2:
			// arbitrary bytes: everything except '/' and '.' is opaque to the lexical functions
			b := r.Bytes(r.Intn(8))
			for j := range b {
				if r.Chance(1, 3) {
					b[j] = hlib.Pick(r, byte('/'), byte('.'))
				}
			}
			emit("san %s %s", h(hlib.Pick(r, sandboxes...)), hlib.Hex(b))
		default:
			sb := hlib.Pick(r, sandboxes...)
			if r.Chance(1, 4) {
				sb = randPath(r, pathTokens, 4)
			}
			p := randPath(r, pathTokens, 6)
			switch r.Intn(4) {
			case 0:
				p = sb + "/" + p
			case 1:
				p = filepath.Clean(sb) + "/" + p
			}
			emit("san %s %s", h(sb), h(p))
		}
	}
}

func str(a string) string {
	b, err := hlib.UnHex(a)
	if err != nil {
		panic("harness: bad hex " + a)
	}
	return string(b)
}

func newExec(t *testing.T) func([]string) string {
	return func(a []string) string {
		switch {
		case a[0] == "san" && len(a) == 3:
			res, err := nebula.VerifSshSanitizeFilePath(str(a[1]), str(a[2]))
			if err != nil {
				switch {
				case strings.Contains(err.Error(), "resolves to the sandbox directory itself"):
					return "err:self"
				case strings.Contains(err.Error(), "is outside the sandbox directory"):
					return "err:outside"
				}
				return "err:other"
			}
			return "ok " + hlib.Hex([]byte(res))
		case a[0] == "clean" && len(a) == 2:
			return hlib.Hex([]byte(filepath.Clean(str(a[1]))))
		case a[0] == "join" && len(a) == 3:
			return hlib.Hex([]byte(filepath.Join(str(a[1]), str(a[2]))))
		case a[0] == "isabs" && len(a) == 2:
			return hlib.B(filepath.IsAbs(str(a[1])))
		}
		return "bad-op"
	}
}

func TestEngine(t *testing.T) {
	hlib.Run(t, hlib.Engine{Name: "sshpath", Gen: gen, NewExec: newExec})
}
