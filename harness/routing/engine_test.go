// Engine `routing` (C40): routing.CalculateBucketsForGateways / BalancePacket / hashPacket.
package routing

import (
	"fmt"
	"math/big"
	"net/netip"
	"strings"
	"testing"

	"github.com/slackhq/nebula/firewall"
	"github.com/slackhq/nebula/routing"
	"verifharness/hlib"
)

const maxW = 1<<31 - 1

func randWeight(r *hlib.Rand) int {
	switch r.Intn(8) {
	case 0:
		return 1
	case 1:
		return maxW
	case 2:
		return hlib.Pick(r, 2, 3, maxW-1, maxW-2, 1<<30, 1<<30+1, 1<<30-1)
	case 3:
		return 1 << uint(r.Intn(31))
	case 4:
		return 1 + r.Intn(10)
	case 5:
		return 1 + r.Intn(256)
	}
	return 1 + r.Intn(maxW)
}

func randWeights(r *hlib.Rand) []int {
	n := hlib.Pick(r, 1, 2, 2, 3, 3, 4, 5, 7, 8, 9, 12, 16, 33)
	ws := make([]int, n)
	switch r.Intn(6) {
	case 0: // all equal
		w := randWeight(r)
		for i := range ws {
			ws[i] = w
		}
	case 1: // all huge: totals around and above 2^33
		for i := range ws {
			ws[i] = maxW - r.Intn(3)
		}
	case 2: // one tiny among huge
		for i := range ws {
			ws[i] = maxW - r.Intn(1000)
		}
		ws[r.Intn(n)] = 1 + r.Intn(3)
	default:
		for i := range ws {
			ws[i] = randWeight(r)
		}
	}
	if r.Chance(1, 25) {
		ws[r.Intn(n)] = 0
	}
	return ws
}

func randPort(r *hlib.Rand) int {
	switch r.Intn(5) {
	case 0:
		return hlib.Pick(r, 0, 1, 80, 443, 4242, 32767, 32768, 65534, 65535)
	}
	return r.Intn(65536)
}

func ints(ws []int) string {
	s := make([]string, len(ws))
	for i, w := range ws {
		s[i] = fmt.Sprint(w)
	}
	return strings.Join(s, " ")
}

func gen(r *hlib.Rand, n int, tier, profile string, emit func(string, ...any)) {
	// the kernel-style hash-threshold examples of the repo's own tests and the F05 witness
	emit("calc 10 5")
	emit("calc 1 1 1")
	emit("calc %s", ints([]int{maxW, maxW, maxW, maxW, maxW, maxW, maxW, maxW}))
	emit("calc %s", ints([]int{maxW, maxW, maxW, maxW})) // total just below 2^33
	emit("calc %s", ints([]int{maxW, maxW, maxW, maxW, 4}))
	emit("calc %s", ints([]int{maxW, maxW, maxW, maxW, 3}))
	// deterministic family: totals 2^33-2 .. 2^33+1 in several splits (the last gateway's running weight equals
	// the total: w == total == 2^33-1 is where a 64-bit (w<<31 + total/2) wraps), each also balanced with a
	// flow whose hash lies in the last share
	for _, tail := range [][]int{{3}, {1, 2}, {2}, {4}, {5}, {1, 1, 1}, {maxW - 2147483644}} {
		for _, head := range [][]int{{maxW, maxW, maxW, maxW}, {maxW, maxW - 1, maxW, maxW - 1, 2}, {1 << 30, 1 << 30, maxW, maxW, maxW, 1}} {
			ws := append(append([]int{}, head...), tail...)
			emit("calc %s", ints(ws))
			for _, y := range []uint32{1<<31 - 1, 1<<31 - 2, 1<<31 - 1000} {
				if lp, rp, ok := portsForHash(y); ok {
					emit("bal %d %d 6 0 0a000001 0a000002 17 1 0a000003 0a000004 %s", lp, rp, ints(ws))
				}
			}
		}
	}
	if tier == "thorough" {
		// every pair of small weights, every single weight near the limits
		for a := 1; a <= 24; a++ {
			for b := 1; b <= 24; b++ {
				emit("calc %d %d", a, b)
			}
		}
		for k := 1; k <= 40; k++ {
			ws := make([]int, k)
			for i := range ws {
				ws[i] = maxW
			}
			emit("calc %s", ints(ws))
		}
	}
	for i := 0; i < n; i++ {
		switch r.Intn(10) {
		case 0, 1, 2:
			emit("calc %s", ints(randWeights(r)))
		case 3:
			emit("hash %d %d", randPort(r), randPort(r))
		case 4:
			// uncalculated / arbitrary bounds: the fallback path
			k := hlib.Pick(r, 0, 1, 2, 3, 5)
			bs := make([]int, k)
			for j := range bs {
				bs[j] = hlib.Pick(r, -1, -1, 0, r.Intn(1<<31), 1<<31-1, 1<<30)
			}
			emit("balraw %d %d %s", randPort(r), randPort(r), ints(bs))
		default:
			// two packets of one flow: same ports, everything else different
			ws := randWeights(r)
			if r.Chance(1, 30) {
				ws = nil
			}
			lp, rp := randPort(r), randPort(r)
			if len(ws) > 0 && r.Chance(1, 2) {
				// aim the flow hash at a share boundary: bound, bound+1 or bound-1 of a random gateway
				bs := idealBounds(ws)
				target := bs[r.Intn(len(bs))] + int64(hlib.Pick(r, 0, 0, 1, -1))
				if target >= 0 && target < 1<<31 {
					if a, b, ok := portsForHash(uint32(target) | uint32(r.Intn(2))<<31); ok {
						lp, rp = a, b
					}
				}
			}
			emit("bal %d %d %s %s %s", lp, rp, randRest(r), randRest(r), ints(ws))
		}
	}
}

// idealBounds: nearest-integer hash-threshold bounds in exact arithmetic (math/big).
func idealBounds(ws []int) []int64 {
	total := new(big.Int)
	for _, w := range ws {
		total.Add(total, big.NewInt(int64(w)))
	}
	out := make([]int64, len(ws))
	if total.Sign() <= 0 {
		return out
	}
	run := new(big.Int)
	for i, w := range ws {
		run.Add(run, big.NewInt(int64(w)))
		x := new(big.Int).Lsh(run, 32) // 2 * run * 2^31
		x.Add(x, total)
		x.Div(x, new(big.Int).Lsh(total, 1))
		out[i] = x.Int64() - 1
	}
	return out
}

func inv32(a uint32) uint32 { // multiplicative inverse of an odd a modulo 2^32 (Newton)
	x := a
	for i := 0; i < 5; i++ {
		x *= 2 - a*x
	}
	return x
}

// portsForHash inverts the published hash-prospector permutation [16 21f0aaad 15 d35a2d97 15] to find the
// port pair whose 32-bit pre-mask hash is y, and confirms the result against the real hashPacket (so a
// changed hash function only makes this targeted generator fall back to random ports).
func portsForHash(y uint32) (int, int, bool) {
	x := y
	x ^= x>>15 ^ x>>30
	x *= inv32(0xd35a2d97)
	x ^= x>>15 ^ x>>30
	x *= inv32(0x21f0aaad)
	x ^= x >> 16
	lp, rp := int(x>>16), int(x&0xffff)
	got := routing.VerifHashPacket(&firewall.Packet{LocalPort: uint16(lp), RemotePort: uint16(rp)})
	return lp, rp, got == int(y&0x7fffffff)
}

func randRest(r *hlib.Rand) string {
	la, ra := hlib.AddrHex(netip.AddrFrom4([4]byte(r.Bytes(4)))), hlib.AddrHex(netip.AddrFrom4([4]byte(r.Bytes(4))))
	if r.Bool() {
		la, ra = hlib.AddrHex(netip.AddrFrom16([16]byte(r.Bytes(16)))), hlib.AddrHex(netip.AddrFrom16([16]byte(r.Bytes(16))))
	}
	return fmt.Sprintf("%d %d %s %s", hlib.Pick(r, 6, 17, 1, 58, r.Intn(256)), r.Intn(2), la, ra)
}

func gwAddr(i int) netip.Addr { return netip.AddrFrom4([4]byte{10, byte(i >> 16), byte(i >> 8), byte(i)}) }

func mkGateways(ws []string) []routing.Gateway {
	gws := make([]routing.Gateway, len(ws))
	for i, w := range ws {
		gws[i] = routing.NewGateway(gwAddr(i), hlib.Atoi(w))
	}
	return gws
}

func guarded(f func() string) (res string) {
	defer func() {
		if recover() != nil {
			res = "panic"
		}
	}()
	return f()
}

func balance(p *firewall.Packet, gws []routing.Gateway) string {
	a, ok := routing.BalancePacket(p, gws)
	idx := -1
	for i := range gws {
		if gws[i].Addr() == a {
			idx = i
		}
	}
	return fmt.Sprintf("%d %s %d", idx, hlib.B(ok), routing.VerifHashPacket(p))
}

func newExec(t *testing.T) func([]string) string {
	return func(a []string) string {
		switch a[0] {
		case "calc":
			return guarded(func() string {
				gws := mkGateways(a[1:])
				routing.CalculateBucketsForGateways(gws)
				bs := make([]int, len(gws))
				for i := range gws {
					bs[i] = gws[i].BucketUpperBound()
				}
				if len(bs) == 0 {
					return "-"
				}
				return ints(bs)
			})
		case "hash":
			return fmt.Sprint(routing.VerifHashPacket(&firewall.Packet{LocalPort: uint16(hlib.Atoi(a[1])), RemotePort: uint16(hlib.Atoi(a[2]))}))
		case "balraw":
			return guarded(func() string {
				gws := mkGateways(a[3:])
				for i := range gws {
					routing.VerifSetBucketUpperBound(&gws[i], routing.VerifWeight(&gws[i]))
				}
				return balance(&firewall.Packet{LocalPort: uint16(hlib.Atoi(a[1])), RemotePort: uint16(hlib.Atoi(a[2]))}, gws)
			})
		case "bal":
			return guarded(func() string {
				pk := func(o int) *firewall.Packet {
					return &firewall.Packet{
						LocalPort: uint16(hlib.Atoi(a[1])), RemotePort: uint16(hlib.Atoi(a[2])),
						Protocol: uint8(hlib.Atoi(a[o])), Fragment: a[o+1] == "1",
						LocalAddr: hlib.ParseAddrHex(a[o+2]), RemoteAddr: hlib.ParseAddrHex(a[o+3]),
					}
				}
				gws := mkGateways(a[11:])
				routing.CalculateBucketsForGateways(gws)
				return balance(pk(3), gws) + " " + balance(pk(7), gws)
			})
		}
		return "bad-op"
	}
}

func TestEngine(t *testing.T) {
	hlib.Run(t, hlib.Engine{Name: "routing", Gen: gen, NewExec: newExec})
}
