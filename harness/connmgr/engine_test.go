// Engine `connmgr` (C30): the real connectionManager (makeTrafficDecision / doTrafficCheck) wired to a real hostmap,
// handshake manager, PKI and CA pool, under testing/synctest virtual time.  See lean/Nebula/Driver/Connmgr.lean.
package connmgr

import (
	"crypto/ed25519"
	"crypto/rand"
	"fmt"
	"net/netip"
	"sort"
	"strings"
	"testing"
	"time"

	"github.com/slackhq/nebula"
	"github.com/slackhq/nebula/cert"
	"github.com/slackhq/nebula/test"
	"verifharness/hlib"
)

const rejectAfter = ^uint64(0) - (uint64(1) << 40)
const rehandshakeAfter = uint64(1) << 34

// ---------------------------------------------------------------------------------------------
// generator

func gen(r *hlib.Rand, n int, tier, profile string, emit func(string, ...any)) {
	total := 0
	for total < n {
		timeout := hlib.Pick(r, 10, 30, 60, 600)
		my := hlib.Pick(r, 1, 5, 9)
		count := 0
		e := func(f string, a ...any) { emit(f, a...); count++ }
		e("reset %d %d %d %d", hlib.Pick(r, 1, 1, 0), timeout, r.Intn(2), my)
		g1, g2 := 1, 0
		switch r.Intn(6) {
		case 0:
			g1 = 0
		case 1, 2:
			g2 = 1
		}
		e("mycert %d %d %d", g1, g2, hlib.Pick(r, 1, 1, 1, 2))
		var idx []int // local indexes in use (approximately)
		checks := map[int]int{}
		checked := func(i int) int {
			checks[i]++
			if checks[i] >= 3 {
				for k, v := range idx {
					if v == i {
						idx = append(idx[:k], idx[k+1:]...)
						break
					}
				}
			}
			return i
		}
		tunnels := 0 // ids handed out so far (tunnels and pending handshakes), as far as the generator can tell
		nextIdx := 1
		relayIdx := 5000
		stream := func() string { relayIdx++; return fmt.Sprint(relayIdx) }
		addTo := func(a, kind, exp, g, ver, pv int) int {
			e("add %d %d %d %d %d %d %d %d", a, nextIdx, 100+nextIdx, kind, exp, g, ver, pv)
			idx = append(idx, nextIdx)
			nextIdx++
			tunnels++
			return nextIdx - 1
		}
		add := func() int {
			a := hlib.Pick(r, 2, 3, 7, 8)
			ver := hlib.Pick(r, 1, 1, 1, 2)
			g := g1
			if ver == 2 {
				g = g2
			}
			if r.Chance(1, 4) {
				g = r.Intn(3)
			}
			return addTo(a, 2, hlib.Pick(r, 0, 5, 20, 60, 100000), g, ver, hlib.Pick(r, 1, 1, 2))
		}
		tick := func(li int) { e("tick %d %s", checked(li), stream()) }

		// scripted openings on predictable ids (the first tunnels of a case)
		switch hlib.Pick(r, 0, 0, 1, 1, 2, 2, 2, 3, 3, 4, 9, 9) {
		case 0:
			// rekey boundary on the first tunnel, plain or with a peer on a higher certificate version that we cannot match
			li := addTo(hlib.Pick(r, 2, 7), 2, 100000, g1, 1, hlib.Pick(r, 1, 2))
			e("counter 1 %d", hlib.Pick(r, rehandshakeAfter-1, rehandshakeAfter, rehandshakeAfter, rehandshakeAfter+1))
			e("in 1")
			tick(li)
		case 1:
			// mixed versions: v1 tunnel to a v2 peer; then the local certificate is reloaded (or removed, or a v2 one appears)
			li := addTo(hlib.Pick(r, 2, 7), 2, 100000, g1, 1, 2)
			e("in 1")
			tick(li)
			switch r.Intn(3) {
			case 0:
				g1 = 2
			case 1:
				g2 = 1 - g2
			case 2:
				g1 = 0
			}
			e("mycert %d %d %d", g1, g2, 1)
			e("in 1")
			tick(li)
		case 2:
			// two tunnels to one peer, inbound traffic on the older one: swap or relay migration
			a := hlib.Pick(r, 2, 3, 7, 8)
			l1 := addTo(a, 2, 100000, hlib.Pick(r, g1, g1, 2), 1, 1)
			addTo(a, 2, 100000, hlib.Pick(r, g1, g1, 2), 1, 1)
			if r.Bool() {
				e("relay 1 %d %d %d %s", hlib.Pick(r, 20, 21), hlib.Pick(r, 1, 2), hlib.Pick(r, 0, 2), stream())
				if r.Chance(3, 4) {
					e("used %d", relayIdx)
				}
				if r.Chance(1, 3) {
					e("relay 2 20 %d %d %s", hlib.Pick(r, 1, 2), hlib.Pick(r, 0, 2), stream())
				}
			}
			if r.Chance(1, 4) {
				e("counter 1 %d", hlib.Pick(r, rehandshakeAfter-1, rehandshakeAfter))
			}
			e("in 1")
			tick(l1)
		case 3:
			// idle primary: one check with traffic (lastUsed is set), then silence around the inactivity timeout
			li := addTo(hlib.Pick(r, 2, 7), 2, 100000, g1, 1, 1)
			e("in 1")
			tick(li)
			e("sleep %d", hlib.Pick(r, timeout-1, timeout, timeout, timeout+1, 2*timeout))
			if r.Chance(1, 5) {
				e("out 1")
			}
			tick(li)
		case 4:
			// a tunnel without ConnectionState (alone on its address)
			li := addTo(9, 0, 0, 0, 1, 1)
			if r.Bool() {
				e("counter 1 %d", rejectAfter)
			}
			tick(li)
			if r.Bool() {
				e("out 1")
			}
			tick(li)
			tick(li)
		default:
			add()
		}
		k := r.Range(10, 60)
		for i := 0; i < k && total+count < n; i++ {
			pickIdx := func() int {
				if len(idx) == 0 {
					add()
				}
				if r.Chance(1, 40) {
					return 90 + r.Intn(3)
				}
				if len(idx) > 3 && r.Chance(3, 4) {
					return idx[len(idx)-1-r.Intn(3)]
				}
				return idx[r.Intn(len(idx))]
			}
			pickTun := func() int {
				if tunnels > 3 && r.Chance(3, 4) {
					return tunnels - r.Intn(3)
				}
				return 1 + r.Intn(tunnels+1)
			}
			switch c := r.Intn(100); {
			case c < 12:
				add()
			case c < 21:
				e("in %d", pickTun())
			case c < 28:
				e("out %d", pickTun())
			case c < 32:
				e("counter %d %d", pickTun(), hlib.Pick(r, uint64(0), 7, rehandshakeAfter-1, rehandshakeAfter, rehandshakeAfter+1,
					rejectAfter-1, rejectAfter, rejectAfter+1, ^uint64(0)))
			case c < 34:
				e("block %d", pickTun())
			case c < 43:
				e("sleep %d", hlib.Pick(r, 1, 4, 5, 6, 9, 10, 11, timeout-1, timeout, timeout+1, 2*timeout, 19, 20, 21, 59, 60, 61))
			case c < 45:
				e("cfg %d %d %d", r.Intn(2), hlib.Pick(r, timeout, timeout, 10, 30), r.Intn(2))
			case c < 48:
				g1, g2 = r.Intn(3), r.Intn(2)
				e("mycert %d %d %d", g1, g2, hlib.Pick(r, 1, 1, 1, 2))
			case c < 52:
				e("relay %d %d %d %d %s", pickTun(), hlib.Pick(r, 20, 21, 22), hlib.Pick(r, 1, 2), hlib.Pick(r, 0, 1, 2), stream())
				if r.Chance(1, 2) {
					e("used %d", relayIdx)
				}
			case c < 66:
				e("decide %d", checked(pickIdx()))
			default:
				tick(pickIdx())
			}
		}
		total += count
	}
}

// ---------------------------------------------------------------------------------------------
// executor

type tunInfo struct {
	hasCS, hasCert bool
	addr           int
}

type world struct {
	info    map[int]tunInfo
	v       *nebula.VerifConnMgr
	pool    *cert.CAPool
	caCert  cert.Certificate
	caKey   ed25519.PrivateKey
	objs    []*nebula.HostInfo // by id; nil for ids burnt by pending handshakes
	certs   []*cert.CachedCertificate
	oid     map[*nebula.HostInfo]int
	pending map[netip.Addr]bool
}

func addrOf(n int) netip.Addr { return netip.AddrFrom4([4]byte{10, 0, byte(n >> 8), byte(n)}) }
func numOf(a netip.Addr) int  { b := a.As4(); return int(b[2])<<8 | int(b[3]) }

func newWorld(my int) *world {
	now := time.Now()
	pub, priv, _ := ed25519.GenerateKey(rand.Reader)
	tbs := &cert.TBSCertificate{Version: cert.Version1, Name: "ca", IsCA: true, NotBefore: now.Add(-time.Hour),
		NotAfter: now.Add(20 * 365 * 24 * time.Hour), PublicKey: pub, Curve: cert.Curve_CURVE25519}
	ca, err := tbs.Sign(nil, cert.Curve_CURVE25519, priv)
	if err != nil {
		panic(err)
	}
	pool := cert.NewCAPool()
	if err := pool.AddCA(ca); err != nil {
		panic(err)
	}
	return &world{v: nebula.VerifConnMgrNew(addrOf(my), pool), pool: pool, caCert: ca, caKey: priv,
		objs: []*nebula.HostInfo{nil}, certs: []*cert.CachedCertificate{nil}, oid: map[*nebula.HostInfo]int{}, pending: map[netip.Addr]bool{}, info: map[int]tunInfo{}}
}

func (w *world) name(h *nebula.HostInfo) string {
	if h == nil {
		return "nil"
	}
	if id, ok := w.oid[h]; ok {
		return fmt.Sprint(id)
	}
	return "?"
}

func (w *world) tun(t string) *nebula.HostInfo {
	n := hlib.Atoi(t)
	if n < 1 || n >= len(w.objs) {
		return nil
	}
	return w.objs[n]
}

func flags(h *nebula.HostInfo) string {
	in, out, pd, _ := nebula.VerifFlags(h)
	return hlib.B(in) + hlib.B(out) + hlib.B(pd)
}

func (w *world) dump() string {
	lists, idx, pending := w.v.VerifConnMgrDump()
	// a handshake started by tryRehandshake creates a hostinfo: it takes the next id, like in the model
	for _, a := range pending {
		if !w.pending[a] {
			w.pending[a] = true
			w.objs = append(w.objs, nil)
			w.certs = append(w.certs, nil)
		}
	}
	var hs, is, vs, fs []string
	var addrs []int
	for a := range lists {
		addrs = append(addrs, numOf(a))
	}
	sort.Ints(addrs)
	for _, a := range addrs {
		var names []string
		for _, h := range lists[addrOf(a)] {
			names = append(names, w.name(h))
		}
		hs = append(hs, fmt.Sprintf(" %d:%s", a, strings.Join(names, ",")))
	}
	var keys []int
	for i := range idx {
		keys = append(keys, int(i))
	}
	sort.Ints(keys)
	var ids []int
	for _, i := range keys {
		is = append(is, fmt.Sprintf(" %d:%s", i, w.name(idx[uint32(i)])))
		ids = append(ids, w.oid[idx[uint32(i)]])
	}
	sort.Ints(ids)
	for _, id := range ids {
		fs = append(fs, fmt.Sprintf(" %d:%s", id, flags(w.objs[id])))
	}
	var ps []int
	for _, a := range pending {
		ps = append(ps, numOf(a))
	}
	sort.Ints(ps)
	for _, a := range ps {
		vs = append(vs, fmt.Sprintf(" %d", a))
	}
	var ls, qs, us []string
	relays := w.v.VerifRelays()
	var rk []int
	for i := range relays {
		rk = append(rk, int(i))
	}
	sort.Ints(rk)
	for _, i := range rk {
		ls = append(ls, fmt.Sprintf(" %d:%s", i, w.name(relays[uint32(i)])))
	}
	for _, id := range ids {
		_, byAddr, _ := nebula.VerifHostmapRelayState(w.objs[id])
		if len(byAddr) == 0 {
			continue
		}
		var peers []int
		for a := range byAddr {
			peers = append(peers, numOf(a))
		}
		sort.Ints(peers)
		var items []string
		for _, a := range peers {
			r := byAddr[addrOf(a)]
			items = append(items, fmt.Sprintf("%d/%d/%d", a, r.Type, r.State))
		}
		qs = append(qs, fmt.Sprintf(" %d:%s", id, strings.Join(items, ",")))
	}
	var uk []int
	for _, i := range w.v.VerifRelayUsed() {
		uk = append(uk, int(i))
	}
	sort.Ints(uk)
	for _, i := range uk {
		us = append(us, fmt.Sprintf(" %d", i))
	}
	return "H" + strings.Join(hs, "") + "|I" + strings.Join(is, "") + "|V" + strings.Join(vs, "") + "|F" + strings.Join(fs, "") +
		"|L" + strings.Join(ls, "") + "|Q" + strings.Join(qs, "") + "|U" + strings.Join(us, "")
}

// stream is the stand-in for crypto/rand.Reader during AddRelay: the big-endian bytes of the op's values, cyclically.
type stream struct {
	b   []byte
	pos int
}

func (s *stream) Read(p []byte) (int, error) {
	for i := range p {
		p[i] = s.b[s.pos%len(s.b)]
		s.pos++
	}
	return len(p), nil
}

func parseStream(t string) (*stream, bool) {
	var b []byte
	nz := false
	for _, f := range strings.Split(t, ",") {
		v := hlib.Atou(f)
		if v >= 1<<32 {
			return nil, false
		}
		if v != 0 {
			nz = true
		}
		b = append(b, byte(v>>24), byte(v>>16), byte(v>>8), byte(v))
	}
	if !nz {
		return nil, false
	}
	return &stream{b: b}, true
}

func newExec(t *testing.T) func([]string) string {
	var w *world
	localCert := func(ver, g int) cert.Certificate {
		if g == 0 {
			return nil
		}
		return nebula.VerifLocalCert(ver, []byte{byte(g)})
	}
	orig := rand.Reader
	t.Cleanup(func() { rand.Reader = orig })
	withStream := func(tok string, f func() string) string {
		if tok == "-" {
			return f()
		}
		rd, ok := parseStream(tok)
		if !ok {
			return "bad-op"
		}
		rand.Reader = rd
		defer func() { rand.Reader = orig }()
		return f()
	}
	return func(a []string) string {
		if a[0] == "reset" {
			if len(a) != 5 {
				return "bad-op"
			}
			w = newWorld(hlib.Atoi(a[4]))
			w.v.VerifSetConfig(a[1] != "0", time.Duration(hlib.Atoi(a[2]))*time.Second, a[3] != "0")
			return "ok"
		}
		if w == nil {
			return "bad-op"
		}
		switch a[0] {
		case "cfg":
			w.v.VerifSetConfig(a[1] != "0", time.Duration(hlib.Atoi(a[2]))*time.Second, a[3] != "0")
			return "ok"
		case "mycert":
			if len(a) != 4 {
				return "bad-op"
			}
			w.v.VerifSetCertState(localCert(1, hlib.Atoi(a[1])), localCert(2, hlib.Atoi(a[2])), hlib.Atoi(a[3]))
			return "ok"
		case "add":
			if len(a) != 9 {
				return "bad-op"
			}
			li := uint32(hlib.Atou(a[2]))
			if li == 0 || w.v.Main.QueryIndex(li) != nil {
				return "bad-op"
			}
			kind, ver, pv := hlib.Atoi(a[4]), hlib.Atoi(a[7]), hlib.Atoi(a[8])
			if !(kind == 0 || kind == 2) || !(ver == 1 || ver == 2) || !(pv == 1 || pv == 2) {
				return "bad-op"
			}
			addr := addrOf(hlib.Atoi(a[1]))
			// tunnels without a peer certificate live alone on their address (see the driver)
			lists, _, _ := w.v.VerifConnMgrDump()
			for _, x := range lists[addr] {
				if !w.info[w.oid[x]].hasCert {
					return "bad-op"
				}
			}
			if kind != 2 && len(lists[addr]) > 0 {
				return "bad-op"
			}
			now := time.Now()
			var cached *cert.CachedCertificate
			if a[4] == "2" {
				pub, _, _ := ed25519.GenerateKey(rand.Reader)
				tbs := &cert.TBSCertificate{Version: cert.Version(pv), Name: fmt.Sprintf("h%d", len(w.objs)), Networks: []netip.Prefix{netip.PrefixFrom(addr, 24)},
					NotBefore: now.Add(-time.Second), NotAfter: now.Add(time.Duration(hlib.Atoi(a[5])) * time.Second), PublicKey: pub, Curve: cert.Curve_CURVE25519}
				c, err := tbs.Sign(w.caCert, cert.Curve_CURVE25519, w.caKey)
				if err != nil {
					panic(err)
				}
				cached, err = w.pool.VerifyCertificate(now, c)
				if err != nil {
					panic(err)
				}
			}
			// a tunnel always carries the local certificate it was built with; generation 0 stands for one that has
			// since been replaced by something else entirely
			my := nebula.VerifLocalCert(ver, []byte{byte(hlib.Atoi(a[6]))})
			h := w.v.VerifAddTunnel(addr, li, uint32(hlib.Atou(a[3])), my, cached, kind != 0)
			w.info[len(w.objs)] = tunInfo{hasCS: kind != 0, hasCert: kind == 2, addr: hlib.Atoi(a[1])}
			w.objs = append(w.objs, h)
			w.certs = append(w.certs, cached)
			w.oid[h] = len(w.objs) - 1
			return fmt.Sprintf("new %d;%s", len(w.objs)-1, w.dump())
		case "relay":
			if len(a) != 6 {
				return "bad-op"
			}
			h := w.tun(a[1])
			ty := hlib.Atoi(a[3])
			if h == nil || !(ty == 1 || ty == 2) {
				return "bad-op"
			}
			return withStream(a[5], func() string {
				idx, err := nebula.AddRelay(test.NewLogger(), h, w.v.Main, addrOf(hlib.Atoi(a[2])), nil, ty, hlib.Atoi(a[4]))
				res := ""
				switch {
				case err == nil:
					res = fmt.Sprintf("idx %d", idx)
				case strings.Contains(err.Error(), "no longer in the hostmap"):
					res = "err:unlinked"
				case strings.Contains(err.Error(), "failed to generate unique"):
					res = "err:exhausted"
				default:
					res = "err:rand"
				}
				return res + ";" + w.dump()
			})
		case "used":
			i := uint32(hlib.Atou(a[1]))
			if owner := w.v.VerifRelays()[i]; owner != nil {
				_, _, byIdx := nebula.VerifHostmapRelayState(owner)
				for _, j := range w.v.VerifRelayUsed() {
					if _, mine := byIdx[j]; mine && j != i {
						return "bad-op"
					}
				}
			}
			w.v.VerifMarkRelayUsed(i)
			return "ok"
		case "in", "out", "block":
			if a[0] == "in" {
				if inf, ok := w.info[hlib.Atoi(a[1])]; ok && !inf.hasCS {
					return "bad-op"
				}
			}
			h := w.tun(a[1])
			if h != nil {
				switch a[0] {
				case "in":
					w.v.VerifIn(h)
				case "out":
					w.v.VerifOut(h)
				case "block":
					if c := w.certs[hlib.Atoi(a[1])]; c != nil {
						w.pool.BlocklistFingerprint(c.Fingerprint)
					}
				}
			}
			return "ok"
		case "counter":
			if h := w.tun(a[1]); h != nil {
				nebula.VerifSetCounter(h, hlib.Atou(a[2]))
			}
			return "ok"
		case "sleep":
			time.Sleep(time.Duration(hlib.Atoi(a[1])) * time.Second)
			return "ok"
		case "decide":
			li := uint32(hlib.Atou(a[1]))
			found := w.v.Main.QueryIndex(li)
			d, h, p := w.v.VerifMakeTrafficDecision(li, time.Now())
			f := "-"
			if found != nil {
				f = flags(found)
			}
			return fmt.Sprintf("d=%d h=%s p=%s f=%s", d, w.name(h), w.name(p), f)
		case "tick":
			if len(a) != 3 {
				return "bad-op"
			}
			return withStream(a[2], func() string {
				w.v.VerifDoTrafficCheck(uint32(hlib.Atou(a[1])), time.Now())
				return w.dump()
			})
		}
		return "bad-op"
	}
}

func TestEngine(t *testing.T) {
	hlib.Run(t, hlib.Engine{Name: "connmgr", Gen: gen, NewExec: newExec, Synctest: true})
}
