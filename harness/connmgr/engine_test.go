// Engine `connmgr` (C30): the real connectionManager (makeTrafficDecision / doTrafficCheck) wired to a real hostmap,
// handshake manager, PKI and CA pool, under testing/synctest virtual time.  See lean/Nebula/Driver/Connmgr.lean.
package connmgr

import (
	"crypto/ed25519"
	"crypto/rand"
	"fmt"
	"net/netip"
	"sort"
	"strings"
	"testing"
	"time"

	"github.com/slackhq/nebula"
	"github.com/slackhq/nebula/cert"
	"verifharness/hlib"
)

const rejectAfter = ^uint64(0) - (uint64(1) << 40)
const rehandshakeAfter = uint64(1) << 34

// ---------------------------------------------------------------------------------------------
// generator

func gen(r *hlib.Rand, n int, tier, profile string, emit func(string, ...any)) {
	total := 0
	for total < n {
		timeout := hlib.Pick(r, 10, 30, 60, 600)
		my := hlib.Pick(r, 1, 5, 9)
		emit("reset %d %d %d %d", hlib.Pick(r, 1, 1, 0), timeout, r.Intn(2), my)
		gens := 1
		if r.Chance(3, 4) {
			emit("mycert 1 %d", hlib.Pick(r, 1, 1, 1, 2))
		} else {
			emit("mycert 0 1")
			gens = 0
		}
		total += 2
		var idx []int // local indexes in use (approximately)
		checks := map[int]int{}
		checked := func(i int) int {
			// a tunnel rarely survives more than a few checks: forget its index so that later checks hit live ones
			checks[i]++
			if checks[i] >= 3 {
				for k, v := range idx {
					if v == i {
						idx = append(idx[:k], idx[k+1:]...)
						break
					}
				}
			}
			return i
		}
		tunnels := 0
		nextIdx := 1
		add := func() {
			a := hlib.Pick(r, 2, 3, 7, 8)
			kind := hlib.Pick(r, 1, 2, 2, 2)
			exp := hlib.Pick(r, 0, 5, 20, 60, 100000)
			g := gens
			if r.Chance(1, 4) {
				g = r.Intn(3)
			}
			emit("add %d %d %d %d %d %d", a, nextIdx, 100+nextIdx, kind, exp, g)
			idx = append(idx, nextIdx)
			nextIdx++
			tunnels++
		}
		k := r.Range(15, 70)
		add()
		total++
		if r.Chance(1, 3) {
			// rekey boundary on the very first tunnel (its id is 1): inbound traffic on the primary with the counter around
			// the rehandshake threshold
			emit("counter 1 %d", hlib.Pick(r, rehandshakeAfter-1, rehandshakeAfter, rehandshakeAfter, rehandshakeAfter+1))
			emit("in 1")
			emit("tick 1")
			total += 3
		}
		for i := 0; i < k && total < n; i++ {
			total++
			pickIdx := func() int {
				if len(idx) == 0 {
					add()
				}
				if r.Chance(1, 40) {
					return 90 + r.Intn(3)
				}
				if len(idx) > 3 && r.Chance(3, 4) {
					return idx[len(idx)-1-r.Intn(3)]
				}
				return idx[r.Intn(len(idx))]
			}
			pickTun := func() int {
				if tunnels > 3 && r.Chance(3, 4) {
					return tunnels - r.Intn(3)
				}
				return 1 + r.Intn(tunnels+1)
			}
			switch c := r.Intn(100); {
			case c < 12:
				add()
			case c < 21:
				emit("in %d", pickTun())
			case c < 28:
				emit("out %d", pickTun())
			case c < 32:
				emit("counter %d %d", pickTun(), hlib.Pick(r, uint64(0), 7, rehandshakeAfter-1, rehandshakeAfter, rehandshakeAfter+1,
					rejectAfter-1, rejectAfter, rejectAfter+1, ^uint64(0)))
			case c < 34:
				emit("block %d", pickTun())
			case c < 43:
				emit("sleep %d", hlib.Pick(r, 1, 4, 5, 6, 9, 10, 11, timeout-1, timeout, timeout+1, 2*timeout, 19, 20, 21, 59, 60, 61))
			case c < 45:
				emit("cfg %d %d %d", r.Intn(2), hlib.Pick(r, timeout, timeout, 10, 30), r.Intn(2))
			case c < 48:
				gens = r.Intn(3)
				emit("mycert %d %d", gens, hlib.Pick(r, 1, 1, 1, 2))
			case c < 64:
				emit("decide %d", checked(pickIdx()))
			default:
				emit("tick %d", checked(pickIdx()))
			}
		}
	}
}

// ---------------------------------------------------------------------------------------------
// executor

type world struct {
	v       *nebula.VerifConnMgr
	pool    *cert.CAPool
	caCert  cert.Certificate
	caKey   ed25519.PrivateKey
	objs    []*nebula.HostInfo // by id; nil for ids burnt by pending handshakes
	certs   []*cert.CachedCertificate
	oid     map[*nebula.HostInfo]int
	pending map[netip.Addr]bool
}

func addrOf(n int) netip.Addr { return netip.AddrFrom4([4]byte{10, 0, byte(n >> 8), byte(n)}) }
func numOf(a netip.Addr) int  { b := a.As4(); return int(b[2])<<8 | int(b[3]) }

func newWorld(my int) *world {
	now := time.Now()
	pub, priv, _ := ed25519.GenerateKey(rand.Reader)
	tbs := &cert.TBSCertificate{Version: cert.Version1, Name: "ca", IsCA: true, NotBefore: now.Add(-time.Hour),
		NotAfter: now.Add(20 * 365 * 24 * time.Hour), PublicKey: pub, Curve: cert.Curve_CURVE25519}
	ca, err := tbs.Sign(nil, cert.Curve_CURVE25519, priv)
	if err != nil {
		panic(err)
	}
	pool := cert.NewCAPool()
	if err := pool.AddCA(ca); err != nil {
		panic(err)
	}
	return &world{v: nebula.VerifConnMgrNew(addrOf(my), pool), pool: pool, caCert: ca, caKey: priv,
		objs: []*nebula.HostInfo{nil}, certs: []*cert.CachedCertificate{nil}, oid: map[*nebula.HostInfo]int{}, pending: map[netip.Addr]bool{}}
}

func (w *world) name(h *nebula.HostInfo) string {
	if h == nil {
		return "nil"
	}
	if id, ok := w.oid[h]; ok {
		return fmt.Sprint(id)
	}
	return "?"
}

func (w *world) tun(t string) *nebula.HostInfo {
	n := hlib.Atoi(t)
	if n < 1 || n >= len(w.objs) {
		return nil
	}
	return w.objs[n]
}

func flags(h *nebula.HostInfo) string {
	in, out, pd, _ := nebula.VerifFlags(h)
	return hlib.B(in) + hlib.B(out) + hlib.B(pd)
}

func (w *world) dump() string {
	lists, idx, pending := w.v.VerifConnMgrDump()
	// a handshake started by tryRehandshake creates a hostinfo: it takes the next id, like in the model
	for _, a := range pending {
		if !w.pending[a] {
			w.pending[a] = true
			w.objs = append(w.objs, nil)
			w.certs = append(w.certs, nil)
		}
	}
	var hs, is, vs, fs []string
	var addrs []int
	for a := range lists {
		addrs = append(addrs, numOf(a))
	}
	sort.Ints(addrs)
	for _, a := range addrs {
		var names []string
		for _, h := range lists[addrOf(a)] {
			names = append(names, w.name(h))
		}
		hs = append(hs, fmt.Sprintf(" %d:%s", a, strings.Join(names, ",")))
	}
	var keys []int
	for i := range idx {
		keys = append(keys, int(i))
	}
	sort.Ints(keys)
	var ids []int
	for _, i := range keys {
		is = append(is, fmt.Sprintf(" %d:%s", i, w.name(idx[uint32(i)])))
		ids = append(ids, w.oid[idx[uint32(i)]])
	}
	sort.Ints(ids)
	for _, id := range ids {
		fs = append(fs, fmt.Sprintf(" %d:%s", id, flags(w.objs[id])))
	}
	var ps []int
	for _, a := range pending {
		ps = append(ps, numOf(a))
	}
	sort.Ints(ps)
	for _, a := range ps {
		vs = append(vs, fmt.Sprintf(" %d", a))
	}
	return "H" + strings.Join(hs, "") + "|I" + strings.Join(is, "") + "|V" + strings.Join(vs, "") + "|F" + strings.Join(fs, "")
}

func newExec(t *testing.T) func([]string) string {
	var w *world
	localCert := func(g int) cert.Certificate {
		if g == 0 {
			return nil
		}
		return nebula.VerifLocalCert(1, []byte{byte(g)})
	}
	return func(a []string) string {
		if a[0] == "reset" {
			if len(a) != 5 {
				return "bad-op"
			}
			w = newWorld(hlib.Atoi(a[4]))
			w.v.VerifSetConfig(a[1] != "0", time.Duration(hlib.Atoi(a[2]))*time.Second, a[3] != "0")
			return "ok"
		}
		if w == nil {
			return "bad-op"
		}
		switch a[0] {
		case "cfg":
			w.v.VerifSetConfig(a[1] != "0", time.Duration(hlib.Atoi(a[2]))*time.Second, a[3] != "0")
			return "ok"
		case "mycert":
			w.v.VerifSetCertState(localCert(hlib.Atoi(a[1])), nil, hlib.Atoi(a[2]))
			return "ok"
		case "add":
			if len(a) != 7 {
				return "bad-op"
			}
			li := uint32(hlib.Atou(a[2]))
			if li == 0 || w.v.Main.QueryIndex(li) != nil {
				return "bad-op"
			}
			addr := addrOf(hlib.Atoi(a[1]))
			now := time.Now()
			var cached *cert.CachedCertificate
			if a[4] == "2" {
				pub, _, _ := ed25519.GenerateKey(rand.Reader)
				tbs := &cert.TBSCertificate{Version: cert.Version1, Name: fmt.Sprintf("h%d", len(w.objs)), Networks: []netip.Prefix{netip.PrefixFrom(addr, 24)},
					NotBefore: now.Add(-time.Second), NotAfter: now.Add(time.Duration(hlib.Atoi(a[5])) * time.Second), PublicKey: pub, Curve: cert.Curve_CURVE25519}
				c, err := tbs.Sign(w.caCert, cert.Curve_CURVE25519, w.caKey)
				if err != nil {
					panic(err)
				}
				cached, err = w.pool.VerifyCertificate(now, c)
				if err != nil {
					panic(err)
				}
			}
			// a tunnel always carries the local certificate it was built with; generation 0 stands for one that has
			// since been replaced by something else entirely
			my := nebula.VerifLocalCert(1, []byte{byte(hlib.Atoi(a[6]))})
			h := w.v.VerifAddTunnel(addr, li, uint32(hlib.Atou(a[3])), my, cached, true)
			w.objs = append(w.objs, h)
			w.certs = append(w.certs, cached)
			w.oid[h] = len(w.objs) - 1
			return fmt.Sprintf("new %d;%s", len(w.objs)-1, w.dump())
		case "in", "out", "block":
			h := w.tun(a[1])
			if h != nil {
				switch a[0] {
				case "in":
					w.v.VerifIn(h)
				case "out":
					w.v.VerifOut(h)
				case "block":
					if c := w.certs[hlib.Atoi(a[1])]; c != nil {
						w.pool.BlocklistFingerprint(c.Fingerprint)
					}
				}
			}
			return "ok"
		case "counter":
			if h := w.tun(a[1]); h != nil {
				nebula.VerifSetCounter(h, hlib.Atou(a[2]))
			}
			return "ok"
		case "sleep":
			time.Sleep(time.Duration(hlib.Atoi(a[1])) * time.Second)
			return "ok"
		case "decide":
			li := uint32(hlib.Atou(a[1]))
			found := w.v.Main.QueryIndex(li)
			d, h, p := w.v.VerifMakeTrafficDecision(li, time.Now())
			f := "-"
			if found != nil {
				f = flags(found)
			}
			return fmt.Sprintf("d=%d h=%s p=%s f=%s", d, w.name(h), w.name(p), f)
		case "tick":
			w.v.VerifDoTrafficCheck(uint32(hlib.Atou(a[1])), time.Now())
			return w.dump()
		}
		return "bad-op"
	}
}

func TestEngine(t *testing.T) {
	hlib.Run(t, hlib.Engine{Name: "connmgr", Gen: gen, NewExec: newExec, Synctest: true})
}
