// Engine `hsmanager` (C09, C10, C31, C32): the real HandshakeManager / HostMap / handshake.Machine of 2-4
// in-process nodes, packets carried by the harness, virtual time (testing/synctest), scripted indexes.
//
// ops (acting node first; every answer ends with the acting node's canonical state dump):
//
//	reset <retries> <intervalMs> <spec>…   spec = <ver>:<addr>[,<addr>…]  ver 1|2|3(v1+v2); addr id <100 = 10.128.0.id, >=100 = fd00::id
//	lh n a m        node n learns: overlay addr a is reachable at node m's underlay address
//	hs n a          Interface.Handshake(a)  (GetOrHandshake)
//	rehs n a        HandshakeManager.StartHandshake(a) (what tryRehandshake does)
//	tick n          NextOutboundHandshakeTimerTick(now)
//	trig n a        lighthouse trigger for a, then the trigger branch of Run
//	sleep ms        advance virtual time
//	deliver k       deliver transmission k (handshake packets only) to the node owning its destination
//	dto k m         deliver transmission k to node m instead (misdelivery / replay elsewhere)
//	dl j / dlto j m the same, counting back from the latest transmission (j = 0)
//	dlm j r c       like dl j, with the packet's (unauthenticated) header re-framed: reserved bytes := r, counter := c (0 = keep)
//	(reset … rt<n>=g:w,g:w  gives node n an unsafe route 172.16.0.0/16 with these gateways; addr ids >= 200 are inside it)
//	send n a port len   one inside UDP packet (IPv4/IPv6 by a) to overlay addr a, dst port, total length
//	idx n v         the next index node n draws from crypto/rand is v
//	del n li        connection manager deleteTunnel on local index li
//	swap n li       connection manager shouldSwapPrimary/swapPrimary on local index li
//	cmcheck n li in out   connection manager doTrafficCheck for local index li with the given traffic flags
//	block n m       config reload on node n putting node m's certificates on pki.blocklist
//	(reset … al<n>=u:b,…  gives node n lighthouse.remote_allow_list {underlay of node u: b, 0.0.0.0/0: true};
//	         ar<n>=a/u:b,… gives it lighthouse.remote_allow_ranges {overlay addr a: {underlay of node u: b, 0.0.0.0/0: true}})
//	relay n r p     node n: an established terminal relay object for peer overlay addr p on its primary tunnel to overlay addr r
//	rdto k m r p    transmission k reaches node m unwrapped from the relay (r, p) of node m: processed with a relayed ViaSender
//	rdl j m r p     the same, counting back from the latest transmission
//
// Transmissions through a relay (SendVia) are written h<pid>v<r>>u / m<len>v<r>>u / cv<r>>u (r = relay host overlay addr,
// u = node the relay message is written to); every tunnel line of section I ends with the tunnel's relayState.relays.
package hsmanager

import (
	"crypto/rand"
	"encoding/binary"
	"fmt"
	"io"
	"log/slog"
	"net/netip"
	"sort"
	"strings"
	"testing"
	"testing/synctest"
	"time"

	"github.com/slackhq/nebula"
	"github.com/slackhq/nebula/cert"
	"github.com/slackhq/nebula/cert_test"
	"github.com/slackhq/nebula/config"
	"github.com/slackhq/nebula/header"
	"github.com/slackhq/nebula/overlay/overlaytest"
	"github.com/slackhq/nebula/overlay/tio"
	"github.com/slackhq/nebula/routing"
	"github.com/slackhq/nebula/udp"
	"go.yaml.in/yaml/v3"
	"verifharness/hlib"
)

// ---------------------------------------------------------------------------------------------- executor

type txRec struct {
	pid int
	src int
	dst netip.AddrPort
	b   []byte
}

type recConn struct {
	w    *world
	node int
}

func (c *recConn) Rebind() error                      { return nil }
func (c *recConn) LocalAddr() (netip.AddrPort, error) { return underlay(c.node), nil }
func (c *recConn) ListenOut(r udp.EncReader, flush func()) error {
	return nil
}
func (c *recConn) WriteTo(b []byte, addr netip.AddrPort) error {
	c.w.record(c.node, b, addr)
	return nil
}
func (c *recConn) WriteBatch(bufs [][]byte, addrs []netip.AddrPort) (int, error) {
	for i := range bufs {
		c.w.record(c.node, bufs[i], addrs[i])
	}
	return len(bufs), nil
}
func (c *recConn) ReloadConfig(*config.C)        {}
func (c *recConn) SupportsMultipleReaders() bool { return false }
func (c *recConn) Close() error                  { return nil }

// routedTun is a tun device without packets that knows one unsafe route (172.16.0.0/16) with its gateways.
type routedTun struct {
	overlaytest.NoopTun
	gws routing.Gateways
}

func (t *routedTun) RoutesFor(a netip.Addr) routing.Gateways {
	if a.Is4() && a.As4()[0] == 172 && a.As4()[1] == 16 {
		return t.gws
	}
	return routing.Gateways{}
}

func (t *routedTun) Queues(int) ([]tio.Queue, error) { return []tio.Queue{t}, nil }

type world struct {
	nodes   []*nebula.VerifHsmNode
	log     []txRec        // deliverable transmissions (handshake packets)
	full    map[string]int // packet bytes -> pid
	body    map[string]int // packet bytes without header -> pid
	nextPid int
	tx      []string // canonical transmissions of the current op
	cur     int      // node whose code is running (for the index stream)
	idxQ    [][]uint32
	idxCtr  []uint32
	rnd     *hlib.Rand
	t0      int64 // virtual time of the reset (times are printed relative to it)
	pkis    []m          // per node: the pki section of its configuration
	fps     [][]string   // per node: fingerprints of its certificates
	blocked [][]string   // per node: fingerprints on its blocklist
	log0    *slog.Logger
	relayIdx  uint32                  // next relay index handed out by the `relay` op
	relayAddr []map[uint32]netip.Addr // per node: relay remote index -> overlay addr of the relay host
}

func underlay(n int) netip.AddrPort {
	return netip.AddrPortFrom(netip.AddrFrom4([4]byte{192, 0, 2, byte(n + 1)}), 4242)
}

func nodeOf(ap netip.AddrPort) int {
	a := ap.Addr()
	if !a.Is4() || ap.Port() != 4242 {
		return -1
	}
	b := a.As4()
	if b[0] != 192 || b[1] != 0 || b[2] != 2 || b[3] == 0 {
		return -1
	}
	return int(b[3]) - 1
}

func overlayAddr(id int) netip.Addr {
	if id >= 200 {
		// an address behind the unsafe route 172.16.0.0/16
		return netip.AddrFrom4([4]byte{172, 16, 0, byte(id - 200)})
	}
	if id < 100 {
		return netip.AddrFrom4([4]byte{10, 128, 0, byte(id)})
	}
	var b [16]byte
	b[0], b[1] = 0xfd, 0
	binary.BigEndian.PutUint16(b[14:], uint16(id))
	return netip.AddrFrom16(b)
}

func overlayPrefix(id int) netip.Prefix {
	if id < 100 {
		return netip.PrefixFrom(overlayAddr(id), 16)
	}
	return netip.PrefixFrom(overlayAddr(id), 64)
}

func addrID(a netip.Addr) int {
	if a.Is4() {
		b := a.As4()
		return int(b[3])
	}
	b := a.As16()
	return int(binary.BigEndian.Uint16(b[14:]))
}

func addrName(a netip.Addr) string { return fmt.Sprint(addrID(a)) }

func uName(ap netip.AddrPort) string {
	if !ap.IsValid() {
		return "-"
	}
	return fmt.Sprint(nodeOf(ap))
}

// Read implements the scripted crypto/rand.Reader: 4-byte reads are index draws of the running node
// (queued value, else a per-node counter); everything else comes from the deterministic stream.
func (w *world) Read(p []byte) (int, error) {
	if len(p) == 4 && w.cur >= 0 && w.cur < len(w.idxQ) {
		var v uint32
		if q := w.idxQ[w.cur]; len(q) > 0 {
			v = q[0]
			w.idxQ[w.cur] = q[1:]
		} else {
			w.idxCtr[w.cur]++
			v = uint32(w.cur+1)*1000 + w.idxCtr[w.cur]
		}
		binary.BigEndian.PutUint32(p, v)
		return 4, nil
	}
	return w.rnd.Read(p)
}

func (w *world) record(node int, b []byte, dst netip.AddrPort) {
	t, _, _, _, ok := nebula.VerifHsmHeaderKind(b)
	if !ok {
		return
	}
	d := fmt.Sprint(nodeOf(dst))
	if ri, inner, ok := nebula.VerifHsmRelayPayload(b); ok {
		// SendVia: the carried packet is in the clear
		it, _, _, _, ok2 := nebula.VerifHsmHeaderKind(inner)
		if !ok2 {
			return
		}
		rn := "?"
		if node < len(w.relayAddr) {
			if a, ok3 := w.relayAddr[node][ri]; ok3 {
				rn = addrName(a)
			}
		}
		switch it {
		case header.Handshake:
			pid, seen := w.full[string(inner)]
			if !seen {
				pid = w.nextPid
				w.nextPid++
				w.full[string(inner)] = pid
				w.body[string(inner[header.Len:])] = pid
			}
			cp := append([]byte(nil), inner...)
			w.log = append(w.log, txRec{pid: pid, src: node, dst: dst, b: cp})
			w.tx = append(w.tx, fmt.Sprintf("h%dv%s>%s", pid, rn, d))
		case header.Message:
			w.tx = append(w.tx, fmt.Sprintf("m%dv%s>%s", len(inner)-header.Len-16, rn, d))
		case header.CloseTunnel:
			w.tx = append(w.tx, fmt.Sprintf("cv%s>%s", rn, d))
		}
		return
	}
	switch t {
	case header.Handshake:
		pid, seen := w.full[string(b)]
		if !seen {
			pid = w.nextPid
			w.nextPid++
			w.full[string(b)] = pid
			w.body[string(b[header.Len:])] = pid
		}
		cp := append([]byte(nil), b...)
		w.log = append(w.log, txRec{pid: pid, src: node, dst: dst, b: cp})
		w.tx = append(w.tx, fmt.Sprintf("h%d>%s", pid, d))
	case header.Message:
		w.tx = append(w.tx, fmt.Sprintf("m%d>%s", len(b)-header.Len-16, d))
	case header.CloseTunnel:
		w.tx = append(w.tx, "c>"+d)
	}
}

// canonical transmissions: consecutive writes of the same packet are one group with sorted destinations
func (w *world) txString() string {
	var groups []string
	i := 0
	for i < len(w.tx) {
		k := strings.IndexByte(w.tx[i], '>')
		name := w.tx[i][:k]
		var dsts []string
		j := i
		for j < len(w.tx) && strings.HasPrefix(w.tx[j], name+">") {
			dsts = append(dsts, w.tx[j][k+1:])
			j++
		}
		sort.Strings(dsts)
		groups = append(groups, name+">"+strings.Join(dsts, "+"))
		i = j
	}
	return "T[" + strings.Join(groups, ",") + "]"
}

func (w *world) pktName(stage uint8, b []byte) string {
	if b == nil {
		return "-"
	}
	if pid, ok := w.full[string(b)]; ok {
		return fmt.Sprint(pid)
	}
	if pid, ok := w.body[string(b)]; ok {
		return fmt.Sprint(pid)
	}
	return "u"
}

func (w *world) timeName(t uint64) string { return fmt.Sprint(int64(t) - w.t0) }

func (w *world) finish(n int, res string) string {
	node := w.nodes[n]
	synctest.Wait()
	return res + " " + w.txString() + " " + withRelays(node, node.Dump(w.pktName, addrName, uName, w.timeName))
}

// withRelays appends relayState.relays to every tunnel line of section I
func withRelays(node *nebula.VerifHsmNode, dump string) string {
	i := strings.Index(dump, " I[")
	j := strings.Index(dump, "] R[")
	if i < 0 || j < i {
		return dump
	}
	body := dump[i+3 : j]
	if body == "" {
		return dump
	}
	ents := strings.Split(body, ",")
	for k, e := range ents {
		li := hlib.Atou(e[:strings.IndexByte(e, ':')])
		var rs []string
		for _, a := range node.RelaysOf(uint32(li)) {
			rs = append(rs, addrName(a))
		}
		r := "-"
		if len(rs) > 0 {
			r = strings.Join(rs, "+")
		}
		ents[k] = e + ":" + r
	}
	return dump[:i+3] + strings.Join(ents, ",") + dump[j:]
}

type m = map[string]any

func yamlOf(v any) string {
	b, err := yaml.Marshal(v)
	if err != nil {
		panic(err)
	}
	return string(b)
}

func newWorld(t *testing.T, args []string) (w *world, res string) {
	defer func() {
		if res != "ok" && w != nil {
			for _, n := range w.nodes {
				n.Close()
			}
			w = nil
		}
	}()
	w = &world{full: map[string]int{}, body: map[string]int{}, cur: -1, rnd: hlib.NewRand(99)}
	rand.Reader = w
	retries := hlib.Atoi(args[1])
	interval := hlib.Atoi(args[2])
	now := time.Now()
	w.t0 = now.UnixNano()
	before, after := now.Add(-time.Hour), now.Add(24*365*time.Hour)
	ca, _, caKey, _ := cert_test.NewTestCaCert(cert.Version2, cert.Curve_CURVE25519, before, after, nil, nil, nil)
	caPEM, err := ca.MarshalPEM()
	if err != nil {
		return w, "err:ca"
	}
	l := slog.New(slog.DiscardHandler)
	w.log0 = l
	var specs []string
	routes := map[int]routing.Gateways{}
	allowBase := map[int]m{}
	allowRanges := map[int]m{}
	for _, tok := range args[3:] {
		if strings.HasPrefix(tok, "al") || strings.HasPrefix(tok, "ar") {
			kv := strings.SplitN(tok[2:], "=", 2)
			if len(kv) != 2 {
				return w, "bad-op"
			}
			n := hlib.Atoi(kv[0])
			for _, e := range strings.Split(kv[1], ",") {
				ub := strings.SplitN(e, ":", 2)
				if len(ub) != 2 {
					return w, "bad-op"
				}
				if tok[1] == 'l' {
					if allowBase[n] == nil {
						allowBase[n] = m{"0.0.0.0/0": true}
					}
					allowBase[n][underlay(hlib.Atoi(ub[0])).Addr().String()+"/32"] = ub[1] == "1"
				} else {
					au := strings.SplitN(ub[0], "/", 2)
					if len(au) != 2 {
						return w, "bad-op"
					}
					a := overlayAddr(hlib.Atoi(au[0]))
					key := netip.PrefixFrom(a, a.BitLen()).String()
					if allowRanges[n] == nil {
						allowRanges[n] = m{}
					}
					inner, _ := allowRanges[n][key].(m)
					if inner == nil {
						inner = m{"0.0.0.0/0": true}
						allowRanges[n][key] = inner
					}
					inner[underlay(hlib.Atoi(au[1])).Addr().String()+"/32"] = ub[1] == "1"
				}
			}
			continue
		}
		if strings.HasPrefix(tok, "rt") {
			// rt<node>=<gateway addr>:<weight>,…  an unsafe route 172.16.0.0/16 of that node
			kv := strings.SplitN(tok[2:], "=", 2)
			if len(kv) != 2 {
				return w, "bad-op"
			}
			var gws routing.Gateways
			for _, g := range strings.Split(kv[1], ",") {
				aw := strings.SplitN(g, ":", 2)
				if len(aw) != 2 {
					return w, "bad-op"
				}
				gws = append(gws, routing.NewGateway(overlayAddr(hlib.Atoi(aw[0])), hlib.Atoi(aw[1])))
			}
			routing.CalculateBucketsForGateways(gws)
			routes[hlib.Atoi(kv[0])] = gws
			continue
		}
		specs = append(specs, tok)
	}
	allUnsafe := []netip.Prefix{netip.MustParsePrefix("172.16.0.0/16")}
	for i, spec := range specs {
		parts := strings.SplitN(spec, ":", 2)
		if len(parts) != 2 {
			return w, "bad-op"
		}
		var ids []int
		for _, s := range strings.Split(parts[1], ",") {
			ids = append(ids, hlib.Atoi(s))
		}
		if parts[0] == "3" {
			// the v1 certificate carries the smallest address, which is also the first network of the (sorted) v2 one
			sort.Ints(ids)
		}
		var nets []netip.Prefix
		has4 := false
		for _, id := range ids {
			nets = append(nets, overlayPrefix(id))
			has4 = has4 || id < 100
		}
		// every certificate with an IPv4 address is also good for the routed network (a possible gateway)
		unsafeNet := allUnsafe
		if !has4 || (parts[0] == "1" && ids[0] >= 100) {
			unsafeNet = nil
		}
		var certPEM, keyPEM []byte
		name := fmt.Sprintf("node%d", i)
		switch parts[0] {
		case "1":
			_, _, keyPEM, certPEM = cert_test.NewTestCert(cert.Version1, cert.Curve_CURVE25519, ca, caKey, name, before, after, nets[:1], unsafeNet, nil)
		case "2":
			_, _, keyPEM, certPEM = cert_test.NewTestCert(cert.Version2, cert.Curve_CURVE25519, ca, caKey, name, before, after, nets, unsafeNet, nil)
		case "3":
			// v1 certificate for the first (smallest) address, v2 certificate with the same key for all of them
			var c1 cert.Certificate
			var p1 []byte
			c1, _, keyPEM, p1 = cert_test.NewTestCert(cert.Version1, cert.Curve_CURVE25519, ca, caKey, name, before, after, nets[:1], unsafeNet, nil)
			t2 := &cert.TBSCertificate{Version: cert.Version2, Curve: c1.Curve(), Name: c1.Name(), Networks: nets, UnsafeNetworks: unsafeNet,
				NotBefore: c1.NotBefore(), NotAfter: c1.NotAfter(), PublicKey: c1.PublicKey()}
			c2, err := t2.Sign(ca, ca.Curve(), caKey)
			if err != nil {
				return w, "err:cert"
			}
			p2, err := c2.MarshalPEM()
			if err != nil {
				return w, "err:cert"
			}
			certPEM = append(append([]byte{}, p1...), p2...)
		default:
			return w, "bad-op"
		}
		pki := m{"ca": string(caPEM), "cert": string(certPEM), "key": string(keyPEM)}
		w.pkis = append(w.pkis, pki)
		w.blocked = append(w.blocked, nil)
		var fps []string
		rest := certPEM
		for len(strings.TrimSpace(string(rest))) > 0 {
			var crt cert.Certificate
			crt, rest, err = cert.UnmarshalCertificateFromPEM(rest)
			if err != nil {
				return w, "err:cert"
			}
			fp, _ := crt.Fingerprint()
			fps = append(fps, fp)
		}
		w.fps = append(w.fps, fps)
		mc := m{
			"pki": pki,
			"firewall": m{
				"outbound": []m{{"proto": "udp", "port": "1000-1999", "host": "any"}},
				"inbound":  []m{{"proto": "any", "port": "any", "host": "any"}},
			},
			"handshakes": m{"try_interval": fmt.Sprintf("%dms", interval), "retries": retries},
			"listen":     m{"host": underlay(i).Addr().String(), "port": 4242},
		}
		if allowBase[i] != nil || allowRanges[i] != nil {
			lhc := m{}
			if allowBase[i] != nil {
				lhc["remote_allow_list"] = allowBase[i]
			}
			if allowRanges[i] != nil {
				lhc["remote_allow_ranges"] = allowRanges[i]
			}
			mc["lighthouse"] = lhc
		}
		c := config.NewC(l)
		if err := c.LoadString(yamlOf(mc)); err != nil {
			return w, "err:config"
		}
		w.relayAddr = append(w.relayAddr, map[uint32]netip.Addr{})
		w.idxQ = append(w.idxQ, nil)
		w.idxCtr = append(w.idxCtr, 0)
		node, err := nebula.VerifHsmNewNode(l, c, &recConn{w: w, node: i}, &routedTun{gws: routes[i]})
		if err != nil {
			return w, "err:node " + err.Error()
		}
		w.nodes = append(w.nodes, node)
	}
	return w, "ok"
}

func insidePacket(src, dst netip.Addr, port, ln int) []byte {
	if src.Is4() != dst.Is4() {
		// the node has no address of that family: any source will do, the packet is unroutable
		if dst.Is4() {
			src = netip.AddrFrom4([4]byte{10, 128, 0, 250})
		} else {
			src = overlayAddr(250 + 100)
		}
	}
	if dst.Is4() {
		if ln < 28 {
			ln = 28
		}
		b := make([]byte, ln)
		b[0] = 0x45
		binary.BigEndian.PutUint16(b[2:], uint16(ln))
		b[8] = 64
		b[9] = 17
		s, d := src.As4(), dst.As4()
		copy(b[12:16], s[:])
		copy(b[16:20], d[:])
		binary.BigEndian.PutUint16(b[20:], 40000)
		binary.BigEndian.PutUint16(b[22:], uint16(port))
		binary.BigEndian.PutUint16(b[24:], uint16(ln-20))
		return b
	}
	if ln < 48 {
		ln = 48
	}
	b := make([]byte, ln)
	b[0] = 0x60
	binary.BigEndian.PutUint16(b[4:], uint16(ln-40))
	b[6] = 17
	b[7] = 64
	s, d := src.As16(), dst.As16()
	copy(b[8:24], s[:])
	copy(b[24:40], d[:])
	binary.BigEndian.PutUint16(b[40:], 40000)
	binary.BigEndian.PutUint16(b[42:], uint16(port))
	binary.BigEndian.PutUint16(b[44:], uint16(ln-40))
	return b
}

func newExec(t *testing.T) func([]string) string {
	var w *world
	orig := rand.Reader
	t.Cleanup(func() {
		rand.Reader = orig
		if w != nil {
			for _, n := range w.nodes {
				n.Close()
			}
		}
	})
	node := func(s string) (int, bool) {
		n := hlib.Atoi(s)
		if w == nil || n < 0 || n >= len(w.nodes) {
			return 0, false
		}
		return n, true
	}
	return func(a []string) string {
		if a[0] == "reset" {
			if w != nil {
				for _, n := range w.nodes {
					n.Close()
				}
			}
			if len(a) < 4 {
				return "bad-op"
			}
			var res string
			w, res = newWorld(t, a)
			return res
		}
		if w == nil {
			return "bad-op"
		}
		w.tx = w.tx[:0]
		w.cur = -1
		switch a[0] {
		case "sleep":
			time.Sleep(time.Duration(hlib.Atoi(a[1])) * time.Millisecond)
			return "ok"
		case "lh":
			n, ok := node(a[1])
			if !ok {
				return "bad-op"
			}
			w.cur = n
			w.nodes[n].InjectLightHouseAddr(overlayAddr(hlib.Atoi(a[2])), underlay(hlib.Atoi(a[3])))
			return w.finish(n, "ok")
		case "hs", "rehs":
			n, ok := node(a[1])
			if !ok {
				return "bad-op"
			}
			w.cur = n
			if a[0] == "hs" {
				w.nodes[n].GetOrHandshake(overlayAddr(hlib.Atoi(a[2])))
			} else {
				w.nodes[n].StartHandshake(overlayAddr(hlib.Atoi(a[2])))
			}
			return w.finish(n, "ok")
		case "tick":
			n, ok := node(a[1])
			if !ok {
				return "bad-op"
			}
			w.cur = n
			w.nodes[n].Tick(time.Now())
			return w.finish(n, "ok")
		case "trig":
			n, ok := node(a[1])
			if !ok {
				return "bad-op"
			}
			w.cur = n
			w.nodes[n].LighthouseTrigger(overlayAddr(hlib.Atoi(a[2])))
			w.nodes[n].Trigger()
			return w.finish(n, "ok")
		case "deliver", "dto", "dl", "dlto", "dlm":
			k := hlib.Atoi(a[1])
			if a[0] == "dl" || a[0] == "dlto" || a[0] == "dlm" {
				k = len(w.log) - 1 - k
			}
			if k < 0 || k >= len(w.log) {
				return "nop"
			}
			r := w.log[k]
			to := nodeOf(r.dst)
			if a[0] == "dto" || a[0] == "dlto" {
				to = hlib.Atoi(a[2])
			}
			if to < 0 || to >= len(w.nodes) {
				return "nonode"
			}
			w.cur = to
			pkt := append([]byte(nil), r.b...)
			if a[0] == "dlm" && len(pkt) >= header.Len {
				// the nebula header of a handshake packet is not authenticated: re-frame it
				binary.BigEndian.PutUint16(pkt[2:], uint16(hlib.Atoi(a[2]))) // reserved bytes
				if c := hlib.Atou(a[3]); c != 0 {
					binary.BigEndian.PutUint64(pkt[8:], c) // message counter
				}
			}
			w.nodes[to].Incoming(underlay(r.src), pkt)
			return w.finish(to, fmt.Sprintf("to%d", to))
		case "relay":
			n, ok := node(a[1])
			if !ok || len(a) != 4 {
				return "bad-op"
			}
			w.cur = n
			w.relayIdx++
			li, ri := 900000+w.relayIdx, 800000+w.relayIdx
			r := overlayAddr(hlib.Atoi(a[2]))
			res := "none"
			if w.nodes[n].AddTerminalRelay(r, overlayAddr(hlib.Atoi(a[3])), li, ri) {
				w.relayAddr[n][ri] = r
				res = "ok"
			}
			return w.finish(n, res)
		case "rdto", "rdl":
			if len(a) != 5 {
				return "bad-op"
			}
			k := hlib.Atoi(a[1])
			if a[0] == "rdl" {
				k = len(w.log) - 1 - k
			}
			if k < 0 || k >= len(w.log) {
				return "nop"
			}
			to := hlib.Atoi(a[2])
			if to < 0 || to >= len(w.nodes) {
				return "nonode"
			}
			w.cur = to
			pkt := append([]byte(nil), w.log[k].b...)
			if !w.nodes[to].IncomingRelayed(overlayAddr(hlib.Atoi(a[3])), overlayAddr(hlib.Atoi(a[4])), pkt) {
				return w.finish(to, "norelay")
			}
			return w.finish(to, fmt.Sprintf("to%d", to))
		case "send":
			n, ok := node(a[1])
			if !ok {
				return "bad-op"
			}
			w.cur = n
			dst := overlayAddr(hlib.Atoi(a[2]))
			src := w.nodes[n].MyAddrFor(dst)
			w.nodes[n].Inside(insidePacket(src, dst, hlib.Atoi(a[3]), hlib.Atoi(a[4])))
			return w.finish(n, "ok")
		case "idx":
			n, ok := node(a[1])
			if !ok {
				return "bad-op"
			}
			w.idxQ[n] = append(w.idxQ[n], uint32(hlib.Atou(a[2])))
			return "ok"
		case "del":
			n, ok := node(a[1])
			if !ok {
				return "bad-op"
			}
			w.cur = n
			return w.finish(n, w.nodes[n].DeleteTunnel(uint32(hlib.Atou(a[2]))))
		case "swap":
			n, ok := node(a[1])
			if !ok {
				return "bad-op"
			}
			w.cur = n
			return w.finish(n, w.nodes[n].SwapCheck(uint32(hlib.Atou(a[2]))))
		case "cmcheck":
			n, ok := node(a[1])
			if !ok {
				return "bad-op"
			}
			w.cur = n
			return w.finish(n, w.nodes[n].TrafficCheck(uint32(hlib.Atou(a[2])), a[3] == "1", a[4] == "1"))
		case "block":
			// config reload on node n: the certificates of node m go on pki.blocklist
			n, ok := node(a[1])
			mm, ok2 := node(a[2])
			if !ok || !ok2 {
				return "bad-op"
			}
			w.cur = n
			w.blocked[n] = append(w.blocked[n], w.fps[mm]...)
			pki := m{}
			for k, v := range w.pkis[n] {
				pki[k] = v
			}
			pki["blocklist"] = w.blocked[n]
			c := config.NewC(w.log0)
			if err := c.LoadString(yamlOf(m{"pki": pki})); err != nil {
				return "err:config"
			}
			if err := w.nodes[n].ReloadCAPool(c); err != nil {
				return "err:reload"
			}
			return w.finish(n, "ok")
		}
		return "bad-op"
	}
}

var _ io.Reader = (*world)(nil)

func TestEngine(t *testing.T) {
	hlib.Run(t, hlib.Engine{Name: "hsmanager", Gen: gen, NewExec: newExec, Synctest: true})
}
