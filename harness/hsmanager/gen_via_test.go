package hsmanager

import (
	"fmt"
	"strings"

	"verifharness/hlib"
)

// Scripted families of profile C09 for the two pieces of beginHandshake / continueHandshake beyond the plain
// direct handshake: the lighthouse's remote allow list, and handshake packets that arrive through a relay.

func viaSpec(r *hlib.Rand, base int) nodeSpec {
	switch r.Intn(6) {
	case 0, 1:
		return nodeSpec{2, []int{base}}
	case 2, 3:
		return nodeSpec{2, []int{base, base + 10}}
	case 4:
		return nodeSpec{2, []int{base, 100 + base}}
	default:
		return nodeSpec{3, []int{base}}
	}
}

// genAllowCase: 2-3 nodes, some with lighthouse.remote_allow_list / remote_allow_ranges: allow all, deny the
// peer's underlay address, inside-range rules for the peer's first / second certificate address, rules about
// unrelated addresses; handshakes in both directions, replays, misdeliveries.
func genAllowCase(r *hlib.Rand, emit func(string, ...any)) int {
	g := &caseGen{r: r, emit: emit, interval: 100, retries: 5}
	nn := 2 + r.Intn(2)
	for i := 0; i < nn; i++ {
		g.nodes = append(g.nodes, viaSpec(r, i+1))
	}
	var toks []string
	for _, s := range g.nodes {
		toks = append(toks, specString(s))
	}
	for n := 0; n < nn; n++ {
		if r.Chance(1, 4) {
			continue // no list at all
		}
		peer := (n + 1 + r.Intn(nn-1)) % nn
		pa := g.nodes[peer].addrs
		switch r.Intn(8) {
		case 0: // everything allowed, explicitly
			toks = append(toks, fmt.Sprintf("al%d=%d:1", n, peer))
		case 1, 2: // the peer's underlay address is refused
			toks = append(toks, fmt.Sprintf("al%d=%d:0", n, peer))
		case 3: // refused for the peer's first overlay address only
			toks = append(toks, fmt.Sprintf("ar%d=%d/%d:0", n, pa[0], peer))
		case 4, 5: // refused for the LAST of the peer's certificate addresses only
			toks = append(toks, fmt.Sprintf("ar%d=%d/%d:0", n, pa[len(pa)-1], peer))
		case 6: // rules that do not concern this peer: another underlay, an unrelated overlay address
			toks = append(toks, fmt.Sprintf("al%d=%d:0", n, 7), fmt.Sprintf("ar%d=%d/%d:0", n, 77, peer))
		case 7: // a mix
			toks = append(toks, fmt.Sprintf("al%d=%d:%d", n, peer, r.Intn(2)),
				fmt.Sprintf("ar%d=%d/%d:%d,%d/%d:%d", n, pa[0], peer, r.Intn(2), pa[len(pa)-1], r.Intn(nn), r.Intn(2)))
		}
	}
	g.op("reset %d %d %s", g.retries, g.interval, strings.Join(toks, " "))
	for s := 0; s < 2+r.Intn(4); s++ {
		n := g.node()
		m := (n + 1 + r.Intn(nn-1)) % nn
		ma := g.nodes[m].addrs
		a := ma[r.Intn(len(ma))]
		if a >= 100 && g.nodes[n].addrs[len(g.nodes[n].addrs)-1] < 100 {
			a = ma[0]
		}
		g.op("lh %d %d %d", n, a, m)
		if r.Bool() {
			g.op("hs %d %d", n, a)
		} else {
			g.op("rehs %d %d", n, a)
		}
		for i := 0; i < 3; i++ {
			g.op("sleep %d", g.interval)
			g.op("tick %d", n)
		}
		g.op("dl 0") // stage 1 at the responder
		if r.Chance(1, 5) {
			g.op("dl 1")
		}
		g.op("dl 0") // stage 2 (or stage 1 again) back
		switch r.Intn(6) {
		case 0:
			g.op("dl %d", r.Intn(3))
		case 1: // the same packet from somewhere else: a third node is not the sender, the log entry's source stays
			g.op("dlto %d %d", r.Intn(3), g.node())
		case 2:
			g.op("send %d %d 1500 40", n, a)
		}
	}
	return g.ops
}

// genRelayCase: A (node 0) - R (node 1) - B (node 2) [+ C]. A and B get tunnels to R and terminal relay objects for
// each other on them; then the handshake A -> B is carried by the harness as relay deliveries: stage 1 unwrapped at B
// from its relay (R, A), B's reply (SendVia to R) unwrapped at A from its relay (R, B). Perturbed by duplicates through
// the relay, the same packets arriving directly before / after, a wrong responder behind the relay, missing relay
// objects, an allow list that refuses the peer's underlay address (irrelevant for relayed packets).
func genRelayCase(r *hlib.Rand, emit func(string, ...any)) int {
	g := &caseGen{r: r, emit: emit, interval: 100, retries: 5}
	g.nodes = []nodeSpec{viaSpec(r, 1), {2, []int{9}}, viaSpec(r, 3)}
	if r.Chance(1, 8) {
		// B's certificate also claims A's first address: refused in both roles, relayed or not
		g.nodes[2] = nodeSpec{2, []int{3, g.nodes[0].addrs[0]}}
	}
	withC := r.Chance(1, 2)
	if withC {
		g.nodes = append(g.nodes, viaSpec(r, 5))
	}
	var toks []string
	for _, s := range g.nodes {
		toks = append(toks, specString(s))
	}
	if r.Chance(1, 3) {
		toks = append(toks, "al2=0:0") // B refuses A's underlay address: only matters for direct packets
	}
	if r.Chance(1, 4) {
		toks = append(toks, "al0=2:0")
	}
	g.op("reset %d %d %s", g.retries, g.interval, strings.Join(toks, " "))
	const R = 9
	a0, b0 := g.nodes[0].addrs[0], g.nodes[2].addrs[0]
	tunnelToR := func(n int) {
		g.op("lh %d %d 1", n, R)
		g.start3(n, R)
		g.op("dl 0")
		g.op("dl 0")
	}
	tunnelToR(0)
	tunnelToR(2)
	if withC {
		tunnelToR(3)
	}
	if r.Chance(9, 10) {
		g.op("relay 0 %d %d", R, b0)
	}
	if r.Chance(9, 10) {
		g.op("relay 2 %d %d", R, a0)
	}
	c0 := 0
	if withC {
		c0 = g.nodes[3].addrs[0]
		g.op("relay 3 %d %d", R, a0)
		if r.Bool() {
			g.op("relay 0 %d %d", R, c0)
		}
	}
	// A dials B (some direct address is known, so that the first packet is written somewhere)
	target := b0
	if r.Chance(1, 4) {
		target = g.nodes[2].addrs[len(g.nodes[2].addrs)-1]
		if target >= 100 && g.nodes[0].addrs[len(g.nodes[0].addrs)-1] < 100 {
			target = b0
		}
	}
	g.op("lh 0 %d %d", target, hlib.Pick(r, 2, 2, 2, 1, 3))
	if r.Chance(1, 4) {
		g.op("send 0 %d 1500 40", target) // queued on the pending handshake, flushed through the relay on completion
	} else {
		g.op("hs 0 %d", target)
	}
	for i := 0; i < 3; i++ {
		g.op("sleep %d", g.interval)
		g.op("tick 0")
	}
	resp := 2
	if withC && r.Chance(1, 2) {
		resp = 3 // a wrong responder behind the relay
	}
	switch r.Intn(5) {
	case 0: // the direct packet first, then the relayed duplicate
		g.op("dlto 0 %d", resp)
		g.op("rdl 1 %d %d %d", resp, R, a0)
	default:
		g.op("rdl 0 %d %d %d", resp, R, a0)
	}
	if r.Chance(1, 3) {
		g.op("rdl 1 %d %d %d", resp, R, a0) // duplicate through the relay: the cached reply goes through the relay
	}
	if r.Chance(1, 4) {
		g.op("dlto 1 %d", resp) // the same first message directly: the tunnel without a remote takes the sender's address
	}
	peer := b0
	if resp == 3 {
		peer = c0
		if r.Bool() {
			peer = b0
		}
	}
	if r.Chance(1, 6) {
		g.op("dl 0") // the relay message's payload handed to R itself (not a relay message any more)
	}
	g.op("rdl 0 0 %d %d", R, peer)
	switch r.Intn(5) {
	case 0:
		g.op("rdl 1 0 %d %d", R, peer)
	case 1:
		g.op("dlto 0 0")
	case 2:
		g.op("rdl %d %d %d %d", r.Intn(4), hlib.Pick(r, 0, 2, 3, 1), R, hlib.Pick(r, a0, b0, 77))
	}
	if r.Chance(1, 3) {
		// and the other direction on top: B dials A
		g.op("lh 2 %d 0", a0)
		g.op("rehs 2 %d", a0)
		for i := 0; i < 3; i++ {
			g.op("sleep %d", g.interval)
			g.op("tick 2")
		}
		g.op("rdl 0 0 %d %d", R, b0)
		g.op("rdl 0 2 %d %d", R, a0)
	}
	return g.ops
}
