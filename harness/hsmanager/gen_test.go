package hsmanager

import (
	"fmt"
	"strings"

	"verifharness/hlib"
)

// A case is `reset …` followed by a script of actions against 2-4 nodes. The generator is blind (it does
// not run the code), so it works with flows that are likely to go through (learn an address, start, tick
// until the first message leaves, deliver the latest transmissions) and perturbs them: wrong responders,
// self claims, multi-address peers, certificate-version mixes, replays of any earlier transmission to
// any node, re-handshakes, tunnel deletions, primary swaps, forced index collisions, queue overflow.

type nodeSpec struct {
	ver   int
	addrs []int
}

type caseGen struct {
	r        *hlib.Rand
	emit     func(string, ...any)
	nodes    []nodeSpec
	interval int
	retries  int
	ops      int
	sent     int // rough count of transmissions so far (for absolute replays)
}

func (g *caseGen) op(format string, a ...any) {
	g.emit(format, a...)
	g.ops++
}

func (g *caseGen) node() int { return g.r.Intn(len(g.nodes)) }

func (g *caseGen) addrOf(n int) int { return g.nodes[n].addrs[g.r.Intn(len(g.nodes[n].addrs))] }

func (g *caseGen) anyAddr() int {
	if g.r.Chance(1, 8) {
		return hlib.Pick(g.r, 1, 2, 9, 50, 100, 101)
	}
	return g.addrOf(g.node())
}

// ticks: k clock ticks of node n, mostly one interval apart
func (g *caseGen) ticks(n, k int) {
	for i := 0; i < k; i++ {
		d := g.interval
		switch g.r.Intn(10) {
		case 0:
			d = 0
		case 1:
			d = g.interval / 2
		case 2:
			d = g.interval*2 + g.r.Intn(g.interval)
		case 3:
			d = g.interval + 1
		}
		if d > 0 {
			g.op("sleep %d", d)
		}
		g.op("tick %d", n)
	}
}

// flow: node n handshakes with overlay address a, believed to be at node m
func (g *caseGen) flow(n, a, m int, deliver bool) {
	if g.r.Chance(7, 8) {
		g.op("lh %d %d %d", n, a, m)
	}
	if g.r.Chance(1, 6) {
		g.op("lh %d %d %d", n, a, g.node())
	}
	if g.r.Chance(3, 4) {
		g.op("hs %d %d", n, a)
	} else {
		g.op("rehs %d %d", n, a)
	}
	g.ticks(n, 2+g.r.Intn(3))
	g.sent++
	if !deliver {
		return
	}
	if g.r.Chance(9, 10) {
		g.op("dl 0")
		g.sent++
		if g.r.Chance(1, 5) {
			g.op("dl 1") // the first message again before the reply is delivered
		}
		if g.r.Chance(9, 10) {
			g.op("dl 0")
		}
	}
}

func (g *caseGen) replay() {
	switch g.r.Intn(5) {
	case 0:
		g.op("dl %d", g.r.Intn(4))
	case 1:
		g.op("dl %d", g.r.Intn(g.sent+2))
	case 2:
		g.op("deliver %d", g.r.Intn(g.sent+2))
	case 3:
		g.op("dto %d %d", g.r.Intn(g.sent+2), g.node())
	case 4:
		g.op("dlto %d %d", g.r.Intn(4), g.node())
	}
}

func (g *caseGen) guessIndex(n int) int {
	return (n+1)*1000 + 1 + g.r.Intn(6)
}

func specString(s nodeSpec) string {
	var as []string
	for _, a := range s.addrs {
		as = append(as, fmt.Sprint(a))
	}
	return fmt.Sprintf("%d:%s", s.ver, strings.Join(as, ","))
}

func genCase(r *hlib.Rand, profile string, emit func(string, ...any)) int {
	g := &caseGen{r: r, emit: emit}
	g.interval = hlib.Pick(r, 100, 100, 100, 50, 250, 7)
	g.retries = hlib.Pick(r, 10, 5, 3, 3, 2, 2, 1, 1, 0, 4)
	if profile == "C32" {
		g.retries = hlib.Pick(r, 0, 1, 1, 2, 2, 3, 3, 4, 5, 6, 10)
	}
	nn := 2 + r.Intn(3)
	if profile == "C31" {
		nn = 2
	}
	for i := 0; i < nn; i++ {
		base := i + 1
		var s nodeSpec
		switch r.Intn(10) {
		case 0, 1, 2:
			s = nodeSpec{2, []int{base}}
		case 3, 4:
			s = nodeSpec{2, []int{base, base + 10}}
		case 5:
			s = nodeSpec{1, []int{base}}
		case 6:
			s = nodeSpec{3, []int{base}}
		case 7:
			s = nodeSpec{2, []int{base, 100 + base}}
		case 8:
			s = nodeSpec{2, []int{100 + base}}
		case 9:
			// a certificate that also (or only) lists another node's address
			other := 1 + r.Intn(nn)
			if other == base {
				other = base%nn + 1
			}
			if r.Bool() {
				s = nodeSpec{2, []int{base, other}}
			} else {
				s = nodeSpec{2, []int{other, base + 20}}
			}
		}
		if profile == "C31" && r.Chance(3, 4) {
			s = nodeSpec{2, []int{base}}
		}
		g.nodes = append(g.nodes, s)
	}
	var specs []string
	for _, s := range g.nodes {
		specs = append(specs, specString(s))
	}
	g.op("reset %d %d %s", g.retries, g.interval, strings.Join(specs, " "))
	if r.Chance(1, 2) {
		for i := range g.nodes {
			g.op("tick %d", i)
		}
	}
	steps := 4 + r.Intn(10)
	for s := 0; s < steps; s++ {
		n := g.node()
		m := g.node()
		k := r.Intn(100)
		switch profile {
		case "C10":
			if k < 30 {
				k = 40 + r.Intn(18) // replays, rotation, older messages
			}
		case "C32":
			if k < 40 {
				k = 60 + r.Intn(25)
			}
		case "C31":
			if k < 50 {
				k = 85 + r.Intn(10)
			}
		}
		switch {
		case k < 25: // ordinary handshake n -> m
			g.flow(n, g.addrOf(m), m, true)
		case k < 33: // wrong responder: address of m believed at another node
			g.flow(n, g.addrOf(m), (m+1+r.Intn(len(g.nodes)-1))%len(g.nodes), true)
		case k < 37: // address nobody / myself
			g.flow(n, g.anyAddr(), g.node(), true)
		case k < 40: // my own address, or my own underlay
			if r.Bool() {
				g.flow(n, g.addrOf(n), m, true)
			} else {
				g.flow(n, g.addrOf(m), n, true)
			}
		case k < 50:
			for i := 0; i < 1+r.Intn(3); i++ {
				g.replay()
			}
		case k < 56: // rotation: several re-handshakes to the same peer
			a := g.addrOf(m)
			for i := 0; i < 2+r.Intn(5); i++ {
				g.op("lh %d %d %d", n, a, m)
				g.op("rehs %d %d", n, a)
				g.ticks(n, 3)
				g.sent++
				g.op("dl 0")
				g.op("dl 0")
				g.sent++
				if r.Chance(1, 3) {
					g.replay()
				}
			}
		case k < 58: // an older first message after its tunnel is gone: two handshakes, drop the first tunnel, replay
			a := g.addrOf(m)
			for i := 0; i < 2; i++ {
				g.op("lh %d %d %d", n, a, m)
				g.op("rehs %d %d", n, a)
				g.ticks(n, 3)
				g.op("dl 0")
				g.op("dl 0")
				g.sent += 2
			}
			g.op("del %d %d", m, (m+1)*1000+1+r.Intn(3))
			g.op("dl %d", 2+r.Intn(3))
			g.op("dl %d", 2+r.Intn(3))
		case k < 60:
			g.op("idx %d %d", n, hlib.Pick(r, 0, 0, g.guessIndex(n), g.guessIndex(m), g.guessIndex(n), 7))
		case k < 70: // queue packets, maybe past the cap, then maybe complete
			a := g.addrOf(m)
			g.op("lh %d %d %d", n, a, m)
			cnt := hlib.Pick(r, 1, 2, 3, 5, 8, 99, 100, 101, 120)
			if profile != "C32" && cnt > 8 && r.Chance(3, 4) {
				cnt = 3
			}
			for i := 0; i < cnt; i++ {
				g.op("send %d %d %d %d", n, a, hlib.Pick(r, 999, 1000, 1500, 1999, 2000, 53), 28+r.Intn(60))
			}
			g.ticks(n, 2+r.Intn(3))
			g.sent++
			if r.Chance(4, 5) {
				g.op("dl 0")
				g.op("dl 0")
				g.sent++
			}
			if r.Bool() {
				g.op("send %d %d %d %d", n, a, hlib.Pick(r, 1000, 2000), 40)
			}
		case k < 80: // let it time out
			g.flow(n, g.addrOf(m), m, false)
			g.ticks(n, 2+r.Intn(2*g.retries+4))
		case k < 85:
			g.op("trig %d %d", n, g.anyAddr())
			if r.Bool() {
				g.op("lh %d %d %d", n, g.addrOf(m), g.node())
				g.op("trig %d %d", n, g.addrOf(m))
			}
		case k < 90: // both ends start at once
			a, b := g.addrOf(m), g.addrOf(n)
			g.op("lh %d %d %d", n, a, m)
			g.op("lh %d %d %d", m, b, n)
			g.op("hs %d %d", n, a)
			g.op("hs %d %d", m, b)
			for i := 0; i < 3; i++ {
				g.op("sleep %d", g.interval)
				g.op("tick %d", n)
				g.op("tick %d", m)
			}
			g.sent += 2
			// the four messages in a random order, with duplicates / losses
			for i := 0; i < 3+r.Intn(5); i++ {
				g.op("dl %d", r.Intn(4))
			}
			if profile == "C31" || r.Bool() {
				// the connection manager looks at the non-primary tunnels of both ends
				for _, x := range []int{n, m} {
					for q := 1; q <= 2+r.Intn(3); q++ {
						g.op("swap %d %d", x, (x+1)*1000+q)
					}
				}
			}
		case k < 95:
			g.op("swap %d %d", n, g.guessIndex(n))
			if r.Bool() {
				g.op("swap %d %d", m, g.guessIndex(m))
			}
		default:
			g.op("del %d %d", n, g.guessIndex(n))
		}
		if r.Chance(1, 4) {
			g.ticks(g.node(), 1+r.Intn(3))
		}
	}
	return g.ops
}

func gen(r *hlib.Rand, n int, tier, profile string, emit func(string, ...any)) {
	total := 0
	for total < n {
		total += genCase(r, profile, emit)
	}
}
