package hsmanager

import (
	"fmt"
	"strings"

	"verifharness/hlib"
)

// A case is `reset …` followed by a script of actions against 2-4 nodes. The generator is blind (it does
// not run the code), so it works with flows that are likely to go through (learn an address, start, tick
// until the first message leaves, deliver the latest transmissions) and perturbs them: wrong responders,
// self claims, multi-address peers, certificate-version mixes, replays of any earlier transmission to
// any node, re-handshakes, tunnel deletions, primary swaps, forced index collisions, queue overflow.

type nodeSpec struct {
	ver   int
	addrs []int
}

type caseGen struct {
	r        *hlib.Rand
	emit     func(string, ...any)
	nodes    []nodeSpec
	interval int
	retries  int
	ops      int
	sent     int // rough count of transmissions so far (for absolute replays)
}

func (g *caseGen) op(format string, a ...any) {
	g.emit(format, a...)
	g.ops++
}

func (g *caseGen) node() int { return g.r.Intn(len(g.nodes)) }

func (g *caseGen) addrOf(n int) int { return g.nodes[n].addrs[g.r.Intn(len(g.nodes[n].addrs))] }

func (g *caseGen) anyAddr() int {
	if g.r.Chance(1, 8) {
		return hlib.Pick(g.r, 1, 2, 9, 50, 100, 101)
	}
	return g.addrOf(g.node())
}

// ticks: k clock ticks of node n, mostly one interval apart
func (g *caseGen) ticks(n, k int) {
	for i := 0; i < k; i++ {
		d := g.interval
		switch g.r.Intn(10) {
		case 0:
			d = 0
		case 1:
			d = g.interval / 2
		case 2:
			d = g.interval*2 + g.r.Intn(g.interval)
		case 3:
			d = g.interval + 1
		}
		if d > 0 {
			g.op("sleep %d", d)
		}
		g.op("tick %d", n)
	}
}

// flow: node n handshakes with overlay address a, believed to be at node m
func (g *caseGen) flow(n, a, m int, deliver bool) {
	if g.r.Chance(7, 8) {
		g.op("lh %d %d %d", n, a, m)
	}
	if g.r.Chance(1, 6) {
		g.op("lh %d %d %d", n, a, g.node())
	}
	if g.r.Chance(3, 4) {
		g.op("hs %d %d", n, a)
	} else {
		g.op("rehs %d %d", n, a)
	}
	g.ticks(n, 2+g.r.Intn(3))
	g.sent++
	if !deliver {
		return
	}
	if g.r.Chance(9, 10) {
		g.op("dl 0")
		g.sent++
		if g.r.Chance(1, 5) {
			g.op("dl 1") // the first message again before the reply is delivered
		}
		if g.r.Chance(9, 10) {
			g.op("dl 0")
		}
	}
}

// reframed: a replay whose unauthenticated nebula header was altered (reserved bytes, message counter)
func (g *caseGen) reframed(j int) {
	switch g.r.Intn(4) {
	case 0, 1:
		g.op("dlm %d %d 0", j, 1+g.r.Intn(65535)) // reserved bytes only
	case 2:
		g.op("dlm %d %d %d", j, g.r.Intn(3), hlib.Pick(g.r, 1, 2, 3, 7, 1<<40)) // counter (decides only the dispatch)
	case 3:
		g.op("dlm %d 0 0", j) // the header written again unchanged
	}
}

func (g *caseGen) replay() {
	if g.r.Chance(1, 4) {
		g.reframed(g.r.Intn(5))
		return
	}
	switch g.r.Intn(5) {
	case 0:
		g.op("dl %d", g.r.Intn(4))
	case 1:
		g.op("dl %d", g.r.Intn(g.sent+2))
	case 2:
		g.op("deliver %d", g.r.Intn(g.sent+2))
	case 3:
		g.op("dto %d %d", g.r.Intn(g.sent+2), g.node())
	case 4:
		g.op("dlto %d %d", g.r.Intn(4), g.node())
	}
}

func (g *caseGen) guessIndex(n int) int {
	return (n+1)*1000 + 1 + g.r.Intn(6)
}

func specString(s nodeSpec) string {
	var as []string
	for _, a := range s.addrs {
		as = append(as, fmt.Sprint(a))
	}
	return fmt.Sprintf("%d:%s", s.ver, strings.Join(as, ","))
}

func genCase(r *hlib.Rand, profile string, emit func(string, ...any)) int {
	g := &caseGen{r: r, emit: emit}
	g.interval = hlib.Pick(r, 100, 100, 100, 50, 250, 7)
	g.retries = hlib.Pick(r, 10, 5, 3, 3, 2, 2, 1, 1, 0, 4)
	if profile == "C32" {
		g.retries = hlib.Pick(r, 0, 1, 1, 2, 2, 3, 3, 4, 5, 6, 10)
	}
	nn := 2 + r.Intn(3)
	if profile == "C31" {
		nn = 2
	}
	for i := 0; i < nn; i++ {
		base := i + 1
		var s nodeSpec
		switch r.Intn(10) {
		case 0, 1, 2:
			s = nodeSpec{2, []int{base}}
		case 3, 4:
			s = nodeSpec{2, []int{base, base + 10}}
		case 5:
			s = nodeSpec{1, []int{base}}
		case 6:
			s = nodeSpec{3, []int{base}}
		case 7:
			s = nodeSpec{2, []int{base, 100 + base}}
		case 8:
			s = nodeSpec{2, []int{100 + base}}
		case 9:
			// a certificate that also (or only) lists another node's address
			other := 1 + r.Intn(nn)
			if other == base {
				other = base%nn + 1
			}
			if r.Bool() {
				s = nodeSpec{2, []int{base, other}}
			} else {
				s = nodeSpec{2, []int{other, base + 20}}
			}
		}
		if profile == "C31" && r.Chance(3, 4) {
			s = nodeSpec{2, []int{base}}
		}
		g.nodes = append(g.nodes, s)
	}
	var specs []string
	for _, s := range g.nodes {
		specs = append(specs, specString(s))
	}
	g.op("reset %d %d %s", g.retries, g.interval, strings.Join(specs, " "))
	if r.Chance(1, 2) {
		for i := range g.nodes {
			g.op("tick %d", i)
		}
	}
	steps := 4 + r.Intn(10)
	for s := 0; s < steps; s++ {
		n := g.node()
		m := g.node()
		k := r.Intn(100)
		switch profile {
		case "C10":
			if k < 30 {
				k = 40 + r.Intn(18) // replays, rotation, older messages
			}
		case "C32":
			if k < 40 {
				k = 60 + r.Intn(25)
			}
		case "C31":
			if k < 50 {
				k = 85 + r.Intn(10)
			}
		}
		switch {
		case k < 25: // ordinary handshake n -> m
			g.flow(n, g.addrOf(m), m, true)
		case k < 33: // wrong responder: address of m believed at another node
			g.flow(n, g.addrOf(m), (m+1+r.Intn(len(g.nodes)-1))%len(g.nodes), true)
		case k < 37: // address nobody / myself
			g.flow(n, g.anyAddr(), g.node(), true)
		case k < 40: // my own address, or my own underlay
			if r.Bool() {
				g.flow(n, g.addrOf(n), m, true)
			} else {
				g.flow(n, g.addrOf(m), n, true)
			}
		case k < 50:
			for i := 0; i < 1+r.Intn(3); i++ {
				g.replay()
			}
		case k < 56: // rotation: several re-handshakes to the same peer
			a := g.addrOf(m)
			for i := 0; i < 2+r.Intn(5); i++ {
				g.op("lh %d %d %d", n, a, m)
				g.op("rehs %d %d", n, a)
				g.ticks(n, 3)
				g.sent++
				g.op("dl 0")
				g.op("dl 0")
				g.sent++
				if r.Chance(1, 3) {
					g.replay()
				}
			}
		case k < 58: // an older first message after its tunnel is gone: two handshakes, drop the first tunnel, replay
			a := g.addrOf(m)
			for i := 0; i < 2; i++ {
				g.op("lh %d %d %d", n, a, m)
				g.op("rehs %d %d", n, a)
				g.ticks(n, 3)
				g.op("dl 0")
				g.op("dl 0")
				g.sent += 2
			}
			g.op("del %d %d", m, (m+1)*1000+1+r.Intn(3))
			g.op("dl %d", 2+r.Intn(3))
			g.op("dl %d", 2+r.Intn(3))
		case k < 60:
			g.op("idx %d %d", n, hlib.Pick(r, 0, 0, g.guessIndex(n), g.guessIndex(m), g.guessIndex(n), 7))
		case k < 70: // queue packets, maybe past the cap, then maybe complete
			a := g.addrOf(m)
			g.op("lh %d %d %d", n, a, m)
			cnt := hlib.Pick(r, 1, 2, 3, 5, 8, 99, 100, 101, 120)
			if profile != "C32" && cnt > 8 && r.Chance(3, 4) {
				cnt = 3
			}
			for i := 0; i < cnt; i++ {
				g.op("send %d %d %d %d", n, a, hlib.Pick(r, 999, 1000, 1500, 1999, 2000, 53), 28+r.Intn(60))
			}
			g.ticks(n, 2+r.Intn(3))
			g.sent++
			if r.Chance(4, 5) {
				g.op("dl 0")
				g.op("dl 0")
				g.sent++
			}
			if r.Bool() {
				g.op("send %d %d %d %d", n, a, hlib.Pick(r, 1000, 2000), 40)
			}
		case k < 80: // let it time out
			g.flow(n, g.addrOf(m), m, false)
			g.ticks(n, 2+r.Intn(2*g.retries+4))
		case k < 85:
			g.op("trig %d %d", n, g.anyAddr())
			if r.Bool() {
				g.op("lh %d %d %d", n, g.addrOf(m), g.node())
				g.op("trig %d %d", n, g.addrOf(m))
			}
		case k < 90: // both ends start at once
			a, b := g.addrOf(m), g.addrOf(n)
			g.op("lh %d %d %d", n, a, m)
			g.op("lh %d %d %d", m, b, n)
			g.op("hs %d %d", n, a)
			g.op("hs %d %d", m, b)
			for i := 0; i < 3; i++ {
				g.op("sleep %d", g.interval)
				g.op("tick %d", n)
				g.op("tick %d", m)
			}
			g.sent += 2
			// the four messages in a random order, with duplicates / losses
			for i := 0; i < 3+r.Intn(5); i++ {
				g.op("dl %d", r.Intn(4))
			}
			if profile == "C31" || r.Bool() {
				// the connection manager looks at the non-primary tunnels of both ends
				for _, x := range []int{n, m} {
					for q := 1; q <= 2+r.Intn(3); q++ {
						g.op("swap %d %d", x, (x+1)*1000+q)
					}
				}
			}
		case k < 95:
			g.op("swap %d %d", n, g.guessIndex(n))
			if r.Bool() {
				g.op("swap %d %d", m, g.guessIndex(m))
			}
		default:
			g.op("del %d %d", n, g.guessIndex(n))
		}
		if r.Chance(1, 4) {
			g.ticks(g.node(), 1+r.Intn(3))
		}
	}
	return g.ops
}

// ---- scripted cases (each is a complete case with its own reset)

func (g *caseGen) start3(n, a int) {
	g.op("hs %d %d", n, a)
	for i := 0; i < 3; i++ {
		g.op("sleep %d", g.interval)
		g.op("tick %d", n)
	}
}

func shuffled(r *hlib.Rand, xs []int) []int {
	out := append([]int(nil), xs...)
	for i := len(out) - 1; i > 0; i-- {
		j := r.Intn(i + 1)
		out[i], out[j] = out[j], out[i]
	}
	return out
}

// genOwnAddrCase: the initiator (node 0) holds v1 [x1] + v2 [x1, own extras]; the responder's v2 certificate lists one or
// two of those extras next to its own addresses, so that the initiator's own address sits first / in the middle / last,
// before / after the address it is actually handshaking with. Initiating with v1 keeps the extras out of the responder's
// sight, so an unmodified responder answers.
func genOwnAddrCase(r *hlib.Rand, emit func(string, ...any)) int {
	g := &caseGen{r: r, emit: emit, interval: 100, retries: 5}
	x1 := 1 + r.Intn(4)
	extras := []int{}
	for _, e := range shuffled(r, []int{x1 + 10, x1 + 30, 100 + x1, 120 + x1}) {
		if len(extras) < 1+r.Intn(3) {
			extras = append(extras, e)
		}
	}
	mine := append([]int{x1}, extras...)
	// the responder's own addresses around the extras: below all, between, above all, v6
	own := shuffled(r, []int{x1 + 5, x1 + 20, x1 + 40, 110 + x1, 130 + x1})[:1+r.Intn(3)]
	claimed := shuffled(r, extras)[:1+r.Intn(len(extras))]
	if r.Chance(1, 6) {
		claimed = nil // control: a multi-address peer that claims nothing of ours
	}
	theirs := append(append([]int{}, own...), claimed...)
	g.nodes = []nodeSpec{{3, mine}, {2, theirs}}
	if r.Bool() {
		g.nodes = append(g.nodes, nodeSpec{2, []int{50}})
	}
	var specs []string
	for _, s := range g.nodes {
		specs = append(specs, specString(s))
	}
	g.op("reset %d %d %s", g.retries, g.interval, strings.Join(specs, " "))
	for _, a := range shuffled(r, own) {
		if a >= 100 && r.Chance(2, 3) {
			continue // an IPv6 target makes the initiator use its v2 certificate, which the responder refuses
		}
		g.op("lh 0 %d 1", a)
		g.start3(0, a)
		g.op("dl 0")
		g.op("dl 0")
		if r.Chance(1, 3) {
			g.op("send 0 %d 1500 40", a)
		}
		if r.Chance(1, 3) {
			g.op("dl %d", r.Intn(3))
		}
	}
	// the initiator dials its OWN addresses (create-tunnel, an unsafe-route gateway set to an own address, a relay
	// request, a punch notification ...): the ones the responder's certificate also lists get an answer
	for _, a := range shuffled(r, mine) {
		if a >= 100 || r.Chance(1, 4) {
			continue
		}
		g.op("lh 0 %d 1", a)
		if r.Bool() {
			g.op("hs 0 %d", a)
		} else {
			g.op("rehs 0 %d", a)
		}
		for i := 0; i < 3; i++ {
			g.op("sleep %d", g.interval)
			g.op("tick 0")
		}
		g.op("dl 0")
		g.op("dl 0")
	}
	if r.Bool() {
		// and the other direction: the responder dials one of the initiator's addresses
		a := mine[r.Intn(len(mine))]
		g.op("lh 1 %d 0", a)
		g.start3(1, a)
		g.op("dl 0")
		g.op("dl 0")
	}
	return g.ops
}

// genDelayedStage2Case: n dials m; m's answer is held back; m dials n (later peer time) and n accepts it as responder;
// the held-back answer then completes n's own (older) handshake, which becomes primary. Every earlier transmission is
// then replayed, to its destination and elsewhere, with primary swaps in between.
func genDelayedStage2Case(r *hlib.Rand, emit func(string, ...any)) int {
	g := &caseGen{r: r, emit: emit, interval: hlib.Pick(r, 100, 50), retries: 10}
	g.nodes = []nodeSpec{{2, []int{1}}, {2, []int{2}}}
	if r.Chance(1, 3) {
		g.nodes[1] = nodeSpec{2, []int{2, 12}}
	}
	if r.Chance(1, 3) {
		g.nodes = append(g.nodes, nodeSpec{2, []int{3}})
	}
	var specs []string
	for _, s := range g.nodes {
		specs = append(specs, specString(s))
	}
	g.op("reset %d %d %s", g.retries, g.interval, strings.Join(specs, " "))
	n, m := 0, 1
	if r.Bool() {
		n, m = 1, 0
	}
	a, b := g.nodes[m].addrs[0], g.nodes[n].addrs[0]
	g.op("lh %d %d %d", n, a, m)
	g.op("lh %d %d %d", m, b, n)
	g.start3(n, a) // stage 1 of n
	g.op("dl 0")   // m answers (held back) and holds n's tunnel as responder
	g.op("sleep %d", hlib.Pick(r, 1, g.interval, 3*g.interval))
	g.op("rehs %d %d", m, b)
	for i := 0; i < 3; i++ {
		g.op("sleep %d", g.interval)
		g.op("tick %d", m)
	}
	g.op("dl 0") // m's stage 1 reaches n: n accepts as responder
	g.op("dl 2") // the held-back answer completes n's handshake: an initiator tunnel with an older peer time is primary
	for i := 0; i < 4+r.Intn(6); i++ {
		switch r.Intn(6) {
		case 0:
			g.op("swap %d %d", n, (n+1)*1000+1+r.Intn(3))
		case 1:
			g.op("dlto %d %d", r.Intn(6), g.node())
		case 2, 3:
			g.reframed(r.Intn(6)) // the same, with the unauthenticated header altered
		default:
			g.op("dl %d", r.Intn(6)) // replay every held tunnel's first message, not only the primary's
		}
	}
	return g.ops
}

// genRaceChecksCase: simultaneous initiation between two nodes, the four messages in a random order, then connection
// manager traffic checks on every tunnel with traffic flags: quiet intervals, late inbound traffic on the non-primary
// tunnel (swap), quiet again.
func genRaceChecksCase(r *hlib.Rand, emit func(string, ...any)) int {
	g := &caseGen{r: r, emit: emit, interval: 100, retries: 10}
	g.nodes = []nodeSpec{{2, []int{1}}, {2, []int{2}}}
	if r.Chance(1, 4) {
		g.nodes[r.Intn(2)].ver = 3
	}
	g.op("reset %d %d %s %s", g.retries, g.interval, specString(g.nodes[0]), specString(g.nodes[1]))
	g.op("lh 0 2 1")
	g.op("lh 1 1 0")
	g.op("hs 0 2")
	g.op("hs 1 1")
	for i := 0; i < 3; i++ {
		g.op("sleep %d", g.interval)
		g.op("tick 0")
		g.op("tick 1")
	}
	// transmissions so far: [s1 of 0, s1 of 1]; deliver both, then the two answers, in a random order
	if r.Bool() {
		g.op("dl 1")
		g.op("dl 1")
	} else {
		g.op("dl 0")
		g.op("dl 2")
	}
	for _, j := range shuffled(r, []int{0, 1}) {
		g.op("dl %d", j)
	}
	if r.Chance(1, 4) {
		g.op("dl %d", r.Intn(4))
	}
	for round := 0; round < 2+r.Intn(3); round++ {
		x := r.Intn(2)
		li := (x+1)*1000 + 1 + r.Intn(2)
		o := r.Intn(2)
		// a quiet interval, then traffic arrives, then quiet again
		g.op("cmcheck %d %d 0 %d", x, li, o)
		if r.Chance(3, 4) {
			g.op("cmcheck %d %d 1 %d", x, li, r.Intn(2))
		}
		g.op("cmcheck %d %d 0 %d", x, li, r.Intn(2))
		if r.Bool() {
			g.op("cmcheck %d %d %d %d", x, li, r.Intn(2), r.Intn(2))
		}
		if r.Chance(1, 3) {
			y := r.Intn(2)
			g.op("cmcheck %d %d %d %d", y, (y+1)*1000+1+r.Intn(3), r.Intn(2), r.Intn(2))
		}
	}
	return g.ops
}

// genReloadCase: the trust store changes (the peer's certificates are blocklisted by a config reload) while a handshake
// is pending, before it starts, or after it completed.
func genReloadCase(r *hlib.Rand, emit func(string, ...any)) int {
	g := &caseGen{r: r, emit: emit, interval: 100, retries: 10}
	g.nodes = []nodeSpec{{hlib.Pick(r, 2, 2, 3), []int{1}}, {hlib.Pick(r, 2, 2, 3, 1), []int{2}}, {2, []int{3}}}
	var specs []string
	for _, s := range g.nodes {
		specs = append(specs, specString(s))
	}
	g.op("reset %d %d %s", g.retries, g.interval, strings.Join(specs, " "))
	n, m := 0, 1
	if r.Bool() {
		n, m = 1, 0
	}
	a := g.nodes[m].addrs[0]
	g.op("lh %d %d %d", n, a, m)
	when := hlib.Pick(r, 0, 1, 2, 2, 2, 2, 3, 4)
	if when == 0 {
		g.op("block %d %d", n, m)
	}
	g.start3(n, a)
	if when == 1 {
		g.op("block %d %d", n, m) // stage 1 sent, not yet delivered
	}
	if when == 4 {
		g.op("block %d %d", m, n) // the responder distrusts the initiator
	}
	g.op("dl 0")
	if when == 2 || r.Chance(1, 3) {
		g.op("block %d %d", n, hlib.Pick(r, m, m, m, 2)) // between stage 1 sent and stage 2 processed
	}
	g.op("dl 0")
	if when == 3 {
		g.op("block %d %d", n, m) // after completion: the connection manager closes the tunnel
	}
	g.op("cmcheck %d %d %d 0", n, (n+1)*1000+1, r.Intn(2))
	if r.Bool() {
		g.op("dl %d", r.Intn(3))
		g.op("send %d %d 1500 40", n, a)
	}
	return g.ops
}

// genEcmpCase: node 0 has an unsafe route with 2-3 weighted gateways; some gateways have a tunnel, some are
// pending (or unreachable); tun packets into the routed network with ports spread over the flow hash (distinct
// lengths, so every packet is recognisable on the wire); then the pending gateways' handshakes complete.
func genEcmpCase(r *hlib.Rand, emit func(string, ...any)) int {
	g := &caseGen{r: r, emit: emit, interval: 100, retries: 10}
	ng := 2 + r.Intn(2)
	g.nodes = []nodeSpec{{hlib.Pick(r, 2, 2, 3, 1), []int{1}}}
	var rt []string
	for i := 1; i <= ng; i++ {
		g.nodes = append(g.nodes, nodeSpec{2, []int{i + 1}})
		rt = append(rt, fmt.Sprintf("%d:%d", i+1, hlib.Pick(r, 1, 1, 1, 2, 3, 5)))
	}
	var specs []string
	for _, s := range g.nodes {
		specs = append(specs, specString(s))
	}
	g.op("reset %d %d %s rt0=%s", g.retries, g.interval, strings.Join(specs, " "), strings.Join(rt, ","))
	up := map[int]bool{}
	order := shuffled(r, []int{1, 2, 3}[:ng])
	nUp := r.Intn(ng) // 0 .. ng-1 gateways have a tunnel before traffic starts
	for i := 1; i <= ng; i++ {
		if r.Chance(5, 6) {
			g.op("lh 0 %d %d", i+1, i)
		}
	}
	for _, m := range order[:nUp] {
		g.op("lh 0 %d %d", m+1, m)
		g.start3(0, m+1)
		g.op("dl 0")
		g.op("dl 0")
		up[m] = true
	}
	ln := 28
	sends := func(k int) {
		for i := 0; i < k; i++ {
			ln++
			g.op("send 0 %d %d %d", 200+r.Intn(4), hlib.Pick(r, 1000+r.Intn(1000), 1000+r.Intn(1000), 1000+r.Intn(16), 999, 2000), ln)
		}
	}
	sends(3 + r.Intn(8))
	for i := 0; i < 3; i++ {
		g.op("sleep %d", g.interval)
		g.op("tick 0")
	}
	sends(2 + r.Intn(6))
	// the pending gateways answer now: their first messages are the latest transmissions
	pend := ng - nUp
	for i := 0; i < pend; i++ {
		if r.Chance(1, 5) {
			continue
		}
		g.op("dl %d", pend-1-i+i) // a first message among the latest ones
		g.op("dl 0")              // its answer: completion, queued packets are released
		if r.Bool() {
			sends(1 + r.Intn(3))
		}
	}
	sends(1 + r.Intn(4))
	if r.Bool() {
		g.ticks(0, 2+r.Intn(4))
	}
	return g.ops
}

// genHeldBackMiddleCase: n completes handshake H1 with m, starts H2 whose first message is never delivered and which
// times out, completes (on m's side) H3; m now holds two tunnels for n (oldest H1, primary H3). The held-back first
// message of H2 - made between them, so older than the primary and newer than the oldest - then arrives, followed by
// replays of every other first message: none may replace the primary (reviewer seed C10-2).
func genHeldBackMiddleCase(r *hlib.Rand, emit func(string, ...any)) int {
	g := &caseGen{r: r, emit: emit, interval: hlib.Pick(r, 100, 50), retries: hlib.Pick(r, 1, 1, 2)}
	g.nodes = []nodeSpec{{2, []int{1}}, {2, []int{2}}}
	if r.Chance(1, 3) {
		g.nodes = append(g.nodes, nodeSpec{2, []int{3}})
	}
	var specs []string
	for _, s := range g.nodes {
		specs = append(specs, specString(s))
	}
	g.op("reset %d %d %s", g.retries, g.interval, strings.Join(specs, " "))
	n, m := 0, 1
	if r.Bool() {
		n, m = 1, 0
	}
	a := g.nodes[m].addrs[0]
	start := func(first bool) {
		if first {
			g.op("hs %d %d", n, a)
		} else {
			g.op("rehs %d %d", n, a)
		}
		g.op("tick %d", n)
		g.op("sleep %d", g.interval)
		g.op("sleep %d", g.interval)
		g.op("tick %d", n)
	}
	giveUp := func() {
		for i := 0; i < 2*g.retries+3; i++ {
			g.op("sleep %d", 3*g.interval)
			g.op("tick %d", n)
		}
	}
	g.op("lh %d %d %d", n, a, m)
	start(true)                   // H1: first message = transmission 0
	g.op("deliver 0")             // m answers (transmission 1)
	g.op("deliver 1")             // n completes H1
	held := r.Intn(1 + r.Intn(3)) // how many handshakes are held back between the oldest and the primary
	for i := 0; i <= held; i++ {
		g.op("sleep %d", hlib.Pick(r, 1000, 1500, 3*g.interval))
		start(false) // first transmission of this one is transmission 2 (+ retransmissions); never delivered
		giveUp()
	}
	g.op("sleep %d", hlib.Pick(r, 1000, 1500, 3*g.interval))
	g.op("rehs %d %d", n, a)
	g.op("tick %d", n)
	g.op("dl 0") // H3 reaches m: the newest tunnel becomes primary
	g.op("dl 0")
	g.op("deliver 2") // the held-back first message
	for i := 0; i < 3+r.Intn(5); i++ {
		switch r.Intn(5) {
		case 0:
			g.op("deliver %d", r.Intn(8))
		case 1:
			g.op("dl %d", r.Intn(8))
		case 2:
			g.reframed(r.Intn(8))
		case 3:
			g.op("deliver 2")
		default:
			g.op("dto %d %d", 2+r.Intn(4), m)
		}
	}
	return g.ops
}

// the scripted families once each from a fixed stream: what they exercise does not depend on the run's seed
func preamble(profile string, emit func(string, ...any)) int {
	total := 0
	fix := hlib.NewRand(20260922)
	for i := 0; i < 3; i++ {
		switch profile {
		case "C09":
			total += genOwnAddrCase(fix, emit)
			total += genReloadCase(fix, emit)
			total += genAllowCase(fix, emit)
			total += genRelayCase(fix, emit)
		case "C10":
			total += genDelayedStage2Case(fix, emit)
			total += genHeldBackMiddleCase(fix, emit)
		case "C31":
			total += genRaceChecksCase(fix, emit)
		case "C32":
			total += genEcmpCase(fix, emit)
		}
	}
	return total
}

func gen(r *hlib.Rand, n int, tier, profile string, emit func(string, ...any)) {
	total := preamble(profile, emit)
	for total < n {
		k := r.Intn(100)
		switch {
		case profile == "C32" && k >= 70, profile != "C32" && k >= 96:
			total += genEcmpCase(r, emit)
		case profile == "C09" && k < 20, profile != "C09" && k < 3:
			total += genOwnAddrCase(r, emit)
		case profile == "C09" && k < 36, profile != "C09" && k < 6:
			total += genReloadCase(r, emit)
		case profile == "C09" && k < 58:
			total += genAllowCase(r, emit)
		case profile == "C09" && k < 80:
			total += genRelayCase(r, emit)
		case profile == "C10" && k < 40, profile != "C10" && k < 9:
			total += genDelayedStage2Case(r, emit)
		case profile == "C10" && k < 58:
			total += genHeldBackMiddleCase(r, emit)
		case profile == "C31" && k < 60, profile != "C31" && k < 12:
			total += genRaceChecksCase(r, emit)
		default:
			total += genCase(r, profile, emit)
		}
	}
}
