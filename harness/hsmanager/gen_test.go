package hsmanager

import "verifharness/hlib"

func gen(r *hlib.Rand, n int, tier, profile string, emit func(string, ...any)) {
}
