//go:build linux

// Engine `udprecv` (C27): udp.deliverSegments / udp.parseRecvCmsg on the real code.
package udprecv

import (
	"bytes"
	"encoding/binary"
	"fmt"
	"io"
	"log/slog"
	"net/netip"
	"runtime/debug"
	"strconv"
	"strings"
	"sync"
	"testing"
	"time"
	"unsafe"

	"github.com/slackhq/nebula/udp"
	"golang.org/x/sys/unix"
	"verifharness/hlib"
)

// ---------------------------------------------------------------------------------------------
// generator

type cm struct {
	level, typ int
	data       []byte
}

func le32(v uint32) []byte { b := make([]byte, 4); binary.LittleEndian.PutUint32(b, v); return b }

func genMsg(r *hlib.Rand) cm {
	switch r.Intn(6) {
	case 0, 1, 2: // UDP_GRO with a plausible or extreme value
		v := hlib.Pick(r, uint32(0), 1, 1372, 1400, 1400, 9001, 65535, 0x7fffffff, 0x80000000, 0xffffffff, uint32(r.Intn(70000)))
		d := le32(v)
		switch r.Intn(10) {
		case 0:
			d = d[:r.Intn(4)] // short data
		case 1:
			d = append(d, r.Bytes(r.Range(1, 9))...) // long data
		}
		return cm{unix.SOL_UDP, unix.UDP_GRO, d}
	case 3:
		// messages whose cmsg_len is not a multiple of the cmsg alignment: the walk must step by CMSG_SPACE
		switch r.Intn(5) {
		case 0:
			return cm{unix.IPPROTO_IP, unix.IP_TTL, le32(uint32(r.Intn(256)))} // cmsg_len 20
		case 1:
			return cm{unix.IPPROTO_IP, unix.IP_PKTINFO, r.Bytes(12)} // cmsg_len 28
		case 2:
			return cm{unix.IPPROTO_IPV6, unix.IPV6_PKTINFO, r.Bytes(20)} // cmsg_len 36
		case 3:
			return cm{unix.SOL_SOCKET, unix.SO_TIMESTAMP, r.Bytes(16)} // aligned: cmsg_len 32
		}
		return cm{unix.IPPROTO_IP, unix.IP_TOS, []byte{byte(r.Intn(256))}} // cmsg_len 17
	case 4: // near miss: right level wrong type / wrong level right type
		if r.Bool() {
			return cm{unix.SOL_UDP, unix.UDP_SEGMENT, le32(uint32(r.Intn(2000)))}
		}
		return cm{unix.SOL_SOCKET, unix.UDP_GRO, le32(uint32(r.Intn(2000)))}
	}
	return cm{r.Intn(300), r.Intn(300), r.Bytes(r.Intn(13))}
}

func layout(msgs []cm) []byte {
	var out []byte
	for _, m := range msgs {
		buf := make([]byte, unix.CmsgSpace(len(m.data)))
		h := (*unix.Cmsghdr)(unsafe.Pointer(&buf[0]))
		h.Level = int32(m.level)
		h.Type = int32(m.typ)
		h.SetLen(unix.CmsgLen(len(m.data)))
		copy(buf[unix.CmsgLen(0):], m.data)
		out = append(out, buf...)
	}
	return out
}

func msgsText(msgs []cm) string {
	if len(msgs) == 0 {
		return "-"
	}
	var parts []string
	for _, m := range msgs {
		parts = append(parts, fmt.Sprintf("%d:%d:%s", m.level, m.typ, hlib.Hex(m.data)))
	}
	return strings.Join(parts, ";")
}

func genSegSize(r *hlib.Rand, ln int) int64 {
	switch r.Intn(14) {
	case 0:
		return 0
	case 1:
		return -1
	case 2:
		return -int64(r.Intn(70000)) - 1
	case 3:
		return -1 << 63
	case 4:
		return 1<<63 - 1
	case 5:
		return int64(ln)
	case 6:
		return int64(ln) + 1
	case 7:
		return int64(ln) - 1
	case 8:
		return int64(ln) + int64(r.Intn(3000))
	case 9:
		return 1
	case 10:
		return int64(hlib.Pick(r, 2, 3, 1372, 1400, 1399, 1401))
	}
	if ln > 1 {
		return int64(r.Range(1, ln))
	}
	return int64(r.Intn(4))
}

// probeOffloads: does this environment give a loopback listener UDP_GRO / UDP_SEGMENT?
func probeOffloads() (gro, gso bool) {
	c, err := udp.NewListener(quietLogger(), udp.Settings{Listen: netip.MustParseAddrPort("127.0.0.1:0"), Batch: 2, Offloads: true})
	if err != nil {
		return false, false
	}
	defer c.Close()
	return udp.VerifGROEnabled(c), udp.VerifGSOEnabled(c)
}

func quietLogger() *slog.Logger { return slog.New(slog.NewTextHandler(io.Discard, nil)) }

func sizesText(xs []int) string {
	var parts []string
	for _, x := range xs {
		parts = append(parts, strconv.Itoa(x))
	}
	return strings.Join(parts, " ")
}

// genListenCase: one history of reads on a real loopback listener (the ListenOut loop itself, recvmmsg slot
// reuse included): GSO bursts (arrive as one UDP_GRO superdatagram) and plain datagrams, interleaved, with the
// sizes chosen around the previous burst's segment size so that "plain datagram longer than the stale
// gso_size in the same slot" is common.
func genListenCase(r *hlib.Rand, gro, gso bool, emit func(string, ...any)) {
	batch := hlib.Pick(r, 2, 2, 4, 8, 64)
	offloads := !r.Chance(1, 8)
	if r.Chance(1, 16) {
		batch = 1 // ListenOut without GRO buffers (cmsgSpace == 0)
	}
	expGro := gro && offloads && batch > 1
	emit("reset listen %d %s %s %s", batch, hlib.B(offloads), hlib.B(expGro), hlib.B(gso))
	lastSeg := 0
	burst := func() []int {
		g := hlib.Pick(r, 1, 2, 7, 100, 100, 500, 1200, 1400, r.Range(1, 1400))
		k := hlib.Pick(r, 2, 3, 4, 10, r.Range(2, 40))
		if g*k > 60000 {
			k = 60000 / g
		}
		xs := make([]int, k)
		for i := range xs {
			xs[i] = g
		}
		if r.Chance(1, 3) {
			xs[k-1] = r.Range(1, g) // short tail
		}
		lastSeg = g
		return xs
	}
	plain := func() []int {
		if lastSeg > 0 && r.Chance(3, 4) {
			g := lastSeg
			// never above the receive buffer of a listener without GRO (udp.MTU = 9001): a longer datagram is truncated
			return []int{min(9000, hlib.Pick(r, g+1, 2*g, 2*g+1, 10*g, g*r.Range(2, 6)+r.Intn(g), g, max(1, g-1), 3*g))}
		}
		return []int{hlib.Pick(r, 1, 2, 100, 1000, 1400, 1401, 2801, 9000, r.Range(1, 9000))}
	}
	for round := r.Range(2, 5); round > 0; round-- {
		for k := hlib.Pick(r, 1, 1, 1, 2, 3); k > 0; k-- {
			if r.Chance(1, 2) {
				emit("lsend %s", sizesText(burst()))
			} else {
				emit("lsend %s", sizesText(plain()))
			}
		}
		emit("lrecv")
	}
}

func gen(r *hlib.Rand, n int, tier, profile string, emit func(string, ...any)) {
	emit("consts")
	gro, gso := probeOffloads()
	// the C27-5 shape first: a coalesced burst, then a plain datagram longer than its segment size
	emit("reset listen 8 1 %s %s", hlib.B(gro), hlib.B(gso))
	emit("lsend 100 100 100 100 100 100 100 100 100 100")
	emit("lrecv")
	emit("lsend 1000")
	emit("lrecv")
	listenEvery := 40
	if tier == "thorough" {
		listenEvery = 200
	}
	if tier == "thorough" {
		// exhaustive small scope: every length ≤ 24 with every segment size in [-2, len+2]
		for ln := 0; ln <= 24; ln++ {
			p := r.Bytes(ln)
			for s := -2; s <= ln+2; s++ {
				emit("seg %s %d", hlib.Hex(p), s)
			}
		}
	}
	for i := 0; i < n; i++ {
		if i%listenEvery == listenEvery/2 {
			genListenCase(r, gro, gso, emit)
			continue
		}
		switch k := r.Intn(20); {
		case k < 6: // small payloads, bytes on the line
			ln := hlib.Pick(r, 0, 1, 2, 3, 4, 7, 8, 9, 15, 16, 17, r.Intn(40), r.Intn(40), r.Intn(200))
			emit("seg %s %d", hlib.Hex(r.Bytes(ln)), genSegSize(r, ln))
		case k < 9: // datagram-sized payloads, pattern bytes
			ln := hlib.Pick(r, 1399, 1400, 1401, 2800, 2801, 3000, 4200, 9001, 65000, 65500, 65535, r.Intn(65536), r.Intn(5000))
			s := genSegSize(r, ln)
			if s > 0 && s < 64 && ln > 4096 { // keep the number of pieces (and the line) moderate
				s = int64(hlib.Pick(r, 64, 100, 1372, 1400))
			}
			emit("segn %d %d", ln, s)
		case k < 12: // well-formed ancillary buffers
			var msgs []cm
			for j := r.Intn(5); j > 0; j-- {
				msgs = append(msgs, genMsg(r))
			}
			emit("cmsgw %s", msgsText(msgs))
		case k < 18: // mutated ancillary buffers
			var msgs []cm
			for j := r.Range(1, 4); j > 0; j-- {
				msgs = append(msgs, genMsg(r))
			}
			buf := layout(msgs)
			// corrupt the length field of one message
			if r.Chance(2, 3) {
				k := r.Intn(len(msgs))
				off := 0
				for _, m := range msgs[:k] {
					off += unix.CmsgSpace(len(m.data))
				}
				rem := uint64(len(buf) - off)
				v := hlib.Pick(r, uint64(0), 1, 15, 16, 17, 19, 20, 23, 24, rem, rem+1, rem-1, rem-7, rem-8, 1<<20, 1<<63-9, 1<<63-1, 1<<63, 1<<64-1, 1<<64-8, r.U64())
				binary.LittleEndian.PutUint64(buf[off:], v)
			}
			switch r.Intn(4) {
			case 0: // truncate anywhere
				buf = buf[:r.Intn(len(buf)+1)]
			case 1: // truncate near the end (inside the last header / last data)
				cut := r.Intn(24)
				if cut > len(buf) {
					cut = len(buf)
				}
				buf = buf[:len(buf)-cut]
			case 2: // trailing partial header
				buf = append(buf, r.Bytes(r.Intn(16))...)
			}
			if r.Chance(1, 4) {
				emit("cmsgx %s %d", hlib.Hex(append(append([]byte{}, buf...), r.Bytes(r.Range(1, 40))...)), len(buf))
			} else {
				emit("cmsg %s", hlib.Hex(buf))
			}
		case k < 19: // random bytes
			emit("cmsg %s", hlib.Hex(r.Bytes(hlib.Pick(r, 0, 1, 15, 16, 17, 23, 24, 31, 32, 40, r.Intn(80)))))
		default:
			emit("cmsgnil %d", hlib.Pick(r, 0, 15, 16, 24, 1024))
		}
	}
}

// ---------------------------------------------------------------------------------------------
// executor

// guard is a mapping whose last page is inaccessible: a buffer placed so that it ends at the page
// boundary turns any read past its end into a fault (reported as a panic through SetPanicOnFault).
type guard struct {
	mem  []byte
	page int
}

func newGuard(size int) *guard {
	page := unix.Getpagesize()
	pages := (size+page-1)/page + 1
	mem, err := unix.Mmap(-1, 0, pages*page, unix.PROT_READ|unix.PROT_WRITE, unix.MAP_ANON|unix.MAP_PRIVATE)
	if err != nil {
		panic(err)
	}
	if err := unix.Mprotect(mem[(pages-1)*page:], unix.PROT_NONE); err != nil {
		panic(err)
	}
	return &guard{mem: mem[: (pages-1)*page : (pages-1)*page], page: page}
}

// place copies b so that it ends exactly at the guard page; the bytes before it are poisoned.
func (g *guard) place(b []byte) []byte {
	for i := range g.mem[len(g.mem)-len(b)-64:] {
		g.mem[len(g.mem)-len(b)-64+i] = 0xa5
	}
	dst := g.mem[len(g.mem)-len(b):]
	copy(dst, b)
	return dst
}

// listener is one real loopback receive path: rx runs the production ListenOut loop in a goroutine, tx sends to it.
type listener struct {
	rx, tx  udp.Conn
	dst     netip.AddrPort
	done    chan struct{}
	mu      sync.Mutex
	got     [][]byte
	flushed int // len(got) at the last flush()
	taken   int // pieces already reported by lrecv
	seq     int // datagrams sent since reset
	pending int // bytes sent since the last lrecv
}

func (l *listener) close() {
	if l == nil {
		return
	}
	if l.rx != nil {
		l.rx.Close()
		select {
		case <-l.done:
		case <-time.After(3 * time.Second):
		}
	}
	if l.tx != nil {
		l.tx.Close()
	}
}

func openListener(batch int, offloads bool) (*listener, error) {
	lo := netip.MustParseAddrPort("127.0.0.1:0")
	rx, err := udp.NewListener(quietLogger(), udp.Settings{Listen: lo, Batch: batch, Offloads: offloads})
	if err != nil {
		return nil, err
	}
	tx, err := udp.NewListener(quietLogger(), udp.Settings{Listen: lo, Batch: 64, Offloads: true})
	if err != nil {
		rx.Close()
		return nil, err
	}
	dst, err := rx.LocalAddr()
	if err != nil {
		rx.Close()
		tx.Close()
		return nil, err
	}
	l := &listener{rx: rx, tx: tx, dst: dst, done: make(chan struct{})}
	go func() {
		defer close(l.done)
		_ = rx.ListenOut(func(_ netip.AddrPort, b []byte) {
			l.mu.Lock()
			l.got = append(l.got, bytes.Clone(b))
			l.mu.Unlock()
		}, func() {
			l.mu.Lock()
			l.flushed = len(l.got)
			l.mu.Unlock()
		})
	}()
	return l, nil
}

// datagram k of a case, n bytes long
func listenPayload(k, n int) []byte {
	b := make([]byte, n)
	for i := range b {
		b[i] = byte((k*37 + i*7 + 3) % 256)
	}
	return b
}

func pieceText(b []byte) string {
	var h uint32
	for _, x := range b {
		h = h*31 + uint32(x)
	}
	return strconv.Itoa(len(b)) + ":" + strconv.FormatUint(uint64(h), 10)
}

func newExec(t *testing.T) func([]string) string {
	var lst *listener
	t.Cleanup(func() { lst.close() })
	inner := newExecFn(t)
	return func(a []string) string {
		switch a[0] {
		case "reset":
			lst.close()
			lst = nil
			if len(a) < 4 || a[1] != "listen" {
				return "bad-op"
			}
			l, err := openListener(hlib.Atoi(a[2]), a[3] == "1")
			if err != nil {
				return "gro=0 gso=0 err"
			}
			lst = l
			return "gro=" + hlib.B(udp.VerifGROEnabled(l.rx)) + " gso=" + hlib.B(udp.VerifGSOEnabled(l.tx))
		case "lsend":
			if lst == nil || len(a) < 2 {
				return "bad-op"
			}
			var bufs [][]byte
			var addrs []netip.AddrPort
			for _, s := range a[1:] {
				n := hlib.Atoi(s)
				if n < 1 || n > 65000 {
					return "bad-op"
				}
				bufs = append(bufs, listenPayload(lst.seq, n))
				addrs = append(addrs, lst.dst)
				lst.seq++
				lst.pending += n
			}
			if len(bufs) == 1 {
				if err := lst.tx.WriteTo(bufs[0], lst.dst); err != nil {
					return "err:" + strings.ReplaceAll(err.Error(), " ", "_")
				}
				return "sent=1"
			}
			n, err := lst.tx.WriteBatch(bufs, addrs)
			if err != nil {
				return "err:" + strings.ReplaceAll(err.Error(), " ", "_")
			}
			return "sent=" + strconv.Itoa(n)
		case "lrecv":
			if lst == nil {
				return "bad-op"
			}
			deadline := time.Now().Add(2 * time.Second)
			timeout := false
			var out [][]byte
			for {
				lst.mu.Lock()
				total := 0
				for _, b := range lst.got[lst.taken:] {
					total += len(b)
				}
				ready := total >= lst.pending && lst.flushed == len(lst.got)
				if ready || time.Now().After(deadline) {
					timeout = !ready
					out = lst.got[lst.taken:]
					lst.taken = len(lst.got)
					lst.mu.Unlock()
					break
				}
				lst.mu.Unlock()
				time.Sleep(200 * time.Microsecond)
			}
			lst.pending = 0
			var parts []string
			for _, b := range out {
				parts = append(parts, pieceText(b))
			}
			res := "-"
			if len(parts) > 0 {
				res = strings.Join(parts, ",")
			}
			if timeout {
				return "timeout " + res
			}
			return res
		}
		return inner(a)
	}
}

func newExecFn(t *testing.T) func([]string) string {
	debug.SetPanicOnFault(true)
	g := newGuard(1 << 17)
	from := netip.MustParseAddrPort("192.0.2.1:4242")
	var pat []byte
	for i := 0; i < 65536; i++ {
		pat = append(pat, byte((7*i+3)%256))
	}
	return func(a []string) string {
		switch a[0] {
		case "consts":
			var x uint16 = 1
			end := "be"
			if *(*byte)(unsafe.Pointer(&x)) == 1 {
				end = "le"
			}
			return fmt.Sprintf("%d %d %d %d %d %d %s", unix.SizeofCmsghdr, unix.CmsgLen(0), unix.CmsgSpace(4),
				unix.SOL_UDP, unix.UDP_GRO, udp.VerifUDPGROCmsgPayload, end)
		case "seg":
			p, err := hlib.UnHex(a[1])
			if err != nil {
				return "bad-op"
			}
			// spare capacity behind the payload, as in a recvmmsg row
			row := make([]byte, len(p), len(p)+64)
			copy(row, p)
			var parts []string
			capOK := true
			udp.VerifDeliverSegments(func(ap netip.AddrPort, b []byte) {
				if len(parts) > len(row)+1 {
					panic("deliverSegments does not terminate: more deliveries than payload bytes")
				}
				if ap != from {
					capOK = false
				}
				if cap(b) != len(b) {
					capOK = false
				}
				parts = append(parts, hlib.Hex(b))
			}, from, row, hlib.Atoi(a[2]))
			return strings.Join(parts, ",") + " cap=" + hlib.B(capOK)
		case "segn":
			ln := hlib.Atoi(a[1])
			if ln < 0 || ln > len(pat) {
				return "bad-op"
			}
			row := pat[:ln]
			var parts []string
			udp.VerifDeliverSegments(func(ap netip.AddrPort, b []byte) {
				if len(parts) > len(row)+1 {
					panic("deliverSegments does not terminate: more deliveries than payload bytes")
				}
				off := -1
				if len(b) == 0 {
					off = 0
					if ln > 0 {
						off = -2
					}
				} else {
					off = int(uintptr(unsafe.Pointer(&b[0])) - uintptr(unsafe.Pointer(&row[0])))
				}
				if len(b) == 0 && ln == 0 {
					off = 0
				}
				parts = append(parts, strconv.Itoa(off)+":"+strconv.Itoa(len(b)))
			}, from, row, hlib.Atoi(a[2]))
			return strings.Join(parts, ",")
		case "cmsg", "cmsgx", "cmsgw":
			var b []byte
			cl := 0
			switch a[0] {
			case "cmsg":
				x, err := hlib.UnHex(a[1])
				if err != nil {
					return "bad-op"
				}
				b, cl = x, len(x)
			case "cmsgx":
				x, err := hlib.UnHex(a[1])
				if err != nil {
					return "bad-op"
				}
				b, cl = x, hlib.Atoi(a[2])
				if cl > len(b) {
					return "bad-op"
				}
			case "cmsgw":
				var msgs []cm
				if a[1] != "-" {
					for _, t := range strings.Split(a[1], ";") {
						f := strings.Split(t, ":")
						d, err := hlib.UnHex(f[2])
						if err != nil {
							return "bad-op"
						}
						msgs = append(msgs, cm{hlib.Atoi(f[0]), hlib.Atoi(f[1]), d})
					}
				}
				b = layout(msgs)
				cl = len(b)
			}
			if cl == 0 {
				// &b[0] does not exist; the kernel would leave Control pointing at the slot anyway
				one := g.place([]byte{0})
				return strconv.Itoa(udp.VerifParseRecvCmsg(&one[0], 0))
			}
			var buf []byte
			if a[0] == "cmsgx" {
				// Controllen shorter than the accessible memory: bytes past Controllen are junk that must not matter
				buf = g.place(b)
			} else {
				buf = g.place(b[:cl])
			}
			return strconv.Itoa(udp.VerifParseRecvCmsg(&buf[0], cl))
		case "cmsgnil":
			return strconv.Itoa(udp.VerifParseRecvCmsg(nil, hlib.Atoi(a[1])))
		}
		return "bad-op"
	}
}

func TestEngine(t *testing.T) {
	hlib.Run(t, hlib.Engine{Name: "udprecv", Gen: gen, NewExec: newExec})
}
