// Engine `wheel` (C33): nebula.TimerWheel Add / Advance / Purge over a simulated clock.
package wheel

import (
	"fmt"
	"strings"
	"testing"
	"time"

	"github.com/slackhq/nebula"
	"verifharness/hlib"
)

var base = time.Unix(1_700_000_000, 0)

func genCase(r *hlib.Rand, emit func(string, ...any), nops int, tick, span int64) {
	emit("reset %d %d", tick, span)
	now := int64(r.Intn(1000))
	emit("adv %d", now)
	id := 0
	for i := 0; i < nops; i++ {
		switch r.Intn(10) {
		case 0, 1, 2, 3:
			// several adds may share one advance; the wheel is always advanced to `now` first
			if r.Bool() {
				emit("adv %d", now)
			}
			var t int64
			switch r.Intn(9) {
			case 0:
				t = hlib.Pick(r, int64(0), 1, -1, -tick)
			case 1:
				t = hlib.Pick(r, tick-1, tick, tick+1)
			case 2:
				t = hlib.Pick(r, span-1, span, span+1)
			case 3:
				t = span + int64(r.Intn(1000))*tick + int64(r.Intn(int(min64(tick, 1000))))
			case 4:
				t = int64(r.Intn(8))*tick + hlib.Pick(r, int64(-1), 0, 1)
			case 5:
				t = (span/tick)*tick + hlib.Pick(r, int64(-1), 0, 1) // last whole tick inside the span
			default:
				t = int64(r.U64() % uint64(span+tick+1))
			}
			id++
			emit("add %d %d", id, t)
		case 4, 5, 6:
			var gap int64
			switch r.Intn(8) {
			case 0:
				gap = 0
			case 1:
				gap = int64(r.U64() % uint64(tick))
			case 2:
				gap = tick * int64(1+r.Intn(3))
			case 3:
				gap = tick*int64(1+r.Intn(3)) + hlib.Pick(r, int64(-1), 1)
			case 4: // around one full revolution
				gap = (span/tick+2)*tick + hlib.Pick(r, -tick, int64(-1), 0, 1, tick)
			case 5: // far more than a revolution
				gap = (span/tick + 2) * tick * int64(2+r.Intn(5))
			default:
				gap = int64(r.U64() % uint64(span+2*tick))
			}
			if gap < 0 {
				gap = 0
			}
			now += gap
			emit("adv %d", now)
		case 7:
			emit("purge")
		default:
			emit("drain")
		}
	}
	// flush: everything still pending must come out after a full revolution
	now += (span/tick + 3) * tick
	emit("adv %d", now)
	emit("drain")
}

func max64(a, b int64) int64 {
	if a > b {
		return a
	}
	return b
}

func min64(a, b int64) int64 {
	if a < b {
		return a
	}
	return b
}

func gen(r *hlib.Rand, n int, tier, profile string, emit func(string, ...any)) {
	if tier == "thorough" {
		// the recycled-item cache beyond its limit: > timerCacheMax items through one wheel
		emit("reset 10 100")
		emit("adv 0")
		for i := 1; i <= 50020; i++ {
			emit("add %d %d", i, 10+i%90)
		}
		emit("adv 10000")
		emit("drain")
		emit("adv 10000")
		for i := 50021; i <= 50050; i++ {
			emit("add %d %d", i, 10+i%90)
		}
		emit("adv 20000")
		emit("drain")
		// small scope, exhaustive: every (tick, span) with tick ≤ 4, span ≤ 9, every timeout ≤ span+2
		for tick := int64(1); tick <= 4; tick++ {
			for span := int64(1); span <= 9; span++ {
				for phase := int64(0); phase < tick; phase++ {
					emit("reset %d %d", tick, span)
					emit("adv 0")
					emit("adv %d", tick+phase)
					for t := int64(-1); t <= span+2; t++ {
						emit("add %d %d", t+2, t)
					}
					for now := tick + phase; now <= tick+phase+span+3*tick; now++ {
						emit("adv %d", now)
						emit("drain")
					}
				}
			}
		}
	}
	// deterministic family (independent of the random stream): wheels whose span is not a multiple of the
	// tick, an item added late inside the current tick with a timeout in (floor(span/tick)*tick, span] or
	// above the span; the wheel is then advanced tick by tick (and at every sub-tick phase) and drained.
	id := 0
	for _, ts := range [][2]int64{{3, 10}, {10, 25}, {7, 20}, {1000, 2500}, {4, 5}, {3, 3}, {5, 2}} {
		tick, span := ts[0], ts[1]
		for _, phase := range []int64{0, tick - 1, tick / 2} {
			for _, t := range []int64{span, span - 1, span + 1, 100 * span, (span/tick)*tick + 1, (span / tick) * tick} {
				emit("reset %d %d", tick, span)
				emit("adv 0")
				emit("adv %d", tick+phase)
				id++
				emit("add %d %d", id, t)
				for now := tick + phase; now <= tick+phase+span+3*tick; now += max64(tick/2, 1) {
					emit("adv %d", now)
					emit("drain")
				}
			}
		}
	}
	ops := 0
	for ops < n {
		tick := hlib.Pick(r, int64(1), 2, 3, 7, 10, 1000, 1_000_000, 1_000_000_000)
		var span int64
		switch r.Intn(6) {
		case 0:
			span = tick * int64(1+r.Intn(12))
		case 1:
			span = tick*int64(1+r.Intn(12)) + 1 + int64(r.U64()%uint64(tick))
		case 2:
			span = 1 + int64(r.U64()%uint64(tick)) // below one tick
		case 3:
			span = tick
		case 4:
			span = tick*int64(50+r.Intn(400)) + int64(r.U64()%uint64(tick))
		default:
			span = tick*int64(2+r.Intn(30)) - 1
		}
		k := 8 + r.Intn(50)
		genCase(r, emit, k, tick, span)
		ops += k + 4
	}
}

func newExec(t *testing.T) func([]string) string {
	var tw *nebula.TimerWheel[int]
	return func(a []string) string {
		switch a[0] {
		case "reset":
			tw = nebula.NewTimerWheel[int](time.Duration(hlib.Atoi(a[1])), time.Duration(hlib.Atoi(a[2])))
			_, wl, _, _, _, _ := nebula.VerifTimerWheelState(tw)
			return fmt.Sprintf("len=%d", wl)
		case "adv":
			tw.Advance(base.Add(time.Duration(hlib.Atoi(a[1]))))
			cur, _, lt, ok, nexp, _ := nebula.VerifTimerWheelState(tw)
			if !ok {
				return "bad-state"
			}
			return fmt.Sprintf("%d %d %d", cur, int64(lt.Sub(base)), nexp)
		case "add":
			slot := nebula.VerifTimerWheelFindWheel(tw, time.Duration(hlib.Atoi(a[2])))
			tw.Add(hlib.Atoi(a[1]), time.Duration(hlib.Atoi(a[2])))
			return fmt.Sprint(slot)
		case "purge":
			v, ok := tw.Purge()
			if !ok {
				return "none"
			}
			return fmt.Sprint(v)
		case "drain":
			var out []string
			for {
				v, ok := tw.Purge()
				if !ok {
					break
				}
				out = append(out, fmt.Sprint(v))
			}
			if len(out) == 0 {
				return "-"
			}
			return strings.Join(out, ",")
		}
		return "bad-op"
	}
}

func TestEngine(t *testing.T) {
	hlib.Run(t, hlib.Engine{Name: "wheel", Gen: gen, NewExec: newExec})
}
