// Engine `counter` (C13): the send-side message counter of a real nebula.ConnectionState
// (NextMessageCounter, the hot path's Add(1), sendInsideEncrypt) and the ceiling check of the real
// noiseutil cipher states, with the nonce observed where it reaches the AEAD.
package counter

import (
	"crypto/aes"
	"crypto/cipher"
	"encoding/binary"
	"fmt"
	"go/ast"
	"go/parser"
	"go/token"
	"io"
	"io/fs"
	"log/slog"
	"os"
	"path/filepath"
	"sort"
	"strings"
	"sync"
	"sync/atomic"
	"testing"
	"time"

	"github.com/slackhq/nebula"
	"github.com/slackhq/nebula/header"
	"github.com/slackhq/nebula/noiseutil"
	"golang.org/x/crypto/chacha20poly1305"
	"verifharness/hlib"
)

const reject = noiseutil.RejectAfterMessages

// recAEAD records the nonce of every Seal, in the order the calls arrive.
type recAEAD struct {
	inner cipher.AEAD
	mu    sync.Mutex
	last  []byte
	seals int
	seq   [][12]byte
}

// gateCS is the tunnel's eKey: the real noiseutil cipher state behind a hook that lets the harness
// hold a sender inside EncryptDanger (i.e. inside the writeLock critical section in FIPS/boring mode).
type gateCS struct {
	inner noiseutil.CipherState
	hook  atomic.Pointer[func(n uint64)]
}

func (g *gateCS) EncryptDanger(out, ad, plaintext []byte, n uint64, nb []byte) ([]byte, error) {
	if h := g.hook.Load(); h != nil {
		(*h)(n)
	}
	return g.inner.EncryptDanger(out, ad, plaintext, n, nb)
}
func (g *gateCS) DecryptDanger(out, ad, ciphertext []byte, n uint64, nb []byte) ([]byte, error) {
	return g.inner.DecryptDanger(out, ad, ciphertext, n, nb)
}
func (g *gateCS) Overhead() int { return g.inner.Overhead() }

func (a *recAEAD) NonceSize() int { return a.inner.NonceSize() }
func (a *recAEAD) Overhead() int  { return a.inner.Overhead() }
func (a *recAEAD) Seal(dst, nonce, plaintext, ad []byte) []byte {
	a.mu.Lock()
	a.last = append(a.last[:0], nonce...)
	a.seals++
	var n12 [12]byte
	copy(n12[:], nonce)
	a.seq = append(a.seq, n12)
	a.mu.Unlock()
	return a.inner.Seal(dst, nonce, plaintext, ad)
}
func (a *recAEAD) Open(dst, nonce, ciphertext, ad []byte) ([]byte, error) {
	return a.inner.Open(dst, nonce, ciphertext, ad)
}

// callSites enumerates, over the whole repository (non-test, non-verif files), every call of
// EncryptDanger, NextMessageCounter and of a mutating method of a `messageCounter` field, as
// `<enclosing function>:<callee>`, sorted. The send-side model covers exactly the listed set.
func callSites() string {
	root := os.Getenv("VERIF_REPO")
	if root == "" {
		root = "/repo"
	}
	set := map[string]bool{}
	fset := token.NewFileSet()
	filepath.WalkDir(root, func(path string, d fs.DirEntry, err error) error {
		if err != nil {
			return nil
		}
		if d.IsDir() {
			if strings.HasPrefix(d.Name(), ".") && path != root {
				return filepath.SkipDir
			}
			return nil
		}
		name := d.Name()
		if !strings.HasSuffix(name, ".go") || strings.HasSuffix(name, "_test.go") || strings.HasPrefix(name, "verif_") {
			return nil
		}
		f, perr := parser.ParseFile(fset, path, nil, parser.ParseComments)
		if perr != nil {
			set["PARSE-ERROR:"+name] = true
			return nil
		}
		for _, cg := range f.Comments {
			if cg.Pos() < f.Package && strings.Contains(cg.Text(), "go:build") && strings.Contains(cg.Text(), "verif") {
				return nil
			}
		}
		for _, decl := range f.Decls {
			fd, ok := decl.(*ast.FuncDecl)
			if !ok || fd.Body == nil {
				continue
			}
			fn := fd.Name.Name
			if fd.Recv != nil && len(fd.Recv.List) > 0 {
				t := fd.Recv.List[0].Type
				if st, ok := t.(*ast.StarExpr); ok {
					t = st.X
				}
				if id, ok := t.(*ast.Ident); ok {
					fn = id.Name + "." + fn
				}
			}
			ast.Inspect(fd.Body, func(n ast.Node) bool {
				call, ok := n.(*ast.CallExpr)
				if !ok {
					return true
				}
				sel, ok := call.Fun.(*ast.SelectorExpr)
				if !ok {
					return true
				}
				switch sel.Sel.Name {
				case "EncryptDanger", "NextMessageCounter":
					set[fn+":"+sel.Sel.Name] = true
				case "Add", "Store", "Swap", "CompareAndSwap", "And", "Or":
					if inner, ok := sel.X.(*ast.SelectorExpr); ok && inner.Sel.Name == "messageCounter" {
						set[fn+":messageCounter."+sel.Sel.Name] = true
					}
				}
				return true
			})
		}
		return nil
	})
	var out []string
	for k := range set {
		out = append(out, k)
	}
	sort.Strings(out)
	return strings.Join(out, ",")
}

func gen(r *hlib.Rand, n int, tier, profile string, emit func(string, ...any)) {
	emit("callsites")
	ops := 1
	base := 0 // thread ids are never reused across cases (they are arbitrary naturals)
	for ops < n {
		lock := r.Chance(1, 3)
		var c0 uint64
		switch r.Intn(10) {
		case 0:
			c0 = uint64(r.Intn(5)) // fresh tunnel: handshake value
		case 1:
			c0 = r.U64() % reject
		case 2:
			c0 = uint64(nebula.RehandshakeAfterMessages) - uint64(r.Intn(4))
		case 3:
			c0 = reject + uint64(r.Intn(4)) // already exhausted, a few refused sends in
		default:
			c0 = reject - uint64(r.Intn(12)) // just below the ceiling
		}
		emit("reset %d %s %s", c0, hlib.B(lock), hlib.Pick(r, "aes", "chacha"))
		ops++
		nthreads := r.Range(1, 6)
		busy := map[int]bool{}
		raced := false
		steps := r.Range(4, 40)
		for k := 0; k < steps; k++ {
			t := base + r.Intn(nthreads)
			if lock {
				// every send is one critical section
				if !raced && r.Chance(1, 15) {
					// real goroutines contend for writeLock around the real sendInsideEncrypt
					raced = true
					pat := "hhh"
					if c0 < reject-1000 {
						// far from the ceiling the three send paths may be mixed (near it the final counter
						// would depend on who wins the lock: only NextMessageCounter pins it)
						k := "hvc"
						pat = string([]byte{k[r.Intn(3)], k[r.Intn(3)], k[r.Intn(3)]})
						if r.Chance(1, 3) {
							pat = hlib.Pick(r, "hvh", "cvh", "vvv", "hvc")
						}
					}
					emit("lockrace %d %d %s", t, r.Range(2, 3), pat)
					ops++
					continue
				}
				switch r.Intn(4) {
				case 0:
					emit("hotsend %d", t)
					ops++
				case 1:
					emit("add %d", t)
					emit("fin %d", t)
					ops += 2
				case 2:
					emit("next %d", t)
					emit("fin %d", t)
					ops += 2
				case 3:
					emit("ctladd %d", t)
					emit("fin %d", t)
					ops += 2
				}
				continue
			}
			if busy[t] {
				if r.Chance(3, 4) {
					emit("fin %d", t)
					busy[t] = false
				} else {
					emit("%s %d", hlib.Pick(r, "add", "next", "hotsend"), t) // out of program order: skipped
				}
				ops++
				continue
			}
			switch r.Intn(5) {
			case 0:
				emit("hotsend %d", t)
			case 1:
				emit("add %d", t)
				busy[t] = true
			case 2:
				emit("next %d", t)
				busy[t] = true
			case 3:
				emit("ctladd %d", t)
				busy[t] = true
			case 4:
				if r.Bool() {
					emit("load")
				} else {
					emit("fin %d", t) // nothing reserved: skipped
				}
			}
			ops++
		}
		// drain
		for t := base; t < base+nthreads; t++ {
			if busy[t] || r.Chance(1, 4) {
				emit("fin %d", t)
				ops++
			}
		}
		emit("load")
		ops++
		base += nthreads
	}
}

type pending struct {
	ctl bool
	c   uint64
}

func newExec(t *testing.T) func([]string) string {
	l := slog.New(slog.NewTextHandler(io.Discard, nil))
	var cs *nebula.ConnectionState
	var rec *recAEAD
	var gate *gateCS
	var sender *nebula.VerifCounterSender
	var chacha, lockMode bool
	nonceOf := func(n12 [12]byte) uint64 {
		if chacha {
			return binary.LittleEndian.Uint64(n12[4:])
		}
		return binary.BigEndian.Uint64(n12[4:])
	}
	pend := map[int]pending{}
	nb := make([]byte, 12)
	key := make([]byte, 32)
	for i := range key {
		key[i] = byte(i*7 + 1)
	}
	// nonce as the cipher saw it
	sealed := func(before int) string {
		if rec.seals != before+1 || len(rec.last) != 12 {
			return fmt.Sprintf("sealed-but-aead-calls=%d", rec.seals-before)
		}
		if rec.last[0]|rec.last[1]|rec.last[2]|rec.last[3] != 0 {
			return "sealed-nonce-prefix-nonzero"
		}
		if chacha {
			return fmt.Sprintf("sealed %d", binary.LittleEndian.Uint64(rec.last[4:]))
		}
		return fmt.Sprintf("sealed %d", binary.BigEndian.Uint64(rec.last[4:]))
	}
	encrypt := func(c uint64) string {
		before := rec.seals
		hdr := header.Encode(make([]byte, header.Len, 128), header.Version, header.Message, 0, 7, c)
		out, err := nebula.VerifCounterEncrypt(cs, hdr, hdr, []byte("payload"), c, nb)
		if err != nil {
			if rec.seals != before {
				return "refused-after-seal"
			}
			if err == noiseutil.ErrMessageCounterExhausted {
				return "refused"
			}
			return "err:" + err.Error()
		}
		_ = out
		return sealed(before)
	}
	return func(a []string) string {
		if a[0] == "callsites" {
			return callSites()
		}
		if a[0] == "reset" {
			c0 := hlib.Atou(a[1])
			lockMode = a[2] == "1"
			noiseutil.EncryptLockNeeded = lockMode
			chacha = a[3] == "chacha"
			var inner cipher.AEAD
			if chacha {
				inner, _ = chacha20poly1305.New(key)
			} else {
				blk, _ := aes.NewCipher(key)
				inner, _ = cipher.NewGCM(blk)
			}
			rec = &recAEAD{inner: inner}
			var ek noiseutil.CipherState
			if chacha {
				ek = noiseutil.VerifNewChaChaPoly(rec)
			} else {
				ek = noiseutil.VerifNewAESGCM(rec)
			}
			gate = &gateCS{inner: ek}
			cs = nebula.VerifCounterNewCS(gate, c0)
			sender = nebula.VerifCounterNewSender(l, cs, 7)
			pend = map[int]pending{}
			return "ok"
		}
		if cs == nil {
			return "bad-op"
		}
		if a[0] == "load" {
			return fmt.Sprint(nebula.VerifCounterLoad(cs))
		}
		th := hlib.Atoi(a[1])
		p, busy := pend[th]
		switch a[0] {
		case "add", "ctladd":
			if busy {
				return "skip"
			}
			c := nebula.VerifCounterAdd(cs)
			pend[th] = pending{ctl: a[0] == "ctladd", c: c}
			return fmt.Sprint(c)
		case "next":
			if busy {
				return "skip"
			}
			c, ok := cs.NextMessageCounter()
			if ok {
				pend[th] = pending{ctl: true, c: c}
			}
			return fmt.Sprintf("%d %s", c, hlib.B(ok))
		case "fin":
			if !busy {
				return "skip"
			}
			delete(pend, th)
			if p.ctl && p.c >= reject {
				// the second half of NextMessageCounter for a thread that did its Add through `ctladd`
				nebula.VerifCounterStore(cs, reject)
				return "pinned"
			}
			return encrypt(p.c)
		case "lockrace":
			// Sender B is held inside EncryptDanger (inside the critical section in lock mode) while sender
			// A starts a send on the same tunnel; B then finishes and at once sends its next packet. With
			// the counter reserved inside the critical section the cipher sees increasing counters whoever
			// wins the lock; the answer is therefore deterministic.
			if busy {
				return "skip"
			}
			rounds := hlib.Atoi(a[2])
			pat := "hhh"
			if len(a) > 3 && len(a[3]) == 3 {
				pat = a[3]
			}
			rec.mu.Lock()
			start := len(rec.seq)
			rec.mu.Unlock()
			// the three real send paths that reserve a counter: h = sendInsideEncrypt (data),
			// v = prepareSendVia (relay), c = sendNoMetrics (control / test / lighthouse)
			send := func(kind byte, payload, nb []byte) {
				switch kind {
				case 'v':
					sender.PrepareSendVia(payload, nb, make([]byte, 0, 256))
				case 'c':
					sender.SendNoMetrics(payload, nb, make([]byte, 0, 256))
				default:
					sender.SendInsideEncrypt(payload, make([]byte, 0, 256), nb)
				}
			}
			segA, nbA := []byte("payload of sender A"), make([]byte, 12)
			segB, nbB := []byte("payload of sender B"), make([]byte, 12)
			for r := 0; r < rounds; r++ {
				base := nebula.VerifCounterLoad(cs)
				aDone := make(chan struct{})
				fired := false
				hook := func(n uint64) {
					if n != base+1 || fired {
						return
					}
					fired = true
					go func() {
						defer close(aDone)
						send(pat[1], segA, nbA)
					}()
					// let A get as far as it can while B is still inside EncryptDanger
					deadline := time.Now().Add(8 * time.Millisecond)
					for nebula.VerifCounterLoad(cs) == base+1 && time.Now().Before(deadline) {
						time.Sleep(50 * time.Microsecond)
					}
					time.Sleep(300 * time.Microsecond)
				}
				gate.hook.Store(&hook)
				send(pat[0], segB, nbB)
				if !fired {
					// B never reached the cipher (NextMessageCounter refused): A simply goes next
					fired = true
					send(pat[1], segA, nbA)
					close(aDone)
				}
				send(pat[2], segB, nbB)
				select {
				case <-aDone:
				case <-time.After(5 * time.Second):
					return "hang"
				}
				gate.hook.Store(nil)
			}
			rec.mu.Lock()
			seq := append([][12]byte(nil), rec.seq[start:]...)
			rec.mu.Unlock()
			if lockMode {
				for i := 1; i < len(seq); i++ {
					if nonceOf(seq[i]) <= nonceOf(seq[i-1]) {
						return fmt.Sprintf("disorder %d reached the cipher after %d", nonceOf(seq[i]), nonceOf(seq[i-1]))
					}
				}
			}
			return fmt.Sprintf("ok sealed=%d ctr=%d", len(seq), nebula.VerifCounterLoad(cs))
		case "hotsend":
			if busy {
				return "skip"
			}
			before := rec.seals
			out := nebula.VerifCounterSendInsideEncrypt(l, cs, 7, []byte("segment"), make([]byte, 0, 128), nb)
			if out == nil {
				if rec.seals != before {
					return "refused-after-seal"
				}
				return "refused"
			}
			// the counter in the header must be the nonce
			var h header.H
			if err := h.Parse(out); err != nil {
				return "hotsend-bad-header"
			}
			s := sealed(before)
			if s != fmt.Sprintf("sealed %d", h.MessageCounter) {
				return s + " header-counter=" + fmt.Sprint(h.MessageCounter)
			}
			return s
		}
		return "bad-op"
	}
}

func TestEngine(t *testing.T) {
	hlib.Run(t, hlib.Engine{Name: "counter", Gen: gen, NewExec: newExec})
}
