// Engine `counter` (C13): the send-side message counter of a real nebula.ConnectionState
// (NextMessageCounter, the hot path's Add(1), sendInsideEncrypt) and the ceiling check of the real
// noiseutil cipher states, with the nonce observed where it reaches the AEAD.
package counter

import (
	"crypto/aes"
	"crypto/cipher"
	"encoding/binary"
	"fmt"
	"io"
	"log/slog"
	"testing"

	"github.com/slackhq/nebula"
	"github.com/slackhq/nebula/header"
	"github.com/slackhq/nebula/noiseutil"
	"golang.org/x/crypto/chacha20poly1305"
	"verifharness/hlib"
)

const reject = noiseutil.RejectAfterMessages

// recAEAD records the nonce of every Seal.
type recAEAD struct {
	inner cipher.AEAD
	last  []byte
	seals int
}

func (a *recAEAD) NonceSize() int { return a.inner.NonceSize() }
func (a *recAEAD) Overhead() int  { return a.inner.Overhead() }
func (a *recAEAD) Seal(dst, nonce, plaintext, ad []byte) []byte {
	a.last = append(a.last[:0], nonce...)
	a.seals++
	return a.inner.Seal(dst, nonce, plaintext, ad)
}
func (a *recAEAD) Open(dst, nonce, ciphertext, ad []byte) ([]byte, error) {
	return a.inner.Open(dst, nonce, ciphertext, ad)
}

func gen(r *hlib.Rand, n int, tier, profile string, emit func(string, ...any)) {
	ops := 0
	base := 0 // thread ids are never reused across cases (they are arbitrary naturals)
	for ops < n {
		lock := r.Chance(1, 3)
		var c0 uint64
		switch r.Intn(10) {
		case 0:
			c0 = uint64(r.Intn(5)) // fresh tunnel: handshake value
		case 1:
			c0 = r.U64() % reject
		case 2:
			c0 = uint64(nebula.RehandshakeAfterMessages) - uint64(r.Intn(4))
		case 3:
			c0 = reject + uint64(r.Intn(4)) // already exhausted, a few refused sends in
		default:
			c0 = reject - uint64(r.Intn(12)) // just below the ceiling
		}
		emit("reset %d %s %s", c0, hlib.B(lock), hlib.Pick(r, "aes", "chacha"))
		ops++
		nthreads := r.Range(1, 6)
		busy := map[int]bool{}
		steps := r.Range(4, 40)
		for k := 0; k < steps; k++ {
			t := base + r.Intn(nthreads)
			if lock {
				// every send is one critical section
				switch r.Intn(4) {
				case 0:
					emit("hotsend %d", t)
					ops++
				case 1:
					emit("add %d", t)
					emit("fin %d", t)
					ops += 2
				case 2:
					emit("next %d", t)
					emit("fin %d", t)
					ops += 2
				case 3:
					emit("ctladd %d", t)
					emit("fin %d", t)
					ops += 2
				}
				continue
			}
			if busy[t] {
				if r.Chance(3, 4) {
					emit("fin %d", t)
					busy[t] = false
				} else {
					emit("%s %d", hlib.Pick(r, "add", "next", "hotsend"), t) // out of program order: skipped
				}
				ops++
				continue
			}
			switch r.Intn(5) {
			case 0:
				emit("hotsend %d", t)
			case 1:
				emit("add %d", t)
				busy[t] = true
			case 2:
				emit("next %d", t)
				busy[t] = true
			case 3:
				emit("ctladd %d", t)
				busy[t] = true
			case 4:
				if r.Bool() {
					emit("load")
				} else {
					emit("fin %d", t) // nothing reserved: skipped
				}
			}
			ops++
		}
		// drain
		for t := base; t < base+nthreads; t++ {
			if busy[t] || r.Chance(1, 4) {
				emit("fin %d", t)
				ops++
			}
		}
		emit("load")
		ops++
		base += nthreads
	}
}

type pending struct {
	ctl bool
	c   uint64
}

func newExec(t *testing.T) func([]string) string {
	l := slog.New(slog.NewTextHandler(io.Discard, nil))
	var cs *nebula.ConnectionState
	var rec *recAEAD
	var chacha bool
	pend := map[int]pending{}
	nb := make([]byte, 12)
	key := make([]byte, 32)
	for i := range key {
		key[i] = byte(i*7 + 1)
	}
	// nonce as the cipher saw it
	sealed := func(before int) string {
		if rec.seals != before+1 || len(rec.last) != 12 {
			return fmt.Sprintf("sealed-but-aead-calls=%d", rec.seals-before)
		}
		if rec.last[0]|rec.last[1]|rec.last[2]|rec.last[3] != 0 {
			return "sealed-nonce-prefix-nonzero"
		}
		if chacha {
			return fmt.Sprintf("sealed %d", binary.LittleEndian.Uint64(rec.last[4:]))
		}
		return fmt.Sprintf("sealed %d", binary.BigEndian.Uint64(rec.last[4:]))
	}
	encrypt := func(c uint64) string {
		before := rec.seals
		hdr := header.Encode(make([]byte, header.Len, 128), header.Version, header.Message, 0, 7, c)
		out, err := nebula.VerifCounterEncrypt(cs, hdr, hdr, []byte("payload"), c, nb)
		if err != nil {
			if rec.seals != before {
				return "refused-after-seal"
			}
			if err == noiseutil.ErrMessageCounterExhausted {
				return "refused"
			}
			return "err:" + err.Error()
		}
		_ = out
		return sealed(before)
	}
	return func(a []string) string {
		if a[0] == "reset" {
			c0 := hlib.Atou(a[1])
			noiseutil.EncryptLockNeeded = a[2] == "1"
			chacha = a[3] == "chacha"
			var inner cipher.AEAD
			if chacha {
				inner, _ = chacha20poly1305.New(key)
			} else {
				blk, _ := aes.NewCipher(key)
				inner, _ = cipher.NewGCM(blk)
			}
			rec = &recAEAD{inner: inner}
			var ek noiseutil.CipherState
			if chacha {
				ek = noiseutil.VerifNewChaChaPoly(rec)
			} else {
				ek = noiseutil.VerifNewAESGCM(rec)
			}
			cs = nebula.VerifCounterNewCS(ek, c0)
			pend = map[int]pending{}
			return "ok"
		}
		if cs == nil {
			return "bad-op"
		}
		if a[0] == "load" {
			return fmt.Sprint(nebula.VerifCounterLoad(cs))
		}
		th := hlib.Atoi(a[1])
		p, busy := pend[th]
		switch a[0] {
		case "add", "ctladd":
			if busy {
				return "skip"
			}
			c := nebula.VerifCounterAdd(cs)
			pend[th] = pending{ctl: a[0] == "ctladd", c: c}
			return fmt.Sprint(c)
		case "next":
			if busy {
				return "skip"
			}
			c, ok := cs.NextMessageCounter()
			if ok {
				pend[th] = pending{ctl: true, c: c}
			}
			return fmt.Sprintf("%d %s", c, hlib.B(ok))
		case "fin":
			if !busy {
				return "skip"
			}
			delete(pend, th)
			if p.ctl && p.c >= reject {
				// the second half of NextMessageCounter for a thread that did its Add through `ctladd`
				nebula.VerifCounterStore(cs, reject)
				return "pinned"
			}
			return encrypt(p.c)
		case "hotsend":
			if busy {
				return "skip"
			}
			before := rec.seals
			out := nebula.VerifCounterSendInsideEncrypt(l, cs, 7, []byte("segment"), make([]byte, 0, 128), nb)
			if out == nil {
				if rec.seals != before {
					return "refused-after-seal"
				}
				return "refused"
			}
			// the counter in the header must be the nonce
			var h header.H
			if err := h.Parse(out); err != nil {
				return "hotsend-bad-header"
			}
			s := sealed(before)
			if s != fmt.Sprintf("sealed %d", h.MessageCounter) {
				return s + " header-counter=" + fmt.Sprint(h.MessageCounter)
			}
			return s
		}
		return "bad-op"
	}
}

func TestEngine(t *testing.T) {
	hlib.Run(t, hlib.Engine{Name: "counter", Gen: gen, NewExec: newExec})
}
