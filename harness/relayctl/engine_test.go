// Engine `relayctl` (C39): relay control messages, tunnel churn, config reload and the forwarding
// decision, on a cluster of real in-process nodes (package relaynet).
package relayctl

import (
	"crypto/rand"
	"fmt"
	"io"
	"net/netip"
	"sort"
	"strings"
	"testing"

	"github.com/slackhq/nebula"
	"github.com/slackhq/nebula/cert"
	"github.com/slackhq/nebula/header"
	"verifharness/hlib"
	"verifharness/relaynet"
)

// ---------------------------------------------------------------- executor

type exec struct {
	net    *relaynet.Net
	outbox []relaynet.Wire // queued Control datagrams
	vias   []string        // relay frames emitted during the last collect (`v:<node>:<outer index>`)
}

func dump(nd *relaynet.Node) string {
	st := nd.State()
	var sb strings.Builder
	fmt.Fprintf(&sb, "a:%s", hlib.B(st.AmRelay))
	for _, h := range st.Hosts {
		addrs := make([]string, len(h.VpnAddrs))
		for i, a := range h.VpnAddrs {
			addrs[i] = hlib.AddrHex(a)
		}
		fmt.Fprintf(&sb, " h:%d:%d:%s:%s:%s", h.LocalIndex, h.RemoteIndex, hlib.B(h.Remote.IsValid()), strings.Join(addrs, ","), hlib.B(h.RelayForByAddrOK))
		for _, r := range h.RelayFor {
			fmt.Fprintf(&sb, " r:%d:%d:%d:%d:%s", r.LocalIndex, r.Type, r.State, r.RemoteIndex, hlib.AddrHex(r.PeerAddr))
		}
	}
	idxs := make([]uint32, 0, len(st.RelaysMap))
	for i := range st.RelaysMap {
		idxs = append(idxs, i)
	}
	sort.Slice(idxs, func(i, j int) bool { return idxs[i] < idxs[j] })
	for _, i := range idxs {
		fmt.Fprintf(&sb, " m:%d:%d", i, st.RelaysMap[i])
	}
	for _, i := range st.RelayUsed {
		fmt.Fprintf(&sb, " u:%d", i)
	}
	return sb.String()
}

// collect moves what node i emitted during the last injection out of the wire queue: Control datagrams
// are queued in the outbox; the returned tokens name them (`s:<node>`), forwarded relay datagrams
// (`f:<node>:<idx>`) and newly pending handshakes (`hs:<addr>`).
func (e *exec) collect(i int, pendingBefore []string) (outs []string, fwd string) {
	var vias []string
	defer func() { e.vias = vias }()
	fwd = "none"
	for _, w := range e.net.Take() {
		var h header.H
		if err := h.Parse(w.Data); err != nil {
			continue
		}
		d := e.net.NodeIndexByUdp(w.To)
		switch {
		case h.Type == header.Control:
			e.outbox = append(e.outbox, w)
			outs = append(outs, fmt.Sprintf("s:%d", d))
		case h.Type == header.Message && h.Subtype == header.MessageRelay:
			fwd = fmt.Sprintf("fwd %d %d", d, h.RemoteIndex)
			vias = append(vias, fmt.Sprintf("v:%d:%d", d, h.RemoteIndex))
		}
	}
	before := map[string]bool{}
	for _, p := range pendingBefore {
		before[p] = true
	}
	for _, p := range e.net.Nodes[i].State().Pending {
		if !before[p] {
			outs = append(outs, "hs:"+hlib.AddrHex(netip.MustParseAddr(p)))
		}
	}
	return outs, fwd
}

// relaysDump is hm.Relays by pointer: `x:<index>:<owner local index>:<owner in hostmap>:<index in owner's relay state>`.
func relaysDump(nd *relaynet.Node) string {
	var t []string
	for _, x := range nd.RelayIndexes() {
		t = append(t, fmt.Sprintf("x:%d:%d:%s:%s", x.Index, x.Owner, hlib.B(x.OwnerLive), hlib.B(x.InOwnerState)))
	}
	if len(t) == 0 {
		return "-"
	}
	return strings.Join(t, " ")
}

// killReader lands a teardown at the next 4-byte read (AddRelay's index draw, made right after it took the
// hostmap lock): the state AddRelay then sees is the one of a teardown that completed between the caller's
// hostinfo lookup and AddRelay's Lock().
type killReader struct {
	inner io.Reader
	fire  func()
	fired bool
}

func (k *killReader) Read(p []byte) (int, error) {
	if len(p) == 4 && !k.fired {
		k.fired = true
		k.fire()
	}
	return k.inner.Read(p)
}

func optAddr(s string) *nebula.Addr {
	if s == "nil" {
		return nil
	}
	a := hlib.ParseAddrHex(s)
	if a.Is4() {
		// netAddrToProtoAddr(As16): the 4-in-6 form
		return nebula.VerifProtoAddr(a)
	}
	return nebula.VerifProtoAddr(a)
}

func joinOuts(d string, outs []string) string {
	s := d + " |"
	for _, o := range outs {
		s += " " + o
	}
	return s
}

func newExec(t *testing.T) func([]string) string {
	e := &exec{}
	return func(a []string) string {
		if a[0] != "reset" && e.net == nil {
			return "bad-op"
		}
		node := func(s string) (int, *relaynet.Node) {
			i := hlib.Atoi(s)
			if i < 0 || i >= len(e.net.Nodes) {
				panic("harness: bad node " + s)
			}
			return i, e.net.Nodes[i]
		}
		switch a[0] {
		case "reset":
			if e.net != nil {
				e.net.Close()
			}
			base, n, mask := uint32(hlib.Atou(a[1])), hlib.Atoi(a[2]), hlib.Atoi(a[3])
			specs := make([]relaynet.NodeSpec, n)
			for i := range specs {
				specs[i] = relaynet.NodeSpec{AmRelay: mask>>uint(i)&1 == 1, UseRelays: true, SendRecvError: "never", AcceptRecvError: "never"}
			}
			net, err := relaynet.New(uint64(base), cert.Version2, base, specs)
			if err != nil {
				panic(err)
			}
			e.net, e.outbox = net, nil
			return "ok"
		case "hs":
			ia, A := node(a[1])
			ib, _ := node(a[2])
			if ia == ib {
				return "self"
			}
			_ = A
			x, y := e.net.Handshake(ia, ib)
			e.net.Take()
			return fmt.Sprintf("%d %d", x, y)
		case "ctl":
			_, A := node(a[1])
			ib, B := node(a[2])
			m := nebula.NebulaControl{
				Type:                nebula.NebulaControl_MessageType(hlib.Atoi(a[3])),
				InitiatorRelayIndex: uint32(hlib.Atou(a[4])),
				ResponderRelayIndex: uint32(hlib.Atou(a[5])),
				OldRelayFromAddr:    uint32(hlib.Atou(a[6])),
				OldRelayToAddr:      uint32(hlib.Atou(a[7])),
				RelayFromAddr:       optAddr(a[8]),
				RelayToAddr:         optAddr(a[9]),
			}
			b, err := m.Marshal()
			if err != nil {
				panic(err)
			}
			idx := A.PrimaryIndex(B.Vpn)
			if idx == 0 || !hostRemoteValid(A, idx) {
				return "no-tunnel"
			}
			pend := B.State().Pending
			A.SendMessageToIndex(header.Control, 0, idx, b)
			e.net.Pump(1)
			outs, _ := e.collect(ib, pend)
			return joinOuts(dump(B), outs)
		case "deliver":
			if len(e.outbox) == 0 {
				return "empty"
			}
			var w relaynet.Wire
			if a[1] == "0" {
				w, e.outbox = e.outbox[0], e.outbox[1:]
			} else {
				w, e.outbox = e.outbox[len(e.outbox)-1], e.outbox[:len(e.outbox)-1]
			}
			d := e.net.NodeIndexByUdp(w.To)
			D := e.net.Nodes[d]
			pend := D.State().Pending
			e.net.Deliver(w)
			outs, _ := e.collect(d, pend)
			return fmt.Sprintf("%d ", d) + joinOuts(dump(D), outs)
		case "drop":
			if len(e.outbox) == 0 {
				return "empty"
			}
			if a[1] == "0" {
				e.outbox = e.outbox[1:]
			} else {
				e.outbox = e.outbox[:len(e.outbox)-1]
			}
			return "dropped"
		case "down":
			_, A := node(a[1])
			_, B := node(a[2])
			idx := A.PrimaryIndex(B.Vpn)
			if idx == 0 {
				return "no-tunnel"
			}
			A.CloseTunnelLocal(idx)
			e.net.Take()
			return dump(A)
		case "reload":
			i, R := node(a[1])
			s := e.net.Specs[i]
			s.AmRelay = a[2] == "1"
			if err := e.net.Reload(i, s); err != nil {
				panic(err)
			}
			return dump(R)
		case "remote":
			_, A := node(a[1])
			_, B := node(a[2])
			idx := A.PrimaryIndex(B.Vpn)
			if idx == 0 {
				return "no-tunnel"
			}
			A.ClearRemote(idx)
			return dump(A)
		case "start":
			// start <a> <t> <r>[,<r>…]: a's outbound handshake attempt towards t runs StartRelays with these relays
			ia, A := node(a[1])
			_, T := node(a[2])
			var relays []netip.Addr
			for _, x := range strings.Split(a[3], ",") {
				_, R := node(x)
				relays = append(relays, R.Vpn)
			}
			pend := A.State().Pending
			e.net.Take()
			A.StartRelays(T.Vpn, relays, []byte{0xff, 0xff, 0xff, 0xff})
			outs, _ := e.collect(ia, pend)
			return joinOuts(dump(A), append(outs, e.vias...))
		case "migrate":
			// migrate <a> <b>: a's connection manager migrates the used relays of its second-newest
			// hostinfo for b to the primary one (doTrafficCheck, decision migrateRelays)
			ia, A := node(a[1])
			_, B := node(a[2])
			idxs := A.HostIndexes(B.Vpn)
			if len(idxs) < 2 {
				return "no-old-tunnel"
			}
			if migratable(A, idxs[1], idxs[0]) > 1 {
				return "skipped-multi" // Go map iteration order would decide the index allocation order
			}
			pend := A.State().Pending
			e.net.Take()
			A.MigrateRelayUsed(idxs[1], idxs[0])
			outs, _ := e.collect(ia, pend)
			return joinOuts(dump(A), append(outs, e.vias...))
		case "relaysdump":
			_, A := node(a[1])
			return relaysDump(A)
		case "batchclose":
			// a sends CloseTunnel, then the control message, on its primary tunnel to b; b receives both in one
			// receive batch (one rxContext, cache cleared at the end only)
			_, A := node(a[1])
			ib, B := node(a[2])
			m := nebula.NebulaControl{
				Type:                nebula.NebulaControl_MessageType(hlib.Atoi(a[3])),
				InitiatorRelayIndex: uint32(hlib.Atou(a[4])),
				ResponderRelayIndex: uint32(hlib.Atou(a[5])),
				OldRelayFromAddr:    uint32(hlib.Atou(a[6])),
				OldRelayToAddr:      uint32(hlib.Atou(a[7])),
				RelayFromAddr:       optAddr(a[8]),
				RelayToAddr:         optAddr(a[9]),
			}
			b, err := m.Marshal()
			if err != nil {
				panic(err)
			}
			idx := A.PrimaryIndex(B.Vpn)
			if idx == 0 || !hostRemoteValid(A, idx) {
				return "no-tunnel"
			}
			pend := B.State().Pending
			e.net.Take()
			A.SendCloseTunnel(idx)
			A.SendMessageToIndex(header.Control, 0, idx, b)
			var from []netip.AddrPort
			var pkts [][]byte
			for _, w := range e.net.Take() {
				if w.To == B.Udp {
					from = append(from, w.From)
					pkts = append(pkts, w.Data)
				}
			}
			if len(pkts) != 2 {
				panic(fmt.Sprintf("harness: batchclose expected 2 datagrams, got %d", len(pkts)))
			}
			B.InjectBatch(from, pkts)
			outs, _ := e.collect(ib, pend)
			return joinOuts(dump(B), outs) + " | " + relaysDump(B)
		case "smigrate":
			ia, A := node(a[1])
			_, B := node(a[2])
			w := hlib.Atoi(a[3])
			idxs := A.HostIndexes(B.Vpn)
			if len(idxs) < 2 {
				return "no-old-tunnel"
			}
			if migratable(A, idxs[1], idxs[0]) > 1 {
				return "skipped-multi"
			}
			pend := A.State().Pending
			e.net.Take()
			A.MigrateRelayUsedStale(idxs[1], idxs[0], w == 1 || w == 2, w == 0 || w == 2)
			outs, _ := e.collect(ia, pend)
			return joinOuts(dump(A), append(outs, e.vias...)) + " | " + relaysDump(A)
		case "sstart":
			ia, A := node(a[1])
			_, T := node(a[2])
			_, R := node(a[3])
			pend := A.State().Pending
			e.net.Take()
			victim := A.PrimaryIndex(R.Vpn)
			inner := rand.Reader
			k := &killReader{inner: inner, fire: func() { A.UnlockedDeleteIndex(victim) }}
			if victim != 0 {
				rand.Reader = k
			}
			func() {
				defer func() { rand.Reader = inner }()
				A.StartRelays(T.Vpn, []netip.Addr{R.Vpn}, []byte{0xff, 0xff, 0xff, 0xff})
			}()
			outs, _ := e.collect(ia, pend)
			return joinOuts(dump(A), append(outs, e.vias...)) + " | " + relaysDump(A) + " | fired:" + hlib.B(k.fired)
		case "fwd":
			_, S := node(a[1])
			ir, R := node(a[2])
			idx := S.PrimaryIndex(R.Vpn)
			if idx == 0 || !hostRemoteValid(S, idx) {
				return "no-tunnel"
			}
			S.SendViaRaw(idx, uint32(hlib.Atou(a[3])), []byte{0xff, 0xff, 0xff, 0xff})
			e.net.Pump(1)
			_, fwd := e.collect(ir, R.State().Pending)
			return fwd
		}
		return "bad-op"
	}
}

// migratable counts the records of the old hostinfo for which migrateRelayUsed would act (send a request).
func migratable(n *relaynet.Node, oldIdx, newIdx uint32) int {
	st := n.State()
	used := map[uint32]bool{}
	for _, u := range st.RelayUsed {
		used[u] = true
	}
	var o, p *nebula.VerifHostInfo
	for i := range st.Hosts {
		if st.Hosts[i].LocalIndex == oldIdx {
			o = &st.Hosts[i]
		}
		if st.Hosts[i].LocalIndex == newIdx {
			p = &st.Hosts[i]
		}
	}
	if o == nil || p == nil {
		return 0
	}
	k := 0
	for _, r := range o.RelayFor {
		if r.Type == 1 && !st.AmRelay {
			continue // Forwarding relays are not migrated once am_relay is off
		}
		var ex *nebula.VerifRelayRec
		for j := range p.RelayFor {
			if p.RelayFor[j].PeerAddr == r.PeerAddr {
				ex = &p.RelayFor[j]
			}
		}
		if ex != nil {
			if ex.State == 0 { // Requested
				k++
			}
		} else if used[r.LocalIndex] {
			k++
		}
	}
	return k
}

func hostRemoteValid(n *relaynet.Node, idx uint32) bool {
	for _, h := range n.State().Hosts {
		if h.LocalIndex == idx {
			return h.Remote.IsValid()
		}
	}
	return false
}

// ---------------------------------------------------------------- generator

func addrTok(r *hlib.Rand, n int) string {
	switch r.Intn(12) {
	case 0:
		return "nil"
	case 1:
		return "00000000"
	case 2:
		return hlib.AddrHex(netip.MustParseAddr("fd00::1"))
	case 3:
		// 4-in-6 form of a node address
		return "00000000000000000000ffff0a0000" + fmt.Sprintf("%02x", 1+r.Intn(n))
	case 4:
		return "0a0000" + fmt.Sprintf("%02x", 1+r.Intn(8))
	}
	return "0a0000" + fmt.Sprintf("%02x", 1+r.Intn(n))
}

func v4num(r *hlib.Rand, n int) uint32 {
	if r.Chance(1, 10) {
		return 0
	}
	return 0x0a000001 + uint32(r.Intn(n+1))
}

// stalePreamble: the three stale-pointer witnesses (a hostinfo that is no longer in the hostmap handed to
// an entry point that allocates a relay index), each followed by a new tunnel and a fresh relay on it.
var stalePreamble = []string{
	// 1. CloseTunnel -> CreateRelayRequest in one receive batch, endpoint role (target is me, AddRelay(h stale))
	"reset 100 3 2", "hs 0 1", "hs 1 2",
	"batchclose 1 2 1 500 0 0 0 0a000001 0a000003", "relaysdump 2",
	"hs 1 2", "ctl 1 2 1 501 0 0 0 0a000001 0a000003", "relaysdump 2", "down 2 1", "relaysdump 2",
	// 1b. relay role: the forwarding branch registers on the live target, then AddRelay(h stale) for the requester
	"reset 100 3 2", "hs 0 1", "hs 1 2",
	"batchclose 0 1 1 500 0 0 0 0a000001 0a000003", "relaysdump 1", "deliver 0", "deliver 0",
	"hs 0 1", "ctl 0 1 1 500 0 0 0 0a000001 0a000003", "relaysdump 1", "deliver 0", "deliver 0", "deliver 0",
	// 1c. an existing record on the dead hostinfo: it is answered from the dead object, nothing is registered
	"reset 100 3 2", "hs 0 1", "hs 1 2", "ctl 1 2 1 500 0 0 0 0a000001 0a000003",
	"batchclose 1 2 1 500 0 0 0 0a000001 0a000003", "relaysdump 2", "deliver 0", "deliver 0",
	// 2. migrateRelayUsed(old, new) with new torn down (0), old torn down (1), both (2)
	"reset 100 3 2", "hs 0 1", "hs 1 2", "ctl 0 1 1 500 0 0 0 0a000001 0a000003", "deliver 0", "deliver 0", "deliver 0",
	"fwd 0 1 105", "fwd 0 1 106", "fwd 0 1 107", "hs 0 1", "smigrate 1 0 0", "relaysdump 1",
	"hs 0 1", "migrate 1 0", "relaysdump 1",
	"reset 100 3 2", "hs 0 1", "hs 1 2", "ctl 0 1 1 500 0 0 0 0a000001 0a000003", "deliver 0", "deliver 0", "deliver 0",
	"fwd 0 1 105", "fwd 0 1 106", "fwd 0 1 107", "hs 0 1", "smigrate 1 0 1", "relaysdump 1", "down 1 0", "relaysdump 1",
	"reset 100 3 2", "hs 0 1", "hs 1 2", "ctl 0 1 1 500 0 0 0 0a000001 0a000003", "deliver 0", "deliver 0", "deliver 0",
	"fwd 0 1 105", "fwd 0 1 106", "fwd 0 1 107", "hs 0 1", "smigrate 1 0 2", "relaysdump 1",
	// 3. StartRelays: the relay's tunnel torn down between QueryVpnAddr and AddRelay
	"reset 100 3 2", "hs 0 1", "hs 1 2", "sstart 0 2 1", "relaysdump 0", "hs 0 1", "start 0 2 1", "relaysdump 0",
	"deliver 0", "deliver 0", "deliver 0", "sstart 0 2 1",
}

func gen(r *hlib.Rand, n int, tier, profile string, emit func(string, ...any)) {
	ops := 0
	for _, l := range stalePreamble {
		emit("%s", l)
		ops++
	}
	for ops < n {
		nn := hlib.Pick(r, 3, 3, 3, 4, 4, 5)
		base := uint32(hlib.Pick(r, 100, 100, 1000, 65000, 4000000000))
		mask := 1 << 1 // node 1 is the relay by default
		if r.Chance(1, 5) {
			mask = r.Intn(1 << nn)
		}
		emit("reset %d %d %d", base, nn, mask)
		ops++
		// generator-side bookkeeping only steers the choice of ops (it is never trusted by the executor)
		var tun [5][5]bool
		alloc := uint32(0)
		em := func(f string, a ...any) { emit(f, a...); ops++ }
		hs := func(a, b int) {
			em("hs %d %d", a, b)
			if a != b {
				tun[a][b], tun[b][a] = true, true
				alloc += 2
			}
		}
		idxGuess := func() uint32 { return base + 1 + uint32(r.Intn(int(alloc)+2)) }
		node := func(i int) string { return fmt.Sprintf("0a0000%02x", i+1) }
		peerOf := func(a int) int {
			var c []int
			for b := 0; b < nn; b++ {
				if tun[a][b] {
					c = append(c, b)
				}
			}
			if len(c) == 0 || r.Chance(1, 12) {
				return r.Intn(nn)
			}
			return c[r.Intn(len(c))]
		}
		for i := 0; i < nn; i++ {
			if i != 1 && r.Chance(5, 6) {
				if r.Bool() {
					hs(i, 1)
				} else {
					hs(1, i)
				}
			}
		}
		steps := r.Range(10, 45)
		for k := 0; k < steps; k++ {
			a := r.Intn(nn)
			b := peerOf(a)
			// initiator side, relay migration and hostinfo churn
			if y := r.Intn(100); y < 14 {
				switch {
				case y < 6:
					// a starts relays towards t through b (and sometimes a second relay / itself / the target)
					t := r.Intn(nn)
					rl := fmt.Sprintf("%d", b)
					if r.Chance(1, 4) {
						rl += fmt.Sprintf(",%d", r.Intn(nn))
					}
					em("start %d %d %s", a, t, rl)
					alloc++
					if r.Chance(2, 3) {
						for d := r.Intn(4); d > 0; d-- {
							em("deliver 0")
							alloc++
						}
						em("start %d %d %s", a, t, rl)
					}
				case y < 10:
					// use the relays, re-handshake, then migrate the used ones to the new primary hostinfo
					g := idxGuess()
					for d := r.Range(3, 8); d > 0; d-- {
						em("fwd %d %d %d", a, b, g)
						g++
					}
					hs(a, b)
					if r.Chance(1, 3) {
						em("reload %d %d", b, r.Intn(2))
					}
					em("migrate %d %d", b, a)
					em("migrate %d %d", a, b)
				case y < 12:
					// more than MaxHostInfosPerVpnIp hostinfos for one peer: the oldest is retired
					for d := r.Range(4, 7); d > 0; d-- {
						if r.Bool() {
							hs(a, b)
						} else {
							hs(b, a)
						}
					}
				default:
					g := idxGuess()
					for d := r.Range(2, 6); d > 0; d-- {
						em("fwd %d %d %d", a, b, g)
						g++
					}
					em("migrate %d %d", b, a)
				}
				continue
			}
			// stale hostinfo pointers handed to the entry points that allocate a relay index
			if y := r.Intn(100); y < 13 {
				switch {
				case y < 6:
					// CloseTunnel + CreateRelayRequest in one batch: endpoint role (target = receiver), relay role
					// (target = a third node), lying / malformed variants; sometimes a response instead
					from := node(a)
					if r.Chance(1, 2) {
						from = node(r.Intn(nn))
					}
					to := node(b)
					if r.Chance(1, 2) {
						to = node(r.Intn(nn))
					}
					if r.Chance(1, 10) {
						to = addrTok(r, nn)
					}
					if r.Chance(1, 4) {
						// negotiate first so that the dead hostinfo already holds a record
						em("ctl %d %d 1 %d 0 0 0 %s %s", a, b, idxGuess(), from, to)
						alloc += 2
					}
					if r.Chance(1, 8) {
						em("batchclose %d %d 2 %d %d 0 0 %s %s", a, b, idxGuess(), idxGuess(), from, to)
					} else {
						em("batchclose %d %d 1 %d 0 0 0 %s %s", a, b, idxGuess(), from, to)
					}
					alloc += 2
					tun[b][a] = false
				case y < 10:
					// used relays, re-handshake, then migration racing the teardown of new / old / both
					g := idxGuess()
					for d := r.Range(3, 8); d > 0; d-- {
						em("fwd %d %d %d", a, b, g)
						g++
					}
					hs(a, b)
					em("smigrate %d %d %d", b, a, r.Intn(3))
					alloc++
					if r.Bool() {
						em("smigrate %d %d %d", a, b, r.Intn(3))
						alloc++
					}
				default:
					t := r.Intn(nn)
					em("sstart %d %d %d", a, t, b)
					alloc++
					tun[a][b] = false
				}
				// afterwards: nothing, or a new tunnel (and a fresh negotiation on it)
				if r.Chance(1, 2) {
					hs(a, b)
					if r.Bool() {
						em("ctl %d %d 1 %d 0 0 0 %s %s", a, b, idxGuess(), node(a), node(r.Intn(nn)))
						alloc += 2
					}
				}
				if r.Chance(1, 3) {
					em("relaysdump %d", r.Intn(nn))
				}
				continue
			}
			switch x := r.Intn(100); {
			case x < 5:
				hs(a, r.Intn(nn))
			case x < 17:
				// honest negotiation: a asks the relay b for a relay to t; the three control messages are delivered in order
				t := r.Intn(nn)
				if r.Chance(3, 4) && mask == 1<<1 {
					b = 1
					var c []int
					for x := 0; x < nn; x++ {
						if x != a && x != 1 && tun[1][x] {
							c = append(c, x)
						}
					}
					if len(c) > 0 {
						t = c[r.Intn(len(c))]
					}
					if a == 1 {
						a = t
					}
				}
				em("ctl %d %d 1 %d 0 0 0 %s %s", a, b, idxGuess(), node(a), node(t))
				alloc += 2
				nd := hlib.Pick(r, 0, 1, 2, 3, 3, 3)
				for d := nd; d > 0; d-- {
					em("deliver 0")
					alloc++
				}
				if nd == 3 && r.Chance(3, 4) {
					// the relay's index for a is one of the recently allocated ones: sweep them
					for g := int(alloc) - 7; g <= int(alloc)+2; g++ {
						if g > 0 {
							em("fwd %d %d %d", a, b, base+uint32(g))
						}
					}
					if r.Chance(1, 3) {
						em("reload %d 0", b)
						for g := int(alloc) - 4; g <= int(alloc); g++ {
							if g > 0 {
								em("fwd %d %d %d", a, b, base+uint32(g))
							}
						}
						if r.Bool() {
							em("reload %d 1", b)
						}
					}
				}
			case x < 30:
				// request from a (claiming itself, or lying) through b to some target
				from := node(a)
				if r.Chance(1, 3) {
					from = addrTok(r, nn)
				}
				to := node(r.Intn(nn))
				if r.Chance(1, 6) {
					to = addrTok(r, nn)
				}
				ini := idxGuess()
				if r.Chance(1, 8) {
					ini = uint32(r.U64())
				}
				if r.Chance(1, 5) {
					em("ctl %d %d 1 %d 0 %d %d nil nil", a, b, ini, v4num(r, nn), v4num(r, nn))
				} else {
					em("ctl %d %d 1 %d 0 0 0 %s %s", a, b, ini, from, to)
				}
				alloc += 2
			case x < 44:
				// response from a to b with guessed indexes
				if r.Chance(1, 5) {
					em("ctl %d %d 2 %d %d %d %d nil nil", a, b, idxGuess(), idxGuess(), v4num(r, nn), v4num(r, nn))
				} else {
					em("ctl %d %d 2 %d %d 0 0 %s %s", a, b, idxGuess(), idxGuess(), addrTok(r, nn), addrTok(r, nn))
				}
			case x < 46:
				em("ctl %d %d %d %d %d %d %d %s %s", a, b, r.Intn(4), idxGuess(), idxGuess(), v4num(r, nn)*uint32(r.Intn(2)), v4num(r, nn)*uint32(r.Intn(2)), addrTok(r, nn), addrTok(r, nn))
			case x < 62:
				em("deliver %d", hlib.Pick(r, 0, 0, 0, 1))
				alloc++
			case x < 64:
				em("drop %d", r.Intn(2))
			case x < 70:
				em("down %d %d", a, b)
				tun[a][b] = false
			case x < 76:
				em("reload %d %d", hlib.Pick(r, 1, 1, a), r.Intn(2))
			case x < 78:
				em("remote %d %d", a, b)
			default:
				// relay packets on guessed indexes (a sweep finds the live ones)
				g := idxGuess()
				for d := r.Range(1, 6); d > 0; d-- {
					em("fwd %d %d %d", a, b, g)
					g++
				}
			}
		}
	}
}

func TestEngine(t *testing.T) {
	hlib.Run(t, hlib.Engine{Name: "relayctl", Gen: gen, NewExec: newExec})
}
