// Engine `hostmap` (C28, C29): the real HostMap + HandshakeManager pending side + AddRelay, driven through their
// entry points with crypto/rand.Reader swapped for an explicit (tiny) index stream so that the collision branches fire.
// See lean/Nebula/Driver/Hostmap.lean for the op syntax.
package hostmap

import (
	"crypto/rand"
	"errors"
	"fmt"
	"io"
	"net/netip"
	"sort"
	"strings"
	"testing"

	"github.com/slackhq/nebula"
	"verifharness/hlib"
)

// ---------------------------------------------------------------------------------------------
// generator

type genState struct {
	r       *hlib.Rand
	emit    func(string, ...any)
	objs    int          // upper estimate of the number of tunnels created so far in this case
	pending map[int]bool // addresses with a (probable) pending handshake
	space   int          // size of the index space of this case
	naddr   int
	hsTime  int
	pkt     int
	guess   [][2]int // (index, address) pairs the generator believes are pending
}

func (g *genState) pendAddrs() []int {
	var out []int
	for a := range g.pending {
		out = append(out, a)
	}
	sort.Ints(out)
	return out
}

func (g *genState) idx() int {
	if g.r.Chance(1, 12) {
		return 0
	}
	if g.r.Chance(1, 40) {
		return hlib.Pick(g.r, 1<<32-1, 1<<31, 65536, 256)
	}
	return 1 + g.r.Intn(g.space)
}

func (g *genState) stream() string {
	n := hlib.Pick(g.r, 1, 1, 2, 3, 5)
	vs := make([]string, 0, n)
	nz := false
	for i := 0; i < n; i++ {
		v := g.idx()
		if v != 0 {
			nz = true
		}
		vs = append(vs, fmt.Sprint(v))
	}
	if !nz {
		vs = append(vs, fmt.Sprint(1+g.r.Intn(g.space)))
	}
	return strings.Join(vs, ",")
}

func (g *genState) addr() int { return 1 + g.r.Intn(g.naddr) }

// addrs: a "certificate": one to three distinct addresses, overlapping with other peers' on purpose
func (g *genState) addrs(must int) string {
	n := hlib.Pick(g.r, 1, 1, 1, 2, 2, 3)
	seen := map[int]bool{}
	var out []string
	if must != 0 {
		seen[must] = true
		out = append(out, fmt.Sprint(must))
	}
	for len(out) < n {
		a := g.addr()
		if seen[a] && !g.r.Chance(1, 30) { // rarely a certificate naming an address twice
			if len(seen) >= g.naddr {
				break
			}
			continue
		}
		seen[a] = true
		out = append(out, fmt.Sprint(a))
	}
	if g.r.Bool() && len(out) > 1 { // the asked-for address is not always first
		out[0], out[len(out)-1] = out[len(out)-1], out[0]
	}
	return strings.Join(out, ",")
}

func (g *genState) obj() int {
	if g.objs == 0 || g.r.Chance(1, 50) {
		return g.objs + 1 + g.r.Intn(2)
	}
	// recent tunnels more often, but stale ones stay in play
	if g.r.Bool() {
		lo := g.objs - 5
		if lo < 1 {
			lo = 1
		}
		return g.r.Range(lo, g.objs)
	}
	return g.r.Range(1, g.objs)
}

// recent: one of the last few tunnels (more likely to be alive)
func (g *genState) recent() int {
	if g.objs < 2 || g.r.Chance(1, 5) {
		return g.obj()
	}
	lo := g.objs - 3
	if lo < 1 {
		lo = 1
	}
	return g.r.Range(lo, g.objs)
}

func (g *genState) remoteIdx() int { return 1 + g.r.Intn(6) }

func (g *genState) time() int {
	if g.r.Chance(1, 6) {
		return g.r.Intn(g.hsTime + 1)
	}
	g.hsTime++
	return g.hsTime
}

func (g *genState) op() {
	r := g.r
	switch c := r.Intn(100); {
	case c < 10:
		a := g.addr()
		if !g.pending[a] {
			g.objs++
			g.pending[a] = true
		}
		g.emit("start %d", a)
	case c < 20:
		a := g.addr()
		if len(g.pendAddrs()) > 0 && !r.Chance(1, 6) {
			a = hlib.Pick(r, g.pendAddrs()...)
		}
		st := g.stream()
		// remember the probable outcome (first non-zero value) so that `fin` can name a pending index
		for _, f := range strings.Split(st, ",") {
			if f != "0" {
				g.guess = append(g.guess, [2]int{hlib.Atoi(f), a})
				break
			}
		}
		g.emit("alloc %d %s", a, st)
	case c < 32:
		i, a := g.idx(), g.addr()
		if len(g.guess) > 0 && !r.Chance(1, 5) {
			k := r.Intn(len(g.guess))
			i, a = g.guess[k][0], g.guess[k][1]
			if r.Chance(2, 3) {
				g.guess = append(g.guess[:k], g.guess[k+1:]...)
				delete(g.pending, a)
			}
		}
		if r.Chance(1, 8) { // wrong host answered
			g.emit("fin %d %s %d %d", i, g.addrs(0), g.remoteIdx(), g.time())
		} else {
			g.emit("fin %d %s %d %d", i, g.addrs(a), g.remoteIdx(), g.time())
		}
	case c < 57:
		p := 0
		if r.Chance(1, 10) && g.pkt > 0 {
			p = r.Intn(g.pkt + 1)
		} else {
			g.pkt++
			p = g.pkt
		}
		g.objs++
		g.emit("resp %s %d %d %d %s", g.addrs(0), g.remoteIdx(), p, g.time(), g.stream())
	case c < 75:
		g.emit("del %d", g.obj())
	case c < 80:
		g.emit("pdel %d", g.obj())
	case c < 90:
		g.emit("prim %d", g.obj())
	case c < 97:
		// type: 1 forwarding, 2 terminal; state: 0 requested, 1 peer requested, 2 established
		g.emit("relay %d %d %d %d %s", g.recent(), g.addr(), hlib.Pick(r, 1, 1, 2), hlib.Pick(r, 0, 1, 2, 2), g.stream())
	default:
		g.emit("relayto %d %d", g.recent(), g.addr())
	}
}

func gen(r *hlib.Rand, n int, tier, profile string, emit func(string, ...any)) {
	total := 0
	for total < n {
		g := &genState{r: r, emit: emit, pending: map[int]bool{}}
		g.space = hlib.Pick(r, 3, 6, 6, 10, 16, 40)
		g.naddr = hlib.Pick(r, 1, 2, 3, 3, 4)
		if profile == "C29" {
			g.space = hlib.Pick(r, 2, 3, 4, 6, 8)
		}
		emit("reset")
		total++
		k := r.Range(20, 90)
		// a burst of responder handshakes for one address early on, so that the per-address cap is exceeded
		burst := r.Chance(1, 2)
		if r.Chance(1, 3) {
			// relay scenario on fresh, predictable ids: tunnels 1..m to the relay host (address 1), then tunnels to the
			// peer (address 2) that is reached through it; relay entries on both sides, sometimes the same peer twice
			// (a superseded relay index), then deletes of the peer's tunnels (the last one is final and disestablishes)
			burst = false
			m := r.Range(1, 3)
			id := 0
			for j := 0; j < m; j++ {
				id++
				g.pkt++
				emit("resp 1 %d %d %d %d", g.remoteIdx(), g.pkt, g.time(), 1000+id)
			}
			p := r.Range(1, 2)
			first := id + 1
			for j := 0; j < p; j++ {
				id++
				g.pkt++
				emit("resp %s %d %d %d %d", hlib.Pick(r, "2", "2", "2,3"), g.remoteIdx(), g.pkt, g.time(), 1000+id)
			}
			g.objs = id
			total += id
			for j := 1; j <= m; j++ {
				if r.Chance(3, 4) {
					emit("relay %d 2 %d %d %s", j, hlib.Pick(r, 1, 2), hlib.Pick(r, 0, 2, 2), g.stream())
					total++
				}
				if r.Chance(1, 3) {
					emit("relay %d 2 %d %d %s", j, hlib.Pick(r, 1, 2), hlib.Pick(r, 0, 2, 2), g.stream())
					total++
				}
			}
			for j := first; j <= id; j++ {
				emit("relayto %d 1", j)
				total++
				if r.Chance(1, 2) {
					emit("relay %d %d 1 %d %s", j, hlib.Pick(r, 1, 3), hlib.Pick(r, 0, 2), g.stream())
					total++
				}
			}
			for j := first; j <= id; j++ {
				if r.Chance(3, 4) {
					emit("del %d", j)
					total++
				}
			}
		}
		for i := 0; i < k && total < n; i++ {
			if burst && i < 8 {
				g.pkt++
				g.objs++
				emit("resp %s %d %d %d %s", g.addrs(1), g.remoteIdx(), g.pkt, g.time(), g.stream())
			} else {
				g.op()
			}
			total++
		}
	}
}

// ---------------------------------------------------------------------------------------------
// executor

// stream is the stand-in for crypto/rand.Reader: the big-endian bytes of the op's values, cyclically.
type stream struct {
	b   []byte
	pos int
}

func (s *stream) Read(p []byte) (int, error) {
	if len(s.b) == 0 {
		return 0, errors.New("harness: crypto/rand used by an op that carries no index stream")
	}
	for i := range p {
		p[i] = s.b[s.pos%len(s.b)]
		s.pos++
	}
	return len(p), nil
}

func parseStream(t string) (io.Reader, bool) {
	if t == "-" {
		return nil, false
	}
	var b []byte
	nz := false
	for _, f := range strings.Split(t, ",") {
		v := hlib.Atou(f)
		if v >= 1<<32 {
			return nil, false
		}
		if v != 0 {
			nz = true
		}
		b = append(b, byte(v>>24), byte(v>>16), byte(v>>8), byte(v))
	}
	if !nz {
		return nil, false
	}
	return &stream{b: b}, true
}

func addrOf(n int) netip.Addr {
	if n%2 == 0 {
		return netip.AddrFrom4([4]byte{10, byte(n >> 16), byte(n >> 8), byte(n)})
	}
	return netip.AddrFrom16([16]byte{0xfd, 0, 0, 0, 0, 0, 0, 0, 0, 0, 0, 0, byte(n >> 24), byte(n >> 16), byte(n >> 8), byte(n)})
}

func numOf(a netip.Addr) int {
	if a.Is4() {
		b := a.As4()
		return int(b[1])<<16 | int(b[2])<<8 | int(b[3])
	}
	b := a.As16()
	return int(b[12])<<24 | int(b[13])<<16 | int(b[14])<<8 | int(b[15])
}

func parseAddrs(t string) ([]netip.Addr, bool) {
	if t == "-" || t == "" {
		return nil, false
	}
	var out []netip.Addr
	for _, f := range strings.Split(t, ",") {
		out = append(out, addrOf(hlib.Atoi(f)))
	}
	return out, true
}

func pktBytes(p int) []byte {
	if p == 0 {
		return nil
	}
	return []byte(fmt.Sprintf("pkt-%d", p))
}

type world struct {
	v    *nebula.VerifHostmap
	objs []*nebula.HostInfo // objs[h] for h >= 1
	oid  map[*nebula.HostInfo]int
}

func newWorld() *world {
	return &world{v: nebula.VerifHostmapNew(), objs: []*nebula.HostInfo{nil}, oid: map[*nebula.HostInfo]int{}}
}

func (w *world) register(h *nebula.HostInfo) int {
	if id, ok := w.oid[h]; ok {
		return id
	}
	w.objs = append(w.objs, h)
	w.oid[h] = len(w.objs) - 1
	return len(w.objs) - 1
}

func (w *world) name(h *nebula.HostInfo) string {
	if h == nil {
		return "nil"
	}
	if id, ok := w.oid[h]; ok {
		return fmt.Sprint(id)
	}
	return "?"
}

func (w *world) obj(t string) *nebula.HostInfo {
	n := hlib.Atoi(t)
	if n < 1 || n >= len(w.objs) {
		return nil
	}
	return w.objs[n]
}

func natList[T int | uint32](l []T) string {
	if len(l) == 0 {
		return "-"
	}
	s := make([]string, len(l))
	for i, v := range l {
		s[i] = fmt.Sprint(v)
	}
	return strings.Join(s, ",")
}

func (w *world) dump() string {
	hosts, more, idx, ridx, relays := w.v.VerifHostmapMaps()
	vpnIps, pidx := w.v.VerifHostmapPendingMaps()
	refs := map[int]*nebula.HostInfo{}
	ref := func(h *nebula.HostInfo) string {
		if id, ok := w.oid[h]; ok {
			refs[id] = h
		}
		return w.name(h)
	}
	type kv struct {
		k int
		v string
	}
	sect := func(name string, items []kv) string {
		sort.Slice(items, func(i, j int) bool { return items[i].k < items[j].k })
		var sb strings.Builder
		sb.WriteString(name)
		for _, it := range items {
			fmt.Fprintf(&sb, " %d:%s", it.k, it.v)
		}
		return sb.String()
	}
	var H, M, I, R, L, V, P []kv
	for a, h := range hosts {
		H = append(H, kv{numOf(a), ref(h)})
	}
	for a, l := range more {
		names := make([]string, len(l))
		for i, h := range l {
			names[i] = ref(h)
		}
		s := strings.Join(names, ",")
		if len(l) == 0 {
			s = "-"
		}
		M = append(M, kv{numOf(a), s})
	}
	for i, h := range idx {
		I = append(I, kv{int(i), ref(h)})
	}
	for i, h := range ridx {
		R = append(R, kv{int(i), ref(h)})
	}
	for i, h := range relays {
		L = append(L, kv{int(i), ref(h)})
	}
	for a, h := range vpnIps {
		V = append(V, kv{numOf(a), ref(h)})
	}
	for i, h := range pidx {
		P = append(P, kv{int(i), ref(h)})
	}
	var O []kv
	ready := w.v.VerifHostmapPendingReady()
	for id, h := range refs {
		addrs, local, remote, _ := nebula.VerifHostmapFields(h)
		an := make([]int, len(addrs))
		for i, a := range addrs {
			an[i] = numOf(a)
		}
		relaysTo, byAddr, byIdx := nebula.VerifHostmapRelayState(h)
		var bi, ba []kv
		for k, r := range byIdx {
			bi = append(bi, kv{int(k), fmt.Sprintf("%d/%d/%d/%d", k, numOf(r.PeerAddr), r.Type, r.State)})
		}
		for k, r := range byAddr {
			ba = append(ba, kv{numOf(k), fmt.Sprintf("%d/%d/%d/%d", numOf(k), r.LocalIndex, r.Type, r.State)})
		}
		rl := func(items []kv) string {
			if len(items) == 0 {
				return "-"
			}
			sort.Slice(items, func(i, j int) bool { return items[i].k < items[j].k })
			out := make([]string, len(items))
			for i, it := range items {
				out[i] = it.v
			}
			return strings.Join(out, ",")
		}
		rt := make([]int, len(relaysTo))
		for i, a := range relaysTo {
			rt[i] = numOf(a)
		}
		O = append(O, kv{id, fmt.Sprintf("%d:%d:%s:%s:%s:%s:%s", local, remote, natList(an), hlib.B(ready[h]), rl(bi), rl(ba), natList(rt))})
	}
	return strings.Join([]string{sect("H", H), sect("M", M), sect("I", I), sect("R", R), sect("L", L), sect("V", V), sect("P", P), fmt.Sprintf("N %d", len(w.objs)), sect("O", O)}, "|")
}

func newExec(t *testing.T) func([]string) string {
	w := newWorld()
	orig := rand.Reader
	t.Cleanup(func() { rand.Reader = orig })
	withStream := func(tok string, f func() string) string {
		rd, ok := parseStream(tok)
		if !ok {
			return "bad-op"
		}
		rand.Reader = rd
		defer func() { rand.Reader = orig }()
		return f()
	}
	allocErr := func(err error) string {
		switch {
		case strings.Contains(err.Error(), "no longer in the hostmap"):
			return "err:unlinked"
		case strings.Contains(err.Error(), "failed to generate unique"):
			return "err:exhausted"
		}
		return "err:rand"
	}
	start := func(a netip.Addr) string {
		before := len(w.objs)
		h := w.v.HS.StartHandshake(a, nil)
		id := w.register(h)
		if len(w.objs) > before {
			return fmt.Sprintf("new %d", id)
		}
		return fmt.Sprintf("have %d", id)
	}
	run := func(a []string) string {
		switch a[0] {
		case "start":
			if len(a) != 2 {
				return "bad-op"
			}
			return start(addrOf(hlib.Atoi(a[1])))
		case "alloc":
			if len(a) != 3 {
				return "bad-op"
			}
			return withStream(a[2], func() string {
				addr := addrOf(hlib.Atoi(a[1]))
				h, ready := w.v.VerifHostmapPending(addr)
				if h == nil {
					return "nopending"
				}
				if ready {
					return "ready"
				}
				idx, err := w.v.VerifHostmapAllocate(addr)
				if err != nil {
					return allocErr(err)
				}
				return fmt.Sprintf("idx %d", idx)
			})
		case "fin":
			if len(a) != 5 {
				return "bad-op"
			}
			addrs, ok := parseAddrs(a[2])
			if !ok {
				return "bad-op"
			}
			h := w.v.HS.QueryIndex(uint32(hlib.Atou(a[1])))
			if h == nil {
				return "nopending"
			}
			cur, _, _, _ := nebula.VerifHostmapFields(h)
			correct := false
			for _, x := range addrs {
				if x == cur[0] {
					correct = true
				}
			}
			if !correct {
				// continueHandshake: "Incorrect host responded to handshake"
				w.v.HS.DeleteHostInfo(h)
				return "wrong " + start(cur[0])
			}
			nebula.VerifHostmapFinish(h, addrs, uint32(hlib.Atou(a[3])), hlib.Atou(a[4]))
			w.v.HS.Complete(h, w.v.F)
			return "ok " + w.name(h)
		case "resp":
			if len(a) != 6 {
				return "bad-op"
			}
			addrs, ok := parseAddrs(a[1])
			if !ok {
				return "bad-op"
			}
			return withStream(a[5], func() string {
				idx, err := nebula.VerifGenerateIndex(w.v.L)
				if err != nil {
					return "err:rand"
				}
				h := nebula.VerifHostmapNewHostInfo(addrs, idx, uint32(hlib.Atou(a[2])), pktBytes(hlib.Atoi(a[3])), hlib.Atou(a[4]), false)
				id := w.register(h)
				existing, err := w.v.HS.CheckAndComplete(h, 0, w.v.F)
				res := ""
				switch err {
				case nil:
					res = "ok " + w.name(existing)
				case nebula.ErrAlreadySeen:
					res = "seen " + w.name(existing)
				case nebula.ErrExistingHostInfo:
					res = "existing " + w.name(existing)
				case nebula.ErrLocalIndexCollision:
					res = "collision " + w.name(existing)
				default:
					res = "err:" + err.Error()
				}
				return fmt.Sprintf("new %d idx %d %s", id, idx, res)
			})
		case "del":
			h := w.obj(a[1])
			if h == nil {
				return "bad-op"
			}
			return "final " + hlib.B(w.v.Main.DeleteHostInfo(h))
		case "pdel":
			h := w.obj(a[1])
			if h == nil {
				return "bad-op"
			}
			w.v.HS.DeleteHostInfo(h)
			return "ok"
		case "prim":
			h := w.obj(a[1])
			if h == nil {
				return "bad-op"
			}
			return "prim " + hlib.B(w.v.VerifHostmapMakePrimary(h))
		case "relay":
			if len(a) != 6 {
				return "bad-op"
			}
			h := w.obj(a[1])
			return withStream(a[5], func() string {
				if h == nil {
					return "bad-op"
				}
				idx, err := nebula.AddRelay(w.v.L, h, w.v.Main, addrOf(hlib.Atoi(a[2])), nil, hlib.Atoi(a[3]), hlib.Atoi(a[4]))
				if err != nil {
					return allocErr(err)
				}
				return fmt.Sprintf("idx %d", idx)
			})
		case "relayto":
			if len(a) != 3 {
				return "bad-op"
			}
			h := w.obj(a[1])
			if h == nil {
				return "bad-op"
			}
			nebula.VerifHostmapInsertRelayTo(h, addrOf(hlib.Atoi(a[2])))
			return "ok"
		}
		return "bad-op"
	}
	return func(a []string) string {
		if a[0] == "reset" {
			w = newWorld()
			return "ok;" + w.dump()
		}
		res := run(a)
		if res == "bad-op" {
			return res
		}
		return res + ";" + w.dump()
	}
}

func TestEngine(t *testing.T) {
	hlib.Run(t, hlib.Engine{Name: "hostmap", Gen: gen, NewExec: newExec})
}
