// Engine `coalesce` (C23): the real batch.MultiCoalescer (TCP/UDP coalescers + passthrough) over a
// recording tio.GSOWriter, fed with the (Protocol, FragAny, IPHdrLen) the real newPacket computes.
package coalesce

import (
	"encoding/binary"
	"fmt"
	"log/slog"
	"sort"
	"strings"
	"testing"

	"github.com/slackhq/nebula"
	"github.com/slackhq/nebula/firewall"
	"github.com/slackhq/nebula/overlay/batch"
	"github.com/slackhq/nebula/overlay/tio"
	"verifharness/hlib"
)

// ---------------------------------------------------------------------------------------------
// recording writer

type recWriter struct {
	caps tio.Capabilities
	out  []string
}

func (w *recWriter) Write(p []byte) (int, error) {
	w.out = append(w.out, "W:"+hlib.Hex(p))
	return len(p), nil
}

func (w *recWriter) Capabilities() tio.Capabilities { return w.caps }

func (w *recWriter) WriteGSO(hdr []byte, thdr []byte, pays [][]byte, proto tio.GSOProto) error {
	p := "?"
	switch proto {
	case tio.GSOProtoTCP:
		p = "t"
	case tio.GSOProtoUDP:
		p = "u"
	}
	ps := make([]string, len(pays))
	for i, x := range pays {
		ps[i] = hlib.Hex(x)
	}
	w.out = append(w.out, "G:"+p+":"+hlib.Hex(hdr)+":"+hlib.Hex(thdr)+":"+strings.Join(ps, ","))
	return nil
}

// ---------------------------------------------------------------------------------------------
// executor

func newExec(t *testing.T) func([]string) string {
	var w *recWriter
	var mc *batch.MultiCoalescer
	lg := slog.New(slog.DiscardHandler)
	reset := func(tso, uso bool) {
		w = &recWriter{caps: tio.Capabilities{TSO: tso, USO: uso}}
		mc = batch.NewMultiCoalescer(w, lg)
	}
	reset(true, true)
	return func(a []string) string {
		switch a[0] {
		case "reset":
			if len(a) != 3 {
				return "bad-op"
			}
			reset(a[1] == "1", a[2] == "1")
			return "ok"
		case "c", "cf":
			if len(a) != 7 {
				return "bad-op"
			}
			raw, err := hlib.UnHex(a[6])
			if err != nil {
				return "bad-op"
			}
			// every packet lives in its own buffer whose capacity ends with the packet
			pkt := make([]byte, len(raw))
			copy(pkt, raw)
			pkt = pkt[:len(pkt):len(pkt)]
			pp := firewall.ParsedPacket{FragAny: a[4] == "1", IPHdrLen: hlib.Atoi(a[5])}
			pp.Protocol = uint8(hlib.Atoi(a[3]))
			res := "ok"
			if a[0] == "c" {
				var fp firewall.ParsedPacket
				cp := append([]byte(nil), raw...)
				if err := nebula.VerifCoalesceNewPacket(cp, true, &fp); err != nil {
					res = "err"
				} else {
					res = fmt.Sprintf("%d %s %d", fp.Protocol, hlib.B(fp.FragAny), fp.IPHdrLen)
				}
			}
			if err := mc.Commit(pkt, batch.SortKey{Epoch: hlib.Atou(a[1]), Counter: hlib.Atou(a[2])}, &pp); err != nil {
				return "commit-err"
			}
			return res
		case "flush":
			w.out = w.out[:0]
			err := mc.Flush()
			s := strings.Join(w.out, " ")
			if len(w.out) == 0 {
				s = "-"
			}
			if err != nil {
				s += " E:1"
			}
			return s
		}
		return "bad-op"
	}
}

// ---------------------------------------------------------------------------------------------
// packet construction

func csum(b []byte, init uint32) uint16 {
	s := init
	for i := 0; i+1 < len(b); i += 2 {
		s += uint32(binary.BigEndian.Uint16(b[i:]))
	}
	if len(b)%2 == 1 {
		s += uint32(b[len(b)-1]) << 8
	}
	for s>>16 != 0 {
		s = (s & 0xffff) + (s >> 16)
	}
	return ^uint16(s)
}

type flow struct {
	v6         bool
	tcp        bool
	src, dst   []byte
	sport      uint16
	dport      uint16
	tos        byte
	ttl        byte
	df         bool
	id         uint16
	idMode     int // 0 sequential, 1 constant, 2 random
	flowLabel  uint32
	seq        uint32
	ack        uint32
	win        uint16
	opts       []byte
	mss        int
	epoch      uint64
	ece        bool
	otherProto byte // != 0: neither TCP nor UDP
	clean      bool // no per-packet perturbations: long uninterrupted chains (segment-count / size boundaries)
}

type pktSpec struct {
	f       *flow
	payLen  int
	flags   byte
	opts    []byte
	mut     int // structural mutation, see build
	trailer int
}

// build renders one packet of the flow and advances the flow's seq / id.
func build(r *hlib.Rand, ps pktSpec) []byte {
	f := ps.f
	pay := r.Bytes(ps.payLen)
	var l4 []byte
	proto := byte(17)
	if f.otherProto != 0 {
		proto = f.otherProto
		l4 = append(r.Bytes(8), pay...)
	} else if f.tcp {
		proto = 6
		opts := ps.opts
		doff := 5 + len(opts)/4
		h := make([]byte, 20+len(opts))
		binary.BigEndian.PutUint16(h[0:], f.sport)
		binary.BigEndian.PutUint16(h[2:], f.dport)
		binary.BigEndian.PutUint32(h[4:], f.seq)
		binary.BigEndian.PutUint32(h[8:], f.ack)
		h[12] = byte(doff << 4)
		h[13] = ps.flags
		binary.BigEndian.PutUint16(h[14:], f.win)
		copy(h[20:], opts)
		if ps.mut == mutTCPOff {
			h[12] = byte(r.Intn(5) << 4)
		}
		if ps.mut == mutTCPOffBig {
			h[12] = byte((doff + 1 + r.Intn(3)) << 4)
		}
		if ps.mut == mutTCPRsvd {
			h[12] |= byte(1 + r.Intn(15))
		}
		if ps.mut == mutTCPUrgPtr {
			binary.BigEndian.PutUint16(h[18:], uint16(1+r.Intn(100)))
		}
		l4 = append(h, pay...)
		f.seq += uint32(ps.payLen)
	} else {
		h := make([]byte, 8)
		binary.BigEndian.PutUint16(h[0:], f.sport)
		binary.BigEndian.PutUint16(h[2:], f.dport)
		ul := 8 + ps.payLen
		switch ps.mut {
		case mutUDPLenShort:
			if ps.payLen > 0 {
				ul = 8 + r.Intn(ps.payLen)
			}
		case mutUDPLenLong:
			ul += 1 + r.Intn(8)
		case mutUDPLenTiny:
			ul = r.Intn(8)
		}
		binary.BigEndian.PutUint16(h[4:], uint16(ul))
		l4 = append(h, pay...)
	}
	var ip []byte
	if f.v6 {
		ip = make([]byte, 40)
		binary.BigEndian.PutUint32(ip[0:], 6<<28|uint32(f.tos)<<20|f.flowLabel&0xfffff)
		plen := len(l4)
		nh := proto
		var ext []byte
		switch ps.mut {
		case mutV6HopByHop:
			ext = make([]byte, 8)
			ext[0] = proto
			nh = 0
		case mutV6Frag:
			ext = make([]byte, 8)
			ext[0] = proto
			nh = 44
			if r.Bool() {
				ext[3] = 1 // M flag, offset 0: first fragment
			} else {
				binary.BigEndian.PutUint16(ext[2:], uint16(8+r.Intn(100)*8))
			}
		}
		l4 = append(ext, l4...)
		plen = len(l4)
		switch ps.mut {
		case mutIPLenShort:
			if plen > 0 {
				plen = r.Intn(plen)
			}
		case mutIPLenLong:
			plen += 1 + r.Intn(8)
		}
		binary.BigEndian.PutUint16(ip[4:], uint16(plen))
		ip[6] = nh
		ip[7] = f.ttl
		copy(ip[8:], f.src)
		copy(ip[24:], f.dst)
	} else {
		var ipopts []byte
		if ps.mut == mutV4Options {
			ipopts = []byte{1, 1, 1, 0}
		}
		ip = make([]byte, 20+len(ipopts))
		ip[0] = 0x40 | byte(5+len(ipopts)/4)
		ip[1] = f.tos
		tl := len(ip) + len(l4)
		switch ps.mut {
		case mutIPLenShort:
			tl = r.Intn(tl)
		case mutIPLenLong:
			tl += 1 + r.Intn(8)
		}
		binary.BigEndian.PutUint16(ip[2:], uint16(tl))
		binary.BigEndian.PutUint16(ip[4:], f.id)
		var ff uint16
		if f.df {
			ff |= 0x4000
		}
		switch ps.mut {
		case mutV4MF:
			ff |= 0x2000
		case mutV4FragOff:
			ff |= uint16(1 + r.Intn(0x1fff))
		case mutV4Evil:
			ff |= 0x8000
		}
		binary.BigEndian.PutUint16(ip[6:], ff)
		ip[8] = f.ttl
		ip[9] = proto
		copy(ip[12:], f.src)
		copy(ip[16:], f.dst)
		copy(ip[20:], ipopts)
		if ps.mut == mutV4IHLSmall {
			ip[0] = 0x40 | byte(r.Intn(5))
		}
		binary.BigEndian.PutUint16(ip[10:], csum(ip, 0))
		switch f.idMode {
		case 0:
			f.id++
		case 2:
			f.id = uint16(r.U64())
		}
	}
	p := append(ip, l4...)
	if ps.mut == mutVersion {
		p[0] = (p[0] & 0x0f) | byte(hlib.Pick(r, 0, 5, 7, 15))<<4
	}
	if ps.mut == mutTruncate && len(p) > 1 {
		p = p[:1+r.Intn(len(p)-1)]
	}
	if ps.mut == mutShortL4 {
		// a transport header cut short *with a consistent IP length*: the packet passes newPacket and the IP
		// prologue and reaches parseTail, whose length guards are then the only thing between it and an
		// out-of-range slice (4..7 bytes of UDP header, 4..19 of TCP, a TCP header shorter than its data offset)
		iph := 20
		if f.v6 {
			iph = 40
		}
		k := hlib.Pick(r, 4, 5, 6, 7, 8, 9, 12, 13, 14, 19, 20, 21, 23, 24)
		if iph+k < len(p) && (p[0] == 0x45 || p[0]>>4 == 6) {
			p = p[:iph+k]
			if f.v6 {
				binary.BigEndian.PutUint16(p[4:], uint16(k))
			} else {
				binary.BigEndian.PutUint16(p[2:], uint16(iph+k))
			}
		}
	}
	for i := 0; i < ps.trailer; i++ {
		p = append(p, byte(r.U64()))
	}
	return p
}

const (
	mutNone = iota
	mutTCPOff
	mutTCPOffBig
	mutTCPRsvd
	mutTCPUrgPtr
	mutUDPLenShort
	mutUDPLenLong
	mutUDPLenTiny
	mutV6HopByHop
	mutV6Frag
	mutIPLenShort
	mutIPLenLong
	mutV4Options
	mutV4MF
	mutV4FragOff
	mutV4Evil
	mutV4IHLSmall
	mutVersion
	mutTruncate
	mutShortL4
	mutCount
)

var addrPool4 = [][]byte{{10, 0, 0, 1}, {10, 0, 0, 2}, {192, 168, 7, 9}}
var addrPool6 = [][]byte{
	{0xfd, 0, 0, 0, 0, 0, 0, 0, 0, 0, 0, 0, 0, 0, 0, 1},
	{0xfd, 0, 0, 0, 0, 0, 0, 0, 0, 0, 0, 0, 0, 0, 0, 2},
	{0xfe, 0x80, 0, 0, 0, 0, 0, 0, 1, 2, 3, 4, 5, 6, 7, 8},
}

func newFlow(r *hlib.Rand, big bool) *flow {
	f := &flow{v6: r.Chance(1, 3), tcp: r.Chance(3, 5)}
	if f.v6 {
		f.src, f.dst = hlib.Pick(r, addrPool6...), hlib.Pick(r, addrPool6...)
	} else {
		f.src, f.dst = hlib.Pick(r, addrPool4...), hlib.Pick(r, addrPool4...)
	}
	f.sport = uint16(hlib.Pick(r, 80, 443, 5000, 5001))
	f.dport = uint16(hlib.Pick(r, 80, 443, 6000))
	f.tos = byte(hlib.Pick(r, 0, 0, 0, 1, 2, 3, 0xb8))
	f.ttl = byte(hlib.Pick(r, 64, 64, 63, 1))
	f.df = r.Chance(3, 5)
	f.id = uint16(hlib.Pick(r, 0, 1, 1000, 0xfffe, 0xffff, r.Intn(65536)))
	f.idMode = hlib.Pick(r, 0, 0, 0, 1, 2)
	f.flowLabel = uint32(hlib.Pick(r, 0, 0, 0x12345))
	f.seq = uint32(hlib.Pick[uint64](r, 0, 1000, 0xffffff00, 0xfffffffe, r.U64()))
	f.ack = uint32(r.U64())
	f.win = uint16(hlib.Pick(r, 65535, 512, 0))
	if f.tcp && r.Chance(1, 3) {
		f.opts = []byte{1, 1, 8, 10, 0, 0, 0, 1, 0, 0, 0, 2}
	}
	if f.tcp && r.Chance(1, 40) {
		f.opts = make([]byte, 40) // data offset 15
		for i := range f.opts {
			f.opts[i] = 1
		}
	}
	f.mss = hlib.Pick(r, 1, 2, 3, 4, 8, 8, 8, 11, 16, 16, 24, 32)
	if big {
		f.mss = hlib.Pick(r, 1000, 1024, 1400, 1460, 4000, 9000)
	}
	f.ece = r.Chance(1, 8)
	f.epoch = uint64(hlib.Pick(r, 1, 1, 1, 2))
	if r.Chance(1, 12) {
		f.otherProto = byte(hlib.Pick(r, 1, 47, 58, 132))
	}
	return f
}

type staged struct {
	pkt     []byte
	epoch   uint64
	counter uint64
}

// genBatch produces the packets of one flush batch in transmission order (per epoch counters
// ascending), then perturbs the arrival order.
func genBatch(r *hlib.Rand, big bool, ctr map[uint64]uint64) []staged {
	nflows := hlib.Pick(r, 1, 1, 2, 2, 3, 4, 6)
	flows := make([]*flow, nflows)
	remaining := make([]int, nflows)
	for i := range flows {
		flows[i] = newFlow(r, big)
		remaining[i] = hlib.Pick(r, 1, 2, 3, 4, 5, 6, 8, 10, 12, 20)
		if r.Chance(1, 25) {
			remaining[i] = hlib.Pick(r, 63, 64, 65, 66, 70, 130)
			flows[i].clean = r.Chance(3, 4)
			flows[i].otherProto = 0
			if flows[i].idMode == 2 {
				flows[i].idMode = 0
			}
		}
		if r.Chance(1, 10) {
			flows[i].clean = true
		}
		if big {
			remaining[i] = hlib.Pick(r, 2, 8, 44, 45, 46, 47, 48, 66)
			if flows[i].mss >= 4000 {
				remaining[i] = hlib.Pick(r, 2, 7, 8, 16, 17)
			}
			flows[i].clean = r.Chance(1, 2)
		}
		if r.Chance(1, 6) { // a second flow object on the same 5-tuple (e.g. other direction / other epoch / other family)
			if i > 0 {
				g := *flows[r.Intn(i)]
				g.epoch = uint64(hlib.Pick(r, 1, 2))
				if r.Bool() {
					g.src, g.dst = g.dst, g.src
					g.sport, g.dport = g.dport, g.sport
				}
				flows[i] = &g
			}
		}
	}
	var out []staged
	for {
		var live []int
		for i, n := range remaining {
			if n > 0 {
				live = append(live, i)
			}
		}
		if len(live) == 0 {
			break
		}
		i := live[r.Intn(len(live))]
		// runs of same-flow packets are the common arrival shape
		run := 1
		if r.Chance(2, 3) {
			run = 1 + r.Intn(remaining[i])
		}
		for k := 0; k < run; k++ {
			f := flows[i]
			remaining[i]--
			ps := pktSpec{f: f, payLen: f.mss, flags: 0x10, opts: f.opts}
			if f.ece {
				ps.flags |= 0x40
			}
			if f.clean {
				p := build(r, ps)
				ctr[f.epoch]++
				out = append(out, staged{pkt: p, epoch: f.epoch, counter: ctr[f.epoch]})
				continue
			}
			// payload size variations
			switch {
			case r.Chance(1, 12):
				ps.payLen = 0
			case r.Chance(1, 10):
				ps.payLen = r.Intn(f.mss + 1)
			case r.Chance(1, 30):
				ps.payLen = f.mss + 1 + r.Intn(4)
			case big && r.Chance(1, 60):
				ps.payLen = hlib.Pick(r, 65535-40, 65535-28, 65535-20, 65000, 65535-39, 65535-27, 65536, 65600)
			}
			if f.tcp {
				switch {
				case r.Chance(1, 10):
					ps.flags |= 0x08
				case r.Chance(1, 30):
					ps.flags = byte(hlib.Pick(r, 0x11, 0x12, 0x02, 0x14, 0x04, 0x30, 0x90, 0x50, 0x00, 0x18|0x80, 0x08, 0xd8))
				case r.Chance(1, 60):
					ps.flags = byte(r.U64())
				case r.Chance(1, 40):
					ps.flags ^= 0x40
				}
				// sequence perturbations
				switch {
				case r.Chance(1, 30):
					f.seq += uint32(hlib.Pick(r, 1, f.mss, 1000))
				case r.Chance(1, 40):
					f.seq -= uint32(hlib.Pick(r, 1, f.mss))
				}
				if r.Chance(1, 40) {
					f.ack += uint32(1 + r.Intn(100))
				}
				if r.Chance(1, 60) {
					f.win ^= 1
				}
				if len(ps.opts) >= 12 && r.Chance(1, 40) {
					o := append([]byte(nil), ps.opts...)
					o[7]++
					ps.opts = o
					f.opts = o
				}
			}
			if r.Chance(1, 40) {
				f.tos ^= byte(hlib.Pick(r, 1, 2, 3, 4))
			}
			if r.Chance(1, 60) {
				f.ttl--
			}
			if r.Chance(1, 60) {
				f.df = !f.df
			}
			if r.Chance(1, 60) {
				f.id += uint16(hlib.Pick(r, 1, 2, 0xffff))
			}
			if f.v6 && r.Chance(1, 60) {
				f.flowLabel ^= 1
			}
			if r.Chance(1, 14) {
				ps.mut = 1 + r.Intn(mutCount-1)
			}
			if r.Chance(1, 60) {
				ps.mut = mutShortL4
			}
			if r.Chance(1, 25) {
				ps.trailer = 1 + r.Intn(6)
			}
			p := build(r, ps)
			ctr[f.epoch]++
			out = append(out, staged{pkt: p, epoch: f.epoch, counter: ctr[f.epoch]})
		}
	}
	// counters: occasionally start near the top of the range
	// arrival order
	switch r.Intn(6) {
	case 0: // in order
	case 1, 2, 3: // a few local swaps
		for k := 0; k < 1+len(out)/6; k++ {
			if len(out) < 2 {
				break
			}
			i := r.Intn(len(out) - 1)
			j := i + 1 + r.Intn(min(3, len(out)-1-i))
			out[i], out[j] = out[j], out[i]
		}
	case 4: // full shuffle
		for i := len(out) - 1; i > 0; i-- {
			j := r.Intn(i + 1)
			out[i], out[j] = out[j], out[i]
		}
	case 5: // reversed
		sort.SliceStable(out, func(i, j int) bool {
			if out[i].epoch != out[j].epoch {
				return out[i].epoch > out[j].epoch
			}
			return out[i].counter > out[j].counter
		})
	}
	return out
}

func emitBatch(r *hlib.Rand, emit func(string, ...any), b []staged, forged bool) {
	for _, s := range b {
		var fp firewall.ParsedPacket
		cp := append([]byte(nil), s.pkt...)
		err := nebula.VerifCoalesceNewPacket(cp, true, &fp)
		if forged && r.Chance(1, 2) {
			emit("cf %d %d %d %s %d %s", s.epoch, s.counter, hlib.Pick(r, 6, 17, 6, 17, 1, int(fp.Protocol)),
				hlib.B(r.Chance(1, 10)), hlib.Pick(r, 20, 40, 20, 40, 24, 48, 0, fp.IPHdrLen), hlib.Hex(s.pkt))
			continue
		}
		if err != nil {
			continue // outside.go drops the packet before Commit
		}
		emit("c %d %d %d %s %d %s", s.epoch, s.counter, fp.Protocol, hlib.B(fp.FragAny), fp.IPHdrLen, hlib.Hex(s.pkt))
	}
	emit("flush")
}

// f13 is the confirmed defect of the unrepaired code: two UDP datagrams whose IP payload is 4 bytes
// longer than the UDP length field.
func genF13(r *hlib.Rand, emit func(string, ...any)) {
	f := &flow{src: addrPool4[0], dst: addrPool4[1], sport: 5000, dport: 6000, ttl: 64, df: true, mss: 14, epoch: 1}
	emit("reset 1 1")
	var b []staged
	for i := 0; i < 2; i++ {
		p := build(r, pktSpec{f: f, payLen: 14})
		binary.BigEndian.PutUint16(p[24:], 8+10) // UDP length 4 short of the IP payload
		b = append(b, staged{pkt: p, epoch: 1, counter: uint64(i + 1)})
	}
	emitBatch(r, emit, b, false)
}

// genBoundary aims one clean, uninterrupted chain at a size limit of the coalescers: total superpacket
// bytes within a few bytes (or within +-64) of 65535 minus nothing / the transport header / the IP header /
// both headers, for IPv4 and IPv6, UDP and TCP with 0..40 option bytes, through several (n, segLen)
// factorizations (n full segments plus a short tail that makes the sum exact); the 64-segment limit +-2
// with segment sizes that also approach the byte limit; and single packets around the seed limit.
// A change of any of these guards by a few bytes only shows on chains like these.
func genBoundary(r *hlib.Rand, emit func(string, ...any)) {
	f := newFlow(r, false)
	f.clean = true
	f.otherProto = 0
	f.epoch = 1
	f.idMode = 0
	f.tcp = r.Bool()
	f.opts = nil
	l4 := 8
	if f.tcp {
		optLen := hlib.Pick(r, 0, 0, 4, 8, 12, 20, 36, 40)
		f.opts = make([]byte, optLen)
		for i := range f.opts {
			f.opts[i] = 1
		}
		l4 = 20 + optLen
	}
	ipHdr := 20
	if f.v6 {
		ipHdr = 40
	}
	hdr := ipHdr + l4
	var sizes []int
	switch m := r.Intn(10); {
	case m < 7: // byte limit
		x := hlib.Pick(r, hdr, hdr, hdr, 0, l4, ipHdr)
		// around the reference: +-3 exactly, anywhere within +-64, or inside the header-sized zones next to it
		// (a guard that forgets / double-counts one of the headers moves the limit by that header's size)
		d := r.Range(-3, 3)
		switch r.Intn(4) {
		case 0:
			d = r.Range(-64, 64)
		case 1:
			d = r.Range(1, hlib.Pick(r, l4, ipHdr, hdr))
		case 2:
			d = -r.Range(0, hlib.Pick(r, l4, ipHdr, hdr))
		}
		total := 65535 - x + d
		n := hlib.Pick(r, 2, 2, 3, 5, 7, 16, 32, 45, 46, 50, 63, 64, r.Range(2, 64))
		if r.Chance(1, 3) { // realistic segment sizes: as many full segments as fit, exact tail
			n = total / hlib.Pick(r, 1024, 1310, 1400, 1424, 1448, 1460, 2000, 4096, 8192, 9000, 16384, 32750)
		}
		seg := total / n
		for i := 0; i < n; i++ {
			sizes = append(sizes, seg)
		}
		if rem := total - n*seg; rem > 0 {
			sizes = append(sizes, rem)
		}
		switch r.Intn(4) {
		case 0:
			sizes = append(sizes, seg, hlib.Pick(r, 1, seg/2+1))
		case 1:
			sizes = append(sizes, hlib.Pick(r, 1, 19, 20, 21, 39, 40, 41, 59, 60, 61))
		}
	case m < 9: // segment-count limit, alone and together with the byte limit
		n := hlib.Pick(r, 62, 63, 64, 65, 66)
		seg := hlib.Pick(r, 1, 2, 8, 100, 1000, 1021, 1022, 1023, 1024, (65535-hdr)/64, (65535-hdr)/64+1, (65535-ipHdr)/64, 65535/64)
		for i := 0; i < n; i++ {
			sizes = append(sizes, seg)
		}
		if r.Bool() {
			sizes = append(sizes, hlib.Pick(r, 1, seg))
		}
	default: // a single packet around the seed limit, then small same-flow packets
		sizes = []int{65535 - hdr + hlib.Pick(r, -2, -1, 0, 1, 2, 3, l4, ipHdr, hdr), 7, 7}
	}
	emit("reset 1 1")
	var b []staged
	for i, sz := range sizes {
		if sz < 0 {
			sz = 0
		}
		ps := pktSpec{f: f, payLen: sz, flags: 0x10, opts: f.opts}
		if f.ece {
			ps.flags |= 0x40
		}
		b = append(b, staged{pkt: build(r, ps), epoch: 1, counter: uint64(i + 1)})
	}
	if len(b) > 2 && r.Chance(1, 4) {
		i := r.Intn(len(b) - 1)
		b[i], b[i+1] = b[i+1], b[i]
	}
	emitBatch(r, emit, b, false)
}

func gen(r *hlib.Rand, n int, tier, profile string, emit func(string, ...any)) {
	genF13(r, emit)
	nb := 40
	if tier == "thorough" {
		nb = n / 8
	}
	for i := 0; i < nb; i++ {
		genBoundary(r, emit)
	}
	for i := 0; i < n; i++ {
		tso, uso := !r.Chance(1, 20), !r.Chance(1, 20)
		emit("reset %s %s", hlib.B(tso), hlib.B(uso))
		ctr := map[uint64]uint64{1: uint64(hlib.Pick[uint64](r, 0, 0, 100, 1<<32-3, 1<<63)), 2: uint64(hlib.Pick[uint64](r, 0, 5))}
		nb := hlib.Pick(r, 1, 1, 1, 2, 3)
		big := r.Chance(1, 40)
		if tier == "thorough" {
			big = r.Chance(1, 25)
		}
		forged := r.Chance(1, 20)
		for b := 0; b < nb; b++ {
			emitBatch(r, emit, genBatch(r, big, ctr), forged)
			if big {
				break
			}
		}
	}
}

func TestEngine(t *testing.T) {
	hlib.Run(t, hlib.Engine{Name: "coalesce", Gen: gen, NewExec: newExec})
}
