// Engine `inside` stand-alone: the outbound packet path (Interface.consumeInsidePacket) around generated firewall
// worlds. `./check C17` reaches the same op and generator through the `fwrules` engine (one engine per property).
package inside

import (
	"testing"

	"verifharness/fwlib"
	"verifharness/hlib"
)

const hour = uint64(3600 * 1000000000)

func gen(r *hlib.Rand, n int, tier, profile string, emit func(string, ...any)) {
	ops := Family(emit)
	for ops < n {
		w := fwlib.GenWorld(r, 8)
		if r.Bool() {
			w.Rules = append(w.Rules, fwlib.Rule{Incoming: false, Host: "any", LocalCidr: "any"})
		}
		cache := uint64(0)
		if r.Bool() {
			cache = hour
		}
		w.EmitSetup(emit, 1000*hour, 1000*hour, 1000*hour, cache)
		for k := r.Range(8, 30); k > 0; k-- {
			emit("%s", GenCase(r, w).Line())
			ops++
			if r.Chance(1, 8) {
				emit("clear")
			}
		}
	}
}

func newExec(t *testing.T) func([]string) string {
	e := &fwlib.Exec{T: t, Extra: Extra}
	return e.Do
}

func TestEngine(t *testing.T) {
	hlib.Run(t, hlib.Engine{Name: "inside", Gen: gen, NewExec: newExec, Synctest: true})
}
