// Package inside is the Go half of the `inside` engine (outbound packet path, property C17): the op `ipkt` runs the
// real Interface.consumeInsidePacket on an Interface wired around the firewall, CA pool and peers of the surrounding
// firewall case (fwlib.Exec), with a recording tun queue and udp writer, and reports what came out.
// The package is a library so that the `fwrules` engine (which serves ./check C17) can embed the op and the
// generator; engine_test.go in this directory runs the same stream stand-alone.
//
//	ipkt <flags> <hosts> <pending> <routes> <ctr> <hex>   ->   <tun> <udp> <pend>      (see lean/Nebula/Driver/Inside.lean)
package inside

import (
	"bytes"
	"crypto/cipher"
	"encoding/binary"
	"errors"
	"fmt"
	"net/netip"
	"strings"

	"github.com/gaissmai/bart"
	"github.com/slackhq/nebula"
	"github.com/slackhq/nebula/config"
	"github.com/slackhq/nebula/firewall"
	"github.com/slackhq/nebula/header"
	"github.com/slackhq/nebula/noiseutil"
	"github.com/slackhq/nebula/overlay/overlaytest"
	"github.com/slackhq/nebula/overlay/tio"
	"github.com/slackhq/nebula/routing"
	"github.com/slackhq/nebula/udp"
	"verifharness/fwlib"
	"verifharness/hlib"
	"verifharness/pktlib"
)

// ---------------------------------------------------------------------------------------------- executor

// plainAEAD is the tunnel's send cipher in the harness: the "ciphertext" is the plaintext followed by a 16 byte tag
// of zeroes, so that the executor can read what was sent.
type plainAEAD struct{}

func (plainAEAD) NonceSize() int { return 12 }
func (plainAEAD) Overhead() int  { return 16 }
func (plainAEAD) Seal(dst, nonce, plaintext, ad []byte) []byte {
	dst = append(dst, plaintext...)
	return append(dst, make([]byte, 16)...)
}
func (plainAEAD) Open(dst, nonce, ciphertext, ad []byte) ([]byte, error) {
	if len(ciphertext) < 16 {
		return nil, errors.New("short")
	}
	return append(dst, ciphertext[:len(ciphertext)-16]...), nil
}

var _ cipher.AEAD = plainAEAD{}

// recTun is the tun device and its single queue: records writes, answers RoutesFor from a route table.
type recTun struct {
	overlaytest.NoopTun
	routes *bart.Table[routing.Gateways]
	writes [][]byte
}

func (t *recTun) RoutesFor(a netip.Addr) routing.Gateways {
	g, _ := t.routes.Lookup(a)
	return g
}
func (t *recTun) Write(b []byte) (int, error) {
	t.writes = append(t.writes, bytes.Clone(b))
	return len(b), nil
}
func (t *recTun) Queues(int) ([]tio.Queue, error) { return []tio.Queue{t}, nil }

type datagram struct {
	b   []byte
	dst netip.AddrPort
}

type recConn struct{ out []datagram }

func (c *recConn) Rebind() error                                 { return nil }
func (c *recConn) LocalAddr() (netip.AddrPort, error)            { return netip.MustParseAddrPort("192.0.2.1:4242"), nil }
func (c *recConn) ListenOut(r udp.EncReader, flush func()) error { return nil }
func (c *recConn) WriteTo(b []byte, addr netip.AddrPort) error {
	c.out = append(c.out, datagram{bytes.Clone(b), addr})
	return nil
}
func (c *recConn) WriteBatch(bufs [][]byte, addrs []netip.AddrPort) (int, error) {
	for i := range bufs {
		c.out = append(c.out, datagram{bytes.Clone(bufs[i]), addrs[i]})
	}
	return len(bufs), nil
}
func (c *recConn) ReloadConfig(*config.C)        {}
func (c *recConn) SupportsMultipleReaders() bool { return false }
func (c *recConn) Close() error                  { return nil }

func underlay(i int) netip.AddrPort {
	return netip.AddrPortFrom(netip.AddrFrom4([4]byte{198, 51, 100, byte(i + 1)}), uint16(5000+i))
}

func joinOr(l []string) string {
	if len(l) == 0 {
		return "-"
	}
	return strings.Join(l, ",")
}

// Extra is fwlib.Exec.Extra: the op `ipkt`.
func Extra(e *fwlib.Exec, a []string) (string, bool) {
	if a[0] != "ipkt" || len(a) != 7 {
		return "", false
	}
	flags := a[1]
	if len(flags) != 4 || e.Fw == nil {
		return "bad-op", true
	}
	hosts := fwlib.UnList(a[2])
	for _, id := range hosts {
		if _, ok := e.Peers[id]; !ok {
			return "bad-op", true
		}
	}
	tun := &recTun{routes: new(bart.Table[routing.Gateways])}
	if a[4] != "-" {
		for _, rt := range strings.Split(a[4], ";") {
			pg := strings.SplitN(rt, "=", 2)
			var gws routing.Gateways
			for _, g := range strings.Split(pg[1], "+") {
				aw := strings.SplitN(g, ":", 2)
				gws = append(gws, routing.NewGateway(hlib.ParseAddrHex(aw[0]), hlib.Atoi(aw[1])))
			}
			routing.CalculateBucketsForGateways(gws)
			tun.routes.Insert(hlib.ParsePrefixHex(pg[0]), gws)
		}
	}
	conn := &recConn{}
	e.Fw.OutboundSendReject = flags[3] == '1'
	v, err := nebula.VerifInsideNew(e.L, e.My, e.Fw, e.Pool, tun, tun, conn, flags[0] == '1', flags[1] == '1')
	if err != nil {
		return "err:" + err.Error(), true
	}
	if a[3] != "-" {
		for _, p := range strings.Split(a[3], ",") {
			v.StartHandshake(hlib.ParseAddrHex(p))
		}
	}
	ctr := hlib.Atou(a[5])
	byRemoteIndex := map[uint32]string{}
	for i, id := range hosts {
		v.AddTunnel(e.Peers[id], noiseutil.VerifNewChaChaPoly(plainAEAD{}), uint32(100+i), uint32(200+i), underlay(i), ctr)
		byRemoteIndex[uint32(200+i)] = id
	}
	pkt, err := hlib.UnHex(a[6])
	if err != nil {
		return "bad-op", true
	}
	orig := bytes.Clone(pkt)
	v.Consume(pkt, e.Cache())

	var tunOut, udpOut, pend []string
	for _, w := range tun.writes {
		tunOut = append(tunOut, hlib.Hex(w))
	}
	for _, d := range conn.out {
		var h header.H
		if err := h.Parse(d.b); err != nil {
			udpOut = append(udpOut, "unparsable:0:bad")
			continue
		}
		id, ok := byRemoteIndex[h.RemoteIndex]
		if !ok {
			id = fmt.Sprintf("idx%d", h.RemoteIndex)
		}
		flag := "ok"
		if h.Type != header.Message || h.Subtype != 0 || len(d.b) < header.Len+16 || !bytes.Equal(d.b[header.Len:len(d.b)-16], orig) {
			flag = "bad"
		}
		// the datagram must go to the underlay address of the tunnel it was encrypted for
		for i, hid := range hosts {
			if hid == id && d.dst != underlay(i) {
				flag = "bad"
			}
		}
		udpOut = append(udpOut, fmt.Sprintf("%s:%d:%s", id, h.MessageCounter, flag))
	}
	for _, p := range v.Pending() {
		s := fmt.Sprintf("%s=%d", hlib.AddrHex(p.Addr), len(p.Packets))
		for _, q := range p.Packets {
			if !bytes.Equal(q, orig) {
				s += "!"
				break
			}
		}
		pend = append(pend, s)
	}
	return joinOr(tunOut) + " " + joinOr(udpOut) + " " + joinOr(pend), true
}

// ---------------------------------------------------------------------------------------------- generator

func csum16(b []byte) uint16 {
	var s uint32
	for i := 0; i+1 < len(b); i += 2 {
		s += uint32(b[i])<<8 | uint32(b[i+1])
	}
	if len(b)%2 == 1 {
		s += uint32(b[len(b)-1]) << 8
	}
	for s>>16 != 0 {
		s = s&0xffff + s>>16
	}
	return ^uint16(s)
}

// upper builds the transport header + payload of an outgoing packet for the tuple.
func upper(r *hlib.Rand, p firewall.Packet) []byte {
	pay := r.Bytes(r.Intn(24))
	switch p.Protocol {
	case 6:
		b := make([]byte, 20)
		binary.BigEndian.PutUint16(b[0:], p.LocalPort)
		binary.BigEndian.PutUint16(b[2:], p.RemotePort)
		binary.BigEndian.PutUint32(b[4:], uint32(r.U64()))
		binary.BigEndian.PutUint32(b[8:], uint32(r.U64()))
		b[12] = 5 << 4
		b[13] = hlib.Pick(r, byte(0x02), 0x10, 0x18, 0x04)
		binary.BigEndian.PutUint16(b[14:], 65535)
		return append(b, pay...)
	case 17:
		b := make([]byte, 8)
		binary.BigEndian.PutUint16(b[0:], p.LocalPort)
		binary.BigEndian.PutUint16(b[2:], p.RemotePort)
		binary.BigEndian.PutUint16(b[4:], uint16(8+len(pay)))
		return append(b, pay...)
	case 1, 58:
		b := make([]byte, 8)
		b[0] = hlib.Pick(r, byte(8), 0, 128, 129, 3)
		binary.BigEndian.PutUint16(b[4:], uint16(r.U64()))
		binary.BigEndian.PutUint16(b[6:], uint16(r.U64()))
		return append(b, pay...)
	}
	return append(r.Bytes(8), pay...)
}

// BuildPacket serialises an outgoing packet (LocalAddr = source) for the tuple; the family is the destination's.
func BuildPacket(r *hlib.Rand, p firewall.Packet) []byte {
	up := upper(r, p)
	if p.RemoteAddr.Is4() {
		src := p.LocalAddr
		if !src.Is4() {
			src = netip.AddrFrom4([4]byte{10, 9, 9, 9})
		}
		opts := 0
		if r.Chance(1, 10) {
			opts = 4 * r.Range(1, 3)
		}
		b := make([]byte, 20+opts)
		b[0] = 0x40 | byte((20+opts)/4)
		binary.BigEndian.PutUint16(b[2:], uint16(20+opts+len(up)))
		binary.BigEndian.PutUint16(b[4:], uint16(r.U64()))
		if p.Fragment {
			binary.BigEndian.PutUint16(b[6:], uint16(r.Range(1, 0x1fff))|uint16(r.Intn(2))<<13)
		} else if r.Chance(1, 8) {
			b[6] = 0x20 // first fragment: more fragments, offset 0
		}
		b[8] = 64
		b[9] = p.Protocol
		s, d := src.As4(), p.RemoteAddr.As4()
		copy(b[12:], s[:])
		copy(b[16:], d[:])
		for i := 20; i < 20+opts; i++ {
			b[i] = 1 // NOP options
		}
		binary.BigEndian.PutUint16(b[10:], csum16(b))
		return append(b, up...)
	}
	src := p.LocalAddr
	if !src.Is6() {
		src = netip.MustParseAddr("fd99::9")
	}
	var ext []byte
	nh := p.Protocol
	if p.Fragment {
		ext = make([]byte, 8)
		ext[0] = p.Protocol
		binary.BigEndian.PutUint16(ext[2:], uint16(r.Range(1, 0x1fff))<<3|uint16(r.Intn(2)))
		binary.BigEndian.PutUint32(ext[4:], uint32(r.U64()))
		nh = 44
	} else if r.Chance(1, 8) {
		ext = make([]byte, 8) // one hop-by-hop / destination options header, padded
		ext[0] = p.Protocol
		ext[2], ext[3] = 1, 4
		nh = hlib.Pick(r, uint8(0), 60)
	}
	b := make([]byte, 40)
	b[0] = 0x60
	binary.BigEndian.PutUint16(b[4:], uint16(len(ext)+len(up)))
	b[6] = nh
	b[7] = 64
	s, d := src.As16(), p.RemoteAddr.As16()
	copy(b[8:], s[:])
	copy(b[24:], d[:])
	return append(append(b, ext...), up...)
}

func bcastOf(n netip.Prefix) netip.Addr {
	a := n.Masked().Addr().As4()
	v := binary.BigEndian.Uint32(a[:]) | (uint32(0xffffffff) >> uint(n.Bits()))
	if n.Bits() == 0 {
		v = 0xffffffff
	}
	binary.BigEndian.PutUint32(a[:], v)
	return netip.AddrFrom4(a)
}

var counters = []uint64{0, 0, 1, 7, 1<<32 - 1, 1 << 32, 1 << 40}

// Case is one generated `ipkt` op.
type Case struct {
	DLB, DM, Reject bool
	Hosts           []string
	Pending         []netip.Addr
	Routes          []Route
	Ctr             uint64
	Pkt             []byte
}

type Route struct {
	Prefix netip.Prefix
	GWs    []netip.Addr
	Ws     []int
}

func (c Case) Line() string {
	var rts []string
	for _, rt := range c.Routes {
		var g []string
		for i := range rt.GWs {
			g = append(g, fmt.Sprintf("%s:%d", hlib.AddrHex(rt.GWs[i]), rt.Ws[i]))
		}
		rts = append(rts, hlib.PrefixHex(rt.Prefix)+"="+strings.Join(g, "+"))
	}
	rs := "-"
	if len(rts) > 0 {
		rs = strings.Join(rts, ";")
	}
	var pend []string
	for _, a := range c.Pending {
		pend = append(pend, hlib.AddrHex(a))
	}
	pk := hlib.Hex(c.Pkt)
	if len(c.Pkt) == 0 {
		pk = "-"
	}
	return fmt.Sprintf("ipkt %s%s%s%s %s %s %s %d %s", hlib.B(c.DLB), hlib.B(c.DM), hlib.B(nebula.VerifInsideForwardToSelf), hlib.B(c.Reject),
		fwlib.ListTok(c.Hosts), joinOr(pend), rs, c.Ctr, pk)
}

func addUnique(l []netip.Addr, a netip.Addr) []netip.Addr {
	for _, x := range l {
		if x == a {
			return l
		}
	}
	return append(l, a)
}

// GenCase draws one outbound packet for the world: own / foreign sources, destinations that are established peers,
// ourselves, unknown addresses inside our networks, behind a route (one or several gateways, up or pending), broadcast
// and multicast addresses, unroutable addresses; plus a malformed stream.
func GenCase(r *hlib.Rand, w *fwlib.World) Case {
	c := Case{DLB: r.Chance(1, 3), DM: r.Chance(1, 3), Reject: r.Bool(), Ctr: hlib.Pick(r, counters...)}
	var up []int // indexes of established peers
	for i, p := range w.Peers {
		if len(p.CNets) > 0 && r.Chance(3, 4) {
			up = append(up, i)
		}
	}
	for i := len(up) - 1; i > 0; i-- {
		j := r.Intn(i + 1)
		up[i], up[j] = up[j], up[i]
	}
	if len(up) > 4 {
		up = up[:4]
	}
	for _, i := range up {
		c.Hosts = append(c.Hosts, fmt.Sprintf("p%d", i))
	}
	myNet := w.My.CNets[r.Intn(len(w.My.CNets))]
	v6 := myNet.Addr().Is6()
	// a gateway address: a peer's certified address, or an address of our network nobody has a tunnel for
	gwAddr := func() netip.Addr {
		if r.Chance(3, 4) {
			p := w.Peers[r.Intn(len(w.Peers))]
			if len(p.CNets) > 0 {
				return p.CNets[r.Intn(len(p.CNets))].Addr()
			}
		}
		return fwlib.AddrIn(r, myNet)
	}
	if r.Chance(1, 2) {
		for k := hlib.Pick(r, 1, 1, 2); k > 0; k-- {
			var pfx netip.Prefix
			var cand []netip.Prefix
			for _, p := range w.Peers {
				cand = append(cand, p.CUnsafe...)
			}
			if len(cand) > 0 && r.Chance(3, 4) {
				pfx = cand[r.Intn(len(cand))]
			} else {
				pfx = fwlib.RandPrefixAround(r, fwlib.RandAddr(r, v6)).Masked()
			}
			rt := Route{Prefix: pfx}
			for n := hlib.Pick(r, 1, 1, 2, 3); n > 0; n-- {
				rt.GWs = addUnique(rt.GWs, gwAddr())
			}
			for range rt.GWs {
				rt.Ws = append(rt.Ws, r.Range(1, 10))
			}
			c.Routes = append(c.Routes, rt)
		}
	}
	// the tuple
	peer := w.Peers[r.Intn(len(w.Peers))]
	p, _ := w.GenPacket(r, peer)
	// GenPacket aims ports at rules as seen from one direction; for an outgoing packet the rule port is the remote one
	switch r.Intn(20) {
	case 0, 1:
		p.RemoteAddr = w.My.CNets[r.Intn(len(w.My.CNets))].Addr() // ourselves
	case 2, 3:
		p.RemoteAddr = fwlib.AddrIn(r, myNet) // inside our network, probably nobody we know
	case 4, 5, 6:
		if len(c.Routes) > 0 {
			rt := c.Routes[r.Intn(len(c.Routes))]
			p.RemoteAddr = fwlib.AddrIn(r, rt.Prefix)
		}
	case 7:
		if myNet.Addr().Is4() {
			p.RemoteAddr = bcastOf(myNet)
		}
	case 8:
		if v6 {
			p.RemoteAddr = netip.MustParseAddr(hlib.Pick(r, "ff02::1", "ff05::2", "::ffff:224.0.0.5"))
		} else {
			p.RemoteAddr = netip.AddrFrom4([4]byte{byte(224 + r.Intn(16)), 0, 0, byte(r.Intn(256))})
		}
	case 9:
		if len(up) > 0 { // an established peer's address, whichever network it is in
			q := w.Peers[up[r.Intn(len(up))]]
			p.RemoteAddr = q.CNets[r.Intn(len(q.CNets))].Addr()
		}
	}
	if p.LocalAddr.Is4() != p.RemoteAddr.Is4() {
		// the source must be of the destination's family: one of our addresses of that family if we have one
		for _, n := range w.My.CNets {
			if n.Addr().Is4() == p.RemoteAddr.Is4() {
				p.LocalAddr = n.Addr()
			}
		}
	}
	// pending handshakes: the destination, a gateway, something else
	if r.Chance(1, 4) {
		c.Pending = addUnique(c.Pending, p.RemoteAddr)
	}
	if len(c.Routes) > 0 && r.Chance(1, 3) {
		rt := c.Routes[r.Intn(len(c.Routes))]
		c.Pending = addUnique(c.Pending, rt.GWs[r.Intn(len(rt.GWs))])
	}
	if r.Chance(1, 8) {
		c.Pending = addUnique(c.Pending, fwlib.AddrIn(r, myNet))
	}
	c.Pkt = BuildPacket(r, p)
	// malformed stream
	if r.Chance(1, 10) {
		switch r.Intn(5) {
		case 0:
			c.Pkt = c.Pkt[:r.Intn(len(c.Pkt))]
		case 1:
			c.Pkt[0] = byte(r.Intn(256))
		case 2:
			c.Pkt = r.Bytes(r.Intn(60))
		default:
			// a structured packet of the parser's own generator (options, extension chains, damage) with our addresses
			b, _ := pktlib.Any(r)
			if len(b) >= 20 && b[0]>>4 == 4 && p.RemoteAddr.Is4() && p.LocalAddr.Is4() {
				s, d := p.LocalAddr.As4(), p.RemoteAddr.As4()
				copy(b[12:], s[:])
				copy(b[16:], d[:])
			} else if len(b) >= 40 && b[0]>>4 == 6 && p.RemoteAddr.Is6() && p.LocalAddr.Is6() {
				s, d := p.LocalAddr.As16(), p.RemoteAddr.As16()
				copy(b[8:], s[:])
				copy(b[24:], d[:])
			}
			c.Pkt = b
		}
	}
	return c
}

// Family is a deterministic opening family: one node (10.1.1.1/24 + unsafe 192.168.0.0/16), three peers (one of them a
// gateway certified for 172.16.0.0/16, one with a second address outside our network), allow-everything or no outbound
// rule, and packets for every branch of consumeInsidePacket with reject on and off.
func Family(emit func(string, ...any)) int {
	const hour = uint64(3600 * 1000000000)
	r := hlib.NewRand(17)
	ops := 0
	for _, allow := range []bool{true, false} {
		emit("reset 0 %d %d %d 0 me 0a010101/24 c0a80000/16 - ca1", 1000*hour, 1000*hour, 1000*hour)
		emit("peer p0 h1 0a010102/24 - g1 ca1")
		emit("peer p1 gw 0a010103/24 ac100000/16 g1 ca1")
		emit("peer p2 h2 0a010104/24,0a020004/16 - g1 ca1")
		emit("peer p3 gw2 0a010105/24 ac100000/16 g1 ca1")
		if allow {
			emit("rule out 0 0 0 - any - any - -")
		} else {
			emit("rule out 6 443 443 - any - - - -")
		}
		me := netip.MustParseAddr("10.1.1.1")
		type dst struct {
			a       string
			pending string
		}
		dsts := []dst{{"10.1.1.2", "-"}, {"10.1.1.1", "-"}, {"10.1.1.77", "-"}, {"10.1.1.77", "0a01014d"}, {"172.16.5.5", "-"},
			{"172.17.5.5", "-"}, {"10.1.1.255", "-"}, {"224.0.0.1", "-"}, {"10.2.0.4", "-"}, {"10.1.1.4", "-"}, {"8.8.8.8", "-"}}
		srcs := []string{"10.1.1.1", "192.168.3.3", "10.1.1.9"}
		routes := []string{"-", "ac100000/16=0a010103:1", "ac100000/16=0a010103:1+0a010105:3", "ac100000/16=0a010163:1+0a010105:3", "ac100000/16=0a010163:2+0a010164:3"}
		for _, d := range dsts {
			for si, s := range srcs {
				for ri, rt := range routes {
					if ri > 0 && !strings.HasPrefix(d.a, "172.") {
						continue
					}
					for _, flags := range []string{"00", "11"} {
						p := firewall.Packet{LocalAddr: netip.MustParseAddr(s), RemoteAddr: netip.MustParseAddr(d.a),
							LocalPort: uint16(40000 + si + 7*ri), RemotePort: 443, Protocol: hlib.Pick(r, uint8(6), 17)}
						_ = me
						c := Case{DLB: flags[0] == '1', DM: flags[0] == '1', Reject: flags[1] == '1', Hosts: []string{"p0", "p1", "p2", "p3"}, Ctr: 0,
							Pkt: BuildPacket(r, p)}
						line := c.Line()
						// splice pending / routes tokens (Case carries parsed values; the family writes them verbatim)
						tok := strings.Split(line, " ")
						tok[3], tok[4] = d.pending, rt
						emit("%s", strings.Join(tok, " "))
						ops++
					}
				}
			}
		}
	}
	return ops
}
