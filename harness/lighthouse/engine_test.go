// Engine `lighthouse` (C35, C36): the real LightHouse / LightHouseHandler.HandleRequest with a recording
// EncWriter, a Punchy whose scheduled jobs are read back, and the real RemoteLists behind addrMap.
//
// ops (see lean/Nebula/Driver/Lighthouse.lean):
//
//	reset lh=<0|1> v=<1|2> nets=<p,..> lhs=<a,..|-> st=<vpn@ap+ap;..|-> cr=<vpnprefix@mask:port+mask:port;..|->
//	      G <-|prefix=T|F ...> [R <prefix> <prefix=T|F ...>]...                              -> ok | err
//	reload lh=<0|1> lhs=.. st=.. cr=.. G .. [R ..]..   the configuration file changed and is reloaded through
//	                                 config.C.ReloadConfigString (same syntax as reset; nets and v cannot change)
//	                                 -> lhs=<the lighthouse list now in force>
//	msg <from,..> <type> <ver 0|1|2|3> <vpn|-> <v4 aps|-> <v6 aps|-> <oldrelays|-> <relays|->
//	        -> S[to:type:vpn:v4:v6:relays;..] P[target>vpn,..] T[addr|-]
//	bad <from,..> <type> <ver> <vpn|-> <v4|-> <v6|-> <oldrelays|-> <relays|-> <tailhex>
//	                                 the bytes of that message followed by <tail>, which makes Unmarshal fail AFTER the
//	                                 message has been decoded into the handler's reused scratch      -> same format
//	nodetails <from,..> <type>       (a NebulaMeta without Details)        -> same format
//	raw <from,..> <hex>              (arbitrary bytes)                      -> same format
//	dump                             addrMap: key>list-id ... {list contents}
//	addrs <vpn>                      CopyAddrs(nil) of addrMap[vpn] | none
//	roam <vpn,..> <cur|-> <from> <relayed>   the real Interface.handleHostRoaming on a hostinfo of the peer whose remote
//	                                 list is the lighthouse's; `from` is outside my networks (readOutsidePackets
//	                                 has dropped anything else before, see `gate`)      -> remote afterwards | -
//	calc <vpn>                       addCalculatedRemotes(vpn)                -> 0|1
//	gate <hs1|hs2|roam> <v> <allow|-> <from>   two REAL nodes A (10.0.0.1/24, under test, remote_allow_list =
//	                                 allow) and B: B's stage-1 handshake / B's stage-2 answer / a data packet of an
//	                                 established tunnel is injected into A's readOutsidePackets with underlay
//	                                 source `from`     -> remote=<A's remote for B|-> learned=<from in A's cache 0|1>
//	block <vpn> <ap>                 addrMap[vpn].BlockRemote                 -> ok | none
//	delete <vpn,..>                  DeleteVpnAddrs                           -> ok
package lighthouse

import (
	"context"
	"encoding/binary"
	"encoding/hex"
	"fmt"
	"net/netip"
	"sort"
	"strings"
	"testing"
	"testing/synctest"
	"time"

	"github.com/slackhq/nebula"
	"github.com/slackhq/nebula/cert"
	"github.com/slackhq/nebula/config"
	"github.com/slackhq/nebula/header"
	"github.com/slackhq/nebula/test"
	yaml "go.yaml.in/yaml/v3"
	"verifharness/hlib"
	"verifharness/relaynet"
)

// ---- generator

var peers = []string{"10.128.0.10", "10.128.0.11", "10.128.0.12", "fd80::10", "10.128.0.2", "10.128.0.3", "10.128.0.20", "fd80::20", "0.0.0.0", "10.128.0.1"}
var under4 = []string{"1.1.1.1", "8.8.8.8", "70.1.1.1", "192.168.0.5", "172.16.0.9", "10.128.0.99", "10.128.0.1", "10.0.0.1", "10.128.1.0", "10.127.255.255", "192.168.255.255"}
// IPv4-mapped entries for the V6 lists: (a) inside my overlay network, (b) denied by the allow lists of the generated
// configurations, (c) addresses the `block` op blocks, (d) harmless
var under6 = []string{"2001:db8::1", "fd80::99", "fd80::1", "fd81::1", "::ffff:1.1.1.1", "::ffff:10.128.0.99", "::ffff:192.168.0.5", "1::1",
	"::ffff:10.128.0.1", "::ffff:192.168.255.255", "::ffff:70.1.1.1", "::ffff:8.8.8.8", "::ffff:70.9.9.1"}
var ports = []int{4242, 4242, 1, 65535, 0}

func ap4(r *hlib.Rand) string {
	return hlib.AddrPortHex(netip.AddrPortFrom(netip.MustParseAddr(hlib.Pick(r, under4...)), uint16(hlib.Pick(r, ports...))))
}
func ap6(r *hlib.Rand) string {
	return hlib.AddrPortHex(netip.AddrPortFrom(netip.MustParseAddr(hlib.Pick(r, under6...)), uint16(hlib.Pick(r, ports...))))
}
func hx(s string) string { return hlib.AddrHex(netip.MustParseAddr(s)) }

func listOf(r *hlib.Rand, n int, f func() string) string {
	if n == 0 {
		return "-"
	}
	var l []string
	for i := 0; i < n; i++ {
		l = append(l, f())
	}
	return strings.Join(l, ",")
}

func gen(r *hlib.Rand, n int, tier, profile string, emit func(string, ...any)) {
	// the learned-address gate on two real nodes (A = 10.0.0.1/24 at 192.0.2.1, B = 10.0.0.2 at 192.0.2.2)
	ng := n / 40
	if profile != "C36" {
		ng = n / 200
	}
	for i := 0; i < ng; i++ {
		from := hlib.Pick(r, "192.0.2.2:4242", "192.0.2.2:4242", "192.0.2.9:4242", "10.0.0.77:4242", "10.0.0.2:4242", "10.0.1.1:4242",
			"9.255.255.255:1", "192.168.0.5:4242", "192.168.255.255:9", "[2001:db8::1]:4242", "[fd00::1]:4242", "8.8.8.8:53")
		allow := hlib.Pick(r, "-", "-", "00000000/0=T,c0a80000/16=F", "c0000200/24=T", "00000000/0=T,c0000209/32=F,00000000000000000000000000000000/0=F", "08080808/32=F",
			"00000000/0=T~0a000000/24~c0000209/32=F", "00000000/0=T~0a000002/32~00000000/0=F,c0000200/24=T", "08080808/32=F~0a000000/24~09ffffff/32=F,c0a80000/16=F", "00000000/0=T~0a000003/32~00000000/0=F")
		emit("gate %s %d %s %s", hlib.Pick(r, "hs1", "hs2", "roam", "roam"), hlib.Pick(r, 1, 2), allow, hlib.AddrPortHex(netip.MustParseAddrPort(from)))
	}
	// deterministic preamble: an undecodable packet with a decodable prefix carrying attacker data (v4 / v6 addresses,
	// old and new relays, a claimed owner) from an ordinary peer and from a lighthouse, immediately followed by an
	// authorised message of every type from ANOTHER sender; on a lighthouse and on an ordinary node
	{
		evil4 := "06060606:666,06060607:666"
		evil6 := hlib.AddrPortHex(netip.MustParseAddrPort("[2001:db8::666]:666")) + "," + hlib.AddrPortHex(netip.MustParseAddrPort("[::ffff:6.6.6.8]:666"))
		peerP, peerV, lh1, lh2 := hx("10.128.0.11"), hx("10.128.0.10"), hx("10.128.0.2"), hx("10.128.0.3")
		for _, lhNode := range []bool{true, false} {
			for _, attacker := range []string{peerP, lh2} {
				for _, ver := range []int{2, 1} {
					if lhNode {
						emit("reset lh=1 v=%d nets=0a800001/24 lhs=- st=- cr=- G -", ver)
					} else {
						emit("reset lh=0 v=%d nets=0a800001/24 lhs=%s,%s st=%s@46010102:4242;%s@46010103:4242 cr=- G -", ver, lh1, lh2, lh1, lh2)
					}
					for _, typ := range []int{3, 2, 5, 1, 3} {
						sender := peerV
						if !lhNode && (typ == 2 || typ == 5) {
							sender = lh1
						}
						tail := hlib.Pick(r, "ff", "0f", "1a05", "ff")
						emit("bad %s %d %d %s %s %s %s %s %s", attacker, typ, ver, peerV, evil4, evil6, hx("10.128.0.30"), hx("10.128.0.31")+","+hx("fd80::30"), tail)
						emit("msg %s %d %d %s 01010101:4242 %s - %s", sender, typ, ver, peerV, hlib.AddrPortHex(netip.MustParseAddrPort("[2001:db8::1]:4242")), hx("10.128.0.32"))
						emit("dump")
					}
					emit("msg %s 1 %d %s - - - -", hx("10.128.0.12"), ver, peerV)
				}
			}
		}
	}
	for i := 0; i < n; {
		amLH := r.Chance(1, 2)
		nets := "0a800001/24"
		if r.Chance(1, 3) {
			nets += ",fd800000000000000000000000000001/64"
		}
		lhs := "-"
		st := "-"
		switch {
		case !amLH || r.Chance(1, 4):
			k := hlib.Pick(r, 1, 1, 2)
			if !amLH && r.Chance(1, 10) {
				k = 0
			}
			var l, s []string
			for j := 0; j < k; j++ {
				a := []string{"10.128.0.2", "10.128.0.3"}[j]
				l = append(l, hx(a))
				s = append(s, hx(a)+"@"+hlib.AddrPortHex(netip.MustParseAddrPort([]string{"70.1.1.2:4242", "70.1.1.3:4242"}[j])))
			}
			if len(l) > 0 {
				lhs, st = strings.Join(l, ","), strings.Join(s, ";")
			}
		}
		if r.Chance(1, 3) {
			// an extra static host, some of its addresses unusable, sometimes more than ten
			k := hlib.Pick(r, 1, 2, 3, 10)
			var as []string
			for j := 0; j < k; j++ {
				if k == 10 {
					as = append(as, hlib.AddrPortHex(netip.AddrPortFrom(netip.MustParseAddr("70.2.2.2"), uint16(1000+j))))
				} else if r.Bool() {
					as = append(as, ap4(r))
				} else {
					a := netip.MustParseAddrPort(fmt.Sprintf("[%s]:4242", hlib.Pick(r, "2001:db8::1", "fd80::99", "fd81::1", "::ffff:10.128.0.99", "::ffff:192.168.0.5", "::ffff:70.2.2.9")))
					as = append(as, hlib.AddrPortHex(a))
				}
			}
			e := hx("10.128.0.12") + "@" + strings.Join(as, "+")
			if st == "-" {
				st = e
			} else {
				st += ";" + e
			}
		}
		g := "-"
		switch r.Intn(4) {
		case 0:
			g = "00000000/0=T c0a80000/16=F"
		case 1:
			g = "00000000/0=T c0a80000/16=F 00000000000000000000000000000000/0=T 20010db8000000000000000000000000/32=F"
		case 2:
			g = "01010101/32=F"
		}
		cr := "-"
		if r.Chance(1, 3) {
			// calculated remotes for 10.128.0.0/24 (and sometimes a more specific entry): the overlay host bits are
			// spliced into a public, a private-denied or an overlay-internal underlay network
			m := func() string {
				return hlib.PrefixHex(netip.MustParsePrefix(hlib.Pick(r, "70.3.3.0/24", "192.168.7.0/24", "10.128.0.0/24", "70.4.0.0/16", "1.1.1.1/32"))) + ":" + fmt.Sprint(hlib.Pick(r, 4242, 4243))
			}
			cr = hlib.PrefixHex(netip.MustParsePrefix("10.128.0.0/24")) + "@" + m()
			for x := r.Intn(3); x > 0; x-- {
				cr += "+" + m()
			}
			if r.Chance(1, 3) {
				cr += ";" + hlib.PrefixHex(netip.MustParsePrefix("10.128.0.8/29")) + "@" + m()
			}
		}
		if g != "-" && r.Chance(1, 2) {
			// per-overlay-range lists: apply in addition to the global one
			g += " R " + hlib.PrefixHex(netip.MustParsePrefix(hlib.Pick(r, "10.128.0.8/29", "10.128.0.0/24", "fd80::/64"))) + " " +
				hlib.Pick(r, "46000000/8=F", "00000000/0=T 46010101/32=F", "08080808/32=T", "00000000/0=F 01010101/32=T", "00000000000000000000000000000000/0=F")
			if r.Chance(1, 3) {
				g += " R " + hlib.PrefixHex(netip.MustParsePrefix("10.128.0.20/32")) + " 00000000/0=T ac100000/12=F"
			}
		}
		emit("reset lh=%s v=%d nets=%s lhs=%s st=%s cr=%s G %s", hlib.B(amLH), hlib.Pick(r, 1, 2, 2), nets, lhs, st, cr, g)
		// configuration reloads later in the case mutate these
		cfgLH, cfgLhs, cfgSt, cfgCr, cfgG := amLH, lhs, st, cr, g
		lhStatic := map[string]string{"10.128.0.2": "70.1.1.2:4242", "10.128.0.3": "70.1.1.3:4242", "10.128.0.4": "70.1.1.4:4242"}
		split := func(s, sep string) []string {
			if s == "-" {
				return nil
			}
			return strings.Split(s, sep)
		}
		join := func(l []string, sep string) string {
			if len(l) == 0 {
				return "-"
			}
			return strings.Join(l, sep)
		}
		hasStatic := func(vpnHex string) bool {
			for _, e := range split(cfgSt, ";") {
				if strings.HasPrefix(e, vpnHex+"@") {
					return true
				}
			}
			return false
		}
		reload := func() {
			hosts := split(cfgLhs, ",")
			sts := split(cfgSt, ";")
			addHost := func(a string, withStatic bool) {
				for _, h := range hosts {
					if h == hx(a) {
						return
					}
				}
				hosts = append(hosts, hx(a))
				if withStatic && !hasStatic(hx(a)) {
					sts = append(sts, hx(a)+"@"+hlib.AddrPortHex(netip.MustParseAddrPort(lhStatic[a])))
				}
			}
			switch r.Intn(12) {
			case 0, 1, 2: // a lighthouse is removed (its static entry stays)
				if len(hosts) > 0 {
					i := r.Intn(len(hosts))
					hosts = append(append([]string{}, hosts[:i]...), hosts[i+1:]...)
				}
			case 3: // the list is permuted
				if len(hosts) > 1 {
					hosts[0], hosts[len(hosts)-1] = hosts[len(hosts)-1], hosts[0]
				}
			case 4, 5: // a lighthouse is added, with its static entry
				addHost(hlib.Pick(r, "10.128.0.2", "10.128.0.3", "10.128.0.4"), true)
			case 6: // replaced: one out, another in
				if len(hosts) > 0 {
					hosts = hosts[1:]
				}
				addHost(hlib.Pick(r, "10.128.0.3", "10.128.0.4"), true)
			case 7: // a host without static entry: the reload of the list is refused
				addHost(hlib.Pick(r, "10.128.0.4", "10.128.0.11"), false)
			case 8: // am_lighthouse flipped in the file (not reloadable)
				cfgLH = !cfgLH
			case 9: // remote allow list changed
				cfgG = hlib.Pick(r, "-", "00000000/0=T c0a80000/16=F", "01010101/32=F", "00000000/0=T 46000000/8=F", "00000000/0=T R 0a800000/24 08080808/32=F")
			case 10: // the extra static host goes away / changes
				var keep []string
				for _, e := range sts {
					if !strings.HasPrefix(e, hx("10.128.0.12")+"@") {
						keep = append(keep, e)
					}
				}
				if len(keep) == len(sts) {
					keep = append(keep, hx("10.128.0.12")+"@"+ap4(r))
				}
				sts = keep
			case 11: // calculated remotes changed
				cfgCr = hlib.Pick(r, "-", hlib.PrefixHex(netip.MustParsePrefix("10.128.0.0/24"))+"@"+hlib.PrefixHex(netip.MustParsePrefix("70.3.3.0/24"))+":4242")
			}
			cfgLhs, cfgSt = join(hosts, ","), join(sts, ";")
			emit("reload lh=%s lhs=%s st=%s cr=%s G %s", hlib.B(cfgLH), cfgLhs, cfgSt, cfgCr, cfgG)
		}
		nReload := hlib.Pick(r, 0, 0, 1, 1, 2, 3)
		if strings.Contains(g, " R ") && lhs != "-" {
			// per-range lists are keyed by the PEER's overlay address, not by the lighthouse that relays the news:
			// a punch notification and an answer about peers inside / outside the ranges, carrying addresses the
			// range lists deny
			for x := r.Intn(3); x > 0; x-- {
				peer := hx(hlib.Pick(r, "10.128.0.10", "10.128.0.11", "10.128.0.12", "10.128.0.20", "10.128.0.30", "fd80::10"))
				l4 := strings.Join([]string{hlib.AddrPortHex(netip.MustParseAddrPort("70.1.1.1:4242")), hlib.AddrPortHex(netip.MustParseAddrPort("8.8.8.8:4242")),
					hlib.AddrPortHex(netip.MustParseAddrPort("1.1.1.1:4242")), hlib.AddrPortHex(netip.MustParseAddrPort("172.16.0.9:4242")), ap4(r)}, ",")
				emit("msg %s %d 2 %s %s %s - -", hx(hlib.Pick(r, "10.128.0.2", "10.128.0.3")), hlib.Pick(r, 5, 5, 2), peer, l4,
					hlib.Pick(r, "-", hlib.AddrPortHex(netip.MustParseAddrPort("[2001:db8::1]:4242"))+","+hlib.AddrPortHex(netip.MustParseAddrPort("[::ffff:70.1.1.1]:1"))))
				i++
			}
		}
		i++
		from := func() string {
			switch r.Intn(10) {
			case 0:
				return hx("10.128.0.20") + "," + hx("fd80::20")
			case 1:
				return hx("fd80::20") + "," + hx("10.128.0.20")
			case 2:
				return hx("10.128.0.11") + "," + hx("10.128.0.2")
			case 3, 4:
				return hx(hlib.Pick(r, "10.128.0.2", "10.128.0.3", "10.128.0.2", "10.128.0.3", "10.128.0.4"))
			}
			return hx(hlib.Pick(r, peers[:8]...))
		}
		k := hlib.Pick(r, 2, 4, 8, 12, 20)
		for j := 0; j < k; j++ {
			i++
			if nReload > 0 && r.Chance(1, 4) {
				nReload--
				reload()
				i++
			}
			if r.Chance(1, 12) {
				// an undecodable packet right before whatever comes next
				emit("bad %s %d %d %s %s %s %s %s %s", from(), hlib.Pick(r, 1, 2, 3, 5, r.Intn(12)), hlib.Pick(r, 1, 2, 0), hx(hlib.Pick(r, peers...)),
					listOf(r, hlib.Pick(r, 0, 1, 3), func() string { return ap4(r) }), listOf(r, hlib.Pick(r, 0, 1, 2), func() string { return ap6(r) }),
					listOf(r, hlib.Pick(r, 0, 1), func() string { return hx("10.128.0.30") }), listOf(r, hlib.Pick(r, 0, 1, 2), func() string { return hx(hlib.Pick(r, "10.128.0.31", "fd80::30")) }),
					hlib.Pick(r, "ff", "0f", "1a05"))
				i++
			}
			switch r.Intn(20) {
			case 0:
				emit("dump")
			case 1, 6:
				emit("addrs %s", hx(hlib.Pick(r, "10.128.0.12", "10.128.0.2", "10.128.0.10", "10.128.0.11", "10.128.0.20", "fd80::20", hlib.Pick(r, peers...))))
			case 2, 7:
				// roaming / handshake learn through the real gate: sources outside my networks only (the
				// readOutsidePackets check precedes; it is exercised by `gate`)
				via := hlib.Pick(r, "1.1.1.1:4242", "8.8.8.8:1", "70.1.1.1:4242", "192.168.0.5:4242", "172.16.0.9:4242", "10.0.0.1:4242", "[2001:db8::1]:4242", "[fd81::1]:4242", "70.1.1.1:1")
				cur := hlib.Pick(r, "-", "-", hlib.AddrPortHex(netip.MustParseAddrPort("70.1.1.1:4242")), hlib.AddrPortHex(netip.MustParseAddrPort("1.1.1.1:4242")))
				emit("roam %s %s %s %s", from(), cur, hlib.AddrPortHex(netip.MustParseAddrPort(via)), hlib.Pick(r, "0", "0", "0", "1"))
			case 8:
				emit("calc %s", hx(hlib.Pick(r, "10.128.0.10", "10.128.0.11", "10.128.0.12", "10.128.0.20", "10.128.0.99", "10.129.0.1")))
			case 3:
				emit("block %s %s", hx(hlib.Pick(r, "10.128.0.12", "10.128.0.2", "10.128.0.10", "10.128.0.11", hlib.Pick(r, peers...))), hlib.Pick(r, ap4(r), "46020202:1000", "46010102:4242", "46010101:4242", "01010101:4242", "08080808:4242", "46090901:4242"))
			case 4:
				emit("delete %s", from())
			case 5:
				if r.Bool() {
					emit("nodetails %s %d", from(), r.Intn(12))
				} else {
					// field 1 with the invalid wire type 7: never decodes
					emit("raw %s 0f%s", from(), strings.TrimPrefix(hlib.Hex(r.Bytes(hlib.Pick(r, 0, 1, 2, 5, 20))), "-"))
				}
			default:
				typ := hlib.Pick(r, 1, 1, 2, 2, 3, 3, 3, 5, 5, r.Intn(12))
				ver := hlib.Pick(r, 1, 2, 2, 2, 0, 3)
				vpn := hx(hlib.Pick(r, peers...))
				if r.Chance(1, 12) {
					vpn = "-"
				}
				if r.Chance(1, 20) {
					vpn = hlib.AddrHex(netip.MustParseAddr("::ffff:10.128.0.10"))
				}
				n4 := hlib.Pick(r, 0, 1, 2, 3, 3, 10, 11, 13)
				n6 := hlib.Pick(r, 0, 0, 1, 2, 11)
				emit("msg %s %d %d %s %s %s %s %s", from(), typ, ver, vpn,
					listOf(r, n4, func() string { return ap4(r) }), listOf(r, n6, func() string { return ap6(r) }),
					listOf(r, hlib.Pick(r, 0, 0, 1, 2), func() string { return hx(hlib.Pick(r, "10.128.0.30", "10.128.0.31")) }),
					listOf(r, hlib.Pick(r, 0, 0, 1, 2, 12), func() string { return hx(hlib.Pick(r, "10.128.0.30", "fd80::30", "10.128.0.32")) }))
			}
		}
		emit("dump")
		i++
	}
}

// ---- executor

type sent struct {
	to  netip.Addr
	msg *nebula.NebulaMeta
}

type recWriter struct {
	sent []sent
	v    cert.Version
	nets []netip.Prefix
}

func (w *recWriter) SendVia(via *nebula.HostInfo, relay *nebula.Relay, ad, nb, out []byte, nocopy bool, q int) {
}
func (w *recWriter) Handshake(vpnIp netip.Addr) {}
func (w *recWriter) SendMessageToHostInfo(t header.MessageType, st header.MessageSubType, hostinfo *nebula.HostInfo, p, _, _ []byte) {
	panic("unexpected SendMessageToHostInfo")
}
func (w *recWriter) SendMessageToVpnAddr(t header.MessageType, st header.MessageSubType, vpnIp netip.Addr, p, _, _ []byte) {
	m := &nebula.NebulaMeta{}
	if err := m.Unmarshal(p); err != nil {
		panic(err)
	}
	if t != header.LightHouse || st != 0 {
		panic("unexpected message type")
	}
	w.sent = append(w.sent, sent{vpnIp, m})
}
func (w *recWriter) GetHostInfo(vpnIp netip.Addr) *nebula.HostInfo { return nil }
func (w *recWriter) GetCertState() *nebula.CertState               { return nebula.VerifCertState(w.v, w.nets) }

func u32(a netip.Addr) uint32 { b := a.As4(); return binary.BigEndian.Uint32(b[:]) }
func hex4(v uint32) string {
	var b [4]byte
	binary.BigEndian.PutUint32(b[:], v)
	return hex.EncodeToString(b[:])
}
func hex16(hi, lo uint64) string {
	var b [16]byte
	binary.BigEndian.PutUint64(b[:8], hi)
	binary.BigEndian.PutUint64(b[8:], lo)
	return hex.EncodeToString(b[:])
}
func protoAddr(a netip.Addr) *nebula.Addr {
	b := a.As16()
	return &nebula.Addr{Hi: binary.BigEndian.Uint64(b[:8]), Lo: binary.BigEndian.Uint64(b[8:])}
}

func join(l []string, sep string) string {
	if len(l) == 0 {
		return "-"
	}
	return strings.Join(l, sep)
}

func showMsg(s sent) string {
	d := s.msg.Details
	vpn := "0"
	var v4, v6, rel []string
	if d != nil {
		if d.OldVpnAddr != 0 {
			vpn = "1/" + hex4(d.OldVpnAddr)
		} else if d.VpnAddr != nil {
			vpn = "2/" + hex16(d.VpnAddr.Hi, d.VpnAddr.Lo)
		}
		for _, a := range d.V4AddrPorts {
			v4 = append(v4, fmt.Sprintf("%s:%d", hex4(a.Addr), a.Port))
		}
		for _, a := range d.V6AddrPorts {
			v6 = append(v6, fmt.Sprintf("%s:%d", hex16(a.Hi, a.Lo), a.Port))
		}
		for _, a := range d.OldRelayVpnAddrs {
			rel = append(rel, "o"+hex4(a))
		}
		for _, a := range d.RelayVpnAddrs {
			rel = append(rel, "n"+hex16(a.Hi, a.Lo))
		}
	} else {
		vpn = "nil"
	}
	return fmt.Sprintf("%s|%d|%s|%s|%s|%s", hlib.AddrHex(s.to), int(s.msg.Type), vpn, join(v4, ","), join(v6, ","), join(rel, ","))
}

func parseAddrs(s string) []netip.Addr {
	if s == "-" {
		return nil
	}
	var out []netip.Addr
	for _, t := range strings.Split(s, ",") {
		out = append(out, hlib.ParseAddrHex(t))
	}
	return out
}

func parseAPs(s string) []netip.AddrPort {
	if s == "-" {
		return nil
	}
	var out []netip.AddrPort
	for _, t := range strings.Split(s, ",") {
		out = append(out, hlib.ParseAddrPortHex(t))
	}
	return out
}

func aps(l []netip.AddrPort) string {
	var s []string
	for _, a := range l {
		s = append(s, hlib.AddrPortHex(a))
	}
	return join(s, ",")
}

func addrs(l []netip.Addr) string {
	var s []string
	for _, a := range l {
		s = append(s, hlib.AddrHex(a))
	}
	return join(s, ",")
}

func showCache(rl *nebula.RemoteList, me netip.Addr) string {
	cm := *rl.CopyCache()
	var keys []netip.Addr
	for k := range cm {
		keys = append(keys, netip.MustParseAddr(k))
	}
	sort.Slice(keys, func(i, j int) bool { return keys[i].Less(keys[j]) })
	var parts []string
	for _, k := range keys {
		c := cm[k.String()]
		rep := aps(c.Reported)
		if k == me && len(c.Reported) > 0 {
			// static entries are prepended in Go map iteration order: canonicalise
			l := strings.Split(rep, ",")
			sort.Strings(l)
			rep = strings.Join(l, ",")
		}
		parts = append(parts, hlib.AddrHex(k)+"[L:"+aps(c.Learned)+"|R:"+rep+"|Y:"+addrs(c.Relay)+"]")
	}
	return join(parts, ";")
}

// buildSettings renders the configuration of a reset / reload line as the settings tree nebula reads.
func buildSettings(kv map[string]string, gToks []string) map[string]any {
	out := map[string]any{}
	lhc := map[string]any{"am_lighthouse": kv["lh"] == "1"}
	out["listen"] = map[string]any{"port": 4242}
	out["punchy"] = map[string]any{"punch": true, "respond": true}
	if kv["lhs"] != "-" && kv["lhs"] != "" {
		var hosts []any
		for _, x := range parseAddrs(kv["lhs"]) {
			hosts = append(hosts, x.String())
		}
		lhc["hosts"] = hosts
	}
	if kv["st"] != "-" && kv["st"] != "" {
		shm := map[string]any{}
		for _, e := range strings.Split(kv["st"], ";") {
			k, v, _ := strings.Cut(e, "@")
			var vals []any
			for _, x := range strings.Split(v, "+") {
				vals = append(vals, hlib.ParseAddrPortHex(x).String())
			}
			shm[hlib.ParseAddrHex(k).String()] = vals
		}
		out["static_host_map"] = shm
	}
	if len(gToks) > 0 && gToks[0] != "-" {
		m := map[string]any{}
		ranges := map[string]any{}
		cur := m
		for i := 0; i < len(gToks); i++ {
			if gToks[i] == "R" {
				cur = map[string]any{}
				ranges[hlib.ParsePrefixHex(gToks[i+1]).String()] = cur
				i++
				continue
			}
			k, v, _ := strings.Cut(gToks[i], "=")
			cur[hlib.ParsePrefixHex(k).String()] = v == "T"
		}
		lhc["remote_allow_list"] = m
		if len(ranges) > 0 {
			lhc["remote_allow_ranges"] = ranges
		}
	}
	if cr := kv["cr"]; cr != "" && cr != "-" {
		crm := map[string]any{}
		for _, e := range strings.Split(cr, ";") {
			k, v, _ := strings.Cut(e, "@")
			var l []any
			for _, x := range strings.Split(v, "+") {
				i := strings.LastIndexByte(x, ':')
				l = append(l, map[string]any{"mask": hlib.ParsePrefixHex(x[:i]).String(), "port": hlib.Atoi(x[i+1:])})
			}
			crm[hlib.ParsePrefixHex(k).String()] = l
		}
		lhc["calculated_remotes"] = crm
	}
	out["lighthouse"] = lhc
	return out
}

func splitKV(a []string) (map[string]string, []string) {
	kv := map[string]string{}
	for i, tkn := range a {
		if tkn == "G" {
			return kv, a[i+1:]
		}
		k, v, _ := strings.Cut(tkn, "=")
		kv[k] = v
	}
	return kv, nil
}

func newExec(t *testing.T) func([]string) string {
	var lh *nebula.LightHouse
	var cfgC *config.C
	var lhh *nebula.LightHouseHandler
	var p *nebula.Punchy
	var w *recWriter
	var trig chan netip.Addr
	var cancel context.CancelFunc
	l := test.NewLogger()
	t.Cleanup(func() {
		if cancel != nil {
			cancel()
		}
	})
	rAddr := netip.MustParseAddrPort("70.9.9.9:4242")

	handle := func(from []netip.Addr, b []byte) string {
		w.sent = nil
		lhh.HandleRequest(rAddr, from, b, w)
		time.Sleep(30 * time.Second)
		synctest.Wait()
		var ss []string
		for _, s := range w.sent {
			ss = append(ss, showMsg(s))
		}
		targets, vpns := nebula.VerifPunchyDrain(p)
		var ps []string
		for i := range targets {
			tg := "-"
			if targets[i].IsValid() {
				tg = hlib.AddrPortHex(targets[i])
			}
			ps = append(ps, tg+">"+hlib.AddrHex(vpns[i]))
		}
		sort.Strings(ps)
		tr := "-"
		select {
		case a := <-trig:
			tr = hlib.AddrHex(a)
		default:
		}
		return "S[" + join(ss, ";") + "] P[" + join(ps, ",") + "] T[" + tr + "]"
	}

	return func(a []string) string {
		if a[0] == "gate" {
			return gate(a)
		}
		if a[0] != "reset" && lh == nil {
			return "none"
		}
		switch a[0] {
		case "reset":
			if cancel != nil {
				cancel()
				synctest.Wait()
			}
			lh, lhh, p = nil, nil, nil
			kv := map[string]string{}
			gi := len(a)
			for i, tkn := range a[1:] {
				if tkn == "G" {
					gi = i + 1
					break
				}
				k, v, _ := strings.Cut(tkn, "=")
				kv[k] = v
			}
			c := config.NewC(l)
			for k, v := range buildSettings(kv, a[min(gi+1, len(a)):]) {
				c.Settings[k] = v
			}
			cfgC = c
			var nets []netip.Prefix
			for _, s := range strings.Split(kv["nets"], ",") {
				nets = append(nets, hlib.ParsePrefixHex(s))
			}
			var ctx context.Context
			ctx, cancel = context.WithCancel(context.Background())
			v := cert.Version2
			if kv["v"] == "1" {
				v = cert.Version1
			}
			w = &recWriter{v: v, nets: nets}
			trig = make(chan netip.Addr, 8)
			p = nebula.VerifNewPunchy(ctx, l, c)
			var err error
			lh, err = nebula.VerifNewLightHouse(ctx, l, c, nebula.VerifCertState(v, nets), p, w, trig)
			if err != nil {
				lh = nil
				return "err"
			}
			lhh = lh.NewRequestHandler()
			return "ok"
		case "reload":
			// the real reload path: the whole configuration is re-read through config.C.ReloadConfigString and the
			// callbacks registered by NewLightHouseFromConfig / NewPunchyFromConfig run
			kv, gToks := splitKV(a[1:])
			y, err := yaml.Marshal(buildSettings(kv, gToks))
			if err != nil {
				panic(err)
			}
			if err := cfgC.ReloadConfigString(string(y)); err != nil {
				return "err " + err.Error()
			}
			synctest.Wait()
			return "lhs=" + addrs(lh.GetLighthouses())
		case "msg", "bad":
			from := parseAddrs(a[1])
			d := &nebula.NebulaMetaDetails{}
			var vpn netip.Addr
			if a[4] != "-" {
				vpn = hlib.ParseAddrHex(a[4])
			}
			ver := a[3]
			if vpn.IsValid() {
				if (ver == "1" || ver == "3") && vpn.Unmap().Is4() {
					d.OldVpnAddr = u32(vpn.Unmap())
				}
				if ver == "2" {
					d.VpnAddr = protoAddr(vpn)
				}
				if ver == "3" {
					d.VpnAddr = protoAddr(netip.MustParseAddr("fd99::77"))
				}
			}
			for _, x := range parseAPs(a[5]) {
				d.V4AddrPorts = append(d.V4AddrPorts, &nebula.V4AddrPort{Addr: u32(x.Addr()), Port: uint32(x.Port())})
			}
			for _, x := range parseAPs(a[6]) {
				pa := protoAddr(x.Addr())
				d.V6AddrPorts = append(d.V6AddrPorts, &nebula.V6AddrPort{Hi: pa.Hi, Lo: pa.Lo, Port: uint32(x.Port())})
			}
			for _, x := range parseAddrs(a[7]) {
				d.OldRelayVpnAddrs = append(d.OldRelayVpnAddrs, u32(x))
			}
			for _, x := range parseAddrs(a[8]) {
				d.RelayVpnAddrs = append(d.RelayVpnAddrs, protoAddr(x))
			}
			m := &nebula.NebulaMeta{Type: nebula.NebulaMeta_MessageType(hlib.Atoi(a[2])), Details: d}
			b, err := m.Marshal()
			if err != nil {
				panic(err)
			}
			if a[0] == "bad" {
				// a valid NebulaMeta followed by bytes that make the generated Unmarshal fail: everything before the
				// tail is decoded into the handler's scratch before the error is returned
				tail, _ := hlib.UnHex(a[9])
				b = append(b, tail...)
				if (&nebula.NebulaMeta{}).Unmarshal(b) == nil {
					return "decodes"
				}
			}
			return handle(from, b)
		case "nodetails":
			m := &nebula.NebulaMeta{Type: nebula.NebulaMeta_MessageType(hlib.Atoi(a[2]))}
			b, err := m.Marshal()
			if err != nil {
				panic(err)
			}
			return handle(parseAddrs(a[1]), b)
		case "raw":
			b, _ := hlib.UnHex(a[2])
			return handle(parseAddrs(a[1]), b)
		case "dump":
			am := nebula.VerifLHAddrMap(lh)
			var keys []netip.Addr
			for k := range am {
				keys = append(keys, k)
			}
			sort.Slice(keys, func(i, j int) bool { return keys[i].Less(keys[j]) })
			id := map[*nebula.RemoteList]netip.Addr{}
			var order []*nebula.RemoteList
			var parts []string
			for _, k := range keys {
				rl := am[k]
				if _, ok := id[rl]; !ok {
					id[rl] = k
					order = append(order, rl)
				}
				parts = append(parts, hlib.AddrHex(k)+">"+hlib.AddrHex(id[rl]))
			}
			var lists []string
			for _, rl := range order {
				lists = append(lists, hlib.AddrHex(id[rl])+"{V:"+addrs(nebula.VerifRLVpnAddrs(rl))+" C:"+showCache(rl, w.nets[0].Addr())+"}")
			}
			return join(parts, ",") + " " + join(lists, " ")
		case "addrs":
			rl, ok := nebula.VerifLHAddrMap(lh)[hlib.ParseAddrHex(a[1])]
			if !ok {
				return "none"
			}
			return aps(rl.CopyAddrs(nil))
		case "roam":
			vs := parseAddrs(a[1])
			var cur netip.AddrPort
			if a[2] != "-" {
				cur = hlib.ParseAddrPortHex(a[2])
			}
			nr := nebula.VerifLHRoam(lh, l, vs, cur, hlib.ParseAddrPortHex(a[3]), a[4] == "1")
			if !nr.IsValid() {
				return "-"
			}
			return hlib.AddrPortHex(nr)
		case "calc":
			return hlib.B(nebula.VerifLHAddCalculated(lh, hlib.ParseAddrHex(a[1])))
		case "block":
			rl, ok := nebula.VerifLHAddrMap(lh)[hlib.ParseAddrHex(a[1])]
			if !ok {
				return "none"
			}
			rl.BlockRemote(nebula.ViaSender{UdpAddr: hlib.ParseAddrPortHex(a[2])})
			return "ok"
		case "delete":
			lh.DeleteVpnAddrs(parseAddrs(a[1]))
			return "ok"
		}
		return "bad-op"
	}
}

// gate runs one packet through the real packet path of a real node (readOutsidePackets -> handshake manager /
// handleHostRoaming -> SetRemote -> LearnRemote) and reports what node A now believes about B.
func gate(a []string) string {
	ver := cert.Version2
	if a[2] == "1" {
		ver = cert.Version1
	}
	net, err := relaynet.New(1, ver, 100, []relaynet.NodeSpec{{}, {}})
	if err != nil {
		return "err " + err.Error()
	}
	defer func() {
		net.Close()
		synctest.Wait()
	}()
	A, B := net.Nodes[0], net.Nodes[1]
	if a[3] != "-" {
		// <global entries>[~<range prefix>~<range entries>]
		parts := strings.Split(a[3], "~")
		list := func(s string) map[string]any {
			m := map[string]any{}
			for _, e := range strings.Split(s, ",") {
				k, v, _ := strings.Cut(e, "=")
				m[hlib.ParsePrefixHex(k).String()] = v == "T"
			}
			return m
		}
		m := list(parts[0])
		lhc, _ := A.C.Settings["lighthouse"].(map[string]any)
		if lhc == nil {
			return "err no lighthouse settings"
		}
		ns := map[string]any{}
		for k, v := range A.C.Settings {
			ns[k] = v
		}
		nl := map[string]any{}
		for k, v := range lhc {
			nl[k] = v
		}
		nl["remote_allow_list"] = m
		if len(parts) == 3 {
			nl["remote_allow_ranges"] = map[string]any{hlib.ParsePrefixHex(parts[1]).String(): list(parts[2])}
		}
		ns["lighthouse"] = nl
		y, err := yaml.Marshal(ns)
		if err != nil {
			return "err " + err.Error()
		}
		if err := A.Reload(string(y)); err != nil {
			return "err " + err.Error()
		}
	}
	from := hlib.ParseAddrPortHex(a[4])
	last := func(to netip.AddrPort) []byte {
		var out []byte
		for _, w := range net.Take() {
			if w.To == to {
				out = w.Data
			}
		}
		return out
	}
	switch a[1] {
	case "hs1":
		B.InjectLightHouseAddr(A.Vpn, A.Udp)
		B.StartHandshake(A.Vpn)
		p := last(A.Udp)
		if p == nil {
			return "err no stage-1 packet"
		}
		A.Inject(from, p)
	case "hs2":
		A.InjectLightHouseAddr(B.Vpn, B.Udp)
		A.StartHandshake(B.Vpn)
		p := last(B.Udp)
		if p == nil {
			return "err no stage-1 packet"
		}
		B.Inject(A.Udp, p)
		p = last(A.Udp)
		if p == nil {
			return "err no stage-2 packet"
		}
		A.Inject(from, p)
	case "roam":
		if ia, _ := net.Handshake(1, 0); ia == 0 {
			return "err handshake failed"
		}
		net.Take()
		B.SendTun(relaynet.IPv4Packet(B.Vpn, A.Vpn, 1000, 2000, []byte("ping")))
		p := last(A.Udp)
		if p == nil {
			return "err no data packet"
		}
		A.Inject(from, p)
	default:
		return "bad-op"
	}
	st := A.State()
	remote := "-"
	for _, h := range st.Hosts {
		if len(h.VpnAddrs) > 0 && h.VpnAddrs[0] == B.Vpn && h.Remote.IsValid() {
			remote = hlib.AddrPortHex(h.Remote)
		}
	}
	learned := false
	for _, e := range st.LhCache {
		if k, v, ok := strings.Cut(e, "="); ok && k == B.Vpn.String() {
			v, _, _ = strings.Cut(v, "|")
			for _, x := range strings.Split(v, ",") {
				learned = learned || x == from.String()
			}
		}
	}
	return "remote=" + remote + " learned=" + hlib.B(learned)
}

func TestEngine(t *testing.T) {
	hlib.Run(t, hlib.Engine{Name: "lighthouse", Gen: gen, NewExec: newExec, Synctest: true})
}
