// Engine `certverify` (C01): cert.CAPool — AddCA, BlocklistFingerprint, VerifyCertificate,
// VerifyCachedCertificate on real v1/v2 certificates of both curves (issued through TBSCertificate.Sign or
// hand-encoded and signed with the CA key so that they can exceed the CA's constraints), plus a stub
// certificate stream with arbitrary field values.
//
// Every op carries the certificate's real encoding (`src`), its decoded fields and the crypto observations
// (fingerprint, alternate fingerprint, CheckSignature against the signer found in the pool). The executor
// decodes `src` with the real decoder and refuses the op (`op-inconsistent`) unless fields and
// observations are what the real code computes now, so the Lean model provably runs on the same data.
package certverify

import (
	"errors"
	"fmt"
	"math/big"
	"net/netip"
	"strings"
	"testing"
	"testing/synctest"
	"time"

	"github.com/slackhq/nebula/cert"
	cl "verifharness/certlib"
	"verifharness/hlib"
)

// ---- observations shared by generator and executor -------------------------------------------------

func fpTok(c cert.Certificate) string {
	fp, err := c.Fingerprint()
	if err != nil {
		return "!"
	}
	if fp == "" {
		return "-"
	}
	return fp
}

// fp2Tok: the fingerprint of the other signature form, computed independently of the implementation for real
// certificates (the implementation's own value is what VerifyCertificate uses; the two must agree, and the
// model runs on the independent one so that a wrong CalculateAlternateFingerprint / Copy shows as a verdict).
func fp2Tok(c cert.Certificate) string {
	if _, stub := c.(*cl.Stub); !stub {
		fp2, err := cl.TwinFingerprint(c)
		if err != nil {
			return "!"
		}
		if fp2 == "" {
			return "-"
		}
		return fp2
	}
	fp2, err := cert.CalculateAlternateFingerprint(c)
	if err != nil {
		return "!"
	}
	if fp2 == "" {
		return "-"
	}
	return fp2
}

// sigTok: CheckSignature against the key of the CA the pool would pick (or against no key).
func sigTok(pool *cert.CAPool, c cert.Certificate) string {
	signer, err := pool.GetCAForCert(c)
	if err != nil {
		return hlib.B(c.CheckSignature(nil))
	}
	return hlib.B(c.CheckSignature(signer.Certificate.PublicKey()))
}

func verrKind(err error) string {
	if err == nil {
		return "ok"
	}
	msg := err.Error()
	switch {
	case errors.Is(err, cert.ErrBlockListed):
		return "err:blocklisted"
	case errors.Is(err, cert.ErrCaNotFound):
		return "err:ca-not-found"
	case errors.Is(err, cert.ErrCurveMismatch):
		return "err:curve"
	case errors.Is(err, cert.ErrRootExpired):
		return "err:root-expired"
	case errors.Is(err, cert.ErrExpired):
		return "err:expired"
	case errors.Is(err, cert.ErrFingerprintMismatch):
		return "err:fp-mismatch"
	case errors.Is(err, cert.ErrSignatureMismatch):
		return "err:signature"
	case msg == "no issuer in certificate":
		return "err:no-issuer"
	case strings.HasPrefix(msg, "certificate expires after signing certificate"):
		return "err:after-ca"
	case strings.HasPrefix(msg, "certificate is valid before the signing certificate"):
		return "err:before-ca"
	case strings.HasPrefix(msg, "certificate contained a group not present"):
		return "err:group"
	case strings.HasPrefix(msg, "certificate contained a network assignment outside"):
		return "err:network"
	case strings.HasPrefix(msg, "certificate contained an unsafe network assignment outside"):
		return "err:unsafe-network"
	case strings.HasPrefix(msg, "could not calculate fingerprint to verify"):
		return "err:fingerprint"
	case strings.HasPrefix(msg, "could not calculate alternate fingerprint"):
		return "err:alt-fingerprint"
	}
	return "err:other:" + strings.ReplaceAll(msg, " ", "_")
}

func addKind(err error) string {
	switch {
	case err == nil:
		return "ok"
	case errors.Is(err, cert.ErrNotCA):
		return "err:not-ca"
	case errors.Is(err, cert.ErrNotSelfSigned):
		return "err:not-self-signed"
	case errors.Is(err, cert.ErrExpired):
		return "err:expired"
	case strings.HasPrefix(err.Error(), "could not calculate fingerprint"):
		return "err:fingerprint"
	}
	return "err:other:" + strings.ReplaceAll(err.Error(), " ", "_")
}

// materialise turns (src, descriptor, fp token, sig token) into a certificate: a stub, or the real
// decoding of src, which must describe itself exactly as the op says.
func materialise(src string, desc []string, fp, sig string) (cert.Certificate, bool) {
	if src == "stub" {
		f := cl.ParseDesc(desc)
		return &cl.Stub{F: f, Fp: strings.TrimPrefix(fp, "-"), FpErr: fp == "!", SigOK: sig == "1"}, true
	}
	raw, err := hlib.UnHex(src)
	if err != nil {
		return nil, false
	}
	c, err := cl.Decode(hlib.Atoi(desc[0]), raw)
	if err != nil {
		return nil, false
	}
	if cl.Desc(c) != strings.Join(desc[:cl.DescLen], " ") || fpTok(c) != fp {
		return nil, false
	}
	return c, true
}

// ---- executor --------------------------------------------------------------------------------------

func newExec(t *testing.T) func([]string) string {
	pool := cert.NewCAPool()
	regs := map[int]*cert.CachedCertificate{}
	// AddCA reads time.Now(): each call runs in its own synctest bubble (virtual clock starts at
	// 2000-01-01T00:00:00Z) advanced by the case's accumulated `sleep`s, so that a case replays on its own.
	var clock time.Duration
	return func(a []string) string {
		switch a[0] {
		case "reset":
			clock = 0
			pool = cert.NewCAPool()
			regs = map[int]*cert.CachedCertificate{}
			return "ok"
		case "sleep":
			clock += time.Duration(hlib.Atoi(a[1]))
			return "ok"
		case "newpool":
			pool = cert.NewCAPool()
			return "ok"
		case "block":
			pool.BlocklistFingerprint(a[1])
			return "ok"
		case "unblock":
			pool.ResetCertBlocklist()
			return "ok"
		case "addca":
			// addca <src> DESC fp selfsig
			if len(a) != 2+cl.DescLen+2 {
				return "bad-op"
			}
			desc, fp, sig := a[2:2+cl.DescLen], a[2+cl.DescLen], a[3+cl.DescLen]
			c, ok := materialise(a[1], desc, fp, sig)
			if !ok || hlib.B(c.CheckSignature(c.PublicKey())) != sig {
				return "op-inconsistent"
			}
			var err error
			synctest.Test(t, func(t *testing.T) {
				time.Sleep(clock)
				err = pool.AddCA(c)
			})
			return addKind(err)
		case "verify":
			// verify reg now <src> DESC fp fp2 sig
			if len(a) != 4+cl.DescLen+3 {
				return "bad-op"
			}
			reg, now := hlib.Atoi(a[1]), cl.TimeOf(a[2])
			desc, fp, fp2, sig := a[4:4+cl.DescLen], a[4+cl.DescLen], a[5+cl.DescLen], a[6+cl.DescLen]
			c, ok := materialise(a[3], desc, fp, sig)
			if !ok || fp2Tok(c) != fp2 || sigTok(pool, c) != sig {
				return "op-inconsistent"
			}
			cc, err := pool.VerifyCertificate(now, c)
			if err != nil {
				delete(regs, reg)
				return verrKind(err)
			}
			regs[reg] = cc
			return "ok"
		case "cached":
			cc, ok := regs[hlib.Atoi(a[1])]
			if !ok {
				return "noreg"
			}
			return verrKind(pool.VerifyCachedCertificate(cl.TimeOf(a[2]), cc))
		}
		return "bad-op"
	}
}

// ---- generator -------------------------------------------------------------------------------------

type caInfo struct {
	c    cert.Certificate // as stored (real decode or stub)
	src  string
	key  *cl.SignKey
	f    cl.Fields
	fp   string
	stub bool
}

type genState struct {
	r    *hlib.Rand
	emit func(string, ...any)
	pool *cert.CAPool
	cas  []*caInfo
	nops int
	seq  int
	full map[int]bool // registers holding an accepted certificate (generator-side mirror)

	shortS int // real short-s twins issued so far (cl.GrindShortS)
}

func (g *genState) op(format string, a ...any) {
	g.emit(format, a...)
	g.nops++
}

func (g *genState) addRealCA() {
	r := g.r
	version := hlib.Pick(r, 1, 2, 2)
	curve := cert.Curve(hlib.Pick(r, 0, 0, 1))
	key := cl.NewSignKey(r, curve)
	nb, na := cl.CAWindow(g.r)
	f := cl.Fields{Version: version, Curve: int(curve), IsCA: true, NotBefore: nb, NotAfter: na,
		Name: fmt.Sprintf("ca%d", len(g.cas)), Networks: cl.CANets(g.r, version == 2), Unsafe: cl.CANets(g.r, version == 2),
		PublicKey: key.Pub}
	f.Groups = cl.CAGroups(r)
	mode := r.Intn(12)
	if mode == 0 {
		f.IsCA = false // refused: not a CA (needs a network to decode)
		f.Networks = []netip.Prefix{cl.Inside(r, cl.BasePrefix(r, false), 8)}
	}
	var raw []byte
	if mode == 1 {
		raw = cl.Craft(f, cl.NewSignKey(r, curve), nil) // refused: signed by some other key
	} else {
		raw = cl.Craft(f, key, nil)
	}
	c, err := cl.Decode(version, raw)
	if err != nil {
		return
	}
	selfsig := hlib.B(c.CheckSignature(c.PublicKey()))
	g.op("addca %s %s %s %s", hlib.Hex(raw), cl.Desc(c), fpTok(c), selfsig)
	if g.pool.AddCA(c) == nil || (c.IsCA() && selfsig == "1") {
		fp, _ := c.Fingerprint()
		g.cas = append(g.cas, &caInfo{c: c, src: hlib.Hex(raw), key: key, f: cl.FieldsOf(c), fp: fp})
	}
}

func (g *genState) stubFp() string {
	g.seq++
	return fmt.Sprintf("%04x%s", g.seq, hlib.Hex(g.r.Bytes(2)))
}

func (g *genState) addStubCA() {
	r := g.r
	nb, na := cl.CAWindow(g.r)
	if r.Chance(1, 4) { // sub-second bounds exist only outside decoded certificates
		nb = nb.Add(time.Duration(r.Intn(1000000000)))
		na = na.Add(time.Duration(r.Intn(1000000000)))
	}
	f := cl.Fields{Version: hlib.Pick(r, 1, 2, 2, 0, 3), Curve: hlib.Pick(r, 0, 0, 0, 1, 2), IsCA: !r.Chance(1, 10), NotBefore: nb,
		NotAfter: na, Name: "stubca", Networks: cl.CANets(g.r, true), Unsafe: cl.CANets(g.r, true), PublicKey: r.Bytes(4)}
	if r.Bool() {
		f.Groups = cl.Subset(r, append([]string{""}, cl.GroupUniverse...))
	}
	s := &cl.Stub{F: f, Fp: g.stubFp(), FpErr: r.Chance(1, 20), SigOK: !r.Chance(1, 10)}
	g.op("addca stub %s %s %s", f.Desc(), fpTok(s), hlib.B(s.SigOK))
	if g.pool.AddCA(s) == nil || (f.IsCA && s.SigOK && !s.FpErr) {
		g.cas = append(g.cas, &caInfo{c: s, src: "stub", f: f, fp: s.Fp, stub: true})
	}
}

func (g *genState) verifyTimes(f cl.Fields, ca *caInfo) []string {
	r := g.r
	nb, na := f.NotBefore, f.NotAfter
	cands := []time.Time{nb.Add(-time.Second), nb.Add(-1), nb, nb.Add(1), nb.Add(na.Sub(nb) / 2), na.Add(-1), na, na.Add(1),
		na.Add(time.Second), cl.Sec(cl.Epoch), cl.Sec(cl.Epoch).Add(500 * time.Millisecond)}
	if ca != nil {
		cands = append(cands, ca.f.NotBefore.Add(-1), ca.f.NotBefore, ca.f.NotAfter, ca.f.NotAfter.Add(1))
	}
	var out []string
	for i, n := 0, hlib.Pick(r, 1, 2, 3, 4); i < n; i++ {
		out = append(out, cl.Ns(cands[r.Intn(len(cands))]))
	}
	return out
}

// exercise emits verify / block / cached ops for one certificate.
func (g *genState) exercise(c cert.Certificate, src string, f cl.Fields, ca *caInfo) {
	r := g.r
	fp, fp2 := fpTok(c), fp2Tok(c)
	reg := r.Intn(4)
	tail := func() string { return fmt.Sprintf("%s %s %s %s %s", src, cl.Desc(c), fp, fp2, sigTok(g.pool, c)) }
	times := g.verifyTimes(f, ca)
	verify := func(reg int, t string) {
		g.op("verify %d %s %s", reg, t, tail())
		_, err := g.pool.VerifyCertificate(cl.TimeOf(t), c)
		g.full[reg] = err == nil
	}
	cached := func(reg int, t string) {
		if g.full[reg] || r.Chance(1, 8) {
			g.op("cached %d %s", reg, t)
		}
	}
	for _, t := range times {
		verify(reg, t)
		if r.Chance(1, 2) {
			cached(reg, hlib.Pick(r, times...))
		}
	}
	mid := cl.Ns(f.NotBefore.Add(f.NotAfter.Sub(f.NotBefore) / 2))
	switch r.Intn(6) {
	case 0: // block the certificate's own fingerprint, re-check both ways, lift
		g.block(strings.TrimPrefix(fp, "-"))
		cached(reg, mid)
		verify((reg+1)%4, mid)
		g.unblock()
		cached(reg, mid)
	case 1: // block the other signature form (P-256 twin)
		if fp2 != "-" && fp2 != "!" {
			g.block(fp2)
			cached(reg, mid)
			verify((reg+1)%4, mid)
			g.unblock()
			verify(reg, mid)
		}
	case 2: // block something unrelated (also the CA's fingerprint: leaves stay valid)
		if ca != nil && r.Bool() {
			g.block(ca.fp)
		} else {
			g.block(g.stubFp())
		}
		cached(reg, mid)
		verify(reg, mid)
	case 3: // add another CA in between (pool change that keeps the issuer)
		if r.Bool() {
			g.addRealCA()
		} else {
			g.addStubCA()
		}
		cached(reg, mid)
		verify(reg, mid)
	case 4: // the trust store is replaced (CA reload): empty pool, then the same CA comes back
		if ca != nil && r.Chance(1, 2) {
			old := g.pool
			g.pool = cert.NewCAPool()
			g.op("newpool")
			cached(reg, mid)
			verify((reg+1)%4, mid)
			if r.Bool() {
				g.pool = old
				g.op("newpool")
				for _, x := range g.cas {
					g.pool.AddCA(x.c)
					if x.stub {
						g.op("addca stub %s %s %s", x.f.Desc(), fpTok(x.c), hlib.B(x.c.CheckSignature(nil)))
					} else {
						g.op("addca %s %s %s %s", x.src, cl.Desc(x.c), fpTok(x.c), hlib.B(x.c.CheckSignature(x.c.PublicKey())))
					}
				}
				g.pool = cert.NewCAPool()
				for _, x := range g.cas {
					g.pool.AddCA(x.c)
				}
				cached(reg, mid)
			} else {
				g.cas = nil
			}
		}
	}
}

func (g *genState) block(fp string) {
	if fp == "" || fp == "!" {
		return
	}
	g.pool.BlocklistFingerprint(fp)
	g.op("block %s", fp)
}

func (g *genState) unblock() {
	g.pool.ResetCertBlocklist()
	g.op("unblock")
}

func (g *genState) realLeaf(ca *caInfo) {
	r := g.r
	f := cl.LeafFields(g.r, ca.f, ca.fp, true)
	key := ca.key
	if r.Chance(1, 12) {
		key = cl.NewSignKey(r, ca.key.Curve) // bad signature: right issuer, wrong key
	}
	var raw []byte
	if r.Chance(1, 3) {
		// through the real issuing API when the CA's constraints allow it (low-S normalised)
		tbs := &cert.TBSCertificate{Version: cert.Version(f.Version), Name: f.Name, Networks: f.Networks, UnsafeNetworks: f.Unsafe,
			Groups: f.Groups, IsCA: false, NotBefore: f.NotBefore, NotAfter: f.NotAfter, PublicKey: f.PublicKey, Curve: cert.Curve(f.Curve)}
		if c, err := tbs.Sign(ca.c, key.Curve, key.Priv); err == nil {
			raw = cl.MustRaw(c)
		}
	}
	if raw == nil {
		raw = cl.Craft(f, key, nil) // P-256: high or low S as it comes
	}
	if key == ca.key && key.Curve == cert.Curve_P256 && g.shortS < 2 {
		// a real signature whose low form has a short s (two or more leading zero bytes), presented in the HIGH form:
		// the alternate fingerprint then hashes a signature whose s needs the leading zeros stripped
		g.shortS++
		if f2, rr, s, ok := cl.GrindShortS(r, key, f, 600000); ok {
			f = f2
			raw = cl.Craft(f, nil, cl.DerSig(rr, new(big.Int).Sub(cl.P256N(), s)))
		}
	}
	c, err := cl.Decode(f.Version, raw)
	if err != nil {
		return
	}
	g.exercise(c, hlib.Hex(raw), cl.FieldsOf(c), ca)
	// blocklisting the other signature form must reject this one (full and cached path)
	if c.Curve() == cert.Curve_P256 {
		if fp2 := fp2Tok(c); fp2 != "-" && fp2 != "!" {
			mid := cl.Ns(c.NotBefore().Add(c.NotAfter().Sub(c.NotBefore()) / 2))
			tailv := fmt.Sprintf("%s %s %s %s %s", hlib.Hex(raw), cl.Desc(c), fpTok(c), fp2, sigTok(g.pool, c))
			g.op("verify 3 %s %s", mid, tailv)
			g.block(fp2)
			g.op("cached 3 %s", mid)
			g.op("verify 2 %s %s", mid, tailv)
			g.unblock()
		}
	}
	// the other signature form of the same content is a different certificate with the twin fingerprint
	if c.Curve() == cert.Curve_P256 && r.Chance(1, 2) {
		if tw, err := cl.SwapSig(c.Signature()); err == nil {
			traw := cl.Craft(cl.FieldsOf(c), nil, tw)
			if tc, err := cl.Decode(f.Version, traw); err == nil {
				if r.Bool() {
					fp, _ := c.Fingerprint()
					g.block(fp)
				}
				g.exercise(tc, hlib.Hex(traw), cl.FieldsOf(tc), ca)
				g.unblock()
			}
		}
	}
}

func (g *genState) stubLeaf(ca *caInfo) {
	r := g.r
	var f cl.Fields
	if ca != nil {
		f = cl.LeafFields(g.r, ca.f, ca.fp, false)
	} else {
		nb, na := cl.CAWindow(g.r)
		f = cl.Fields{Version: 2, NotBefore: nb, NotAfter: na, Issuer: hlib.Pick(r, "", g.stubFp(), "00"), Name: "orphan",
			Networks: []netip.Prefix{cl.Inside(r, cl.BasePrefix(r, false), 8)}}
	}
	switch r.Intn(14) {
	case 0:
		f.Issuer = ""
	case 1:
		f.Networks = append(f.Networks, netip.PrefixFrom(netip.MustParseAddr("10.1.2.3"), 99)) // invalid prefix, Bits() == -1
	case 2:
		f.Networks = append(f.Networks, netip.MustParsePrefix("::ffff:10.1.2.3/120")) // 4in6 is an IPv6 address for Contains
	case 3:
		f.IsCA = true
	case 4:
		f.Groups = append(f.Groups, "")
	}
	f.Signature = r.Bytes(3)
	s := &cl.Stub{F: f, Fp: g.stubFp(), FpErr: r.Chance(1, 25), SigOK: !r.Chance(1, 10)}
	g.exercise(s, "stub", f, ca)
}

func gen(r *hlib.Rand, n int, tier, profile string, emit func(string, ...any)) {
	g := &genState{r: r, emit: emit}
	for g.nops < n {
		g.pool = cert.NewCAPool()
		g.cas = nil
		g.full = map[int]bool{}
		g.op("reset")
		if r.Chance(1, 6) {
			g.op("sleep %d", int64(hlib.Pick(r, 1, 5, 10, 3600))*1000000000-int64(r.Intn(2)))
		}
		for i, k := 0, hlib.Pick(r, 1, 1, 2, 3); i < k; i++ {
			if r.Chance(2, 3) {
				g.addRealCA()
			} else {
				g.addStubCA()
			}
		}
		for i, k := 0, hlib.Pick(r, 2, 3, 4, 6); i < k; i++ {
			var ca *caInfo
			if len(g.cas) > 0 && !r.Chance(1, 10) {
				ca = g.cas[r.Intn(len(g.cas))]
			}
			switch {
			case ca != nil && !ca.stub && r.Chance(2, 3):
				g.realLeaf(ca)
			case ca != nil && !ca.stub && r.Chance(1, 8):
				// a CA certificate presented as a peer certificate (no issuer)
				g.exercise(ca.c, ca.src, ca.f, nil)
			default:
				g.stubLeaf(ca)
			}
			if r.Chance(1, 10) {
				g.op("cached %d %s", r.Intn(5), cl.NsOf(cl.Epoch, 0))
			}
			if len(g.cas) == 0 {
				break
			}
		}
	}
}

func TestEngine(t *testing.T) {
	hlib.Run(t, hlib.Engine{Name: "certverify", Gen: gen, NewExec: newExec})
}
