// Engine `outside` (C14): valid packets of every type, produced by real peers, are mutated (bit flips,
// truncation, header substitutions, cross-tunnel splices, replays, relayed variants, a relay that
// re-seals a rewritten payload) and injected into a real node; the node's state is digested before and
// after and the difference is the answer.
//
// Cluster: 0 = A (receiver under test), 1 = B (direct peer), 2 = R (relay), 3 = X (reaches A only
// through R). Tunnels A-B, A-R, X-R direct, X-A relayed via R.
package outside

import (
	"bytes"
	"encoding/binary"
	"fmt"
	"net/netip"
	"sort"
	"strings"
	"testing"

	"github.com/slackhq/nebula"
	"github.com/slackhq/nebula/cert"
	"github.com/slackhq/nebula/header"
	"verifharness/hlib"
	"verifharness/relaynet"
)

const (
	nA = 0
	nB = 1
	nR = 2
	nX = 3
)

var names = []string{"A", "B", "R", "X"}

type exec struct {
	net  *relaynet.Net
	seen bool // the datagram handed to the relay contained the end-to-end plaintext
	// stage0 is X's stage-0 handshake packet for A exactly as X handed it to the relay during setup
	stage0 []byte
	// stage0B is B's stage-0 handshake packet for A (direct tunnel, A is the responder)
	stage0B []byte
}

func (e *exec) nameOfHost(n *relaynet.Node, h nebula.VerifHostInfo) string {
	if len(h.VpnAddrs) == 0 {
		return "?"
	}
	i := e.net.NodeByVpn(h.VpnAddrs[0])
	if i < 0 {
		return "?"
	}
	return names[i]
}

type digest struct {
	hosts   map[string]nebula.VerifHostInfo // by peer name (primary hostinfo)
	lh      string
	pending string
	used    int
	usedIdx []uint32
	idxName map[uint32]string // relay index -> "r"+owner's peer name; hostinfo index -> peer name
}

func (e *exec) digest(n *relaynet.Node) digest {
	st := n.State()
	d := digest{hosts: map[string]nebula.VerifHostInfo{}}
	for _, h := range st.Hosts {
		d.hosts[e.nameOfHost(n, h)] = h
	}
	d.lh = strings.Join(st.LhCache, ";")
	d.pending = strings.Join(st.Pending, ";")
	d.used = len(st.RelayUsed)
	d.usedIdx = st.RelayUsed
	d.idxName = map[uint32]string{}
	byIdx := map[uint32]string{}
	for _, h := range st.Hosts {
		byIdx[h.LocalIndex] = e.nameOfHost(n, h)
		d.idxName[h.LocalIndex] = byIdx[h.LocalIndex]
	}
	for i, o := range st.RelaysMap {
		d.idxName[i] = "r" + byIdx[o]
	}
	return d
}

func set(xs []string) string {
	if len(xs) == 0 {
		return "-"
	}
	sort.Strings(xs)
	return strings.Join(xs, ",")
}

// observe injects at node rx and reports the differences.
func (e *exec) observe(rx int, from netip.AddrPort, pkt []byte) string {
	return e.observeAct(rx, func(n *relaynet.Node) { n.Inject(from, append([]byte{}, pkt...)) })
}

// xRemote reports whether A's hostinfo for X (a relay-only tunnel) has a direct underlay remote.
func (e *exec) xRemote() bool {
	for _, h := range e.net.Nodes[nA].State().Hosts {
		if len(h.VpnAddrs) > 0 && h.VpnAddrs[0] == e.net.Nodes[nX].Vpn && h.Remote.IsValid() {
			return true
		}
	}
	return false
}

// observeAct runs act on node rx and reports the differences of its digest.
func (e *exec) observeAct(rx int, act func(n *relaynet.Node)) string {
	n := e.net.Nodes[rx]
	n.ClearIn()
	n.Dev.Out = nil
	e.net.Take()
	before := e.digest(n)
	act(n)
	after := e.digest(n)
	var out, del, roam, in, win, rs []string
	for _, w := range e.net.Take() {
		var h header.H
		t := "?"
		if err := h.Parse(w.Data); err == nil {
			t = fmt.Sprintf("%d/%d", h.Type, h.Subtype)
		}
		out = append(out, fmt.Sprintf("%s>%d", t, e.net.NodeIndexByUdp(w.To)))
	}
	for p, hb := range before.hosts {
		ha, ok := after.hosts[p]
		if !ok || ha.LocalIndex != hb.LocalIndex {
			del = append(del, p)
			continue
		}
		if ha.Remote != hb.Remote {
			roam = append(roam, p)
		}
		if ha.In {
			in = append(in, p)
		}
		if ha.WindowCurrent != hb.WindowCurrent {
			win = append(win, p)
		}
		if fmt.Sprint(ha.RelayFor) != fmt.Sprint(hb.RelayFor) || fmt.Sprint(ha.Relays) != fmt.Sprint(hb.Relays) {
			rs = append(rs, p)
		}
	}
	for p := range after.hosts {
		if _, ok := before.hosts[p]; !ok {
			del = append(del, "+"+p)
		}
	}
	sort.Strings(out)
	// which relay indexes are marked used, by name: r<peer> = a relay index living on the tunnel with
	// <peer>, <peer> = a hostinfo index (never a relay index), zero, other = an index nobody owns
	var ru []string
	seenRu := map[string]bool{}
	for _, i := range after.usedIdx {
		nm, ok := before.idxName[i]
		if !ok {
			nm, ok = after.idxName[i]
		}
		if !ok {
			nm = "other"
			if i == 0 {
				nm = "zero"
			}
		}
		if !seenRu[nm] {
			seenRu[nm] = true
			ru = append(ru, nm)
		}
	}
	return fmt.Sprintf("tun=%d out=%s del=%s roam=%s in=%s win=%s rs=%s lh=%s pend=%s used=%d ru=%s",
		len(n.Dev.Out), set(out), set(del), set(roam), set(in), set(win), set(rs),
		hlib.B(before.lh != after.lh), hlib.B(before.pending != after.pending), after.used, set(ru))
}

// produce makes the sender emit one fresh valid datagram of the kind and returns it (taken off the wire).
func (e *exec) produce(kind string) (pkt []byte, rx int, sender int, ok bool) {
	net := e.net
	A, B, X := net.Nodes[nA], net.Nodes[nB], net.Nodes[nX]
	net.Take()
	e.seen = false
	last := func() ([]byte, bool) {
		q := net.Take()
		if len(q) == 0 {
			return nil, false
		}
		return q[len(q)-1].Data, true
	}
	switch kind {
	case "msg":
		B.SendTun(relaynet.IPv4Packet(B.Vpn, A.Vpn, 1000, 2000, []byte("ping")))
		p, ok := last()
		return p, nA, nB, ok
	case "testreq":
		B.SendMessageToIndex(header.Test, header.TestRequest, B.PrimaryIndex(A.Vpn), []byte("12345678"))
		p, ok := last()
		return p, nA, nB, ok
	case "testrep":
		B.SendMessageToIndex(header.Test, header.TestReply, B.PrimaryIndex(A.Vpn), []byte("12345678"))
		p, ok := last()
		return p, nA, nB, ok
	case "close":
		B.SendCloseTunnel(B.PrimaryIndex(A.Vpn))
		p, ok := last()
		return p, nA, nB, ok
	case "ctrl":
		m := nebula.NebulaControl{Type: nebula.NebulaControl_CreateRelayRequest, InitiatorRelayIndex: 777,
			RelayFromAddr: nebula.VerifProtoAddr(B.Vpn), RelayToAddr: nebula.VerifProtoAddr(A.Vpn)}
		b, _ := m.Marshal()
		B.SendMessageToIndex(header.Control, 0, B.PrimaryIndex(A.Vpn), b)
		p, ok := last()
		return p, nA, nB, ok
	case "rclose":
		// X closes its end-to-end tunnel with A: the CloseTunnel travels X -> R -> A inside relay frames
		X.SendCloseTunnel(X.PrimaryIndex(A.Vpn))
		p, ok := last()
		if !ok {
			return nil, 0, 0, false
		}
		net.Nodes[nR].Inject(X.Udp, p)
		p, ok = last()
		return p, nA, nR, ok
	case "rmsg", "fwd":
		// X -> (R) -> A: the datagram X emits is addressed to R
		plain := relaynet.IPv4Packet(X.Vpn, A.Vpn, 1000, 2000, []byte("ping-through-relay"))
		X.SendTun(plain)
		p, ok := last()
		if !ok {
			return nil, 0, 0, false
		}
		// what the relay gets to see must not contain the plaintext (nor its payload)
		e.seen = bytes.Contains(p, plain) || bytes.Contains(p, []byte("ping-through-relay"))
		if kind == "fwd" {
			return p, nR, nX, true
		}
		// let R forward it, and take what R emits towards A
		net.Nodes[nR].Inject(X.Udp, p)
		p, ok = last()
		return p, nA, nR, ok
	}
	return nil, 0, 0, false
}

func (e *exec) symIdx(sym string) uint32 {
	A := e.net.Nodes[nA]
	switch sym {
	case "B":
		return A.PrimaryIndex(e.net.Nodes[nB].Vpn)
	case "R":
		return A.PrimaryIndex(e.net.Nodes[nR].Vpn)
	case "X":
		return A.PrimaryIndex(e.net.Nodes[nX].Vpn)
	case "rB":
		return e.net.Nodes[nB].PrimaryIndex(A.Vpn)
	case "relay":
		// A's relay index of the Terminal record that lives on its tunnel with R
		st := A.State()
		own := st.HostsMap[e.net.Nodes[nR].Vpn.String()]
		for i, o := range st.RelaysMap {
			if o == own && own != 0 {
				return i
			}
		}
		return 0xfffffff1
	case "relayB":
		// a relay index of A that lives on its tunnel with B (exists after `pkt ctrl … none`)
		st := A.State()
		own := st.HostsMap[e.net.Nodes[nB].Vpn.String()]
		for i, o := range st.RelaysMap {
			if o == own && own != 0 {
				return i
			}
		}
		return 0xfffffff2
	case "zero":
		return 0
	}
	return 0xfffffff0
}

// mutate applies the mutation to b at header offset off (0 = outer, 16 = inner of a relay datagram).
func (e *exec) mutate(b []byte, off int, mut []string) []byte {
	b = append([]byte{}, b...)
	if len(b) < off+16 {
		return b
	}
	switch mut[0] {
	case "none", "replay":
	case "flipbody":
		body := len(b) - (off + 16)
		if off > 0 {
			body -= 16 // leave the outer tag alone; the relay re-seals
		}
		if body <= 0 {
			b[len(b)-1] ^= 1
			return b
		}
		pos := off + 16 + hlib.Atoi(mut[1])*body/1000
		if pos >= len(b) {
			pos = len(b) - 1
		}
		b[pos] ^= 1 << uint(hlib.Atoi(mut[2])%8)
	case "trunc":
		n := hlib.Atoi(mut[1])
		if n >= len(b) {
			n = len(b) - 1
		}
		b = b[:n]
	case "settype":
		b[off] = b[off]&0xf0 | byte(hlib.Atoi(mut[1]))&0x0f
	case "setver":
		b[off] = b[off]&0x0f | byte(hlib.Atoi(mut[1]))<<4
	case "setsub":
		b[off+1] = byte(hlib.Atoi(mut[1]))
	case "setres":
		binary.BigEndian.PutUint16(b[off+2:], uint16(hlib.Atoi(mut[1])))
	case "setidx":
		binary.BigEndian.PutUint32(b[off+4:], e.symIdx(mut[1]))
	case "ctr":
		c := binary.BigEndian.Uint64(b[off+8:])
		binary.BigEndian.PutUint64(b[off+8:], c+uint64(int64(hlib.Atoi(mut[1]))))
	}
	return b
}

func (e *exec) src(s string, sender int) netip.AddrPort {
	switch s {
	case "other":
		return netip.MustParseAddrPort("198.51.100.7:999")
	case "mynet":
		return netip.MustParseAddrPort("10.0.0.77:4242")
	}
	return e.net.Nodes[sender].Udp
}

func newExec(t *testing.T) func([]string) string {
	e := &exec{}
	return func(a []string) string {
		switch a[0] {
		case "reset":
			if e.net != nil {
				e.net.Close()
			}
			base := uint32(hlib.Atou(a[1]))
			// optional 4th argument: A's preferred_ranges — none | relay (R's underlay address) |
			// peer (B's underlay address) | other (the roaming address 198.51.100.0/24) | all
			var pref []string
			if len(a) > 4 {
				switch a[4] {
				case "relay":
					pref = []string{"192.0.2.3/32"}
				case "peer":
					pref = []string{"192.0.2.2/32"}
				case "other":
					pref = []string{"198.51.100.0/24"}
				case "all":
					pref = []string{"192.0.2.0/24", "198.51.100.0/24"}
				}
			}
			specs := []relaynet.NodeSpec{
				{UseRelays: true, AmLighthouse: false, AcceptRecvError: a[2], SendRecvError: a[3], PreferredRanges: pref},
				{UseRelays: true, AcceptRecvError: "never", SendRecvError: "never"},
				{AmRelay: true, AcceptRecvError: "never", SendRecvError: "never"},
				{UseRelays: true, AcceptRecvError: "never", SendRecvError: "never"},
			}
			net, err := relaynet.New(uint64(base), cert.Version2, base, specs)
			if err != nil {
				panic(err)
			}
			e.net = net
			// B initiates the direct tunnel with A (A is the responder and keeps B's stage-0 packet)
			{
				Bn, An := net.Nodes[nB], net.Nodes[nA]
				Bn.InjectLightHouseAddr(An.Vpn, An.Udp)
				Bn.StartHandshake(An.Vpn)
				e.stage0B = nil
				for _, w := range net.Queue {
					var h header.H
					if w.From == Bn.Udp && w.To == An.Udp && h.Parse(w.Data) == nil && h.Type == header.Handshake && h.MessageCounter == 1 {
						e.stage0B = append([]byte{}, w.Data...)
					}
				}
				net.Pump(16)
			}
			net.Handshake(nA, nR)
			net.Handshake(nX, nR)
			X, A, R := net.Nodes[nX], net.Nodes[nA], net.Nodes[nR]
			X.InjectRelays(A.Vpn, []netip.Addr{R.Vpn})
			X.StartHandshake(A.Vpn)
			net.Pump(64)
			X.HandshakeOutbound(A.Vpn)
			e.stage0 = nil
			for _, w := range net.Queue {
				var h header.H
				if w.From == X.Udp && w.To == R.Udp && len(w.Data) > 48 && h.Parse(w.Data) == nil &&
					h.Type == header.Message && h.Subtype == header.MessageRelay {
					in := w.Data[16 : len(w.Data)-16]
					var ih header.H
					if ih.Parse(in) == nil && ih.Type == header.Handshake && ih.MessageCounter == 1 {
						e.stage0 = append([]byte{}, in...)
					}
				}
			}
			net.Pump(64)
			net.Take()
			ok := A.PrimaryIndex(X.Vpn) != 0 && X.PrimaryIndex(A.Vpn) != 0 && len(e.stage0) > 0 &&
				A.PrimaryIndex(net.Nodes[nB].Vpn) != 0 && len(e.stage0B) > 0
			// handshake completion through a relay must leave the endpoint's hostinfo without a direct remote
			return "ok " + hlib.B(ok) + " xr=" + hlib.B(e.xRemote())
		case "pkt":
			// pkt <kind> <src> <scope> <mut...>     scope: out | lie (relay re-seals a rewritten inner packet)
			if e.net == nil {
				return "bad-op"
			}
			kind, src, scope, mut := a[1], a[2], a[3], a[4:]
			pkt, rx, sender, ok := e.produce(kind)
			if !ok {
				return "no-packet"
			}
			from := e.src(src, sender)
			if scope == "lie" && (kind == "rmsg" || kind == "rclose") {
				// the relay R rewrites the relayed payload and seals it again with its own tunnel key
				if len(pkt) < 48 {
					return "no-packet"
				}
				inner := e.mutate(pkt[16:len(pkt)-16], 0, mut)
				R := e.net.Nodes[nR]
				var h header.H
				_ = h.Parse(pkt)
				// R's relay record towards A is the one whose remote index is in the outer header
				var ridx uint32
				for _, hi := range R.State().Hosts {
					for _, r := range hi.RelayFor {
						if r.RemoteIndex == h.RemoteIndex {
							ridx = r.LocalIndex
						}
					}
				}
				e.net.Take()
				if !R.SendViaIndex(ridx, inner) {
					return "no-packet"
				}
				q := e.net.Take()
				if len(q) == 0 {
					return "no-packet"
				}
				pkt = q[len(q)-1].Data
			} else {
				pkt = e.mutate(pkt, 0, mut)
			}
			seen := e.seen
			if mut[0] == "replay" {
				e.observe(rx, from, pkt)
			}
			return e.observe(rx, from, pkt) + " seen=" + hlib.B(seen) + " xr=" + hlib.B(e.xRemote())
		case "recverr":
			// recverr <idxsym> <src>: a forged, unencrypted recv_error datagram for A
			if e.net == nil {
				return "bad-op"
			}
			b := header.Encode(make([]byte, header.Len), header.Version, header.RecvError, 0, e.symIdx(a[1]), 0)
			return e.observe(nA, e.src(a[2], nB), b) + " seen=0 xr=" + hlib.B(e.xRemote())
		case "hsdup":
			// hsdup <src> <mode>: after the relayed tunnel X-A completed, the relay R hands A the stage-0
			// handshake packet of X once more, re-wrapped in a fresh relay frame (what a retransmit over a
			// slow relay leg, or a relay replaying what it carried, looks like). mode: relay (byte-identical
			// packet) | flip (one bit of it flipped)
			if e.net == nil || len(e.stage0) == 0 {
				return "bad-op"
			}
			R, A, X := e.net.Nodes[nR], e.net.Nodes[nA], e.net.Nodes[nX]
			// optional 3rd argument: whose stage-0 packet — X (relay-only tunnel, default) | B (direct tunnel)
			who := "X"
			if len(a) > 3 {
				who = a[3]
			}
			inner := append([]byte{}, e.stage0...)
			if who == "B" {
				if A.PrimaryIndex(e.net.Nodes[nB].Vpn) == 0 {
					return "no-tunnel" // a replayed stage-0 would build a new tunnel (C10's subject)
				}
				inner = append([]byte{}, e.stage0B...)
			}
			if a[2] == "flip" {
				inner[len(inner)/2] ^= 0x10
			}
			if a[2] == "direct" {
				// the same packet arriving bare (not through a relay) from the given source address
				// (the lighthouse cache learns the source address of a direct handshake: not compared)
				ans := e.observe(nA, e.src(a[1], nB), inner) + " seen=0 xr=" + hlib.B(e.xRemote())
				return strings.NewReplacer(" lh=0", " lh=x", " lh=1", " lh=x").Replace(ans)
			}
			var ridx uint32
			for _, hi := range R.State().Hosts {
				if len(hi.VpnAddrs) > 0 && hi.VpnAddrs[0] == A.Vpn {
					for _, r := range hi.RelayFor {
						if r.PeerAddr == X.Vpn {
							ridx = r.LocalIndex
						}
					}
				}
			}
			e.net.Take()
			if ridx == 0 || !R.SendViaIndex(ridx, inner) {
				return "no-packet"
			}
			q := e.net.Take()
			if len(q) == 0 {
				return "no-packet"
			}
			return e.observe(nA, e.src(a[1], nR), q[len(q)-1].Data) + " seen=0 xr=" + hlib.B(e.xRemote())
		case "xdirect":
			// xdirect <own|other> <allow|deny>: A's hostinfo for X is given a direct underlay remote E (X's real
			// address, or another one), then X sends one more AUTHENTIC data packet that still travels through
			// the relay (arrives from R's underlay address); A's remote for X and the learned address list of X
			// are read back; then the tunnel is made relay-only again. deny: lighthouse.remote_allow_list
			// refuses the relay's address.
			if e.net == nil {
				return "bad-op"
			}
			A, X, R := e.net.Nodes[nA], e.net.Nodes[nX], e.net.Nodes[nR]
			xi := A.PrimaryIndex(X.Vpn)
			if xi == 0 {
				return "no-tunnel"
			}
			E := e.src(a[1], nX)
			pkt, _, _, ok := e.produce("rmsg")
			if !ok {
				return "no-packet"
			}
			// the relay frame arrives from the address A currently has for R (so that R's own tunnel does not roam)
			rAddr := R.Udp
			for _, h := range A.State().Hosts {
				if h.LocalIndex == A.PrimaryIndex(R.Vpn) && h.Remote.IsValid() {
					rAddr = h.Remote
				}
			}
			if a[2] == "deny" {
				if err := A.SetRemoteAllowListDeny(rAddr.Addr().String() + "/32"); err != nil {
					panic(err)
				}
			}
			learned := func() bool {
				for _, l := range A.State().LhCache {
					if strings.HasPrefix(l, X.Vpn.String()+"=") && strings.Contains(strings.SplitN(l, "|", 2)[0], rAddr.String()) {
						return true
					}
				}
				return false
			}
			had := learned()
			A.SetRemoteByIndex(xi, E)
			A.Dev.Out = nil
			e.net.Take()
			A.Inject(rAddr, append([]byte{}, pkt...))
			tun := len(A.Dev.Out)
			remote := "none"
			lrelay := false
			st := A.State()
			for _, h := range st.Hosts {
				if h.LocalIndex == xi {
					switch {
					case !h.Remote.IsValid():
					case h.Remote == E:
						remote = "E"
					case h.Remote == rAddr:
						remote = "relay"
					default:
						remote = "elsewhere"
					}
				}
			}
			lrelay = learned() && !had
			A.SetRemoteAllowListDeny("")
			A.ClearRemote(xi)
			e.net.Take()
			return fmt.Sprintf("tun=%d remote=%s lrelay=%s xr=%s", tun, remote, hlib.B(lrelay), hlib.B(e.xRemote()))
		case "reply":
			// reply: A's tun hands nebula a packet for X; it must leave as a Message/Relay frame to the relay
			if e.net == nil {
				return "bad-op"
			}
			A, X := e.net.Nodes[nA], e.net.Nodes[nX]
			return e.observeAct(nA, func(n *relaynet.Node) {
				n.SendTun(relaynet.IPv4Packet(A.Vpn, X.Vpn, 2000, 1000, []byte("pong")))
			}) + " seen=0 xr=" + hlib.B(e.xRemote())
		}
		return "bad-op"
	}
}

var kinds = []string{"msg", "msg", "testreq", "testrep", "ctrl", "rmsg", "rmsg", "fwd", "close", "rclose"}
var idxSyms = []string{"B", "R", "X", "rB", "relay", "zero", "unknown"}

func genMut(r *hlib.Rand) string {
	switch r.Intn(12) {
	case 0:
		return fmt.Sprintf("flipbody %d %d", r.Intn(1000), r.Intn(8))
	case 1:
		return fmt.Sprintf("flipbody %d %d", hlib.Pick(r, 0, 999, 998, 500), r.Intn(8))
	case 2:
		return fmt.Sprintf("trunc %d", hlib.Pick(r, 0, 1, 2, 15, 16, 17, 31, 32, 33, 47, 48, r.Intn(80)))
	case 3:
		return fmt.Sprintf("settype %d", r.Intn(16))
	case 4:
		return fmt.Sprintf("settype %d", hlib.Pick(r, 0, 1, 2, 3, 4, 5, 6))
	case 5:
		return fmt.Sprintf("setsub %d", hlib.Pick(r, 0, 1, 2, 255, r.Intn(256)))
	case 6:
		return fmt.Sprintf("setver %d", hlib.Pick(r, 0, 2, 15, r.Intn(16)))
	case 7:
		return fmt.Sprintf("setres %d", 1+r.Intn(65535))
	case 8, 9:
		return "setidx " + hlib.Pick(r, idxSyms...)
	case 10:
		return fmt.Sprintf("ctr %d", hlib.Pick(r, 1, -1, 2, 64, 1000, 100000, -100000))
	}
	return "replay"
}

func gen(r *hlib.Rand, n int, tier, profile string, emit func(string, ...any)) {
	ops := 0
	for ops < n {
		emit("reset %d %s %s %s", hlib.Pick(r, 100, 5000, 70000), hlib.Pick(r, "always", "always", "never"), hlib.Pick(r, "always", "always", "never"),
			hlib.Pick(r, "none", "relay", "relay", "peer", "other", "all"))
		ops++
		// C14 (unauthenticated inner packet inside an authentic relay frame): the relay re-seals a payload of
		// >= 16 bytes whose header names another relay index of A / a hostinfo index / nobody's index / the
		// carrying index itself, or whose body is garbage; only the carrying relay index may be marked used
		// C15 (a relayed packet never changes the endpoint's remote): X's tunnel at A gets a direct remote,
		// then an authentic packet of X arrives through the relay
		if r.Chance(1, 2) {
			emit("xdirect own allow")
			emit("xdirect other %s", hlib.Pick(r, "allow", "allow", "deny"))
			ops += 2
		}
		if r.Chance(1, 2) {
			emit("pkt ctrl own out none")
			emit("pkt rmsg %s lie setidx relayB", hlib.Pick(r, "own", "own", "other"))
			emit("pkt rmsg own lie setidx %s", hlib.Pick(r, "B", "R", "unknown", "zero"))
			emit("pkt rmsg own lie setidx relay")
			emit("pkt rmsg own lie flipbody %d %d", r.Intn(1000), r.Intn(8))
			emit("pkt rmsg own lie trunc %d", hlib.Pick(r, 16, 17, 32))
			ops += 6
		}
		steps := r.Range(15, 60)
		for k := 0; k < steps; k++ {
			kind := hlib.Pick(r, kinds...)
			if kind == "close" && !r.Chance(1, 8) {
				kind = "msg"
			}
			if kind == "rclose" && !r.Chance(1, 5) {
				kind = "rmsg"
			}
			if profile == "C15" && r.Chance(2, 3) {
				kind = hlib.Pick(r, "rmsg", "rmsg", "fwd")
			}
			src := hlib.Pick(r, "own", "own", "own", "other", "mynet")
			// relay-only tunnel X-A: retransmitted / replayed stage-0 handshakes re-wrapped by the relay,
			// and A's own traffic for X, which must stay inside the relay tunnel
			if y := r.Intn(100); y < 8 || (profile == "C15" && y < 22) {
				switch r.Intn(6) {
				case 5:
					emit("xdirect %s %s", hlib.Pick(r, "own", "other"), hlib.Pick(r, "allow", "allow", "deny"))
				case 0:
					emit("hsdup %s %s X", hlib.Pick(r, "own", "own", "other", "mynet"), hlib.Pick(r, "relay", "relay", "relay", "flip"))
				case 1:
					emit("hsdup %s %s B", hlib.Pick(r, "own", "own", "other", "mynet"), hlib.Pick(r, "relay", "relay", "relay", "flip", "direct", "direct"))
				default:
					emit("reply")
				}
				ops++
				continue
			}
			switch x := r.Intn(100); {
			case x < 30:
				emit("pkt %s %s out none", kind, src)
			case x < 36:
				emit("recverr %s %s", hlib.Pick(r, "rB", "B", "unknown", "zero", "R", "rB"), hlib.Pick(r, "own", "other", "other", "mynet"))
			case x < 50 && (kind == "rmsg" || r.Chance(1, 3)):
				// a lying relay: rewrites the relayed payload and re-seals it
				m := genMut(r)
				if m == "replay" {
					m = "none"
				}
				emit("pkt rmsg %s lie %s", src, m)
			default:
				emit("pkt %s %s out %s", kind, src, genMut(r))
			}
			ops++
		}
	}
}

func TestEngine(t *testing.T) {
	hlib.Run(t, hlib.Engine{Name: "outside", Gen: gen, NewExec: newExec})
}
