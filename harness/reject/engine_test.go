// Engine `reject` (C21): iputil.CreateRejectPacket on structured packets and output capacities, with
// dirty output buffers; tcpipChecksum and the pseudo-header sums directly.
package reject

import (
	"fmt"
	"testing"

	"github.com/slackhq/nebula/iputil"
	"verifharness/hlib"
	"verifharness/pktlib"
)

func capFor(r *hlib.Rand, b []byte) int {
	need := []int{40, 60}
	if len(b) > 0 {
		ihl := int(b[0]&0x0f) << 2
		need = append(need, 28+min(len(b), ihl+8), 48+min(len(b), 1000))
	}
	switch r.Intn(10) {
	case 0:
		return hlib.Pick(r, need...) - 1
	case 1:
		return hlib.Pick(r, need...)
	case 2:
		return hlib.Pick(r, need...) + 1
	case 3:
		return hlib.Pick(r, 0, 1, 19, 20, 27, 28, 39, 47, 48, 95, 96, 97, 1047, 1048, 1049)
	case 4:
		return r.Intn(1200)
	}
	return hlib.Pick(r, 1048, 2048, 9001)
}

func gen(r *hlib.Rand, n int, tier, profile string, emit func(string, ...any)) {
	emit("maxsize")
	for _, b := range pktlib.FragBits() {
		emit("reject 2048 %s", hlib.Hex(b))
	}
	for i := 0; i < n; i++ {
		switch r.Intn(16) {
		case 0:
			ln := hlib.Pick(r, 0, 1, 2, 3, 19, 20, 21, 40, r.Intn(80), r.Intn(1100))
			d := r.Bytes(ln)
			if r.Chance(1, 4) {
				for j := range d {
					d[j] = 0xff
				}
			}
			if r.Chance(1, 6) {
				for j := range d {
					d[j] = 0
				}
			}
			init := 0
			if r.Bool() {
				init = hlib.Pick(r, 1, 0xffff, 0x10000, 0x1fffe, r.Intn(1<<22))
			}
			emit("csum %d %s", init, hlib.Hex(d))
		case 1:
			if r.Bool() {
				s, d := r.Bytes(4), r.Bytes(4)
				if r.Chance(1, 4) {
					s, d = []byte{255, 255, 255, 255}, []byte{255, 255, 255, 255}
				}
				emit("ps4 %s %s %d %d", hlib.Hex(s), hlib.Hex(d), hlib.Pick(r, 6, 1, 17, r.Intn(256)), hlib.Pick(r, 20, 8, 0xffff, 0x10000, 0x12345, r.Intn(70000)))
			} else {
				s, d := r.Bytes(16), r.Bytes(16)
				if r.Chance(1, 4) {
					for j := range s {
						s[j], d[j] = 0xff, 0xff
					}
				}
				emit("ps6 %s %s %d %d", hlib.Hex(s), hlib.Hex(d), hlib.Pick(r, 6, 58, 17, r.Intn(256)), hlib.Pick(r, 20, 1008, 0xffff, 0x10000, 0x12345, r.Intn(70000)))
			}
		default:
			var b []byte
			switch r.Intn(12) {
			case 0, 1, 2, 3:
				// mostly intact packets of the interesting protocols
				pr := hlib.Pick(r, 6, 6, 6, -1, -1, 17)
				if r.Bool() {
					b, _ = pktlib.V4P(r, pr)
				} else {
					b, _, _ = pktlib.V6P(r, hlib.Pick(r, 0, 0, 1, 2, 7, 8, 9), pr)
				}
			case 4:
				// large packets: the IPv6 reply is cut at 1000 bytes
				b, _, _ = pktlib.V6(r, r.Intn(3))
				b = append(b, r.Bytes(hlib.Pick(r, 900, 952, 959, 960, 961, 1000, 1400)-min(len(b), 900))...)
			case 5:
				b, _ = pktlib.V4(r)
				b = append(b, r.Bytes(r.Intn(1400))...)
			default:
				b, _ = pktlib.Any(r)
			}
			emit("reject %d %s", capFor(r, b), hlib.Hex(b))
		}
	}
}

func newExec(t *testing.T) func([]string) string {
	return func(a []string) string {
		switch a[0] {
		case "reject":
			b, err := hlib.UnHex(a[2])
			if err != nil {
				return "bad-op"
			}
			b = b[:len(b):len(b)]
			orig := append([]byte{}, b...)
			c := hlib.Atoi(a[1])
			out := make([]byte, c)
			for i := range out {
				out[i] = 0xa5 // dirty buffer: every reply byte must be written
			}
			out = out[:c/2]
			res := iputil.CreateRejectPacket(b, out)
			if string(orig) != string(b) {
				return "MODIFIED-INPUT"
			}
			if res == nil {
				return "nil"
			}
			if len(res) == 0 {
				return "empty"
			}
			return hlib.Hex(res)
		case "csum":
			b, err := hlib.UnHex(a[2])
			if err != nil {
				return "bad-op"
			}
			return fmt.Sprint(iputil.VerifTcpipChecksum(b, uint32(hlib.Atou(a[1]))))
		case "ps4", "ps6":
			s, err1 := hlib.UnHex(a[1])
			d, err2 := hlib.UnHex(a[2])
			if err1 != nil || err2 != nil {
				return "bad-op"
			}
			if a[0] == "ps4" {
				return fmt.Sprint(iputil.VerifIPv4PseudoheaderChecksum(s, d, uint32(hlib.Atou(a[3])), uint32(hlib.Atou(a[4]))))
			}
			return fmt.Sprint(iputil.VerifIPv6PseudoheaderChecksum(s, d, uint32(hlib.Atou(a[3])), uint32(hlib.Atou(a[4]))))
		case "maxsize":
			return fmt.Sprint(iputil.MaxRejectPacketSize)
		}
		return "bad-op"
	}
}

func TestEngine(t *testing.T) {
	hlib.Run(t, hlib.Engine{Name: "reject", Gen: gen, NewExec: newExec})
}
