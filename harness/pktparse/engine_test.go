// Engine `pktparse` (C20): newPacket / parseV4 / parseV6 and iputil.IPv6FindUpperProtocol on structured
// and damaged packets; gopacket runs at generation time as a second, unrelated decoder whose findings
// travel inside the op (so that the Lean specification itself is cross-checked).
package pktparse

import (
	"errors"
	"fmt"
	"net/netip"
	"testing"

	"github.com/google/gopacket"
	"github.com/google/gopacket/layers"
	"github.com/slackhq/nebula"
	"github.com/slackhq/nebula/firewall"
	"github.com/slackhq/nebula/iputil"
	"verifharness/hlib"
	"verifharness/pktlib"
)

// gpSummary decodes with gopacket and reports `<proto>:<hdrlen>:<sport>:<dport>` for a cleanly decoded,
// unfragmented TCP/UDP packet whose layers are only IP, the walked extension headers and the transport.
func gpSummary(b []byte) (res string) {
	defer func() {
		if recover() != nil {
			res = "-"
		}
	}()
	if len(b) < 1 {
		return "-"
	}
	var first gopacket.LayerType
	switch b[0] >> 4 {
	case 4:
		first = layers.LayerTypeIPv4
	case 6:
		first = layers.LayerTypeIPv6
	default:
		return "-"
	}
	p := gopacket.NewPacket(b, first, gopacket.DecodeOptions{Lazy: false, NoCopy: true})
	if p.ErrorLayer() != nil {
		return "-"
	}
	off := 0
	for _, l := range p.Layers() {
		switch x := l.(type) {
		case *layers.IPv4:
			if x.FragOffset != 0 || x.Flags&layers.IPv4MoreFragments != 0 {
				return "-"
			}
			if int(x.Length) != len(b) {
				return "-"
			}
		case *layers.IPv6:
			if int(x.Length)+40 != len(b) {
				return "-"
			}
		case *layers.IPv6HopByHop, *layers.IPv6Routing, *layers.IPv6Destination:
		case *layers.TCP:
			return fmt.Sprintf("6:%d:%d:%d", off, x.SrcPort, x.DstPort)
		case *layers.UDP:
			return fmt.Sprintf("17:%d:%d:%d", off, x.SrcPort, x.DstPort)
		default:
			return "-"
		}
		off += len(l.LayerContents())
	}
	return "-"
}

func gen(r *hlib.Rand, n int, tier, profile string, emit func(string, ...any)) {
	// the walker's limit, exactly: chains of 0..12 headers of every walked type, intact and cut at the end
	for _, t := range []byte{0, 43, 60, 51, 44} {
		for k := 0; k <= 12; k++ {
			b := make([]byte, 40)
			b[0] = 0x60
			b[7] = 64
			b[8], b[24] = 0xfd, 0xfd
			b[23], b[39] = 1, 2
			pos := 6
			for i := 0; i < k; i++ {
				b[pos] = t
				pos = len(b)
				h := make([]byte, 8)
				if t == 44 {
					h[3] = 1
				}
				b = append(b, h...)
			}
			b[pos] = 17
			full := append(append([]byte{}, b...), 0x12, 0x34, 0x00, 0x35, 0, 8, 0, 0)
			for _, d := range [][]byte{full, b, full[:len(full)-5], b[:len(b)-1]} {
				emit("parse %d %s %s", k&1, hlib.Hex(d), gpSummary(d))
				emit("upper %s", hlib.Hex(d))
			}
		}
	}
	for _, b := range pktlib.FragBits() {
		emit("parse 1 %s %s", hlib.Hex(b), gpSummary(b))
	}
	for i := 0; i < n; i++ {
		b, _ := pktlib.Any(r)
		if r.Chance(1, 8) {
			emit("upper %s", hlib.Hex(b))
			continue
		}
		emit("parse %d %s %s", r.Intn(2), hlib.Hex(b), gpSummary(b))
	}
	if tier == "thorough" {
		// every truncation of a few long chains
		for j := 0; j < 40; j++ {
			b, _, _ := pktlib.V6(r, r.Range(5, 11))
			for l := 40; l <= len(b); l++ {
				emit("parse %d %s -", j&1, hlib.Hex(b[:l]))
			}
		}
	}
}

func errKind(err error) string {
	switch {
	case errors.Is(err, nebula.ErrPacketTooShort):
		return "err:short"
	case errors.Is(err, nebula.ErrUnknownIPVersion):
		return "err:version"
	case errors.Is(err, nebula.ErrIPv4InvalidHeaderLength):
		return "err:v4hdrlen"
	case errors.Is(err, nebula.ErrIPv4PacketTooShort):
		return "err:v4short"
	case errors.Is(err, nebula.ErrIPv6PacketTooShort):
		return "err:v6short"
	}
	return "err:other:" + err.Error()
}

func newExec(t *testing.T) func([]string) string {
	junk := netip.MustParseAddr("203.0.113.77")
	junk6 := netip.MustParseAddr("2001:db8::dead:beef")
	return func(a []string) string {
		switch a[0] {
		case "parse":
			b, err := hlib.UnHex(a[2])
			if err != nil {
				return "bad-op"
			}
			b = b[:len(b):len(b)]
			// The data path reuses one ParsedPacket per routine (rxc.fwPacket, the inside routines' fwPacket), so
			// newPacket always writes into whatever the previous packet left. newPacket itself resets only
			// IPHdrLen and FragAny; every other field is expected to be written by each successful path of
			// parseV4 / parseV6. Tie: parse into two dirty structs whose EVERY field (LocalAddr, RemoteAddr,
			// LocalPort, RemotePort, Protocol, Fragment, IPHdrLen, FragAny) holds complementary garbage, so
			// that whatever the right value of a field is, at least one of the two fills differs from it.
			// Every reported field must come from this packet: the two answers must be the same line.
			fills := [2]*firewall.ParsedPacket{
				{
					Packet: firewall.Packet{LocalAddr: junk, RemoteAddr: junk, LocalPort: 0xdead, RemotePort: 0xbeef,
						Protocol: 0xee, Fragment: true},
					IPHdrLen: 7777, FragAny: true,
				},
				{ // what a previous TCP packet to :443 leaves behind
					Packet: firewall.Packet{LocalAddr: junk6, RemoteAddr: junk6, LocalPort: 443, RemotePort: 51000,
						Protocol: firewall.ProtoTCP, Fragment: false},
					IPHdrLen: 20, FragAny: false,
				},
			}
			var ans [2]string
			for i, fp := range fills {
				if err := nebula.VerifNewPacket(b, a[1] == "1", fp); err != nil {
					ans[i] = errKind(err)
					continue
				}
				ans[i] = fmt.Sprintf("ok %s %s %d %d %d %s %d %s", hlib.AddrHex(fp.LocalAddr), hlib.AddrHex(fp.RemoteAddr),
					fp.LocalPort, fp.RemotePort, fp.Protocol, hlib.B(fp.Fragment), fp.IPHdrLen, hlib.B(fp.FragAny))
			}
			if ans[0] != ans[1] {
				return ans[0] + " ## " + ans[1]
			}
			return ans[0]
		case "upper":
			b, err := hlib.UnHex(a[1])
			if err != nil {
				return "bad-op"
			}
			b = b[:len(b):len(b)]
			nh, off, isFrag, anyFrag, err := iputil.IPv6FindUpperProtocol(b)
			if err != nil {
				return "err"
			}
			return fmt.Sprintf("ok %d %d %s %s", nh, off, hlib.B(isFrag), hlib.B(anyFrag))
		}
		return "bad-op"
	}
}

func TestEngine(t *testing.T) {
	hlib.Run(t, hlib.Engine{Name: "pktparse", Gen: gen, NewExec: newExec})
}
