// Engine `certkeys` (C43): key PEM banners (cert/pem.go) and encrypted signing keys (cert/crypto.go) with small
// Argon2 parameters. Encrypted blobs are produced by the real EncryptAndMarshalSigningPrivateKey and then
// altered structurally (re-marshalled protobuf with chosen fields) or bytewise inside salt / ciphertext.
package certkeys

import (
	"encoding/hex"
	"encoding/pem"
	"errors"
	"fmt"
	"strings"
	"testing"

	"github.com/slackhq/nebula/cert"
	"google.golang.org/protobuf/proto"
	"verifharness/hlib"
)

var banners = []string{cert.X25519PrivateKeyBanner, cert.X25519PublicKeyBanner, cert.P256PrivateKeyBanner, cert.P256PublicKeyBanner,
	cert.EncryptedECDSAP256PrivateKeyBanner, cert.ECDSAP256PrivateKeyBanner, cert.ECDSAP256PublicKeyBanner,
	cert.EncryptedEd25519PrivateKeyBanner, cert.Ed25519PrivateKeyBanner, cert.Ed25519PublicKeyBanner,
	cert.CertificateBanner, cert.CertificateV2Banner, "NEBULA ED25519 PRIVATE KEY ", "nebula ed25519 private key", "X"}

func bhex(s string) string { return hex.EncodeToString([]byte(s)) }

func unbanner(h string) string {
	b, err := hex.DecodeString(h)
	if err != nil {
		panic("harness: bad banner")
	}
	return string(b)
}

func keyRes(b []byte, curve cert.Curve, err error) string {
	if err != nil {
		msg := err.Error()
		switch {
		case errors.Is(err, cert.ErrPrivateKeyEncrypted):
			return "err:encrypted"
		case strings.Contains(msg, "bytes did not contain a proper"):
			return "err:banner"
		case strings.Contains(msg, "key was not"):
			return "err:length"
		}
		return "err:other:" + strings.ReplaceAll(msg, " ", "_")
	}
	return fmt.Sprintf("ok %d %d", curve, len(b))
}

func decKind(err error) string {
	msg := err.Error()
	switch {
	case strings.Contains(msg, "input did not contain a valid PEM"):
		return "err:pem"
	case strings.Contains(msg, "bytes did not contain a proper nebula encrypted"):
		return "err:banner"
	case msg == "nil byte array":
		return "err:empty"
	case strings.Contains(msg, "encoded EncryptionMetadata was nil"):
		return "err:no-metadata"
	case strings.Contains(msg, "encoded Argon2Parameters was nil"):
		return "err:no-argon"
	case strings.Contains(msg, "Argon2Parameters Version must"):
		return "err:version"
	case strings.Contains(msg, "Argon2Parameters Memory must"):
		return "err:memory"
	case strings.Contains(msg, "Argon2Parameters Parallelism must"):
		return "err:parallelism"
	case strings.Contains(msg, "-argon-iterations must"):
		return "err:iterations"
	case strings.Contains(msg, "unsupported encryption algorithm"):
		return "err:algorithm"
	case strings.Contains(msg, "incompatible Argon2 version"):
		return "err:argon-version"
	case strings.Contains(msg, "salt must be at least"):
		return "err:salt-short"
	case strings.Contains(msg, "invalid ciphertext blob"):
		return "err:blob-short"
	case strings.Contains(msg, "invalid passphrase or corrupt private key"):
		return "err:aead"
	case strings.Contains(msg, "key was not"):
		return "err:key-length"
	case strings.HasPrefix(msg, "proto:"), strings.Contains(msg, "invalid UTF-8"):
		return "err:proto"
	}
	return "err:other:" + strings.ReplaceAll(msg, " ", "_")
}

func unhex(s string) []byte {
	b, err := hlib.UnHex(s)
	if err != nil {
		panic("harness: bad hex")
	}
	return b
}

func newExec(t *testing.T) func([]string) string {
	return func(a []string) string {
		switch a[0] {
		case "unkey":
			p := pem.EncodeToMemory(&pem.Block{Type: unbanner(a[2]), Bytes: unhex(a[3])})
			switch a[1] {
			case "pub":
				b, _, c, err := cert.UnmarshalPublicKeyFromPEM(p)
				return keyRes(b, c, err)
			case "spub":
				b, _, c, err := cert.UnmarshalSigningPublicKeyFromPEM(p)
				return keyRes(b, c, err)
			case "priv":
				b, _, c, err := cert.UnmarshalPrivateKeyFromPEM(p)
				return keyRes(b, c, err)
			case "spriv":
				b, _, c, err := cert.UnmarshalSigningPrivateKeyFromPEM(p)
				return keyRes(b, c, err)
			}
		case "mkey":
			curve := cert.Curve(hlib.Atoi(a[2]))
			var p []byte
			switch a[1] {
			case "pub":
				p = cert.MarshalPublicKeyToPEM(curve, []byte{1})
			case "spub":
				p = cert.MarshalSigningPublicKeyToPEM(curve, []byte{1})
			case "priv":
				p = cert.MarshalPrivateKeyToPEM(curve, []byte{1})
			case "spriv":
				p = cert.MarshalSigningPrivateKeyToPEM(curve, []byte{1})
			case "enc":
				var err error
				p, err = cert.EncryptAndMarshalSigningPrivateKey(curve, []byte{1, 2, 3}, []byte("pw"), cert.NewArgon2Parameters(8, 1, 1))
				if err != nil {
					p = nil
				}
			}
			if p == nil {
				return "nil"
			}
			blk, _ := pem.Decode(p)
			if blk == nil {
				return "nil"
			}
			return bhex(blk.Type)
		case "dec":
			p := pem.EncodeToMemory(&pem.Block{Type: unbanner(a[1]), Bytes: unhex(a[3])})
			curve, key, _, err := cert.DecryptAndUnmarshalSigningPrivateKey(unhex(a[2]), p)
			if err != nil {
				return decKind(err)
			}
			return fmt.Sprintf("ok %d %s", curve, hlib.Hex(key))
		}
		return "bad-op"
	}
}

// ---- generator -------------------------------------------------------------------------------------

func gen(r *hlib.Rand, n int, tier, profile string, emit func(string, ...any)) {
	// complete banner x function x interesting-length table
	for _, fn := range []string{"pub", "spub", "priv", "spriv"} {
		for _, b := range banners {
			for _, l := range []int{0, 31, 32, 33, 64, 65, 66} {
				emit("unkey %s %s %s", fn, bhex(b), hlib.Hex(r.Bytes(l)))
			}
		}
	}
	for _, fn := range []string{"pub", "spub", "priv", "spriv", "enc"} {
		for c := 0; c < 4; c++ {
			emit("mkey %s %d", fn, c)
		}
	}
	for i := 0; i < n; i++ {
		curve := cert.Curve(r.Intn(2))
		keyLen := 64
		if curve == cert.Curve_P256 {
			keyLen = 32
		}
		if r.Chance(1, 10) {
			keyLen = hlib.Pick(r, 0, 1, 31, 32, 33, 63, 64, 65)
		}
		key := r.Bytes(keyLen)
		pass := r.Bytes(hlib.Pick(r, 0, 1, 8, 20))
		mem, par, iter := uint32(hlib.Pick(r, 8, 16, 64)), uint8(hlib.Pick(r, 1, 1, 2)), uint32(hlib.Pick(r, 1, 1, 2))
		p, err := cert.EncryptAndMarshalSigningPrivateKey(curve, key, pass, cert.NewArgon2Parameters(mem, par, iter))
		if err != nil {
			continue
		}
		blk, _ := pem.Decode(p)
		body := blk.Bytes
		banner := blk.Type
		validLen := (curve == cert.Curve_P256 && keyLen == 32) || (curve == cert.Curve_CURVE25519 && keyLen == 64)
		origKind := "orig"
		if !validLen {
			origKind = "crafted" // not a signing key of that curve: encryption does not look, decryption refuses the length
		}
		emit("dec %s %s %s 1 %s %s %s", bhex(banner), hlib.Hex(pass), hlib.Hex(body), hlib.Hex(key), origKind, hlib.Hex(key))
		var m cert.RawNebulaEncryptedData
		if err := proto.Unmarshal(body, &m); err != nil {
			panic(err)
		}
		remarshal := func() []byte {
			b, err := proto.Marshal(&m)
			if err != nil {
				panic(err)
			}
			return b
		}
		for k, kk := 0, hlib.Pick(r, 1, 2, 3); k < kk; k++ {
			proto.Unmarshal(body, &m)
			a := m.EncryptionMetadata.Argon2Parameters
			kind, aead := "tampered", "0"
			usePass, useBanner, useBody := pass, banner, []byte(nil)
			switch r.Intn(20) {
			case 0, 1:
				kind = "wrongpass"
				usePass = append(append([]byte{}, pass...), 1)
				if r.Bool() && len(pass) > 0 {
					usePass = append([]byte{}, pass...)
					usePass[r.Intn(len(usePass))] ^= 1 << uint(r.Intn(8))
				}
				useBody = body
			case 2: // flip inside the nonce / ciphertext / tag
				m.Ciphertext[r.Intn(len(m.Ciphertext))] ^= 1 << uint(r.Intn(8))
			case 3: // flip inside the salt
				a.Salt[r.Intn(len(a.Salt))] ^= 1 << uint(r.Intn(8))
			case 4:
				a.Memory = hlib.Pick(r, uint32(0), mem+8, 9)
			case 5:
				a.Parallelism = hlib.Pick(r, uint32(0), 256, 1000, uint32(par)+1)
			case 6:
				a.Iterations = hlib.Pick(r, uint32(0), iter+1)
			case 7:
				a.Version = hlib.Pick(r, int32(0), 0x10, -1, 0x14)
			case 8:
				a.Salt = hlib.Pick(r, nil, a.Salt[:15], a.Salt[:16], append(append([]byte{}, a.Salt...), 0))
			case 9:
				m.EncryptionMetadata.EncryptionAlgorithm = hlib.Pick(r, "", "AES-128-GCM", "aes-256-gcm", "AES-256-GCM ")
			case 10:
				m.EncryptionMetadata.Argon2Parameters = nil
			case 11:
				m.EncryptionMetadata = nil
			case 12:
				cut := hlib.Pick(r, 0, 1, 11, 12, 13, 28)
				if cut >= len(m.Ciphertext) {
					cut = len(m.Ciphertext) - 1 // always a real truncation
				}
				m.Ciphertext = m.Ciphertext[:cut]
			case 13: // the other curve's banner: key length check
				if curve == cert.Curve_P256 {
					useBanner = cert.EncryptedEd25519PrivateKeyBanner
				} else {
					useBanner = cert.EncryptedECDSAP256PrivateKeyBanner
				}
				kind, aead = "crafted", "1"
			case 14:
				useBanner = hlib.Pick(r, banners...)
				kind = "crafted"
				if useBanner == cert.EncryptedEd25519PrivateKeyBanner || useBanner == cert.EncryptedECDSAP256PrivateKeyBanner {
					aead = "1"
				}
			case 15: // unknown protobuf field appended: not covered by the AEAD, changes nothing
				useBody = append(append([]byte{}, body...), 0x98, 0x06, 0x01)
				kind, aead = "tampered", "1"
			case 16:
				useBody = append(append([]byte{}, body...), byte(r.Intn(256)))
				kind = "crafted"
				aead = "1"
			case 17:
				useBody = body[:r.Intn(len(body))]
				kind = "crafted"
			case 18:
				useBody = []byte{}
				kind = "crafted"
			default:
				m.Ciphertext = append(m.Ciphertext, byte(r.Intn(256)))
			}
			if useBody == nil {
				useBody = remarshal()
			}
			emit("dec %s %s %s %s %s %s %s", bhex(useBanner), hlib.Hex(usePass), hlib.Hex(useBody), aead, hlib.Hex(key), kind, hlib.Hex(key))
		}
	}
}

func TestEngine(t *testing.T) {
	hlib.Run(t, hlib.Engine{Name: "certkeys", Gen: gen, NewExec: newExec})
}
