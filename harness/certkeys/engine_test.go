// Engine `certkeys` (C43): key PEM banners (cert/pem.go) and encrypted signing keys (cert/crypto.go) with small
// Argon2 parameters. Encrypted blobs are produced by the real EncryptAndMarshalSigningPrivateKey and then
// altered structurally (re-marshalled protobuf with chosen fields) or bytewise inside salt / ciphertext.
package certkeys

import (
	"bytes"
	"crypto/aes"
	"crypto/cipher"
	"encoding/hex"
	"encoding/pem"
	"errors"
	"fmt"
	"strings"
	"testing"

	"github.com/slackhq/nebula/cert"
	"golang.org/x/crypto/argon2"
	"google.golang.org/protobuf/proto"
	"verifharness/hlib"
)

var banners = []string{cert.X25519PrivateKeyBanner, cert.X25519PublicKeyBanner, cert.P256PrivateKeyBanner, cert.P256PublicKeyBanner,
	cert.EncryptedECDSAP256PrivateKeyBanner, cert.ECDSAP256PrivateKeyBanner, cert.ECDSAP256PublicKeyBanner,
	cert.EncryptedEd25519PrivateKeyBanner, cert.Ed25519PrivateKeyBanner, cert.Ed25519PublicKeyBanner,
	cert.CertificateBanner, cert.CertificateV2Banner, "NEBULA ED25519 PRIVATE KEY ", "nebula ed25519 private key", "X"}

func bhex(s string) string { return hex.EncodeToString([]byte(s)) }

func unbanner(h string) string {
	b, err := hex.DecodeString(h)
	if err != nil {
		panic("harness: bad banner")
	}
	return string(b)
}

func keyRes(b []byte, curve cert.Curve, err error) string {
	if err != nil {
		msg := err.Error()
		switch {
		case errors.Is(err, cert.ErrPrivateKeyEncrypted):
			return "err:encrypted"
		case strings.Contains(msg, "bytes did not contain a proper"):
			return "err:banner"
		case strings.Contains(msg, "key was not"):
			return "err:length"
		}
		return "err:other:" + strings.ReplaceAll(msg, " ", "_")
	}
	return fmt.Sprintf("ok %d %d", curve, len(b))
}

func decKind(err error) string {
	msg := err.Error()
	switch {
	case strings.Contains(msg, "input did not contain a valid PEM"):
		return "err:pem"
	case strings.Contains(msg, "bytes did not contain a proper nebula encrypted"):
		return "err:banner"
	case msg == "nil byte array":
		return "err:empty"
	case strings.Contains(msg, "encoded EncryptionMetadata was nil"):
		return "err:no-metadata"
	case strings.Contains(msg, "encoded Argon2Parameters was nil"):
		return "err:no-argon"
	case strings.Contains(msg, "Argon2Parameters Version must"):
		return "err:version"
	case strings.Contains(msg, "Argon2Parameters Memory must"):
		return "err:memory"
	case strings.Contains(msg, "Argon2Parameters Parallelism must"):
		return "err:parallelism"
	case strings.Contains(msg, "-argon-iterations must"):
		return "err:iterations"
	case strings.Contains(msg, "unsupported encryption algorithm"):
		return "err:algorithm"
	case strings.Contains(msg, "incompatible Argon2 version"):
		return "err:argon-version"
	case strings.Contains(msg, "salt must be at least"):
		return "err:salt-short"
	case strings.Contains(msg, "invalid ciphertext blob"):
		return "err:blob-short"
	case strings.Contains(msg, "invalid passphrase or corrupt private key"):
		return "err:aead"
	case strings.Contains(msg, "key was not"):
		return "err:key-length"
	case strings.HasPrefix(msg, "proto:"), strings.Contains(msg, "invalid UTF-8"):
		return "err:proto"
	}
	return "err:other:" + strings.ReplaceAll(msg, " ", "_")
}

func unhex(s string) []byte {
	b, err := hlib.UnHex(s)
	if err != nil {
		panic("harness: bad hex")
	}
	return b
}

// ---- the format, implemented here a second time (x/crypto argon2 + crypto/cipher, protobuf written by hand) ------
//
// Nothing below calls into cert/crypto.go: it is what another implementation of the documented format
// (Argon2id v0x13 over passphrase and the recorded salt / iterations / memory KiB / parallelism, 32-byte key,
// AES-256-GCM, blob = 12-byte nonce ‖ ciphertext ‖ tag) does.

type kdfParams struct {
	mem, iter, par uint32
	salt           []byte
}

func pbVarint(x uint64) []byte {
	var b []byte
	for x >= 0x80 {
		b = append(b, byte(x)|0x80)
		x >>= 7
	}
	return append(b, byte(x))
}

func pbUint(num int, v uint64) []byte {
	if v == 0 {
		return nil
	}
	return append(pbVarint(uint64(num)<<3), pbVarint(v)...)
}

func pbBytes(num int, v []byte) []byte {
	if len(v) == 0 {
		return nil
	}
	return append(append(pbVarint(uint64(num)<<3|2), pbVarint(uint64(len(v)))...), v...)
}

func indepKey(pass []byte, k kdfParams) []byte {
	return argon2.IDKey(pass, k.salt, k.iter, k.mem, uint8(k.par), 32)
}

// indepSeal is the body of an encrypted-key PEM block for (pass, plain) under the given parameters and nonce.
func indepSeal(pass, plain []byte, k kdfParams, nonce []byte) []byte {
	blk, err := aes.NewCipher(indepKey(pass, k))
	if err != nil {
		panic(err)
	}
	gcm, err := cipher.NewGCM(blk)
	if err != nil {
		panic(err)
	}
	blob := append(append([]byte{}, nonce...), gcm.Seal(nil, nonce, plain, nil)...)
	var argon []byte
	argon = append(argon, pbUint(1, 0x13)...)
	argon = append(argon, pbUint(2, uint64(k.mem))...)
	argon = append(argon, pbUint(3, uint64(k.iter))...)
	argon = append(argon, pbUint(4, uint64(k.par))...)
	argon = append(argon, pbBytes(5, k.salt)...)
	meta := append(pbBytes(1, []byte("AES-256-GCM")), pbBytes(2, argon)...)
	return append(pbBytes(1, meta), pbBytes(2, blob)...)
}

// indepOpen: applicable=false when the body never reaches the AEAD in any implementation of the format (does
// not parse, parameters outside their ranges, other algorithm / Argon2 version, short salt or blob).
func indepOpen(pass, body []byte) (plain []byte, opened bool, applicable bool) {
	var m cert.RawNebulaEncryptedData
	if len(body) == 0 || proto.Unmarshal(body, &m) != nil || m.EncryptionMetadata == nil || m.EncryptionMetadata.Argon2Parameters == nil {
		return nil, false, false
	}
	a := m.EncryptionMetadata.Argon2Parameters
	if a.Memory == 0 || a.Parallelism == 0 || a.Parallelism > 255 || a.Iterations == 0 || a.Version != 0x13 || len(a.Salt) < 16 ||
		m.EncryptionMetadata.EncryptionAlgorithm != "AES-256-GCM" || len(m.Ciphertext) <= 12 {
		return nil, false, false
	}
	if a.Memory > 1<<16 || a.Iterations > 16 {
		return nil, false, false // never generated; would only burn time
	}
	blk, err := aes.NewCipher(indepKey(pass, kdfParams{mem: a.Memory, iter: a.Iterations, par: a.Parallelism, salt: a.Salt}))
	if err != nil {
		panic(err)
	}
	gcm, _ := cipher.NewGCM(blk)
	pl, err := gcm.Open(nil, m.Ciphertext[:12], m.Ciphertext[12:], nil)
	if err != nil {
		return nil, false, true
	}
	if pl == nil {
		pl = []byte{}
	}
	return pl, true, true
}

func newExec(t *testing.T) func([]string) string {
	return func(a []string) string {
		switch a[0] {
		case "unkey":
			p := pem.EncodeToMemory(&pem.Block{Type: unbanner(a[2]), Bytes: unhex(a[3])})
			switch a[1] {
			case "pub":
				b, _, c, err := cert.UnmarshalPublicKeyFromPEM(p)
				return keyRes(b, c, err)
			case "spub":
				b, _, c, err := cert.UnmarshalSigningPublicKeyFromPEM(p)
				return keyRes(b, c, err)
			case "priv":
				b, _, c, err := cert.UnmarshalPrivateKeyFromPEM(p)
				return keyRes(b, c, err)
			case "spriv":
				b, _, c, err := cert.UnmarshalSigningPrivateKeyFromPEM(p)
				return keyRes(b, c, err)
			}
		case "mkey":
			curve := cert.Curve(hlib.Atoi(a[2]))
			var p []byte
			switch a[1] {
			case "pub":
				p = cert.MarshalPublicKeyToPEM(curve, []byte{1})
			case "spub":
				p = cert.MarshalSigningPublicKeyToPEM(curve, []byte{1})
			case "priv":
				p = cert.MarshalPrivateKeyToPEM(curve, []byte{1})
			case "spriv":
				p = cert.MarshalSigningPrivateKeyToPEM(curve, []byte{1})
			case "enc":
				var err error
				p, err = cert.EncryptAndMarshalSigningPrivateKey(curve, []byte{1, 2, 3}, []byte("pw"), cert.NewArgon2Parameters(8, 1, 1))
				if err != nil {
					p = nil
				}
			}
			if p == nil {
				return "nil"
			}
			blk, _ := pem.Decode(p)
			if blk == nil {
				return "nil"
			}
			return bhex(blk.Type)
		case "enc":
			// enc <curve> <pass> <key> <mem> <par> <iter>: the real encryption, opened by the second implementation
			curve := cert.Curve(hlib.Atoi(a[1]))
			mem, par, iter := uint32(hlib.Atoi(a[4])), uint8(hlib.Atoi(a[5])), uint32(hlib.Atoi(a[6]))
			p, err := cert.EncryptAndMarshalSigningPrivateKey(curve, unhex(a[3]), unhex(a[2]), cert.NewArgon2Parameters(mem, par, iter))
			if err != nil {
				if strings.HasPrefix(err.Error(), "invalid curve") {
					return "err:curve"
				}
				return "err:other:" + strings.ReplaceAll(err.Error(), " ", "_")
			}
			blk, rest := pem.Decode(p)
			if blk == nil || len(rest) != 0 {
				return "err:pem"
			}
			bc := -1
			switch blk.Type {
			case cert.EncryptedEd25519PrivateKeyBanner:
				bc = 0
			case cert.EncryptedECDSAP256PrivateKeyBanner:
				bc = 1
			}
			var m cert.RawNebulaEncryptedData
			if err := proto.Unmarshal(blk.Bytes, &m); err != nil || m.EncryptionMetadata == nil || m.EncryptionMetadata.Argon2Parameters == nil {
				return "err:proto"
			}
			ap := m.EncryptionMetadata.Argon2Parameters
			pl, opened, app := indepOpen(unhex(a[2]), blk.Bytes)
			if !app {
				return "err:indep-not-applicable"
			}
			if !opened {
				return fmt.Sprintf("err:indep-open %d %d %d %d", ap.Memory, ap.Parallelism, ap.Iterations, len(ap.Salt))
			}
			return fmt.Sprintf("ok %d %s %d %d %d %d", bc, hlib.Hex(pl), ap.Memory, ap.Parallelism, ap.Iterations, len(ap.Salt))
		case "dec":
			// the AEAD bits of the op must be what the second implementation observes
			if pl, opened, app := indepOpen(unhex(a[2]), unhex(a[3])); app {
				if hlib.B(opened) != a[4] || (opened && !bytes.Equal(pl, unhex(a[5]))) {
					return "op-inconsistent"
				}
			}
			p := pem.EncodeToMemory(&pem.Block{Type: unbanner(a[1]), Bytes: unhex(a[3])})
			curve, key, _, err := cert.DecryptAndUnmarshalSigningPrivateKey(unhex(a[2]), p)
			if err != nil {
				return decKind(err)
			}
			return fmt.Sprintf("ok %d %s", curve, hlib.Hex(key))
		case "kdftamper":
			return execKdfTamper(a)
		}
		return "bad-op"
	}
}

// ---- generator -------------------------------------------------------------------------------------

func gen(r *hlib.Rand, n int, tier, profile string, emit func(string, ...any)) {
	// complete banner x function x interesting-length table
	for _, fn := range []string{"pub", "spub", "priv", "spriv"} {
		for _, b := range banners {
			for _, l := range []int{0, 31, 32, 33, 64, 65, 66} {
				emit("unkey %s %s %s", fn, bhex(b), hlib.Hex(r.Bytes(l)))
			}
		}
	}
	for _, fn := range []string{"pub", "spub", "priv", "spriv", "enc"} {
		for c := 0; c < 4; c++ {
			emit("mkey %s %d", fn, c)
		}
	}
	bannerFor := func(c cert.Curve) string {
		if c == cert.Curve_P256 {
			return cert.EncryptedECDSAP256PrivateKeyBanner
		}
		return cert.EncryptedEd25519PrivateKeyBanner
	}
	// aead / plain are what the second implementation observes for (pass, body); the executor re-validates them
	emitDec := func(banner string, pass, body, key []byte, kind string) {
		aead, plain := "0", key
		if pl, opened, app := indepOpen(pass, body); app && opened {
			aead, plain = "1", pl
		}
		emit("dec %s %s %s %s %s %s %s", bhex(banner), hlib.Hex(pass), hlib.Hex(body), aead, hlib.Hex(plain), kind, hlib.Hex(key))
	}
	// known answers: blobs written by the second implementation with every small memory / lane combination (memory
	// below, at and above 8 x lanes — Argon2 hashes the *recorded* memory into H0 before it rounds it up)
	for _, par := range []uint32{1, 2, 3, 4} {
		for _, mem := range []uint32{1, 2, 7, 8, 9, 8*par - 1, 8 * par, 8*par + 1, 4 * par, 64} {
			curve := cert.Curve(r.Intn(2))
			key := r.Bytes(64 - 32*int(curve))
			pass := r.Bytes(hlib.Pick(r, 0, 1, 8))
			k := kdfParams{mem: mem, iter: uint32(hlib.Pick(r, 1, 2)), par: par, salt: r.Bytes(hlib.Pick(r, 16, 32))}
			emitDec(bannerFor(curve), pass, indepSeal(pass, key, k, r.Bytes(12)), key, "orig")
			emit("enc %d %s %s %d %d %d", curve, hlib.Hex(pass), hlib.Hex(key), mem, par, k.iter)
		}
	}
	emit("enc 2 - 00 8 1 1")
	genKdfParams(r, n, tier, emit) // kdfparams_test.go
	for i := 0; i < n; i++ {
		curve := cert.Curve(r.Intn(2))
		keyLen := 64
		if curve == cert.Curve_P256 {
			keyLen = 32
		}
		if r.Chance(1, 10) {
			keyLen = hlib.Pick(r, 0, 1, 31, 32, 33, 63, 64, 65)
		}
		key := r.Bytes(keyLen)
		pass := r.Bytes(hlib.Pick(r, 0, 1, 8, 20))
		if r.Chance(1, 4) {
			pass = []byte(hlib.Pick(r, "Passw0rd", "pass word ", " x", "x\n", "caf\xc3\xa9", "\x00", "a\x00b"))
		}
		par := uint8(hlib.Pick(r, 1, 1, 2, 3, 4))
		mem := uint32(hlib.Pick(r, 8, 16, 64, 1, 2, 4, 7, 9, 15, 17, 31, 32, 33, 8*int(par), 8*int(par)-1, 8*int(par)+1))
		iter := uint32(hlib.Pick(r, 1, 1, 2, 3))
		var body []byte
		banner := bannerFor(curve)
		if r.Bool() {
			p, err := cert.EncryptAndMarshalSigningPrivateKey(curve, key, pass, cert.NewArgon2Parameters(mem, par, iter))
			if err != nil {
				continue
			}
			blk, _ := pem.Decode(p)
			body, banner = blk.Bytes, blk.Type
		} else {
			body = indepSeal(pass, key, kdfParams{mem: mem, iter: iter, par: uint32(par), salt: r.Bytes(hlib.Pick(r, 16, 17, 32, 33))}, r.Bytes(12))
		}
		validLen := (curve == cert.Curve_P256 && keyLen == 32) || (curve == cert.Curve_CURVE25519 && keyLen == 64)
		origKind := "orig"
		if !validLen {
			origKind = "crafted" // not a signing key of that curve: encryption does not look, decryption refuses the length
		}
		emitDec(banner, pass, body, key, origKind)
		if r.Chance(1, 4) {
			emit("enc %d %s %s %d %d %d", curve, hlib.Hex(pass), hlib.Hex(key), mem, par, iter)
		}
		var m cert.RawNebulaEncryptedData
		if err := proto.Unmarshal(body, &m); err != nil {
			panic(err)
		}
		remarshal := func() []byte {
			b, err := proto.Marshal(&m)
			if err != nil {
				panic(err)
			}
			return b
		}
		// one KDF parameter (or the nonce) altered, everything else as it was: must be refused — no other value of a
		// parameter derives the same key
		if validLen && r.Chance(1, 2) {
			alter := func(f func(a *cert.RawNebulaArgon2Parameters)) {
				proto.Unmarshal(body, &m)
				f(m.EncryptionMetadata.Argon2Parameters)
				emitDec(banner, pass, remarshal(), key, "kdfparam")
			}
			mems := []uint32{8 * uint32(par), 8*uint32(par) - 1, 8*uint32(par) + 1, 1, mem + 1, mem - 1, 2 * mem, 1 + uint32(r.Intn(8*int(par)+2)),
				1 + uint32(r.Intn(8*int(par)+2)), mem + 8, mem ^ 1<<uint(r.Intn(7))}
			for _, v := range mems {
				if v != mem && v != 0 && r.Chance(1, 2) {
					v := v
					alter(func(a *cert.RawNebulaArgon2Parameters) { a.Memory = v })
				}
			}
			for _, v := range []uint32{iter + 1, iter - 1} {
				if v != 0 && r.Chance(1, 3) {
					v := v
					alter(func(a *cert.RawNebulaArgon2Parameters) { a.Iterations = v })
				}
			}
			for _, v := range []uint32{uint32(par) + 1, uint32(par) - 1, 2 * uint32(par)} {
				if v != 0 && r.Chance(1, 3) {
					v := v
					alter(func(a *cert.RawNebulaArgon2Parameters) { a.Parallelism = v })
				}
			}
			if r.Chance(1, 2) {
				alter(func(a *cert.RawNebulaArgon2Parameters) { a.Salt[r.Intn(len(a.Salt))] ^= 1 << uint(r.Intn(8)) })
			}
			if r.Chance(1, 4) {
				alter(func(a *cert.RawNebulaArgon2Parameters) { a.Salt = append(a.Salt, 0) })
			}
			if r.Chance(1, 4) {
				alter(func(a *cert.RawNebulaArgon2Parameters) {
					if len(a.Salt) > 16 {
						a.Salt = a.Salt[:len(a.Salt)-1]
					} else {
						a.Salt = append([]byte{0}, a.Salt...)
					}
				})
			}
			if r.Chance(1, 2) { // nonce
				proto.Unmarshal(body, &m)
				m.Ciphertext[r.Intn(12)] ^= 1 << uint(r.Intn(8))
				emitDec(banner, pass, remarshal(), key, "kdfparam")
			}
		}
		for k, kk := 0, hlib.Pick(r, 1, 2, 3); k < kk; k++ {
			proto.Unmarshal(body, &m)
			a := m.EncryptionMetadata.Argon2Parameters
			kind := "tampered"
			usePass, useBanner, useBody := pass, banner, []byte(nil)
			switch r.Intn(20) {
			case 0, 1:
				kind = "wrongpass"
				usePass = append(append([]byte{}, pass...), hlib.Pick(r, byte(1), 0, ' ', '\n', '\r', '\t'))
				if len(pass) > 0 && r.Chance(1, 4) {
					usePass = append([]byte{}, pass[:len(pass)-1]...) // a prefix
				} else if len(pass) > 0 && r.Chance(1, 4) {
					usePass = append([]byte{hlib.Pick(r, byte(' '), '\n', 0)}, pass...)
				} else if len(pass) > 0 && r.Chance(1, 4) {
					usePass = bytes.ToUpper(pass)
					if bytes.Equal(usePass, pass) {
						usePass = bytes.ToLower(pass)
					}
					if bytes.Equal(usePass, pass) {
						usePass = append(append([]byte{}, pass...), pass...)
					}
				}
				if r.Bool() && len(pass) > 0 {
					usePass = append([]byte{}, pass...)
					usePass[r.Intn(len(usePass))] ^= 1 << uint(r.Intn(8))
				}
				useBody = body
			case 2: // flip inside the nonce / ciphertext / tag
				m.Ciphertext[r.Intn(len(m.Ciphertext))] ^= 1 << uint(r.Intn(8))
			case 3: // flip inside the salt
				a.Salt[r.Intn(len(a.Salt))] ^= 1 << uint(r.Intn(8))
			case 4:
				a.Memory = hlib.Pick(r, uint32(0), mem+8, 9)
			case 5:
				a.Parallelism = hlib.Pick(r, uint32(0), 256, 1000, 257, uint32(par)+256)
			case 6:
				a.Iterations = hlib.Pick(r, uint32(0), iter+1)
			case 7:
				a.Version = hlib.Pick(r, int32(0), 0x10, -1, 0x14)
			case 8:
				a.Salt = hlib.Pick(r, nil, a.Salt[:15], a.Salt[:16], append(append([]byte{}, a.Salt...), 0))
			case 9:
				m.EncryptionMetadata.EncryptionAlgorithm = hlib.Pick(r, "", "AES-128-GCM", "aes-256-gcm", "AES-256-GCM ")
			case 10:
				m.EncryptionMetadata.Argon2Parameters = nil
			case 11:
				m.EncryptionMetadata = nil
			case 12:
				cut := hlib.Pick(r, 0, 1, 11, 12, 13, 28)
				if cut >= len(m.Ciphertext) {
					cut = len(m.Ciphertext) - 1 // always a real truncation
				}
				m.Ciphertext = m.Ciphertext[:cut]
			case 13: // the other curve's banner: key length check
				if curve == cert.Curve_P256 {
					useBanner = cert.EncryptedEd25519PrivateKeyBanner
				} else {
					useBanner = cert.EncryptedECDSAP256PrivateKeyBanner
				}
				kind = "crafted"
			case 14:
				useBanner = hlib.Pick(r, banners...)
				kind = "crafted"
			case 15: // unknown protobuf field appended: not covered by the AEAD, changes nothing
				useBody = append(append([]byte{}, body...), 0x98, 0x06, 0x01)
			case 16:
				useBody = append(append([]byte{}, body...), byte(r.Intn(256)))
				kind = "crafted"
			case 17:
				useBody = body[:r.Intn(len(body))]
				kind = "crafted"
			case 18:
				useBody = []byte{}
				kind = "crafted"
			default:
				m.Ciphertext = append(m.Ciphertext, byte(r.Intn(256)))
			}
			if useBody == nil {
				useBody = remarshal()
			}
			emitDec(useBanner, usePass, useBody, key, kind)
		}
	}
}

func TestEngine(t *testing.T) {
	hlib.Run(t, hlib.Engine{Name: "certkeys", Gen: gen, NewExec: newExec})
}
