// `kdftamper` ops of the certkeys engine (C43): the ORIGINAL encrypted-key body travels with a copy in which
// exactly one piece of the metadata that is NOT covered by the GCM tag (Argon2 version / memory / parallelism /
// iterations / salt, algorithm string, nonce) has been rewritten. The message is rewritten structurally with the
// hand-written protobuf writer of this harness (uint64 varints), so a field can grow from a one-byte varint to
// 2..10 bytes: p+256k, p+65536k, 2^31+p (outside the documented range of the field) and 2^32+p (the same uint32
// after decoding — not an alteration of any decoded field).
package certkeys

import (
	"bytes"
	"encoding/pem"
	"fmt"

	"github.com/slackhq/nebula/cert"
	"google.golang.org/protobuf/proto"
	"verifharness/hlib"
)

// rawMsg is RawNebulaEncryptedData with every integer as wide as the wire allows.
type rawMsg struct {
	alg                  []byte
	version              uint64
	mem, iter, par       uint64
	salt                 []byte
	blob                 []byte
	hasMeta, hasArgonMsg bool
}

func rawOf(body []byte) (rawMsg, bool) {
	var m cert.RawNebulaEncryptedData
	if proto.Unmarshal(body, &m) != nil || m.EncryptionMetadata == nil || m.EncryptionMetadata.Argon2Parameters == nil {
		return rawMsg{}, false
	}
	a := m.EncryptionMetadata.Argon2Parameters
	return rawMsg{alg: []byte(m.EncryptionMetadata.EncryptionAlgorithm), version: uint64(int64(a.Version)), mem: uint64(a.Memory),
		iter: uint64(a.Iterations), par: uint64(a.Parallelism), salt: append([]byte{}, a.Salt...), blob: append([]byte{}, m.Ciphertext...),
		hasMeta: true, hasArgonMsg: true}, true
}

func (m rawMsg) bytes() []byte {
	var argon []byte
	argon = append(argon, pbUint(1, m.version)...)
	argon = append(argon, pbUint(2, m.mem)...)
	argon = append(argon, pbUint(3, m.iter)...)
	argon = append(argon, pbUint(4, m.par)...)
	argon = append(argon, pbBytes(5, m.salt)...)
	meta := append(pbBytes(1, m.alg), pbBytes(2, argon)...)
	if len(argon) == 0 {
		meta = append(meta, 0x12, 0x00)
	}
	return append(pbBytes(1, meta), pbBytes(2, m.blob)...)
}

// execKdfTamper: kdftamper <banner hex> <pass hex> <orig body hex> <mutated body hex> <field> <orig key hex>
func execKdfTamper(a []string) string {
	if len(a) != 7 {
		return "bad-op"
	}
	pass, orig, mut, key := unhex(a[2]), unhex(a[3]), unhex(a[4]), unhex(a[6])
	// the original must be what the op says it is: a blob that the second implementation opens to <orig key>
	pl, opened, app := indepOpen(pass, orig)
	if !app || !opened || !bytes.Equal(pl, key) {
		return "op-inconsistent"
	}
	p := pem.EncodeToMemory(&pem.Block{Type: unbanner(a[1]), Bytes: mut})
	curve, k, _, err := cert.DecryptAndUnmarshalSigningPrivateKey(pass, p)
	if err != nil {
		return decKind(err)
	}
	return fmt.Sprintf("ok %d %s", curve, hlib.Hex(k))
}

// genKdfParams emits, for a handful of freshly sealed keys, every single-field rewrite of the metadata.
func genKdfParams(r *hlib.Rand, n int, tier string, emit func(string, ...any)) {
	cases := 3 + n/100
	if tier == "thorough" {
		cases = 10 + n/50
	}
	for i := 0; i < cases; i++ {
		curve := cert.Curve(r.Intn(2))
		key := r.Bytes(64 - 32*int(curve))
		pass := r.Bytes(hlib.Pick(r, 0, 1, 8, 20))
		par := uint8(hlib.Pick(r, 1, 2, 3, 4, 4, 7))
		mem := uint32(hlib.Pick(r, 8, 16, 64, 1, 7, 9, 32, 8*int(par), 8*int(par)+1))
		iter := uint32(hlib.Pick(r, 1, 1, 2, 3))
		var body []byte
		banner := cert.EncryptedEd25519PrivateKeyBanner
		if curve == cert.Curve_P256 {
			banner = cert.EncryptedECDSAP256PrivateKeyBanner
		}
		if r.Bool() {
			p, err := cert.EncryptAndMarshalSigningPrivateKey(curve, key, pass, cert.NewArgon2Parameters(mem, par, iter))
			if err != nil {
				continue
			}
			blk, _ := pem.Decode(p)
			body = blk.Bytes
		} else {
			body = indepSeal(pass, key, kdfParams{mem: mem, iter: iter, par: uint32(par), salt: r.Bytes(hlib.Pick(r, 16, 17, 32))}, r.Bytes(12))
		}
		m0, ok := rawOf(body)
		if !ok {
			panic("harness: own blob does not parse")
		}
		put := func(field string, f func(m *rawMsg)) {
			m := m0
			m.salt = append([]byte{}, m0.salt...)
			m.blob = append([]byte{}, m0.blob...)
			m.alg = append([]byte{}, m0.alg...)
			f(&m)
			emit("kdftamper %s %s %s %s %s %s", bhex(banner), hlib.Hex(pass), hlib.Hex(body), hlib.Hex(m.bytes()), field, hlib.Hex(key))
		}
		p := uint64(par)
		// the unaltered message through the hand-written writer (must open), and the uint32 wrap of every integer
		put("none", func(m *rawMsg) {})
		put("wrap32", func(m *rawMsg) { m.par += 1 << 32 })
		put("wrap32", func(m *rawMsg) { m.mem += uint64(hlib.Pick(r, 1, 3)) << 32 })
		put("wrap32", func(m *rawMsg) { m.iter += 1 << 32 })
		// parallelism: the field is a uint32, the parameter a uint8
		pars := []uint64{p + 256, p + 512, p + 256*uint64(1+r.Intn(255)), p + 65536, p + 65536*uint64(1+r.Intn(1000)), p + 1<<24,
			1<<31 + p, 1<<32 - 256 + p, 0, 256, 255, 257, p + 1, p - 1, 2 * p, p ^ 1<<uint(r.Intn(8)), 1 << 31, 1<<32 - 1}
		for _, v := range pars {
			if v != p && (i < 2 || r.Chance(2, 3)) {
				v := v
				put("parallelism", func(m *rawMsg) { m.par = v })
			}
		}
		// memory / iterations: small steps only (every accepted value is really fed to Argon2)
		for _, v := range []uint64{uint64(mem) + 1, uint64(mem) - 1, 2 * uint64(mem), uint64(mem) + 8, uint64(mem) + 256, uint64(mem) ^ 1<<uint(r.Intn(7)), 0} {
			if v != uint64(mem) && r.Chance(2, 3) {
				v := v
				put("memory", func(m *rawMsg) { m.mem = v })
			}
		}
		for _, v := range []uint64{uint64(iter) + 1, uint64(iter) - 1, uint64(iter) + 2, uint64(iter) + 8} {
			if v != uint64(iter) && r.Chance(2, 3) {
				v := v
				put("iterations", func(m *rawMsg) { m.iter = v })
			}
		}
		for _, v := range []uint64{0, 0x10, 0x12, 0x14, 0x13 + 256, 0x13 + 65536, 1<<31 + 0x13, 1<<64 - 1, 0x13 + 1<<32} {
			if r.Chance(1, 2) {
				v := v
				put("version", func(m *rawMsg) { m.version = v })
			}
		}
		put("salt", func(m *rawMsg) { m.salt[r.Intn(len(m.salt))] ^= 1 << uint(r.Intn(8)) })
		put("salt", func(m *rawMsg) { m.salt = append(m.salt, byte(r.Intn(2))) })
		if len(m0.salt) > 16 {
			put("salt", func(m *rawMsg) { m.salt = m.salt[:len(m.salt)-1] })
			put("salt", func(m *rawMsg) { m.salt = m.salt[1:] })
		} else {
			put("salt", func(m *rawMsg) { m.salt = m.salt[:15] })
		}
		put("salt", func(m *rawMsg) { m.salt = append([]byte{0}, m.salt...) })
		put("algorithm", func(m *rawMsg) {
			m.alg = []byte(hlib.Pick(r, "AES-256-GCM ", "aes-256-gcm", "AES-128-GCM", "AES-256-GCM\x00", " AES-256-GCM", "AES-256-GCN"))
		})
		put("nonce", func(m *rawMsg) { m.blob[r.Intn(12)] ^= 1 << uint(r.Intn(8)) })
		if r.Bool() {
			put("nonce", func(m *rawMsg) { m.blob = append(m.blob[1:12:12], append([]byte{m.blob[0]}, m.blob[12:]...)...) })
		}
	}
}
