// Engine `decrypt` (C12): the real ConnectionState.Decrypt and VerifyRelay (real AES-GCM keys, real
// Bits window, real decryptLock) run in one goroutine per received packet. The tunnel's receive cipher
// is wrapped by a gate that parks the goroutine on entry to DecryptDanger (= after the first critical
// section) and again before it returns (= before the second critical section), so that the harness
// replays a schedule of atomic steps deterministically on the unmodified functions.
package decrypt

import (
	"crypto/aes"
	"crypto/cipher"
	"encoding/binary"
	"fmt"
	"io"
	"log/slog"
	"strings"
	"testing"
	"time"

	"github.com/flynn/noise"
	"github.com/slackhq/nebula"
	"github.com/slackhq/nebula/header"
	"github.com/slackhq/nebula/noiseutil"
	"verifharness/hlib"
)

const top = ^uint64(0)

func gen(r *hlib.Rand, n int, tier, profile string, emit func(string, ...any)) {
	ops := 0
	tid := 0
	for ops < n {
		if r.Chance(1, 4) {
			steady(r, emit, &ops, &tid)
			continue
		}
		L := hlib.Pick(r, uint64(8192), 8192, 8192, 64, 16, 128)
		emit("reset %d", L)
		ops++
		base := hlib.Pick(r, uint64(0), 0, uint64(r.Intn(20000)), top-uint64(r.Intn(40)), uint64(1)<<40)
		var sent []uint64
		cur := base
		var live []int // threads that still have steps to do
		left := map[int]int{}
		full := map[int]int{}      // number of steps of an untouched thread
		rcur := uint64(r.Intn(50)) // counters on the relay tunnel
		var rsent []uint64
		nextRelayCtr := func() uint64 {
			if len(rsent) > 0 && r.Chance(1, 4) {
				return rsent[r.Intn(len(rsent))] // the same envelope again
			}
			rcur += uint64(hlib.Pick(r, 1, 1, 1, 2, 70))
			rsent = append(rsent, rcur)
			return rcur
		}
		nround := r.Range(3, 25)
		for k := 0; k < nround; k++ {
			// a burst of packets arrives: fresh counters, wire duplicates of each other, replays of old ones
			burst := r.Range(1, 5)
			for j := 0; j < burst; j++ {
				var c uint64
				switch r.Intn(10) {
				case 0, 1, 2, 3:
					if cur < top {
						cur++
					}
					c = cur
				case 4:
					if cur < top-70 {
						cur += uint64(r.Range(2, 70))
					}
					c = cur
				case 5, 6, 7: // replay / duplicate of something already on the wire
					if len(sent) > 0 {
						c = sent[r.Intn(len(sent))]
					} else {
						c = cur
					}
				case 8: // old, possibly outside the window
					back := uint64(r.Intn(int(2 * L)))
					if back > cur {
						back = cur
					}
					c = cur - back
				case 9:
					c = hlib.Pick(r, 0, 1, L, top, cur+L, cur+L+1)
				}
				if r.Chance(1, 4) {
					// the packet arrives inside a relay envelope (relay tunnel 1, then the end-to-end tunnel 0)
					emit("npkt %d %d %d %s", tid, nextRelayCtr(), c, hlib.Pick(r, "ok", "ok", "ok", "ok", "outerforged", "innerforged"))
					left[tid] = 6
				} else {
					kind := hlib.Pick(r, "valid", "valid", "valid", "valid", "relay", "relay", "forged", "relabel", "relayforged")
					emit("pkt %d %d %s", tid, c, kind)
					left[tid] = 3
				}
				full[tid] = left[tid]
				sent = append(sent, c)
				live = append(live, tid)
				tid++
				ops++
			}
			// a race: several goroutines handle copies of the same counter in lock step
			if r.Chance(1, 4) {
				var c uint64 = cur
				if r.Bool() && cur < top {
					cur++
					c = cur
				}
				g := r.Range(2, 4)
				var grp []int
				rounds := 3
				shape := r.Intn(5)
				envelope := nextRelayCtr()
				for j := 0; j < g; j++ {
					switch {
					case shape == 0: // copies of one relay packet (forwarding relay)
						emit("pkt %d %d %s", tid, c, hlib.Pick(r, "relay", "relay", "relay", "relayforged"))
					case shape == 1: // the same envelope duplicated on the wire
						emit("npkt %d %d %d ok", tid, envelope, c)
						rounds = 6
					case shape == 2: // the same inner packet in different envelopes, and a direct copy of it
						if j == 0 {
							emit("pkt %d %d valid", tid, c)
						} else {
							emit("npkt %d %d %d %s", tid, nextRelayCtr(), c, hlib.Pick(r, "ok", "ok", "innerforged"))
						}
						rounds = 6
					default:
						emit("pkt %d %d %s", tid, c, hlib.Pick(r, "valid", "valid", "relay", "forged"))
					}
					grp = append(grp, tid)
					tid++
					ops++
				}
				sent = append(sent, c)
				for round := 0; round < rounds; round++ {
					for _, t := range grp {
						emit("step %d", t)
						ops++
					}
				}
			}
			// let the goroutines run: random interleaving of their steps, some as uninterrupted calls
			steps := r.Range(1, 4*len(live)+1)
			for j := 0; j < steps && len(live) > 0; j++ {
				i := r.Intn(len(live))
				t := live[i]
				if left[t] == full[t] && r.Chance(1, 5) {
					emit("full %d", t)
					left[t] = 0
				} else {
					emit("step %d", t)
					left[t]--
				}
				ops++
				if left[t] <= 0 {
					live = append(live[:i], live[i+1:]...)
					if r.Chance(1, 10) {
						emit("step %d", t) // a finished goroutine does nothing more
						ops++
					}
				}
			}
			if r.Chance(1, 8) {
				emit("dump")
				ops++
			}
		}
		for _, t := range live {
			for q := 0; q < left[t]; q++ {
				emit("step %d", t)
				ops++
			}
		}
		emit("dump")
		ops++
	}
}

// steady: a tunnel past warm-up whose window is (almost) completely received, head on / next to a
// 64-bit word boundary; a few packets are lost (short jump); then the oldest packets still inside the
// window are replayed, directly and through the relay path, as whole calls and step by step.
func steady(r *hlib.Rand, emit func(string, ...any), ops *int, tid *int) {
	L := hlib.Pick(r, uint64(128), 128, 128, 256, 256, 1024, 8192)
	emit("reset %d", L)
	*ops++
	head := L + uint64(r.Intn(130))
	want := hlib.Pick(r, uint64(63), 63, 63, 63, 62, 0, uint64(r.Intn(64)))
	for head%64 != want {
		head++
	}
	cur := uint64(0)
	for cur < head {
		piece := head - cur
		if r.Chance(1, 3) && piece > 4 {
			piece = uint64(r.Intn(int(piece-2))) + 1
		}
		emit("burst %d %d %d", *tid, cur+1, piece)
		*tid += int(piece)
		*ops++
		cur += piece
		if cur+3 < head && r.Chance(1, 2) {
			cur += uint64(r.Range(1, 2)) // lost packets
		}
	}
	deliver := func(c uint64, kind string) {
		emit("pkt %d %d %s", *tid, c, kind)
		if r.Chance(1, 2) {
			emit("full %d", *tid)
			*ops += 2
		} else {
			emit("step %d", *tid)
			emit("step %d", *tid)
			emit("step %d", *tid)
			*ops += 4
		}
		*tid++
	}
	for k := r.Range(1, 3); k > 0; k-- {
		gap := uint64(hlib.Pick(r, r.Range(2, 63), r.Range(2, 63), r.Range(2, 63), 2, 63, 64, 65, r.Range(66, 200)))
		cur += gap
		deliver(cur, hlib.Pick(r, "valid", "valid", "relay"))
		// replays of the oldest counters still inside the window (and one just outside)
		for j := r.Range(2, 6); j > 0; j-- {
			deliver(cur-L+1+uint64(r.Intn(64)), hlib.Pick(r, "valid", "valid", "relay", "forged"))
		}
		deliver(cur-L, "valid")
		if k > 1 {
			next := cur + 1
			for next%64 != 63 {
				next++
			}
			emit("burst %d %d %d", *tid, cur+1, next-cur)
			*tid += int(next - cur)
			*ops++
			cur = next
		}
	}
	emit("dump")
	*ops++
}

// layer is one envelope of a received packet: which tunnel it is checked on and by which function.
type layer struct {
	tunnel int
	ctr    uint64
	relay  bool // VerifyRelay (AD-only) rather than Decrypt
	pkt    []byte
}

type thread struct {
	layers []layer
	li     int // layer being processed
	pc     int // 0 start, 1 checked, 2 opened (within the layer)
	fin    bool
	nb     []byte
	go1    chan struct{} // harness -> goroutine: perform the AEAD open
	go2    chan struct{} // harness -> goroutine: return from DecryptDanger
	goNext chan struct{} // harness -> goroutine: go on to the carried packet (readOutsidePackets recursion)
	auth   chan bool     // goroutine -> harness: AEAD result
	passed chan int      // goroutine -> harness: layer acted upon, parked before the next one
	done   chan string   // goroutine -> harness: final result
}

// gateCtl is shared by the receive ciphers of both tunnels.
type gateCtl struct {
	cur     *thread // the thread whose goroutine is running (nil: pass straight through)
	entered chan *thread
}

// gate is a tunnel's dKey: the real cipher state, with two parking places per call.
type gate struct {
	inner noiseutil.CipherState
	ctl   *gateCtl
}

func (g *gate) EncryptDanger(out, ad, plaintext []byte, n uint64, nb []byte) ([]byte, error) {
	return g.inner.EncryptDanger(out, ad, plaintext, n, nb)
}
func (g *gate) Overhead() int { return g.inner.Overhead() }
func (g *gate) DecryptDanger(out, ad, ciphertext []byte, n uint64, nb []byte) ([]byte, error) {
	th := g.ctl.cur
	if th == nil {
		return g.inner.DecryptDanger(out, ad, ciphertext, n, nb)
	}
	g.ctl.entered <- th
	<-th.go1
	res, err := g.inner.DecryptDanger(out, ad, ciphertext, n, nb)
	th.auth <- err == nil
	<-th.go2
	return res, err
}

const hang = 10 * time.Second

func newExec(t *testing.T) func([]string) string {
	l := slog.New(slog.NewTextHandler(io.Discard, &slog.HandlerOptions{Level: slog.LevelDebug}))
	// one key per tunnel: 0 = end-to-end tunnel, 1 = relay tunnel
	var keys [2][32]byte
	for i := range keys[0] {
		keys[0][i] = byte(i*11 + 3)
		keys[1][i] = byte(i*5 + 9)
	}
	suite := noise.NewCipherSuite(noise.DH25519, noise.CipherAESGCM, noise.HashSHA256)
	mk := func(T int) noiseutil.CipherState {
		return noiseutil.NewCipherState(noise.UnsafeNewCipherState(suite, keys[T], 0), noise.CipherAESGCM)
	}
	// the senders' side: same keys; sealed with the raw AEAD so that a (buggy or hostile) peer may use
	// any 64-bit counter, including ones its own send ceiling would refuse
	var peer [2]cipher.AEAD
	for T := range peer {
		blk, _ := aes.NewCipher(keys[T][:])
		peer[T], _ = cipher.NewGCM(blk)
	}
	seal := func(T int, dst, ad, plaintext []byte, n uint64) []byte {
		nonce := make([]byte, 12)
		binary.BigEndian.PutUint64(nonce[4:], n)
		return peer[T].Seal(dst, nonce, plaintext, ad)
	}
	var cs [2]*nebula.ConnectionState
	var ctl *gateCtl
	threads := map[int]*thread{}
	nb := make([]byte, 12)

	direct := func(T int, c uint64, kind string) []byte {
		hdr := header.Encode(make([]byte, header.Len, 256), header.Version, header.Message, 0, 9, c)
		n := c
		if kind == "relabel" {
			n = c + 1 // body sealed for another counter, header rewritten
		}
		out := seal(T, hdr, hdr, []byte("inner ip packet"), n)
		if kind == "forged" {
			out[len(out)-1] ^= 0x40
		}
		return out
	}
	// header + carried bytes authenticated as AD, tag only
	envelope := func(T int, c uint64, carried []byte, forged bool) []byte {
		hdr := header.Encode(make([]byte, header.Len, 512), header.Version, header.Message, header.MessageRelay, 9, c)
		hdr = append(hdr, carried...)
		out := seal(T, hdr, hdr, nil, c)
		if forged {
			out[header.Len+3] ^= 0x01
		}
		return out
	}
	newThread := func(layers []layer) *thread {
		return &thread{layers: layers, nb: make([]byte, 12), go1: make(chan struct{}), go2: make(chan struct{}),
			goNext: make(chan struct{}), auth: make(chan bool), passed: make(chan int), done: make(chan string, 1)}
	}

	// receive is the dispatch of readOutsidePackets / handleOutsideRelayPacket reduced to the replay
	// logic: VerifyRelay or Decrypt on the tunnel the layer arrived on; after a relay envelope passed, the
	// carried packet is parsed and handled on its own tunnel. park (may be nil) is called between layers.
	receive := func(th *thread, nb []byte, park func(li int)) string {
		for li, ly := range th.layers {
			var err error
			ctr := ly.ctr
			if li > 0 {
				// the counter of the carried packet is read from its own header, as readOutsidePackets does
				var h header.H
				if h.Parse(ly.pkt) != nil {
					return fmt.Sprintf("malformed@%d", li)
				}
				ctr = h.MessageCounter
			}
			if ly.relay {
				err = cs[ly.tunnel].VerifyRelay(l, ctr, ly.pkt, nb)
			} else {
				var out []byte
				p := append([]byte(nil), ly.pkt...) // Decrypt writes the plaintext over the packet
				out, err = cs[ly.tunnel].Decrypt(l, ctr, p, nb)
				if err == nil && string(out) != "inner ip packet" {
					return fmt.Sprintf("delivered-wrong-plaintext@%d", li)
				}
			}
			switch err {
			case nil:
			case nebula.ErrAlreadySeen:
				return fmt.Sprintf("seen@%d", li)
			default:
				return fmt.Sprintf("auth:fail@%d", li)
			}
			if li+1 < len(th.layers) && park != nil {
				park(li)
			}
		}
		return "delivered"
	}

	return func(a []string) string {
		switch a[0] {
		case "reset":
			ctl = &gateCtl{entered: make(chan *thread)}
			for T := range cs {
				cs[T] = nebula.VerifDecryptNewCS(&gate{inner: mk(T), ctl: ctl}, hlib.Atou(a[1]))
			}
			threads = map[int]*thread{}
			return "ok"
		case "pkt":
			c := hlib.Atou(a[2])
			if strings.HasPrefix(a[3], "relay") {
				threads[hlib.Atoi(a[1])] = newThread([]layer{{0, c, true, envelope(0, c, []byte("inner nebula packet, end-to-end encrypted"), a[3] == "relayforged")}})
			} else {
				threads[hlib.Atoi(a[1])] = newThread([]layer{{0, c, false, direct(0, c, a[3])}})
			}
			return "ok"
		case "npkt":
			cr, ce := hlib.Atou(a[2]), hlib.Atou(a[3])
			kind := "valid"
			if a[4] == "innerforged" {
				kind = "forged"
			}
			inner := direct(0, ce, kind)
			outer := envelope(1, cr, inner, a[4] == "outerforged")
			// what handleOutsideRelayPacket hands to the recursive readOutsidePackets call
			carried := outer[header.Len : len(outer)-16]
			threads[hlib.Atoi(a[1])] = newThread([]layer{{1, cr, true, outer}, {0, ce, false, carried}})
			return "ok"
		case "burst":
			if cs[0] == nil {
				return "bad-op"
			}
			t0, from, cnt := hlib.Atoi(a[1]), hlib.Atou(a[2]), hlib.Atoi(a[3])
			ctl.cur = nil
			k := 0
			for i := 0; i < cnt; i++ {
				c := from + uint64(i)
				th := &thread{layers: []layer{{0, c, false, direct(0, c, "valid")}}, fin: true}
				threads[t0+i] = th
				if receive(th, nb, nil) == "delivered" {
					k++
				}
			}
			return fmt.Sprintf("delivered=%d", k)
		case "dump":
			if cs[0] == nil {
				return "bad-op"
			}
			T := 0
			if len(a) > 1 {
				T = hlib.Atoi(a[1])
			}
			cur, words := nebula.VerifBitsState(nebula.VerifDecryptWindow(cs[T]))
			var sb strings.Builder
			fmt.Fprintf(&sb, "%d ", cur)
			for _, w := range words {
				fmt.Fprintf(&sb, "%016x", w)
			}
			return sb.String()
		}
		if cs[0] == nil || len(a) < 2 {
			return "bad-op"
		}
		th := threads[hlib.Atoi(a[1])]
		if th == nil {
			return "bad-op"
		}
		// wait for the goroutine of th to park at the entry of the next DecryptDanger or to finish
		awaitCheck := func() string {
			select {
			case <-ctl.entered:
				th.pc = 1
				return "check:ok"
			case r := <-th.done:
				th.fin = true
				if r == fmt.Sprintf("seen@%d", th.li) {
					return "check:seen"
				}
				return "finished-without-open:" + r
			case <-time.After(hang):
				th.fin = true
				return "hang"
			}
		}
		switch a[0] {
		case "step":
			if th.fin {
				return "noop"
			}
			ctl.cur = th
			switch th.pc {
			case 0:
				if th.li == 0 {
					// start the goroutine; it runs the first critical section
					go func() {
						th.done <- receive(th, th.nb, func(li int) {
							th.passed <- li
							<-th.goNext
						})
					}()
				} else {
					// let the parked goroutine go on to the carried packet
					th.goNext <- struct{}{}
				}
				return awaitCheck()
			case 1: // the AEAD open
				th.go1 <- struct{}{}
				if <-th.auth {
					th.pc = 2
					return "auth:ok"
				}
				th.go2 <- struct{}{}
				th.fin = true
				select {
				case r := <-th.done:
					if r == fmt.Sprintf("auth:fail@%d", th.li) {
						return "auth:fail"
					}
					return "auth-failed-but:" + r
				case <-time.After(hang):
					return "hang"
				}
			case 2: // return from DecryptDanger; the goroutine runs the second critical section
				th.go2 <- struct{}{}
				select {
				case li := <-th.passed:
					if li != th.li {
						return fmt.Sprintf("passed-layer-%d", li)
					}
					th.li++
					th.pc = 0
					return "delivered"
				case r := <-th.done:
					th.fin = true
					if r == fmt.Sprintf("seen@%d", th.li) {
						return "update:seen"
					}
					if r == "delivered" && th.li+1 == len(th.layers) {
						return "delivered"
					}
					return "finished:" + r
				case <-time.After(hang):
					th.fin = true
					return "hang"
				}
			}
			return "noop"
		case "full":
			if th.fin || th.li != 0 || th.pc != 0 {
				return "noop"
			}
			th.fin = true
			ctl.cur = nil
			return receive(th, nb, nil)
		}
		return "bad-op"
	}
}

func TestEngine(t *testing.T) {
	hlib.Run(t, hlib.Engine{Name: "decrypt", Gen: gen, NewExec: newExec})
}
