// Engine `decrypt` (C12): the check / open / update program of ConnectionState.Decrypt and
// VerifyRelay on a real ConnectionState (real AES-GCM keys, real Bits window), replayed step by step
// in the order a schedule dictates, or as the real functions in one piece.
package decrypt

import (
	"crypto/aes"
	"crypto/cipher"
	"encoding/binary"
	"fmt"
	"io"
	"log/slog"
	"strings"
	"testing"

	"github.com/slackhq/nebula"
	"github.com/slackhq/nebula/header"
	"github.com/slackhq/nebula/noiseutil"
	"verifharness/hlib"
)

const top = ^uint64(0)

func gen(r *hlib.Rand, n int, tier, profile string, emit func(string, ...any)) {
	ops := 0
	tid := 0
	for ops < n {
		L := hlib.Pick(r, uint64(8192), 8192, 8192, 64, 16, 128)
		emit("reset %d", L)
		ops++
		base := hlib.Pick(r, uint64(0), 0, uint64(r.Intn(20000)), top-uint64(r.Intn(40)), uint64(1)<<40)
		var sent []uint64
		cur := base
		var live []int // threads that still have steps to do
		left := map[int]int{}
		nround := r.Range(3, 25)
		for k := 0; k < nround; k++ {
			// a burst of packets arrives: fresh counters, wire duplicates of each other, replays of old ones
			burst := r.Range(1, 5)
			for j := 0; j < burst; j++ {
				var c uint64
				switch r.Intn(10) {
				case 0, 1, 2, 3:
					if cur < top {
						cur++
					}
					c = cur
				case 4:
					if cur < top-70 {
						cur += uint64(r.Range(2, 70))
					}
					c = cur
				case 5, 6, 7: // replay / duplicate of something already on the wire
					if len(sent) > 0 {
						c = sent[r.Intn(len(sent))]
					} else {
						c = cur
					}
				case 8: // old, possibly outside the window
					back := uint64(r.Intn(int(2 * L)))
					if back > cur {
						back = cur
					}
					c = cur - back
				case 9:
					c = hlib.Pick(r, 0, 1, L, top, cur+L, cur+L+1)
				}
				kind := hlib.Pick(r, "valid", "valid", "valid", "valid", "relay", "relay", "forged", "relabel", "relayforged")
				emit("pkt %d %d %s", tid, c, kind)
				sent = append(sent, c)
				live = append(live, tid)
				left[tid] = 3
				tid++
				ops++
			}
			// a race: several goroutines handle copies of the same counter in lock step
			if r.Chance(1, 4) {
				var c uint64 = cur
				if r.Bool() && cur < top {
					cur++
					c = cur
				}
				g := r.Range(2, 4)
				var grp []int
				for j := 0; j < g; j++ {
					emit("pkt %d %d %s", tid, c, hlib.Pick(r, "valid", "valid", "relay", "forged"))
					grp = append(grp, tid)
					tid++
					ops++
				}
				sent = append(sent, c)
				for round := 0; round < 3; round++ {
					for _, t := range grp {
						emit("step %d", t)
						ops++
					}
				}
			}
			// let the goroutines run: random interleaving of their steps, some as uninterrupted calls
			steps := r.Range(1, 4*len(live)+1)
			for j := 0; j < steps && len(live) > 0; j++ {
				i := r.Intn(len(live))
				t := live[i]
				if left[t] == 3 && r.Chance(1, 5) {
					emit("full %d", t)
					left[t] = 0
				} else {
					emit("step %d", t)
					left[t]--
				}
				ops++
				if left[t] <= 0 {
					live = append(live[:i], live[i+1:]...)
					if r.Chance(1, 10) {
						emit("step %d", t) // a finished goroutine does nothing more
						ops++
					}
				}
			}
			if r.Chance(1, 8) {
				emit("dump")
				ops++
			}
		}
		for _, t := range live {
			for q := 0; q < left[t]; q++ {
				emit("step %d", t)
				ops++
			}
		}
		emit("dump")
		ops++
	}
}

type thread struct {
	ctr   uint64
	relay bool
	pkt   []byte
	pc    int // 0 start, 1 checked, 2 opened, 3 done
}

func newExec(t *testing.T) func([]string) string {
	l := slog.New(slog.NewTextHandler(io.Discard, &slog.HandlerOptions{Level: slog.LevelDebug}))
	key := make([]byte, 32)
	for i := range key {
		key[i] = byte(i*11 + 3)
	}
	mk := func() noiseutil.CipherState {
		blk, _ := aes.NewCipher(key)
		a, _ := cipher.NewGCM(blk)
		return noiseutil.VerifNewAESGCM(a)
	}
	// the sender's side of the tunnel: same key; sealed with the raw AEAD so that a (buggy or hostile)
	// peer may use any 64-bit counter, including ones its own send ceiling would refuse
	blk, _ := aes.NewCipher(key)
	peerAEAD, _ := cipher.NewGCM(blk)
	seal := func(dst, ad, plaintext []byte, n uint64) []byte {
		nonce := make([]byte, 12)
		binary.BigEndian.PutUint64(nonce[4:], n)
		return peerAEAD.Seal(dst, nonce, plaintext, ad)
	}
	var cs *nebula.ConnectionState
	threads := map[int]*thread{}
	nb := make([]byte, 12)

	build := func(c uint64, kind string) []byte {
		switch kind {
		case "valid", "forged", "relabel":
			hdr := header.Encode(make([]byte, header.Len, 256), header.Version, header.Message, 0, 9, c)
			n := c
			if kind == "relabel" {
				n = c + 1 // body sealed for another counter, header rewritten
			}
			out := seal(hdr, hdr, []byte("inner ip packet"), n)
			if kind == "forged" {
				out[len(out)-1] ^= 0x40
			}
			return out
		default: // relay, relayforged: header + inner bytes authenticated as AD, tag only
			hdr := header.Encode(make([]byte, header.Len, 256), header.Version, header.Message, header.MessageRelay, 9, c)
			hdr = append(hdr, []byte("inner nebula packet, end-to-end encrypted")...)
			out := seal(hdr, hdr, nil, c)
			if kind == "relayforged" {
				out[header.Len+3] ^= 0x01
			}
			return out
		}
	}

	return func(a []string) string {
		switch a[0] {
		case "reset":
			cs = nebula.VerifDecryptNewCS(mk(), hlib.Atou(a[1]))
			threads = map[int]*thread{}
			return "ok"
		case "pkt":
			c := hlib.Atou(a[2])
			threads[hlib.Atoi(a[1])] = &thread{ctr: c, relay: strings.HasPrefix(a[3], "relay"), pkt: build(c, a[3])}
			return "ok"
		case "dump":
			if cs == nil {
				return "bad-op"
			}
			cur, words := nebula.VerifBitsState(nebula.VerifDecryptWindow(cs))
			var sb strings.Builder
			fmt.Fprintf(&sb, "%d ", cur)
			for _, w := range words {
				fmt.Fprintf(&sb, "%016x", w)
			}
			return sb.String()
		}
		if cs == nil || len(a) < 2 {
			return "bad-op"
		}
		th := threads[hlib.Atoi(a[1])]
		if th == nil {
			return "bad-op"
		}
		switch a[0] {
		case "step":
			switch th.pc {
			case 0:
				if nebula.VerifDecryptCheck(cs, l, th.ctr) {
					th.pc = 1
					return "check:ok"
				}
				th.pc = 3
				return "check:seen"
			case 1:
				var err error
				if th.relay {
					err = nebula.VerifDecryptOpenRelay(cs, th.ctr, th.pkt, nb)
				} else {
					err = nebula.VerifDecryptOpen(cs, th.ctr, th.pkt, nb)
				}
				if err == nil {
					th.pc = 2
					return "auth:ok"
				}
				th.pc = 3
				return "auth:fail"
			case 2:
				th.pc = 3
				if nebula.VerifDecryptUpdate(cs, l, th.ctr) {
					return "delivered"
				}
				return "update:seen"
			}
			return "noop"
		case "full":
			if th.pc != 0 {
				return "noop"
			}
			th.pc = 3
			var err error
			if th.relay {
				err = cs.VerifyRelay(l, th.ctr, th.pkt, nb)
			} else {
				var out []byte
				// Decrypt writes the plaintext over the packet: give it a copy
				p := append([]byte(nil), th.pkt...)
				out, err = cs.Decrypt(l, th.ctr, p, nb)
				if err == nil && string(out) != "inner ip packet" {
					return "delivered-wrong-plaintext"
				}
			}
			switch err {
			case nil:
				return "delivered"
			case nebula.ErrAlreadySeen:
				return "seen"
			}
			return "auth:fail"
		}
		return "bad-op"
	}
}

func TestEngine(t *testing.T) {
	hlib.Run(t, hlib.Engine{Name: "decrypt", Gen: gen, NewExec: newExec})
}
