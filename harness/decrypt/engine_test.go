// Engine `decrypt` (C12): the real ConnectionState.Decrypt and VerifyRelay (real AES-GCM keys, real
// Bits window, real decryptLock) run in one goroutine per received packet. The tunnel's receive cipher
// is wrapped by a gate that parks the goroutine on entry to DecryptDanger (= after the first critical
// section) and again before it returns (= before the second critical section), so that the harness
// replays a schedule of atomic steps deterministically on the unmodified functions.
package decrypt

import (
	"crypto/aes"
	"crypto/cipher"
	"encoding/binary"
	"fmt"
	"io"
	"log/slog"
	"strings"
	"testing"
	"time"

	"github.com/flynn/noise"
	"github.com/slackhq/nebula"
	"github.com/slackhq/nebula/header"
	"github.com/slackhq/nebula/noiseutil"
	"verifharness/hlib"
)

const top = ^uint64(0)

func gen(r *hlib.Rand, n int, tier, profile string, emit func(string, ...any)) {
	ops := 0
	tid := 0
	for ops < n {
		if r.Chance(1, 4) {
			steady(r, emit, &ops, &tid)
			continue
		}
		L := hlib.Pick(r, uint64(8192), 8192, 8192, 64, 16, 128)
		emit("reset %d", L)
		ops++
		base := hlib.Pick(r, uint64(0), 0, uint64(r.Intn(20000)), top-uint64(r.Intn(40)), uint64(1)<<40)
		var sent []uint64
		cur := base
		var live []int // threads that still have steps to do
		left := map[int]int{}
		nround := r.Range(3, 25)
		for k := 0; k < nround; k++ {
			// a burst of packets arrives: fresh counters, wire duplicates of each other, replays of old ones
			burst := r.Range(1, 5)
			for j := 0; j < burst; j++ {
				var c uint64
				switch r.Intn(10) {
				case 0, 1, 2, 3:
					if cur < top {
						cur++
					}
					c = cur
				case 4:
					if cur < top-70 {
						cur += uint64(r.Range(2, 70))
					}
					c = cur
				case 5, 6, 7: // replay / duplicate of something already on the wire
					if len(sent) > 0 {
						c = sent[r.Intn(len(sent))]
					} else {
						c = cur
					}
				case 8: // old, possibly outside the window
					back := uint64(r.Intn(int(2 * L)))
					if back > cur {
						back = cur
					}
					c = cur - back
				case 9:
					c = hlib.Pick(r, 0, 1, L, top, cur+L, cur+L+1)
				}
				kind := hlib.Pick(r, "valid", "valid", "valid", "valid", "relay", "relay", "forged", "relabel", "relayforged")
				emit("pkt %d %d %s", tid, c, kind)
				sent = append(sent, c)
				live = append(live, tid)
				left[tid] = 3
				tid++
				ops++
			}
			// a race: several goroutines handle copies of the same counter in lock step
			if r.Chance(1, 4) {
				var c uint64 = cur
				if r.Bool() && cur < top {
					cur++
					c = cur
				}
				g := r.Range(2, 4)
				var grp []int
				for j := 0; j < g; j++ {
					emit("pkt %d %d %s", tid, c, hlib.Pick(r, "valid", "valid", "relay", "forged"))
					grp = append(grp, tid)
					tid++
					ops++
				}
				sent = append(sent, c)
				for round := 0; round < 3; round++ {
					for _, t := range grp {
						emit("step %d", t)
						ops++
					}
				}
			}
			// let the goroutines run: random interleaving of their steps, some as uninterrupted calls
			steps := r.Range(1, 4*len(live)+1)
			for j := 0; j < steps && len(live) > 0; j++ {
				i := r.Intn(len(live))
				t := live[i]
				if left[t] == 3 && r.Chance(1, 5) {
					emit("full %d", t)
					left[t] = 0
				} else {
					emit("step %d", t)
					left[t]--
				}
				ops++
				if left[t] <= 0 {
					live = append(live[:i], live[i+1:]...)
					if r.Chance(1, 10) {
						emit("step %d", t) // a finished goroutine does nothing more
						ops++
					}
				}
			}
			if r.Chance(1, 8) {
				emit("dump")
				ops++
			}
		}
		for _, t := range live {
			for q := 0; q < left[t]; q++ {
				emit("step %d", t)
				ops++
			}
		}
		emit("dump")
		ops++
	}
}

// steady: a tunnel past warm-up whose window is (almost) completely received, head on / next to a
// 64-bit word boundary; a few packets are lost (short jump); then the oldest packets still inside the
// window are replayed, directly and through the relay path, as whole calls and step by step.
func steady(r *hlib.Rand, emit func(string, ...any), ops *int, tid *int) {
	L := hlib.Pick(r, uint64(128), 128, 128, 256, 256, 1024, 8192)
	emit("reset %d", L)
	*ops++
	head := L + uint64(r.Intn(130))
	want := hlib.Pick(r, uint64(63), 63, 63, 63, 62, 0, uint64(r.Intn(64)))
	for head%64 != want {
		head++
	}
	cur := uint64(0)
	for cur < head {
		piece := head - cur
		if r.Chance(1, 3) && piece > 4 {
			piece = uint64(r.Intn(int(piece-2))) + 1
		}
		emit("burst %d %d %d", *tid, cur+1, piece)
		*tid += int(piece)
		*ops++
		cur += piece
		if cur+3 < head && r.Chance(1, 2) {
			cur += uint64(r.Range(1, 2)) // lost packets
		}
	}
	deliver := func(c uint64, kind string) {
		emit("pkt %d %d %s", *tid, c, kind)
		if r.Chance(1, 2) {
			emit("full %d", *tid)
			*ops += 2
		} else {
			emit("step %d", *tid)
			emit("step %d", *tid)
			emit("step %d", *tid)
			*ops += 4
		}
		*tid++
	}
	for k := r.Range(1, 3); k > 0; k-- {
		gap := uint64(hlib.Pick(r, r.Range(2, 63), r.Range(2, 63), r.Range(2, 63), 2, 63, 64, 65, r.Range(66, 200)))
		cur += gap
		deliver(cur, hlib.Pick(r, "valid", "valid", "relay"))
		// replays of the oldest counters still inside the window (and one just outside)
		for j := r.Range(2, 6); j > 0; j-- {
			deliver(cur-L+1+uint64(r.Intn(64)), hlib.Pick(r, "valid", "valid", "relay", "forged"))
		}
		deliver(cur-L, "valid")
		if k > 1 {
			next := cur + 1
			for next%64 != 63 {
				next++
			}
			emit("burst %d %d %d", *tid, cur+1, next-cur)
			*tid += int(next - cur)
			*ops++
			cur = next
		}
	}
	emit("dump")
	*ops++
}

type thread struct {
	ctr   uint64
	relay bool
	pkt   []byte
	pc    int // 0 start, 1 checked, 2 opened, 3 done
	nb    []byte
	go1   chan struct{} // harness -> goroutine: perform the AEAD open
	go2   chan struct{} // harness -> goroutine: return from DecryptDanger
	auth  chan bool     // goroutine -> harness: AEAD result
	done  chan string   // goroutine -> harness: result of Decrypt / VerifyRelay
}

// gate is the tunnel's dKey: the real cipher state, with two parking places per call.
type gate struct {
	inner   noiseutil.CipherState
	cur     *thread // the thread whose goroutine is running (nil: pass straight through)
	entered chan *thread
}

func (g *gate) EncryptDanger(out, ad, plaintext []byte, n uint64, nb []byte) ([]byte, error) {
	return g.inner.EncryptDanger(out, ad, plaintext, n, nb)
}
func (g *gate) Overhead() int { return g.inner.Overhead() }
func (g *gate) DecryptDanger(out, ad, ciphertext []byte, n uint64, nb []byte) ([]byte, error) {
	th := g.cur
	if th == nil {
		return g.inner.DecryptDanger(out, ad, ciphertext, n, nb)
	}
	g.entered <- th
	<-th.go1
	res, err := g.inner.DecryptDanger(out, ad, ciphertext, n, nb)
	th.auth <- err == nil
	<-th.go2
	return res, err
}

const hang = 10 * time.Second

func newExec(t *testing.T) func([]string) string {
	l := slog.New(slog.NewTextHandler(io.Discard, &slog.HandlerOptions{Level: slog.LevelDebug}))
	key := make([]byte, 32)
	for i := range key {
		key[i] = byte(i*11 + 3)
	}
	var key32 [32]byte
	copy(key32[:], key)
	mk := func() noiseutil.CipherState {
		suite := noise.NewCipherSuite(noise.DH25519, noise.CipherAESGCM, noise.HashSHA256)
		return noiseutil.NewCipherState(noise.UnsafeNewCipherState(suite, key32, 0), noise.CipherAESGCM)
	}
	// the sender's side of the tunnel: same key; sealed with the raw AEAD so that a (buggy or hostile)
	// peer may use any 64-bit counter, including ones its own send ceiling would refuse
	blk, _ := aes.NewCipher(key)
	peerAEAD, _ := cipher.NewGCM(blk)
	seal := func(dst, ad, plaintext []byte, n uint64) []byte {
		nonce := make([]byte, 12)
		binary.BigEndian.PutUint64(nonce[4:], n)
		return peerAEAD.Seal(dst, nonce, plaintext, ad)
	}
	var cs *nebula.ConnectionState
	var g *gate
	threads := map[int]*thread{}
	nb := make([]byte, 12)

	build := func(c uint64, kind string) []byte {
		switch kind {
		case "valid", "forged", "relabel":
			hdr := header.Encode(make([]byte, header.Len, 256), header.Version, header.Message, 0, 9, c)
			n := c
			if kind == "relabel" {
				n = c + 1 // body sealed for another counter, header rewritten
			}
			out := seal(hdr, hdr, []byte("inner ip packet"), n)
			if kind == "forged" {
				out[len(out)-1] ^= 0x40
			}
			return out
		default: // relay, relayforged: header + inner bytes authenticated as AD, tag only
			hdr := header.Encode(make([]byte, header.Len, 256), header.Version, header.Message, header.MessageRelay, 9, c)
			hdr = append(hdr, []byte("inner nebula packet, end-to-end encrypted")...)
			out := seal(hdr, hdr, nil, c)
			if kind == "relayforged" {
				out[header.Len+3] ^= 0x01
			}
			return out
		}
	}

	// the real receive function for this packet; canonical result
	receive := func(th *thread, nb []byte) string {
		var err error
		if th.relay {
			err = cs.VerifyRelay(l, th.ctr, th.pkt, nb)
		} else {
			var out []byte
			p := append([]byte(nil), th.pkt...) // Decrypt writes the plaintext over the packet
			out, err = cs.Decrypt(l, th.ctr, p, nb)
			if err == nil && string(out) != "inner ip packet" {
				return "delivered-wrong-plaintext"
			}
		}
		switch err {
		case nil:
			return "delivered"
		case nebula.ErrAlreadySeen:
			return "seen"
		}
		return "auth:fail"
	}

	return func(a []string) string {
		switch a[0] {
		case "reset":
			g = &gate{inner: mk(), entered: make(chan *thread)}
			cs = nebula.VerifDecryptNewCS(g, hlib.Atou(a[1]))
			threads = map[int]*thread{}
			return "ok"
		case "pkt":
			c := hlib.Atou(a[2])
			threads[hlib.Atoi(a[1])] = &thread{ctr: c, relay: strings.HasPrefix(a[3], "relay"), pkt: build(c, a[3]),
				nb: make([]byte, 12), go1: make(chan struct{}), go2: make(chan struct{}), auth: make(chan bool), done: make(chan string, 1)}
			return "ok"
		case "burst":
			if cs == nil {
				return "bad-op"
			}
			t0, from, cnt := hlib.Atoi(a[1]), hlib.Atou(a[2]), hlib.Atoi(a[3])
			g.cur = nil
			k := 0
			for i := 0; i < cnt; i++ {
				c := from + uint64(i)
				th := &thread{ctr: c, pkt: build(c, "valid"), pc: 3}
				threads[t0+i] = th
				if receive(th, nb) == "delivered" {
					k++
				}
			}
			return fmt.Sprintf("delivered=%d", k)
		case "dump":
			if cs == nil {
				return "bad-op"
			}
			cur, words := nebula.VerifBitsState(nebula.VerifDecryptWindow(cs))
			var sb strings.Builder
			fmt.Fprintf(&sb, "%d ", cur)
			for _, w := range words {
				fmt.Fprintf(&sb, "%016x", w)
			}
			return sb.String()
		}
		if cs == nil || len(a) < 2 {
			return "bad-op"
		}
		th := threads[hlib.Atoi(a[1])]
		if th == nil {
			return "bad-op"
		}
		switch a[0] {
		case "step":
			switch th.pc {
			case 0: // start the goroutine; it runs the first critical section
				g.cur = th
				go func() { th.done <- receive(th, th.nb) }()
				select {
				case <-g.entered:
					th.pc = 1
					return "check:ok"
				case r := <-th.done:
					th.pc = 3
					if r == "seen" {
						return "check:seen"
					}
					return "finished-without-open:" + r
				case <-time.After(hang):
					th.pc = 3
					return "hang"
				}
			case 1: // the AEAD open
				g.cur = th
				th.go1 <- struct{}{}
				if <-th.auth {
					th.pc = 2
					return "auth:ok"
				}
				th.go2 <- struct{}{}
				th.pc = 3
				select {
				case r := <-th.done:
					if r == "auth:fail" {
						return "auth:fail"
					}
					return "auth-failed-but:" + r
				case <-time.After(hang):
					return "hang"
				}
			case 2: // return from DecryptDanger; the goroutine runs the second critical section
				g.cur = th
				th.go2 <- struct{}{}
				th.pc = 3
				select {
				case r := <-th.done:
					if r == "seen" {
						return "update:seen"
					}
					return r
				case <-time.After(hang):
					return "hang"
				}
			}
			return "noop"
		case "full":
			if th.pc != 0 {
				return "noop"
			}
			th.pc = 3
			g.cur = nil
			return receive(th, nb)
		}
		return "bad-op"
	}
}

func TestEngine(t *testing.T) {
	hlib.Run(t, hlib.Engine{Name: "decrypt", Gen: gen, NewExec: newExec})
}
