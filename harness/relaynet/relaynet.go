// Package relaynet runs several real nebula Interfaces in one process, without sockets, goroutines or
// a tun device, for the `outside` (C14) and `relayctl` (C39, C15) correspondence engines.
//
// Every node is built by nebula.VerifNewNode (hook file verif_outside.go: the same wiring as Main) on
// an in-memory udp.Conn and overlay.Device defined here. Datagrams written by a node are queued on the
// Net; the harness decides when (and whether, and how mutated) they are delivered, by calling the
// receiving node's readOutsidePackets through VerifNode.Inject. Everything is single-threaded.
//
// Local indexes: nebula draws them from crypto/rand (4-byte reads). The Net installs a rand.Reader
// whose 4-byte reads return a per-Net counter (base+1, base+2, …) and whose other reads come from a
// seeded splitmix64 stream, so that index values are a deterministic function of the order of
// allocations — which is what the Lean models reproduce.
package relaynet

import (
	"crypto/rand"
	"encoding/binary"
	"fmt"
	"io"
	"log/slog"
	"net/netip"
	"time"

	"github.com/slackhq/nebula"
	"github.com/slackhq/nebula/cert"
	"github.com/slackhq/nebula/cert_test"
	"github.com/slackhq/nebula/config"
	"github.com/slackhq/nebula/header"
	"github.com/slackhq/nebula/overlay/tio"
	"github.com/slackhq/nebula/routing"
	"github.com/slackhq/nebula/udp"
	"verifharness/hlib"
)

// ---- deterministic randomness

type idxReader struct {
	next uint32
	r    *hlib.Rand
}

func (x *idxReader) Read(p []byte) (int, error) {
	if len(p) == 4 {
		x.next++
		binary.BigEndian.PutUint32(p, x.next)
		return 4, nil
	}
	return x.r.Read(p)
}

// ---- in-memory underlay

type Wire struct {
	From netip.AddrPort
	To   netip.AddrPort
	Data []byte
}

type Conn struct {
	udp.NoopConn
	net  *Net
	Addr netip.AddrPort
}

func (c *Conn) LocalAddr() (netip.AddrPort, error) { return c.Addr, nil }
func (c *Conn) WriteTo(b []byte, addr netip.AddrPort) error {
	c.net.Queue = append(c.net.Queue, Wire{From: c.Addr, To: addr, Data: append([]byte{}, b...)})
	return nil
}
func (c *Conn) WriteBatch(bufs [][]byte, addrs []netip.AddrPort) (int, error) {
	for i := range bufs {
		_ = c.WriteTo(bufs[i], addrs[i])
	}
	return len(bufs), nil
}

// ---- in-memory tun

type Dev struct {
	nets []netip.Prefix
	Out  [][]byte // packets nebula wrote to the tun device
}

func (d *Dev) Close() error                          { return nil }
func (d *Dev) Activate() error                       { return nil }
func (d *Dev) Networks() []netip.Prefix              { return d.nets }
func (d *Dev) Name() string                          { return "verif0" }
func (d *Dev) RoutesFor(netip.Addr) routing.Gateways { return nil }
func (d *Dev) Read(b []byte) (int, error)            { return 0, io.EOF }
func (d *Dev) Write(b []byte) (int, error) {
	d.Out = append(d.Out, append([]byte{}, b...))
	return len(b), nil
}
func (d *Dev) Queues(int) ([]tio.Queue, error) {
	return []tio.Queue{tio.NewSingleQueue(d, udp.MTU)}, nil
}

// ---- nodes

type Node struct {
	*nebula.VerifNode
	Name string
	Vpn  netip.Addr
	Udp  netip.AddrPort
	Conn *Conn
	Dev  *Dev
}

type NodeSpec struct {
	AmRelay         bool
	UseRelays       bool
	AmLighthouse    bool
	AcceptRecvError string // always | never | private
	SendRecvError   string
	PreferredRanges []string // preferred_ranges (CIDRs)
}

type Net struct {
	Nodes []*Node
	Queue []Wire
	Specs []NodeSpec
	V     cert.Version
	rd    *idxReader
}

type pki struct {
	caPEM []byte
	certs [][]byte
	keys  [][]byte
}

var pkiCache = map[cert.Version]*pki{}

const MaxNodes = 5

func getPKI(v cert.Version) *pki {
	if p, ok := pkiCache[v]; ok {
		return p
	}
	now := time.Now()
	ca, _, caKey, caPEM := cert_test.NewTestCaCert(v, cert.Curve_CURVE25519, now.Add(-time.Hour), now.Add(24*365*time.Hour), nil, nil, nil)
	p := &pki{caPEM: caPEM}
	for i := 0; i < MaxNodes; i++ {
		nets := []netip.Prefix{netip.PrefixFrom(VpnAddr(i), 24)}
		_, _, key, pem := cert_test.NewTestCert(v, cert.Curve_CURVE25519, ca, caKey, fmt.Sprintf("n%d", i), now.Add(-time.Hour), now.Add(24*364*time.Hour), nets, nil, nil)
		p.certs = append(p.certs, pem)
		p.keys = append(p.keys, key)
	}
	pkiCache[v] = p
	return p
}

func VpnAddr(i int) netip.Addr { return netip.AddrFrom4([4]byte{10, 0, 0, byte(i + 1)}) }
func UdpAddr(i int) netip.AddrPort {
	return netip.AddrPortFrom(netip.AddrFrom4([4]byte{192, 0, 2, byte(i + 1)}), 4242)
}

var quiet = slog.New(slog.NewTextHandler(io.Discard, &slog.HandlerOptions{Level: slog.LevelError + 4}))

func yamlBool(b bool) string {
	if b {
		return "true"
	}
	return "false"
}

func orDefault(s, d string) string {
	if s == "" {
		return d
	}
	return s
}

func preferredYAML(r []string) string {
	if len(r) == 0 {
		return ""
	}
	out := "preferred_ranges:\n"
	for _, c := range r {
		out += "  - " + c + "\n"
	}
	return out
}

func nodeYAML(p *pki, i int, s NodeSpec) string {
	indent := func(b []byte) string {
		out := ""
		line := ""
		for _, ch := range string(b) {
			if ch == '\n' {
				out += "    " + line + "\n"
				line = ""
			} else {
				line += string(ch)
			}
		}
		if line != "" {
			out += "    " + line + "\n"
		}
		return out
	}
	return "pki:\n  ca: |\n" + indent(p.caPEM) + "  cert: |\n" + indent(p.certs[i]) + "  key: |\n" + indent(p.keys[i]) +
		"firewall:\n  outbound:\n    - port: any\n      proto: any\n      host: any\n  inbound:\n    - port: any\n      proto: any\n      host: any\n" +
		"relay:\n  am_relay: " + yamlBool(s.AmRelay) + "\n  use_relays: " + yamlBool(s.UseRelays) + "\n" +
		"lighthouse:\n  am_lighthouse: " + yamlBool(s.AmLighthouse) + "\n" +
		"listen:\n  accept_recv_error: " + orDefault(s.AcceptRecvError, "always") + "\n  send_recv_error: " + orDefault(s.SendRecvError, "always") + "\n" +
		preferredYAML(s.PreferredRanges) +
		"logging:\n  level: error\n"
}

// New builds the nodes. index base: the first index handed out is base+1.
func New(seed uint64, v cert.Version, base uint32, specs []NodeSpec) (*Net, error) {
	p := getPKI(v)
	n := &Net{rd: &idxReader{next: base, r: hlib.NewRand(seed)}, V: v, Specs: append([]NodeSpec{}, specs...)}
	rand.Reader = n.rd
	for i, s := range specs {
		c := config.NewC(quiet)
		if err := c.LoadString(nodeYAML(p, i, s)); err != nil {
			return nil, err
		}
		conn := &Conn{net: n, Addr: UdpAddr(i)}
		dev := &Dev{nets: []netip.Prefix{netip.PrefixFrom(VpnAddr(i), 24)}}
		vn, err := nebula.VerifNewNode(c, quiet, conn, dev)
		if err != nil {
			return nil, err
		}
		n.Nodes = append(n.Nodes, &Node{VerifNode: vn, Name: fmt.Sprintf("n%d", i), Vpn: VpnAddr(i), Udp: UdpAddr(i), Conn: conn, Dev: dev})
	}
	return n, nil
}

// Reload re-reads node i's configuration with a changed spec (config reload / SIGHUP).
func (n *Net) Reload(i int, s NodeSpec) error {
	n.Specs[i] = s
	return n.Nodes[i].Reload(nodeYAML(getPKI(n.V), i, s))
}

func (n *Net) NodeByVpn(a netip.Addr) int {
	for i, nd := range n.Nodes {
		if nd.Vpn == a {
			return i
		}
	}
	return -1
}

func (n *Net) NodeIndexByUdp(a netip.AddrPort) int {
	for i, nd := range n.Nodes {
		if nd.Udp == a {
			return i
		}
	}
	return -1
}

func (n *Net) Close() {
	for _, nd := range n.Nodes {
		nd.Stop()
	}
}

// Reseat makes this Net's reader the process-wide rand.Reader again (several Nets may exist).
func (n *Net) Reseat() { rand.Reader = n.rd }

func (n *Net) NextIndex() uint32 { return n.rd.next + 1 }

func (n *Net) NodeByUdp(a netip.AddrPort) *Node {
	for _, nd := range n.Nodes {
		if nd.Udp == a {
			return nd
		}
	}
	return nil
}

// Deliver hands one datagram to its destination node (dropped if nobody owns the address).
func (n *Net) Deliver(w Wire) bool {
	nd := n.NodeByUdp(w.To)
	if nd == nil {
		return false
	}
	nd.Inject(w.From, append([]byte{}, w.Data...))
	return true
}

// Pump delivers queued datagrams in FIFO order until the queue is empty (or max datagrams).
func (n *Net) Pump(max int) int {
	k := 0
	for len(n.Queue) > 0 && k < max {
		w := n.Queue[0]
		n.Queue = n.Queue[1:]
		n.Deliver(w)
		k++
	}
	return k
}

// Take removes and returns everything queued.
func (n *Net) Take() []Wire {
	q := n.Queue
	n.Queue = nil
	return q
}

// Handshake: node a learns b's underlay address, starts a handshake, and the two handshake
// datagrams are delivered. Returns the local indexes (a's, b's) of the new tunnel, 0 if it failed.
func (n *Net) Handshake(a, b int) (uint32, uint32) {
	A, B := n.Nodes[a], n.Nodes[b]
	A.InjectLightHouseAddr(B.Vpn, B.Udp)
	A.StartHandshake(B.Vpn)
	n.Pump(16)
	return A.PrimaryIndex(B.Vpn), B.PrimaryIndex(A.Vpn)
}

// PrimaryIndex is the local index of the primary hostinfo for a vpn address (0 if none).
func (nd *Node) PrimaryIndex(vpn netip.Addr) uint32 {
	return nd.State().HostsMap[vpn.String()]
}

// Describe renders the outer header of a datagram: "type/subtype/index/counter".
func Describe(b []byte) string {
	var h header.H
	if err := h.Parse(b); err != nil {
		return fmt.Sprintf("short%d", len(b))
	}
	return fmt.Sprintf("%d/%d/%d/%d", h.Type, h.Subtype, h.RemoteIndex, h.MessageCounter)
}

// IPv4Packet builds a minimal well-formed IPv4/UDP datagram.
func IPv4Packet(src, dst netip.Addr, sport, dport uint16, payload []byte) []byte {
	total := 20 + 8 + len(payload)
	b := make([]byte, total)
	b[0] = 0x45
	binary.BigEndian.PutUint16(b[2:], uint16(total))
	b[8] = 64
	b[9] = 17
	s, d := src.As4(), dst.As4()
	copy(b[12:16], s[:])
	copy(b[16:20], d[:])
	var sum uint32
	for i := 0; i < 20; i += 2 {
		sum += uint32(binary.BigEndian.Uint16(b[i:]))
	}
	for sum>>16 != 0 {
		sum = sum&0xffff + sum>>16
	}
	binary.BigEndian.PutUint16(b[10:], ^uint16(sum))
	binary.BigEndian.PutUint16(b[20:], sport)
	binary.BigEndian.PutUint16(b[22:], dport)
	binary.BigEndian.PutUint16(b[24:], uint16(8+len(payload)))
	copy(b[28:], payload)
	return b
}
