// Engine `conntrack` (C18, C19): Firewall.Drop over timed histories (virtual time, real TimerWheel, real
// routine-cache ticker) interleaved with Interface.reloadFirewall on generated configurations.
package conntrack

import (
	"fmt"
	"net/netip"
	"strings"
	"testing"

	"github.com/slackhq/nebula"
	"github.com/slackhq/nebula/config"
	"github.com/slackhq/nebula/firewall"
	"verifharness/fwlib"
	"verifharness/hlib"
)

const (
	ms   = uint64(1000000)
	sec  = 1000 * ms
	hour = 3600 * sec
)

// ---- configuration text for a reload

func protoName(p uint8) string {
	switch p {
	case 6:
		return "tcp"
	case 17:
		return "udp"
	case 1:
		return "icmp"
	}
	return "any"
}

func portText(r fwlib.Rule) string {
	switch {
	case r.Start == 0 && r.End == 0:
		return "any"
	case r.Start == -1 && r.End == -1:
		return "fragment"
	case r.Start == r.End:
		return fmt.Sprint(r.Start)
	}
	return fmt.Sprintf("%d-%d", r.Start, r.End)
}

func ruleYAML(r fwlib.Rule) string {
	var b strings.Builder
	fmt.Fprintf(&b, "    - port: %q\n      proto: %q\n", portText(r), protoName(r.Proto))
	if len(r.Groups) > 0 {
		q := make([]string, len(r.Groups))
		for i, g := range r.Groups {
			q[i] = fmt.Sprintf("%q", g)
		}
		fmt.Fprintf(&b, "      groups: [%s]\n", strings.Join(q, ", "))
	}
	for _, kv := range [][2]string{{"host", r.Host}, {"cidr", r.Cidr}, {"local_cidr", r.LocalCidr}, {"ca_name", r.CAName}, {"ca_sha", r.CASha}} {
		if kv[1] != "" {
			fmt.Fprintf(&b, "      %s: %q\n", kv[0], kv[1])
		}
	}
	return b.String()
}

func configYAML(dlca bool, tcp, udp, dflt, nonce uint64, rules []fwlib.Rule) string {
	var b strings.Builder
	fmt.Fprintf(&b, "firewall:\n  verif_nonce: %d\n  default_local_cidr_any: %v\n", nonce, dlca)
	fmt.Fprintf(&b, "  conntrack:\n    tcp_timeout: \"%dns\"\n    udp_timeout: \"%dns\"\n    default_timeout: \"%dns\"\n", tcp, udp, dflt)
	for _, dir := range []bool{true, false} {
		name := "outbound"
		if dir {
			name = "inbound"
		}
		var items strings.Builder
		for _, r := range rules {
			if r.Incoming == dir {
				items.WriteString(ruleYAML(r))
			}
		}
		if items.Len() == 0 {
			fmt.Fprintf(&b, "  %s: []\n", name)
		} else {
			fmt.Fprintf(&b, "  %s:\n%s", name, items.String())
		}
	}
	return b.String()
}

// Expressible turns a rule into one the configuration syntax can say and AddFirewallRulesFromConfig accepts
// (proto any/tcp/udp/icmp; port any, fragment, n or a-b with 1 <= a <= b; at least one selector).
func Expressible(r fwlib.Rule) fwlib.Rule {
	switch r.Proto {
	case 0, 6, 17, 1:
	case 58:
		r.Proto = 1
	default:
		r.Proto = 0
	}
	if r.Start > r.End {
		r.Start, r.End = r.End, r.Start
	}
	switch {
	case r.Proto == 1 || r.Start == 0:
		r.Start, r.End = 0, 0
	case r.Start < 0:
		r.Start, r.End = -1, -1
	}
	if r.Host == "" && len(r.Groups) == 0 && r.Cidr == "" && r.LocalCidr == "" && r.CAName == "" && r.CASha == "" {
		r.Host = "any"
	}
	return r
}

// ---- generator

type flow struct {
	peer int
	p    firewall.Packet
}

// meaningFamily: reloads that keep the rule text but change what it means (default_local_cidr_any flipped, the
// certificate's unsafe networks removed / replaced), with a tracked flow to an address in an unsafe network.
func meaningFamily(emit func(string, ...any)) int {
	ops := 0
	type step struct{ dlca, unsafe string }
	for _, sc := range [][]step{
		{{"1", "c0a80000/16"}, {"0", "c0a80000/16"}},
		{{"0", "c0a80000/16"}, {"1", "c0a80000/16"}, {"0", "c0a80000/16"}},
		{{"1", "c0a80000/16"}, {"1", "-"}, {"1", "c0a80000/16"}},
		{{"1", "c0a80000/16"}, {"0", "ac100000/12"}},
		{{"0", "-"}, {"0", "c0a80000/16"}},
	} {
		for _, ruleDir := range []string{"in", "out"} {
			emit("reset %s %d %d %d 0 me 0a000001/8 %s - ca1", sc[0].dlca, 60*sec, 60*sec, 60*sec, sc[0].unsafe)
			emit("peer p0 h1 0a000002/8 - g1 ca1")
			emit("rule %s 0 0 0 - any - - - -", ruleDir)
			for i, st := range sc {
				if i > 0 {
					emit("stage %s 0 0 0 - any - - - -", ruleDir)
					emit("reload %s %d %d %d 0 %s", st.dlca, 60*sec, 60*sec, 60*sec, st.unsafe)
					ops++
				}
				for _, local := range []string{"c0a80105", "0a000001"} {
					for _, d := range []string{"in", "out", "in"} {
						emit("drop p0 %s %s 0a000002 80 4000 6 0", d, local)
						ops++
					}
				}
			}
		}
	}
	return ops
}

func gen(r *hlib.Rand, n int, tier, profile string, emit func(string, ...any)) {
	ops := meaningFamily(emit)
	for ops < n {
		w := fwlib.GenWorld(r, 3)
		durs := []uint64{2 * sec, 3 * sec, 5 * sec, 10 * sec, 60 * sec}
		// three timeouts in every one of the 6 orderings of (tcp, udp, default) — the wheel's tick and span are
		// derived from their minimum and maximum —, sometimes with ties; and nebula's shipped 12m / 3m / 10m
		var tcp, udp, dflt uint64
		{
			i := r.Intn(len(durs) - 2)
			j := r.Range(i+1, len(durs)-2)
			k := r.Range(j+1, len(durs)-1)
			lo, mid, hi := durs[i], durs[j], durs[k]
			switch r.Intn(8) {
			case 0:
				lo, mid, hi = 3*60*sec, 10*60*sec, 12*60*sec
			case 1:
				mid = hlib.Pick(r, lo, hi)
			}
			switch r.Intn(6) {
			case 0:
				tcp, udp, dflt = lo, mid, hi
			case 1:
				tcp, udp, dflt = lo, hi, mid
			case 2:
				tcp, udp, dflt = mid, lo, hi
			case 3:
				tcp, udp, dflt = mid, hi, lo
			case 4:
				tcp, udp, dflt = hi, lo, mid // the shipped order: tcp > default > udp
			default:
				tcp, udp, dflt = hi, mid, lo
			}
		}
		cache := uint64(0)
		reloads := profile == "C19" || r.Chance(1, 4)
		if profile != "C19" && r.Chance(1, 3) {
			cache = hlib.Pick(r, 1*sec, 1*sec, 500*ms, 7*sec)
			reloads = false // the oracle's cache reading does not cover reloads
		}
		// rules: usually one broad rule in one direction, so that the other direction lives on conntrack only
		for i := range w.Rules {
			w.Rules[i] = Expressible(w.Rules[i])
		}
		if r.Chance(4, 5) {
			w.Rules = append(w.Rules, fwlib.Rule{Incoming: r.Bool(), Proto: hlib.Pick(r, uint8(0), 0, 6, 17), Host: "any", LocalCidr: "any"})
		}
		// reloads that change what unchanged rules mean: this node has unsafe networks, a rule without local_cidr
		// (its local side is "any" only under default_local_cidr_any / without unsafe networks)
		meaning := reloads && r.Chance(1, 2)
		if meaning {
			if len(w.My.CUnsafe) == 0 {
				w.My.CUnsafe = append(w.My.CUnsafe, fwlib.RandPrefixAround(r, fwlib.RandAddr(r, w.My.CNets[0].Addr().Is6())).Masked())
			}
			w.DLCA = r.Chance(3, 4)
			w.Rules = append(w.Rules, fwlib.Rule{Incoming: r.Bool(), Proto: hlib.Pick(r, uint8(0), 6, 17), Host: "any"})
		}
		curUnsafe := append([]netip.Prefix(nil), w.My.CUnsafe...)
		w.EmitSetup(emit, tcp, udp, dflt, cache)
		if reloads && r.Chance(1, 3) {
			emit("version %d", hlib.Pick(r, 65533, 65534, 65535, 65535, 7))
		}
		current := append([]fwlib.Rule(nil), w.Rules...)
		history := [][]fwlib.Rule{current}
		nonce := 0
		timeouts := [3]uint64{tcp, udp, dflt}
		var flows []flow
		k := r.Range(15, 60)
		for i := 0; i < k; i++ {
			switch x := r.Intn(20); {
			case x < 11: // a packet: an existing flow (either direction) or a new tuple
				var f flow
				if len(flows) > 0 && r.Chance(2, 3) {
					f = flows[r.Intn(len(flows))]
				} else {
					f.peer = r.Intn(len(w.Peers))
					f.p, _ = w.GenPacket(r, w.Peers[f.peer])
					if r.Chance(3, 4) { // addresses that pass the address checks
						f.p.LocalAddr = w.My.CNets[0].Addr()
						f.p.RemoteAddr = w.Peers[f.peer].CNets[0].Addr()
					}
					flows = append(flows, f)
				}
				emit("drop p%d %s %s", f.peer, fwlib.Dir(r.Bool()), fwlib.PacketTokens(f.p))
				ops++
			case x < 16: // time passes: around the timeouts, around the cache period, a long silence
				t := timeouts[r.Intn(3)]
				var d uint64
				switch r.Intn(9) {
				case 0:
					d = t - 1
				case 1:
					d = t
				case 2:
					d = t + 1
				case 3:
					d = t / 2
				case 4:
					d = t * 2
				case 5:
					d = 24 * hour
				case 6:
					d = uint64(r.Range(1, 2000)) * ms
				case 7:
					if cache > 0 {
						d = hlib.Pick(r, cache-1, cache, cache+1, cache/2)
					} else {
						d = t / 3
					}
				default:
					d = uint64(r.Range(1, 15)) * sec
				}
				emit("sleep %d", d)
			case x < 17:
				emit("conns")
				if r.Chance(1, 2) {
					continue
				}
				// a flow that is never idle for its timeout, also across reloads that keep allowing it: packets in
				// either direction at gaps just under the timeout, a reload somewhere inside a gap
				var f flow
				if len(flows) > 0 && r.Chance(1, 2) {
					f = flows[r.Intn(len(flows))]
				} else {
					f.peer = r.Intn(len(w.Peers))
					f.p, _ = w.GenPacket(r, w.Peers[f.peer])
					f.p.LocalAddr = w.My.CNets[0].Addr()
					f.p.RemoteAddr = w.Peers[f.peer].CNets[0].Addr()
					flows = append(flows, f)
				}
				T := timeouts[2]
				switch f.p.Protocol {
				case 6:
					T = timeouts[0]
				case 17:
					T = timeouts[1]
				}
				emit("drop p%d %s %s", f.peer, fwlib.Dir(r.Bool()), fwlib.PacketTokens(f.p))
				ops++
				for j := r.Range(2, 5); j > 0; j-- {
					gap := hlib.Pick(r, T-1, T-1, T-1, T*3/4, T/2, T-2)
					if reloads && r.Chance(1, 2) {
						a := gap * uint64(r.Range(0, 10)) / 10
						emit("sleep %d", a)
						nonce++
						for _, ru := range current {
							emit("stage %s", ru.Tokens())
						}
						emit("reload %s %d %d %d %d", hlib.B(w.DLCA), timeouts[0], timeouts[1], timeouts[2], nonce)
						emit("sleep %d", gap-a)
					} else {
						emit("sleep %d", gap)
					}
					emit("drop p%d %s %s", f.peer, fwlib.Dir(r.Bool()), fwlib.PacketTokens(f.p))
					ops++
				}
			case x < 18: // unrelated churn: a burst of fresh tuples advances the wheel
				for j := r.Range(1, 4); j > 0; j-- {
					pi := r.Intn(len(w.Peers))
					p, inc := w.GenPacket(r, w.Peers[pi])
					p.LocalAddr = w.My.CNets[0].Addr()
					p.RemoteAddr = w.Peers[pi].CNets[0].Addr()
					p.RemotePort = uint16(r.Range(20000, 60000))
					emit("drop p%d %s %s", pi, fwlib.Dir(inc), fwlib.PacketTokens(p))
					ops++
				}
			default:
				if !reloads {
					continue
				}
				if meaning && r.Chance(1, 2) {
					// a flow whose local address lies in one of this node's unsafe networks, tracked; then a reload
					// with the same rule text but another default_local_cidr_any / other unsafe networks in the
					// certificate; then the flow again
					var f flow
					f.peer = r.Intn(len(w.Peers))
					f.p, _ = w.GenPacket(r, w.Peers[f.peer])
					f.p.RemoteAddr = w.Peers[f.peer].CNets[0].Addr()
					f.p.LocalAddr = w.My.CNets[0].Addr()
					if len(curUnsafe) > 0 {
						u := curUnsafe[r.Intn(len(curUnsafe))]
						if u.Addr().Is6() == f.p.RemoteAddr.Is6() {
							f.p.LocalAddr = fwlib.AddrIn(r, u)
						}
					}
					flows = append(flows, f)
					for _, d := range []bool{true, false, r.Bool()} {
						emit("drop p%d %s %s", f.peer, fwlib.Dir(d), fwlib.PacketTokens(f.p))
						ops++
					}
					newUnsafe := curUnsafe
					switch r.Intn(5) {
					case 0, 1, 2:
						w.DLCA = !w.DLCA
					case 3: // the certificate loses its unsafe networks / gets them back
						if len(curUnsafe) > 0 {
							newUnsafe = nil
						} else {
							newUnsafe = append([]netip.Prefix(nil), w.My.CUnsafe...)
						}
					default: // another unsafe network
						newUnsafe = []netip.Prefix{fwlib.RandPrefixAround(r, fwlib.RandAddr(r, f.p.RemoteAddr.Is6())).Masked()}
					}
					if r.Bool() {
						nonce++
					}
					for _, ru := range current {
						emit("stage %s", ru.Tokens())
					}
					emit("reload %s %d %d %d %d %s", hlib.B(w.DLCA), timeouts[0], timeouts[1], timeouts[2], nonce, fwlib.PrefixesTok(newUnsafe))
					curUnsafe = newUnsafe
					ops++
					for _, d := range []bool{r.Bool(), true, false} {
						emit("drop p%d %s %s", f.peer, fwlib.Dir(d), fwlib.PacketTokens(f.p))
						ops++
					}
					continue
				}
				var next []fwlib.Rule
				switch r.Intn(6) {
				case 0, 1: // the same rules, something else in the section changed
					next = current
					nonce++
				case 2: // nothing changed at all
					next = current
				case 3: // revert to an earlier set
					next = history[r.Intn(len(history))]
					nonce++
				case 4: // drop a rule
					for _, ru := range current {
						if !r.Chance(1, 2) {
							next = append(next, ru)
						}
					}
				default: // new rules
					for j := r.Range(0, 3); j > 0; j-- {
						next = append(next, Expressible(w.GenRule(r)))
					}
					if r.Bool() {
						next = append(next, fwlib.Rule{Incoming: r.Bool(), Host: "any", LocalCidr: "any"})
					}
				}
				if r.Chance(1, 8) {
					timeouts = [3]uint64{hlib.Pick(r, durs...), hlib.Pick(r, durs...), hlib.Pick(r, durs...)}
				}
				if r.Chance(1, 10) {
					w.DLCA = !w.DLCA
				}
				for _, ru := range next {
					emit("stage %s", ru.Tokens())
				}
				emit("reload %s %d %d %d %d", hlib.B(w.DLCA), timeouts[0], timeouts[1], timeouts[2], nonce)
				current = next
				history = append(history, next)
				w.Rules = next
				ops++
			}
		}
	}
}

// ---- executor

func newExec(t *testing.T) func([]string) string {
	var cfg *config.C
	var staged []fwlib.Rule
	e := &fwlib.Exec{T: t}
	e.OnReset = func(e *fwlib.Exec) {
		cfg = config.NewC(e.L)
		if err := cfg.LoadString("firewall:\n  verif_initial: true\n"); err != nil {
			panic(err)
		}
		staged = nil
	}
	e.Extra = func(e *fwlib.Exec, a []string) (string, bool) {
		switch a[0] {
		case "version":
			nebula.VerifFwSetRulesVersion(e.Fw, uint16(hlib.Atoi(a[1])))
			return "ok", true
		case "stage":
			staged = append(staged, fwlib.ParseRule(a[1:11]))
			return "ok", true
		case "reload":
			dlca := a[1] == "1"
			y := configYAML(dlca, hlib.Atou(a[2]), hlib.Atou(a[3]), hlib.Atou(a[4]), hlib.Atou(a[5]), staged)
			staged = nil
			if err := cfg.ReloadConfigString(y); err != nil {
				return "err:config " + err.Error(), true
			}
			changed := cfg.HasChanged("firewall")
			old := e.Fw
			my := e.My
			if len(a) > 6 { // the node's certificate was re-issued with other unsafe networks
				c := *e.My
				c.CUnsafe = fwlib.UnPrefixes(a[6])
				my = &c
			}
			e.Fw = nebula.VerifFwReload(e.L, old, my, cfg)
			switch {
			case e.Fw != old:
				e.My = my
				e.DLCA = dlca
				return fmt.Sprintf("reloaded %d", nebula.VerifFwRulesVersion(e.Fw)), true
			case !changed:
				return "unchanged", true
			}
			return "failed", true
		case "conns":
			return fmt.Sprint(nebula.VerifFwConnCount(e.Fw)), true
		}
		return "", false
	}
	return e.Do
}

func TestEngine(t *testing.T) {
	hlib.Run(t, hlib.Engine{Name: "conntrack", Gen: gen, NewExec: newExec, Synctest: true})
}
