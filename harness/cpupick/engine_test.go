// Engine `cpupick` (C46): cpupick.arrange / pickCandidates / splitmix64 / parseCPUList.
package cpupick

import (
	"fmt"
	"strings"
	"testing"

	"github.com/slackhq/nebula/cpupick"
	"verifharness/hlib"
)

func ints(l []int) string {
	if len(l) == 0 {
		return "-"
	}
	s := make([]string, len(l))
	for i, v := range l {
		s[i] = fmt.Sprint(v)
	}
	return strings.Join(s, ",")
}

// randCands: a set of CPU ids (mostly distinct, ascending like sched_getaffinity gives them).
func randCands(r *hlib.Rand) []int {
	n := hlib.Pick(r, 0, 1, 2, 3, 4, 6, 8, 8, 12, 16, 24)
	start := hlib.Pick(r, 0, 0, 0, 1, 2, 8)
	var out []int
	c := start
	for len(out) < n {
		out = append(out, c)
		c += hlib.Pick(r, 1, 1, 1, 2, 3)
	}
	if n > 1 && r.Chance(1, 8) { // shuffled
		for i := range out {
			j := r.Intn(len(out))
			out[i], out[j] = out[j], out[i]
		}
	}
	if n > 1 && r.Chance(1, 25) { // a duplicate (outside the property's domain; model tie only)
		out[r.Intn(n)] = out[r.Intn(n)]
	}
	return out
}

func genTopo(r *hlib.Rand, cands []int) (string, int) {
	nodes := hlib.Pick(r, 1, 1, 2, 2, 3, 4)
	smt := hlib.Pick(r, 1, 2, 2, 4)
	style := r.Intn(3) // 0: siblings adjacent (0,1 share a core), 1: siblings at distance n/2, 2: random cores
	var sb strings.Builder
	zeroCore := -1
	half := 0
	for _, c := range cands {
		if c > half {
			half = c
		}
	}
	half = half/2 + 1
	for _, c := range cands {
		node := 0
		switch r.Intn(4) {
		case 0:
			node = r.Intn(nodes)
		default:
			node = (c * nodes) / (2*half + 1)
		}
		core := 0
		switch style {
		case 0:
			core = c / smt
		case 1:
			core = c % half
		default:
			core = r.Intn(len(cands) + 1)
		}
		ns, cs := fmt.Sprint(node), fmt.Sprint(core)
		if r.Chance(1, 30) {
			ns = "x" // missing from the map
		}
		if r.Chance(1, 30) {
			cs = "x"
		}
		if c == 0 && cs != "x" {
			zeroCore = core
		}
		fmt.Fprintf(&sb, " %d %s %s", c, ns, cs)
	}
	switch r.Intn(6) {
	case 0:
		zeroCore = -1
	case 1: // CPU 0 not a candidate but its core known: siblings still demoted
		if len(cands) > 0 {
			zeroCore = r.Intn(len(cands) + 1)
		}
	}
	return sb.String(), zeroCore
}

func randRoutines(r *hlib.Rand, n int) int {
	return hlib.Pick(r, 0, 1, 2, 2, 4, n/2, n, n+1, n-1, -1)
}

func printed(r *hlib.Rand) string {
	var parts []string
	c := hlib.Pick(r, 0, 0, 1, 4, 64)
	k := hlib.Pick(r, 1, 1, 2, 3, 5)
	for i := 0; i < k; i++ {
		w := hlib.Pick(r, 0, 0, 1, 3, 7, 15, 63, 8191, 8192)
		if w == 0 {
			parts = append(parts, fmt.Sprint(c))
		} else {
			parts = append(parts, fmt.Sprintf("%d-%d", c, c+w))
		}
		c += w + 2 + r.Intn(4)
	}
	return strings.Join(parts, ",")
}

func deviant(r *hlib.Rand) string {
	base := printed(r)
	switch r.Intn(22) {
	case 0:
		return "+" + base
	case 1:
		return "0-+3"
	case 2:
		return "0--0"
	case 3:
		return "-1"
	case 4:
		return " " + base + " "
	case 5:
		return strings.ReplaceAll(base, ",", ", ")
	case 6:
		return strings.ReplaceAll(base, "-", " - ")
	case 7:
		return "0-31:2/4"
	case 8:
		return hlib.Pick(r, "all", "N", "0-N", "none")
	case 9:
		return base + ","
	case 10:
		return "," + base
	case 11:
		return strings.ReplaceAll(base, ",", ",,")
	case 12:
		return "5-3"
	case 13:
		return hlib.Pick(r, "0-8193", "0-8192", "1-8194", "0-100000")
	case 14:
		return hlib.Pick(r, "9223372036854775807", "9223372036854775808", "99999999999999999999", "9223372036854775806-9223372036854775807")
	case 15:
		return hlib.Pick(r, "0x10", "1e3", "1_0", "١", "007", "00-007")
	case 16:
		return "0 3"
	case 17:
		return " " + base + " "
	case 18:
		return base + "\n"
	case 19:
		return hlib.Pick(r, "-", "--", "1-", "-", "1-2-3", "3-3")
	case 20:
		return hlib.Pick(r, " ", "\t", ", ,", ",")
	}
	b := []byte(base)
	if len(b) > 0 {
		b[r.Intn(len(b))] = hlib.Pick(r, byte('-'), ',', ' ', '+', ':', '/', 'a', '9', 0xff, 0xc2)
	}
	return string(b)
}

func gen(r *hlib.Rand, n int, tier, profile string, emit func(string, ...any)) {
	emit("parse %s", hlib.Hex([]byte("")))
	emit("parse %s", hlib.Hex([]byte("0-7,16-23")))
	emit("parse %s", hlib.Hex([]byte("3")))
	if tier == "thorough" {
		// all strings of length ≤ 3 over the alphabet the grammar is made of
		alpha := []byte("01-,+ 9")
		var rec func(p []byte, d int)
		rec = func(p []byte, d int) {
			emit("parse %s", hlib.Hex(p))
			if d == 0 {
				return
			}
			for _, c := range alpha {
				rec(append(append([]byte{}, p...), c), d-1)
			}
		}
		rec(nil, 3)
	}
	// deterministic family (independent of the random stream): machines with 2-4 NUMA nodes that each hold at
	// least `routines` candidates (two or more eligible nodes), every small hash value in both halves of h
	for _, nodes := range []int{2, 3, 4} {
		for _, per := range []int{2, 4} {
			var sb strings.Builder
			ncpu := nodes * per
			for c := 0; c < ncpu; c++ {
				fmt.Fprintf(&sb, " %d %d %d", c, c/per, c/2)
			}
			for _, routines := range []int{1, 2, per} {
				for h := uint64(0); h < 4; h++ {
					emit("arr %d %d 0 %d%s", routines, h|h<<32, ncpu, sb.String())
				}
			}
		}
	}
	var last string
	for i := 0; i < n; i++ {
		switch r.Intn(10) {
		case 0, 1, 2, 3:
			cands := randCands(r)
			topo, zc := genTopo(r, cands)
			last = fmt.Sprintf("arr %d %d %d %d%s", randRoutines(r, len(cands)), hlib.Pick(r, r.U64(), r.U64(), uint64(r.Intn(4)), uint64(r.Intn(4))<<32), zc, len(cands), topo)
			emit("%s", last)
		case 4:
			if last != "" { // stability: the same question again
				emit("%s", last)
			}
		case 5:
			cands := randCands(r)
			emit("flat %d %d %d %s", randRoutines(r, len(cands)), r.U64(), len(cands), strings.ReplaceAll(ints(cands), ",", " "))
		case 6:
			a := randCands(r)
			var p []int
			for _, c := range a {
				if r.Bool() {
					p = append(p, c)
				}
			}
			emit("pick %d %d %s %d %s", randRoutines(r, len(p)), len(a), strings.ReplaceAll(ints(a), ",", " "), len(p), strings.ReplaceAll(ints(p), ",", " "))
		case 7:
			emit("mix %d", hlib.Pick(r, r.U64(), uint64(r.Intn(70000)), 4242, 4243, ^uint64(0), 0))
		case 8:
			emit("parse %s", hlib.Hex([]byte(printed(r))))
		default:
			emit("parse %s", hlib.Hex([]byte(deviant(r))))
		}
	}
}

func atoiList(a []string) []int {
	var out []int
	for _, s := range a {
		if s == "-" {
			continue
		}
		out = append(out, hlib.Atoi(s))
	}
	return out
}

func newExec(t *testing.T) func([]string) string {
	return func(a []string) string {
		switch a[0] {
		case "arr":
			routines, h, zc, n := hlib.Atoi(a[1]), hlib.Atou(a[2]), hlib.Atoi(a[3]), hlib.Atoi(a[4])
			nodeOf, coreOf := map[int]int{}, map[int]int{}
			var cands []int
			for i := 0; i < n; i++ {
				c := hlib.Atoi(a[5+3*i])
				cands = append(cands, c)
				if s := a[6+3*i]; s != "x" {
					nodeOf[c] = hlib.Atoi(s)
				}
				if s := a[7+3*i]; s != "x" {
					coreOf[c] = hlib.Atoi(s)
				}
			}
			// the same question asked repeatedly must get the same answer ("the same for the same instance
			// key and topology"): a dependence on Go's randomised map iteration order shows up here
			first := ints(cpupick.VerifArrange(cands, nodeOf, coreOf, zc, routines, h))
			for k := 0; k < 12; k++ {
				if again := ints(cpupick.VerifArrange(cands, nodeOf, coreOf, zc, routines, h)); again != first {
					return "unstable " + first + " | " + again
				}
			}
			return first
		case "flat":
			routines, h, n := hlib.Atoi(a[1]), hlib.Atou(a[2]), hlib.Atoi(a[3])
			cands := atoiList(a[4 : 4+max(n, 0)])
			if n == 0 {
				cands = nil
			}
			no, co, zc := cpupick.VerifFlatTopology(cands)
			return ints(cpupick.VerifArrange(cands, no, co, zc, routines, h))
		case "pick":
			routines, na := hlib.Atoi(a[1]), hlib.Atoi(a[2])
			rest := a[3:]
			var al, pf []int
			if na == 0 {
				rest = rest[1:]
			} else {
				al = atoiList(rest[:na])
				rest = rest[na:]
			}
			np := hlib.Atoi(rest[0])
			if np > 0 {
				pf = atoiList(rest[1 : 1+np])
			}
			return ints(cpupick.VerifPickCandidates(al, pf, routines))
		case "mix":
			return fmt.Sprint(cpupick.VerifSplitmix64(hlib.Atou(a[1])))
		case "parse":
			b, err := hlib.UnHex(a[1])
			if err != nil {
				return "bad-op"
			}
			l, perr := cpupick.VerifParseCPUList(string(b))
			if perr != nil {
				return "err"
			}
			return "ok " + ints(l)
		}
		return "bad-op"
	}
}

func TestEngine(t *testing.T) {
	hlib.Run(t, hlib.Engine{Name: "cpupick", Gen: gen, NewExec: newExec})
}
