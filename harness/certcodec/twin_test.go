// P-256 twin ops of the certcodec engine (C02): cert/p256 Swap / Normalize on signature encodings aimed at the
// boundaries of the DER INTEGER encoder (value of s or N-s with 0, 1, 2, 3, … leading zero bytes in the 32-byte
// form, top bit set / clear after stripping, the same for r), and the end-to-end twin blocklist check with real
// P-256 certificates whose issued signature has a short s (found by grinding the signed name).
//
//	p256n                                  -> <N hex> <N>>1 hex>          (constants of cert/p256, through the hook)
//	swap <sig hex>                         -> <Swap hex> | err
//	lows <sig hex>                         -> <IsNormalized 0|1> <Normalize hex> | err
//	twinblock <ver> <form std|hs> <blocked hex> <presented hex> <ca ver> <ca hex> <now ns> <sig 0|1>
//	      -> op-inconsistent | undecodable <err:kind> | <VerifyCertificate ok|err:kind> <cached ok|err:kind|na>
//	      pool = {CA}; the fingerprint of <blocked> is blocklisted, <presented> (hs: Recombine with the blocked
//	      certificate's key and curve) is verified; cached: <presented> is first accepted by a pool without the
//	      blocklist entry, then the entry is added and VerifyCachedCertificate is asked.
package certcodec

import (
	"errors"
	"fmt"
	"math/big"
	"net/netip"

	"github.com/slackhq/nebula/cert"
	"github.com/slackhq/nebula/cert/p256"
	cl "verifharness/certlib"
	"verifharness/hlib"
)

var (
	twN, _ = new(big.Int).SetString("ffffffff00000000ffffffffffffffffbce6faada7179e84f3b9cac2fc632551", 16)
	twOne  = big.NewInt(1)
)

func execTwin(a []string) (string, bool) {
	switch a[0] {
	case "p256n":
		return fmt.Sprintf("%s %s", hlib.Hex(p256.VerifN()), hlib.Hex(p256.VerifHalfN())), true
	case "swap":
		if len(a) != 2 {
			return "bad-op", true
		}
		return optHex(p256.Swap(bytesArg(a[1]))), true
	case "lows":
		if len(a) != 2 {
			return "bad-op", true
		}
		sig := bytesArg(a[1])
		ok, err := p256.IsNormalized(sig)
		n, err2 := p256.Normalize(sig)
		if err != nil || err2 != nil {
			if (err == nil) != (err2 == nil) {
				return "err-split", true
			}
			return "err", true
		}
		return fmt.Sprintf("%s %s", hlib.B(ok), hlib.Hex(n)), true
	case "twinblock":
		if len(a) != 9 {
			return "bad-op", true
		}
		ver, caver := hlib.Atoi(a[1]), hlib.Atoi(a[5])
		c0, err := decodeStd(ver, bytesArg(a[3]))
		if err != nil {
			return "op-inconsistent", true
		}
		ca, err := decodeStd(caver, bytesArg(a[6]))
		if err != nil {
			return "op-inconsistent", true
		}
		newPool := func() *cert.CAPool {
			pool := cert.NewCAPool()
			if err := pool.AddCA(ca); err != nil && !errors.Is(err, cert.ErrExpired) {
				return nil
			}
			return pool
		}
		pool, pool2 := newPool(), newPool()
		if pool == nil {
			return "op-inconsistent", true
		}
		if fp, _ := ca.Fingerprint(); fp != c0.Issuer() {
			return "op-inconsistent", true
		}
		var c1 cert.Certificate
		if a[2] == "hs" {
			c1, err = cert.Recombine(cert.Version(ver), bytesArg(a[4]), c0.PublicKey(), c0.Curve())
		} else {
			c1, err = decodeStd(ver, bytesArg(a[4]))
		}
		if err != nil {
			return "undecodable " + decKind(err), true
		}
		if hlib.B(c1.CheckSignature(ca.PublicKey())) != a[8] {
			return "op-inconsistent", true
		}
		fp0, err := c0.Fingerprint()
		if err != nil {
			return "op-inconsistent", true
		}
		now := cl.TimeOf(a[7])
		pool.BlocklistFingerprint(fp0)
		v := "ok"
		if _, verr := pool.VerifyCertificate(now, c1); verr != nil {
			v = verifyKind(verr)
		}
		cv := "na"
		if cc, err := pool2.VerifyCertificate(now, c1); err == nil {
			pool2.BlocklistFingerprint(fp0)
			cv = "ok"
			if verr := pool2.VerifyCachedCertificate(now, cc); verr != nil {
				cv = verifyKind(verr)
			}
		}
		return v + " " + cv, true
	}
	return "", false
}

// ---- generator -------------------------------------------------------------------------------------

// twScalars: values whose minimal big-endian form has every length 1..32 (and 33) with the leading byte at both
// sides of the sign bit, plus the named points of the group order.
func twScalars(r *hlib.Rand) []*big.Int {
	var out []*big.Int
	for l := 1; l <= 33; l++ {
		for _, top := range []byte{0x01, 0x7f, 0x80, 0xff} {
			b := r.Bytes(l)
			b[0] = top
			switch r.Intn(4) {
			case 0:
				for i := 1; i < l; i++ {
					b[i] = 0
				}
			case 1:
				for i := 1; i < l; i++ {
					b[i] = 0xff
				}
			}
			out = append(out, new(big.Int).SetBytes(b))
		}
	}
	half := new(big.Int).Rsh(twN, 1)
	for _, d := range []int64{-2, -1, 0, 1, 2} {
		out = append(out, new(big.Int).Add(half, big.NewInt(d)), new(big.Int).Add(twN, big.NewInt(d)))
	}
	out = append(out, big.NewInt(0), big.NewInt(1), big.NewInt(2), new(big.Int).Lsh(twOne, 255), new(big.Int).Lsh(twOne, 256),
		new(big.Int).Sub(new(big.Int).Lsh(twOne, 256), twOne), new(big.Int).Lsh(twOne, 239), new(big.Int).Sub(new(big.Int).Lsh(twOne, 239), twOne),
		new(big.Int).Lsh(twOne, 240), new(big.Int).Lsh(twOne, 247), new(big.Int).Lsh(twOne, 248))
	return out
}

func twRandScalar(r *hlib.Rand) *big.Int {
	x := new(big.Int).SetBytes(r.Bytes(32))
	return x.Add(x.Mod(x, new(big.Int).Sub(twN, twOne)), twOne)
}

// twMalformed: encodings a strict DER reader refuses (and a few it must still accept).
func twMalformed(r *hlib.Rand, rr, ss *big.Int) [][]byte {
	good := cl.DerSig(rr, ss)
	rb, sb := rr.Bytes(), ss.Bytes()
	tlv := func(tag byte, c []byte) []byte { return append([]byte{tag, byte(len(c))}, c...) }
	seq := func(parts ...[]byte) []byte {
		var body []byte
		for _, p := range parts {
			body = append(body, p...)
		}
		return tlv(0x30, body)
	}
	pad := func(b []byte, n int) []byte { return append(make([]byte, n), b...) }
	min := func(b []byte) []byte {
		if len(b) == 0 {
			return []byte{0}
		}
		if b[0]&0x80 != 0 {
			return pad(b, 1)
		}
		return b
	}
	out := [][]byte{
		seq(tlv(2, pad(min(rb), 1)), tlv(2, min(sb))),                                 // non-minimal r
		seq(tlv(2, min(rb)), tlv(2, pad(min(sb), 1))),                                 // non-minimal s
		seq(tlv(2, min(rb)), tlv(2, pad(min(sb), 2))),                                 // two redundant zero bytes
		seq(tlv(2, min(rb)), tlv(2, append([]byte{0x80}, min(sb)...))),                // negative s
		seq(tlv(2, append([]byte{0xff}, min(rb)...)), tlv(2, min(sb))),                // negative r
		append(append([]byte{}, good...), 0),                                          // trailing byte after the SEQUENCE
		seq(tlv(2, min(rb)), tlv(2, min(sb)), []byte{0}),                              // trailing byte inside
		seq(tlv(2, min(rb)), tlv(2, min(sb)), tlv(2, []byte{1})),                      // third INTEGER
		seq(tlv(2, min(rb))),                                                          // s missing
		seq(tlv(2, min(rb)), tlv(2, nil)),                                             // empty INTEGER
		seq(tlv(3, min(rb)), tlv(2, min(sb))),                                         // wrong inner tag
		append([]byte{0x31}, good[1:]...),                                             // wrong outer tag
		append([]byte{0x30, 0x81, good[1]}, good[2:]...),                              // non-minimal long-form length
		seq(append([]byte{2, 0x81, byte(len(min(rb)))}, min(rb)...), tlv(2, min(sb))), // non-minimal length of r
		good[:len(good)-1],                                                            // truncated
		append([]byte{0x30, good[1] + 1}, good[2:]...),                                // length one too long
		{}, {0x30}, {0x30, 0x00}, {0x30, 0x80},
	}
	return out
}

func genTwin(r *hlib.Rand, n int, tier string, emit func(string, ...any)) {
	emit("p256n")
	scal := twScalars(r)
	sigOps := func(sig []byte) {
		emit("swap %s", hlib.Hex(sig))
		emit("lows %s", hlib.Hex(sig))
	}
	for _, v := range scal {
		rr := hlib.Pick(r, big.NewInt(5), twRandScalar(r), scal[r.Intn(len(scal))])
		// v as s (low form when short), N-v as s (the high form whose twin is short), v as r
		sigOps(cl.DerSig(rr, v))
		if v.Cmp(twN) < 0 {
			sigOps(cl.DerSig(rr, new(big.Int).Sub(twN, v)))
		}
		sigOps(cl.DerSig(v, twRandScalar(r)))
	}
	// r beyond the group order / very long (the SEQUENCE length needs the long form)
	for _, l := range []int{33, 64, 88, 89, 90, 91, 92, 100, 125, 126, 127, 128, 200, 220, 221, 222, 255, 256, 300} {
		b := r.Bytes(l)
		b[0] |= 1
		sigOps(twDer(new(big.Int).SetBytes(b), twRandScalar(r)))
		sigOps(twDer(twRandScalar(r), new(big.Int).SetBytes(b)))
	}
	for i := 0; i < 6; i++ {
		for _, m := range twMalformed(r, hlib.Pick(r, twRandScalar(r), scal[r.Intn(len(scal))]), hlib.Pick(r, twRandScalar(r), scal[r.Intn(len(scal))])) {
			if i == 0 || r.Chance(1, 3) {
				sigOps(m)
			}
		}
	}
	for i := 0; i < 40+n/20; i++ {
		sig := cl.DerSig(twRandScalar(r), twRandScalar(r))
		if r.Chance(1, 4) {
			sig = mutate(r, sig)
		}
		sigOps(sig)
	}

	// end to end
	const T0 = int64(cl.Epoch)
	key := cl.NewSignKey(r, cert.Curve_P256)
	mkCA := func(caver int) ([]byte, cert.Certificate, string) {
		caf := cl.Fields{Version: caver, Curve: 1, IsCA: true, NotBefore: cl.Sec(T0 - 1000), NotAfter: cl.Sec(T0 + 100000), Name: "ca", PublicKey: key.Pub}
		caraw := cl.Craft(caf, key, nil)
		ca, err := cl.Decode(caver, caraw)
		if err != nil {
			panic(err)
		}
		fp, _ := ca.Fingerprint()
		return caraw, ca, fp
	}
	leaf := func(ver int, cafp string) cl.Fields {
		f := cl.Fields{Version: ver, Curve: 1, NotBefore: cl.Sec(T0 - 500), NotAfter: cl.Sec(T0 + 50000), Issuer: cafp,
			Name: hlib.Pick(r, "host", "h"), Groups: cl.Subset(r, []string{"a", "b"}),
			Networks: []netip.Prefix{cl.Inside(r, netip.MustParsePrefix("10.0.0.0/8"), 16)}, PublicKey: cl.LeafPub(r, cert.Curve_P256)}
		if r.Bool() {
			f.Unsafe = []netip.Prefix{netip.MustParsePrefix("10.200.0.0/16")}
		}
		return f
	}
	pair := func(ver, caver int, caraw []byte, ca cert.Certificate, f cl.Fields, rr, s *big.Int) {
		lo := cl.Craft(f, nil, cl.DerSig(rr, s))
		hi := cl.Craft(f, nil, cl.DerSig(rr, new(big.Int).Sub(twN, s)))
		cLo, e1 := decodeStd(ver, lo)
		cHi, e2 := decodeStd(ver, hi)
		if e1 != nil || e2 != nil {
			return
		}
		now := cl.NsOf(T0+int64(r.Intn(1000)), 0)
		hsLo, _ := cLo.MarshalForHandshakes()
		hsHi, _ := cHi.MarshalForHandshakes()
		sLo, sHi := hlib.B(cLo.CheckSignature(ca.PublicKey())), hlib.B(cHi.CheckSignature(ca.PublicKey()))
		emit("twinblock %d std %s %s %d %s %s %s", ver, hlib.Hex(lo), hlib.Hex(hi), caver, hlib.Hex(caraw), now, sHi)
		emit("twinblock %d std %s %s %d %s %s %s", ver, hlib.Hex(hi), hlib.Hex(lo), caver, hlib.Hex(caraw), now, sLo)
		emit("twinblock %d hs %s %s %d %s %s %s", ver, hlib.Hex(lo), hlib.Hex(hsHi), caver, hlib.Hex(caraw), now, sHi)
		emit("twinblock %d hs %s %s %d %s %s %s", ver, hlib.Hex(hi), hlib.Hex(hsLo), caver, hlib.Hex(caraw), now, sLo)
		if r.Chance(1, 3) { // the blocklisted certificate itself
			emit("twinblock %d std %s %s %d %s %s %s", ver, hlib.Hex(hi), hlib.Hex(hi), caver, hlib.Hex(caraw), now, sHi)
		}
	}
	// signatures that do not verify: every boundary value of s (the blocklist is consulted before the signature)
	for i, v := range scal {
		if v.Sign() <= 0 || v.Cmp(twN) >= 0 || i%8 != 0 {
			continue
		}
		ver, caver := hlib.Pick(r, 1, 2), hlib.Pick(r, 1, 2)
		caraw, ca, cafp := mkCA(caver)
		pair(ver, caver, caraw, ca, leaf(ver, cafp), twRandScalar(r), v)
	}
	// real signatures with a short s
	grinds := 2
	if tier == "thorough" {
		grinds = 6
	}
	for i := 0; i < grinds; i++ {
		ver, caver := 1+i%2, hlib.Pick(r, 1, 2)
		caraw, ca, cafp := mkCA(caver)
		f, rr, s, ok := cl.GrindShortS(r, key, leaf(ver, cafp), 1500000)
		if !ok {
			continue
		}
		pair(ver, caver, caraw, ca, f, rr, s)
	}
	// real signatures of ordinary size, both directions
	for i := 0; i < 6; i++ {
		ver, caver := hlib.Pick(r, 1, 2), hlib.Pick(r, 1, 2)
		caraw, ca, cafp := mkCA(caver)
		f := leaf(ver, cafp)
		c0, err := decodeStd(ver, cl.Craft(f, key, nil))
		if err != nil {
			continue
		}
		rr, s := twParse(c0.Signature())
		if rr == nil || s.Sign() == 0 || s.Cmp(twN) >= 0 {
			continue
		}
		pair(ver, caver, caraw, ca, f, rr, s)
	}
}

// twDer is the DER ECDSA-Sig-Value of (r, s) for integers of any size (definite lengths in the minimal form).
func twDer(r0, s0 *big.Int) []byte {
	ln := func(n int) []byte {
		switch {
		case n < 128:
			return []byte{byte(n)}
		case n < 256:
			return []byte{0x81, byte(n)}
		}
		return []byte{0x82, byte(n >> 8), byte(n)}
	}
	enc := func(x *big.Int) []byte {
		b := x.Bytes()
		if len(b) == 0 || b[0]&0x80 != 0 {
			b = append([]byte{0}, b...)
		}
		return append(append([]byte{2}, ln(len(b))...), b...)
	}
	body := append(enc(r0), enc(s0)...)
	return append(append([]byte{0x30}, ln(len(body))...), body...)
}

func twParse(sig []byte) (*big.Int, *big.Int) {
	// minimal DER written by crypto/ecdsa: 30 len 02 lr r 02 ls s, all short form
	if len(sig) < 8 || sig[0] != 0x30 || sig[2] != 2 {
		return nil, nil
	}
	lr := int(sig[3])
	if len(sig) < 6+lr || sig[4+lr] != 2 {
		return nil, nil
	}
	ls := int(sig[5+lr])
	if len(sig) != 6+lr+ls {
		return nil, nil
	}
	return new(big.Int).SetBytes(sig[4 : 4+lr]), new(big.Int).SetBytes(sig[6+lr:])
}
