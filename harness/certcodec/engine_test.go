// Engine `certcodec` (C03, C02): the v1 (protobuf) and v2 (ASN.1 DER) certificate codecs through the public
// API: TBSCertificate.SignWith with a scripted signer lambda -> Marshal / MarshalPEM / MarshalForHandshakes ->
// UnmarshalCertificateFromPEM / Recombine; decoding of real, mutated, hand-made and random byte strings;
// cert/p256 on signature encodings.
package certcodec

import (
	"crypto/sha256"
	"encoding/pem"
	"errors"
	"fmt"
	"net/netip"
	"strings"
	"testing"
	"time"
	"unicode/utf8"

	"github.com/slackhq/nebula/cert"
	"github.com/slackhq/nebula/cert/p256"
	cl "verifharness/certlib"
	"verifharness/hlib"
)

func decKind(err error) string {
	msg := err.Error()
	if k := cl.InvalidKind(err); k != "" {
		return k
	}
	switch {
	case errors.Is(err, cert.ErrBadFormat):
		return "err:bad-format"
	case errors.Is(err, cert.ErrCertPubkeyPresent):
		return "err:pubkey-present"
	case errors.Is(err, cert.ErrNoPeerStaticKey):
		return "err:no-peer-static-key"
	case errors.Is(err, cert.ErrNoPayload):
		return "err:no-payload"
	case errors.Is(err, cert.ErrUnknownVersion):
		return "err:unknown-version"
	case errors.Is(err, cert.ErrInvalidPEMCertificateBanner):
		return "err:banner"
	case msg == "nil byte array":
		return "err:empty"
	case msg == "encoded Details was nil":
		return "err:no-details"
	case strings.HasPrefix(msg, "encoded IPs should be in pairs"):
		return "err:odd-ips"
	case strings.HasPrefix(msg, "encoded Subnets should be in pairs"):
		return "err:odd-subnets"
	case strings.HasPrefix(msg, "certificate curve"):
		return "err:curve-mismatch"
	case strings.HasPrefix(msg, "proto:"), strings.Contains(msg, "invalid UTF-8"):
		return "err:proto"
	}
	return "err:other:" + strings.ReplaceAll(msg, " ", "_")
}

func verifyKind(err error) string {
	msg := err.Error()
	switch {
	case errors.Is(err, cert.ErrBlockListed):
		return "err:blocklisted"
	case errors.Is(err, cert.ErrCaNotFound):
		return "err:ca-not-found"
	case errors.Is(err, cert.ErrCurveMismatch):
		return "err:curve"
	case errors.Is(err, cert.ErrRootExpired):
		return "err:root-expired"
	case errors.Is(err, cert.ErrExpired):
		return "err:expired"
	case errors.Is(err, cert.ErrSignatureMismatch):
		return "err:signature"
	case msg == "no issuer in certificate":
		return "err:no-issuer"
	case strings.HasPrefix(msg, "certificate expires after signing certificate"):
		return "err:after-ca"
	case strings.HasPrefix(msg, "certificate is valid before the signing certificate"):
		return "err:before-ca"
	case strings.HasPrefix(msg, "certificate contained a group not present"):
		return "err:group"
	case strings.HasPrefix(msg, "certificate contained a network assignment outside"):
		return "err:network"
	case strings.HasPrefix(msg, "certificate contained an unsafe network assignment outside"):
		return "err:unsafe-network"
	case strings.HasPrefix(msg, "could not calculate alternate fingerprint"):
		return "err:alt-fingerprint"
	}
	return "err:other:" + strings.ReplaceAll(msg, " ", "_")
}

func bytesArg(s string) []byte {
	if s == "nil" {
		return nil
	}
	b, err := hlib.UnHex(s)
	if err != nil {
		panic("harness: bad bytes " + s)
	}
	return b
}

func decodeStd(ver int, raw []byte) (cert.Certificate, error) {
	banner := "NEBULA SOMETHING ELSE"
	switch ver {
	case 1:
		banner = cert.CertificateBanner
	case 2:
		banner = cert.CertificateV2Banner
	}
	c, _, err := cert.UnmarshalCertificateFromPEM(pem.EncodeToMemory(&pem.Block{Type: banner, Bytes: raw}))
	return c, err
}

func signErr(err error, f cl.Fields) string {
	msg := err.Error()
	if k := cl.InvalidKind(err); k != "" {
		if k == "err:invalid:duplicate" {
			seen := map[netip.Prefix]bool{}
			for _, n := range f.Networks {
				if seen[n] {
					return "err:invalid:duplicate-network"
				}
				seen[n] = true
			}
			return "err:invalid:duplicate-unsafe"
		}
		return k
	}
	switch {
	case errors.Is(err, cert.ErrEmptySignature):
		return "err:empty-signature"
	case strings.HasPrefix(msg, "can not sign a CA certificate with another"):
		return "err:ca-by-ca"
	case strings.HasPrefix(msg, "self signed certificates must have IsCA set to true"):
		return "err:self-not-ca"
	case strings.HasPrefix(msg, "unknown cert version"):
		return "err:unknown-version"
	case strings.Contains(msg, "invalid UTF-8"):
		return "err:marshal"
	case msg == "invalid ASN.1", msg == "invalid integer", strings.Contains(msg, "bigmod"), strings.Contains(msg, "overflow"):
		return "err:normalize"
	case strings.HasPrefix(msg, "certificate expires after signing certificate"):
		return "err:after-ca"
	case strings.HasPrefix(msg, "certificate is valid before"):
		return "err:before-ca"
	case strings.HasPrefix(msg, "certificate contained a group"):
		return "err:group"
	case strings.HasPrefix(msg, "certificate contained a network"):
		return "err:network"
	case strings.HasPrefix(msg, "certificate contained an unsafe"):
		return "err:unsafe-network"
	}
	return "err:other:" + strings.ReplaceAll(msg, " ", "_")
}

func rt(orig cert.Certificate, c cert.Certificate, err error) string {
	if err != nil {
		return decKind(err)
	}
	if cl.Desc(c) != cl.Desc(orig) {
		return "fields"
	}
	a, _ := orig.Fingerprint()
	b, _ := c.Fingerprint()
	if a != b {
		return "fp"
	}
	return "same"
}

func doIssue(sig []byte, signer cert.Certificate, f cl.Fields) (cert.Certificate, error) {
	tbs := &cert.TBSCertificate{Version: cert.Version(f.Version), Name: f.Name, Networks: f.Networks, UnsafeNetworks: f.Unsafe,
		Groups: f.Groups, IsCA: f.IsCA, NotBefore: f.NotBefore, NotAfter: f.NotAfter, PublicKey: f.PublicKey, Curve: cert.Curve(f.Curve)}
	return tbs.SignWith(signer, cert.Curve(f.Curve), func([]byte) ([]byte, error) { return sig, nil })
}

func optHex(b []byte, err error) string {
	if err != nil {
		return "err"
	}
	return hlib.Hex(b)
}

func newExec(t *testing.T) func([]string) string {
	return func(a []string) string {
		if out, ok := execTwin(a); ok { // twin_test.go
			return out
		}
		switch a[0] {
		case "dec":
			if len(a) != 6 {
				return "bad-op"
			}
			ver, curve := hlib.Atoi(a[1]), hlib.Atoi(a[3])
			pub, raw := bytesArg(a[4]), bytesArg(a[5])
			var c cert.Certificate
			var err error
			if a[2] == "hs" {
				c, err = cert.Recombine(cert.Version(ver), raw, pub, cert.Curve(curve))
			} else {
				c, err = decodeStd(ver, raw)
			}
			if err != nil {
				return decKind(err)
			}
			return "ok " + cl.Desc(c)
		case "issue":
			if len(a) != 3+cl.DescLen && len(a) != 3+2*cl.DescLen+1 {
				return "bad-op"
			}
			sig := bytesArg(a[1])
			f := cl.ParseDesc(a[3 : 3+cl.DescLen])
			var signer cert.Certificate
			if a[2] != "none" {
				signer = &cl.Stub{F: cl.ParseDesc(a[3+cl.DescLen : 3+2*cl.DescLen]), Fp: a[3+2*cl.DescLen], SigOK: true}
			}
			c, err := doIssue(sig, signer, f)
			if err != nil {
				return signErr(err, f)
			}
			std, err := c.Marshal()
			if err != nil {
				return "err:marshal"
			}
			hs, err := c.MarshalForHandshakes()
			if err != nil {
				return "err:marshal"
			}
			pemBytes, err := c.MarshalPEM()
			if err != nil {
				return "err:marshal"
			}
			c1, e1 := decodeStd(f.Version, std)
			c2, _, e2 := cert.UnmarshalCertificateFromPEM(pemBytes)
			c3, e3 := cert.Recombine(cert.Version(f.Version), hs, c.PublicKey(), c.Curve())
			return fmt.Sprintf("ok %s %s %s %s %s", hlib.Hex(std), hlib.Hex(hs), rt(c, c1, e1), rt(c, c2, e2), rt(c, c3, e3))
		case "tamper":
			if len(a) != 10 {
				return "bad-op"
			}
			ver, caver := hlib.Atoi(a[1]), hlib.Atoi(a[5])
			c0, err := decodeStd(ver, bytesArg(a[3]))
			if err != nil {
				return "op-inconsistent"
			}
			ca, err := decodeStd(caver, bytesArg(a[6]))
			if err != nil {
				return "op-inconsistent"
			}
			pool := cert.NewCAPool()
			if err := pool.AddCA(ca); err != nil && !errors.Is(err, cert.ErrExpired) {
				return "op-inconsistent"
			}
			if fp, _ := ca.Fingerprint(); fp != c0.Issuer() {
				return "op-inconsistent"
			}
			var c1 cert.Certificate
			if a[2] == "hs" {
				c1, err = cert.Recombine(cert.Version(ver), bytesArg(a[4]), c0.PublicKey(), c0.Curve())
			} else {
				c1, err = decodeStd(ver, bytesArg(a[4]))
			}
			if err != nil {
				return "undecodable " + decKind(err)
			}
			if hlib.B(c1.CheckSignature(ca.PublicKey())) != a[8] {
				return "op-inconsistent"
			}
			f0, f1 := cl.FieldsOf(c0), cl.FieldsOf(c1)
			sigrel := "othersig"
			if string(f0.Signature) == string(f1.Signature) {
				sigrel = "sigsame"
			} else if tw, err := cl.SwapSig(f0.Signature); err == nil && string(tw) == string(f1.Signature) {
				sigrel = "twin"
			}
			f0.Signature, f1.Signature = nil, nil
			same := "changed"
			if f0.Desc() == f1.Desc() {
				same = "same"
			}
			if a[9] == "1" {
				fp0, _ := c0.Fingerprint()
				pool.BlocklistFingerprint(fp0)
			}
			_, verr := pool.VerifyCertificate(cl.TimeOf(a[7]), c1)
			v := "ok"
			if verr != nil {
				v = verifyKind(verr)
			}
			return fmt.Sprintf("%s %s %s", v, same, sigrel)
		case "copy":
			c, err := decodeStd(hlib.Atoi(a[1]), bytesArg(a[2]))
			if err != nil {
				return "undecodable " + decKind(err)
			}
			cp := c.Copy()
			if cl.Desc(cp) != cl.Desc(c) {
				return "differs:fields"
			}
			f1, e1 := c.Fingerprint()
			f2, e2 := cp.Fingerprint()
			if f1 != f2 || (e1 == nil) != (e2 == nil) {
				return "differs:fingerprint"
			}
			m1, _ := c.Marshal()
			m2, _ := cp.Marshal()
			h1, _ := c.MarshalForHandshakes()
			h2, _ := cp.MarshalForHandshakes()
			if string(m1) != string(m2) || string(h1) != string(h2) {
				return "differs:encoding"
			}
			if cp.Version() != c.Version() || cp.Curve() != c.Curve() || cp.IsCA() != c.IsCA() {
				return "differs:fields"
			}
			return "same"
		case "norm":
			sig := bytesArg(a[1])
			n := "err"
			if ok, err := p256.IsNormalized(sig); err == nil {
				n = hlib.B(ok)
			}
			return fmt.Sprintf("%s %s %s", n, optHex(p256.Normalize(sig)), optHex(p256.Swap(sig)))
		}
		return execPem(a) // the PEM layer: pem_test.go
	}
}

// ---- generator -------------------------------------------------------------------------------------

func p256Sig(r *hlib.Rand, k *cl.SignKey) []byte {
	h := sha256.Sum256(r.Bytes(8))
	return k.SignRaw(h[:])
}

func codecFields(r *hlib.Rand) (cl.Fields, cert.Certificate, string) {
	version := hlib.Pick(r, 1, 2, 2)
	curve := hlib.Pick(r, 0, 0, 1)
	isCA := r.Chance(1, 4)
	nb := int64(cl.Epoch) - int64(r.Intn(100000))
	na := int64(cl.Epoch) + int64(r.Intn(100000))
	switch r.Intn(10) {
	case 0:
		nb, na = 0, 0
	case 1:
		nb = -int64(r.U64() >> uint(hlib.Pick(r, 2, 20, 33, 40, 56)))
	case 2:
		na = int64(r.U64() >> uint(hlib.Pick(r, 2, 20, 33, 40, 56)))
	case 3:
		nb, na = int64(hlib.Pick(r, 127, 128, 255, 256, 32767, 32768, 8388607, 8388608)), int64(hlib.Pick(r, -128, -129, -32768, -32769, 2147483647, 2147483648))
	}
	f := cl.Fields{Version: version, Curve: curve, IsCA: isCA, NotBefore: cl.Sec(nb), NotAfter: cl.Sec(na)}
	if r.Chance(1, 8) {
		f.NotBefore = f.NotBefore.Add(time.Duration(1 + r.Intn(999999999)))
	}
	if r.Chance(1, 8) {
		f.NotAfter = f.NotAfter.Add(time.Duration(1 + r.Intn(999999999)))
	}
	nameLen := hlib.Pick(r, 0, 1, 1, 4, 4, 8, 8, 20, 127, 128, 252, 253, 254, 255, 300, 1000)
	nm := make([]byte, nameLen)
	for i := range nm {
		nm[i] = byte('a' + r.Intn(26))
	}
	if nameLen > 0 && r.Chance(1, 12) {
		copy(nm, hlib.Pick(r, "\xc3\xa9", "\xe2\x82\xac", "\xf0\x9f\x98\x80", "\xff", "\xc0\x80", "\xed\xa0\x80"))
	}
	f.Name = string(nm)
	for i, n := 0, hlib.Pick(r, 0, 0, 1, 2, 3, 40); i < n; i++ {
		g := hlib.Pick(r, "a", "b", "grp", "x y", "", "\xe2\x82\xac", "\xfe", strings.Repeat("g", 130))
		if g == "" && !r.Chance(1, 3) {
			g = "e"
		}
		f.Groups = append(f.Groups, g+fmt.Sprint(r.Intn(5)))
		if r.Chance(1, 10) {
			f.Groups[len(f.Groups)-1] = g
		}
		if r.Chance(1, 8) { // every string at and around the decoders' limits
			f.Groups[len(f.Groups)-1] = strings.Repeat("G", hlib.Pick(r, 127, 128, 252, 253, 254, 255, 256, 300, 1000))
		}
	}
	if r.Chance(1, 60) { // whole encodings around every plausible size limit below MaxCertificateSize
		for i, n := 0, hlib.Pick(r, 1100, 4090, 8190, 16380, 32760, 60000)/253; i < n; i++ {
			f.Groups = append(f.Groups, fmt.Sprintf("%04d", i)+strings.Repeat("p", 246))
		}
	}
	v6ok := version == 2 || r.Chance(1, 20)
	nn := hlib.Pick(r, 1, 1, 2, 3, 30)
	if isCA {
		nn = hlib.Pick(r, 0, 0, 1, 2)
	}
	for i := 0; i < nn; i++ {
		f.Networks = append(f.Networks, cl.Inside(r, cl.BasePrefix(r, v6ok && r.Chance(1, 3)), hlib.Pick(r, 0, 1, 8, 200)))
	}
	for i, n := 0, hlib.Pick(r, 0, 0, 1, 2, 20); i < n; i++ {
		f.Unsafe = append(f.Unsafe, cl.Inside(r, cl.BasePrefix(r, v6ok && r.Chance(1, 3)), hlib.Pick(r, 0, 1, 8)).Masked())
	}
	switch r.Intn(30) {
	case 0:
		f.Networks = append(f.Networks, f.Networks...)
	case 1:
		f.Networks = append(f.Networks, netip.MustParsePrefix("0.0.0.0/0"))
	case 2:
		f.Networks = append(f.Networks, netip.MustParsePrefix("::ffff:1.2.3.4/100"))
	case 3:
		f.Unsafe = append(f.Unsafe, netip.MustParsePrefix("0.0.0.0/0"))
	case 4:
		f.Unsafe = append(f.Unsafe, netip.MustParsePrefix("::/0"))
	case 5:
		f.Version = hlib.Pick(r, 0, 3)
	}
	f.PublicKey = cl.LeafPub(r, cert.Curve(curve))
	if r.Chance(1, 30) {
		f.PublicKey = nil
	}
	var signer cert.Certificate
	tail := ""
	if !isCA || r.Chance(1, 10) {
		sf := cl.Fields{Version: 2, Curve: curve, IsCA: true, NotBefore: cl.Sec(-1 << 62), NotAfter: cl.Sec(1 << 62), Name: "ca", PublicKey: []byte{1}}
		fp := hlib.Hex(r.Bytes(hlib.Pick(r, 32, 32, 32, 1, 40)))
		signer = &cl.Stub{F: sf, Fp: fp, SigOK: true}
		tail = fmt.Sprintf(" %s %s", sf.Desc(), fp)
	}
	return f, signer, tail
}

func mutate(r *hlib.Rand, b []byte) []byte {
	out := append([]byte{}, b...)
	if len(out) == 0 {
		return r.Bytes(1 + r.Intn(4))
	}
	switch r.Intn(7) {
	case 0:
		out[r.Intn(len(out))] ^= 1 << uint(r.Intn(8))
	case 1:
		out[r.Intn(len(out))] = byte(r.Intn(256))
	case 2:
		i := r.Intn(len(out) + 1)
		out = append(out[:i], append(r.Bytes(1+r.Intn(3)), out[i:]...)...)
	case 3:
		i := r.Intn(len(out))
		j := i + 1 + r.Intn(3)
		if j > len(out) {
			j = len(out)
		}
		out = append(out[:i], out[j:]...)
	case 4:
		out = out[:r.Intn(len(out))]
	case 5:
		out = append(out, r.Bytes(1+r.Intn(4))...)
	case 6: // early bytes carry the structure
		i := r.Intn(1 + len(out)/8)
		out[i] = byte(int(out[i]) + hlib.Pick(r, 1, -1, 2, 0x80))
	}
	return out
}

// weird hand-made encodings the decoders must treat exactly like the libraries do.
func weird(r *hlib.Rand, ver int, raw []byte) []byte {
	if ver == 1 {
		switch r.Intn(6) {
		case 0: // unknown varint field appended
			return append(append([]byte{}, raw...), 0x98, 0x06, 0x01)
		case 1: // unknown group field
			return append(append([]byte{}, raw...), 0x9b, 0x06, 0x08, 0x01, 0x9c, 0x06)
		case 2: // stray end group
			return append(append([]byte{}, raw...), 0x9c, 0x06)
		case 3: // a second (empty) details message merges
			return append(append([]byte{}, raw...), 0x0a, 0x00)
		case 4: // a second details message overriding the name
			return append(append([]byte{}, raw...), 0x0a, 0x03, 0x0a, 0x01, 'z')
		default: // fixed32 / fixed64 unknown fields, non-minimal varint
			return append(append([]byte{}, raw...), 0xa5, 0x06, 1, 2, 3, 4, 0xa1, 0x06, 1, 2, 3, 4, 5, 6, 7, 8, 0x98, 0x86, 0x00, 0x81, 0x00)
		}
	}
	switch r.Intn(3) {
	case 0: // trailing bytes after the outer SEQUENCE
		return append(append([]byte{}, raw...), r.Bytes(1+r.Intn(3))...)
	case 1: // non-minimal long-form length of the outer SEQUENCE
		if len(raw) > 2 && raw[1] < 0x80 {
			return append([]byte{raw[0], 0x81, raw[1]}, raw[2:]...)
		}
	}
	return append([]byte{}, raw...)
}

// genTamper: valid certificates under real CAs, and alterations of their encodings.
func genTamper(r *hlib.Rand, n int, emit func(string, ...any)) {
	const T0 = int64(cl.Epoch)
	for i := 0; i < n; {
		curve := cert.Curve(hlib.Pick(r, 0, 1, 1))
		key := cl.NewSignKey(r, curve)
		caver := hlib.Pick(r, 1, 2)
		caf := cl.Fields{Version: caver, Curve: int(curve), IsCA: true, NotBefore: cl.Sec(T0 - 1000), NotAfter: cl.Sec(T0 + 100000), Name: "ca", PublicKey: key.Pub}
		if r.Bool() {
			caf.Groups = []string{"a", "b", "c"}
		}
		if r.Bool() {
			caf.Networks = []netip.Prefix{netip.MustParsePrefix("10.0.0.0/8")}
		}
		caraw := cl.Craft(caf, key, nil)
		ca, err := cl.Decode(caver, caraw)
		if err != nil {
			continue
		}
		cafp, _ := ca.Fingerprint()
		for j := 0; j < 6 && i < n; j++ {
			ver := hlib.Pick(r, 1, 2, 2)
			f := cl.Fields{Version: ver, Curve: int(curve), NotBefore: cl.Sec(T0 - 500), NotAfter: cl.Sec(T0 + 50000), Issuer: cafp,
				Name: hlib.Pick(r, "host", "h", "a-longer-host-name.example"), Groups: cl.Subset(r, []string{"a", "b"}),
				Networks: []netip.Prefix{cl.Inside(r, netip.MustParsePrefix("10.0.0.0/8"), 16)}, PublicKey: cl.LeafPub(r, curve)}
			if r.Bool() {
				f.Unsafe = []netip.Prefix{netip.MustParsePrefix("10.200.0.0/16")}
				if r.Bool() {
					f.Unsafe = append(f.Unsafe, netip.MustParsePrefix("10.201.0.0/24"), netip.MustParsePrefix("10.202.3.0/24"))
				}
			}
			if r.Chance(1, 3) {
				f.Networks = append(f.Networks, cl.Inside(r, netip.MustParsePrefix("10.0.0.0/8"), 12))
			}
			raw := cl.Craft(f, key, nil)
			c0, err := cl.Decode(ver, raw)
			if err != nil {
				continue
			}
			hs, _ := c0.MarshalForHandshakes()
			now := cl.NsOf(T0+int64(r.Intn(1000)), 0)
			emit("copy %d %s", ver, hlib.Hex(raw))
			i++
			// the original's other signature form while the original is blocklisted, and the original itself
			if tw, err := cl.SwapSig(c0.Signature()); err == nil && curve == cert.Curve_P256 {
				twraw := cl.Craft(cl.FieldsOf(c0), nil, tw)
				if tc, err := decodeStd(ver, twraw); err == nil {
					emit("tamper %d std %s %s %d %s %s %s 1", ver, hlib.Hex(raw), hlib.Hex(twraw), caver, hlib.Hex(caraw), now, hlib.B(tc.CheckSignature(ca.PublicKey())))
					emit("copy %d %s", ver, hlib.Hex(twraw))
					i += 2
				}
			}
			for k := 0; k < 8 && i < n; k++ {
				i++
				form, base := "std", raw
				if r.Chance(1, 3) {
					form, base = "hs", hs
				}
				var alt []byte
				switch r.Intn(12) {
				case 0:
					alt = base // unaltered
				case 1: // the other signature form (P-256) / a bit flip inside the signature (25519)
					if tw, err := cl.SwapSig(c0.Signature()); err == nil && curve == cert.Curve_P256 {
						alt = cl.Craft(cl.FieldsOf(c0), nil, tw)
						form = "std"
					} else {
						alt = mutate(r, base)
					}
				case 2: // same content signed again by somebody without the CA key
					alt = cl.Craft(cl.FieldsOf(c0), cl.NewSignKey(r, curve), nil)
					form = "std"
				case 3: // changed content, signed by somebody else
					g := cl.FieldsOf(c0)
					g.Name = "evil"
					alt = cl.Craft(g, cl.NewSignKey(r, curve), nil)
					form = "std"
				case 4: // changed content with the old signature
					g := cl.FieldsOf(c0)
					switch r.Intn(4) {
					case 0:
						g.Groups = append(g.Groups, "c")
					case 1:
						g.NotAfter = g.NotAfter.Add(time.Hour)
					case 2:
						g.Networks = []netip.Prefix{netip.MustParsePrefix("10.0.0.1/8")}
					default:
						g.PublicKey = cl.LeafPub(r, curve)
					}
					alt = cl.Craft(g, nil, c0.Signature())
					form = "std"
				case 5:
					alt = weird(r, ver, base)
				default:
					alt = mutate(r, base)
				}
				var c1 cert.Certificate
				if form == "hs" {
					c1, err = cert.Recombine(cert.Version(ver), alt, c0.PublicKey(), c0.Curve())
				} else {
					c1, err = decodeStd(ver, alt)
				}
				sig := "0"
				if err == nil {
					sig = hlib.B(c1.CheckSignature(ca.PublicKey()))
				}
				block := hlib.B(r.Chance(1, 3))
				emit("tamper %d %s %s %s %d %s %s %s %s", ver, form, hlib.Hex(raw), hlib.Hex(alt), caver, hlib.Hex(caraw), now, sig, block)
			}
		}
	}
}

func allValid(gs []string) bool {
	for _, g := range gs {
		if !utf8.ValidString(g) {
			return false
		}
	}
	return true
}

func gen(r *hlib.Rand, n int, tier, profile string, emit func(string, ...any)) {
	if profile == "C02" {
		genTwin(r, n, tier, emit) // twin_test.go
		genTamper(r, n, emit)
		return
	}
	keys := []*cl.SignKey{cl.NewSignKey(r, cert.Curve_P256), cl.NewSignKey(r, cert.Curve_P256)}
	for i := 0; i < n; i++ {
		f, signer, tail := codecFields(r)
		var sig []byte
		if f.Curve == 1 {
			sig = p256Sig(r, keys[r.Intn(2)])
			if r.Chance(1, 25) {
				sig = mutate(r, sig)
			}
		} else {
			sig = r.Bytes(64)
		}
		if r.Chance(1, 40) {
			sig = nil
		}
		st := "stub"
		if signer == nil {
			st = "none"
		}
		if f.Version == 2 && len(sig) > 0 && r.Chance(1, 30) {
			// the whole encoding at and around the decoder's MaxCertificateSize: the last group is stretched until the
			// hand-made encoding of these fields has the length aimed at
			target := hlib.Pick(r, cert.MaxCertificateSize-1, cert.MaxCertificateSize, cert.MaxCertificateSize+1, cert.MaxCertificateSize+2,
				cert.MaxCertificateSize+500, 70000, 140000, cert.MaxCertificateSize-300)
			g := f
			if signer != nil {
				g.Issuer, _ = signer.Fingerprint()
			}
			pad := 300
			for k := 0; k < 6; k++ {
				g.Groups = append(append([]string{}, f.Groups...), strings.Repeat("z", pad))
				d := target - len(cl.Craft(g, nil, sig))
				if d == 0 || pad+d < 1 {
					break
				}
				pad += d
			}
			f.Groups = g.Groups
		}
		emit("issue %s %s %s%s", hlib.Hex(sig), st, f.Desc(), tail)
		// the same fields hand-encoded without the signer's validation: what the decoders make of inputs
		// the signer refuses (empty / over-long names, empty groups, duplicate or 4in6 networks, …)
		if (f.Version == 1 || f.Version == 2) && r.Chance(1, 2) {
			g := f
			g.Issuer = hlib.Hex(r.Bytes(32))
			if g.Version == 1 {
				var v4 []netip.Prefix
				for _, n := range append(append([]netip.Prefix{}, g.Networks...), g.Unsafe...) {
					if n.Addr().Is4() {
						v4 = append(v4, n)
					}
				}
				g.Networks, g.Unsafe = v4, nil
			}
			if g.Version == 2 || (utf8.ValidString(g.Name) && allValid(g.Groups)) {
				craftSig := sig
				if len(craftSig) == 0 {
					craftSig = []byte{1}
				}
				emit("dec %d std 0 - %s", g.Version, hlib.Hex(cl.Craft(g, nil, craftSig)))
			}
		}
		c, err := doIssue(sig, signer, f)
		if err != nil {
			if r.Chance(1, 3) {
				emit("dec %d std 0 - %s", hlib.Pick(r, 1, 2), hlib.Hex(r.Bytes(r.Intn(40))))
			}
			continue
		}
		std, err1 := c.Marshal()
		hs, err2 := c.MarshalForHandshakes()
		if err1 != nil || err2 != nil {
			continue
		}
		ver := f.Version
		pub := hlib.Hex(c.PublicKey())
		emit("dec %d std 0 - %s", ver, hlib.Hex(std))
		emit("dec %d hs %d %s %s", ver, f.Curve, pub, hlib.Hex(hs))
		emit("copy %d %s", ver, hlib.Hex(std))
		for k, m := 0, hlib.Pick(r, 1, 2, 4); k < m; k++ {
			switch r.Intn(8) {
			case 0:
				emit("dec %d hs %d %s %s", ver, f.Curve, pub, hlib.Hex(std)) // key present in the handshake form
			case 1:
				emit("dec %d hs %d %s %s", ver, 1-f.Curve, pub, hlib.Hex(hs)) // other curve expected
			case 2:
				emit("dec %d hs %d %s %s", hlib.Pick(r, 0, 3, 1, 2), f.Curve, hlib.Pick(r, "nil", "-", pub), hlib.Pick(r, "nil", "-", hlib.Hex(hs)))
			case 3:
				emit("dec %d std 0 - %s", hlib.Pick(r, 1, 2, 3), hlib.Hex(std)) // possibly the other version's decoder
			case 4:
				emit("dec %d std 0 - %s", ver, hlib.Hex(weird(r, ver, std)))
			case 5:
				emit("dec %d hs %d %s %s", ver, f.Curve, pub, hlib.Hex(mutate(r, hs)))
			default:
				emit("dec %d std 0 - %s", ver, hlib.Hex(mutate(r, std)))
			}
		}
		if f.Curve == 1 && r.Chance(1, 2) {
			emit("norm %s", hlib.Hex(sig))
			emit("norm %s", hlib.Hex(mutate(r, sig)))
		}
	}
	// p256 boundary scalars (as S and as R)
	for _, sig := range cl.BoundarySigs(r) {
		emit("norm %s", hlib.Hex(sig))
	}
	genPem(r, n, emit) // the PEM layer: pem_test.go
}

func TestEngine(t *testing.T) {
	hlib.Run(t, hlib.Engine{Name: "certcodec", Gen: gen, NewExec: newExec})
}
