// PEM layer of the `certcodec` engine (C03): cert/pem.go and the encoding/pem + encoding/base64 behaviour it
// relies on, against the Lean model Model/CertPem.lean.
//
//	pemraw <text>                 -> block <type hex> <h0|h1> <bytes hex> <rest hex> | none <rest hex>     (pem.Decode itself)
//	pemenc cert <ver> <std>       -> <MarshalPEM text hex> | undecodable      (decode the standard encoding, then MarshalPEM)
//	pemenc pub|spub|priv|spriv <curve> <key>  -> <text hex> | nil            (the four Marshal…ToPEM functions)
//	pemdec <text>                 -> ok CERT <rest hex> | err:<kind> <rest hex>                (UnmarshalCertificateFromPEM)
//	pemkey pub|spub|priv|spriv <text> -> ok <curve> <key hex> <rest hex> | err:<kind> <rest hex|nil>
//	pemrt <ver> <std> <suffix>    -> same|fields|fp|err:<kind> <rest hex>    (decode std, MarshalPEM, append suffix, read back)
//	pembundle <text>              -> <n> <v:name hex>… end|err:<kind>        (UnmarshalCertificateFromPEM until the rest is empty)
package certcodec

import (
	"encoding/base64"
	"encoding/pem"
	"errors"
	"fmt"
	"strings"

	"github.com/slackhq/nebula/cert"
	cl "verifharness/certlib"
	"verifharness/hlib"
)

func pemErrKind(err error) string {
	if errors.Is(err, cert.ErrInvalidPEMBlock) {
		return "err:invalid-pem"
	}
	return decKind(err)
}

func keyErrKind(err error) string {
	msg := err.Error()
	switch {
	case errors.Is(err, cert.ErrPrivateKeyEncrypted):
		return "err:encrypted"
	case strings.HasPrefix(msg, "input did not contain a valid PEM"):
		return "err:invalid-pem"
	case strings.Contains(msg, "banner"):
		return "err:banner"
	case strings.HasPrefix(msg, "key was not"):
		return "err:length"
	}
	return "err:other:" + strings.ReplaceAll(msg, " ", "_")
}

func restTok(b []byte) string {
	if b == nil {
		return "nil"
	}
	return hlib.Hex(b)
}

func execPem(a []string) string {
	switch a[0] {
	case "pemraw":
		if len(a) != 2 {
			return "bad-op"
		}
		p, rest := pem.Decode(bytesArg(a[1]))
		if p == nil {
			return "none " + hlib.Hex(rest)
		}
		return fmt.Sprintf("block %s h%s %s %s", hlib.Hex([]byte(p.Type)), hlib.B(len(p.Headers) > 0), hlib.Hex(p.Bytes), hlib.Hex(rest))
	case "pemenc":
		if len(a) != 4 {
			return "bad-op"
		}
		n, b := hlib.Atoi(a[2]), bytesArg(a[3])
		var out []byte
		switch a[1] {
		case "cert":
			c, err := decodeStd(n, b)
			if err != nil {
				return "undecodable"
			}
			out, err = c.MarshalPEM()
			if err != nil {
				return "err:marshal"
			}
			return hlib.Hex(out)
		case "pub":
			out = cert.MarshalPublicKeyToPEM(cert.Curve(n), b)
		case "spub":
			out = cert.MarshalSigningPublicKeyToPEM(cert.Curve(n), b)
		case "priv":
			out = cert.MarshalPrivateKeyToPEM(cert.Curve(n), b)
		case "spriv":
			out = cert.MarshalSigningPrivateKeyToPEM(cert.Curve(n), b)
		default:
			return "bad-op"
		}
		if out == nil {
			return "nil"
		}
		return hlib.Hex(out)
	case "pemdec":
		if len(a) != 2 {
			return "bad-op"
		}
		c, rest, err := cert.UnmarshalCertificateFromPEM(bytesArg(a[1]))
		if err != nil {
			return pemErrKind(err) + " " + hlib.Hex(rest)
		}
		return "ok " + cl.Desc(c) + " " + hlib.Hex(rest)
	case "pemkey":
		if len(a) != 3 {
			return "bad-op"
		}
		var k, rest []byte
		var curve cert.Curve
		var err error
		switch a[1] {
		case "pub":
			k, rest, curve, err = cert.UnmarshalPublicKeyFromPEM(bytesArg(a[2]))
		case "spub":
			k, rest, curve, err = cert.UnmarshalSigningPublicKeyFromPEM(bytesArg(a[2]))
		case "priv":
			k, rest, curve, err = cert.UnmarshalPrivateKeyFromPEM(bytesArg(a[2]))
		case "spriv":
			k, rest, curve, err = cert.UnmarshalSigningPrivateKeyFromPEM(bytesArg(a[2]))
		default:
			return "bad-op"
		}
		if err != nil {
			return keyErrKind(err) + " " + restTok(rest)
		}
		return fmt.Sprintf("ok %d %s %s", curve, hlib.Hex(k), hlib.Hex(rest))
	case "pemrt":
		if len(a) != 4 {
			return "bad-op"
		}
		c, err := decodeStd(hlib.Atoi(a[1]), bytesArg(a[2]))
		if err != nil {
			return "undecodable"
		}
		text, err := c.MarshalPEM()
		if err != nil {
			return "err:marshal"
		}
		c2, rest, err := cert.UnmarshalCertificateFromPEM(append(text, bytesArg(a[3])...))
		return rt(c, c2, err) + " " + hlib.Hex(rest)
	case "pembundle":
		if len(a) != 2 {
			return "bad-op"
		}
		rest := bytesArg(a[1])
		var out []string
		for len(rest) > 0 {
			var c cert.Certificate
			var err error
			c, rest, err = cert.UnmarshalCertificateFromPEM(rest)
			if err != nil {
				return fmt.Sprintf("%d %s%s", len(out), strings.Join(append(out, ""), " "), pemErrKind(err))
			}
			out = append(out, fmt.Sprintf("%d:%s", c.Version(), hlib.Hex([]byte(c.Name()))))
		}
		return fmt.Sprintf("%d %send", len(out), strings.Join(append(out, ""), " "))
	}
	return "bad-op"
}

// ---- generator -------------------------------------------------------------------------------------

var pemBanners = []string{cert.CertificateBanner, cert.CertificateV2Banner, cert.X25519PrivateKeyBanner, cert.X25519PublicKeyBanner,
	cert.P256PrivateKeyBanner, cert.P256PublicKeyBanner, cert.EncryptedECDSAP256PrivateKeyBanner, cert.ECDSAP256PrivateKeyBanner,
	cert.ECDSAP256PublicKeyBanner, cert.EncryptedEd25519PrivateKeyBanner, cert.Ed25519PrivateKeyBanner, cert.Ed25519PublicKeyBanner}

var pemKey *cl.SignKey

// pemIssued returns a small issued certificate (standard encoding) of the given version.
func pemIssued(r *hlib.Rand, version int) []byte {
	if pemKey == nil {
		pemKey = cl.NewSignKey(r, cert.Curve_P256)
	}
	for {
		curve := hlib.Pick(r, 0, 0, 1)
		f := cl.Fields{Version: version, Curve: curve, IsCA: r.Chance(1, 4), NotBefore: cl.Sec(int64(cl.Epoch) - int64(r.Intn(1000))),
			NotAfter: cl.Sec(int64(cl.Epoch) + int64(r.Intn(100000))), PublicKey: cl.LeafPub(r, cert.Curve(curve))}
		nm := make([]byte, hlib.Pick(r, 1, 3, 8, 20, 40, 100, 253))
		for i := range nm {
			nm[i] = byte('a' + r.Intn(26))
		}
		f.Name = string(nm)
		for i, n := 0, hlib.Pick(r, 0, 0, 1, 2, 5); i < n; i++ {
			f.Groups = append(f.Groups, fmt.Sprintf("g%d", r.Intn(50)))
		}
		nn := hlib.Pick(r, 1, 1, 2)
		if version == 1 {
			nn = 1
		}
		for i := 0; i < nn; i++ {
			f.Networks = append(f.Networks, cl.Inside(r, cl.BasePrefix(r, version == 2 && r.Chance(1, 3)), 8))
		}
		sig := r.Bytes(64)
		if curve == 1 {
			sig = p256Sig(r, pemKey)
		}
		var signer cert.Certificate
		if !f.IsCA {
			sf := cl.Fields{Version: 2, Curve: curve, IsCA: true, NotBefore: cl.Sec(-1 << 62), NotAfter: cl.Sec(1 << 62), Name: "ca", PublicKey: []byte{1}}
			signer = &cl.Stub{F: sf, Fp: hlib.Hex(r.Bytes(32)), SigOK: true}
		}
		c, err := doIssue(sig, signer, f)
		if err != nil {
			continue
		}
		std, err := c.Marshal()
		if err != nil {
			continue
		}
		return std
	}
}

// b64Lines is base64 of b wrapped at `width` columns with the given line ending.
func b64Lines(b []byte, width int, eol string) string {
	s := base64.StdEncoding.EncodeToString(b)
	var sb strings.Builder
	for len(s) > width {
		sb.WriteString(s[:width] + eol)
		s = s[width:]
	}
	if len(s) > 0 {
		sb.WriteString(s + eol)
	}
	return sb.String()
}

// handPEM writes a block by hand, with the deviations encoding/pem's Decode has to cope with.
func handPEM(r *hlib.Rand, banner string, b []byte) string {
	eol := hlib.Pick(r, "\n", "\n", "\n", "\r\n")
	begin, end := banner, banner
	body := b64Lines(b, hlib.Pick(r, 64, 64, 64, 76, 1, 4, 1000), eol)
	headers := ""
	switch r.Intn(24) {
	case 0:
		end = hlib.Pick(r, banner+"X", "X"+banner, "", strings.ToLower(banner), pemBanners[r.Intn(len(pemBanners))])
	case 1:
		headers = "Proc-Type: 4,ENCRYPTED" + eol + "DEK-Info: x" + eol + eol
	case 2:
		headers = "k: v" + eol // no blank line after the header
	case 3:
		body = strings.Replace(body, eol, " "+eol, 1) // trailing blank on a base64 line
	case 4:
		body = " \t" + body
	case 5:
		if len(body) > 4 {
			body = body[:2] + hlib.Pick(r, "-", "=", ":", "*", "\x00", "é") + body[3:]
		}
	case 6:
		body = strings.TrimRight(body, "=\r\n") + eol // padding removed
	case 7:
		body = strings.TrimRight(body, "\r\n") + hlib.Pick(r, "=", "==", "A", "AA=") + eol
	case 8:
		begin = banner + hlib.Pick(r, " ", "\t", "-", ":")
	case 9:
		return "-----BEGIN " + begin + "-----" + eol + body + "-----END " + end + "-----" + hlib.Pick(r, "", " ", "x", " \t"+eol+"tail", "-")
	case 10:
		return "-----BEGIN " + begin + "-----" + eol + body // no END line
	case 11:
		return "-----BEGIN " + begin + "-----" + hlib.Pick(r, " ", "x", "") + body + "-----END " + end + "-----" + eol
	case 12:
		return "-----BEGIN " + begin + eol + body + "-----END " + end + "-----" + eol
	case 13:
		return "-----BEGIN " + begin + "-----" + eol + body + "-----END " + end + eol
	case 14:
		return "----BEGIN " + begin + "-----" + eol + body + "-----END " + end + "-----" + eol
	case 15:
		// a BEGIN line without END before the real block: Decode takes the last BEGIN before the first END
		return "-----BEGIN " + pemBanners[r.Intn(len(pemBanners))] + "-----" + eol + "QUJD" + eol + "-----BEGIN " + begin + "-----" + eol + body + "-----END " + end + "-----" + eol
	case 16:
		return "-----BEGIN " + begin + "-----" + eol + "k: -----END " + end + "-----" + eol + eol + body + "-----END " + end + "-----" + eol
	case 17:
		body = "" // an empty block
	}
	return "-----BEGIN " + begin + "-----" + eol + headers + body + "-----END " + end + "-----" + eol
}

func pemGarbage(r *hlib.Rand) string {
	return hlib.Pick(r, "", "", "\n", "garbage\n", "garbage", "# comment\r\n", "-----BEGIN X-----\n", "-----END X-----\n", "\n-----END ", " ",
		"-----BEGIN NEBULA CERTIFICATE-----\n", string(r.Bytes(r.Intn(12))))
}

func genPem(r *hlib.Rand, n int, emit func(string, ...any)) {
	hexs := func(s string) string { return hlib.Hex([]byte(s)) }
	// encoding: every payload length around the 3-byte quantum and the 48-byte (64-column) line
	for _, l := range []int{0, 1, 2, 3, 4, 5, 47, 48, 49, 50, 95, 96, 97, 143, 144, 145} {
		b := r.Bytes(l)
		emit("pemenc pub %d %s", hlib.Pick(r, 0, 1), hlib.Hex(b))
		emit("pemraw %s", hlib.Hex(pem.EncodeToMemory(&pem.Block{Type: pemBanners[r.Intn(len(pemBanners))], Bytes: b})))
	}
	for _, kind := range []string{"pub", "spub", "priv", "spriv"} {
		for curve := 0; curve < 3; curve++ {
			emit("pemenc %s %d %s", kind, curve, hlib.Hex(r.Bytes(hlib.Pick(r, 32, 64, 65))))
		}
		// every banner under every reader, at the lengths the readers distinguish
		for _, b := range pemBanners {
			for _, l := range []int{32, 64, 65, hlib.Pick(r, 0, 31, 33, 63, 66)} {
				emit("pemkey %s %s", kind, hlib.Hex(pem.EncodeToMemory(&pem.Block{Type: b, Bytes: r.Bytes(l)})))
			}
		}
	}
	for i, k := 0, 40+n/4; i < k; i++ {
		ver := hlib.Pick(r, 1, 2, 2)
		std := pemIssued(r, ver)
		banner := map[int]string{1: cert.CertificateBanner, 2: cert.CertificateV2Banner}[ver]
		good := string(pem.EncodeToMemory(&pem.Block{Type: banner, Bytes: std}))
		switch r.Intn(10) {
		case 0:
			emit("pemenc cert %d %s", ver, hlib.Hex(std))
		case 1, 2:
			// round trip with trailing data (the rest must come back untouched)
			emit("pemrt %d %s %s", ver, hlib.Hex(std), hexs(hlib.Pick(r, "", "\n", "tail", "tail\n", " \n", good, good[:len(good)/2], "-----BEGIN ", "\r\n")))
		case 3, 4:
			// bundles: several blocks, garbage between / before / after, one bad block in the middle
			var sb strings.Builder
			clean := r.Chance(1, 3) // a well-formed bundle, as `nebula-cert ca` / cat would write it
			for j, m := 0, hlib.Pick(r, 1, 2, 3, 5); j < m; j++ {
				if clean {
					s := pemIssued(r, hlib.Pick(r, 1, 2))
					c, _ := decodeStd(map[bool]int{true: 1, false: 2}[s[0] == 0x0a], s)
					if c != nil {
						t, _ := c.MarshalPEM()
						sb.Write(t)
					}
					continue
				}
				sb.WriteString(pemGarbage(r))
				v := hlib.Pick(r, 1, 2)
				s := pemIssued(r, v)
				bn := map[int]string{1: cert.CertificateBanner, 2: cert.CertificateV2Banner}[v]
				switch r.Intn(8) {
				case 0:
					bn = pemBanners[r.Intn(len(pemBanners))]
				case 1:
					s = mutate(r, s)
				}
				if r.Chance(1, 5) {
					sb.WriteString(handPEM(r, bn, s))
				} else {
					sb.WriteString(string(pem.EncodeToMemory(&pem.Block{Type: bn, Bytes: s})))
				}
			}
			if !clean {
				sb.WriteString(pemGarbage(r))
			}
			emit("pembundle %s", hexs(sb.String()))
			if r.Bool() {
				emit("pemdec %s", hexs(sb.String()))
			}
		case 5:
			// wrong / foreign banners around valid bytes
			bn := hlib.Pick(r, pemBanners[r.Intn(len(pemBanners))], "NEBULA CERTIFICATE V3", "NEBULA CERTIFICATE ", "nebula certificate", "CERTIFICATE", "")
			emit("pemdec %s", hlib.Hex(pem.EncodeToMemory(&pem.Block{Type: bn, Bytes: std})))
		case 6:
			// headers (encoding/pem accepts them; nebula ignores them)
			emit("pemdec %s", hlib.Hex(pem.EncodeToMemory(&pem.Block{Type: banner, Bytes: std, Headers: map[string]string{"Proc-Type": "4,ENCRYPTED", "x": "y"}})))
		default:
			t := pemGarbage(r) + handPEM(r, hlib.Pick(r, banner, banner, banner, pemBanners[r.Intn(len(pemBanners))]), std) + pemGarbage(r)
			emit("pemdec %s", hexs(t))
			if r.Bool() {
				emit("pemraw %s", hexs(t))
			}
		}
	}
	// pem.Decode on short texts assembled from its own markers
	parts := []string{"-----BEGIN ", "-----END ", "-----", "\n", "\r\n", "A", "QUJD", "QQ==", "=", ":", " ", "X", "NEBULA CERTIFICATE", "\t", "k: v\n"}
	for i, k := 0, 60+n/3; i < k; i++ {
		var sb strings.Builder
		if r.Bool() {
			// a skeleton with one or two slots replaced by random parts
			sk := []string{"-----BEGIN ", "X", "-----", "\n", "QUJD", "\n", "-----END ", "X", "-----", "\n", "A"}
			for k, m := 0, hlib.Pick(r, 0, 1, 1, 2); k < m; k++ {
				sk[r.Intn(len(sk))] = parts[r.Intn(len(parts))]
			}
			if r.Chance(1, 4) {
				at := r.Intn(len(sk))
				sk = append(sk[:at], append([]string{parts[r.Intn(len(parts))]}, sk[at:]...)...)
			}
			sb.WriteString(strings.Join(sk, ""))
		} else {
			for j, m := 0, 2+r.Intn(14); j < m; j++ {
				sb.WriteString(parts[r.Intn(len(parts))])
			}
		}
		emit("pemraw %s", hexs(sb.String()))
	}
}
