import Nebula.Lemmas.CAPool
open Nebula.Net Nebula.Cert Nebula.Spec.Trust

def exK : Crypto where
  fingerprint c := some (if c.isCA then "ca01" else "1eaf")
  altFingerprint c := some (if c.curve = 1 then "a1f0" else "")
  checkSig _ key := key == [7]

def exCA : Cert :=
  { version := 2, curve := 1, name := [99], networks := [⟨⟨.v4, 0x0a000000⟩, 8⟩],
    unsafeNetworks := [], groups := [[1], [2]], isCA := true, notBefore := 100, notAfter := 900, issuer := "",
    publicKey := [7], signature := [1] }

def exLeaf : Cert :=
  { version := 2, curve := 1, name := [104], networks := [⟨⟨.v4, 0x0a000001⟩, 24⟩],
    unsafeNetworks := [⟨⟨.v4, 0xc0a80000⟩, 16⟩], groups := [[2]], isCA := false, notBefore := 100, notAfter := 900,
    issuer := "ca01", publicKey := [8], signature := [2] }

def exPool : Pool := (({} : Pool).addCA exK 0 exCA).1

example : exPool.cas.lookup "ca01" = some exCA := by decide
example : exCA.expired 100 = false := by decide
example : exK.checkSig exLeaf exCA.publicKey = true := by decide
example : checkCA exCA exLeaf = none := by decide
example : (exPool.verify exK exLeaf 100 "1eaf" "").toBool = true := by decide
example : (exPool.verifyCertificate exK 100 exLeaf).toBool = true := by decide
