import Nebula.Lemmas.PkiReload
open Nebula.Net Nebula.Cert Nebula.Pki Nebula.Lemmas.PkiReload
def addsV2NextToV1 (cur new : CertState) : Prop := cur.v2 = none ∧ new.v1.isSome ∧ new.v2.isSome
/-- What passing the reload guards implies for two well-formed states. -/
theorem guards_preserve_identity (cur new : CertState) (hc : WF cur) (hn : WF new)
    (h : reloadGuards cur new = none) :
    new.curve = cur.curve ∧ new.networks.head? = cur.networks.head? ∧
    (¬ addsV2NextToV1 cur new → new.networks = cur.networks) := by
  obtain ⟨c1, c2, ci, cn⟩ := cur
  obtain ⟨n1, n2, ni, nn⟩ := new
  have hcn := hc.nets; have hnn := hn.nets
  have hcp := hc.pair; have hnp := hn.pair
  have hcs := hc.some_cert; have hns := hn.some_cert
  simp only at hcn hnn hcp hnp hcs hns
  unfold reloadGuards at h
  unfold CertState.curve addsV2NextToV1
  cases c1 <;> cases c2 <;> cases n1 <;> cases n2 <;> simp only [] at h hcn hnn hcs hns ⊢ <;>
    simp_all
  all_goals (repeat' split at h)
  all_goals try (cases h; done)
  all_goals try (rename_i hq; repeat' split at hq)
  all_goals try (rename_i hq; cases hq; done)
  all_goals simp_all

