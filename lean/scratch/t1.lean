import Nebula.Model.ConnMgr
import Nebula.Spec.ConnMgr
open Nebula.ConnMgr Nebula.Spec.ConnMgr
theorem decision_eq_policy (i : In) : (trafficDecision i).decision = policy i := by
  obtain ⟨found, cert, di, hasCS, counter, isMain, inT, outT, pd, dropI, idle, timeout, swap⟩ := i
  simp only [trafficDecision, policy, exhausted, inactive, isInactive, isInvalidCertificate, certDemandsClose]
  by_cases h1 : rejectAfter ≤ counter <;> by_cases h2 : idle < timeout <;>
    cases found <;> cases cert <;> simp [h1, h2] <;> grind
