import Nebula.Lemmas.Trust
open Nebula.Net Nebula.Cert Nebula.Spec.Trust Nebula.Lemmas.Trust

/-- Full (non-cached) `verify` succeeds exactly under the conjunction of its guards. -/
theorem verify_full_ok_iff (K : Crypto) (p : Pool) (c : Cert) (t : Int) (fp : String) (s : String) :
    p.verify K c t fp "" = .ok s ↔
      fp ∉ p.block ∧ c.issuer ≠ "" ∧ s = c.issuer ∧ ∃ ca, p.cas.lookup c.issuer = some ca ∧ ca.curve = c.curve ∧
        ca.expired t = false ∧ c.expired t = false ∧ K.checkSig c ca.publicKey = true ∧ checkCA ca c = none := by
  unfold Pool.verify Pool.isBlocklisted
  by_cases hb : fp ∈ p.block
  · simp [hb]
  · have hb' : p.block.contains fp = false := by simpa using hb
    simp only [hb', Bool.false_eq_true, if_false]
    by_cases hi : c.issuer = ""
    · simp [hi]
    · simp only [hi, if_false]
      cases hl : p.cas.lookup c.issuer with
      | none => simp
      | some ca =>
        simp only [Option.some.injEq, exists_eq_left']
        by_cases hc : ca.curve = c.curve
        · simp only [hc, ne_eq, not_true_eq_false, if_false]
          cases he1 : ca.expired t
          · cases he2 : c.expired t
            · simp only [Bool.false_eq_true, if_false]
              cases hs : K.checkSig c ca.publicKey
              · simp [hb]
              · cases hk : checkCA ca c
                · simp [hb, hi, eq_comm]
                · simp [hb]
            · simp [hb]
          · simp [hb]
        · simp [hc, hb]
