/-
C23: the reference kernel segmenter and the acceptance predicates applied to what the coalescer writes
(`Nebula.Coalesce.Wr`, the calls a `tio.GSOWriter` receives).
-/
import Nebula.Model.Coalesce
import Nebula.Spec.KernelGSO

namespace Nebula.Spec.KernelGSO
open Nebula.Coalesce

/-- what the tun device delivers to the host stack for one write -/
def kernelSeg : Wr → List Bytes
  | .write b => [b]
  | .gso h t ps tcp => kernelSegGSO h t ps tcp

/-- every offloaded write of the list is acceptable to `tio.Offload.WriteGSO` and the kernel -/
def writeGeometryOk : Wr → Bool
  | .write _ => true
  | .gso h t ps tcp => geometryOk h t ps tcp

def writeSeedOk : Wr → Bool
  | .write _ => true
  | .gso h t ps tcp => seedOk h t ps tcp

end Nebula.Spec.KernelGSO
