/-
C39 — what the property demands of a node's relay state and forwarding decisions, written directly over
the observable state (independent of the handlers in `Model/Relay.lean`).  Core Lean only.

"A node forwards relayed traffic only when it is configured as a relay, only between the two peers that
negotiated that relay, and only once the onward leg is established; it never forwards to a third peer or
to itself.  Relay state changes only through valid transitions, and relay indexes disappear with the
tunnel that owns them."
-/
import Nebula.Model.Relay

namespace Nebula.Spec.Relay
open Nebula.Relay Nebula.Gen

/-- May a relay packet that was authenticated by the tunnel `srcHid` and carries relay index `idx` be
forwarded to the hostinfo `tid` with outer relay index `outIdx`?
* the node is configured as a relay;
* `idx` names a Forwarding record `r` of the *sending* tunnel (the pair is fixed by the record);
* the packet goes to a tunnel `t` whose certified addresses contain `r.peerAddr` (not a third peer),
  and `r.peerAddr` is not one of the node's own addresses (not itself);
* the onward leg is established: `t` holds an Established Forwarding record `tr` for one of the
  sender's *certified* addresses, and `outIdx` is that record's remote index. -/
def okForward (n : Node) (srcHid idx tid outIdx : Nat) : Bool :=
  n.amRelay &&
  n.hosts.any (fun s => s.id == srcHid && s.recs.any (fun r =>
    r.localIndex == idx && r.type == nebula_ForwardingType && !n.myAddrs.contains r.peerAddr &&
    n.hosts.any (fun t => t.id == tid && t.vpnAddrs.contains r.peerAddr && t.recs.any (fun tr =>
      s.vpnAddrs.contains tr.peerAddr && tr.state == nebula_Established &&
      tr.type == nebula_ForwardingType && tr.remoteIndex == outIdx))))

/-- Forwarding records never point at the node itself. -/
def noSelfRecords (n : Node) : Bool :=
  n.hosts.all (fun h => h.recs.all (fun r => !(r.type == nebula_ForwardingType) || !n.myAddrs.contains r.peerAddr))

/-- Every entry of `hm.Relays` names a live hostinfo that holds a record with that local index. -/
def relaysOwned (n : Node) : Bool :=
  n.relays.all (fun p => n.hosts.any (fun h => h.id == p.2 && h.recs.any (fun r => r.localIndex == p.1)))

/-- No entry of `hm.Relays` is owned by hostinfo `hid`. -/
def noIndexOf (n : Node) (hid : Nat) : Bool := n.relays.all (fun p => !(p.2 == hid))

/-- Every Forwarding record of `n'` already existed (same hostinfo, same local index, Forwarding) in `n`,
unless `n` was configured as a relay. -/
def newForwardingNeedsAmRelay (n n' : Node) : Bool :=
  n.amRelay ||
  n'.hosts.all (fun h' => h'.recs.all (fun r' => !(r'.type == nebula_ForwardingType) ||
    n.hosts.any (fun h => h.id == h'.id && h.recs.any (fun r => r.localIndex == r'.localIndex && r.type == nebula_ForwardingType))))

/-- The identity of a record (type, peer address) never changes while its hostinfo lives. -/
def identityStable (n n' : Node) : Bool :=
  n'.hosts.all (fun h' => h'.recs.all (fun r' =>
    n.hosts.all (fun h => !(h.id == h'.id) || h.recs.all (fun r => !(r.localIndex == r'.localIndex) ||
      (r.type == r'.type && r.peerAddr == r'.peerAddr)))))

def validState (s : Nat) : Bool :=
  s == nebula_Requested || s == nebula_PeerRequested || s == nebula_Established || s == nebula_Disestablished

/-- States are the four defined ones, and no existing record (re-)enters `PeerRequested`: that state is
only ever the initial state of the requester-side record on a forwarding node. -/
def statesValid (n n' : Node) : Bool :=
  n'.hosts.all (fun h' => h'.recs.all (fun r' => validState r'.state &&
    n.hosts.all (fun h => !(h.id == h'.id) || h.recs.all (fun r => !(r.localIndex == r'.localIndex) ||
      r.state == r'.state || !(r'.state == nebula_PeerRequested)))))


-- ---- "relay indexes disappear with the tunnel that owns them"

/-- every key of `hm.Relays` is owned by a hostinfo that is in the hostmap now. -/
def relayOwnersLive (n : Node) : Bool := n.relays.all (fun p => n.hosts.any (fun h => h.id == p.2))

/-- every key of `hm.Relays` is listed in its (live) owner's relay state. -/
def relayIndexInOwnerState (n : Node) : Bool :=
  n.relays.all (fun p => n.hosts.all (fun h => !(h.id == p.2) || h.recs.any (fun r => r.localIndex == p.1)))

/-- the other direction: every record of a live hostinfo is registered in `hm.Relays` under that hostinfo. -/
def stateIndexesRegistered (n : Node) : Bool :=
  n.hosts.all (fun h => h.recs.all (fun r => n.relays.any (fun p => p.1 == r.localIndex && p.2 == h.id)))

def relaysAndStateAgree (n : Node) : Bool :=
  relayOwnersLive n && relayIndexInOwnerState n && stateIndexesRegistered n

end Nebula.Spec.Relay
