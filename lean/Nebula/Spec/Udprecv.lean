/-
Specification for C27 (independent of the model): what "split back exactly" means, and what a
well-formed ancillary buffer carries.  Core Lean only.
-/
namespace Nebula.Spec.Udprecv

/-- Reference splitting: consecutive pieces of `seg` elements, the last possibly shorter. -/
def chunks {α : Type} (seg : Nat) (l : List α) : List (List α) :=
  if 0 < seg ∧ 0 < l.length then l.take seg :: chunks seg (l.drop seg) else []
termination_by l.length
decreasing_by simp only [List.length_drop]; omega

/-- a "missing or nonsensical" coalescing size for a datagram of `len` bytes. -/
def bogus (len : Nat) (seg : Int) : Bool := decide (seg ≤ 0) || decide (seg ≥ (len : Int))

/-- what must be delivered for payload `p` received with coalescing size `seg`. -/
def want {α : Type} (p : List α) (seg : Int) : List (List α) :=
  if bogus p.length seg then [p] else chunks seg.toNat p

/-- Property oracle on a list of delivered pieces; `none` = fine, `some cls` = kind of violation. -/
def check (p : List UInt8) (seg : Int) (pieces : List (List UInt8)) : Option String :=
  if bogus p.length seg then
    if pieces = [p] then none else some "seg-bogus-not-whole"
  else if pieces.flatten ≠ p then some "seg-concat"
  else
    let s := seg.toNat
    if pieces.isEmpty then some "seg-sizes"
    else if pieces.dropLast.all (fun x => x.length == s) ∧
            (pieces.getLast?.map (fun x => decide (0 < x.length ∧ x.length ≤ s))).getD false then none
    else some "seg-sizes"

/-- One ancillary message: level, type, data. -/
structure Cmsg where
  level : Nat
  type : Nat
  data : List UInt8
  deriving Repr

/-- `kernelFormed`: every UDP_GRO message carries its 4-byte value (what the kernel produces); the
property fixes the answer only for such buffers — for anything else it only demands memory safety.
`groOf`: what the kernel's UDP_GRO message says, for a list of well-formed messages: the value of the last
`(SOL_UDP = 17, UDP_GRO = 104)` message with at least 4 data bytes, as a signed 32-bit little-endian
integer; 0 if there is none. -/
def kernelFormed (msgs : List Cmsg) : Bool :=
  msgs.all (fun m => !(m.level = 17 ∧ m.type = 104) || decide (4 ≤ m.data.length))

def groOf (msgs : List Cmsg) : Int :=
  msgs.foldl (fun acc m =>
    if m.level = 17 ∧ m.type = 104 ∧ 4 ≤ m.data.length then
      let v := (m.data.take 4).foldr (fun b a => b.toNat + 256 * a) 0
      if v < 2 ^ 31 then (v : Int) else (v : Int) - (2 ^ 32 : Nat)
    else acc) 0

end Nebula.Spec.Udprecv

namespace Nebula.Spec.Udprecv

/-- `n` little-endian bytes of `v`. -/
def leBytes : Nat → Nat → List UInt8
  | 0, _ => []
  | n + 1, v => UInt8.ofNat (v % 256) :: leBytes n (v / 256)

/-- Kernel layout of one ancillary message on linux/amd64 (`CMSG_LEN`/`CMSG_SPACE`): 8-byte length
(header + data), 4-byte level, 4-byte type, data, zero padding to a multiple of 8. -/
def encodeOne (m : Cmsg) : List UInt8 :=
  leBytes 8 (16 + m.data.length) ++ leBytes 4 m.level ++ leBytes 4 m.type ++ m.data ++
    List.replicate ((8 - m.data.length % 8) % 8) 0

def encode (msgs : List Cmsg) : List UInt8 := (msgs.map encodeOne).flatten

end Nebula.Spec.Udprecv
