/-
Property oracles of C09 / C10 / C32 for the `hsmanager` correspondence stream: what the properties
demand of the implementation's canonical answer (sections T, P, H, I, R), given the situation the op
creates (`Kind`, read off the network state before the op).
-/
import Nebula.Model.HsNet
import Nebula.Spec.HsRetry

namespace Nebula.Spec.HsManager
open Nebula.HsManager Nebula.HsNet

inductive Kind
  | other
  | s1Fresh (cert : List Addr)                       -- first message of a handshake not seen before
  | s1Replay (cert : List Addr) (reply : Option Handle) (src : Nat)  -- the receiver still holds the tunnel this message created
  | s1Older (cert : List Addr)                       -- not newer than the tunnel the receiver accepted as responder
  | s1Self
  | s2Complete (cert : List Addr) (store : List Cached) (src : Nat)
  | s2Wrong
  | s2Self
  | s2Stray
  | untrusted                                        -- the sender's certificate is on the receiver's blocklist NOW
  deriving Repr, Inhabited

def classifyDeliver (w : Net) (h : Handle) (src to : Nat) : Kind :=
  match w.node? to, alookup h w.pkts with
  | some nd, some (creator, info) =>
    match w.node? creator with
    | none => .other
    | some cn =>
      let blockedNow := match info with
        | .s1 _ _ _ ver => nd.blocked.contains (certIdOf creator ver)
        | .s2 _ _ _ _ ver _ => nd.blocked.contains (certIdOf creator ver)
      if blockedNow then .untrusted else
      match info with
      | .s1 _ _ time ver =>
        let cert := certAddrsOf cn.cfg ver
        if cert.any (fun a => nd.cfg.myAddrs.contains a) then .s1Self else
        let a0 := cert.headD 0
        match (nd.main.getList a0).find? (fun t => t.pkt0 == some h) with
        | some t => .s1Replay cert t.pkt2 src
        | none =>
          match nd.main.primary a0 with
          | some ex => if ex.hsTime ≥ time && !ex.initiator then .s1Older cert else .s1Fresh cert
          | none => .s1Fresh cert
      | .s2 _ _ initIdx _ ver replyTo =>
        match (alookup initIdx nd.p.pindexes).bind nd.p.pendingById with
        | some hh =>
          if hh.pkt0 != some replyTo then .s2Stray else
          let cert := certAddrsOf cn.cfg ver
          if cert.any (fun a => nd.cfg.myAddrs.contains a) then .s2Self
          else if !cert.contains hh.vpnAddr then .s2Wrong
          else .s2Complete cert hh.store src
        | none => .s2Stray
  | _, _ => .other

def classifyCore (w : Net) : Op → Kind
  | .deliver k => match w.log[k]? with | some (h, src, dst) => classifyDeliver w h src dst | none => .other
  | .dto k m => match w.log[k]? with | some (h, src, _) => classifyDeliver w h src m | none => .other
  | _ => .other

def classify (w : Net) (op : Op) : Kind := classifyCore w (w.resolve op)

structure Ctx where
  myAddrs : List Addr
  certLists : List (List Addr)
  preH : String
  preI : String
  preR : String
  preP : List String := []
  implT : String
  implP : List String
  implH : String
  implI : String
  implR : String

def inner (s : String) : List String :=
  match s.splitOn "[" with
  | [_, rest] => ((rest.dropEnd 1).toString.splitOn ",").filter (· ≠ "")
  | _ => []

/-- a tunnel line of section I: (local index, overlay addresses) -/
def tunnelOf (e : String) : Option (Nat × List Addr) :=
  match e.splitOn ":" with
  | k :: _ :: _ :: _ :: addrs :: _ => do
    let k ← k.toNat?
    pure (k, (addrs.splitOn "+").filterMap (·.toNat?))
  | _ => none

def tunnels (sec : String) : List (Nat × List Addr) := (inner sec).filterMap tunnelOf

/-- C09: tunnels are bound to the certified overlay address. -/
def c09 (c : Ctx) (k : Kind) : String :=
  let ts := tunnels c.implI
  let pre := (tunnels c.preI).map (·.1)
  let fresh := ts.filter (fun t => !pre.contains t.1)
  -- every tunnel's address list is the address list of a certificate, none is one of my addresses
  if ts.any (fun t => t.2.any (fun a => c.myAddrs.contains a)) then "bad c09-self-tunnel" else
  if ts.any (fun t => !c.certLists.contains t.2) then "bad c09-addrs-not-a-certificate" else
  -- every address maps only to tunnels certified for it
  let hostsOk := (inner c.implH).all (fun e =>
    match e.splitOn "=" with
    | [a, lis] =>
      match a.toNat? with
      | some a => !c.myAddrs.contains a &&
        (lis.splitOn "/").all (fun li => match li.toNat? with
          | some li => ts.any (fun t => t.1 == li && t.2.contains a)
          | none => false)
      | none => false
    | _ => false)
  if !hostsOk then "bad c09-tunnel-under-uncertified-address" else
  match k with
  | .s1Fresh cert | .s2Complete cert _ _ | .s1Replay cert _ _ | .s1Older cert =>
    -- (whether a replayed / older message may create a tunnel at all is C10's question)
    if fresh.all (fun t => t.2 == cert) then "ok" else "bad c09-new-tunnel-not-from-certificate"
  | .s2Wrong => if fresh.isEmpty then "ok" else "bad c09-wrong-responder-installed"
  | .s1Self | .s2Self => if fresh.isEmpty then "ok" else "bad c09-self-handshake-installed"
  -- a completion installs only a certificate the CURRENT trust store accepts (config reloads included)
  | .untrusted => if fresh.isEmpty then "ok" else "bad c09-complete-with-untrusted-cert"
  | _ => if fresh.isEmpty then "ok" else "bad c09-tunnel-without-completed-handshake"

/-- C10: replayed / older first messages do not create or replace tunnels. -/
def c10 (c : Ctx) (k : Kind) (pidOf : Handle → Nat) : String :=
  let same := c.implH == c.preH && c.implI == c.preI && c.implR == c.preR
  match k with
  | .s1Replay _ reply src =>
    if !same then "bad c10-replay-changed-tunnels" else
    let want := match reply with | some h => s!"T[h{pidOf h}>{src}]" | none => "T[]"
    if c.implT == want then "ok" else s!"bad c10-replay-wrong-reply want={want}"
  | .s1Older _ =>
    if !same then "bad c10-older-handshake-replaced" else
    if (inner c.implT).any (·.startsWith "h") then "bad c10-older-handshake-answered" else "ok"
  | _ => "ok"

/-- consecutive writes of one packet are one group -/
def groupTx : List (String × List String) → List (String × List String)
  | (a, da) :: (b, db) :: rest =>
    if a == b then groupTx ((a, da ++ db) :: rest) else (a, da) :: groupTx ((b, db) :: rest)
  | l => l
termination_by l => l.length

def sortStrs (l : List String) : List String := l.mergeSort (fun a b => a < b || a == b)

def pendingOf (e : String) : Option (Nat × Int × Nat) :=
  match e.splitOn ":" with
  | [a, _, ctr, _, q] => do pure (← a.toNat?, ← ctr.toInt?, ← q.toNat?)
  | _ => none

/-- the data messages of a T section as (payload length, number of transmissions) -/
def msgCounts (t : String) : List (Nat × Nat) :=
  (inner t).filterMap (fun g =>
    if g.startsWith "m" then
      match (g.drop 1).toString.splitOn ">" with
      | [len, dsts] => len.toNat?.map (fun l => (l, (dsts.splitOn "+").length))
      | _ => none
    else none)

/-- C32: queue cap, retry schedule (against the countdown specification), flush on completion.
`view` is the specification's expected `(addr, counter)` list after a tick / trigger; `tainted` are the
addresses whose timer-wheel entry count exceeds one (a stale timer of an earlier handshake to the same
address is still in the wheel), used only to name the class of a schedule violation. -/
def c32 (c : Ctx) (k : Kind) (cfg : Cfg) (view : Option (List (Nat × Int))) (tainted : List Nat)
    (isSend : Bool := false) : String :=
  let ps := c.implP.filterMap pendingOf
  if ps.any (fun p => p.2.2 > Nebula.Gen.hsm_maxCachedPackets) then "bad c32-queue-over-cap" else
  -- one tun packet: transmitted at most once, and never both transmitted and left in a pending handshake's queue
  let sendV :=
    if !isSend then "ok" else
    let sent := (msgCounts c.implT).foldl (fun acc m => acc + m.2) 0
    let pre := c.preP.filterMap pendingOf
    let grown := (ps.filter (fun p => p.2.2 > ((pre.find? (·.1 == p.1)).map (·.2.2)).getD 0)).length
    if sent > 1 then "bad c32-packet-sent-twice"
    else if sent == 1 && grown > 0 then "bad c32-sent-and-queued"
    else if grown > 1 then "bad c32-queued-twice"
    else "ok"
  if sendV != "ok" then sendV else
  let sched :=
    match view with
    | none => "ok"
    | some v =>
      let cls := fun (a : Nat) => if tainted.contains a then "c32-stale-timer-extra-attempt" else "c32-retry-schedule"
      match ps.find? (fun p => alookup p.1 v != some p.2.1) with
      | some p => s!"bad {cls p.1} addr={p.1} counter={p.2.1} want={match alookup p.1 v with | some x => toString x | none => "gone"}"
      | none =>
        match v.find? (fun e => !ps.any (fun p => p.1 == e.1)) with
        | some e => s!"bad {cls e.1} addr={e.1} abandoned-early want-counter={e.2}"
        | none => "ok"
  if sched != "ok" then sched else
  match k with
  | .s2Complete _ store src =>
    -- the canonical form writes consecutive transmissions of equal name as one group
    let items := groupTx ((store.filter cfg.allowed).map (fun p => (s!"m{p.len}", [toString src])))
    let want := "T[" ++ ",".intercalate (items.map (fun (n, d) => n ++ ">" ++ "+".intercalate (sortStrs d))) ++ "]"
    if c.implT == want then "ok" else
    -- more than the queue held (each wanted message is there, plus others): something is transmitted a second time
    let wantC := msgCounts want
    let gotC := msgCounts c.implT
    let total := fun (l : List (Nat × Nat)) (len : Nat) => (l.filter (·.1 == len)).foldl (fun a m => a + m.2) 0
    if wantC.all (fun m => total gotC m.1 ≥ total wantC m.1) && gotC.foldl (fun a m => a + m.2) 0 > wantC.foldl (fun a m => a + m.2) 0
    then s!"bad c32-packet-sent-twice want={want}" else s!"bad c32-flush-mismatch want={want}"
  | _ => "ok"

/-- (local index, remote index) of a tunnel line of section I -/
def indexPairOf (e : String) : Option (Nat × Nat) :=
  match e.splitOn ":" with
  | k :: _ :: ri :: _ => do pure (← k.toNat?, ← ri.toNat?)
  | _ => none

/-- C31 on the two-node stream: (i) a node swaps its primary only if the peer's first address is not
smaller than its own first address, (ii) the tunnel an initiator installs on completion is one the
responder holds with mirrored indexes (`peerPairs` = the responder's (local, remote) index pairs). -/
def c31 (c : Ctx) (k : Kind) (res : String) (swapAllowed : Option Bool) (peerPairs : List (Nat × Nat)) : String :=
  let swapV :=
    match swapAllowed with
    | some false => if res == "swap" || c.implH != c.preH then "bad c31-wrong-side-swapped" else "ok"
    | _ => "ok"
  if swapV != "ok" then swapV else
  match k with
  | .s2Complete _ _ _ =>
    let pre := (inner c.preI).filterMap indexPairOf |>.map (·.1)
    let fresh := ((inner c.implI).filterMap indexPairOf).filter (fun t => !pre.contains t.1)
    if fresh.all (fun t => peerPairs.contains (t.2, t.1)) then "ok" else "bad c31-initiator-tunnel-unpaired"
  | _ => "ok"

/-- C31, connection-manager checks in a race: a tunnel may only be deleted by a traffic check if it saw no
inbound traffic at this check AND was already marked by an earlier quiet check since its last inbound traffic
(`allowed`), or its peer certificate is blocklisted. `li` is the checked tunnel, `paired` says that it was this
node's primary and the peer's primary was its mirror (the pair the race converged to). -/
def c31check (c : Ctx) (li : Nat) (allowed paired : Bool) : String :=
  let held := ((inner c.implI).filterMap indexPairOf).any (·.1 == li)
  if held || allowed then "ok"
  else if paired then "bad c31-matching-pair-lost" else "bad c31-live-tunnel-deleted"

def tagOf (k : Kind) (op : Op) (res : String) : String :=
  match k with
  | .s1Fresh _ => "s1:fresh"
  | .s1Replay .. => "s1:replay"
  | .s1Older _ => "s1:older"
  | .s1Self => "s1:self"
  | .s2Complete _ st _ => if st.isEmpty then "s2:complete" else "s2:complete+flush"
  | .s2Wrong => "s2:wrong-responder"
  | .s2Self => "s2:self"
  | .s2Stray => "s2:stray"
  | .untrusted => "hs:untrusted-cert"
  | .other =>
    match op with
    | .lh .. => "triv:lh"
    | .hs .. => "hs"
    | .rehs .. => "rehs"
    | .tick _ => "tick"
    | .trig .. => "trig"
    | .send .. => "send"
    | .del .. => s!"del:{res}"
    | .swap .. => s!"swap:{res}"
    | .cmcheck .. => s!"cmcheck:{res}"
    | .block .. => "block"
    | _ => "other"

end Nebula.Spec.HsManager
