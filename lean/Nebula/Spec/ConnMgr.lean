/-
C30, the liveness policy as the property states it: an ordered list of clauses, each naming the action.
-/
import Nebula.Model.ConnMgr

namespace Nebula.Spec.ConnMgr
open Nebula.ConnMgr

/-- clause 1/2: the certificate demands teardown -/
def certDemandsClose (c : CertV) (disconnectInvalid : Bool) : Bool :=
  c == .blocklisted || (c == .invalid && disconnectInvalid)

/-- clause 3: message counter exhausted -/
def exhausted (hasCS : Bool) (counter : Nat) : Bool := hasCS && decide (counter ≥ rejectAfter)

/-- inactivity clause -/
def inactive (i : In) : Bool :=
  i.isMain && i.hasCS && i.dropInactive && decide (i.idle ≥ i.timeout) && !i.inT && !i.outT && !i.pd

/-- the action the policy prescribes -/
def policy (i : In) : Decision :=
  if !i.found then .doNothing
  else if certDemandsClose i.cert i.disconnectInvalid then .closeTunnel
  else if exhausted i.hasCS i.counter then .deleteTunnel
  else if i.inT then (if i.isMain then .tryRehandshake else if i.swap then .swapPrimary else .migrateRelays)
  else if i.pd then .deleteTunnel
  else if inactive i then .closeTunnel
  else if i.isMain && i.hasCS && i.outT then .sendTestPacket
  else .doNothing

/-- "re-handshake when the local certificate changed or the counter passed the rekey threshold" (plus the version
causes the code lists) -/
def rehandshakeDue (present peerHigher haveHigher sigEqual belowInitiating : Bool) (counter : Nat) : Bool :=
  !present || (peerHigher && haveHigher) || !sigEqual || belowInitiating || decide (counter ≥ rehandshakeAfter)

end Nebula.Spec.ConnMgr
