/-
The Internet checksum (RFC 1071) as needed by C21 — local to the `pkt` engines; to be unified with the
shared theory `Base/Csum.lean` written in parallel.

`sum16`  : the sum of the big-endian 16-bit words of a byte string (an odd trailing byte is padded with a
           zero byte on the right), as an unbounded natural number.
`fold16` : that sum reduced to 16 bits with end-around carry, written in closed form: one's-complement
           addition is addition modulo 65535 in which only the empty sum is 0 (a non-zero multiple of
           65535 folds to 0xffff).
A checksummed region `verifies` when the folded sum of all of its words — checksum field and
pseudo-header included — is 0xffff.
-/
namespace Nebula.Spec.PktCsum



def sum16 : List UInt8 → Nat
  | [] => 0
  | [a] => a.toNat * 256
  | a :: b :: rest => a.toNat * 256 + b.toNat + sum16 rest

def fold16 (n : Nat) : Nat := if n = 0 then 0 else (n - 1) % 65535 + 1

/-- receiver-side verification: words of `bs` plus the pseudo-header sum fold to 0xffff -/
def verifies (bs : List UInt8) (pseudo : Nat) : Bool := fold16 (sum16 bs + pseudo) == 0xffff

/-- pseudo-header sum (RFC 793 / RFC 8200 §8.1): source, destination, upper-layer length, protocol -/
def pseudo (src dst : List UInt8) (proto len : Nat) : Nat :=
  sum16 src + sum16 dst + proto + (len / 65536 + len % 65536)

end Nebula.Spec.PktCsum
