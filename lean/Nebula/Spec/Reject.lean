/-
Specification for C21: what a rejection reply must look like, and when none may be produced — written
from the property statement, RFC 792 / RFC 4443 (destination unreachable, administratively prohibited),
RFC 1122 §3.2.2 / RFC 4443 §2.4 (no error about an error, none about a non-first fragment) and
netfilter's nf_reject (sequence numbers of the reset), on top of the independent parser `Spec/IP.lean`
and the checksum of `Spec/PktCsum.lean`. Everything is a decidable `Bool` so that the same definitions
are the oracle of the correspondence stream.
-/
import Nebula.Spec.IP
import Nebula.Spec.PktCsum

namespace Nebula.Spec.Reject
open Nebula.Spec.IP Nebula.Spec.PktCsum

/-- documented maximum size of a reply: 40 + 8 + 1000 (`iputil.MaxRejectPacketSize`) -/
def maxReplySize : Nat := 1048

def be32 (d : Bytes) (i : Nat) : Nat := be16 d i * 65536 + be16 d (i + 2)

/-- ICMP *error* messages. IPv4 (RFC 1122 §3.2.2): destination unreachable 3, source quench 4,
redirect 5, time exceeded 11, parameter problem 12. IPv6 (RFC 4443): the assigned error types 1–4
(destination unreachable, packet too big, time exceeded, parameter problem). -/
def isIcmpErrorType (version type : Nat) : Bool :=
  if version = 4 then type == 3 || type == 4 || type == 5 || type == 11 || type == 12
  else 1 ≤ type && type ≤ 4

/-- the packet is an ICMP error message (its type byte is present and is an error type) -/
def isIcmpError (o : Pkt) : Bool :=
  o.isIcmp && !o.nonFirstFrag && 1 ≤ o.upper.length && isIcmpErrorType o.version (byte o.upper 0)

/-- size of the reply the property describes for `orig` (`o` = its parse) -/
def replySize (orig : Bytes) (o : Pkt) : Nat :=
  let ip := if o.version = 4 then 20 else 40
  if o.proto = 6 then ip + 20
  else if o.version = 4 then ip + 8 + min orig.length (o.hdrLen + 8)
  else ip + 8 + min orig.length 1000

/-- "No reply is produced for non-first fragments, ICMP error messages, or buffers too small to hold it." -/
def mustNotReply (orig : Bytes) (o : Pkt) (cap : Nat) : Bool :=
  o.nonFirstFrag || isIcmpError o || cap < replySize orig o

/-- IP layer of the reply: same family, no options / extension headers, not fragmented, from the
original destination to the original source, length field exact, IPv4 header checksum valid, size within
the documented maximum. -/
def ipOK (o r : Pkt) (reply : Bytes) : Bool :=
  r.version == o.version && r.src == o.dst && r.dst == o.src && !r.anyFrag && r.nExt == 0 &&
  reply.length ≤ maxReplySize &&
  (if o.version = 4 then
     r.hdrLen == 20 && be16 reply 2 == reply.length && verifies (reply.take 20) 0
   else
     r.hdrLen == 40 && be16 reply 4 + 40 == reply.length)

/-- upper-layer pseudo-header of the reply -/
def replyPseudo (r : Pkt) : Nat := pseudo r.src r.dst r.proto r.upper.length

/-- TCP reset, netfilter style. `t` = the original TCP header and data, `u` = the reply's TCP segment. -/
def rstOK (o r : Pkt) : Bool :=
  let t := o.upper
  let u := r.upper
  let flags := byte t 13
  let ack := flags / 16 % 2 == 1
  let syn := flags / 2 % 2
  let fin := flags % 2
  let seglen := t.length + 4294967296 - (byte t 12 / 16) * 4
  r.proto == 6 && u.length == 20 &&
  be16 u 0 == be16 t 2 && be16 u 2 == be16 t 0 &&            -- ports swapped
  byte u 12 == 0x50 && be16 u 14 == 0 && be16 u 18 == 0 &&   -- 5 words, window 0, urgent 0
  (if ack then byte u 13 == 0x04 && be32 u 4 == be32 t 8 && be32 u 8 == 0
   else byte u 13 == 0x14 && be32 u 4 == 0 && be32 u 8 == (be32 t 4 + syn + fin + seglen) % 4294967296) &&
  verifies u (replyPseudo r)

/-- ICMP / ICMPv6 destination unreachable, administratively prohibited, carrying the original packet's
header: IPv4 the IP header and the first 8 payload bytes, IPv6 as much as fits in 1000 bytes. -/
def unreachOK (orig : Bytes) (o r : Pkt) : Bool :=
  let u := r.upper
  (if o.version = 4 then r.proto == 1 && byte u 0 == 3 && byte u 1 == 13 &&
     u.drop 8 == orig.take (min orig.length (o.hdrLen + 8)) && verifies u 0
   else r.proto == 58 && byte u 0 == 1 && byte u 1 == 1 &&
     u.drop 8 == orig.take (min orig.length 1000) && verifies u (replyPseudo r)) &&
  8 ≤ u.length && be32 u 4 == 0

/-- the reply `reply` to `orig` (whose parse is `o`) is what the property describes -/
def goodReply (orig : Bytes) (o : Pkt) (reply : Bytes) : Bool :=
  match parse reply with
  | none => false
  | some r => ipOK o r reply && (if o.proto = 6 then rstOK o r else unreachOK orig o r)

end Nebula.Spec.Reject
