/-
Specification for C45: "every accepted path resolves lexically to a location strictly inside the
sandbox directory, and every other path is refused".

Lexical locations are `Nebula.SshPath.Loc` (absolute?, number of leading `..`, names). A requested path
names the location `resolve (target sandbox path)`: an absolute path names itself, a relative one is
taken relative to the sandbox directory (`sandbox/path`).
-/
import Nebula.Model.SshPath

namespace Nebula.Spec.SshPath
open Nebula.SshPath

/-- `r` is strictly inside `s`: same anchor (both absolute, or both relative with the same number of
leading `..`), and the names of `s` are a proper prefix of the names of `r`. -/
def strictlyInside (s r : Loc) : Prop :=
  r.abs = s.abs ∧ r.ups = s.ups ∧ ∃ c rest, r.comps = s.comps ++ c :: rest

instance (s r : Loc) : Decidable (strictlyInside s r) :=
  if h : r.abs = s.abs ∧ r.ups = s.ups ∧ s.comps.isPrefixOf r.comps ∧ s.comps.length < r.comps.length then
    isTrue (by
      obtain ⟨h1, h2, h3, h4⟩ := h
      refine ⟨h1, h2, ?_⟩
      rw [List.isPrefixOf_iff_prefix] at h3
      obtain ⟨t, ht⟩ := h3
      cases t with
      | nil => simp at ht; rw [ht] at h4; omega
      | cons c rest => exact ⟨c, rest, ht.symm⟩)
  else
    isFalse (by
      rintro ⟨h1, h2, c, rest, h3⟩
      apply h
      refine ⟨h1, h2, ?_, ?_⟩
      · rw [List.isPrefixOf_iff_prefix]; exact ⟨c :: rest, h3.symm⟩
      · rw [h3]; simp)

/-- The path the user asked for, as a path from the working directory. -/
def target (sandbox path : Path) : Path :=
  if isAbs path then path else sandbox ++ '/' :: path

/-- What the property demands of an answer: an accepted result names the requested location, which is
strictly inside the sandbox, in its shortest spelling; anything else must be refused. -/
def acceptable (sandbox path : Path) : Res → Prop
  | .ok r => strictlyInside (resolve sandbox) (resolve (target sandbox path)) ∧
             resolve r = resolve (target sandbox path) ∧ clean r = r
  | _ => True

instance (sandbox path : Path) (res : Res) : Decidable (acceptable sandbox path res) := by
  cases res <;> unfold acceptable <;> exact inferInstance

end Nebula.Spec.SshPath
