/-
Specification for C44 over *histories* (own certificate + the list of events so far), independent of the
responder's tables:
"A lighthouse's DNS responder answers address queries only with names and addresses taken from
certificates of peers it has completed handshakes with (or its own), matching names
case-insensitively, returns an empty answer for a known name lacking the requested record type and
NXDOMAIN only for unknown names, and returns certificate details only to loopback clients or its own
overlay addresses."

Reading of "known name": a name for which the responder currently publishes an address record, i.e.
(lower-cased) the FQDN of a certificate seen in a handshake since DNS was last disabled, or of its
*current* own certificate (a replaced own certificate's name is withdrawn at the next reload).
-/
import Nebula.Model.Dns

namespace Nebula.Spec.Dns
open Nebula.Net Nebula.Dns

abbrev Self := Option (Name × List Addr)

/-- `(name, addr)` comes from the certificate of a peer with a completed handshake, or from the
responder's own certificate; names compared case-insensitively. -/
def authentic (self : Self) (evs : List Ev) (name : Name) (addr : Addr) : Bool :=
  evs.any (fun e => match e with
    | .hs _ n as => lower (n ++ ['.']) == lower name && memAddr addr as
    | _ => false) ||
  (match self with
    | some (n, as) => lower n ++ ['.'] == lower name && memAddr addr as
    | none => false)

/-- certificate `c` belongs to a peer with a completed handshake (or is our own) whose overlay
addresses include `ip`. -/
def certOwns (self : Self) (evs : List Ev) (ip : Addr) : CertId → Bool
  | .self => match self with
    | some (_, as) => memAddr ip as
    | none => false
  | .peer k => evs.any (fun e => match e with
    | .hs k' _ as => k' == k && memAddr ip as
    | _ => false)

/-- loopback client (127.0.0.0/8, ::1; a v4-mapped address counts as its IPv4 address) or one of the
node's own overlay addresses. -/
def isLocal (self : Self) (client : Addr) : Bool :=
  let c := client.unmap
  (match c.fam with
    | .v4 => ({ addr := { fam := .v4, val := 0x7f000000 }, len := 8 } : Prefix).contains c
    | .v6 => c.val == 1) ||
  (match self with
    | some (_, as) => memAddr c as
    | none => false)

/-- the node's own certificate after a history (replaced by every `renew`). -/
def selfAfter (me : Self) (evs : List Ev) : Self :=
  evs.foldl (fun cur e => match e with
    | .renew n as => some (n, as)
    | _ => cur) me

/-- What the responder publishes after a history: whether DNS is enabled, the lower-cased names with a
record, the name last seeded for ourselves, and the current own certificate. -/
structure PubSt where
  en : Bool
  names : List Name
  selfHost : Name
  cur : Self

/-- (re)publishing the own name: the previously seeded own name is withdrawn when it differs, the
current one is published iff the certificate has an overlay address. -/
def seedStep (st : PubSt) : PubSt :=
  match st.en, st.cur with
  | true, some (n, as) =>
    let newHost := lower n ++ ['.']
    let names1 := if st.selfHost != [] && st.selfHost != newHost then st.names.filter (· != st.selfHost) else st.names
    let rest := names1.filter (· != newHost)
    { st with selfHost := newHost, names := if as.isEmpty then rest else newHost :: rest }
  | _, _ => st

def publishStep (st : PubSt) : Ev → PubSt
  | .hs _ n as => if st.en && !as.isEmpty then { st with names := lower (n ++ ['.']) :: st.names } else st
  | .seed => seedStep st
  | .disable => { st with en := false, names := [], selfHost := [] }
  | .enable => seedStep { st with en := true }
  | .renew n as => seedStep { st with cur := some (n, as) }
  | .drop _ => st

def pubAfter (me : Self) (evs : List Ev) : PubSt :=
  evs.foldl publishStep { en := true, names := [], selfHost := [], cur := me }

def published (me : Self) (evs : List Ev) : List Name := (pubAfter me evs).names

/-- `me`: the own certificate at the start of the history. -/
def known (me : Self) (evs : List Ev) (name : Name) : Bool := (published me evs).contains (lower name)

/-- lower-cased FQDNs of own certificates that have since been replaced by one of another name. -/
def formerOwnNames (me : Self) (evs : List Ev) : List Name :=
  let cur := match selfAfter me evs with
    | some (n, _) => [lower n ++ ['.']]
    | none => []
  let all := (match me with
    | some (n, _) => [lower n ++ ['.']]
    | none => []) ++ evs.filterMap (fun e => match e with
      | .renew n _ => some (lower n ++ ['.'])
      | _ => none)
  all.filter (fun n => !cur.contains n)

def answerOK (self : Self) (evs : List Ev) (client : Addr) (qs : List Question) : Answer → Bool
  | .a name addr => addr.fam == .v4 && authentic self evs name addr &&
      qs.any (fun q => q.qtype == typeA && q.name == name)
  | .aaaa name addr => addr.fam == .v6 && authentic self evs name addr &&
      qs.any (fun q => q.qtype == typeAAAA && q.name == name)
  | .txt name c => isLocal self client &&
      qs.any (fun q => q.qtype == typeTXT && q.name == name &&
        (match q.parsed with
          | some ip => certOwns self evs ip c
          | none => false))

/-- `none` = the response satisfies the property; `some cls` = the class of the violation.
`me` is the own certificate at the start of the history; answers are judged against the *current* own
certificate `selfAfter me evs` and the handshake history. -/
def respViolation (me : Self) (evs : List Ev) (client : Addr) (qs : List Question) (r : Resp) : Option String :=
  let cur := selfAfter me evs
  match r.answers.find? (fun a => !answerOK cur evs client qs a) with
  | some (.txt _ _) => if isLocal cur client then some "txt-not-from-handshake-data" else some "txt-to-remote-client"
  | some (.a n _) | some (.aaaa n _) =>
    if (formerOwnNames me evs).contains (lower n) then some "stale-own-name-after-certificate-rename"
    else some "address-answer-not-from-certificates"
  | none =>
    if r.rcode == rcodeNameError then
      if !r.answers.isEmpty then some "nxdomain-with-answers"
      else match qs.find? (fun q => known me evs q.name) with
        | some q => if qs.length > 1 then some "nxdomain-for-known-name-multi-question"
                    else if q.qtype == typeA || q.qtype == typeAAAA then some "nxdomain-for-known-name"
                    else some "nxdomain-for-known-name-other-type"
        | none => none
    else if r.rcode == rcodeSuccess then none
    else some "unexpected-rcode"

end Nebula.Spec.Dns
