/-
Specification for C44 over *histories* (own certificate + the list of events so far), independent of the
responder's tables:
"A lighthouse's DNS responder answers address queries only with names and addresses taken from
certificates of peers it has completed handshakes with (or its own), matching names
case-insensitively, returns an empty answer for a known name lacking the requested record type and
NXDOMAIN only for unknown names, and returns certificate details only to loopback clients or its own
overlay addresses."

Reading of "known name": a name for which the responder currently publishes an address record, i.e.
(lower-cased) the FQDN of a certificate seen in a handshake, or its own, since DNS was last disabled.
-/
import Nebula.Model.Dns

namespace Nebula.Spec.Dns
open Nebula.Net Nebula.Dns

abbrev Self := Option (Name × List Addr)

/-- `(name, addr)` comes from the certificate of a peer with a completed handshake, or from the
responder's own certificate; names compared case-insensitively. -/
def authentic (self : Self) (evs : List Ev) (name : Name) (addr : Addr) : Bool :=
  evs.any (fun e => match e with
    | .hs _ n as => lower (n ++ ['.']) == lower name && memAddr addr as
    | _ => false) ||
  (match self with
    | some (n, as) => lower n ++ ['.'] == lower name && memAddr addr as
    | none => false)

/-- certificate `c` belongs to a peer with a completed handshake (or is our own) whose overlay
addresses include `ip`. -/
def certOwns (self : Self) (evs : List Ev) (ip : Addr) : CertId → Bool
  | .self => match self with
    | some (_, as) => memAddr ip as
    | none => false
  | .peer k => evs.any (fun e => match e with
    | .hs k' _ as => k' == k && memAddr ip as
    | _ => false)

/-- loopback client (127.0.0.0/8, ::1; a v4-mapped address counts as its IPv4 address) or one of the
node's own overlay addresses. -/
def isLocal (self : Self) (client : Addr) : Bool :=
  let c := client.unmap
  (match c.fam with
    | .v4 => ({ addr := { fam := .v4, val := 0x7f000000 }, len := 8 } : Prefix).contains c
    | .v6 => c.val == 1) ||
  (match self with
    | some (_, as) => memAddr c as
    | none => false)

/-- The lower-cased names the responder publishes after a history (`enabled`, names). -/
def publishStep (self : Self) (st : Bool × List Name) : Ev → Bool × List Name
  | .hs _ n as => if st.1 && !as.isEmpty then (st.1, lower (n ++ ['.']) :: st.2) else st
  | .seed =>
    match st.1, self with
    | true, some (n, as) =>
      let rest := st.2.filter (· != lower n ++ ['.'])
      (true, if as.isEmpty then rest else (lower n ++ ['.']) :: rest)
    | _, _ => st
  | .disable => (false, [])
  | .enable =>
    match self with
    | some (n, as) =>
      let rest := st.2.filter (· != lower n ++ ['.'])
      (true, if as.isEmpty then rest else (lower n ++ ['.']) :: rest)
    | none => (true, st.2)

def published (self : Self) (evs : List Ev) : List Name := (evs.foldl (publishStep self) (true, [])).2

def known (self : Self) (evs : List Ev) (name : Name) : Bool := (published self evs).contains (lower name)

def answerOK (self : Self) (evs : List Ev) (client : Addr) (qs : List Question) : Answer → Bool
  | .a name addr => addr.fam == .v4 && authentic self evs name addr &&
      qs.any (fun q => q.qtype == typeA && q.name == name)
  | .aaaa name addr => addr.fam == .v6 && authentic self evs name addr &&
      qs.any (fun q => q.qtype == typeAAAA && q.name == name)
  | .txt name c => isLocal self client &&
      qs.any (fun q => q.qtype == typeTXT && q.name == name &&
        (match q.parsed with
          | some ip => certOwns self evs ip c
          | none => false))

/-- `none` = the response satisfies the property; `some cls` = the class of the violation. -/
def respViolation (self : Self) (evs : List Ev) (client : Addr) (qs : List Question) (r : Resp) : Option String :=
  match r.answers.find? (fun a => !answerOK self evs client qs a) with
  | some (.txt _ _) => if isLocal self client then some "txt-not-from-handshake-data" else some "txt-to-remote-client"
  | some _ => some "address-answer-not-from-certificates"
  | none =>
    if r.rcode == rcodeNameError then
      if !r.answers.isEmpty then some "nxdomain-with-answers"
      else match qs.find? (fun q => known self evs q.name) with
        | some q => if q.qtype == typeA || q.qtype == typeAAAA then some "nxdomain-for-known-name"
                    else some "nxdomain-for-known-name-other-type"
        | none => none
    else if r.rcode == rcodeSuccess then none
    else some "unexpected-rcode"

end Nebula.Spec.Dns
