/-
Specification side of C28 / C29 as an executable oracle: what the properties demand of a hostmap state and of one
transition, as decidable checks that return the *class* of the first violated clause.  The driver applies them to the
implementation's dumps.

Every check is a conjunction of named Boolean clauses, one per clause of the Prop-level invariant `Inv`
(`Lemmas/HostMapInv.lean`) resp. of the step relation `Step` (`Lemmas/HostMapOracle.lean`), and
`invCheck s = none ↔ Inv s`, `stepCheck pre post fresh = none ↔ Step pre post fresh` are proved there
(`Props/C28.lean`: `invCheck_iff_Inv`, `stepCheck_iff_Step`): what the run-time oracle checks is exactly what the theorems
are about.  Maps are always read through `get` (never by walking the association list), so a shadowed duplicate key
cannot make the oracle and the Prop differ.
-/
import Nebula.Model.HostMap

namespace Nebula.Spec.HostMap
open Nebula.HostMap

/-- `∀ k v, m.get k = some v → p k v`, decidably -/
def allEntries {β : Type} (m : FMap β) (p : Nat → β → Bool) : Bool :=
  m.keys.all fun k => match m.get k with | some v => p k v | none => true

/-- the values of a map (through `get`) -/
def valsG {β : Type} (m : FMap β) : List β := m.keys.filterMap m.get

/-- a tunnel is live when `Indexes[localIndexId]` is this very tunnel -/
def live (s : State) (h : Nat) : Bool := s.indexes.get (s.obj h).lidx == some h

/-- every address that has a list -/
def addrsOf (s : State) : List Nat := s.hosts.keys ++ s.more.keys

/-- every tunnel referenced from any map of the main hostmap -/
def mainRefs (s : State) : List Nat :=
  (addrsOf s).flatMap (hostList s) ++ valsG s.indexes ++ valsG s.rindexes ++ valsG s.relays

def pendingRefs (s : State) : List Nat := valsG s.vpnIps ++ valsG s.pidx

/-! ### state clauses (one per clause of `Inv`) -/

def cRep (s : State) : Bool := allEntries s.more fun a l => decide (2 ≤ l.length) && (s.hosts.get a == l.head?)
def cListOk (s : State) : Bool :=
  (addrsOf s).all fun a => (hostList s a).all fun h => live s h && (s.obj h).addrs.contains a
def cNodup (s : State) : Bool := (addrsOf s).all fun a => decide (hostList s a).Nodup
def cCap (s : State) : Bool := (addrsOf s).all fun a => decide ((hostList s a).length ≤ maxHostInfos)
def cIdx (s : State) : Bool := allEntries s.indexes fun i h => ((s.obj h).lidx == i) && (i != 0)
def cReach (s : State) : Bool :=
  allEntries s.indexes fun _ h => (s.obj h).addrs.all fun a => (hostList s a).contains h
def cRidx (s : State) : Bool := allEntries s.rindexes fun r h => live s h && ((s.obj h).ridx == r)
def cRel (s : State) : Bool :=
  allEntries s.relays fun i h => live s h && ((s.rstate h).byIdx.get i).isSome && (i != 0)
def cRelOwn (s : State) : Bool :=
  allEntries s.indexes fun _ h => !live s h || allEntries (s.rstate h).byIdx fun i _ => s.relays.get i == some h
def cAgreeA (s : State) : Bool :=
  allEntries s.rs fun _ r => allEntries r.byAddr fun a rel => (rel.peer == a) && (r.byIdx.get rel.lidx == some rel)
def cAgreeI (s : State) : Bool :=
  allEntries s.rs fun _ r => allEntries r.byIdx fun i rel => (rel.lidx == i) && (r.byAddr.get rel.peer).isSome
def cRsPend (s : State) : Bool :=
  allEntries s.rs fun h r => allEntries r.byIdx fun _ _ =>
    decide (h < s.next) && (allEntries s.pidx fun _ x => x != h) && (allEntries s.vpnIps fun _ x => x != h)
def cPidx (s : State) : Bool :=
  allEntries s.pidx fun i h => ((s.obj h).lidx == i) && (i != 0) && (s.indexes.get i).isNone && (s.obj h).ready
def cVpn (s : State) : Bool := allEntries s.vpnIps fun a h => ((s.obj h).addrs == [a]) && !live s h
def cFresh (s : State) : Bool := s.objs.keys.all fun h => decide (h < s.next)
def cVpnReady (s : State) : Bool :=
  allEntries s.vpnIps fun _ h => !(s.obj h).ready || (s.pidx.get (s.obj h).lidx == some h)

/-- the clauses with the class reported when one fails -/
def invClauses (s : State) : List (Bool × String) :=
  [(cRep s, "hosts-morehosts-out-of-sync"), (cListOk s, "list-dead-or-foreign-tunnel"), (cNodup s, "list-duplicate"),
   (cCap s, "list-over-cap"), (cIdx s, "index-zero-or-owner-mismatch"), (cReach s, "indexed-tunnel-unreachable"),
   (cRidx s, "remote-index-dead-or-mismatch"), (cRel s, "relay-index-dead-or-unlisted-tunnel"),
   (cRelOwn s, "relay-index-not-registered"), (cAgreeA s, "relay-maps-disagree"), (cAgreeI s, "relay-maps-disagree-idx"),
   (cRsPend s, "relay-on-pending-tunnel"), (cPidx s, "pending-index-zero-mismatch-or-overlap"),
   (cVpn s, "pending-tunnel-malformed-or-live"), (cFresh s, "object-id-not-fresh"),
   (cVpnReady s, "pending-tunnel-lost-its-index")]

def firstFailing (l : List (Bool × String)) : Option String :=
  match l.find? (fun p => !p.1) with | some p => some p.2 | none => none

/-- C28 / C29 state invariant; `none` = holds -/
def invCheck (s : State) : Option String := firstFailing (invClauses s)

/-! ### transition clauses (one per clause of `Step`) -/

/-- no tunnel enters the main hostmap except the one being added (⇒ a removed tunnel is never brought back) -/
def sNoResurrect (pre post : State) (fresh : List Nat) : Bool :=
  (mainRefs post).all fun h => (mainRefs pre).contains h || fresh.contains h
/-- an index is only released by removing the tunnel that owns it -/
def sIdx (pre post : State) : Bool :=
  allEntries pre.indexes fun i h => (post.indexes.get i == some h) || !(mainRefs post).contains h
def sRel (pre post : State) : Bool :=
  allEntries pre.relays fun i h => (post.relays.get i == some h) || !(mainRefs post).contains h
def sPidx (pre post : State) : Bool :=
  allEntries pre.pidx fun i h => (post.pidx.get i == some h) || (post.indexes.get i == some h) ||
    !(mainRefs post ++ pendingRefs post).contains h
/-- a remote index entry is only removed by the tunnel it points to (a new tunnel may shadow it) -/
def sRidx (pre post : State) (fresh : List Nat) : Bool :=
  allEntries pre.rindexes fun r h => (post.rindexes.get r == some h) || !(mainRefs post).contains h ||
    (match post.rindexes.get r with | some h' => fresh.contains h' | none => false)

def stepClauses (pre post : State) (fresh : List Nat) : List (Bool × String) :=
  [(sNoResurrect pre post fresh, "resurrected-tunnel"), (sIdx pre post, "index-released-by-non-owner"),
   (sRel pre post, "relay-index-released-by-non-owner"), (sPidx pre post, "pending-index-released-by-non-owner"),
   (sRidx pre post fresh, "remote-index-removed-by-non-owner")]

/-- transition clauses that hold for every operation; `fresh` = tunnels the operation may bring into the main hostmap -/
def stepCheck (pre post : State) (fresh : List Nat) : Option String := firstFailing (stepClauses pre post fresh)

/-! ### operation-specific checks -/

def firstBad {α : Type} (l : List α) (f : α → Option String) : Option String := l.findSome? f

def orElse' (a : Option String) (b : Unit → Option String) : Option String :=
  match a with | some x => some x | none => b ()

def chk (b : Bool) (cls : String) : Option String := if b then none else some cls

/-- What `DeleteHostInfo(h)` must do to the per-address lists. -/
def eraseList (pre : State) (h a : Nat) : List Nat := (hostList pre a).filter (· != h)

/-- "no tunnel to the peer remains" -/
def finalSpec (pre : State) (h : Nat) : Bool := (pre.obj h).addrs.all fun a => (eraseList pre h a).isEmpty

/-- `DeleteHostInfo(h)`: every reference to `h` is gone, the answer is `finalSpec`, and nothing belonging to another
tunnel moved (`delete_erases`, `delete_final_iff`, `delete_exact` in `Props/C28.lean`). -/
def deleteCheck (pre post : State) (h : Nat) (final : Bool) : Option String :=
  orElse' (chk (!(mainRefs post).contains h) "delete-leaves-reference") fun _ =>
  orElse' (chk (final == finalSpec pre h) "delete-final-wrong") fun _ =>
  orElse' (firstBad (addrsOf pre ++ addrsOf post) fun a =>
    chk (hostList post a == eraseList pre h a) "delete-disturbs-address-list") fun _ =>
  orElse' (chk (allEntries post.indexes fun i x => pre.indexes.get i == some x) "delete-adds-index") fun _ =>
  orElse' (chk (allEntries post.relays fun i x => pre.relays.get i == some x) "delete-adds-relay-index") fun _ =>
  chk (allEntries post.rindexes fun i x => pre.rindexes.get i == some x) "delete-adds-remote-index"

/-- an index handed out for a pending tunnel: non-zero and not held in the pending ∪ main namespace -/
def handedOutCheck (pre : State) (idx : Nat) : Option String :=
  orElse' (chk (idx != 0) "handed-out-zero-index") fun _ =>
  chk ((pre.indexes.get idx).isNone && (pre.pidx.get idx).isNone) "handed-out-held-index"

/-- a relay index handed out: non-zero and not held in `Relays` -/
def relayHandedOutCheck (pre : State) (idx : Nat) : Option String :=
  orElse' (chk (idx != 0) "handed-out-zero-relay-index") fun _ =>
  chk ((pre.relays.get idx).isNone) "handed-out-held-relay-index"

end Nebula.Spec.HostMap
