/-
Specification side of C28 / C29: what the properties demand of a hostmap state and of one transition,
stated over the observable maps only (independent of how the model computes them).  Everything here is a
decidable check returning the *class* of the first violated clause: it is the driver's oracle on the
implementation's dumps.  The Prop-level counterpart proved about the model for all histories is `Inv`
(`Lemmas/HostMapInv.lean`) with the theorems of `Props/C28.lean` / `Props/C29.lean`; the clauses correspond one to one
(`invCheck` ↔ `Core none` + `Cap`, `deleteCheck` ↔ `delete_erases` / `delete_exact` / `delete_final_iff`,
`stepCheck` ↔ `no_resurrection` / `release_only_by_owner` / `remote_index_only_by_owner`).
-/
import Nebula.Model.HostMap

namespace Nebula.Spec.HostMap
open Nebula.HostMap

/-- a tunnel is live when `Indexes[localIndexId]` is this very tunnel -/
def live (s : State) (h : Nat) : Bool := s.indexes.get (s.obj h).lidx == some h

def vals {β : Type} (m : FMap β) : List β := m.map (·.2)

/-- every tunnel referenced from any map of the main hostmap -/
def mainRefs (s : State) : List Nat :=
  vals s.hosts ++ (vals s.more).flatten ++ vals s.indexes ++ vals s.rindexes ++ vals s.relays

def pendingRefs (s : State) : List Nat := vals s.vpnIps ++ vals s.pidx

def firstBad {α : Type} (l : List α) (f : α → Option String) : Option String := l.findSome? f

def orElse' (a : Option String) (b : Unit → Option String) : Option String :=
  match a with | some x => some x | none => b ()

def chk (b : Bool) (cls : String) : Option String := if b then none else some cls

/-- C28 state invariant (clauses a–d) and the C29 state clauses (non-zero, index ↔ owner agreement, pending and
main index namespaces disjoint); `none` = holds. -/
def invCheck (s : State) : Option String :=
  orElse' (firstBad s.hosts fun (a, h) =>
    orElse' (chk (live s h) "hosts-dead-tunnel") fun _ => chk ((s.obj h).addrs.contains a) "hosts-foreign-address") fun _ =>
  orElse' (firstBad s.more fun (a, l) =>
    orElse' (chk (2 ≤ l.length) "more-short-list") fun _ =>
    orElse' (chk (l.length ≤ maxHostInfos) "more-over-cap") fun _ =>
    orElse' (chk (decide l.Nodup) "more-duplicate") fun _ =>
    orElse' (chk (l.head? == s.hosts.get a) "more-head-not-primary") fun _ =>
    firstBad l fun h =>
      orElse' (chk (live s h) "more-dead-tunnel") fun _ => chk ((s.obj h).addrs.contains a) "more-foreign-address") fun _ =>
  orElse' (firstBad s.indexes fun (i, h) =>
    orElse' (chk (i != 0) "index-zero") fun _ =>
    orElse' (chk ((s.obj h).lidx == i) "index-owner-mismatch") fun _ =>
    firstBad (s.obj h).addrs fun a => chk ((hostList s a).contains h) "indexed-tunnel-unreachable") fun _ =>
  orElse' (firstBad s.rindexes fun (r, h) =>
    orElse' (chk (live s h) "remote-index-dead-tunnel") fun _ => chk ((s.obj h).ridx == r) "remote-index-owner-mismatch") fun _ =>
  orElse' (firstBad s.relays fun (i, h) =>
    orElse' (chk (i != 0) "relay-index-zero") fun _ =>
    orElse' (chk (live s h) "relay-dead-tunnel") fun _ => chk ((s.obj h).relays.contains i) "relay-index-owner-mismatch") fun _ =>
  firstBad s.pidx fun (i, h) =>
    orElse' (chk (i != 0) "pending-index-zero") fun _ =>
    orElse' (chk ((s.obj h).lidx == i) "pending-index-owner-mismatch") fun _ =>
    chk ((s.indexes.get i).isNone) "pending-main-index-overlap"

/-- Transition clauses that hold for every operation.  `fresh` = tunnels the operation is allowed to bring into
the main hostmap (the tunnel being completed). -/
def stepCheck (pre post : State) (fresh : List Nat) : Option String :=
  let mr := mainRefs post
  let ar := mr ++ pendingRefs post
  -- no tunnel enters the main hostmap except the one being added (⇒ a removed tunnel is never brought back)
  orElse' (firstBad mr fun h => chk ((mainRefs pre).contains h || fresh.contains h) "resurrected-tunnel") fun _ =>
  -- an index is only released by removing the tunnel that owns it
  orElse' (firstBad pre.indexes fun (i, h) =>
    chk (post.indexes.get i == some h || !mr.contains h) "index-released-by-non-owner") fun _ =>
  orElse' (firstBad pre.relays fun (i, h) =>
    chk (post.relays.get i == some h || !mr.contains h) "relay-index-released-by-non-owner") fun _ =>
  orElse' (firstBad pre.pidx fun (i, h) =>
    chk (post.pidx.get i == some h || post.indexes.get i == some h || !ar.contains h) "pending-index-released-by-non-owner") fun _ =>
  -- a remote index entry is only removed by the tunnel it points to (a new tunnel may shadow it)
  firstBad pre.rindexes fun (r, h) =>
    chk (post.rindexes.get r == some h || !mr.contains h ||
         (match post.rindexes.get r with | some h' => fresh.contains h' | none => false))
      "remote-index-removed-by-non-owner"

/-- What `DeleteHostInfo(h)` must do to the per-address lists. -/
def eraseList (pre : State) (h a : Nat) : List Nat := (hostList pre a).filter (· != h)

/-- "no tunnel to the peer remains" -/
def finalSpec (pre : State) (h : Nat) : Bool := (pre.obj h).addrs.all fun a => (eraseList pre h a).isEmpty

def allAddrs (s : State) : List Nat := s.hosts.keys ++ s.more.keys

/-- `DeleteHostInfo(h)`: every reference to `h` is gone, the answer is `finalSpec`, and nothing belonging to another
tunnel moved. -/
def deleteCheck (pre post : State) (h : Nat) (final : Bool) : Option String :=
  orElse' (chk (!(mainRefs post).contains h) "delete-leaves-reference") fun _ =>
  orElse' (chk (final == finalSpec pre h) "delete-final-wrong") fun _ =>
  orElse' (firstBad (allAddrs pre ++ allAddrs post) fun a =>
    chk (hostList post a == eraseList pre h a) "delete-disturbs-address-list") fun _ =>
  orElse' (firstBad post.indexes fun (i, x) => chk (pre.indexes.get i == some x) "delete-adds-index") fun _ =>
  orElse' (firstBad post.relays fun (i, x) => chk (pre.relays.get i == some x) "delete-adds-relay-index") fun _ =>
  firstBad post.rindexes fun (i, x) => chk (pre.rindexes.get i == some x) "delete-adds-remote-index"

/-- an index handed out for a pending tunnel: non-zero and not held in the pending ∪ main namespace -/
def handedOutCheck (pre : State) (idx : Nat) : Option String :=
  orElse' (chk (idx != 0) "handed-out-zero-index") fun _ =>
  chk ((pre.indexes.get idx).isNone && (pre.pidx.get idx).isNone) "handed-out-held-index"

/-- a relay index handed out: non-zero and not held in `Relays` -/
def relayHandedOutCheck (pre : State) (idx : Nat) : Option String :=
  orElse' (chk (idx != 0) "handed-out-zero-relay-index") fun _ =>
  chk ((pre.relays.get idx).isNone) "handed-out-held-relay-index"

end Nebula.Spec.HostMap
