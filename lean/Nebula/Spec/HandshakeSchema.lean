/-
Specification for C08: the proto3 schema of `handshake/handshake.proto`

  message NebulaHandshake        { NebulaHandshakeDetails Details = 1; bytes Hmac = 2; }
  message NebulaHandshakeDetails { bytes Cert = 1; uint32 InitiatorIndex = 2; uint32 ResponderIndex = 3;
                                   uint64 Cookie = 4; uint64 Time = 5; uint32 CertVersion = 8; }

read the way a schema-driven protobuf implementation reads it (two phases, written independently of
`payload.go`): *tokenise* the bytes into (field number, wire value) records, then *interpret* the
records against the schema — last occurrence of a singular scalar wins, repeated occurrences of the
embedded message merge, a known number with an unexpected wire type is an unknown field and is
skipped, `uint32` fields keep the low 32 bits, numbers above 2^29−1 are refused.  This is what
`google.golang.org/protobuf` (`proto.Unmarshal` on the schema's descriptor) does; the correspondence
stream `payload` compares this specification with that library on every run.
-/
import Nebula.Base.Wire

namespace Nebula.Spec.HandshakeSchema
open Nebula.Wire

/-- A wire value. Fixed-width and group values are only ever skipped by this schema (a group's
content is not kept). -/
inductive Val
  | varint (v : Nat) | bytes (b : Bytes) | fixed32 (b : Bytes) | fixed64 (b : Bytes) | group
  deriving DecidableEq, Repr

structure Tok where
  num : Nat
  val : Val
  deriving DecidableEq, Repr

/-- `protowire.MaxValidNumber`. -/
def maxValidNumber : Nat := 2 ^ 29 - 1

/-- The value of one record (the bytes after its tag) and the number of bytes it occupies. -/
def fieldTok (num typ : Nat) (b : Bytes) : Option (Val × Nat) :=
  if typ = VarintType then
    match consumeVarint b with
    | .error _ => none
    | .ok (v, m) => some (.varint v, m)
  else if typ = BytesType then
    match consumeBytes b with
    | .error _ => none
    | .ok (v, m) => some (.bytes v, m)
  else
    match consumeFieldValue num typ b with
    | .error _ => none
    | .ok m =>
      some (if typ = Fixed32Type then .fixed32 (b.take 4)
            else if typ = Fixed64Type then .fixed64 (b.take 8) else .group, m)

/-- Phase 1: split a message into records. `none`: malformed. -/
def tokenize : Nat → Bytes → Option (List Tok)
  | 0, _ => none
  | fuel + 1, b =>
    if b.isEmpty then some [] else
    match consumeTag b with
    | .error _ => none
    | .ok (num, typ, n) =>
      if num > maxValidNumber then none else
      match fieldTok num typ (b.drop n) with
      | none => none
      | some (v, m) => (tokenize fuel ((b.drop n).drop m)).map (⟨num, v⟩ :: ·)

structure Details where
  cert : Bytes := []
  initiatorIndex : Nat := 0
  responderIndex : Nat := 0
  cookie : Nat := 0
  time : Nat := 0
  certVersion : Nat := 0
  deriving DecidableEq, Repr

/-- Field values a schema message can hold (`uint32` / `uint64` ranges; Go slice lengths). -/
def Details.inRange (d : Details) : Prop :=
  d.cert.length < 2 ^ 64 ∧ d.initiatorIndex < 2 ^ 32 ∧ d.responderIndex < 2 ^ 32 ∧ d.cookie < 2 ^ 64 ∧
  d.time < 2 ^ 64 ∧ d.certVersion < 2 ^ 32

structure Msg where
  hasDetails : Bool := false
  details : Details := {}
  hmac : Bytes := []
  deriving DecidableEq, Repr

/-- Phase 2, `NebulaHandshakeDetails`. -/
def applyDetails (d : Details) (t : Tok) : Details :=
  match t.num, t.val with
  | 1, .bytes b => { d with cert := b }
  | 2, .varint v => { d with initiatorIndex := v % 2 ^ 32 }
  | 3, .varint v => { d with responderIndex := v % 2 ^ 32 }
  | 4, .varint v => { d with cookie := v }
  | 5, .varint v => { d with time := v }
  | 8, .varint v => { d with certVersion := v % 2 ^ 32 }
  | _, _ => d

/-- Phase 2, `NebulaHandshake`. -/
def applyMsg (m : Option Msg) (t : Tok) : Option Msg :=
  match m with
  | none => none
  | some m =>
    match t.num, t.val with
    | 1, .bytes b =>
      match tokenize (b.length + 1) b with
      | none => none
      | some ts => some { m with hasDetails := true, details := ts.foldl applyDetails m.details }
    | 2, .bytes b => some { m with hmac := b }
    | _, _ => some m

def decode (b : Bytes) : Option Msg :=
  match tokenize (b.length + 1) b with
  | none => none
  | some ts => ts.foldl applyMsg (some {})

/-- Canonical proto3 encoding (fields in number order, default values omitted, an embedded message
that is present is written even when empty). -/
def encodeDetails (d : Details) : Bytes :=
  (if d.cert ≠ [] then appendTag 1 BytesType ++ appendBytes d.cert else []) ++
  (if d.initiatorIndex ≠ 0 then appendTag 2 VarintType ++ appendVarint d.initiatorIndex else []) ++
  (if d.responderIndex ≠ 0 then appendTag 3 VarintType ++ appendVarint d.responderIndex else []) ++
  (if d.cookie ≠ 0 then appendTag 4 VarintType ++ appendVarint d.cookie else []) ++
  (if d.time ≠ 0 then appendTag 5 VarintType ++ appendVarint d.time else []) ++
  (if d.certVersion ≠ 0 then appendTag 8 VarintType ++ appendVarint d.certVersion else [])

/-! ### arbitrary (not only canonical) well-formed encodings: any sequence of records -/

def Val.typ : Val → Nat
  | .varint _ => VarintType | .bytes _ => BytesType | .fixed32 _ => Fixed32Type
  | .fixed64 _ => Fixed64Type | .group => StartGroupType

def Val.encode : Val → Bytes
  | .varint v => appendVarint v
  | .bytes b => appendBytes b
  | .fixed32 b => b
  | .fixed64 b => b
  | .group => []

def Tok.encode (t : Tok) : Bytes := appendTag t.num t.val.typ ++ t.val.encode

def encodeToks (ts : List Tok) : Bytes := (ts.map Tok.encode).flatten

/-- A record a protobuf writer can produce (groups are left out: proto3 has none). -/
def Tok.wf (t : Tok) : Prop :=
  1 ≤ t.num ∧ t.num ≤ maxValidNumber ∧
  match t.val with
  | .varint v => v < 2 ^ 64
  | .bytes b => b.length < 2 ^ 64
  | .fixed32 b => b.length = 4
  | .fixed64 b => b.length = 8
  | .group => False

/-- A record of `NebulaHandshakeDetails` written by a writer that follows the schema: the schema's
wire type for the known numbers and `uint32` values in range. Unknown numbers are unconstrained. -/
def Tok.conforms (t : Tok) : Prop :=
  (t.num = 1 → ∃ b, t.val = .bytes b) ∧
  (t.num = 2 ∨ t.num = 3 ∨ t.num = 8 → ∃ v, t.val = .varint v ∧ v < 2 ^ 32) ∧
  (t.num = 5 → ∃ v, t.val = .varint v)

def encode (m : Msg) : Bytes :=
  (if m.hasDetails then appendTag 1 BytesType ++ appendBytes (encodeDetails m.details) else []) ++
  (if m.hmac ≠ [] then appendTag 2 BytesType ++ appendBytes m.hmac else [])

end Nebula.Spec.HandshakeSchema
