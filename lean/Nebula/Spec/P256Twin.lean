/-
Specification side of the P-256 signature twin (C02): the unique minimal DER encoding of an ECDSA signature
`SEQUENCE { INTEGER r, INTEGER s }` as a function of the two numbers, and the twin `(r, N - s)`. Independent of
the line-by-line model of `cert/p256` (`Model/P256Sig.lean`), which is proved to compute exactly this
(`Props/C02Twin.lean`). Core Lean only.
-/
import Nebula.Base.Der
import Nebula.Model.P256

namespace Nebula.P256Twin
open Nebula.Der

/-- base-256 digits of `n`, most significant first, no leading zero (`[]` for 0); `fuel` bounds the number of
digits (structural recursion, so that closed terms evaluate everywhere). -/
def natBytesAux : Nat → Nat → Bytes
  | 0, _ => []
  | fuel + 1, n => if n = 0 then [] else natBytesAux fuel (n / 256) ++ [UInt8.ofNat (n % 256)]

def natBytes (n : Nat) : Bytes := natBytesAux n n

/-- DER INTEGER content octets of a non-negative number: minimal, with a 0x00 pad exactly when the top bit of
the first digit is set (`[0]` for 0). -/
def intContent (n : Nat) : Bytes :=
  match natBytes n with
  | [] => [0]
  | b :: rest => if b &&& 0x80 != 0 then 0 :: b :: rest else b :: rest

def encInt (n : Nat) : Bytes := encTLV 0x02 (intContent n)

/-- the minimal DER encoding of the signature `(r, s)`. -/
def encSig (r s : Nat) : Bytes := encTLV 0x30 (encInt r ++ encInt s)

/-- lenient reading: SEQUENCE of two INTEGER elements read as unsigned numbers, whatever their padding, and
whatever follows. Used only to tell "right numbers, wrong encoding" from "wrong numbers". -/
def lenientSig (b : Bytes) : Option (Nat × Nat) :=
  match readASN1 0x30 b with
  | none => none
  | some (inner, _) =>
    match readASN1 0x02 inner with
    | none => none
    | some (rc, i2) =>
      match readASN1 0x02 i2 with
      | none => none
      | some (sc, _) => some (beNat rc, beNat sc)

/-- the numbers of a signature given in the unique minimal DER form (`none` for every other byte string). -/
def decSig (b : Bytes) : Option (Nat × Nat) :=
  match lenientSig b with
  | none => none
  | some (r, s) => if encSig r s = b then some (r, s) else none

/-- a signature `Swap` / `Normalize` must handle: both numbers positive, `s` below the group order. -/
def wellFormed (r s : Nat) : Bool := decide (0 < r ∧ 0 < s ∧ s < P256.N)

/-- the other form. -/
def twinSig (r s : Nat) : Bytes := encSig r (P256.N - s)

/-- `Normalize`: the low-S form. -/
def lowSig (r s : Nat) : Bytes := if s ≤ P256.halfN then encSig r s else twinSig r s

/-- two byte strings are the two forms of one signature. -/
def areTwins (a b : Bytes) : Bool :=
  match decSig a, decSig b with
  | some (r, s), some (r', s') => wellFormed r s && r == r' && s + s' == P256.N
  | _, _ => false

end Nebula.P256Twin
