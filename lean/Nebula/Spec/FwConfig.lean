/-
Specification for C22: what a firewall rule in the configuration *says*.

  port text   : `any` | `fragment` | a decimal numeral 0…65535 (`0` = any) | `a-b` (two such numerals, blanks
                allowed around each) — nothing else. The numeral's value is its ordinary (unbounded) decimal value,
                then compared with 65535: no truncation, no sign, no other base, ASCII digits only.
  which ports : `any` and `0` describe every port (0 is the documented wildcard: "Takes `0` or `any` as any"),
                `fragment` describes non-first fragments (−1), `n` describes port n, `a-b` describes the ports
                a…b — and therefore every port when the range contains the wildcard 0 (reading of F21).
  a rule loads: known protocol ∧ (icmp ∨ valid port text with a ≤ b) ∧ not both `port` and `code` ∧ at least one of
                host, group(s), cidr, local_cidr, ca_name, ca_sha ∧ cidr / local_cidr are "", `any` or parse.
Core Lean only.
-/
import Nebula.Model.FwConfig

namespace Nebula.Spec.FwCfg
open Nebula.Net Nebula.Fw Nebula.FwCfg

/-- ordinary decimal value of a non-empty string of ASCII digits. -/
def decimalValue (s : List Char) : Option Nat :=
  if s = [] then none
  else s.foldl (fun acc c =>
    match acc, (if '0' ≤ c ∧ c ≤ '9' then some (c.toNat - 48) else none) with
    | some n, some d => some (n * 10 + d)
    | _, _ => none) (some 0)

/-- a port numeral: decimal, at most 65535. -/
def portNumeral (s : List Char) : Option Nat :=
  match decimalValue s with
  | some n => if n ≤ 65535 then some n else none
  | none => none

inductive PortText where
  | any
  | fragment
  | single (n : Nat)
  | range (a b : Nat)
  deriving DecidableEq, Repr

def stripBlanks (s : List Char) : List Char :=
  ((s.dropWhile (· = ' ')).reverse.dropWhile (· = ' ')).reverse

/-- what a port text says, `none` if it says nothing valid. -/
def portText (s : String) : Option PortText :=
  if s = "any" then some .any
  else if s = "fragment" then some .fragment
  else if s.toList.contains '-' then
    let l := stripBlanks (s.toList.takeWhile (· ≠ '-'))
    let r := stripBlanks ((s.toList.dropWhile (· ≠ '-')).drop 1)
    match portNumeral l, portNumeral r with
    | some a, some b => some (.range a b)
    | _, _ => none
  else (portNumeral s.toList).map .single

/-- the port numbers (−1 = "non-first fragment") a port text describes. -/
def PortText.admits : PortText → Int → Bool
  | .any, _ => true
  | .fragment, x => x = -1
  | .single n, x => n = 0 ∨ x = n
  | .range a b, x => a = 0 ∨ (a ≤ x ∧ x ≤ b)

/-- the port numbers a loaded rule with `[start, end]` admits (C16's `portOK` for a non-ICMP packet). -/
def rangeAdmits (startPort endPort x : Int) : Bool :=
  (startPort ≤ x ∧ x ≤ endPort) ∨ (startPort ≤ 0 ∧ 0 ≤ endPort)

/-- the `AddRule` port arguments a port text stands for. -/
def PortText.bounds : PortText → Int × Int
  | .any => (0, 0)
  | .fragment => (-1, -1)
  | .single n => (n, n)
  | .range a b => (a, b)

/-- the class F21 is about: a range whose first number is 0. -/
def PortText.zeroRange : PortText → Bool
  | .range a _ => a = 0
  | _ => false

def cidrOK (parsePrefix : String → Option Prefix) (s : String) : Bool :=
  s = "" ∨ s = "any" ∨ (parsePrefix s).isSome

/-- the port text is valid and its range is not reversed (a range starting at 0 loads whatever its end). -/
def portTextLoads (s : String) : Bool :=
  match portText s with
  | some t => t.zeroRange || decide (t.bounds.1 ≤ t.bounds.2)
  | none => false

/-- a converted rule loads. -/
def ruleLoads (parsePrefix : String → Option Prefix) (r : CRule) : Bool :=
  ¬ (r.code ≠ "" ∧ r.port ≠ "")
  ∧ (r.host ≠ "" ∨ r.groups ≠ [] ∨ r.cidr ≠ "" ∨ r.localCidr ≠ "" ∨ r.caName ≠ "" ∨ r.caSha ≠ "")
  ∧ (r.proto = "icmp"
      ∨ ((r.proto = "any" ∨ r.proto = "tcp" ∨ r.proto = "udp")
          ∧ portTextLoads (if r.code ≠ "" then r.code else r.port)))
  ∧ cidrOK parsePrefix r.cidr ∧ cidrOK parsePrefix r.localCidr

def protoNumber (s : String) : Nat :=
  if s = "tcp" then 6 else if s = "udp" then 17 else if s = "icmp" then 1 else 0

end Nebula.Spec.FwCfg
