/-
Specification of C37 (candidate address list of a peer), independent of the code's comparator cascade.

The list is the duplicate-free enumeration, in increasing `key` order, of every address that some source
currently contributes (learned and reported entries of every owner, resolved addresses admitted by the
filter) and that is not blocked. `key` orders: preferred ranges first; inside each group IPv6, then public
IPv4, then private IPv4; then by address; then by port.
Core Lean only.
-/
import Nebula.Model.RemoteList

namespace Nebula.Spec.RemoteList
open Nebula.Net Nebula.RemoteList

/-- 0 = IPv6, 1 = public IPv4, 2 = private IPv4. -/
def famClass (a : Addr) : Nat :=
  if a.fam == .v6 then 0 else if isPrivate4 a then 2 else 1

/-- sort key (addresses are below 2^128, ports below 2^16). -/
def key (pref : List Prefix) (a : AP) : Nat :=
  (((if isPreferred a.addr pref then 0 else 1) * 3 + famClass a.addr) * 2 ^ 128 + a.addr.val) * 2 ^ 16 + a.port

def AP.WF (a : AP) : Prop := a.addr.WF ∧ a.port < 2 ^ 16

/-- what the sources contribute right now. -/
def sources (r : RL) (shouldAdd : Option (List Addr → Addr → Bool)) : List AP :=
  r.cache.flatMap (fun e => e.2.sources) ++
    (r.hr.getD []).filter (fun a => match shouldAdd with | none => true | some f => f r.vpnAddrs a.addr)

/-- the candidate set: contributed and not blocked. -/
def candidates (r : RL) (shouldAdd : Option (List Addr → Addr → Bool)) : List AP :=
  (sources r shouldAdd).filter (fun a => !r.badRemotes.contains a)

/-- `l` is the candidate list demanded by the property. -/
def IsCandidateList (pref : List Prefix) (cands : List AP) (l : List AP) : Prop :=
  l.Nodup ∧ (∀ x, x ∈ l ↔ x ∈ cands) ∧ l.Pairwise (fun a b => key pref a < key pref b)

/-- executable reference: insertion into a strictly increasing list. -/
def insertSorted {α : Type} (k : α → Nat) (x : α) : List α → List α
  | [] => [x]
  | y :: ys => if k x < k y then x :: y :: ys else if k x = k y then y :: ys else y :: insertSorted k x ys

def refList (pref : List Prefix) (cands : List AP) : List AP := cands.foldr (insertSorted (key pref)) []

/-- relays: key = family then value (`netip.Addr.Compare`). -/
def relayKey (a : Addr) : Nat := (if a.fam == .v6 then 1 else 0) * 2 ^ 128 + a.val

def IsRelayList (reported : List Addr) (l : List Addr) : Prop :=
  l.Nodup ∧ (∀ x, x ∈ l ↔ x ∈ reported) ∧ l.Pairwise (fun a b => relayKey a < relayKey b)

def refRelays (reported : List Addr) : List Addr := reported.foldr (insertSorted relayKey) []

end Nebula.Spec.RemoteList
