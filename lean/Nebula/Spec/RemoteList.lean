/-
Specification of C37 (candidate address list of a peer), independent of the code's comparator cascade.

The list is the duplicate-free enumeration, in increasing `before` order, of every address that some source
currently contributes (learned and reported entries of every owner, resolved addresses admitted by the
filter) and that is not blocked. `before` orders: preferred ranges first; inside each group IPv6, then public
IPv4, then private IPv4; then by address; then by port.
Core Lean only.
-/
import Nebula.Model.RemoteList

namespace Nebula.Spec.RemoteList
open Nebula.Net Nebula.RemoteList

/-- 0 = IPv6, 1 = public IPv4, 2 = private IPv4. -/
def famClass (a : Addr) : Nat :=
  if a.fam == .v6 then 0 else if isPrivate4 a then 2 else 1

/-- group: preferred ranges first; inside each, IPv6, public IPv4, private IPv4. -/
def group (pref : List Prefix) (a : AP) : Nat :=
  (if isPreferred a.addr pref then 0 else 1) * 3 + famClass a.addr

/-- `a` comes strictly before `b`: by group, then address, then port. -/
def before (pref : List Prefix) (a b : AP) : Bool :=
  decide (group pref a < group pref b) ||
    (group pref a == group pref b &&
      (decide (a.addr.val < b.addr.val) || (a.addr.val == b.addr.val && decide (a.port < b.port))))

/-- what the sources contribute right now. -/
def sources (r : RL) (shouldAdd : Option (List Addr → Addr → Bool)) : List AP :=
  r.cache.flatMap (fun e => e.2.sources) ++
    (r.hr.getD []).filter (fun a => match shouldAdd with | none => true | some f => f r.vpnAddrs a.addr)

/-- the candidate set: contributed and not blocked. -/
def candidates (r : RL) (shouldAdd : Option (List Addr → Addr → Bool)) : List AP :=
  (sources r shouldAdd).filter (fun a => !r.badRemotes.contains a)

/-- `l` is the candidate list demanded by the property. -/
def IsCandidateList (pref : List Prefix) (cands : List AP) (l : List AP) : Prop :=
  l.Nodup ∧ (∀ x, x ∈ l ↔ x ∈ cands) ∧ l.Pairwise (fun a b => before pref a b = true)

/-- executable reference: insertion into a strictly increasing list. -/
def insertSorted {α : Type} [DecidableEq α] (lt : α → α → Bool) (x : α) : List α → List α
  | [] => [x]
  | y :: ys => if x = y then y :: ys else if lt x y then x :: y :: ys else y :: insertSorted lt x ys

def refList (pref : List Prefix) (cands : List AP) : List AP := cands.foldr (insertSorted (before pref)) []

/-- relays: `netip.Addr.Compare` order (family, then value). -/
def IsRelayList (reported : List Addr) (l : List Addr) : Prop :=
  l.Nodup ∧ (∀ x, x ∈ l ↔ x ∈ reported) ∧ l.Pairwise (fun a b => a.lt b = true)

def refRelays (reported : List Addr) : List Addr := reported.foldr (insertSorted Addr.lt) []

end Nebula.Spec.RemoteList
