/-
Specification of the configuration side of C48, written independently of the Go control flow:
which values of `lighthouse.calculated_remotes` are configurations at all, which (range, mask, port) entries such a
configuration consists of, and which configuration is *in force* after a history of (re)starts and reloads —
the last one that was a configuration ("a calculated remote … is only produced for overlay addresses inside the
configured range": configured = in the configuration in force).  Only the input vocabulary (`CfgV` …) is shared
with the model.
-/
import Nebula.Spec.CalcRemote
import Nebula.Model.CalcRemoteCfg

namespace Nebula.Spec.CalcRemote
open Nebula.Net Nebula.CalcRemote

def pfxOK (p : Prefix) : Bool := decide (p.addr.val < 2 ^ p.addr.fam.bits) && decide (p.len ≤ p.addr.fam.bits)

/-- a list element is an entry: a map with a mask string denoting a prefix of the range's family and a port
(integer or decimal string) in `0..65535`. -/
def itemEntry (cidr : Prefix) : ItemV → Option Entry
  | .entry (.str (.ok m)) (.int n) | .entry (.str (.ok m)) (.str n) =>
    if pfxOK m && decide (m.addr.fam = cidr.addr.fam) && decide (0 ≤ n) && decide (n ≤ 65535) then
      some { cidr := cidr, mask := m, port := n.toNat }
    else none
  | _ => none

def allSome {α : Type} : List (Option α) → Option (List α)
  | [] => some []
  | none :: _ => none
  | some a :: rest => (allSome rest).map (a :: ·)

/-- a range: a key denoting a prefix, whose value is a list of entries. -/
def rangeEntries : PfxV × EntV → Option (Prefix × List Entry)
  | (.ok cidr, .list items) =>
    if pfxOK cidr then (allSome (items.map (itemEntry cidr))).map (fun l => (cidr, l)) else none
  | _ => none

/-- `none`: not a configuration (rejected); `some none`: nothing configured; `some (some ranges)`. -/
def cfgRanges : CfgV → Option (Option (List (Prefix × List Entry)))
  | .absent => some none
  | .nonMap _ => none
  | .map es => (allSome (es.map rangeEntries)).map some

def cfgValid (c : CfgV) : Bool := (cfgRanges c).isSome

/-- every (range, mask, port) entry of a configuration. -/
def cfgEntries (c : CfgV) : List Entry :=
  match cfgRanges c with
  | some (some rs) => rs.flatMap (·.2)
  | _ => []

/-- The configuration in force: a start with a configuration puts it in force (a start with anything else leaves
no lighthouse), a reload with a configuration replaces it, a reload with anything else changes nothing. -/
def inForce1 (cur : Option CfgV) : CfgOp → Option CfgV
  | .load c => if cfgValid c then some c else none
  | .reload c => match cur with
    | none => none
    | some old => if cfgValid c then some c else some old
  | .reloadEarlierErr _ => cur      -- the reload was rejected (another section is invalid): nothing changes

def inForce (cur : Option CfgV) : List CfgOp → Option CfgV
  | [] => cur
  | op :: rest => inForce (inForce1 cur op) rest

end Nebula.Spec.CalcRemote
