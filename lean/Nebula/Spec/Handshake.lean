/-
Specification predicates for C05 / C06 / C07 (what the properties demand of one `ProcessPacket`
step and of a pair of completed handshakes), written over the oracle answers only — independent of
the Machine model's control flow.
-/
import Nebula.Model.Machine

namespace Nebula.Spec.Handshake
open Nebula.Wire Nebula.Machine

/-- C05: the step in which a peer certificate is legitimately accepted — the noise read succeeded
(so `peerStatic` is the static key the peer used in this exchange), the certificate recombined with
exactly that key, and the trust check accepted it as `cert`. -/
def accepts (rd : ReadOut) (co : CertOut) (cert : CertId) : Bool :=
  match rd, co.recombine, co.verify with
  | .ok _ _ _ ps, some (pub, _), some v => pub == ps && v == cert
  | _, _, _ => false

/-- `PeerStatic()` after a successful noise read: the static key the peer used in this exchange. -/
def readStatic : ReadOut → Option Bytes
  | .ok _ _ _ ps => some ps
  | .err _ => none

/-- C05: the step carried a payload with a usable remote index (the completed result reports it). -/
def carriesIndex (initiator : Bool) (rd : ReadOut) : Bool :=
  match rd with
  | .ok msg _ _ _ =>
    (match Payload.unmarshalPayload msg with
     | .ok p => (if initiator then p.responderIndex else p.initiatorIndex) != 0
     | _ => false)
  | _ => false

/-- C07: a rejection that leaves the handshake usable must not have touched the noise transcript. -/
def rejectionClean (rd : ReadOut) : Bool :=
  match rd with
  | .err mutated => !mutated
  | _ => true

/-- C06: two results pair up. `cs1` is the initiator→responder cipher state of the shared session. -/
def paired (i r : Result) : Bool :=
  i.initiator && !r.initiator &&
  i.eKey == r.dKey && i.dKey == r.eKey && i.eKey != i.dKey &&
  i.remoteIndex == r.localIndex && r.remoteIndex == i.localIndex &&
  i.messageIndex == r.messageIndex &&
  i.localIndex != 0 && r.localIndex != 0

end Nebula.Spec.Handshake
