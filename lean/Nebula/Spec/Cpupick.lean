/-
Specification for C46, written independently of the code.

Pin list: "contains only allowed CPUs, has no duplicates, contains every candidate of the chosen NUMA node
(or all candidates when none is large enough), lists CPU 0's physical core last with CPU 0 itself at the
very end".  CPU list syntax *as the kernel prints it* (`%*pbl`): decimal numbers and ranges `N-M` (`N ≤ M`)
separated by single commas — no signs, no spaces, no stride groups.
-/
namespace Nebula.Spec.Cpupick

/-- `out` is a rearrangement of `set` (both without duplicates): same length, same members. -/
def sameMembers (out set : List Int) : Bool :=
  out.length == set.length && set.all (fun c => out.contains c) && out.all (fun c => set.contains c)

def hasDup : List Int → Bool
  | [] => false
  | c :: rest => rest.contains c || hasDup rest

/-- once a CPU of CPU 0's core (or CPU 0) appears, only such CPUs follow; CPU 0, when present, is last. -/
def zeroCoreLast (onZero : Int → Bool) (out : List Int) : Bool :=
  let tail := out.dropWhile (fun c => !(c == 0 || onZero c))
  tail.all (fun c => c == 0 || onZero c) && (!out.contains 0 || out.getLast? == some 0)

/-- The clauses of the property on a pin list; `none` = all hold, otherwise the name of the violated clause. -/
def checkPinList (cands : List Int) (nodeOf : Int → Int) (onZero : Int → Bool) (routines : Int) (out : List Int) :
    Option String :=
  if !out.all (fun c => cands.contains c) then some "pin-not-allowed"
  else if hasDup out then some "pin-duplicate"
  else
    let nodes := (cands.map nodeOf).eraseDups
    let big := nodes.filter (fun n => ((cands.filter (fun c => nodeOf c == n)).length : Int) ≥ routines)
    let okSet := if big.isEmpty then sameMembers out cands
      else big.any (fun n => sameMembers out (cands.filter (fun c => nodeOf c == n)))
    if !okSet then some "pin-node-set"
    else if !zeroCoreLast onZero out then some "pin-zero-core-not-last"
    else none

/-! ### cpulist syntax as the kernel prints it -/

def isDigit (c : Nat) : Bool := 0x30 ≤ c && c ≤ 0x39

def numVal (ds : List Nat) : Nat := ds.foldl (fun acc c => acc * 10 + (c - 0x30)) 0

/-- split on commas (every comma separates; an empty string has one empty item). -/
def items : List Nat → List (List Nat)
  | [] => [[]]
  | c :: rest =>
    if c = 0x2c then [] :: items rest
    else match items rest with
      | p :: ps => (c :: p) :: ps
      | [] => [[c]]

/-- one printed item: `N` or `N-M` with `N ≤ M`; result `(N, M)`. -/
def item (s : List Nat) : Option (Nat × Nat) :=
  let lo := s.takeWhile isDigit
  let rest := s.dropWhile isDigit
  if lo.isEmpty then none else
  match rest with
  | [] => some (numVal lo, numVal lo)
  | 0x2d :: hi =>
    if hi.isEmpty || !hi.all isDigit then none
    else if numVal lo ≤ numVal hi then some (numVal lo, numVal hi) else none
  | _ => none

/-- the printed grammar: `""` (empty mask) or items joined by single commas. -/
def printed? (s : List Nat) : Option (List (Nat × Nat)) :=
  if s.isEmpty then some [] else (items s).mapM item

def expand (rs : List (Nat × Nat)) : List Int :=
  rs.flatMap (fun r => (List.range (r.2 - r.1 + 1)).map (fun (i : Nat) => ((r.1 + i : Nat) : Int)))

/-! ### the kernel's printer (`%*pbl`): what `parseCPUList` has to read back -/

def printNum (n : Nat) : List Nat :=
  if n < 10 then [0x30 + n] else printNum (n / 10) ++ [0x30 + n % 10]

/-- a single CPU prints as `N`, a run of several as `N-M`. -/
def printItem (r : Nat × Nat) : List Nat :=
  if r.1 = r.2 then printNum r.1 else printNum r.1 ++ [0x2d] ++ printNum r.2

def printList : List (Nat × Nat) → List Nat
  | [] => []
  | [r] => printItem r
  | r :: rs => printItem r ++ [0x2c] ++ printList rs

end Nebula.Spec.Cpupick
