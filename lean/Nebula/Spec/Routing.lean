/-
Specification for C40 (hash-threshold multipath, as in the Linux kernel's `fib_rebalance`), written in
unbounded arithmetic independently of the code.

The flow hash space is `0 .. 2^31 - 1`.  Gateway `i` (weights `w₀ … wₙ₋₁`, total `W`) owns the hashes
`h` with `bound (i-1) < h ≤ bound i`, where `bound i + 1` is the integer nearest to `(w₀+…+wᵢ)·2^31 / W`
(ties upwards) and `bound (-1) = -1`.
-/
namespace Nebula.Spec.Routing

def space : Nat := 2 ^ 31

/-- `q` is the integer nearest to `x / d` (ties upwards): `q - 1/2 ≤ x/d < q + 1/2`. -/
def IsNearest (q x d : Nat) : Prop := 2 * d * q ≤ 2 * x + d ∧ 2 * x + d < 2 * d * q + 2 * d

def nearest (x d : Nat) : Nat := (2 * x + d) / (2 * d)

/-- running sums `w₀, w₀+w₁, …` starting from `acc`. -/
def prefixSums : Nat → List Nat → List Nat
  | _, [] => []
  | acc, w :: ws => (acc + w) :: prefixSums (acc + w) ws

/-- the ideal bucket upper bounds of a weight list. -/
def bounds (ws : List Nat) : List Int :=
  (prefixSums 0 ws).map (fun l => (nearest (l * space) ws.sum : Int) - 1)

/-- The clauses of the property on a list of bounds for weights `ws` — what the harness oracle checks on
the implementation's answer: (a) bounds never decrease (no overlap), (b) the last bound is the top of the
hash space and the first share starts at 0 (no gap, whole space covered), (c) each share's width differs
from the exact proportional share `wᵢ·2^31/W` by less than 1. -/
def firstBad (ws : List Nat) (bs : List Int) : Option String :=
  let W := ws.sum
  if bs.length != ws.length then some "buckets-count" else
  if W == 0 then none else
  let rec go : Int → List Nat → List Int → Option String
    | _, [], _ => none
    | _, _, [] => none
    | prev, w :: ws', b :: bs' =>
      if b < prev then some "buckets-non-monotone"
      else if ((W : Int) * (b - prev) - (w : Int) * space).natAbs ≥ W then some "share-not-proportional"
      else go b ws' bs'
  match go (-1) ws bs with
  | some e => some e
  | none => if bs.getLast? != some ((space : Int) - 1) then some "buckets-last-not-max" else none

end Nebula.Spec.Routing

namespace Nebula.Spec.Routing

/-- bounds for the weights `ws` when the running weight before them is `acc` and the total is `W`. -/
def boundsFrom (acc W : Nat) (ws : List Nat) : List Int :=
  (prefixSums acc ws).map (fun l => (nearest (l * space) W : Int) - 1)

/-- Walking the gateways in order with `prev` = the previous bound (`-1` before the first): bounds never
decrease, and each share `prev < h ≤ b` has a width within 1 of the exact proportional share
`w·2^31/W` (stated without division: `|W·width − w·2^31| < W`). -/
def SharesOK (W : Nat) : Int → List Nat → List Int → Prop
  | _, [], [] => True
  | prev, w :: ws, b :: bs =>
    prev ≤ b ∧ ((W : Int) * (b - prev) - (w : Int) * space).natAbs < W ∧ SharesOK W b ws bs
  | _, _, _ => False

/-- hash `h` lies in the share of gateway `i`: above the previous bound (`-1` before the first), at most its own. -/
def InShare (bs : List Int) (i : Nat) (h : Int) : Prop :=
  (if i = 0 then (-1 : Int) else bs.getD (i - 1) 0) < h ∧ h ≤ bs.getD i 0

end Nebula.Spec.Routing
