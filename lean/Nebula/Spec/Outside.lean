/-
C14 / C15 — what the properties demand of the effects of one received datagram.  Core Lean only.
-/
import Nebula.Model.Outside

namespace Nebula.Spec.Outside
open Nebula.Outside Nebula.Gen

/-- Effects that act on a tunnel / deliver / change lighthouse or relay state and are therefore allowed
only for packets authenticated by the tunnel's peer.  Not gated: the invalid-packet metric, the
`recv_error` *reply* to an unknown index, and the two message types that are unencrypted by design
(`Handshake`, which runs its own Noise authentication — C05 — and `RecvError`, accepted only under the
`accept_recv_error` policy from the tunnel's current remote — stated separately below). -/
def gated : Effect → Bool
  | .rxInvalid => false
  | .handshakeIn => false
  | .sendRecvError _ => false
  | .recvErrorClose _ => false
  | _ => true

/-- the levels of a datagram: the outer packet, then the relayed inner packets. -/
def levels : Pkt → List (Hdr × Look)
  | .mk h l none => [(h, l)]
  | .mk h l (some p) => (h, l) :: levels p

/-- the hostinfo an effect is attributed to (C15). -/
def attributed : Effect → Option Nat
  | .deliver hid => some hid
  | .reject hid => some hid
  | .lighthouse hid => some hid
  | .testReply hid => some hid
  | .close hid => some hid
  | .control hid => some hid
  | _ => none

end Nebula.Spec.Outside
