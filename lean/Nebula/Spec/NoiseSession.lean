/-
The Noise library as the two Machines of one handshake see it, and the LAWS of a Noise session
that the C06 composition theorem assumes (explicit hypotheses, never axioms).

`Noise σ κ β` is an interface: a handshake state `σ`, `ReadMessage` / `WriteMessage` as functions on
it, the channel binding `β` (`ChannelBinding()`, the transcript hash), the two cipher states of
`Split()` as keys `κ`, and two ghost logs: the plaintexts read and written so far.

`Lawful N` states, for the two-message IX pattern:
* bookkeeping: a successful read / a write appends its plaintext to the log; a failed read leaves
  the logs alone, and leaves the whole state alone when the transcript hash is unchanged (C07);
  cipher states are returned exactly with the second message, both or none; after the second
  message nothing can be read or written;
* the SESSION laws (the cryptographic content):
  - `agree`  — transcript agreement and read-of-write: if an initiator state and a responder state
    have both finished and report the same channel binding, then what each side read is exactly
    what the other side wrote;
  - `split_sym` — `Split` symmetry: equal channel binding ⇒ the same pair (cs1, cs2) on both sides;
  - `split_distinct` — cs1 and cs2 are different keys.
-/
import Nebula.Model.Machine

namespace Nebula.Spec.NoiseSession
open Nebula.Wire Nebula.Machine

structure Noise (σ κ β : Type) where
  read : σ → Bytes → ReadOut × σ        -- bytes after the header ↦ answer, next state
  writeOut : σ → WriteOut               -- outcome of `WriteMessage` in this state (independent of the payload)
  write : σ → Bytes → Bytes × σ         -- payload ↦ bytes on the wire, next state (when `writeOut` is ok)
  binding : σ → β
  split : σ → κ × κ
  isInit : σ → Bool
  reads : σ → List Bytes                -- ghost: plaintexts of the successful reads
  writes : σ → List Bytes               -- ghost: plaintexts written

variable {σ κ β : Type}

/-- number of handshake messages processed so far (`MessageIndex()`). -/
def Noise.total (N : Noise σ κ β) (n : σ) : Nat := (N.reads n).length + (N.writes n).length

structure Lawful (N : Noise σ κ β) : Prop where
  read_ok : ∀ n b msg k1 k2 ps n', N.read n b = (.ok msg k1 k2 ps, n') →
    N.reads n' = N.reads n ++ [msg] ∧ N.writes n' = N.writes n ∧ N.isInit n' = N.isInit n ∧
    k1 = k2 ∧ (k1 = true ↔ N.total n + 1 = 2)
  read_err : ∀ n b m n', N.read n b = (.err m, n') →
    N.reads n' = N.reads n ∧ N.writes n' = N.writes n ∧ N.isInit n' = N.isInit n ∧ (m = false → n' = n)
  read_done : ∀ n b, 2 ≤ N.total n → N.read n b = (.err false, n)
  write_out : ∀ n k1 k2, N.writeOut n = .ok k1 k2 → k1 = k2 ∧ (k1 = true ↔ N.total n + 1 = 2)
  write_log : ∀ n p, N.writes (N.write n p).2 = N.writes n ++ [p] ∧ N.reads (N.write n p).2 = N.reads n ∧
    N.isInit (N.write n p).2 = N.isInit n
  agree : ∀ a b, N.isInit a = true → N.isInit b = false → N.total a = 2 → N.total b = 2 →
    N.binding a = N.binding b → N.writes a = N.reads b ∧ N.writes b = N.reads a
  split_sym : ∀ a b, N.isInit a = true → N.isInit b = false → N.total a = 2 → N.total b = 2 →
    N.binding a = N.binding b → N.split a = N.split b
  split_distinct : ∀ a, (N.split a).1 ≠ (N.split a).2

/-! ### a toy lawful Noise (non-vacuity): no cryptography, the wire carries the plaintext, the
channel binding is the pair (messages initiator→responder, messages responder→initiator). -/

structure ToyState where
  init : Bool
  reads : List Bytes := []
  writes : List Bytes := []
  deriving DecidableEq, Repr

def toy : Noise ToyState Nat (List Bytes × List Bytes) where
  read n b :=
    if 2 ≤ n.reads.length + n.writes.length then (.err false, n)
    else (.ok b (n.reads.length + n.writes.length + 1 == 2) (n.reads.length + n.writes.length + 1 == 2)
            [if n.init then 2 else 1], { n with reads := n.reads ++ [b] })
  writeOut n :=
    if 2 ≤ n.reads.length + n.writes.length then .err
    else .ok (n.reads.length + n.writes.length + 1 == 2) (n.reads.length + n.writes.length + 1 == 2)
  write n p := (p, { n with writes := n.writes ++ [p] })
  binding n := if n.init then (n.writes, n.reads) else (n.reads, n.writes)
  split _ := (1, 2)
  isInit n := n.init
  reads n := n.reads
  writes n := n.writes

theorem toy_lawful : Lawful toy where
  read_ok := by
    intro n b msg k1 k2 ps n' h
    simp only [toy] at h
    split at h
    · simp at h
    · simp only [Prod.mk.injEq, ReadOut.ok.injEq] at h
      obtain ⟨⟨rfl, rfl, rfl, rfl⟩, rfl⟩ := h
      simp [toy, Noise.total]
  read_err := by
    intro n b m n' h
    simp only [toy] at h
    split at h
    · simp at h; obtain ⟨rfl, rfl⟩ := h; simp
    · simp at h
  read_done := by
    intro n b h
    simp only [toy, Noise.total] at h ⊢
    simp [h]
  write_out := by
    intro n k1 k2 h
    simp only [toy] at h
    split at h
    · simp at h
    · simp only [WriteOut.ok.injEq] at h
      obtain ⟨rfl, rfl⟩ := h
      simp [toy, Noise.total]
  write_log := by intro n p; simp [toy]
  agree := by
    intro a b ha hb _ _ h
    simp only [toy] at ha hb h ⊢
    simp [ha, hb] at h
    exact ⟨h.1, h.2.symm⟩
  split_sym := by intro a b _ _ _ _ _; rfl
  split_distinct := by intro a; simp [toy]

end Nebula.Spec.NoiseSession
