/-
Specification for C20 / C21: an independent structural IPv4 / IPv6 parser, written from RFC 791 and
RFC 8200 and not from nebula's code: decimal field arithmetic (`/`, `%`) instead of masks, recursion on
the *remaining bytes* instead of an offset into the packet, and no limit on the number of extension
headers.

The extension headers are exactly the ones the property names: hop-by-hop (0), routing (43),
destination options (60), fragment (44), AH (51). Everything else is an upper-layer protocol.
-/
namespace Nebula.Spec.IP

abbrev Bytes := List UInt8

/-- byte `i` of `d` as a natural number (0 when absent; callers check lengths first) -/
def byte (d : Bytes) (i : Nat) : Nat := (d.getD i 0).toNat

/-- big-endian 16-bit field at `i` -/
def be16 (d : Bytes) (i : Nat) : Nat := byte d i * 256 + byte d (i + 1)

/-- What the parser finds. -/
structure Pkt where
  version : Nat
  src : Bytes
  dst : Bytes
  /-- upper-layer protocol; for a non-first fragment the protocol named by the fragment (IPv4: the
  protocol field; IPv6: the fragment header's next-header field) -/
  proto : Nat
  /-- number of bytes before the upper-layer header (IPv6 non-first fragment: before the fragment header,
  there is no upper-layer header in such a packet) -/
  hdrLen : Nat
  nonFirstFrag : Bool
  anyFrag : Bool
  /-- the bytes from `hdrLen` on -/
  upper : Bytes
  /-- number of extension headers seen, a terminating non-first fragment header included (0 for IPv4) -/
  nExt : Nat
  deriving DecidableEq, Repr

def isExtHeader (nh : Nat) : Bool := nh == 0 || nh == 43 || nh == 44 || nh == 51 || nh == 60

/-- Result of walking an IPv6 extension-header chain. -/
inductive Chain where
  | resolved (proto off : Nat) (nonFirst anyFrag : Bool) (upper : Bytes) (nExt : Nat)
  | unresolved (nExt : Nat)
  deriving DecidableEq, Repr

/-- Walk the chain: `nh` is the type of the header that starts at the head of `rest`, `off` is the
number of bytes already consumed. Every extension header consumes at least 8 bytes of `rest`, so
`fuel > rest.length` is never exhausted (`Lemmas/PktParse.lean: walk_fuel`); `parse6` starts with
`rest.length + 1`. -/
def walk : Nat → Nat → Bytes → Nat → Bool → Nat → Chain
  | 0, _, _, _, _, k => .unresolved k
  | fuel + 1, nh, rest, off, af, k =>
    if nh = 0 ∨ nh = 43 ∨ nh = 60 then
      -- next header, length in 8-byte units not counting the first 8 bytes
      match rest with
      | next :: l :: _ =>
        let n := (l.toNat + 1) * 8
        if n ≤ rest.length then walk fuel next.toNat (rest.drop n) (off + n) af (k + 1)
        else .unresolved k
      | _ => .unresolved k
    else if nh = 44 then
      -- next header, reserved, 13-bit fragment offset | 2 reserved bits | M, identification
      match rest with
      | next :: _ :: o1 :: o2 :: _ :: _ :: _ :: _ :: tail =>
        let fragOff := o1.toNat * 32 + o2.toNat / 8
        if fragOff ≠ 0 then .resolved next.toNat off true true rest (k + 1)
        else walk fuel next.toNat tail (off + 8) true (k + 1)
      | _ => .unresolved k
    else if nh = 51 then
      -- next header, payload length in 4-byte units minus 2
      match rest with
      | next :: l :: _ =>
        let n := (l.toNat + 2) * 4
        if n ≤ rest.length then walk fuel next.toNat (rest.drop n) (off + n) af (k + 1)
        else .unresolved k
      | _ => .unresolved k
    else .resolved nh off false af rest k

/-- IPv6: 40-byte fixed header, then the chain. -/
def parse6 (d : Bytes) : Option Pkt :=
  if d.length < 40 then none else
  let rest := d.drop 40
  match walk (rest.length + 1) (byte d 6) rest 40 false 0 with
  | .resolved proto off nf af upper k =>
    some { version := 6, src := (d.drop 8).take 16, dst := (d.drop 24).take 16, proto := proto,
           hdrLen := off, nonFirstFrag := nf, anyFrag := af, upper := upper, nExt := k }
  | .unresolved _ => none

/-- IPv4: header of `ihl` 32-bit words (5 ≤ ihl), all of it present. -/
def parse4 (d : Bytes) : Option Pkt :=
  if d.length < 20 then none else
  let ihl := byte d 0 % 16
  if ihl < 5 ∨ d.length < ihl * 4 then none else
  let fragOff := (byte d 6 % 32) * 256 + byte d 7
  let moreFrags := (byte d 6 / 32) % 2 = 1
  some { version := 4, src := (d.drop 12).take 4, dst := (d.drop 16).take 4, proto := byte d 9,
         hdrLen := ihl * 4, nonFirstFrag := fragOff ≠ 0, anyFrag := fragOff ≠ 0 ∨ moreFrags,
         upper := d.drop (ihl * 4), nExt := 0 }

def parse (d : Bytes) : Option Pkt :=
  match d with
  | [] => none
  | b :: _ =>
    if b.toNat / 16 = 4 then parse4 d
    else if b.toNat / 16 = 6 then parse6 d
    else none

/-- number of extension headers the chain has before it resolves or breaks (IPv6 only) -/
def extCount (d : Bytes) : Nat :=
  if d.length < 40 then 0 else
  let rest := d.drop 40
  match walk (rest.length + 1) (byte d 6) rest 40 false 0 with
  | .resolved _ _ _ _ _ k => k
  | .unresolved k => k

/-- TCP / UDP source and destination port: the first four bytes of the upper-layer header. -/
def Pkt.ports (p : Pkt) : Option (Nat × Nat) :=
  if (p.proto = 6 ∨ p.proto = 17) ∧ ¬ p.nonFirstFrag ∧ 4 ≤ p.upper.length then
    some (be16 p.upper 0, be16 p.upper 2)
  else none

/-- ICMP message types that carry an Identifier in bytes 4–5: IPv4 echo / timestamp / information /
address-mask request and reply (RFC 792, RFC 950), ICMPv6 echo request / reply (RFC 4443). -/
def icmpHasId (version type : Nat) : Bool :=
  if version = 4 then type == 0 || type == 8 || (13 ≤ type && type ≤ 18)
  else type == 128 || type == 129

def Pkt.isIcmp (p : Pkt) : Bool := (p.version == 4 && p.proto == 1) || (p.version == 6 && p.proto == 58)

/-- the ICMP identifier, when the message has one and it is present -/
def Pkt.icmpId (p : Pkt) : Option Nat :=
  if p.isIcmp ∧ ¬ p.nonFirstFrag ∧ 6 ≤ p.upper.length ∧ icmpHasId p.version (byte p.upper 0) then
    some (be16 p.upper 4)
  else none

/-- Number of upper-layer bytes that must be present for the classification to be read off the packet
(what nebula's classifier insists on before it accepts): nothing for a non-first fragment; IPv4: the four
port bytes (the code reads them for every protocol), six for ICMP (identifier); IPv6: four for TCP / UDP
(ports) and ICMPv6 (type, code, checksum), six for an ICMPv6 echo (identifier), nothing for other protocols. -/
def Pkt.minUpper (p : Pkt) : Nat :=
  if p.nonFirstFrag then 0
  else if p.version = 4 then (if p.proto = 1 then 6 else 4)
  else if p.proto = 6 ∨ p.proto = 17 then 4
  else if p.proto = 58 then
    (if 4 ≤ p.upper.length ∧ (byte p.upper 0 = 128 ∨ byte p.upper 0 = 129) then 6 else 4)
  else 0

/-- the upper-layer header is long enough to be classified -/
def Pkt.classifiable (p : Pkt) : Bool := p.minUpper ≤ p.upper.length

/-- A reported classification (the observable fields of `firewall.ParsedPacket`). -/
structure Class where
  localAddr : Bytes
  remoteAddr : Bytes
  localPort : Nat
  remotePort : Nat
  proto : Nat
  fragment : Bool
  ipHdrLen : Nat
  fragAny : Bool
  deriving DecidableEq, Repr

/-- Ports clause of the property: a non-first fragment has no ports; TCP / UDP ports are the packet's,
oriented; an ICMP message has local port 0 and, where the message has an identifier, that identifier as
remote port (too short to hold it: not acceptable). For other protocols the property does not say
what "ports" are (IPv6 code reports 0/0, IPv4 code reports the first four payload bytes). -/
def portsOK (p : Pkt) (incoming : Bool) (c : Class) : Bool :=
  if p.nonFirstFrag then c.localPort == 0 && c.remotePort == 0
  else if p.proto = 6 ∨ p.proto = 17 then
    match p.ports with
    | some (s, t) => if incoming then c.remotePort == s && c.localPort == t
                     else c.localPort == s && c.remotePort == t
    | none => false
  else if p.isIcmp then
    c.localPort == 0 &&
      (if 1 ≤ p.upper.length ∧ icmpHasId p.version (byte p.upper 0) then
         (match p.icmpId with | some id => c.remotePort == id | none => false)
       else true)
  else true

/-- Addresses oriented for the direction: incoming ⇒ remote = source. -/
def addrsOK (p : Pkt) (incoming : Bool) (c : Class) : Bool :=
  if incoming then c.remoteAddr == p.src && c.localAddr == p.dst
  else c.localAddr == p.src && c.remoteAddr == p.dst

/-- The classification `c` is what the independent parser finds in `p`. -/
def acceptable (p : Pkt) (incoming : Bool) (c : Class) : Bool :=
  addrsOK p incoming c && c.proto == p.proto && c.fragment == p.nonFirstFrag &&
    c.fragAny == p.anyFrag && c.ipHdrLen == p.hdrLen && portsOK p incoming c

end Nebula.Spec.IP
