/-
Specification for C33 (timer wheel), independent of the wheel's slot arithmetic.

An item added at time `now` (the wheel having just been advanced to `now`) with timeout `t`:
  * capped timeout `t' = clamp tick span t` (at least one tick, at most the span),
  * rounded up to the tick: `R = ⌈t'/tick⌉·tick`,
  * it must not be returned while the wheel has only been advanced to times `≤ now + R`,
  * once the wheel has been advanced to a time `≥ now + R + tick` it must have been handed out
    (moved to the expired list, from which `Purge` returns it),
  * and it is returned exactly once.
-/
namespace Nebula.Spec.Wheel

def clamp (tick span t : Int) : Int := if t < tick then tick else if t > span then span else t

/-- number of ticks covering `t'` (ceiling division, `t' ≥ 1`, `tick ≥ 1`). -/
def ticksFor (tick t' : Int) : Int := (t' + tick - 1) / tick

def rounded (tick span t : Int) : Int := ticksFor tick (clamp tick span t) * tick

structure Pending where
  id : Nat
  earliest : Int   -- may only be returned once the wheel was advanced to a time > earliest
  latest : Int     -- must have been handed out once the wheel was advanced to a time ≥ latest
  deriving Repr

def mkPending (tick span now : Int) (id : Nat) (t : Int) : Pending :=
  { id := id, earliest := now + rounded tick span t, latest := now + rounded tick span t + tick }

end Nebula.Spec.Wheel
