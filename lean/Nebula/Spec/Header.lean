/-
Specification for C47: the documented wire layout and the documented type/subtype combinations
(header/header.go comment block and constant groups), written independently of the code.
-/
namespace Nebula.Spec.Header

/-- The documented (type, subtype) combinations:
handshake(0): ix_psk0(0); message(1): none(0), relay(1); recvError(2): none(0); lightHouse(3): none(0);
test(4): request(0), reply(1); closeTunnel(5): none(0); control(6): none(0). -/
def documented : List (Nat × Nat) :=
  [(0, 0), (1, 0), (1, 1), (2, 0), (3, 0), (4, 0), (4, 1), (5, 0), (6, 0)]

def validSubType (t s : Nat) : Bool := documented.contains (t, s)

end Nebula.Spec.Header
