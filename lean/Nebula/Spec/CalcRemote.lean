/-
Specification for C48, written independently of the code (arithmetic, no bit operations):
"A calculated remote address takes the masked bits from the configured mask address and the remaining
bits from the peer's overlay address, keeps the configured port, and is only produced for overlay
addresses inside the configured range of the same family."
-/
import Nebula.Base.Net

namespace Nebula.Spec.CalcRemote
open Nebula.Net

/-- On `w`-bit addresses: the top `len` bits of `m`, the low `w - len` bits of `a`. -/
def splice (w len m a : Nat) : Nat :=
  (m / 2 ^ (w - len)) * 2 ^ (w - len) + a % 2 ^ (w - len)

/-- bit `i` counted from the most significant bit of a `w`-bit value (`i = 0` is the first bit on the wire). -/
def msbBit (w v i : Nat) : Bool := v.testBit (w - 1 - i)

/-- One configured entry: range `cidr`, mask prefix, port. -/
structure Entry where
  cidr : Prefix
  mask : Prefix
  port : Nat

/-- An entry is usable for `a`: same family everywhere, and `a` inside the range. -/
def Entry.appliesTo (e : Entry) (a : Addr) : Bool :=
  e.cidr.contains a && e.mask.addr.fam == a.fam

/-- The (address value, port) an entry produces for overlay address `a`. -/
def Entry.produce (e : Entry) (a : Addr) : Nat × Nat :=
  (splice a.fam.bits e.mask.len e.mask.addr.val a.val, e.port)

end Nebula.Spec.CalcRemote
