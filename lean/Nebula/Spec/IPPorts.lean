/-
Specification for C20, ports clause at full strength: every reported port is *found in the packet*.

`Spec.IP.portsOK` pins the ports down only where the property names them (TCP / UDP ports, the ICMP
identifier of message types that have one, 0/0 for a non-first fragment) and leaves them free elsewhere.
"Free" is too weak for a classifier that writes into a `ParsedPacket` the data path reuses for every
packet of a routine: a port value that is not a function of the packet is the previous packet's.
`portsFromPacket` closes the gap. It is a function of the independently parsed packet, the direction and
the reported classification only:

* non-first fragment: 0 / 0 (no upper-layer header in such a packet);
* TCP / UDP: the direction-oriented pair of the first two big-endian 16-bit words of the upper-layer header;
* ICMP (IPv4 protocol 1) / ICMPv6 (IPv6 protocol 58): local port 0; remote port the 16-bit word at
  upper-layer offset 4 (the identifier) — and, for a message type *without* an identifier, alternatively 0
  (nebula's IPv4 code reports the word at offset 4 for every ICMP type, its IPv6 code reports it for echo
  only and 0 otherwise; both are readings of the packet);
* any other upper-layer protocol (SCTP, GRE, ESP, no-next-header, IPv4-in-IPv6, …): either 0 / 0 ("not
  dissected", the IPv6 code) or the direction-oriented first four upper-layer bytes when at least four
  are present (the IPv4 code reads them for every protocol).

Nothing else is acceptable: class `ports-not-from-packet`.
-/
import Nebula.Spec.IP

namespace Nebula.Spec.IP

/-- the reported ports are the direction-oriented first two 16-bit words of the upper-layer header -/
def firstFourOriented (p : Pkt) (incoming : Bool) (c : Class) : Bool :=
  decide (4 ≤ p.upper.length) &&
    (if incoming then c.remotePort == be16 p.upper 0 && c.localPort == be16 p.upper 2
     else c.localPort == be16 p.upper 0 && c.remotePort == be16 p.upper 2)

/-- the ICMP message in `p` is of a type that carries an identifier (type byte present) -/
def Pkt.icmpTypeHasId (p : Pkt) : Bool :=
  decide (1 ≤ p.upper.length) && icmpHasId p.version (byte p.upper 0)

/-- Ports clause, every case determined by the packet (see the header comment). -/
def portsFromPacket (p : Pkt) (incoming : Bool) (c : Class) : Bool :=
  if p.nonFirstFrag then c.localPort == 0 && c.remotePort == 0
  else if p.proto = 6 ∨ p.proto = 17 then firstFourOriented p incoming c
  else if p.isIcmp then
    c.localPort == 0 &&
      ((decide (6 ≤ p.upper.length) && c.remotePort == be16 p.upper 4) ||
       (!p.icmpTypeHasId && c.remotePort == 0))
  else (c.localPort == 0 && c.remotePort == 0) || firstFourOriented p incoming c

/-- The classification `c` is what the independent parser finds in `p`, ports included in every case. -/
def acceptableStrict (p : Pkt) (incoming : Bool) (c : Class) : Bool :=
  acceptable p incoming c && portsFromPacket p incoming c

end Nebula.Spec.IP
