/-
Specification side of C23, written independently of the model of `overlay/batch`.

1. `kernelSeg`: what the Linux tun/virtio-net receive path does with a `NEEDS_CSUM` (super)packet handed
   over as `virtio_net_hdr ‖ hdr ‖ thdr ‖ pays…` with `gso_size = len(pays[0])`
   (`virtio_net_hdr_to_skb` → `inet_gso_segment`/`ipv6_gso_segment` → `tcp_gso_segment`/`__udp_gso_segment`):
   the payload is cut every `gso_size` bytes; every segment gets a copy of the headers with
     IPv4: `tot_len` = segment length, `id` = id + i, header checksum recomputed;
     IPv6: `payload_len` = segment length − 40;
     TCP : `seq` += i·gso_size, FIN and PSH cleared on all but the last segment, CWR cleared on all but
           the first, checksum completed;
     UDP : `len` = 8 + segment payload, checksum completed (0 is sent as 0xffff).
   A single-fragment write (`GSO_NONE`) only gets its L4 checksum completed.
2. `mask`: the fields of a packet whose value carries no information across that path: bytes after the
   IP-declared length are dropped (the kernel trims them on input), the IPv4 header checksum and the
   TCP/UDP checksum are zeroed, and the IPv4 ID is zeroed when DF is set and the packet is not a fragment
   (RFC 6864 atomic datagram). Lengths are NOT masked: the reference segmenter writes real lengths and
   they must equal the original ones. Only plain TCP/UDP packets (IPv4 IHL 5 non-fragment, IPv6 without
   extension headers) are masked at all; every other packet must come out byte-identical.
3. `geometryOk` / `seedOk`: what `tio.Offload.WriteGSO` and the kernel require from an offloaded write.
4. `flowOf`, `pureAck`: the notion of flow and of "pure TCP ACK" used by the ordering clause.
-/
namespace Nebula.Spec.KernelGSO

abbrev Bytes := List UInt8

def get (b : Bytes) (i : Nat) : Nat := (b.getD i 0).toNat
def be16 (b : Bytes) (off : Nat) : Nat := get b off * 256 + get b (off + 1)
def be32 (b : Bytes) (off : Nat) : Nat := be16 b off * 65536 + be16 b (off + 2)
def setByte (b : Bytes) (off v : Nat) : Bytes := b.set off (UInt8.ofNat v)
def setBe16 (b : Bytes) (off v : Nat) : Bytes := setByte (setByte b off (v / 256)) (off + 1) v
def setBe32 (b : Bytes) (off v : Nat) : Bytes := setBe16 (setBe16 b off (v / 65536)) (off + 2) v

/-! ### RFC 1071 -/

def wordSum : Bytes → Nat
  | [] => 0
  | [x] => x.toNat * 256
  | x :: y :: rest => x.toNat * 256 + y.toNat + wordSum rest

/-- one's-complement 16-bit checksum of a word sum: complement of the sum reduced mod 0xffff, where a
non-zero sum that is a multiple of 0xffff reduces to 0xffff (end-around carry never produces 0 from a
non-zero sum). -/
def csumOfSum (s : Nat) : Nat :=
  let r := if s = 0 then 0 else if s % 65535 = 0 then 65535 else s % 65535
  65535 - r

/-- pseudo-header word sum for an L4 segment of `l4Len` bytes. -/
def pseudoWords (isV6 : Bool) (ip : Bytes) (proto l4Len : Nat) : Nat :=
  if isV6 then wordSum ((ip.take 40).drop 8) + l4Len / 65536 + l4Len % 65536 + proto
  else wordSum ((ip.take 20).drop 12) + proto + l4Len

/-! ### the reference segmenter -/

def chunksAux (g : Nat) : Nat → Bytes → List Bytes
  | 0, _ => []
  | fuel + 1, b => if b.isEmpty then [] else b.take g :: chunksAux g fuel (b.drop g)

/-- cut `b` every `g` bytes (the last piece may be shorter). -/
def chunks (g : Nat) (b : Bytes) : List Bytes := chunksAux g b.length b

/-- clear bit `k` of a byte value -/
def clearBit (f k : Nat) : Nat := if f / 2 ^ k % 2 = 1 then f - 2 ^ k else f

/-- complete the L4 checksum of `ip ‖ l4 ‖ pay` (the checksum field at `csumOff` inside `l4` is
overwritten). -/
def completeCsum (tcp : Bool) (ip l4 pay : Bytes) : Bytes :=
  let isV6 := get ip 0 / 16 = 6
  let off := if tcp then 16 else 6
  let l4z := setBe16 l4 off 0
  let s := pseudoWords isV6 ip (if tcp then 6 else 17) (l4.length + pay.length) + wordSum (l4z ++ pay)
  let c := csumOfSum s
  setBe16 l4 off (if !tcp ∧ c = 0 then 65535 else c)

/-- IP header of a segment of `segLen` bytes, the `i`-th of its superpacket. -/
def segIP (hdr : Bytes) (segLen i : Nat) : Bytes :=
  if get hdr 0 / 16 = 6 then setBe16 hdr 4 (segLen - 40)
  else
    let h := setBe16 hdr 2 segLen
    let h := setBe16 h 4 ((be16 hdr 4 + i) % 65536)
    let h := setBe16 h 10 0
    setBe16 h 10 (csumOfSum (wordSum h))

/-- L4 header of segment `i` of `n` (before checksum completion); `g` = gso_size, `c` its payload. -/
def segL4 (tcp : Bool) (thdr : Bytes) (g n i : Nat) (c : Bytes) : Bytes :=
  if tcp then
    let t := setBe32 thdr 4 ((be32 thdr 4 + i * g) % 4294967296)
    let f := get thdr 13
    let f := if i + 1 < n then clearBit (clearBit f 0) 3 else f      -- FIN, PSH: last segment only
    let f := if 0 < i then clearBit f 7 else f                       -- CWR: first segment only
    setByte t 13 f
  else setBe16 thdr 4 (thdr.length + c.length)

/-- segment `i` (of `n`) carrying payload piece `c`; `g` = gso_size. -/
def buildSeg (tcp : Bool) (hdr thdr : Bytes) (g n i : Nat) (c : Bytes) : Bytes :=
  let ip := segIP hdr (hdr.length + thdr.length + c.length) i
  ip ++ completeCsum tcp ip (segL4 tcp thdr g n i c) c ++ c

def enumFrom {α} : Nat → List α → List (Nat × α)
  | _, [] => []
  | i, x :: xs => (i, x) :: enumFrom (i + 1) xs

/-- what the kernel delivers for one `WriteGSO(hdr, thdr, pays, proto)`. -/
def kernelSegGSO (hdr thdr : Bytes) (pays : List Bytes) (tcp : Bool) : List Bytes :=
  match pays with
  | [] => []                                                  -- WriteGSO returns before writing anything
  | [p] => [hdr ++ completeCsum tcp hdr thdr p ++ p]          -- GSO_NONE: checksum completion only
  | p0 :: _ =>
    let g := p0.length
    let cs := chunks g pays.flatten
    (enumFrom 0 cs).map (fun ic => buildSeg tcp hdr thdr g cs.length ic.1 ic.2)

/-! ### masking -/

/-- drop what follows the IP-declared length (when that length is sane). -/
def trim (p : Bytes) : Bytes :=
  if p.length < 20 then p
  else if get p 0 / 16 = 4 then
    let t := be16 p 2
    if 20 ≤ t ∧ t ≤ p.length then p.take t else p
  else if get p 0 / 16 = 6 then
    if 40 ≤ p.length ∧ 40 + be16 p 4 ≤ p.length then p.take (40 + be16 p 4) else p
  else p

/-- plain TCP/UDP packet: `(isV6, l4 offset, isTcp)`. -/
def classify (t : Bytes) : Option (Bool × Nat × Bool) :=
  if t.length < 20 then none
  else if get t 0 = 0x45 then                                  -- IPv4, IHL 5
    if be16 t 6 % 16384 ≠ 0 then none                          -- MF or fragment offset
    else if get t 9 = 6 ∧ 40 ≤ t.length then some (false, 20, true)
    else if get t 9 = 17 ∧ 28 ≤ t.length then some (false, 20, false)
    else none
  else if get t 0 / 16 = 6 then
    if get t 6 = 6 ∧ 60 ≤ t.length then some (true, 40, true)
    else if get t 6 = 17 ∧ 48 ≤ t.length then some (true, 40, false)
    else none
  else none

def zero2 (b : Bytes) (off : Nat) : Bytes := (b.set off 0).set (off + 1) 0

def mask (p : Bytes) : Bytes :=
  let t := trim p
  match classify t with
  | none => t
  | some (isV6, l4, tcp) =>
    let t := if isV6 then t else
      let t := zero2 t 10
      if get t 6 / 64 % 2 = 1 then zero2 t 4 else t
    zero2 t (l4 + (if tcp then 16 else 6))

/-! ### acceptance of an offloaded write -/

def allButLast {α} (p : α → Bool) : List α → Bool
  | [] => true
  | [_] => true
  | x :: y :: rest => p x && allButLast p (y :: rest)

/-- sizes and header shape demanded by `tio.Offload.WriteGSO` (fragment sizes, 64 KiB cap, iovec budget)
and by the kernel (`UDP_MAX_SEGMENTS`, consistent IP / UDP length fields, header lengths). -/
def geometryOk (hdr thdr : Bytes) (pays : List Bytes) (tcp : Bool) : Bool :=
  match pays with
  | [] => false
  | p0 :: _ =>
    let g := p0.length
    let total := hdr.length + thdr.length + pays.flatten.length
    0 < g && pays.all (fun p => 0 < p.length && p.length ≤ g) && allButLast (fun p => p.length = g) pays &&
    pays.length ≤ 64 && total ≤ 65535 &&
    (if get hdr 0 / 16 = 4 then get hdr 0 = 0x45 && hdr.length = 20 && be16 hdr 2 = total
     else get hdr 0 / 16 = 6 && hdr.length = 40 && be16 hdr 4 = total - 40) &&
    (if tcp then 20 ≤ thdr.length && thdr.length = get thdr 12 / 16 * 4
     else thdr.length = 8 && be16 thdr 4 = total - hdr.length)

/-- `NEEDS_CSUM`: the L4 checksum field holds the (uninverted) pseudo-header sum for the whole L4 length,
as a one's-complement 16-bit value (any representative of the residue mod 0xffff). -/
def seedOk (hdr thdr : Bytes) (pays : List Bytes) (tcp : Bool) : Bool :=
  let isV6 := get hdr 0 / 16 = 6
  let l4Len := thdr.length + pays.flatten.length
  let seed := be16 thdr (if tcp then 16 else 6)
  let want := pseudoWords isV6 hdr (if tcp then 6 else 17) l4Len
  seed % 65535 = want % 65535 && (seed = 0 → want = 0)

/-! ### flows -/

structure Flow where
  isV6 : Bool
  src : Bytes
  dst : Bytes
  proto : Nat
  sport : Nat
  dport : Nat
  deriving DecidableEq, Repr

/-- the transport flow of a plain TCP/UDP packet (the packets the ordering clause speaks about). -/
def flowOf (p : Bytes) : Option Flow :=
  let t := trim p
  match classify t with
  | none => none
  | some (isV6, l4, tcp) =>
    some { isV6 := isV6
           src := if isV6 then (t.take 24).drop 8 else (t.take 16).drop 12
           dst := if isV6 then (t.take 40).drop 24 else (t.take 20).drop 16
           proto := if tcp then 6 else 17
           sport := be16 t l4, dport := be16 t (l4 + 2) }

/-- a TCP segment without payload whose only flags are ACK (+PSH/ECE): it "may trail later data". -/
def pureAck (p : Bytes) : Bool :=
  let t := trim p
  match classify t with
  | some (_, l4, true) =>
    let off := get t (l4 + 12) / 16 * 4
    let f := get t (l4 + 13)
    20 ≤ off && t.length = l4 + off && f / 16 % 2 = 1 && f % 8 = 0 && f / 32 % 2 = 0 && f / 128 % 2 = 0
  | _ => false

/-! ### what the packet parser (`newPacket` in outside.go) tells the coalescer -/

/-- The part of `firewall.ParsedPacket` the coalescer consumes (`Protocol`, `IPHdrLen`, `FragAny`) agrees
with the packet: for IPv4 the protocol byte, IHL·4 and "MF or offset ≠ 0"; for IPv6 with TCP/UDP directly
after the fixed header, that protocol at offset 40 and no fragmentation; and an unfragmented IPv6 packet
reported at offset 40 carries the reported protocol in its next-header byte. -/
def ppConsistent (p : Bytes) (proto ipHdrLen : Nat) (fragAny : Bool) : Bool :=
  if get p 0 / 16 = 4 then
    proto = get p 9 && ipHdrLen = get p 0 % 16 * 4 && fragAny = (be16 p 6 % 16384 ≠ 0)
  else if get p 0 / 16 = 6 then
    (if get p 6 = 6 ∨ get p 6 = 17 then proto = get p 6 && ipHdrLen = 40 && !fragAny else true) &&
    (if !fragAny ∧ ipHdrLen = 40 then proto = get p 6 else true)
  else true

end Nebula.Spec.KernelGSO
