/-
Specification for C01 / C04: the documented trust rule, written independently of the control flow of
`cert/ca_pool.go` (quantifiers instead of loops, no error kinds, no evaluation order).

  "A peer certificate is accepted at time t iff neither of its signature forms is blocklisted, its issuer
   is a trusted CA with the same curve, the CA and the certificate are both valid at t, the signature
   verifies under the CA key, and the certificate stays inside the CA's validity window, group list,
   network ranges and unsafe-network ranges."
-/
import Nebula.Model.CAPool

namespace Nebula.Spec.Trust
open Nebula.Net Nebula.Cert

/-- Validity is the closed interval `[notBefore, notAfter]`. -/
def validAt (c : Cert) (t : Int) : Prop := c.notBefore ≤ t ∧ t ≤ c.notAfter

instance (c : Cert) (t : Int) : Decidable (validAt c t) := by unfold validAt; exact inferInstance

/-- CA range `m` covers the assignment `n`: `n` is a well-formed prefix, its address lies in `m`, and `m` is
not more specific than `n`. -/
def covers (m n : Prefix) : Prop :=
  n.len ≤ n.addr.fam.bits ∧ m.contains n.addr = true ∧ m.len ≤ n.len

/-- An empty CA list is "unconstrained"; otherwise every entry of the certificate needs a covering range. -/
def netsWithin (ca sub : List Prefix) : Prop := ca = [] ∨ ∀ n ∈ sub, ∃ m ∈ ca, covers m n

def groupsWithin (ca sub : List Bytes) : Prop := ca = [] ∨ ∀ g ∈ sub, g ∈ ca

/-- The constraint part of the rule on raw fields (shared by verification of a certificate and by issuance
of a to-be-signed certificate, C04). -/
def withinFields (ca : Cert) (notBefore notAfter : Int) (groups : List Bytes)
    (networks unsafeNetworks : List Prefix) : Prop :=
  notAfter ≤ ca.notAfter ∧ ca.notBefore ≤ notBefore ∧ groupsWithin ca.groups groups ∧
  netsWithin ca.networks networks ∧ netsWithin ca.unsafeNetworks unsafeNetworks

/-- The certificate stays inside the CA's validity window, groups, networks and unsafe networks. -/
def within (ca c : Cert) : Prop :=
  withinFields ca c.notBefore c.notAfter c.groups c.networks c.unsafeNetworks

/-- Neither signature form is blocklisted (both fingerprints must be computable). -/
def notBlocked (K : Crypto) (p : Pool) (c : Cert) : Prop :=
  ∃ fp, K.fingerprint c = some fp ∧ fp ∉ p.block ∧
  ∃ fp2, K.altFingerprint c = some fp2 ∧ (fp2 = "" ∨ fp2 ∉ p.block)

/-- The trust rule. -/
def trusted (K : Crypto) (p : Pool) (t : Int) (c : Cert) : Prop :=
  notBlocked K p c ∧ c.issuer ≠ "" ∧
  ∃ ca, p.cas.lookup c.issuer = some ca ∧ ca.curve = c.curve ∧ validAt ca t ∧ validAt c t ∧
    K.checkSig c ca.publicKey = true ∧ within ca c

/-! Executable form of the rule for the line-protocol driver (proved equivalent in `Lemmas/Trust.lean`). -/

def coversB (m n : Prefix) : Bool :=
  decide (n.len ≤ n.addr.fam.bits) && m.contains n.addr && decide (m.len ≤ n.len)

def netsWithinB (ca sub : List Prefix) : Bool := ca.isEmpty || sub.all (fun n => ca.any (fun m => coversB m n))

def groupsWithinB (ca sub : List Bytes) : Bool := ca.isEmpty || sub.all (fun g => ca.contains g)

def withinFieldsB (ca : Cert) (notBefore notAfter : Int) (groups : List Bytes)
    (networks unsafeNetworks : List Prefix) : Bool :=
  decide (notAfter ≤ ca.notAfter) && decide (ca.notBefore ≤ notBefore) && groupsWithinB ca.groups groups &&
  netsWithinB ca.networks networks && netsWithinB ca.unsafeNetworks unsafeNetworks

def withinB (ca c : Cert) : Bool :=
  withinFieldsB ca c.notBefore c.notAfter c.groups c.networks c.unsafeNetworks

def validAtB (c : Cert) (t : Int) : Bool := decide (c.notBefore ≤ t) && decide (t ≤ c.notAfter)

/-- Which clause of the rule fails first (in the order of the property text); `none` = trusted.
Used by the driver to name the class of a disagreement. -/
def failingClause (K : Crypto) (p : Pool) (t : Int) (c : Cert) : Option String :=
  match K.fingerprint c, K.altFingerprint c with
  | none, _ => some "fingerprint-unavailable"
  | _, none => some "fingerprint-unavailable"
  | some fp, some fp2 =>
    if p.block.contains fp then some "blocklisted"
    else if fp2 != "" && p.block.contains fp2 then some "twin-blocklisted"
    else if c.issuer == "" then some "untrusted-issuer"
    else match p.cas.lookup c.issuer with
      | none => some "untrusted-issuer"
      | some ca =>
        if ca.curve != c.curve then some "curve"
        else if !validAtB ca t then some "ca-not-valid-at-t"
        else if !validAtB c t then some "not-valid-at-t"
        else if !K.checkSig c ca.publicKey then some "bad-signature"
        else if !withinB ca c then some "outside-ca-constraints"
        else none

def trustedB (K : Crypto) (p : Pool) (t : Int) (c : Cert) : Bool := (failingClause K p t c).isNone

end Nebula.Spec.Trust
