/-
Specification for C24, written from the property statement and RFC 791 / 8200 / 9293 / 768 (and the
kernel's TSO/USO conventions: sequence numbers advance by payload, CWR first only, FIN/PSH last only,
IPv4 ID + i), independently of the segmenter's code.

Input: the original superpacket `pkt`, the L4 offset `l4` (virtio `csum_start`), the L4 protocol, the
segment size `g`, and the list of produced segments.  `check` returns `none` when every clause holds,
otherwise the name of the first violated clause.
-/
import Nebula.Base.Csum

namespace Nebula.Spec.Segment
open Nebula.Csum

inductive L4 where
  | tcp | udp
  deriving DecidableEq, Repr

def byte (p : List UInt8) (i : Nat) : Nat := (p.getD i 0).toNat

def l4HdrLen (pkt : List UInt8) (l4 : Nat) : L4 → Nat
  | .tcp => byte pkt (l4 + 12) / 16 * 4
  | .udp => 8

def isV4 (pkt : List UInt8) : Bool := byte pkt 0 / 16 = 4

/-- ⌈n / g⌉, at least one (a header-only superpacket is one segment). -/
def expectedCount (n g : Nat) : Nat := max 1 ((n + g - 1) / g)

/-- The superpacket is one the property speaks about: the L4 header starts at or after the end of the
IP header the packet itself declares, and the whole L3+L4 header is inside the packet. -/
def wellFormed (pkt : List UInt8) (l4 : Nat) (proto : L4) : Bool :=
  let ipLen := if isV4 pkt then byte pkt 0 % 16 * 4 else 40
  (byte pkt 0 / 16 = 4 ∨ byte pkt 0 / 16 = 6) ∧ 20 ≤ ipLen ∧ ipLen ≤ l4 ∧
    (proto = .tcp → 20 ≤ l4HdrLen pkt l4 proto) ∧ l4 + l4HdrLen pkt l4 proto ≤ pkt.length

/-- Pseudo-header bytes (RFC 9293 §3.1 / RFC 8200 §8.1) for a segment `s` whose L4 part starts at `l4`. -/
def pseudoHdr (s : List UInt8) (l4 proto : Nat) : List UInt8 :=
  let len := s.length - l4
  if isV4 s then
    (s.drop 12).take 8 ++ [0, UInt8.ofNat proto] ++ put16 len
  else
    (s.drop 8).take 32 ++ put16 (len / 65536) ++ put16 (len % 65536) ++ [0, 0, 0, UInt8.ofNat proto]

def protoNum : L4 → Nat
  | .tcp => 6
  | .udp => 17

/-- bytes `[a, b)` of `x` and `y` agree except at the listed offsets. -/
def sameExcept (x y : List UInt8) (a b : Nat) (except : List Nat) : Bool :=
  (List.range (b - a)).all fun k => except.contains (a + k) || x.getD (a + k) 0 == y.getD (a + k) 0

def bit (x k : Nat) : Bool := x / 2 ^ k % 2 = 1

/-- IP-header clauses for segment `s`, the `i`-th. -/
def checkIP (pkt : List UInt8) (l4 i : Nat) (s : List UInt8) : Option String :=
  if isV4 pkt then
    let ihl := byte s 0 % 16 * 4
    if be16 s 2 ≠ s.length then some "ip-len" else
    if ¬ verifies (s.take ihl) 0 then some "ip-csum" else
    if be16 s 4 ≠ (be16 pkt 4 + i) % 65536 then some "ip-id" else
    if ¬ sameExcept s pkt 0 l4 [2, 3, 4, 5, 10, 11] then some "ip-hdr-changed" else none
  else
    if be16 s 4 + 40 ≠ s.length then some "ip-len" else
    if ¬ sameExcept s pkt 0 l4 [4, 5] then some "ip-hdr-changed" else none

/-- Transport-header clauses for segment `s`, the `i`-th of `n`, whose payload starts at payload
offset `off` of the superpacket. -/
def checkL4 (pkt : List UInt8) (l4 : Nat) (proto : L4) (n i off : Nat) (s : List UInt8) : Option String :=
  let hl := l4 + l4HdrLen pkt l4 proto
  match proto with
  | .tcp =>
    let seq := be16 s (l4 + 4) * 65536 + be16 s (l4 + 6)
    let seq0 := be16 pkt (l4 + 4) * 65536 + be16 pkt (l4 + 6)
    let f := byte s (l4 + 13)
    let f0 := byte pkt (l4 + 13)
    if seq ≠ (seq0 + off) % 4294967296 then some "tcp-seq" else
    if bit f 7 ≠ (bit f0 7 && i == 0) then some "tcp-flags-cwr" else
    if bit f 0 ≠ (bit f0 0 && i + 1 == n) then some "tcp-flags-fin" else
    if bit f 3 ≠ (bit f0 3 && i + 1 == n) then some "tcp-flags-psh" else
    if [1, 2, 4, 5, 6].any (fun k => bit f k ≠ bit f0 k) then some "tcp-flags-other" else
    if ¬ sameExcept s pkt l4 hl [l4 + 4, l4 + 5, l4 + 6, l4 + 7, l4 + 13, l4 + 16, l4 + 17] then
      some "tcp-hdr-changed" else
    if ¬ verifies (s.drop l4) (wsum (pseudoHdr s l4 6)) then some "tcp-csum" else none
  | .udp =>
    if be16 s (l4 + 4) ≠ 8 + (s.length - hl) then some "udp-len" else
    if ¬ sameExcept s pkt l4 hl [l4 + 4, l4 + 5, l4 + 6, l4 + 7] then some "udp-hdr-changed" else
    if be16 s (l4 + 6) = 0 then some "udp-csum-zero" else
    if ¬ verifies (s.drop l4) (wsum (pseudoHdr s l4 17)) then some "udp-csum" else none

/-- Clauses about one segment `s`, the `i`-th of `n`, whose payload must start at payload offset `off`. -/
def checkSeg (pkt : List UInt8) (l4 : Nat) (proto : L4) (g : Nat) (n i off : Nat) (s : List UInt8) :
    Option String :=
  let hl := l4 + l4HdrLen pkt l4 proto
  if s.length < hl then some "seg-short" else
  let pay := s.drop hl
  if pay.length > g then some "seg-size" else
  if i + 1 < n ∧ pay.length ≠ g then some "seg-size-nonlast" else
  if pay ≠ ((pkt.drop hl).drop off).take pay.length then some "payload-concat" else
  match checkIP pkt l4 i s with
  | some c => some c
  | none => checkL4 pkt l4 proto n i off s

def checkLoop (pkt : List UInt8) (l4 : Nat) (proto : L4) (g n : Nat) :
    Nat → Nat → List (List UInt8) → Option String
  | _, _, [] => none
  | i, off, s :: rest =>
    match checkSeg pkt l4 proto g n i off s with
    | some c => some c
    | none => checkLoop pkt l4 proto g n (i + 1) (off + (s.length - (l4 + l4HdrLen pkt l4 proto))) rest

/-- The whole property for one superpacket. -/
def check (pkt : List UInt8) (l4 : Nat) (proto : L4) (g : Nat) (segs : List (List UInt8)) : Option String :=
  let hl := l4 + l4HdrLen pkt l4 proto
  let n := expectedCount (pkt.length - hl) g
  if segs.length ≠ n then some "seg-count" else
  match checkLoop pkt l4 proto g n 0 0 segs with
  | some c => some c
  | none =>
    -- nothing lost at the end
    let total := (segs.map fun s => s.length - hl).sum
    if total ≠ pkt.length - hl then some "payload-concat" else none

/-- Every segment fits the 16-bit IP length field (otherwise no valid segmentation exists). -/
def representable (pkt : List UInt8) (l4 : Nat) (proto : L4) (g : Nat) : Bool :=
  let hl := l4 + l4HdrLen pkt l4 proto
  let segMax := hl + min g (pkt.length - hl)
  if isV4 pkt then segMax ≤ 65535 else segMax ≤ 65535 + 40

end Nebula.Spec.Segment
