/-
Specification of C38, written without reference to the code's bookkeeping.

A configuration is a finite collection of (CIDR, value) pairs. A CIDR inside the IPv4-mapped range
(::ffff:0:0/96) denotes the IPv4 network it maps to; a lookup address in IPv4-mapped form denotes the
IPv4 address. The answer for an address is the value of a most specific configured CIDR containing it;
when no configured CIDR of the address family contains it the answer is the family's implicit default: the
opposite of the (uniform) configured values of that family (allow when the family has no entry).
A family that mixes values without a /0 entry makes the list refused.
Core Lean only.
-/
import Nebula.Base.Net

namespace Nebula.Spec.AllowList
open Nebula.Net

abbrev Cfg := List (Prefix × Bool)

/-- the network a configured CIDR denotes. -/
def norm (p : Prefix) : Prefix :=
  if p.addr.is4in6 && decide (96 ≤ p.len) then { addr := p.addr.unmap, len := p.len - 96 } else p

def normed (es : Cfg) : Cfg := es.map (fun e => (norm e.1, e.2))

def ofFam (f : Fam) (es : Cfg) : Cfg := (normed es).filter (fun e => e.1.addr.fam == f)

def hasDefault (f : Fam) (es : Cfg) : Bool := (ofFam f es).any (fun e => e.1.len == 0)

def mixed (f : Fam) (es : Cfg) : Bool := (ofFam f es).any (fun e => e.2) && (ofFam f es).any (fun e => !e.2)

/-- the list must be refused. -/
def refused (es : Cfg) : Bool :=
  (mixed .v4 es && !hasDefault .v4 es) || (mixed .v6 es && !hasDefault .v6 es)

/-- opposite of the configured values of the family (allow if there are none). -/
def implicitDefault (f : Fam) (es : Cfg) : Bool := !(ofFam f es).any (fun e => e.2)

/-- configured networks containing the (unmapped) address. -/
def matching (es : Cfg) (a : Addr) : Cfg := (normed es).filter (fun e => e.1.contains a.unmap)

/-- `b` is a correct answer for `a`: the value of a most specific matching CIDR, or the implicit default
if there is none. (When two configured CIDRs denote the same network with different values both values
are admissible; `consistent` excludes that.) -/
def admissible (es : Cfg) (a : Addr) (b : Bool) : Bool :=
  let ms := matching es a
  if ms.isEmpty then b == implicitDefault a.unmap.fam es
  else ms.any (fun e => e.2 == b && ms.all (fun e' => decide (e'.1.len ≤ e.1.len)))

/-- no two configured CIDRs denote the same network with different values. -/
def consistent (es : Cfg) : Prop :=
  ∀ e ∈ normed es, ∀ e' ∈ normed es, e.1.addr.fam = e'.1.addr.fam → e.1.len = e'.1.len →
    topBits e.1.addr.fam e.1.addr.val e.1.len = topBits e.1.addr.fam e'.1.addr.val e.1.len → e.2 = e'.2

/-- interface-name rules (all of one value `v`): a name matching some rule gets `v`, any other name the
opposite; no rules: allow. -/
def nameAnswer {Name : Type} (pats : List (Name → Bool)) (v : Bool) (name : Name) : Bool :=
  if pats.isEmpty then true else if pats.any (fun p => p name) then v else !v

end Nebula.Spec.AllowList

namespace Nebula.Spec.AllowList
open Nebula.Net

/-- a possibly absent list (`nil` allows everything). -/
def listAdmissible (l : Option Cfg) (a : Addr) (b : Bool) : Bool :=
  match l with
  | none => b
  | some es => admissible es a b

abbrev Ranges := List (Prefix × Cfg)

/-- ranges (normalised) containing the overlay address. -/
def matchingRanges (rs : Ranges) (vpn : Addr) : Ranges :=
  (rs.map (fun e => (norm e.1, e.2))).filter (fun e => e.1.contains vpn.unmap)

/-- `b` is a correct answer of the range-specific part: the answer of the list of a most specific range
containing the overlay address, allow if there is none. -/
def insideAdmissible (rs : Ranges) (vpn udp : Addr) (b : Bool) : Bool :=
  let ms := matchingRanges rs vpn
  if ms.isEmpty then b
  else ms.any (fun e => admissible e.2 udp b && ms.all (fun e' => decide (e'.1.len ≤ e.1.len)))

/-- "Per-overlay-range remote lists apply in addition to the global one". -/
def remoteAdmissible (g : Option Cfg) (rs : Ranges) (vpn udp : Addr) (b : Bool) : Bool :=
  [true, false].any fun bg => [true, false].any fun bi =>
    listAdmissible g udp bg && insideAdmissible rs vpn udp bi && b == (bg && bi)

/-- all overlay addresses of the peer must pass. -/
def remoteAllAdmissible (g : Option Cfg) (rs : Ranges) (vpns : List Addr) (udp : Addr) (b : Bool) : Bool :=
  match vpns with
  | [] => listAdmissible g udp b
  | v :: vs =>
    [true, false].any fun b1 => [true, false].any fun b2 =>
      remoteAdmissible g rs v udp b1 && remoteAllAdmissible g rs vs udp b2 && b == (b1 && b2)

end Nebula.Spec.AllowList
