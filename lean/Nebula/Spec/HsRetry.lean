/-
Specification of the retry schedule of a pending handshake (C32), independent of the timer-wheel
implementation: every pending handshake owns ONE countdown, measured in whole try-intervals since the
node's first tick.

  * a handshake started while the tick count is T makes its first attempt at tick T + 2
    (one interval of delay, plus the wheel's documented one-tick rounding),
  * an attempt that raises the attempt counter to c schedules the next one c + 1 ticks later
    (delay c · interval: linearly growing),
  * an attempt found with counter ≥ retries gives up: the entry disappears,
  * a lighthouse-triggered attempt counts as an attempt but does not reschedule.
-/
namespace Nebula.Spec.HsRetry

structure Entry where
  addr : Nat
  obj : Nat            -- identity of the pending handshake (a restart is a new handshake)
  counter : Int := 0
  due : Nat
  deriving Repr, DecidableEq, Inhabited

structure St where
  retries : Int
  interval : Nat
  T : Nat := 0                 -- whole intervals elapsed since the first tick
  last : Option Nat := none    -- time (ns) the tick count was last aligned to
  entries : List Entry := []   -- in creation / rescheduling order
  deriving Repr, DecidableEq, Inhabited

def St.start (s : St) (addr obj : Nat) : St :=
  { s with entries := s.entries ++ [{ addr := addr, obj := obj, due := s.T + 2 }] }

def St.drop (s : St) (obj : Nat) : St := { s with entries := s.entries.filter (·.obj != obj) }

/-- one due attempt -/
def St.attempt (s : St) (e : Entry) : St :=
  let rest := s.entries.filter (·.obj != e.obj)
  if e.counter ≥ s.retries then { s with entries := rest }
  else
    let c := e.counter + 1
    { s with entries := rest ++ [{ e with counter := c, due := s.T + c.toNat + 1 }] }

def insertByDue (e : Entry) : List Entry → List Entry
  | [] => [e]
  | x :: xs => if e.due < x.due then e :: x :: xs else x :: insertByDue e xs

/-- a clock tick at time `now`: all countdowns that ran out fire, earliest first -/
def St.tick (s : St) (now : Nat) : St :=
  let last := s.last.getD now
  let k := (now - last) / s.interval
  let T' := s.T + k
  let dueNow := (s.entries.filter (fun e => e.due ≤ T')).foldl (fun acc e => insertByDue e acc) []
  -- insertByDue puts later-inserted equal-due entries after earlier ones
  let s := { s with T := T', last := some (last + s.interval * k) }
  dueNow.foldl (fun s e => s.attempt e) s

/-- a lighthouse-triggered attempt: counts, does not reschedule -/
def St.trigger (s : St) (addr : Nat) : St :=
  match s.entries.find? (·.addr == addr) with
  | none => s
  | some e =>
    if e.counter ≥ s.retries then { s with entries := s.entries.filter (·.obj != e.obj) }
    else { s with entries := s.entries.map (fun x => if x.obj == e.obj then { x with counter := x.counter + 1 } else x) }

/-- expected `(addr, counter)` pairs -/
def St.view (s : St) : List (Nat × Int) := s.entries.map (fun e => (e.addr, e.counter))

end Nebula.Spec.HsRetry
