/-
Specification for C41, written independently of the parser model (declaratively, per entry):
"Routes and unsafe routes load only if every entry is well formed, with routes inside and unsafe routes
outside the node's overlay networks, and numeric fields (MTU, metric, gateway weight) given as integers
or as decimal strings take exactly the stated value. Out-of-range values are refused rather than
replaced."
-/
import Nebula.Model.Routes

namespace Nebula.Spec.Routes
open Nebula.Net Nebula.Routes

/-- pointwise relation between two lists of equal length. -/
inductive All2 {α β : Type} (R : α → β → Prop) : List α → List β → Prop
  | nil : All2 R [] []
  | cons {a b as bs} : R a b → All2 R as bs → All2 R (a :: as) (b :: bs)

/-- value of a string of ASCII digits read as a decimal numeral (`none` if some character is not a
digit): each further digit multiplies what was read so far by ten. -/
def digitsValue (cs : List Char) : Option Nat :=
  cs.foldl (fun acc c =>
    match acc, digitVal c with
    | some n, some d => some (n * 10 + d)
    | _, _ => none) (some 0)

/-- A decimal string: optional sign, at least one digit; its value. -/
def decimalValue (cs : List Char) : Option Int :=
  match cs with
  | [] => none
  | c :: ds =>
    if c = '+' then (if ds = [] then none else (digitsValue ds).map Int.ofNat)
    else if c = '-' then (if ds = [] then none else (digitsValue ds).map (fun n => - Int.ofNat n))
    else (digitsValue (c :: ds)).map Int.ofNat

/-- The number a configuration value *states*: an integer states itself, a decimal string states its
value (as far as a Go `int` can hold it); anything else (malformed string, bool, float, nil, list, map)
states no number. -/
def stated (v : Yaml) : Option Int :=
  match v with
  | .int i => some i
  | .str s =>
    match decimalValue s.toList with
    | some n => if - (2 : Int) ^ 63 ≤ n ∧ n < (2 : Int) ^ 63 then some n else none
    | none => none
  | _ => none

/-- An optional numeric field: absent means the default, present must state a number. -/
def statedOr (dflt : Int) (v : Option Yaml) : Option Int :=
  match v with
  | none => some dflt
  | some v => stated v

/-- entry `e` of `tun.routes` is well formed and denotes route `r`. -/
def RouteOK (o : Oracle) (networks : List Prefix) (e : Yaml) (r : Route) : Prop :=
  ∃ m, e = .map m ∧
    (∃ v, lookup "mtu" m = some v ∧ stated v = some r.mtu) ∧ 500 ≤ r.mtu ∧
    (∃ v, lookup "route" m = some v ∧ o.parsePrefix (fmtV v) = some r.cidr) ∧
    (∃ n ∈ networks, n.contains r.cidr.addr = true ∧ n.len ≤ r.cidr.len) ∧
    r.metric = 0 ∧ r.via = [] ∧ r.install = true

/-- element `v` of a `via` list is well formed and denotes gateway `g`. -/
def GatewayOK (o : Oracle) (v : Yaml) (g : Gateway) : Prop :=
  ∃ gm, v = .map gm ∧
    (∃ s, lookup "gateway" gm = some (.str s) ∧ o.parseAddr s = some g.addr) ∧
    statedOr 1 (lookup "weight" gm) = some g.weight ∧ 1 ≤ g.weight ∧ g.weight ≤ 2147483647

/-- the `via` value is an address (one gateway of weight 1) or a list of well-formed gateways. -/
def ViaOK (o : Oracle) (v : Yaml) (gs : List Gateway) : Prop :=
  (∃ s a, v = .str s ∧ o.parseAddr s = some a ∧ gs = [{ addr := a, weight := 1 }]) ∨
  (∃ l, v = .list l ∧ All2 (GatewayOK o) l gs)

/-- entry `e` of `tun.unsafe_routes` is well formed and denotes route `r`. -/
def UnsafeOK (o : Oracle) (networks : List Prefix) (e : Yaml) (r : Route) : Prop :=
  ∃ m, e = .map m ∧
    statedOr 0 (lookup "mtu" m) = some r.mtu ∧ (r.mtu = 0 ∨ 500 ≤ r.mtu) ∧
    statedOr 0 (lookup "metric" m) = some r.metric ∧ 0 ≤ r.metric ∧ r.metric ≤ 2147483647 ∧
    (∃ v, lookup "via" m = some v ∧ ViaOK o v r.via) ∧
    (∃ v, lookup "route" m = some v ∧ o.parsePrefix (fmtV v) = some r.cidr) ∧
    (match lookup "install" m with
      | none => r.install = true
      | some v => parseBool (fmtV v) = some r.install) ∧
    (∀ n ∈ networks, n.contains r.cidr.addr = false)

/-- The configuration value `v` (of `tun.routes` / `tun.unsafe_routes`; `none` = key absent) loads as `rs`. -/
def Loads (entryOK : Yaml → Route → Prop) (v : Option Yaml) (rs : List Route) : Prop :=
  ((v = none ∨ v = some .null) ∧ rs = []) ∨ (∃ l, v = some (.list l) ∧ All2 entryOK l rs)

end Nebula.Spec.Routes

namespace Nebula.Spec.Routes
open Nebula.Net Nebula.Routes

/-! ### The same specification as executable functions (`none` = must be refused); this is what the
correspondence driver uses as the property oracle. `Lemmas/Routes` proves them equivalent to the
relations above. -/

/-- every element maps to `some`: the list of results. -/
def mapOpt {α β : Type} (f : α → Option β) : List α → Option (List β)
  | [] => some []
  | a :: as =>
    match f a, mapOpt f as with
    | some b, some bs => some (b :: bs)
    | _, _ => none

def specRoute (o : Oracle) (networks : List Prefix) (e : Yaml) : Option Route :=
  match e with
  | .map m =>
    match (lookup "mtu" m).bind stated, (lookup "route" m).bind (fun v => o.parsePrefix (fmtV v)) with
    | some mtu, some cidr =>
      if 500 ≤ mtu ∧ networks.any (fun n => n.contains cidr.addr && decide (n.len ≤ cidr.len)) = true then
        some { mtu := mtu, metric := 0, cidr := cidr, via := [], install := true }
      else none
    | _, _ => none
  | _ => none

def specGateway (o : Oracle) (v : Yaml) : Option Gateway :=
  match v with
  | .map gm =>
    match lookup "gateway" gm with
    | some (.str s) =>
      match o.parseAddr s, statedOr 1 (lookup "weight" gm) with
      | some a, some w => if 1 ≤ w ∧ w ≤ 2147483647 then some { addr := a, weight := w } else none
      | _, _ => none
    | _ => none
  | _ => none

def specVia (o : Oracle) (v : Yaml) : Option (List Gateway) :=
  match v with
  | .str s => (o.parseAddr s).map (fun a => [{ addr := a, weight := 1 }])
  | .list l => mapOpt (specGateway o) l
  | _ => none

def specInstall (v : Option Yaml) : Option Bool :=
  match v with
  | none => some true
  | some v => parseBool (fmtV v)

def specUnsafe (o : Oracle) (networks : List Prefix) (e : Yaml) : Option Route :=
  match e with
  | .map m =>
    match statedOr 0 (lookup "mtu" m), statedOr 0 (lookup "metric" m), (lookup "via" m).bind (specVia o),
          (lookup "route" m).bind (fun v => o.parsePrefix (fmtV v)), specInstall (lookup "install" m) with
    | some mtu, some metric, some via, some cidr, some install =>
      if (mtu = 0 ∨ 500 ≤ mtu) ∧ (0 ≤ metric ∧ metric ≤ 2147483647) ∧
          networks.any (fun n => n.contains cidr.addr) = false then
        some { mtu := mtu, metric := metric, cidr := cidr, via := via, install := install }
      else none
    | _, _, _, _, _ => none
  | _ => none

def specLoad (entry : Yaml → Option Route) (v : Option Yaml) : Option (List Route) :=
  match v with
  | none => some []
  | some .null => some []
  | some (.list l) => mapOpt entry l
  | some _ => none

end Nebula.Spec.Routes
