/-
Specification for C16 / C17: what the firewall rules *mean*, written flat — one conjunction per rule, one
disjunction over the rule list — with no tables, maps or shortcut paths.

Reading of the statement (nebula's documented rule semantics, `examples/config.yml`):
  a rule matches a packet in its own direction iff
    protocol   : rule `any`, or the packet's protocol (icmp = ICMP or ICMPv6);
    port       : an ICMP packet has no port: an icmp rule ignores its port fields, an `any`-protocol rule must
                 be a port-`any` rule (its range contains `PortAny` = 0);
                 otherwise the packet's port (the *local* port of an incoming packet, the *remote* port of an
                 outgoing one; `fragment` (−1) for a non-first fragment) lies in [start, end], or the range
                 contains `PortAny`;
    CA         : no `ca_name`/`ca_sha` given, or `ca_sha` = the certificate's issuer, or `ca_name` = the name
                 of the CA (in the pool) that issued the certificate;
    local CIDR : `any`, or contains the local address; when omitted: any if the node has no unsafe networks or
                 `default_local_cidr_any`, else one of the node's own assigned networks contains it;
    selector   : the rule has no selector or a selector says `any`; or all listed groups are in the
                 certificate; or `host` = certificate name; or `cidr` contains the remote address.
  A rule that `AddRule` refuses (unknown protocol, start > end) is not part of the rule set.
Core Lean only.
-/
import Nebula.Model.Firewall

namespace Nebula.Spec.Fw
open Nebula.Net Nebula.Fw

def isICMP (proto : Nat) : Bool := proto = 1 ∨ proto = 58

/-- the rule is one `AddRule` accepts. -/
def ruleValid (r : Rule) : Bool :=
  (r.proto = 0 ∨ r.proto = 6 ∨ r.proto = 17 ∨ r.proto = 1 ∨ r.proto = 58)
    ∧ (isICMP r.proto ∨ r.startPort ≤ r.endPort)

def protoOK (r : Rule) (p : Packet) : Bool :=
  r.proto = 0 ∨ (r.proto = 6 ∧ p.proto = 6) ∨ (r.proto = 17 ∧ p.proto = 17) ∨ (isICMP r.proto ∧ isICMP p.proto)

/-- the port number the rule is compared with. -/
def pktPort (p : Packet) (incoming : Bool) : Int :=
  if p.fragment then -1 else if incoming then p.localPort else p.remotePort

def inRange (r : Rule) (x : Int) : Bool := r.startPort ≤ x ∧ x ≤ r.endPort

def portOK (r : Rule) (p : Packet) (incoming : Bool) : Bool :=
  if isICMP r.proto then true
  else if isICMP p.proto then inRange r 0
  else inRange r (pktPort p incoming) ∨ inRange r 0

def caOK (r : Rule) (pr : Peer) : Bool :=
  (r.caSha = "" ∧ r.caName = "")
    ∨ (r.caSha ≠ "" ∧ r.caSha = pr.cert.issuer)
    ∨ (r.caName ≠ "" ∧ caNameFor pr.pool pr.cert.issuer = some r.caName)

def localOK (cfg : Cfg) (sel : CidrSel) (p : Packet) : Bool :=
  match sel with
  | .any => true
  | .pfx c => c.contains p.localAddr
  | .none =>
    if cfg.unsafeNetworks = [] ∨ cfg.defaultLocalCIDRAny then true
    else cfg.assignedNetworks.any (·.contains p.localAddr)

/-- `cidr` contains the remote address. -/
def remoteCidrOK (cidr : CidrSel) (p : Packet) : Bool :=
  match cidr with
  | .pfx q => q.contains p.remoteAddr
  | _ => false

def selectorOK (groups : List String) (host : String) (cidr : CidrSel) (p : Packet) (c : Cert) : Bool :=
  -- no selector at all, or a wildcard
  (groups = [] ∧ host = "" ∧ cidr = .none) ∨ "any" ∈ groups ∨ host = "any" ∨ cidr = .any
  -- all listed groups
  ∨ (groups ≠ [] ∧ ∀ g ∈ groups, g ∈ c.groups)
  -- host name
  ∨ (host ≠ "" ∧ host = c.name)
  -- remote CIDR
  ∨ remoteCidrOK cidr p

def ruleMatches (cfg : Cfg) (r : Rule) (p : Packet) (incoming : Bool) (pr : Peer) : Bool :=
  ruleValid r && decide (r.incoming = incoming) && protoOK r p && portOK r p incoming && caOK r pr
    && localOK cfg r.localCidr p && selectorOK r.groups r.host r.cidr p pr.cert

/-- the firewall's verdict for a packet with no connection-tracking state. -/
def allow (cfg : Cfg) (rules : List Rule) (p : Packet) (incoming : Bool) (pr : Peer) : Bool :=
  rules.any (fun r => ruleMatches cfg r p incoming pr)

/-! ### C17: authentic addresses -/

/-- "a source address that is either one of P's certified addresses inside the node's own overlay networks
or inside one of P's certified unsafe networks" -/
def remoteOK (my peer : Cert) (a : Addr) : Bool :=
  peer.networks.any (fun n => decide (n.addr = a) && my.networks.any (·.contains a))
    || peer.unsafeNetworks.any (·.contains a)

/-- "the node-side address must be one of the node's own certified addresses or inside its certified unsafe
networks" -/
def localAddrOK (my : Cert) (a : Addr) : Bool :=
  my.networks.any (fun n => decide (n.addr = a)) || my.unsafeNetworks.any (·.contains a)

end Nebula.Spec.Fw
